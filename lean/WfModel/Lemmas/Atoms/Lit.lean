import WfModel.Lemmas.Atoms.Ident
import WfModel.Lemmas.C06Int
import WfModel.Lemmas.C06Key
import WfModel.Lemmas.C06Ip
import WfModel.Lemmas.C06V6

/-!
# Concrete atoms, part 2: literals (`RhsValue::lex_with`) and ordering operators

`Lit` collects the literal renderings whose round trip C06 proves (`lexInt_renderInt`,
`lexBytes_quoted`, `lexBytes_raw`, `lexIpAddr_roundtrip_v4/v6`, `lexIpAddr_v6Str`); `Lit.lex` states them uniformly
for `lexRhsVal` before every continuation an atom stops at (`Stop`). Helper lemmas only.
-/
namespace WfModel.Atoms

open WfModel WfModel.Render WfModel.C07L

/-! ### what `Stop` gives -/

theorem stop_head {tight : Bool} {c : Char} {cs : Input} (h : Stop tight (c :: cs) = true) :
    c = ' ' ∨ c = '\r' ∨ c = '\n' ∨ c = ')' ∨ c = '&' ∨ c = '|' ∨ c = '^' := by
  simp only [Stop, isSpace, symStart, Bool.or_eq_true, Bool.and_eq_true, decide_eq_true_eq,
    beq_iff_eq] at h
  rcases h with ((((h | h) | h) | h) | ⟨_, ((h | h) | h)⟩) <;> simp [h]

/-- a predicate that rejects the seven characters an atom stops at rejects the head of every
`Stop` continuation -/
theorem stop_headNot {tight : Bool} {rest : Input} (h : Stop tight rest = true) (p : Char → Bool)
    (hp : p ' ' = false ∧ p '\r' = false ∧ p '\n' = false ∧ p ')' = false ∧ p '&' = false ∧
      p '|' = false ∧ p '^' = false) : headNot p rest = true := by
  cases rest with
  | nil => rfl
  | cons c cs =>
    rcases stop_head h with rfl | rfl | rfl | rfl | rfl | rfl | rfl <;> simp [headNot, hp]

theorem stop_noHex {tight : Bool} {rest : Input} (h : Stop tight rest = true) :
    NoHexDigitHead rest = true := stop_headNot h _ (by decide)

theorem stop_noX {tight : Bool} {rest : Input} (h : Stop tight rest = true) :
    NoXHead rest = true := stop_headNot h _ (by decide)

theorem stop_noIp {tight : Bool} {rest : Input} (h : Stop tight rest = true) :
    headNot isIpChar rest = true := stop_headNot h _ (by decide)

/-! ### literals -/

/-- the literal renderings covered: integers in the three radices (`renderInt`), quoted byte
strings with any escape choice per byte (`renderQuoted`), raw strings `r#"…"#`, IPv4 dotted
quads, IPv6 in full (uncompressed) form and in the form std's `Display` prints (`v6Str`: `::`
compression of the longest zero run, `::ffff:a.b.c.d`) -/
inductive Lit
  | int (form : IntForm) (v : Int)
  | quoted (items : List (Esc × UInt8))
  | raw (k : Nat) (body : List Char)
  | ip4 (a : Nat)
  | ip6 (a : Nat)
  | ip6std (a : Nat)
deriving DecidableEq, Repr

def Lit.txt : Lit → List Char
  | .int f v => renderInt f v
  | .quoted items => '"' :: (renderQuoted items ++ ['"'])
  | .raw k body => 'r' :: (hashes k ++ '"' :: (body ++ '"' :: hashes k))
  | .ip4 a => dotted a
  | .ip6 a => v6full a
  | .ip6std a => (v6Str a).toList

/-- the `RhsValue` the literal stands for -/
def Lit.val : Lit → RhsVal
  | .int _ v => .int v
  | .quoted items => .bytes { fmt := .quoted, data := items.map (·.2) }
  | .raw k body => .bytes { fmt := .raw k, data := utf8s body }
  | .ip4 a => .ip (.v4 a)
  | .ip6 a => .ip (.v6 a)
  | .ip6std a => .ip (.v6 a)

/-- type of the field it can be compared with -/
def Lit.ty : Lit → Ty
  | .int _ _ => .int
  | .quoted _ => .bytes
  | .raw _ _ => .bytes
  | .ip4 _ => .ip
  | .ip6 _ => .ip
  | .ip6std _ => .ip

/-- side conditions: the value is an `i64` and hex/octal have no sign; unescaped bytes are
printable ASCII; at most 255 hashes and no early terminator in a raw body; the address fits -/
def Lit.ok : Lit → Bool
  | .int f v => f.admits v && inI64 v
  | .quoted items => items.all escOk
  | .raw k body => decide (k ≤ 255) && rawBodyOk k body
  | .ip4 a => decide (a < 2 ^ 32)
  | .ip6 a => decide (a < 2 ^ 128)
  | .ip6std a => decide (a < 2 ^ 128)

theorem Lit.ty_cases (l : Lit) : l.ty = .int ∨ l.ty = .ip ∨ l.ty = .bytes := by
  cases l <;> simp [Lit.ty]

/-- **literal round trip under `RhsValue::lex_with`**, before every continuation an atom
stops at -/
theorem Lit.lex {tight : Bool} (l : Lit) (hok : l.ok = true) (rest : Input)
    (hstop : Stop tight rest = true) :
    lexRhsVal l.ty (l.txt ++ rest) = some (.ok (l.val, rest)) := by
  cases l with
  | int f v =>
    simp only [Lit.ok, Bool.and_eq_true] at hok
    have := lexInt_renderInt f v rest hok.1 hok.2 (stop_noHex hstop) (fun _ _ => stop_noX hstop)
    simp only [Lit.ty, Lit.txt, Lit.val, lexRhsVal, this]
    rfl
  | quoted items =>
    simp only [Lit.ok, List.all_eq_true] at hok
    have := lexBytes_quoted items rest hok
    simp only [Lit.ty, Lit.txt, Lit.val, lexRhsVal, List.cons_append, List.append_assoc,
      List.nil_append, this]
    rfl
  | raw k body =>
    simp only [Lit.ok, Bool.and_eq_true, decide_eq_true_eq] at hok
    have := lexBytes_raw k hok.1 body rest hok.2
    simp only [Lit.ty, Lit.txt, Lit.val, lexRhsVal, List.cons_append, List.append_assoc, this]
    rfl
  | ip4 a =>
    simp only [Lit.ok, decide_eq_true_eq] at hok
    have := lexIpAddr_roundtrip_v4 (rest := rest) hok (stop_noIp hstop)
    simp only [Lit.ty, Lit.txt, Lit.val, lexRhsVal, this]
    rfl
  | ip6 a =>
    simp only [Lit.ok, decide_eq_true_eq] at hok
    have := lexIpAddr_roundtrip_v6 (rest := rest) hok (stop_noIp hstop)
    simp only [Lit.ty, Lit.txt, Lit.val, lexRhsVal, this]
    rfl
  | ip6std a =>
    simp only [Lit.ok, decide_eq_true_eq] at hok
    have := lexIpAddr_v6Str (rest := rest) hok (stop_noIp hstop)
    simp only [Lit.ty, Lit.txt, Lit.val, lexRhsVal, this]
    rfl

/-! ### first character of a literal -/

/-- neither a space (so `skip_space` stops there) nor `=` (so `>`/`<` are not read as `>=`/`<=`) -/
def litStart (c : Char) : Bool := !isSpace c && c != '='

theorem digitChar_litStart : ∀ d, d < 16 → litStart (digitChar d) = true := by decide

theorem digits_litStart {radix : Nat} (h2 : 2 ≤ radix) (h16 : radix ≤ 16) (n : Nat) (t : Input) :
    ∃ c cs, digits radix n ++ t = c :: cs ∧ litStart c = true := by
  obtain ⟨d, tl, he, hd, _⟩ := digits_head h2 n
  exact ⟨digitChar d, tl ++ t, by rw [he]; rfl, digitChar_litStart d (by omega)⟩

theorem ipChar_litStart {c : Char} (h : isIpChar c = true) : litStart c = true := by
  cases hl : litStart c with
  | true => rfl
  | false =>
    have : c = ' ' ∨ c = '\r' ∨ c = '\n' ∨ c = '=' := by
      simp only [litStart, isSpace, Bool.and_eq_false_iff, Bool.not_eq_false', Bool.or_eq_true,
        decide_eq_true_eq, bne_eq_false_iff_eq] at hl
      rcases hl with ((h | h) | h) | h <;> simp [h]
    rcases this with rfl | rfl | rfl | rfl <;> revert h <;> decide

theorem Lit.txt_head (l : Lit) : ∃ c cs, l.txt = c :: cs ∧ litStart c = true := by
  cases l with
  | int f v =>
    cases f with
    | dec =>
      simp only [Lit.txt, renderInt, renderDec]
      split
      · exact ⟨'-', _, rfl, by decide⟩
      · simpa using digits_litStart (by omega : 2 ≤ 10) (by omega) v.natAbs []
    | hex => exact ⟨'0', _, rfl, by decide⟩
    | oct => exact ⟨'0', _, rfl, by decide⟩
  | quoted items => exact ⟨'"', _, rfl, by decide⟩
  | raw k body => exact ⟨'r', _, rfl, by decide⟩
  | ip4 a =>
    simp only [Lit.txt, dotted_eq]
    exact digits_litStart (by omega : 2 ≤ 10) (by omega) _ _
  | ip6 a =>
    simp only [Lit.txt, v6full_eq]
    exact digits_litStart (by omega : 2 ≤ 16) (by omega) _ _
  | ip6std a =>
    simp only [Lit.txt]
    cases h : (v6Str a).toList with
    | nil => exact absurd h (v6Str_toList_ne_nil a)
    | cons c cs => exact ⟨c, cs, rfl, ipChar_litStart (v6Str_all_ipchar a c (by rw [h]; simp))⟩

theorem litStart_iff {c : Char} (h : litStart c = true) : isSpace c = false ∧ c ≠ '=' := by
  simpa [litStart] using h

/-! ### ordering operators: both spellings of each -/

/-- the two spellings of an ordering operator in `orderingOps`: the symbol (`sym = true`) or
the word -/
def ordAlias : OrdOp → Bool → String
  | .eq, false => "eq" | .eq, true => "=="
  | .ne, false => "ne" | .ne, true => "!="
  | .ge, false => "ge" | .ge, true => ">="
  | .le, false => "le" | .le, true => "<="
  | .gt, false => "gt" | .gt, true => ">"
  | .lt, false => "lt" | .lt, true => "<"

theorem ordAlias_mem (op : OrdOp) (sym : Bool) : (ordAlias op sym, op) ∈ orderingOps := by
  cases op <;> cases sym <;> decide

theorem ordAlias_mem_cmp (op : OrdOp) (sym : Bool) :
    (ordAlias op sym, CompOp.ord op) ∈ comparisonOps := by
  cases op <;> cases sym <;> decide

/-- every entry of the `lex_enum!` table is one of the two -/
theorem ordAlias_covers : ∀ e ∈ orderingOps, ∃ sym, e.1 = ordAlias e.2 sym := by
  simp only [orderingOps, List.mem_cons, List.not_mem_nil, or_false, forall_eq_or_imp, forall_eq]
  refine ⟨⟨false, rfl⟩, ⟨true, rfl⟩, ⟨false, rfl⟩, ⟨true, rfl⟩, ⟨false, rfl⟩, ⟨true, rfl⟩,
    ⟨false, rfl⟩, ⟨true, rfl⟩, ⟨false, rfl⟩, ⟨true, rfl⟩, ⟨false, rfl⟩, ⟨true, rfl⟩⟩

/-- first character of a spelling: no space; for symbols no identifier character, `.`, `[`, `(` -/
theorem ordAlias_head (op : OrdOp) (sym : Bool) :
    ∃ c cs, (ordAlias op sym).toList = c :: cs ∧ isSpace c = false ∧ c ≠ '(' ∧
      (sym = true → ∀ t, IdStop (c :: t) = true) := by
  cases op <;> cases sym <;>
    exact ⟨_, _, rfl, by decide, by decide, by first | (intro _ t; rw [idStop_cons]; decide) | (intro h; cases h)⟩

/-- **the operator position**: after layout, any spelling of an ordering operator followed by
layout and a literal start is lexed as that operator, leaving the layout and the literal
(`ComparisonOp::lex`: `in`, then `OrderingOp`, `IntOp`, `BytesOp`) -/
theorem lexEnum_ordAlias (op : OrdOp) (sym : Bool) (x : Input)
    (hx : x.head? ≠ some '=') :
    lexEnum comparisonOps ((ordAlias op sym).toList ++ x) = some (CompOp.ord op, x) :=
  comparisonOps_complete _ (ordAlias_mem_cmp op sym) x (fun _ => hx)

end WfModel.Atoms
