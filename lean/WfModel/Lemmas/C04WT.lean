import WfModel.Lemmas.C04Matrix
/-!
# C04 — the declarative typing judgment

`WT s e ty` ("filter expression `e` has type `ty` under scheme `s`") and its companions for
index expressions (`WTI`), function-call arguments (`WTA`, `WTArgs`), quantifier arguments
(`WTQ`) and operand lists (`WTItems`), written from the documented rules and *not* from
`Model/Parse.lean`.  `parse_sound` (Lemmas/C04Parse) shows the parser only produces
derivable nodes.

Deviations from the "ideal" rules that mirror the implementation (each is commented at the
rule):
* `IsTrue` is admitted on `Map(Bool)` and then has type `Map(Bool)`;
* an argument `x[*]…` of a call or of a quantifier is typed by its *element* type.
-/
namespace WfModel
namespace Spec

/-- index chain: each step follows `indexRule` -/
inductive IdxOk : Ty → List FieldIndex → Ty → Prop
  | nil (t : Ty) : IdxOk t [] t
  | arr {e t' : Ty} {r : List FieldIndex} (n : Nat) : IdxOk e r t' → IdxOk (.array e) (.arr n :: r) t'
  | key {e t' : Ty} {r : List FieldIndex} (k : List Char) : IdxOk e r t' → IdxOk (.map e) (.key k :: r) t'
  | eachA {e t' : Ty} {r : List FieldIndex} : IdxOk e r t' → IdxOk (.array e) (.each :: r) t'
  | eachM {e t' : Ty} {r : List FieldIndex} : IdxOk e r t' → IdxOk (.map e) (.each :: r) t'

/-- kind of a `{…}` literal -/
def valsTy : RhsVals → Ty
  | .int _ => .int | .ip _ => .ip | .bytes _ => .bytes

/-- the source operator a comparison node was written with (`none` = bare field) -/
def compOpOf : CmpOp → Option CompOp
  | .isTrue => none
  | .ordering o _ => some (.ord o)
  | .bitAnd _ => some .bitAnd
  | .contains _ => some .contains
  | .matches _ _ => some .matches_
  | .wildcard false _ => some .wildcard
  | .wildcard true _ => some .strictWildcard
  | .oneOf _ => some .in_
  | .inList _ _ => some .in_

/-- literal kind compatible with the lhs type; list reference resolves to the list
registered for the lhs type; wildcard pattern is valid -/
def litOk (s : Scheme) (t : Ty) : CmpOp → Prop
  | .ordering _ rhs => rhs.typeOf = t
  | .oneOf vs => valsTy vs = t
  | .inList l _ => s.getList t = some l
  | .wildcard _ b => (wildTokens b.data).isSome = true
  | _ => True

/-- operator / left type / literal compatibility. `hasEach` = the lhs contains `[*]`.
A bare lhs must be `Bool`, or (implementation quirk, mirrored: `field_expr.rs:308-334`) an
`Array(Bool)` **or `Map(Bool)`** without `[*]`. -/
def cmpOk (s : Scheme) (t : Ty) (hasEach : Bool) (op : CmpOp) : Prop :=
  match compOpOf op with
  | none => t = .bool ∨ (t.next = some .bool ∧ hasEach = false)
  | some c => allowed t c = true ∧ litOk s t op

/-- result type of a comparison: `Array(Bool)` when the lhs has `[*]`; a bare container of
booleans keeps its own type (so `Map(Bool)` for a map: quirk, mirrored); otherwise `Bool`. -/
def cmpTy (t : Ty) (hasEach : Bool) (op : CmpOp) : Ty :=
  if hasEach then .array .bool
  else match op with
    | .isTrue => t
    | _ => .bool

/-- declared parameter list of a simple function: mandatory then optional -/
def sigParams (ps : List (ArgKindSpec × Ty)) (os : List (ArgKindSpec × Val)) :
    List (ArgKindSpec × Ty) :=
  ps ++ os.map (fun o => (o.1, o.2.typeOf))

/-- argument kind/type rule and upper arity bound -/
def sigArgsOk : FuncSig → List ParamInfo → Prop
  | .simple ps os _ _, params =>
    params.length ≤ ps.length + os.length ∧
    ∀ (i : Nat) (p : ParamInfo), params[i]? = some p →
      ∃ k t, (sigParams ps os)[i]? = some (k, t) ∧ kindOk k p.isLiteral = true ∧ p.ty = t
  | .concat, params =>
    match params with
    | [] => True
    | p0 :: r => (p0.ty = .bytes ∨ ∃ e, p0.ty = .array e) ∧ ∀ p ∈ r, p.ty = p0.ty
  | .ctxCounter, params => ∀ p ∈ params, p.ty = .bytes

/-- minimal number of arguments -/
def minArgs : FuncSig → Nat
  | .simple ps _ _ _ => ps.length
  | .concat => 2
  | .ctxCounter => 1

def sigOk (sig : FuncSig) (params : List ParamInfo) : Prop :=
  minArgs sig ≤ params.length ∧ sigArgsOk sig params

/-- return type of a call -/
def retTy : FuncSig → List ParamInfo → Ty
  | .simple _ _ r _, _ => r
  | .concat, p :: _ => p.ty
  | .concat, [] => .bytes
  | .ctxCounter, _ => .int

def isLit : AExpr → Bool
  | .literal _ => true
  | _ => false

/-- type of a call before its own index suffix: `Array(ret)` when the first argument has
`[*]` (the function is mapped over it) -/
def callTy (sig : FuncSig) (args : List AExpr) (params : List ParamInfo) : Ty :=
  match args with
  | a :: _ => if a.mapEachCount > 0 then .array (retTy sig params) else retTy sig params
  | [] => retTy sig params

mutual
/-- logical expressions -/
inductive WT (s : Scheme) : LExpr → Ty → Prop
  | comparison {lhs : IExpr} {op : CmpOp} {t ty : Ty} :
      WTI s lhs t → cmpOk s t (decide (mapEachCount lhs.indexes > 0)) op →
      ty = cmpTy t (decide (mapEachCount lhs.indexes > 0)) op →
      WT s (.comparison lhs op) ty
  | paren {e : LExpr} {t : Ty} : WT s e t → WT s (.paren e) t
  | unaryNot {e : LExpr} {t : Ty} : WT s e t → WT s (.unaryNot e) t
  | quantifier {q : QOp} {a : QArg} : WTQ s a → WT s (.quantifier q a) .bool
  /-- both operands plain booleans, or both boolean arrays -/
  | combining {op : LogicalOp} {first : LExpr} {rest : List LExpr} {t : Ty} :
      WT s first t → (t = .bool ∨ t = .array .bool) → WTItems s t rest →
      WT s (.combining op (first :: rest)) t
/-- further operands of a logical operator: same type as the first -/
inductive WTItems (s : Scheme) : Ty → List LExpr → Prop
  | nil {t : Ty} : WTItems s t []
  | cons {t : Ty} {e : LExpr} {r : List LExpr} : WT s e t → WTItems s t r → WTItems s t (e :: r)
/-- index expressions (value expressions) -/
inductive WTI (s : Scheme) : IExpr → Ty → Prop
  | field {f : Nat} {ixs : List FieldIndex} {t : Ty} :
      f < s.fields.length → IdxOk (s.fieldTy f) ixs t → WTI s (.field f ixs) t
  /-- arity, argument kinds and types by the signature; `[*]` only in the first argument -/
  | call {fn : Nat} {name : List Char} {sig : FuncSig} {args : List AExpr}
      {params : List ParamInfo} {ctx : Option Nat} {ixs : List FieldIndex} {t : Ty} :
      s.funcs[fn]? = some (name, sig) → WTArgs s args params → sigOk sig params →
      (∀ a ∈ args.tail, a.mapEachCount = 0) →
      IdxOk (callTy sig args params) ixs t →
      WTI s (.call fn args ctx ixs) t
/-- the arguments of a call with their (literal?, type) descriptors -/
inductive WTArgs (s : Scheme) : List AExpr → List ParamInfo → Prop
  | nil : WTArgs s [] []
  | cons {a : AExpr} {t : Ty} {as : List AExpr} {ps : List ParamInfo} :
      WTA s a t → WTArgs s as ps → WTArgs s (a :: as) ({ isLiteral := isLit a, ty := t } :: ps)
/-- one argument. An index expression with `[*]` has its element type here (mirrors
`FunctionCallArgExpr::get_type`). -/
inductive WTA (s : Scheme) : AExpr → Ty → Prop
  | index {e : IExpr} {t : Ty} : WTI s e t → WTA s (.index e) t
  | literal (v : RhsVal) : WTA s (.literal v) v.typeOf
  | logical {e : LExpr} {t : Ty} : WT s e t → WTA s (.logical e) t
/-- quantifier argument: a boolean array. An index-expression argument must not contain
`[*]` (as an argument it is typed by its element type, but as a value it is the array of its
elements). -/
inductive WTQ (s : Scheme) : QArg → Prop
  | index {e : IExpr} : WTI s e (.array .bool) → mapEachCount e.indexes = 0 → WTQ s (.index e)
  | logical {e : LExpr} : WT s e (.array .bool) → WTQ s (.logical e)
end

end Spec
end WfModel
