import WfModel.Model.Eval
/-! C04 — the concrete scheme / context used by the `example`s of `Props/C04`. -/
namespace WfModel.C04
open WfModel

/-- fields `ay : Array(Bytes)`, optional `ob : Bytes`, `aab : Array(Array(Bool))`,
`ai : Array(Int)`; functions `len : Bytes → Int` (field argument), `concat` -/
def exScheme : Scheme :=
  { fields := [{ name := "ay".toList, ty := .array .bytes, optional := false },
               { name := "ob".toList, ty := .bytes, optional := true },
               { name := "aab".toList, ty := .array (.array .bool), optional := false },
               { name := "ai".toList, ty := .array .int, optional := false }],
    funcs := [("len".toList, .simple [(.field, .bytes)] [] .int 2), ("concat".toList, .concat)],
    lists := [] }

def exEnv : PEnv := { scheme := exScheme, st := { maxDepth := 4 } }

/-- `ay` empty, `ob` absent -/
def exCtx : Ctx :=
  { values := [some (.array .bytes []), none,
               some (.array (.array .bool) [.array .bool [.bool true]]),
               some (.array .int [.int 1])],
    lists := [] }

end WfModel.C04
