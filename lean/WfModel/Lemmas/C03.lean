import WfModel.Lemmas.C17

/-! Helper definitions and lemmas for C03 (function calls); no property statements. -/
namespace WfModel

/-! ### shape of a call -/

/-- declared return type of a call (`definition.return_type`) as the evaluator computes it -/
def callRet (s : Scheme) (sig : FuncSig) (args : List AExpr) : Ty :=
  match sig with
  | .simple _ _ r _ => r
  | .concat => (match args with | a :: _ => tyA s a | [] => .bytes)
  | .ctxCounter => .int

/-- the first argument uses `[*]` (map-each application) -/
def isMapped (args : List AExpr) : Bool :=
  match args with
  | a :: _ => decide (a.mapEachCount > 0)
  | [] => false

/-- `Option<LhsValue>` returned by the implementation → `Result<LhsValue, Type>` -/
def wrapRes (ret : Ty) : EM (Option Val) → EM VRes
  | .error e => .error e
  | .ok (some v) => .ok (.ok v)
  | .ok none => .ok (.error ret)

/-- `filter_map` over a possibly stuck function, left to right -/
def filterMapM {α β} (f : α → EM (Option β)) : List α → EM (List β)
  | [] => .ok []
  | a :: as =>
    match f a with
    | .error e => .error e
    | .ok o =>
      match filterMapM f as with
      | .error e => .error e
      | .ok l => .ok (match o with | some b => b :: l | none => l)

theorem filterMapM_pure {α β} (f : α → EM (Option β)) (g : α → Option β) (xs : List α)
    (h : ∀ x ∈ xs, f x = .ok (g x)) : filterMapM f xs = .ok (xs.filterMap g) := by
  induction xs with
  | nil => rfl
  | cons a as ih =>
    have h1 := h a (by simp)
    have h2 := ih (fun x hx => h x (by simp [hx]))
    simp only [filterMapM, h1, h2, List.filterMap_cons]
    cases g a <;> rfl

theorem filterMapM_congr {α β} (f g : α → EM (Option β)) (xs : List α)
    (h : ∀ x ∈ xs, f x = g x) : filterMapM f xs = filterMapM g xs := by
  induction xs with
  | nil => rfl
  | cons a as ih =>
    simp only [filterMapM]
    rw [h a (by simp), ih (fun x hx => h x (by simp [hx]))]

/-- the accumulation loop of the map-each application (`collect` in `evalBase`) -/
def collectStep (apply : Val → EM (Option Val)) (acc : EM (List Val)) (e : Val) : EM (List Val) :=
  match acc with
  | .error x => .error x
  | .ok l =>
    match apply e with
    | .error x => .error x
    | .ok none => .ok l
    | .ok (some r) => .ok (l ++ [r])

theorem collect_error (apply : Val → EM (Option Val)) (xs : List Val) (x : Stuck) :
    xs.foldl (collectStep apply) (.error x) = .error x := by
  induction xs with
  | nil => rfl
  | cons a as ih => simpa [List.foldl, collectStep] using ih

theorem collect_eq (apply : Val → EM (Option Val)) : ∀ (xs : List Val) (l0 : List Val),
    xs.foldl (collectStep apply) (.ok l0) =
      match filterMapM apply xs with
      | .error e => .error e
      | .ok l => .ok (l0 ++ l)
  | [], l0 => by simp [filterMapM]
  | a :: as, l0 => by
    simp only [List.foldl, filterMapM]
    cases ha : apply a with
    | error e => simp only [collectStep, ha]; exact collect_error apply as e
    | ok o =>
      cases o with
      | none =>
        simp only [collectStep, ha]
        rw [collect_eq apply as l0]
        cases filterMapM apply as <;> rfl
      | some r =>
        simp only [collectStep, ha]
        rw [collect_eq apply as (l0 ++ [r])]
        cases filterMapM apply as with
        | error e => rfl
        | ok l => simp

/-- check of the collected results against the declared return type
(`Array::try_from_iter` for maps, the `assert!`/`try_from_vec` path for arrays) -/
def finishMapped (ret : Ty) (stuck : Stuck) : EM (List Val) → EM VRes
  | .error e => .error e
  | .ok l => if l.all (fun x => x.typeOf == ret) then .ok (.ok (.array ret l)) else .error stuck

/-- the map-each application, given the evaluated first argument -/
def mappedResult (ret : Ty) (apply : Val → EM (Option Val)) : Val → EM VRes
  | .map _ kvs => finishMapped ret .tryFromIter (filterMapM apply (kvs.map (·.2)))
  | .array _ xs => finishMapped ret .assertArgs (filterMapM apply xs)
  | _ => .error .unreachable

theorem evalBase_call_plain (s : Scheme) (c : Ctx) (fn : Nat) (args : List AExpr)
    (ctx : Option Nat) (ixs : List FieldIndex) (nm : List Char) (sig : FuncSig)
    (hf : s.funcs[fn]? = some (nm, sig)) (hm : isMapped args = false) :
    evalBase s c (.call fn args ctx ixs) =
      match evalAs s c args with
      | .error e => .error e
      | .ok vs => wrapRes (callRet s sig args) (callImpl sig args.length ctx vs) := by
  rw [evalBase.eq_def]
  simp only [hf]
  cases args with
  | nil =>
    simp only [evalAs, List.length_nil]
    cases callImpl sig 0 ctx [] with
    | error e => rfl
    | ok o => cases o <;> rfl
  | cons a0 rest =>
    have : ¬ a0.mapEachCount > 0 := by simpa [isMapped] using hm
    simp only [this, if_false]
    cases evalAs s c (a0 :: rest) with
    | error e => rfl
    | ok vs =>
      simp only []
      cases callImpl sig (a0 :: rest).length ctx vs with
      | error e => rfl
      | ok o => cases o <;> rfl

theorem evalBase_call_mapped (s : Scheme) (c : Ctx) (fn : Nat) (a0 : AExpr) (rest : List AExpr)
    (ctx : Option Nat) (ixs : List FieldIndex) (nm : List Char) (sig : FuncSig)
    (hf : s.funcs[fn]? = some (nm, sig)) (hm : a0.mapEachCount > 0) :
    evalBase s c (.call fn (a0 :: rest) ctx ixs) =
      match evalA s c a0 with
      | .error e => .error e
      | .ok (.error _) => .ok (.error (.array (callRet s sig (a0 :: rest))))
      | .ok (.ok first) =>
        match evalAs s c rest with
        | .error e => .error e
        | .ok extra =>
          mappedResult (callRet s sig (a0 :: rest))
            (fun e => callImpl sig (rest.length + 1) ctx (.ok e :: extra)) first := by
  rw [evalBase.eq_def]
  simp only [hf, hm, if_true]
  cases evalA s c a0 with
  | error e => rfl
  | ok r =>
    cases r with
    | error t => rfl
    | ok first =>
      simp only []
      cases evalAs s c rest with
      | error e => rfl
      | ok extra =>
        simp only []
        cases first with
        | map t kvs =>
          simp only [mappedResult]
          have := collect_eq (fun e => callImpl sig (rest.length + 1) ctx (.ok e :: extra))
            (kvs.map (·.2)) []
          show finishMapped (callRet s sig (a0 :: rest)) .tryFromIter
              (List.foldl (collectStep fun e => callImpl sig (rest.length + 1) ctx (.ok e :: extra))
                (.ok []) (kvs.map (·.2))) = _
          rw [this]
          cases filterMapM (fun e => callImpl sig (rest.length + 1) ctx (.ok e :: extra))
            (kvs.map (·.2)) <;> simp
        | array t xs =>
          simp only [mappedResult]
          by_cases hx : xs.isEmpty = true
          · simp only [hx, if_true]
            rw [List.isEmpty_iff.mp hx]
            rfl
          · simp only [hx, if_false]
            have := collect_eq (fun e => callImpl sig (rest.length + 1) ctx (.ok e :: extra)) xs []
            show finishMapped (callRet s sig (a0 :: rest)) .assertArgs
                (List.foldl (collectStep fun e => callImpl sig (rest.length + 1) ctx (.ok e :: extra))
                  (.ok []) xs) = _
            rw [this]
            cases filterMapM (fun e => callImpl sig (rest.length + 1) ctx (.ok e :: extra)) xs <;>
              simp
        | _ => rfl

/-! ### arguments -/

theorem evalAs_eq_mapM' (s : Scheme) (c : Ctx) : ∀ as : List AExpr,
    evalAs s c as = mapM' (evalA s c) as
  | [] => by simp [evalAs, mapM']
  | a :: as => by
    rw [evalAs, mapM', evalAs_eq_mapM' s c as]
    cases evalA s c a with
    | error e => rfl
    | ok v => cases mapM' (evalA s c) as <;> rfl

theorem evalA_literal (s : Scheme) (c : Ctx) (v : RhsVal) :
    evalA s c (.literal v) = .ok (.ok v.toVal) := by
  rw [evalA]

theorem evalA_index (s : Scheme) (c : Ctx) (e : IExpr) :
    evalA s c (.index e) = evalI s c e := by
  rw [evalA]

theorem evalI_zero (s : Scheme) (c : Ctx) (e : IExpr) (h0 : mapEachCount e.indexes = 0) :
    evalI s c e =
      match evalBase s c e with
      | .error x => .error x
      | .ok (.error _) => .ok (.error (tyI s e))
      | .ok (.ok v) =>
        match getNested v e.indexes with
        | .error x => .error x
        | .ok none => .ok (.error (tyI s e))
        | .ok (some x) => .ok (.ok x) := by
  unfold evalI
  cases evalBase s c e with
  | error x => rfl
  | ok base =>
    simp only []
    rw [indexValue_zero _ _ _ h0]
    cases base <;> rfl

/-- the argument vector a `SimpleFunctionDefinition` implementation receives: the supplied
arguments followed by the defaults of the omitted optional parameters -/
def simpleArgs (ps : List (ArgKindSpec × Ty)) (os : List (ArgKindSpec × Val)) (vs : List VRes) :
    List VRes :=
  vs ++ (os.drop (vs.length - ps.length)).map (fun o => .ok o.2)

theorem callImpl_simple (ps : List (ArgKindSpec × Ty)) (os : List (ArgKindSpec × Val)) (r : Ty)
    (id : Nat) (ctx : Option Nat) (vs : List VRes) :
    callImpl (.simple ps os r id) vs.length ctx vs = simpleImpl id (simpleArgs ps os vs) := by
  simp [callImpl, simpleArgs]

theorem simpleArgs_length (ps : List (ArgKindSpec × Ty)) (os : List (ArgKindSpec × Val))
    (vs : List VRes) (h1 : ps.length ≤ vs.length) (h2 : vs.length ≤ ps.length + os.length) :
    (simpleArgs ps os vs).length = ps.length + os.length := by
  simp only [simpleArgs, List.length_append, List.length_map, List.length_drop]
  omega

theorem mapM'_length {α β} (f : α → EM β) : ∀ (xs : List α) (ys : List β),
    mapM' f xs = .ok ys → ys.length = xs.length
  | [], ys, h => by simp [mapM'] at h; subst h; rfl
  | a :: as, ys, h => by
    simp only [mapM'] at h
    cases ha : f a with
    | error e => rw [ha] at h; cases h
    | ok b =>
      rw [ha] at h
      cases hr : mapM' f as with
      | error e => rw [hr] at h; cases h
      | ok bs =>
        rw [hr] at h
        simp only [Except.ok.injEq] at h
        subst h
        simp [mapM'_length f as bs hr]

/-! ### comparisons on the identifier's value -/

/-- `ComparisonExpr::compile` given the identifier's optional value: depends on the
left-hand side only through its static type and its indexes -/
def cmpOnBase (s : Scheme) (c : Ctx) (lt : Ty) (ixs : List FieldIndex) (op : CmpOp)
    (b : Option Val) : EM BV :=
  if op == CmpOp.isTrue then
    if lt == .bool then compareWith c b ixs false op
    else if lt.next == some .bool then compareVecDirect c b ixs op
    else .error .unreachable
  else compareWith c b ixs (nilDefault s op) op

theorem evalL_comparison (s : Scheme) (c : Ctx) (lhs : IExpr) (op : CmpOp) :
    evalL s c (.comparison lhs op) =
      match evalBase s c lhs with
      | .error e => .error e
      | .ok base => cmpOnBase s c (tyI s lhs) lhs.indexes op (resOpt base) := by
  rw [evalL]
  cases evalBase s c lhs with
  | error e => rfl
  | ok base => cases base <;> rfl

theorem compareWith_none (c : Ctx) (ixs : List FieldIndex) (d : Bool) (op : CmpOp) :
    compareWith c none ixs d op =
      if mapEachCount ixs = 0 then .ok (.one d) else .ok (.vec []) := by
  by_cases h : mapEachCount ixs = 0
  · rw [compareWith_zero _ _ _ _ _ h]; simp [h]
  · rw [compareWith_each_none _ _ _ _ (by omega)]; simp [h]

/-! ### `concat` -/

/-- the arguments that have a value, in order -/
def present (args : List VRes) : List Val := args.filterMap resOpt

def Val.bytesOf : Val → Bytes
  | .bytes b => b
  | _ => []

def Val.isArray : Val → Bool
  | .array _ _ => true
  | _ => false

theorem present_eq (args : List VRes) :
    (args.filterMap fun a => match a with | .ok v => some v | .error _ => none) = present args := by
  unfold present
  congr 1

theorem present_nil_iff (args : List VRes) :
    present args = [] ↔ ∀ a ∈ args, ∃ t, a = .error t := by
  unfold present
  rw [List.filterMap_eq_nil_iff]
  constructor
  · intro h a ha
    have := h a ha
    cases a with
    | error t => exact ⟨t, rfl⟩
    | ok v => simp [resOpt] at this
  · intro h a ha
    obtain ⟨t, rfl⟩ := h a ha
    rfl

theorem foldl_bytes (rest : List Val) : ∀ b : Bytes,
    rest.foldl (fun acc v => match v with | Val.bytes c => acc ++ c | _ => acc) b =
      b ++ rest.flatMap Val.bytesOf := by
  induction rest with
  | nil => intro b; simp
  | cons v vs ih =>
    intro b
    simp only [List.foldl, List.flatMap_cons]
    cases v <;> simp [ih, Val.bytesOf]

/-- the accumulation loop of `concat_array` -/
def concatStep (acc : EM (List Val)) (v : Val) : EM (List Val) :=
  match acc, v with
  | .ok l, .array _ ys => .ok (l ++ ys)
  | .ok _, _ => .error .unreachable
  | .error e, _ => .error e

theorem foldl_arrays (rest : List Val) (h : ∀ v ∈ rest, v.isArray = true) : ∀ l : List Val,
    rest.foldl concatStep (.ok l) = .ok (l ++ rest.flatMap Val.elements) := by
  induction rest with
  | nil => intro l; simp
  | cons v vs ih =>
    intro l
    have hv := h v (by simp)
    have ih' := ih (fun x hx => h x (by simp [hx]))
    cases v with
    | array t ys =>
      simp only [List.foldl, concatStep, List.flatMap_cons, Val.elements]
      rw [ih']
      simp
    | _ => simp [Val.isArray] at hv

theorem concatImpl_eq (args : List VRes) :
    concatImpl args =
      match present args with
      | [] => .ok none
      | Val.array t xs :: rest =>
        (match rest.foldl concatStep (.ok xs) with
         | .error e => .error e
         | .ok l =>
           if l.all (fun x => x.typeOf == t) then .ok (some (.array t l)) else .error .tryFromIter)
      | Val.bytes b :: rest => .ok (some (.bytes (b ++ rest.flatMap Val.bytesOf)))
      | _ => .error .unreachable := by
  unfold concatImpl
  generalize hg : List.filterMap _ args = p
  have hp : p = present args := by
    rw [← hg]; unfold present; congr 1
  subst hp
  simp only []
  cases present args with
  | nil => rfl
  | cons v rest =>
    cases v with
    | bytes b => exact congrArg (fun x => Except.ok (some (Val.bytes x))) (foldl_bytes rest b)
    | array t xs => rfl
    | _ => rfl

/-! ### the per-call definition context through the argument loop -/

/-- For `ctxfn` the counter grows by one per accepted argument: the same context object is
handed to every `check_param`. -/
theorem callArgsLoop_ctx (env : PEnv) (lower : Option Level) : ∀ (f : Nat) (inp : Input)
    (args : List AExpr) (params : List ParamInfo) (n : Nat)
    (res : List AExpr × List ParamInfo × Option Nat) (rest : Input),
    callArgsLoop env lower .ctxCounter f inp args params (some n) = .ok (res, rest) →
    args.length ≤ res.1.length ∧ res.2.2 = some (n + (res.1.length - args.length))
  | 0, inp, args, params, n, res, rest, h => by
    simp [callArgsLoop, errAt] at h
  | f + 1, inp, args, params, n, res, rest, h => by
    rw [callArgsLoop.eq_def] at h
    simp only [] at h
    split at h
    · simp only [Except.ok.injEq, Prod.mk.injEq] at h
      obtain ⟨rfl, rfl⟩ := h
      simp
    · split at h
      · simp only [Except.ok.injEq, Prod.mk.injEq] at h
        obtain ⟨rfl, rfl⟩ := h
        simp
      · repeat' split at h
        all_goals (try (simp [errAt, errSpan] at h; done))
        all_goals
          simp only [Option.map_some] at h
          have ih := callArgsLoop_ctx env lower f _ _ _ _ _ _ h
          simp only [List.length_append, List.length_cons, List.length_nil] at ih
          refine ⟨by omega, ?_⟩
          rw [ih.2]
          congr 1
          omega

/-- `lex_with_function` for `ctxfn`: the context stored in the call node is the counter
after the last `check_param` = the number of arguments. -/
theorem callBodyL_ctx (env : PEnv) (lower : Option Level) (fn : Nat) (input rest : Input)
    (args : List AExpr) (ctx : Option Nat) (ty : Ty)
    (h : callBodyL env lower fn .ctxCounter input = .ok ((args, ctx, ty), rest)) :
    ctx = some args.length := by
  unfold callBodyL at h
  simp only [] at h
  split at h
  · simp [errAt] at h
  · cases hl : callArgsLoop env lower .ctxCounter _ _ [] [] (some 0) with
    | error e => rw [hl] at h; cases h
    | ok r =>
      obtain ⟨⟨args', params', ctx'⟩, rest'⟩ := r
      have hc := callArgsLoop_ctx env lower _ _ _ _ _ _ _ hl
      rw [hl] at h
      simp only [] at h
      repeat' split at h
      all_goals (try (simp [errAt] at h; done))
      all_goals
        simp only [Except.ok.injEq, Prod.mk.injEq] at h
        obtain ⟨⟨rfl, rfl, _⟩, _⟩ := h
        simpa using hc.2

theorem level_callBody (env : PEnv) (n : Nat) :
    (level env n).callBody = callBodyL env (lowerOf env n) := by
  cases n <;> rfl

/-- the same through the parser's real entry point for identifiers at any nesting level -/
theorem indexExprL_ctx (env : PEnv) (n : Nat) (input rest : Input) (t : Typed IExpr)
    (i : Nat) (args : List AExpr) (ctx : Option Nat) (ixs : List FieldIndex) (nm : List Char)
    (h : indexExprL env (lowerOf env n) input = .ok (t, rest))
    (hn : t.node = .call i args ctx ixs)
    (hf : env.scheme.funcs[i]? = some (nm, .ctxCounter)) :
    ctx = some args.length := by
  unfold indexExprL at h
  split at h
  · cases h
  · repeat' split at h
    all_goals (try (cases h; done))
    all_goals
      simp only [Except.ok.injEq, Prod.mk.injEq] at h
      obtain ⟨rfl, _⟩ := h
      simp at hn
  · rename_i j r hid
    split at h
    · simp [errAt] at h
    · rename_i nm' sig hsig
      cases n with
      | zero => simp [lowerOf, nestErr, errAt] at h
      | succ m =>
        have hl : lowerOf env (m + 1) = some (level env m) := rfl
        rw [hl] at h
        simp only [level_callBody] at h
        cases hb : callBodyL env (lowerOf env m) j sig r with
        | error e => rw [hb] at h; cases h
        | ok res =>
          obtain ⟨⟨args', ctx', callTy⟩, rest2⟩ := res
          rw [hb] at h
          simp only [] at h
          split at h
          · cases h
          · simp only [Except.ok.injEq, Prod.mk.injEq] at h
            obtain ⟨rfl, _⟩ := h
            simp only [IExpr.call.injEq] at hn
            obtain ⟨rfl, rfl, rfl, _⟩ := hn
            rw [hsig] at hf
            simp only [Option.some.injEq, Prod.mk.injEq] at hf
            obtain ⟨_, rfl⟩ := hf
            exact callBodyL_ctx env _ _ _ _ _ _ _ hb

/-! ### map-each application, uniform form -/

def Val.isContainer : Val → Bool
  | .array _ _ => true
  | .map _ _ => true
  | _ => false

/-- which Rust failure a wrongly typed result would hit (`Array::try_from_iter(..).unwrap()`
for maps, the typed `Array` push for arrays) -/
def mappedStuck : Val → Stuck
  | .map _ _ => .tryFromIter
  | _ => .assertArgs

theorem mappedResult_eq (ret : Ty) (apply : Val → EM (Option Val)) (first : Val)
    (hc : first.isContainer = true) :
    mappedResult ret apply first =
      finishMapped ret (mappedStuck first) (filterMapM apply first.elements) := by
  cases first <;> first | rfl | simp [Val.isContainer] at hc

theorem concatImpl_none_iff (args : List VRes) :
    concatImpl args = .ok none ↔ present args = [] := by
  rw [concatImpl_eq]
  cases present args with
  | nil => simp
  | cons v rest =>
    simp only [reduceCtorEq, iff_false]
    cases v with
    | array t xs =>
      simp only []
      cases List.foldl concatStep (.ok xs) rest with
      | error e => simp
      | ok l =>
        simp only []
        split <;> simp
    | _ => simp

end WfModel
