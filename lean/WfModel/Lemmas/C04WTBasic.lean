import WfModel.Lemmas.C04WT
namespace WfModel
namespace Spec

theorem IdxOk.applyIndexes_eq {t : Ty} {ixs : List FieldIndex} {t' : Ty} (h : IdxOk t ixs t') :
    applyIndexes t ixs = t' := by
  induction h with
  | nil t => rfl
  | arr n _ ih => simpa [applyIndexes, indexStep] using ih
  | key k _ ih => simpa [applyIndexes, indexStep] using ih
  | eachA _ ih => simpa [applyIndexes, indexStep] using ih
  | eachM _ ih => simpa [applyIndexes, indexStep] using ih

theorem IdxOk.snoc {t : Ty} {ixs : List FieldIndex} {t' t'' : Ty} {ix : FieldIndex}
    (h : IdxOk t ixs t') (hs : indexStep t' ix = some t'') : IdxOk t (ixs ++ [ix]) t'' := by
  induction h with
  | nil t =>
    cases ix <;> cases t <;> simp [indexStep] at hs <;> subst hs
    · exact .arr _ (.nil _)
    · exact .key _ (.nil _)
    · exact .eachA (.nil _)
    · exact .eachM (.nil _)
  | arr n _ ih => exact .arr n (ih hs)
  | key k _ ih => exact .key k (ih hs)
  | eachA _ ih => exact .eachA (ih hs)
  | eachM _ ih => exact .eachM (ih hs)

theorem WTItems.snoc {s : Scheme} {t : Ty} {e : LExpr} : ∀ {r : List LExpr},
    WTItems s t r → WT s e t → WTItems s t (r ++ [e])
  | [], _, he => .cons he .nil
  | _ :: _, .cons h1 h2, he => .cons h1 (WTItems.snoc h2 he)

theorem WTArgs.snoc {s : Scheme} {a : AExpr} {t : Ty} : ∀ {as : List AExpr} {ps : List ParamInfo},
    WTArgs s as ps → WTA s a t → WTArgs s (as ++ [a]) (ps ++ [{ isLiteral := isLit a, ty := t }])
  | [], _, .nil, ha => .cons ha .nil
  | _ :: _, _, .cons h1 h2, ha => .cons h1 (WTArgs.snoc h2 ha)

theorem WTArgs.length {s : Scheme} : ∀ {as : List AExpr} {ps : List ParamInfo},
    WTArgs s as ps → ps.length = as.length
  | [], _, .nil => rfl
  | _ :: _, _, .cons _ h2 => by simp [WTArgs.length h2]

theorem WT.ty_shape {s : Scheme} : ∀ (e : LExpr) {t : Ty}, WT s e t →
    t = .bool ∨ t = .array .bool ∨ t = .map .bool
  | .comparison lhs op, t, h => by
    cases h with
    | @comparison _ _ t0 _ h1 h2 h3 =>
      subst h3
      generalize decide (mapEachCount lhs.indexes > 0) = b at h2
      cases b
      · cases op with
        | isTrue =>
          simp only [cmpOk, compOpOf] at h2
          rcases h2 with h2 | ⟨h2, _⟩
          · exact Or.inl h2
          · cases t0 <;> simp [Ty.next] at h2 <;> subst h2 <;> simp [cmpTy]
        | _ => exact Or.inl rfl
      · exact Or.inr (Or.inl rfl)
  | .paren e, t, h => by cases h with | paren h => exact WT.ty_shape e h
  | .unaryNot e, t, h => by cases h with | unaryNot h => exact WT.ty_shape e h
  | .quantifier q a, t, h => by cases h; exact Or.inl rfl
  | .combining op items, t, h => by
    cases h with
    | combining h1 h2 h3 => rcases h2 with h2 | h2 <;> simp [h2]

theorem retTy_eq (sig : FuncSig) (params : List ParamInfo) : retTy sig params = sig.returnType params := by
  cases sig with
  | simple => rfl
  | concat => cases params <;> rfl
  | ctxCounter => rfl

mutual
theorem WT.tyL_eq {s : Scheme} : ∀ (e : LExpr) {t : Ty}, WT s e t → tyL s e = t
  | .comparison lhs op, t, h => by
    cases h with
    | @comparison _ _ t0 _ h1 h2 h3 =>
      subst h3
      have := WTI.tyI_eq lhs h1
      simp only [tyL, cmpTy, this]
      by_cases hm : mapEachCount lhs.indexes > 0
      · simp [hm]
      · simp only [hm, if_false, decide_false, Bool.false_eq_true]
        cases op <;> rfl
  | .paren e, t, h => by cases h with | paren h => simpa [tyL] using WT.tyL_eq e h
  | .unaryNot e, t, h => by cases h with | unaryNot h => simpa [tyL] using WT.tyL_eq e h
  | .quantifier q a, t, h => by cases h; simp [tyL]
  | .combining op items, t, h => by
    cases h with
    | combining h1 h2 h3 => simpa [tyL] using WT.tyL_eq _ h1
theorem WTI.tyI_eq {s : Scheme} : ∀ (e : IExpr) {t : Ty}, WTI s e t → tyI s e = t
  | .field f ixs, t, h => by
    cases h with
    | field h1 h2 => simpa [tyI] using h2.applyIndexes_eq
  | .call fn args ctx ixs, t, h => by
    cases h with
    | @call _ name sig _ params _ _ _ h1 h2 h3 h4 h5 =>
      rw [← h5.applyIndexes_eq]
      unfold tyI
      generalize s.funcs[fn]? = o at h1
      subst h1
      congr 1
      cases args with
      | nil => cases h2; cases sig <;> rfl
      | cons a as =>
        cases h2 with
        | @cons _ ta _ ps ha has =>
          have := WTA.tyA_eq a ha
          cases sig <;> simp [callTy, retTy, this]
theorem WTA.tyA_eq {s : Scheme} : ∀ (a : AExpr) {t : Ty}, WTA s a t → tyA s a = t
  | .index e, t, h => by cases h with | index h => simpa [tyA] using WTI.tyI_eq e h
  | .literal v, t, h => by cases h; simp [tyA]
  | .logical e, t, h => by cases h with | logical h => simpa [tyA] using WT.tyL_eq e h
end

end Spec
end WfModel
