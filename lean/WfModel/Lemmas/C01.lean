import WfModel.Lemmas.C01Ops
import WfModel.Lemmas.C01Climb

/-! Helpers for C01: names of the Rust variants/tokens the model constructors stand for (used
to pin the model tables to the extracted ones). Sub-files: `C01Ops` (operator meaning, nil
rule, folds), `C01Climb` (precedence climbing, `not`). No property statements here. -/
namespace WfModel

def LogicalOp.rustName : LogicalOp → String
  | .or => "Or" | .xor => "Xor" | .and => "And"

def OrdOp.rustName : OrdOp → String
  | .eq => "Equal" | .ne => "NotEqual" | .ge => "GreaterThanEqual" | .le => "LessThanEqual"
  | .gt => "GreaterThan" | .lt => "LessThan"

/-- the Rust comparison operator whose meaning on `i64` / `[u8]` is `OrdOp.intRel` /
`OrdOp.bytesRel` -/
def OrdOp.rustTok : OrdOp → String
  | .eq => "==" | .ne => "!=" | .ge => ">=" | .le => "<=" | .gt => ">" | .lt => "<"

/-- the Rust expression `nilDefault` stands for -/
def OrdOp.nilDefaultSrc : OrdOp → String
  | .ne => "nil_not_equal_behavior"
  | _ => "false"

def CompOp.rustName : CompOp → String
  | .in_ => "In" | .ord o => o.rustName | .bitAnd => "BitwiseAnd" | .contains => "Contains"
  | .matches_ => "Matches" | .wildcard => "Wildcard" | .strictWildcard => "StrictWildcard"

def orderingName : Ordering → String
  | .lt => "Less" | .gt => "Greater" | .eq => "Equal"

def flagName : Ordering → String
  | .lt => "LESS" | .gt => "GREATER" | .eq => "EQUAL"

def allOrdOps : List OrdOp := [.eq, .ne, .ge, .le, .gt, .lt]

theorem allOrdOps_complete (op : OrdOp) : op ∈ allOrdOps := by cases op <;> decide

/-! toy instance used by the non-vacuity examples of `Props/C01.lean` -/

/-- a toy `simple`: one character is one boolean operand -/
def toySimple : Input → LexRes (Typed LExpr)
  | c :: r => .ok ({ node := .comparison (.field c.toNat []) .isTrue, ty := .bool }, r)
  | [] => errAt .eof []

def atom (c : Char) : Typed LExpr :=
  { node := .comparison (.field c.toNat []) .isTrue, ty := .bool }

end WfModel
