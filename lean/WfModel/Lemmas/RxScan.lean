import WfModel.Model.RxScan

/-! Helper lemmas for C11 / quoted-regex scanner (no property statements). -/
namespace WfModel.RxScan

theorem push_some (pre p rest : List Char) : push pre (some (p, rest)) = some (pre ++ p, rest) := rfl

theorem push_eq_some {pre : List Char} {r : Option (List Char × List Char)} {q rest : List Char}
    (h : push pre r = some (q, rest)) : ∃ p, r = some (p, rest) ∧ q = pre ++ p := by
  cases r with
  | none => simp [push] at h
  | some x =>
    obtain ⟨p, r'⟩ := x
    simp only [push, Option.map_some, Option.some.injEq, Prod.mk.injEq] at h
    exact ⟨p, by rw [h.2], h.1.symm⟩

/-! Unfolding equations (the definitions match on the tail only in the backslash case). -/
theorem scan_ne (cls : Bool) (c : Char) (s : List Char) (h : c ≠ cBackslash) :
    scan cls (c :: s) =
      if c = cQuote ∧ cls = false then some ([], s)
      else if c = cOpen ∧ cls = false then push [c] (scan true s)
      else if c = cClose ∧ cls = true then push [c] (scan false s)
      else push [c] (scan cls s) := by
  rw [scan.eq_def]; simp only [h, if_false]

theorem scan_bs (cls : Bool) (d : Char) (s : List Char) :
    scan cls (cBackslash :: d :: s) = push (escOut cls d) (scan cls s) := by
  rw [scan.eq_def]; simp

theorem scan_bs_nil (cls : Bool) : scan cls [cBackslash] = none := by
  rw [scan.eq_def]; simp

theorem escape_ne (cls : Bool) (c : Char) (p : List Char) (h : c ≠ cBackslash) :
    escape cls (c :: p) =
      if c = cQuote ∧ cls = false then (escape cls p).map ([cBackslash, c] ++ ·)
      else if c = cOpen ∧ cls = false then (escape true p).map (c :: ·)
      else if c = cClose ∧ cls = true then (escape false p).map (c :: ·)
      else (escape cls p).map (c :: ·) := by
  rw [escape.eq_def]; simp only [h, if_false]

theorem escape_bs (cls : Bool) (d : Char) (p : List Char) :
    escape cls (cBackslash :: d :: p) =
      if d = cQuote ∧ cls = false then none else (escape cls p).map ([cBackslash, d] ++ ·) := by
  rw [escape.eq_def]; simp

theorem escape_bs_nil (cls : Bool) : escape cls [cBackslash] = none := by
  rw [escape.eq_def]; simp

theorem escOut_quote : escOut false cQuote = [cQuote] := by simp [escOut]

theorem escOut_other (cls : Bool) (d : Char) (h : ¬ (d = cQuote ∧ cls = false)) :
    escOut cls d = [cBackslash, d] := by
  unfold escOut
  cases cls with
  | true => simp
  | false =>
    have : d ≠ cQuote := fun hq => h ⟨hq, rfl⟩
    simp [this]

theorem bs_ne_quote : cBackslash ≠ cQuote := by decide
theorem open_ne_bs : cOpen ≠ cBackslash := by decide
theorem quote_ne_bs : cQuote ≠ cBackslash := by decide

/-- Scanning the quoted spelling of `p`, followed by the closing quote and anything, gives
back `p` and that rest. -/
theorem scan_escape : ∀ (cls : Bool) (p src rest : List Char),
    escape cls p = some src → scan cls (src ++ cQuote :: rest) = some (p, rest)
  | cls, [], src, rest, h => by
    simp only [escape] at h
    split at h
    · cases h
    · next hc =>
      cases h
      have : cls = false := by simpa using hc
      subst this
      rw [List.nil_append, scan_ne _ _ _ quote_ne_bs]
      simp
  | cls, c :: p, src, rest, h => by
    by_cases hc : c = cBackslash
    · subst hc
      cases p with
      | nil => rw [escape_bs_nil] at h; cases h
      | cons d p' =>
        rw [escape_bs] at h
        split at h
        · cases h
        · next hd =>
          rcases Option.map_eq_some_iff.mp h with ⟨s, hs, rfl⟩
          have ih := scan_escape cls p' s rest hs
          simp only [List.cons_append, List.nil_append]
          rw [scan_bs, ih, push_some, escOut_other cls d hd]
          rfl
    · rw [escape_ne _ _ _ hc] at h
      split at h
      · next hq =>
        rcases Option.map_eq_some_iff.mp h with ⟨s, hs, rfl⟩
        rcases hq with ⟨rfl, rfl⟩
        have ih := scan_escape false p s rest hs
        simp only [List.cons_append, List.nil_append]
        rw [scan_bs, ih, push_some, escOut_quote]
        rfl
      · split at h
        · next hq ho =>
          rcases Option.map_eq_some_iff.mp h with ⟨s, hs, rfl⟩
          have ih := scan_escape true p s rest hs
          rw [List.cons_append, scan_ne _ _ _ hc, if_neg hq, if_pos ho, ih, push_some]
          rfl
        · split at h
          · next hq ho hcl =>
            rcases Option.map_eq_some_iff.mp h with ⟨s, hs, rfl⟩
            have ih := scan_escape false p s rest hs
            rw [List.cons_append, scan_ne _ _ _ hc, if_neg hq, if_neg ho, if_pos hcl, ih, push_some]
            rfl
          · next hq ho hcl =>
            rcases Option.map_eq_some_iff.mp h with ⟨s, hs, rfl⟩
            have ih := scan_escape cls p s rest hs
            rw [List.cons_append, scan_ne _ _ _ hc, if_neg hq, if_neg ho, if_neg hcl, ih, push_some]
            rfl

/-- Conversely every successful scan consumed exactly the quoted spelling of its result, the
closing quote, and nothing else. -/
theorem escape_scan : ∀ (cls : Bool) (s p rest : List Char),
    scan cls s = some (p, rest) → ∃ src, escape cls p = some src ∧ s = src ++ cQuote :: rest
  | cls, [], p, rest, h => by simp [scan] at h
  | cls, c :: s, p, rest, h => by
    by_cases hc : c = cBackslash
    · subst hc
      cases s with
      | nil => rw [scan_bs_nil] at h; cases h
      | cons d s' =>
        rw [scan_bs] at h
        rcases push_eq_some h with ⟨p', hp', rfl⟩
        rcases escape_scan cls s' p' rest hp' with ⟨src', hsrc, rfl⟩
        refine ⟨cBackslash :: d :: src', ?_, rfl⟩
        by_cases hd : d = cQuote ∧ cls = false
        · rcases hd with ⟨rfl, rfl⟩
          rw [escOut_quote, List.singleton_append, escape_ne _ _ _ quote_ne_bs, if_pos ⟨rfl, rfl⟩, hsrc]
          rfl
        · rw [escOut_other cls d hd]
          show escape cls (cBackslash :: d :: p') = _
          rw [escape_bs, if_neg hd, hsrc]
          rfl
    · rw [scan_ne _ _ _ hc] at h
      split at h
      · next hq =>
        simp only [Option.some.injEq, Prod.mk.injEq] at h
        rcases h with ⟨rfl, rfl⟩
        rcases hq with ⟨rfl, rfl⟩
        exact ⟨[], by simp [escape], rfl⟩
      · split at h
        · next hq ho =>
          rcases push_eq_some h with ⟨p', hp', rfl⟩
          rcases escape_scan true s p' rest hp' with ⟨src', hsrc, rfl⟩
          refine ⟨c :: src', ?_, rfl⟩
          show escape cls (c :: p') = _
          rw [escape_ne _ _ _ hc, if_neg hq, if_pos ho, hsrc]; rfl
        · split at h
          · next hq ho hcl =>
            rcases push_eq_some h with ⟨p', hp', rfl⟩
            rcases escape_scan false s p' rest hp' with ⟨src', hsrc, rfl⟩
            refine ⟨c :: src', ?_, rfl⟩
            show escape cls (c :: p') = _
            rw [escape_ne _ _ _ hc, if_neg hq, if_neg ho, if_pos hcl, hsrc]; rfl
          · next hq ho hcl =>
            rcases push_eq_some h with ⟨p', hp', rfl⟩
            rcases escape_scan cls s p' rest hp' with ⟨src', hsrc, rfl⟩
            refine ⟨c :: src', ?_, rfl⟩
            show escape cls (c :: p') = _
            rw [escape_ne _ _ _ hc, if_neg hq, if_neg ho, if_neg hcl, hsrc]; rfl

end WfModel.RxScan
