import WfModel.Model.ParseErr
/-!
Well-formedness of `ParseError::new` (`engine/src/ast/parse.rs:34-69`) as modelled by
`WfModel.ParseErr.mk`: whenever the `assert!` passes (`off + len ≤ s.length`),

* `line_number` is the number of newlines before the span start,
* the stored `input` is exactly the `line_number`-th piece of `input.split('\n')`,
* neither `span_start -= line_start` nor `line_end - span_start` underflows,
* the (possibly clipped) span lies inside the stored line and still designates the same
  units of the original input,
* `Display` writes at least one caret.
-/
namespace WfModel.ParseErr

variable {α : Type}

/-- no newline unit in `l` -/
def NoNl (nl : α → Bool) (l : List α) : Prop := ∀ c ∈ l, nl c = false

/-- number of newline units -/
def cnt (nl : α → Bool) (l : List α) : Nat := (l.filter nl).length

/-- `A` consists of exactly `ln` complete (newline-terminated) lines. -/
def Inv (nl : α → Bool) (A : List α) (ln : Nat) : Prop :=
  ∀ X, (lines nl (A ++ X)).drop ln = lines nl X

theorem noNl_nil (nl : α → Bool) : NoNl nl [] := by
  intro c hc; cases hc

theorem noNl_snoc {nl : α → Bool} {seg : List α} {c : α}
    (hseg : NoNl nl seg) (hc : nl c = false) : NoNl nl (seg ++ [c]) := by
  intro x hx
  rcases List.mem_append.mp hx with hx | hx
  · exact hseg x hx
  · rcases List.mem_singleton.mp hx with rfl
    exact hc

theorem cnt_nil (nl : α → Bool) : cnt nl [] = 0 := rfl

theorem cnt_cons_true {nl : α → Bool} {c : α} (cs : List α) (hc : nl c = true) :
    cnt nl (c :: cs) = cnt nl cs + 1 := by
  simp only [cnt, List.filter_cons, hc, if_true, List.length_cons]

theorem cnt_cons_false {nl : α → Bool} {c : α} (cs : List α) (hc : nl c = false) :
    cnt nl (c :: cs) = cnt nl cs := by
  simp [cnt, hc]

/-! ### `lines` -/

theorem lines_noNl_cons {nl : α → Bool} {seg : List α} {c : α} (X : List α)
    (hseg : NoNl nl seg) (hc : nl c = true) :
    lines nl (seg ++ c :: X) = seg :: lines nl X := by
  induction seg with
  | nil => simp only [List.nil_append, lines, hc, if_true]
  | cons d seg ih =>
    have hd : nl d = false := hseg d (List.mem_cons_self ..)
    have hseg' : NoNl nl seg := fun x hx => hseg x (List.mem_cons_of_mem _ hx)
    simp [lines, hd, ih hseg', consHead]

theorem lines_of_findNl_some {nl : α → Bool} :
    ∀ (r : List α) (k : Nat), findNl nl r = some k →
      lines nl r = r.take k :: lines nl (r.drop (k + 1)) := by
  intro r
  induction r with
  | nil => intro k h; simp [findNl] at h
  | cons c cs ih =>
    intro k h
    by_cases hc : nl c = true
    · simp only [findNl, hc, if_true, Option.some.injEq] at h
      subst h
      simp [lines, hc]
    · have hc' : nl c = false := by simpa using hc
      simp only [findNl, hc'] at h
      cases hf : findNl nl cs with
      | none => simp [hf] at h
      | some k' =>
        simp [hf] at h
        subst h
        simp [lines, hc', ih k' hf, consHead]

theorem lines_of_findNl_none {nl : α → Bool} :
    ∀ (r : List α), findNl nl r = none → lines nl r = [r] := by
  intro r
  induction r with
  | nil => intro _; rfl
  | cons c cs ih =>
    intro h
    by_cases hc : nl c = true
    · simp [findNl, hc] at h
    · have hc' : nl c = false := by simpa using hc
      simp only [findNl, hc'] at h
      cases hf : findNl nl cs with
      | none => simp [lines, hc', ih hf, consHead]
      | some k' => simp [hf] at h

/-! ### `findNl` -/

theorem findNl_append_some {nl : α → Bool} {seg : List α} (r : List α) {k : Nat}
    (hseg : NoNl nl seg) (h : findNl nl r = some k) :
    findNl nl (seg ++ r) = some (seg.length + k) := by
  induction seg with
  | nil => simpa using h
  | cons d seg ih =>
    have hd : nl d = false := hseg d (List.mem_cons_self ..)
    have hseg' : NoNl nl seg := fun x hx => hseg x (List.mem_cons_of_mem _ hx)
    simp [findNl, hd, ih hseg']
    omega

theorem findNl_append_none {nl : α → Bool} {seg : List α} (r : List α)
    (hseg : NoNl nl seg) (h : findNl nl r = none) :
    findNl nl (seg ++ r) = none := by
  induction seg with
  | nil => simpa using h
  | cons d seg ih =>
    have hd : nl d = false := hseg d (List.mem_cons_self ..)
    have hseg' : NoNl nl seg := fun x hx => hseg x (List.mem_cons_of_mem _ hx)
    simp [findNl, hd, ih hseg']

theorem findNl_some_lt {nl : α → Bool} :
    ∀ (r : List α) (k : Nat), findNl nl r = some k → k < r.length := by
  intro r
  induction r with
  | nil => intro k h; simp [findNl] at h
  | cons c cs ih =>
    intro k h
    by_cases hc : nl c = true
    · simp only [findNl, hc, if_true, Option.some.injEq] at h
      subst h; simp
    · have hc' : nl c = false := by simpa using hc
      simp only [findNl, hc'] at h
      cases hf : findNl nl cs with
      | none => simp [hf] at h
      | some k' =>
        simp [hf] at h
        have := ih k' hf
        simp; omega

/-- the unit found by `findNl` is a newline lying in every longer prefix -/
theorem findNl_some_mem_take {nl : α → Bool} :
    ∀ (r : List α) (k n : Nat), findNl nl r = some k → k < n →
      ∃ c, c ∈ r.take n ∧ nl c = true := by
  intro r
  induction r with
  | nil => intro k n h; simp [findNl] at h
  | cons c cs ih =>
    intro k n h hk
    cases n with
    | zero => omega
    | succ n =>
      by_cases hc : nl c = true
      · exact ⟨c, by simp, hc⟩
      · have hc' : nl c = false := by simpa using hc
        simp only [findNl, hc'] at h
        cases hf : findNl nl cs with
        | none => simp [hf] at h
        | some k' =>
          simp [hf] at h
          obtain ⟨x, hx, hnx⟩ := ih k' n hf (by omega)
          exact ⟨x, by simp [hx], hnx⟩

theorem take_length_add (seg r : List α) (k : Nat) :
    (seg ++ r).take (seg.length + k) = seg ++ r.take k := by
  induction seg with
  | nil => simp
  | cons d seg ih =>
    have : (d :: seg).length + k = (seg.length + k) + 1 := by simp; omega
    rw [this, List.cons_append, List.take_succ_cons, ih, List.cons_append]

/-! ### the line scan -/

theorem inv_nil (nl : α → Bool) : Inv nl [] 0 := by
  intro X; simp

theorem inv_step {nl : α → Bool} {A seg : List α} {c : α} {ln : Nat}
    (hinv : Inv nl A ln) (hseg : NoNl nl seg) (hc : nl c = true) :
    Inv nl (A ++ seg ++ [c]) (ln + 1) := by
  intro X
  have h1 : A ++ seg ++ [c] ++ X = A ++ (seg ++ c :: X) := by simp
  rw [h1, ← List.drop_drop, hinv (seg ++ c :: X), lines_noNl_cons X hseg hc]
  simp

/-- Invariant of the scan: the consumed input is `A ++ seg` with `A` made of `ln` complete
lines, `ls = A.length`, and `seg` the newline-free beginning of the current line. -/
theorem scanAux_spec (nl : α → Bool) (p : List α) :
    ∀ (A seg : List α) (pos ln ls : Nat), pos = A.length + seg.length → ls = A.length →
      NoNl nl seg → Inv nl A ln →
      ∃ A' seg', scanAux nl p pos ln ls = (ln + cnt nl p, A'.length) ∧
        A' ++ seg' = A ++ seg ++ p ∧ NoNl nl seg' ∧ Inv nl A' (ln + cnt nl p) := by
  induction p with
  | nil =>
    intro A seg pos ln ls _ hls hseg hinv
    exact ⟨A, seg, by simp [scanAux, cnt_nil, hls], by simp, hseg, by simpa [cnt_nil] using hinv⟩
  | cons c cs ih =>
    intro A seg pos ln ls hpos hls hseg hinv
    by_cases hc : nl c = true
    · obtain ⟨A', seg', h1, h2, h3, h4⟩ :=
        ih (A ++ seg ++ [c]) [] (pos + 1) (ln + 1) (pos + 1)
          (by simp; omega) (by simp; omega) (noNl_nil nl) (inv_step hinv hseg hc)
      have hcnt : ln + 1 + cnt nl cs = ln + cnt nl (c :: cs) := by
        rw [cnt_cons_true cs hc]; omega
      refine ⟨A', seg', ?_, ?_, h3, ?_⟩
      · simp only [scanAux, hc, if_true, h1, hcnt]
      · rw [h2]; simp
      · rw [← hcnt]; exact h4
    · have hc' : nl c = false := by simpa using hc
      obtain ⟨A', seg', h1, h2, h3, h4⟩ :=
        ih A (seg ++ [c]) (pos + 1) ln ls
          (by simp; omega) hls (noNl_snoc hseg hc') hinv
      have hcnt : cnt nl (c :: cs) = cnt nl cs := cnt_cons_false cs hc'
      refine ⟨A', seg', ?_, ?_, h3, ?_⟩
      · simp [scanAux, hc', h1, hcnt]
      · rw [h2]; simp
      · rw [hcnt]; exact h4

theorem scanLines_spec (nl : α → Bool) (p : List α) :
    ∃ A seg, scanLines nl p = (cnt nl p, A.length) ∧ A ++ seg = p ∧ NoNl nl seg ∧
      Inv nl A (cnt nl p) := by
  obtain ⟨A, seg, h1, h2, h3, h4⟩ :=
    scanAux_spec nl p [] [] 0 0 0 (by simp) (by simp) (noNl_nil nl) (inv_nil nl)
  exact ⟨A, seg, by simpa [scanLines] using h1, by simpa using h2, h3, by simpa using h4⟩

/-! ### shape of `mk` -/

/-- Everything about `mk` at once: the prefix before the span is `A ++ seg` (complete lines,
then the newline-free start of the current line), and with `r = s.drop off` the designated line
is `seg ++ r.take k` where `k` is the position of the first newline of `r` (or `r.length`). -/
theorem mk_shape (nl : α → Bool) (s : List α) (off len : Nat) (h : off + len ≤ s.length) :
    ∃ (A seg : List α) (k : Nat),
      s.take off = A ++ seg ∧ NoNl nl seg ∧ Inv nl A (cnt nl (s.take off)) ∧
      scanLines nl (s.take off) = (cnt nl (s.take off), A.length) ∧
      off - A.length = seg.length ∧
      s.drop A.length = seg ++ s.drop off ∧
      k ≤ (s.drop off).length ∧
      (findNl nl (s.drop off) = some k ∨
        (findNl nl (s.drop off) = none ∧ k = (s.drop off).length)) ∧
      (lines nl (seg ++ s.drop off))[0]? = some (seg ++ (s.drop off).take k) ∧
      mk nl s off len =
        { lineNumber := cnt nl (s.take off)
          lineText := seg ++ (s.drop off).take k
          spanStart := seg.length
          spanLen := min len k } := by
  obtain ⟨A, seg, hsc, hp, hseg, hinv⟩ := scanLines_spec nl (s.take off)
  have hlen : A.length + seg.length = off := by
    have := congrArg List.length hp
    simp only [List.length_append, List.length_take] at this
    omega
  have hs : s = A ++ (seg ++ s.drop off) := by
    rw [← List.append_assoc, hp, List.take_append_drop]
  have hdrop : s.drop A.length = seg ++ s.drop off := by
    conv => lhs; rw [hs]
    exact List.drop_left
  have hrlen : (s.drop off).length = s.length - off := List.length_drop
  cases hf : findNl nl (s.drop off) with
  | some k =>
    have hk := findNl_some_lt _ _ hf
    have hf' := findNl_append_some (s.drop off) hseg hf
    refine ⟨A, seg, k, hp.symm, hseg, hinv, hsc, by omega, hdrop, by omega, Or.inl rfl, ?_, ?_⟩
    · rw [lines_of_findNl_some _ _ hf', take_length_add]
      rfl
    · have e1 : off - A.length = seg.length := by omega
      have e2 : seg.length + k - seg.length = k := by omega
      simp only [mk, hsc, hdrop, hf', e1, e2, take_length_add]
  | none =>
    have hf' := findNl_append_none (s.drop off) hseg hf
    refine ⟨A, seg, (s.drop off).length, hp.symm, hseg, hinv, hsc, by omega, hdrop,
      Nat.le_refl _, Or.inr ⟨rfl, rfl⟩, ?_, ?_⟩
    · rw [lines_of_findNl_none _ hf', List.take_length]
      rfl
    · have e1 : off - A.length = seg.length := by omega
      have e2 : min len (s.drop off).length = len := by omega
      simp only [mk, hsc, hdrop, hf', e1, e2, List.take_length]

/-! ### the theorems -/

/-- `line_number` is the number of newlines before the span start. -/
theorem lineNumber_eq (nl : α → Bool) (s : List α) (off len : Nat) :
    (mk nl s off len).lineNumber = ((s.take off).filter nl).length := by
  obtain ⟨A, seg, hsc, _⟩ := scanLines_spec nl (s.take off)
  have : (mk nl s off len).lineNumber = (scanLines nl (s.take off)).1 := by
    simp only [mk]; split <;> rfl
  rw [this, hsc]; rfl

theorem lineNumber_le (nl : α → Bool) (s : List α) (off len : Nat) :
    (mk nl s off len).lineNumber ≤ (s.filter nl).length := by
  rw [lineNumber_eq]
  exact ((List.take_sublist off s).filter nl).length_le

/-- `span_start -= line_start` does not underflow. -/
theorem lineStart_le_off (nl : α → Bool) (s : List α) (off : Nat) :
    (scanLines nl (s.take off)).2 ≤ off := by
  obtain ⟨A, seg, hsc, hp, _⟩ := scanLines_spec nl (s.take off)
  have := congrArg List.length hp
  simp only [List.length_append, List.length_take] at this
  rw [hsc]; simp only; omega

/-- `line_end - span_start` does not underflow. -/
theorem span_start_le_line_end (nl : α → Bool) (s : List α) (off len : Nat)
    (h : off + len ≤ s.length) (le : Nat)
    (hle : findNl nl (s.drop (scanLines nl (s.take off)).2) = some le) :
    off - (scanLines nl (s.take off)).2 ≤ le := by
  obtain ⟨A, seg, k, _, hseg, _, hsc, hss, hdrop, _, hk, _, _⟩ := mk_shape nl s off len h
  rw [hsc] at hle ⊢
  simp only at hle ⊢
  rw [hdrop] at hle
  rcases hk with hk | ⟨hk, _⟩
  · rw [findNl_append_some _ hseg hk] at hle
    simp only [Option.some.injEq] at hle
    omega
  · rw [findNl_append_none _ hseg hk] at hle
    cases hle

/-- The stored line is the `line_number`-th piece of `input.split('\n')`. -/
theorem lineText_eq (nl : α → Bool) (s : List α) (off len : Nat) (h : off + len ≤ s.length) :
    (lines nl s)[(mk nl s off len).lineNumber]? = some (mk nl s off len).lineText := by
  obtain ⟨A, seg, k, hp, _, hinv, _, _, _, _, _, hhead, hmk⟩ := mk_shape nl s off len h
  have hs : s = A ++ (seg ++ s.drop off) := by
    rw [← List.append_assoc, ← hp, List.take_append_drop]
  rw [hmk]
  simp only
  have := hinv (seg ++ s.drop off)
  rw [← hs] at this
  rw [← hhead, ← this, List.getElem?_drop]
  simp

/-- The (clipped) span lies inside the stored line. -/
theorem span_in_line (nl : α → Bool) (s : List α) (off len : Nat) (h : off + len ≤ s.length) :
    (mk nl s off len).spanStart + (mk nl s off len).spanLen ≤ (mk nl s off len).lineText.length := by
  obtain ⟨A, seg, k, _, _, _, _, _, _, hk, _, _, hmk⟩ := mk_shape nl s off len h
  rw [hmk]
  simp only [List.length_append, List.length_take]
  omega

theorem spanLen_le (nl : α → Bool) (s : List α) (off len : Nat) :
    (mk nl s off len).spanLen ≤ len := by
  simp only [mk]
  split
  · exact Nat.min_le_left ..
  · exact Nat.le_refl _

/-- A span that does not cross a newline is not clipped. -/
theorem spanLen_eq_of_no_newline (nl : α → Bool) (s : List α) (off len : Nat)
    (h : off + len ≤ s.length) (hno : ∀ c ∈ (s.drop off).take len, nl c = false) :
    (mk nl s off len).spanLen = len := by
  obtain ⟨A, seg, k, _, _, _, _, _, _, hkle, hk, _, hmk⟩ := mk_shape nl s off len h
  rw [hmk]
  simp only
  have hrlen : (s.drop off).length = s.length - off := List.length_drop
  rcases hk with hk | ⟨_, hk⟩
  · by_cases hlt : k < len
    · obtain ⟨c, hc, hnc⟩ := findNl_some_mem_take _ _ _ hk hlt
      rw [hno c hc] at hnc
      cases hnc
    · omega
  · omega

theorem caret_pos (e : PErr α) : 1 ≤ caretCount e := Nat.le_max_left ..

/-- The stored line is a prefix of the input from `line_start` on, and the units designated by
the (clipped) span inside the stored line are the first `span_len` units of the original span. -/
theorem reconstruct (nl : α → Bool) (s : List α) (off len : Nat) (h : off + len ≤ s.length) :
    (mk nl s off len).lineText <+: s.drop (scanLines nl (s.take off)).2 ∧
    ((mk nl s off len).lineText.drop (mk nl s off len).spanStart).take (mk nl s off len).spanLen
      = (s.drop off).take (mk nl s off len).spanLen := by
  obtain ⟨A, seg, k, _, _, _, hsc, _, hdrop, _, _, _, hmk⟩ := mk_shape nl s off len h
  rw [hmk, hsc]
  simp only
  rw [hdrop]
  constructor
  · exact (List.prefix_append_right_inj seg).mpr (List.take_prefix k _)
  · rw [List.drop_left, List.take_take]
    congr 1
    omega

/-- Combined statement (C-property form). -/
theorem parseError_wf (nl : α → Bool) (s : List α) (off len : Nat) (h : off + len ≤ s.length) :
    let e := mk nl s off len
    e.lineNumber ≤ (s.filter nl).length ∧
    (lines nl s)[e.lineNumber]? = some e.lineText ∧
    e.spanStart + e.spanLen ≤ e.lineText.length :=
  ⟨lineNumber_le nl s off len, lineText_eq nl s off len h, span_in_line nl s off len h⟩

theorem mkChecked_isSome (nl : α → Bool) (s : List α) (off len : Nat)
    (h : off + len ≤ s.length) : (mkChecked nl s off len).isSome := by
  have : ¬ off + len > s.length := by omega
  simp [mkChecked, this]

/-- the `assert!` is exactly the precondition: outside it the model panics -/
theorem mkChecked_eq_none (nl : α → Bool) (s : List α) (off len : Nat)
    (h : s.length < off + len) : mkChecked nl s off len = none := by
  simp [mkChecked, h]

theorem mkChecked_eq_some (nl : α → Bool) (s : List α) (off len : Nat)
    (h : off + len ≤ s.length) : mkChecked nl s off len = some (mk nl s off len) := by
  have : ¬ off + len > s.length := by omega
  simp [mkChecked, this]


/-! ### sanity checks: the expected values of the Rust unit tests (`engine/src/scheme.rs`,
`test_parse_error`), on `Char` units (all-ASCII inputs, so bytes = chars) -/
section Examples

private def nlc : Char → Bool := (· == '\n')

-- `scheme.parse("xyz")`: `ParseError { input: "xyz", line_number: 0, span_start: 0, span_len: 3 }`
example : mk nlc "xyz".toList 0 3 = ⟨0, "xyz".toList, 0, 3⟩ := by decide

-- `scheme.parse("\n\n    xyz")`: `{ input: "    xyz", line_number: 2, span_start: 4, span_len: 3 }`
example : mk nlc "\n\n    xyz".toList 6 3 = ⟨2, "    xyz".toList, 4, 3⟩ := by decide

-- `"num == 10 or\nnum == true or\nnum == 20\n"`; the `take_while` error span is the whole rest of
-- the input from `true` on (offset 20, 18 bytes), clipped at the end of line 1:
-- `{ input: "num == true or", line_number: 1, span_start: 7, span_len: 7 }`
example : mk nlc "num == 10 or\nnum == true or\nnum == 20\n".toList 20 18
    = ⟨1, "num == true or".toList, 7, 7⟩ := by decide

-- `scheme.parse("arr and arr")`: empty span at EOF,
-- `{ input: "arr and arr", line_number: 0, span_start: 11, span_len: 0 }`; one caret is shown.
example : mk nlc "arr and arr".toList 11 0 = ⟨0, "arr and arr".toList, 11, 0⟩ := by decide
example : caretCount (mk nlc "arr and arr".toList 11 0) = 1 := by decide

-- the `assert!`
example : mkChecked nlc "abc".toList 2 2 = none := by decide
example : (mkChecked nlc "abc".toList 1 2).isSome = true := by decide

-- `split('\n')`
example : lines nlc "a\n\nbc\n".toList = ["a".toList, [], "bc".toList, []] := by decide
example : lines nlc ([] : List Char) = [[]] := by decide

end Examples

end WfModel.ParseErr
