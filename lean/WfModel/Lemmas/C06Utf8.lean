import WfModel.Model.Lit

/-! Helper lemmas for C06: the strict UTF-8 decoder `utf8Decode` is a two-sided inverse of the
encoder `utf8s` (round trip for every `Char`, all four encoding lengths; soundness: only canonical
encodings are accepted), plus rejection lemmas for invalid lead bytes. No property statements here. -/
namespace WfModel

/-! ### One decoder step on explicit bytes -/

theorem utf8DecodeGo_one (f : Nat) (b0 : UInt8) (r : Bytes) (h0 : b0.toNat < 0x80) :
    utf8DecodeGo (f + 1) (b0 :: r) = (utf8DecodeGo f r).map (Char.ofNat b0.toNat :: ·) := by
  simp only [utf8DecodeGo, if_pos h0]

theorem utf8DecodeGo_two (f : Nat) (b0 b1 : UInt8) (r : Bytes)
    (h0 : 0xC2 ≤ b0.toNat) (h0' : b0.toNat < 0xE0) (h1 : 0x80 ≤ b1.toNat) (h1' : b1.toNat < 0xC0) :
    utf8DecodeGo (f + 1) (b0 :: b1 :: r) =
      (utf8DecodeGo f r).map (Char.ofNat ((b0.toNat - 0xC0) * 64 + (b1.toNat - 0x80)) :: ·) := by
  have a1 : ¬ b0.toNat < 0x80 := by omega
  have a2 : ¬ b0.toNat < 0xC2 := by omega
  simp only [utf8DecodeGo, if_neg a1, if_neg a2, if_pos h0', decide_eq_true h1, decide_eq_true h1',
    Bool.and_self, if_true]

theorem utf8DecodeGo_three (f : Nat) (b0 b1 b2 : UInt8) (r : Bytes)
    (h0 : 0xE0 ≤ b0.toNat) (h0' : b0.toNat < 0xF0)
    (h1 : (if b0.toNat = 0xE0 then 0xA0 else 0x80) ≤ b1.toNat)
    (h1' : b1.toNat < (if b0.toNat = 0xED then 0xA0 else 0xC0))
    (h2 : 0x80 ≤ b2.toNat) (h2' : b2.toNat < 0xC0) :
    utf8DecodeGo (f + 1) (b0 :: b1 :: b2 :: r) =
      (utf8DecodeGo f r).map
        (Char.ofNat ((b0.toNat - 0xE0) * 4096 + (b1.toNat - 0x80) * 64 + (b2.toNat - 0x80)) :: ·) := by
  have a1 : ¬ b0.toNat < 0x80 := by omega
  have a2 : ¬ b0.toNat < 0xC2 := by omega
  have a3 : ¬ b0.toNat < 0xE0 := by omega
  simp only [utf8DecodeGo, if_neg a1, if_neg a2, if_neg a3, if_pos h0', decide_eq_true h1,
    decide_eq_true h1', decide_eq_true h2, decide_eq_true h2', Bool.and_self, if_true]

theorem utf8DecodeGo_four (f : Nat) (b0 b1 b2 b3 : UInt8) (r : Bytes)
    (h0 : 0xF0 ≤ b0.toNat) (h0' : b0.toNat < 0xF5)
    (h1 : (if b0.toNat = 0xF0 then 0x90 else 0x80) ≤ b1.toNat)
    (h1' : b1.toNat < (if b0.toNat = 0xF4 then 0x90 else 0xC0))
    (h2 : 0x80 ≤ b2.toNat) (h2' : b2.toNat < 0xC0)
    (h3 : 0x80 ≤ b3.toNat) (h3' : b3.toNat < 0xC0) :
    utf8DecodeGo (f + 1) (b0 :: b1 :: b2 :: b3 :: r) =
      (utf8DecodeGo f r).map
        (Char.ofNat ((b0.toNat - 0xF0) * 262144 + (b1.toNat - 0x80) * 4096
          + (b2.toNat - 0x80) * 64 + (b3.toNat - 0x80)) :: ·) := by
  have a1 : ¬ b0.toNat < 0x80 := by omega
  have a2 : ¬ b0.toNat < 0xC2 := by omega
  have a3 : ¬ b0.toNat < 0xE0 := by omega
  have a4 : ¬ b0.toNat < 0xF0 := by omega
  simp only [utf8DecodeGo, if_neg a1, if_neg a2, if_neg a3, if_neg a4, if_pos h0', decide_eq_true h1,
    decide_eq_true h1', decide_eq_true h2, decide_eq_true h2', decide_eq_true h3, decide_eq_true h3',
    Bool.and_self, if_true]


/-! ### The encoder, per encoding length -/

private theorem toNat_ofNat_lt {x : Nat} (h : x < 256) : (UInt8.ofNat x).toNat = x :=
  UInt8.toNat_ofNat_of_lt' h

theorem utf8_one (c : Char) (h : c.val.toNat ≤ 127) : utf8 c = [UInt8.ofNat c.val.toNat] := by
  simp only [utf8, String.utf8EncodeChar, if_pos h]

theorem utf8_two (c : Char) (h1 : ¬ c.val.toNat ≤ 127) (h : c.val.toNat ≤ 2047) :
    utf8 c = [UInt8.ofNat (c.val.toNat / 64 % 32 + 192), UInt8.ofNat (c.val.toNat % 64 + 128)] := by
  simp only [utf8, String.utf8EncodeChar, if_neg h1, if_pos h]

theorem utf8_three (c : Char) (h1 : ¬ c.val.toNat ≤ 127) (h2 : ¬ c.val.toNat ≤ 2047)
    (h : c.val.toNat ≤ 65535) :
    utf8 c = [UInt8.ofNat (c.val.toNat / 4096 % 16 + 224), UInt8.ofNat (c.val.toNat / 64 % 64 + 128),
      UInt8.ofNat (c.val.toNat % 64 + 128)] := by
  simp only [utf8, String.utf8EncodeChar, if_neg h1, if_neg h2, if_pos h]

theorem utf8_four (c : Char) (h1 : ¬ c.val.toNat ≤ 127) (h2 : ¬ c.val.toNat ≤ 2047)
    (h3 : ¬ c.val.toNat ≤ 65535) :
    utf8 c = [UInt8.ofNat (c.val.toNat / 262144 % 8 + 240), UInt8.ofNat (c.val.toNat / 4096 % 64 + 128),
      UInt8.ofNat (c.val.toNat / 64 % 64 + 128), UInt8.ofNat (c.val.toNat % 64 + 128)] := by
  simp only [utf8, String.utf8EncodeChar, if_neg h1, if_neg h2, if_neg h3]

private theorem char_valid (c : Char) :
    c.val.toNat < 0xD800 ∨ (0xDFFF < c.val.toNat ∧ c.val.toNat < 0x110000) := c.valid

private theorem ofNat_val_toNat (c : Char) : Char.ofNat c.val.toNat = c := Char.ofNat_toNat c


/-! ### Round trip -/

/-- per-char step: decoding `utf8 c ++ r` peels exactly `c`, for every `Char` -/
theorem utf8DecodeGo_utf8_append (f : Nat) (c : Char) (r : Bytes) :
    utf8DecodeGo (f + 1) (utf8 c ++ r) = (utf8DecodeGo f r).map (c :: ·) := by
  have hv := char_valid c
  have hc := ofNat_val_toNat c
  by_cases h1 : c.val.toNat ≤ 127
  · rw [utf8_one c h1]
    generalize c.val.toNat = v at hv hc h1
    have e0 : (UInt8.ofNat v).toNat = v := toNat_ofNat_lt (by omega)
    rw [List.singleton_append, utf8DecodeGo_one f _ r (by omega), e0, hc]
  by_cases h2 : c.val.toNat ≤ 2047
  · rw [utf8_two c h1 h2]
    generalize c.val.toNat = v at hv hc h1 h2
    have e0 : (UInt8.ofNat (v / 64 % 32 + 192)).toNat = v / 64 % 32 + 192 := toNat_ofNat_lt (by omega)
    have e1 : (UInt8.ofNat (v % 64 + 128)).toNat = v % 64 + 128 := toNat_ofNat_lt (by omega)
    have e : (v / 64 % 32 + 192 - 0xC0) * 64 + (v % 64 + 128 - 0x80) = v := by omega
    show utf8DecodeGo (f + 1) (_ :: _ :: r) = _
    rw [utf8DecodeGo_two f _ _ r (by omega) (by omega) (by omega) (by omega), e0, e1, e, hc]
  by_cases h3 : c.val.toNat ≤ 65535
  · rw [utf8_three c h1 h2 h3]
    generalize c.val.toNat = v at hv hc h1 h2 h3
    have e0 : (UInt8.ofNat (v / 4096 % 16 + 224)).toNat = v / 4096 % 16 + 224 := toNat_ofNat_lt (by omega)
    have e1 : (UInt8.ofNat (v / 64 % 64 + 128)).toNat = v / 64 % 64 + 128 := toNat_ofNat_lt (by omega)
    have e2 : (UInt8.ofNat (v % 64 + 128)).toNat = v % 64 + 128 := toNat_ofNat_lt (by omega)
    have e : (v / 4096 % 16 + 224 - 0xE0) * 4096 + (v / 64 % 64 + 128 - 0x80) * 64
        + (v % 64 + 128 - 0x80) = v := by omega
    show utf8DecodeGo (f + 1) (_ :: _ :: _ :: r) = _
    rw [utf8DecodeGo_three f _ _ _ r (by omega) (by omega) (by rw [e0, e1]; split <;> omega)
      (by rw [e0, e1]; split <;> omega) (by omega) (by omega), e0, e1, e2, e, hc]
  · rw [utf8_four c h1 h2 h3]
    generalize c.val.toNat = v at hv hc h1 h2 h3
    have e0 : (UInt8.ofNat (v / 262144 % 8 + 240)).toNat = v / 262144 % 8 + 240 := toNat_ofNat_lt (by omega)
    have e1 : (UInt8.ofNat (v / 4096 % 64 + 128)).toNat = v / 4096 % 64 + 128 := toNat_ofNat_lt (by omega)
    have e2 : (UInt8.ofNat (v / 64 % 64 + 128)).toNat = v / 64 % 64 + 128 := toNat_ofNat_lt (by omega)
    have e3 : (UInt8.ofNat (v % 64 + 128)).toNat = v % 64 + 128 := toNat_ofNat_lt (by omega)
    have e : (v / 262144 % 8 + 240 - 0xF0) * 262144 + (v / 4096 % 64 + 128 - 0x80) * 4096
        + (v / 64 % 64 + 128 - 0x80) * 64 + (v % 64 + 128 - 0x80) = v := by omega
    show utf8DecodeGo (f + 1) (_ :: _ :: _ :: _ :: r) = _
    rw [utf8DecodeGo_four f _ _ _ _ r (by omega) (by omega) (by rw [e0, e1]; split <;> omega)
      (by rw [e0, e1]; split <;> omega) (by omega) (by omega) (by omega) (by omega), e0, e1, e2, e3, e, hc]

theorem utf8s_nil : utf8s [] = [] := rfl

theorem utf8s_cons (c : Char) (cs : List Char) : utf8s (c :: cs) = utf8 c ++ utf8s cs := by
  simp only [utf8s, List.flatMap_cons]

theorem utf8s_append (as bs : List Char) : utf8s (as ++ bs) = utf8s as ++ utf8s bs := by
  simp only [utf8s, List.flatMap_append]

theorem utf8_length_pos (c : Char) : 0 < (utf8 c).length := by
  simp only [utf8, String.utf8EncodeChar]
  split
  · simp
  split
  · simp
  split <;> simp

theorem length_le_utf8s_length (cs : List Char) : cs.length ≤ (utf8s cs).length := by
  induction cs with
  | nil => simp [utf8s_nil]
  | cons c cs ih =>
    have := utf8_length_pos c
    rw [utf8s_cons, List.length_append, List.length_cons]
    omega

/-- generalised over trailing bytes and fuel: decoding a valid prefix peels exactly its chars -/
theorem utf8DecodeGo_utf8s_append (cs : List Char) (f : Nat) (r : Bytes) :
    utf8DecodeGo (f + cs.length) (utf8s cs ++ r) = (utf8DecodeGo f r).map (cs ++ ·) := by
  induction cs with
  | nil =>
    cases h : utf8DecodeGo f r <;> simp [utf8s_nil, h]
  | cons c cs ih =>
    rw [utf8s_cons, List.append_assoc, List.length_cons, ← Nat.add_assoc,
      utf8DecodeGo_utf8_append, ih]
    cases utf8DecodeGo f r <;> simp

theorem utf8DecodeGo_utf8s (cs : List Char) (f : Nat) (h : cs.length < f) :
    utf8DecodeGo f (utf8s cs) = some cs := by
  obtain ⟨k, rfl⟩ : ∃ k, f = (k + 1) + cs.length := ⟨f - cs.length - 1, by omega⟩
  have := utf8DecodeGo_utf8s_append cs (k + 1) []
  rw [List.append_nil] at this
  rw [this]
  simp [utf8DecodeGo]

/-- round trip: strict decoding of an encoded char list returns it (all `Char`s) -/
theorem utf8Decode_utf8s (cs : List Char) : utf8Decode (utf8s cs) = some cs := by
  have := length_le_utf8s_length cs
  exact utf8DecodeGo_utf8s cs _ (by omega)

/-! ### Rejection of invalid lead bytes -/

theorem utf8DecodeGo_invalid_lead (f : Nat) (b : UInt8) (r : Bytes)
    (h : 0x80 ≤ b.toNat ∧ b.toNat < 0xC2 ∨ 0xF5 ≤ b.toNat) :
    utf8DecodeGo f (b :: r) = none := by
  cases f with
  | zero => rfl
  | succ f =>
    rcases h with ⟨h1, h2⟩ | h
    · have a1 : ¬ b.toNat < 0x80 := by omega
      simp only [utf8DecodeGo, if_neg a1, if_pos h2]
    · have a1 : ¬ b.toNat < 0x80 := by omega
      have a2 : ¬ b.toNat < 0xC2 := by omega
      have a3 : ¬ b.toNat < 0xE0 := by omega
      have a4 : ¬ b.toNat < 0xF0 := by omega
      have a5 : ¬ b.toNat < 0xF5 := by omega
      simp only [utf8DecodeGo, if_neg a1, if_neg a2, if_neg a3, if_neg a4, if_neg a5]

/-- continuation bytes, overlong leads `C0`/`C1`, and leads `≥ F5` are rejected -/
theorem utf8Decode_invalid_lead (b : UInt8) (r : Bytes)
    (h : 0x80 ≤ b.toNat ∧ b.toNat < 0xC2 ∨ 0xF5 ≤ b.toNat) : utf8Decode (b :: r) = none :=
  utf8DecodeGo_invalid_lead _ b r h

theorem utf8DecodeGo_append_invalid (cs : List Char) (f : Nat) (b : UInt8) (r : Bytes)
    (h : 0x80 ≤ b.toNat ∧ b.toNat < 0xC2 ∨ 0xF5 ≤ b.toNat) :
    utf8DecodeGo f (utf8s cs ++ b :: r) = none := by
  induction cs generalizing f with
  | nil => exact utf8DecodeGo_invalid_lead f b r h
  | cons c cs ih =>
    cases f with
    | zero => rfl
    | succ f =>
      rw [utf8s_cons, List.append_assoc, utf8DecodeGo_utf8_append, ih]
      rfl

/-- a valid prefix followed by an invalid lead byte is rejected -/
theorem utf8Decode_append_invalid (cs : List Char) (b : UInt8) (r : Bytes)
    (h : 0x80 ≤ b.toNat ∧ b.toNat < 0xC2 ∨ 0xF5 ≤ b.toNat) :
    utf8Decode (utf8s cs ++ b :: r) = none :=
  utf8DecodeGo_append_invalid cs _ b r h

/-! ### Soundness: the decoder only accepts canonical encodings -/

private theorem val_toNat_ofNat (n : Nat) (h : n.isValidChar) : (Char.ofNat n).val.toNat = n := by
  unfold Char.ofNat
  rw [dif_pos h]
  show (BitVec.ofNatLT n _).toNat = n
  simp

theorem utf8_ofNat_one (b0 : UInt8) (h0 : b0.toNat < 0x80) :
    utf8 (Char.ofNat b0.toNat) = [b0] := by
  have hv := val_toNat_ofNat b0.toNat (Or.inl (by omega))
  rw [utf8_one _ (by rw [hv]; omega), hv, UInt8.ofNat_toNat]

theorem utf8_ofNat_two (b0 b1 : UInt8)
    (h0 : 0xC2 ≤ b0.toNat) (h0' : b0.toNat < 0xE0) (h1 : 0x80 ≤ b1.toNat) (h1' : b1.toNat < 0xC0) :
    utf8 (Char.ofNat ((b0.toNat - 0xC0) * 64 + (b1.toNat - 0x80))) = [b0, b1] := by
  generalize hn : (b0.toNat - 0xC0) * 64 + (b1.toNat - 0x80) = n
  have hv := val_toNat_ofNat n (Or.inl (by omega))
  rw [utf8_two _ (by rw [hv]; omega) (by rw [hv]; omega), hv]
  have e0 : n / 64 % 32 + 192 = b0.toNat := by omega
  have e1 : n % 64 + 128 = b1.toNat := by omega
  rw [e0, e1, UInt8.ofNat_toNat, UInt8.ofNat_toNat]

theorem utf8_ofNat_three (b0 b1 b2 : UInt8)
    (h0 : 0xE0 ≤ b0.toNat) (h0' : b0.toNat < 0xF0)
    (h1 : (if b0.toNat = 0xE0 then 0xA0 else 0x80) ≤ b1.toNat)
    (h1' : b1.toNat < (if b0.toNat = 0xED then 0xA0 else 0xC0))
    (h2 : 0x80 ≤ b2.toNat) (h2' : b2.toNat < 0xC0) :
    utf8 (Char.ofNat ((b0.toNat - 0xE0) * 4096 + (b1.toNat - 0x80) * 64 + (b2.toNat - 0x80)))
      = [b0, b1, b2] := by
  generalize hn : (b0.toNat - 0xE0) * 4096 + (b1.toNat - 0x80) * 64 + (b2.toNat - 0x80) = n
  have l1 : 0x80 ≤ b1.toNat := by split at h1 <;> omega
  have l1' : b1.toNat < 0xC0 := by split at h1' <;> omega
  have lo : 0x800 ≤ n := by split at h1 <;> omega
  have hi : n ≤ 0xFFFF := by omega
  have hval : n.isValidChar := by
    show n < 55296 ∨ 57343 < n ∧ n < 1114112
    split at h1' <;> omega
  have hv := val_toNat_ofNat n hval
  rw [utf8_three _ (by rw [hv]; omega) (by rw [hv]; omega) (by rw [hv]; omega), hv]
  have e0 : n / 4096 % 16 + 224 = b0.toNat := by omega
  have e1 : n / 64 % 64 + 128 = b1.toNat := by omega
  have e2 : n % 64 + 128 = b2.toNat := by omega
  rw [e0, e1, e2, UInt8.ofNat_toNat, UInt8.ofNat_toNat, UInt8.ofNat_toNat]

theorem utf8_ofNat_four (b0 b1 b2 b3 : UInt8)
    (h0 : 0xF0 ≤ b0.toNat) (h0' : b0.toNat < 0xF5)
    (h1 : (if b0.toNat = 0xF0 then 0x90 else 0x80) ≤ b1.toNat)
    (h1' : b1.toNat < (if b0.toNat = 0xF4 then 0x90 else 0xC0))
    (h2 : 0x80 ≤ b2.toNat) (h2' : b2.toNat < 0xC0)
    (h3 : 0x80 ≤ b3.toNat) (h3' : b3.toNat < 0xC0) :
    utf8 (Char.ofNat ((b0.toNat - 0xF0) * 262144 + (b1.toNat - 0x80) * 4096
          + (b2.toNat - 0x80) * 64 + (b3.toNat - 0x80))) = [b0, b1, b2, b3] := by
  generalize hn : (b0.toNat - 0xF0) * 262144 + (b1.toNat - 0x80) * 4096
          + (b2.toNat - 0x80) * 64 + (b3.toNat - 0x80) = n
  have l1 : 0x80 ≤ b1.toNat := by split at h1 <;> omega
  have l1' : b1.toNat < 0xC0 := by split at h1' <;> omega
  have lo : 0x10000 ≤ n := by split at h1 <;> omega
  have hi : n < 0x110000 := by split at h1' <;> omega
  have hval : n.isValidChar := by
    show n < 55296 ∨ 57343 < n ∧ n < 1114112
    omega
  have hv := val_toNat_ofNat n hval
  rw [utf8_four _ (by rw [hv]; omega) (by rw [hv]; omega) (by rw [hv]; omega), hv]
  have e0 : n / 262144 % 8 + 240 = b0.toNat := by omega
  have e1 : n / 4096 % 64 + 128 = b1.toNat := by omega
  have e2 : n / 64 % 64 + 128 = b2.toNat := by omega
  have e3 : n % 64 + 128 = b3.toNat := by omega
  rw [e0, e1, e2, e3, UInt8.ofNat_toNat, UInt8.ofNat_toNat, UInt8.ofNat_toNat, UInt8.ofNat_toNat]


private theorem map_cons_eq_some {o : Option (List Char)} {c : Char} {cs : List Char}
    (h : o.map (c :: ·) = some cs) : ∃ cs', o = some cs' ∧ cs = c :: cs' := by
  cases o with
  | none => cases h
  | some x => exact ⟨x, rfl, (Option.some.inj h).symm⟩

private theorem of_ite_none_eq_some {α : Type} {c : Prop} [Decidable c] {x : Option α} {y : α}
    (h : (if c then x else none) = some y) : c ∧ x = some y := by
  by_cases hc : c
  · rw [if_pos hc] at h; exact ⟨hc, h⟩
  · rw [if_neg hc] at h; cases h

theorem utf8DecodeGo_sound (f : Nat) (b : Bytes) (cs : List Char)
    (h : utf8DecodeGo f b = some cs) : utf8s cs = b := by
  induction f generalizing b cs with
  | zero => cases h
  | succ f ih =>
    match b with
    | [] =>
      simp only [utf8DecodeGo] at h
      cases h; rfl
    | b0 :: r =>
      simp only [utf8DecodeGo] at h
      split at h
      · next h0 =>
        obtain ⟨cs', hd, rfl⟩ := map_cons_eq_some h
        rw [utf8s_cons, ih _ _ hd, utf8_ofNat_one b0 h0]; rfl
      split at h
      · cases h
      split at h
      · split at h
        · next h0 h0' h0'' b1 r1 =>
          split at h
          · next hc =>
            simp only [Bool.and_eq_true, decide_eq_true_eq] at hc
            obtain ⟨cs', hd, rfl⟩ := map_cons_eq_some h
            rw [utf8s_cons, ih _ _ hd, utf8_ofNat_two b0 b1 (by omega) (by omega) hc.1 hc.2]; rfl
          · cases h
        · cases h
      split at h
      · split at h
        · next b1 b2 r2 =>
          obtain ⟨hc, h⟩ := of_ite_none_eq_some h
          simp only [Bool.and_eq_true, decide_eq_true_eq] at hc
          obtain ⟨cs', hd, rfl⟩ := map_cons_eq_some h
          rw [utf8s_cons, ih _ _ hd,
            utf8_ofNat_three b0 b1 b2 (by omega) (by omega) hc.1.1.1 hc.1.1.2 hc.1.2 hc.2]; rfl
        · cases h
      split at h
      · split at h
        · next b1 b2 b3 r3 =>
          obtain ⟨hc, h⟩ := of_ite_none_eq_some h
          simp only [Bool.and_eq_true, decide_eq_true_eq] at hc
          obtain ⟨cs', hd, rfl⟩ := map_cons_eq_some h
          rw [utf8s_cons, ih _ _ hd,
            utf8_ofNat_four b0 b1 b2 b3 (by omega) (by omega) hc.1.1.1.1.1 hc.1.1.1.1.2
              hc.1.1.1.2 hc.1.1.2 hc.1.2 hc.2]; rfl
        · cases h
      · cases h

/-- soundness: whatever the decoder accepts is the canonical encoding of its result -/
theorem utf8Decode_sound (b : Bytes) (cs : List Char) (h : utf8Decode b = some cs) :
    utf8s cs = b := utf8DecodeGo_sound _ b cs h

theorem utf8Decode_eq_some_iff (b : Bytes) (cs : List Char) :
    utf8Decode b = some cs ↔ utf8s cs = b :=
  ⟨utf8Decode_sound b cs, fun h => h ▸ utf8Decode_utf8s cs⟩

end WfModel
