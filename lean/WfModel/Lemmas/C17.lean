import WfModel.Model.Eval

/-! Helper definitions and lemmas for C17 (`in $list`); no property statements. -/
namespace WfModel

/-! ### the matcher of one list -/

/-- the answer of a list matcher in state `st` (`ListMatcher::match_value`) -/
def ListState.answer (st : ListState) (name : List Char) (v : Val) : Bool :=
  match st.kind with
  | .always => true
  | .never => false
  | .sets =>
    match st.sets.find? (fun s => s.1 == name) with
    | some (_, vs) => vs.any (· == v)
    | none => false

theorem listMatch_some (c : Ctx) (l : Nat) (name : List Char) (v : Val) (st : ListState)
    (h : c.lists[l]? = some st) : listMatch c l name v = .ok (st.answer name v) := by
  unfold listMatch ListState.answer
  rw [h]
  simp only []
  cases st.kind <;> rfl

theorem listMatch_none (c : Ctx) (l : Nat) (name : List Char) (v : Val)
    (h : c.lists[l]? = none) : listMatch c l name v = .error .unreachable := by
  unfold listMatch
  rw [h]

theorem compareVal_inList (c : Ctx) (l : Nat) (name : List Char) (v : Val) :
    compareVal c (.inList l name) v = listMatch c l name v := by
  cases v <;> rfl

/-- `ListMatcher::clear` of the harness matcher (`sets.clear()`); the built-in matchers'
`clear` is a no-op, and they have no sets. -/
def ListState.clear (st : ListState) : ListState := { st with sets := [] }

/-- `ExecutionContext::clear`: every value unset, every matcher cleared. -/
def Ctx.clear (c : Ctx) : Ctx :=
  { values := c.values.map (fun _ => none), lists := c.lists.map ListState.clear }

theorem clear_lists_get (c : Ctx) (l : Nat) :
    c.clear.lists[l]? = (c.lists[l]?).map ListState.clear := by
  simp [Ctx.clear]

theorem answer_clear_sets (st : ListState) (name : List Char) (v : Val)
    (hk : st.kind = .sets) : st.clear.answer name v = false := by
  simp [ListState.answer, ListState.clear, hk]

theorem answer_clear_builtin (st : ListState) (name : List Char) (v : Val)
    (hk : st.kind ≠ .sets) : st.clear.answer name v = st.answer name v := by
  unfold ListState.answer ListState.clear
  cases h : st.kind <;> simp_all

/-! ### generic helpers -/

theorem mapM'_ok {α β} (g : α → β) (xs : List α) :
    mapM' (fun x => (.ok (g x) : EM β)) xs = .ok (xs.map g) := by
  induction xs with
  | nil => rfl
  | cons a as ih => simp [mapM', ih]

theorem mapM'_congr {α β} (f g : α → EM β) (xs : List α) (h : ∀ x ∈ xs, f x = g x) :
    mapM' f xs = mapM' g xs := by
  induction xs with
  | nil => rfl
  | cons a as ih =>
    simp only [mapM']
    rw [h a (by simp), ih (fun x hx => h x (by simp [hx]))]

/-- `Result<LhsValue, Type>` seen as an optional value -/
def resOpt : VRes → Option Val
  | .ok v => some v
  | .error _ => none

/-! ### evaluation of an `in $list` comparison -/

theorem evalL_inList (s : Scheme) (c : Ctx) (lhs : IExpr) (l : Nat) (name : List Char) :
    evalL s c (.comparison lhs (.inList l name)) =
      match evalBase s c lhs with
      | .error e => .error e
      | .ok base => compareWith c (resOpt base) lhs.indexes false (.inList l name) := by
  rw [evalL]
  cases evalBase s c lhs with
  | error e => rfl
  | ok base => cases base <;> rfl

/-- the elements a comparison under `[*]` is applied to, given the identifier's value:
`compile_vec_with` (one trailing `[*]`: the container reached by the other indexes; nothing
when the path is absent) or `compile_iter_with` (`MapEachIterator`) -/
def eachItems (ixs : List FieldIndex) (v : Val) : EM (List Val) :=
  if mapEachCount ixs = 1 && ixs.getLast? = some .each then
    match getNested v (popTrailingEach ixs) with
    | .error e => .error e
    | .ok none => .ok []
    | .ok (some (.array _ xs)) => .ok xs
    | .ok (some (.map _ kvs)) => .ok (kvs.map (·.2))
    | .ok (some _) => .error .unwrapIndex
  else mapEachRun ixs v

theorem compareWith_each (c : Ctx) (v : Val) (ixs : List FieldIndex) (d : Bool) (op : CmpOp)
    (h : mapEachCount ixs > 0) :
    compareWith c (some v) ixs d op =
      match eachItems ixs v with
      | .error e => .error e
      | .ok items => (mapM' (compareVal c op) items).map .vec := by
  have h0 : ¬ mapEachCount ixs = 0 := by omega
  unfold compareWith eachItems
  simp only [h0, if_false]
  split
  · cases hg : getNested v (popTrailingEach ixs) with
    | error e => rfl
    | ok o =>
      cases o with
      | none => rfl
      | some x => cases x <;> rfl
  · rfl

theorem compareWith_each_none (c : Ctx) (ixs : List FieldIndex) (d : Bool) (op : CmpOp)
    (h : mapEachCount ixs > 0) :
    compareWith c none ixs d op = .ok (.vec []) := by
  have h0 : ¬ mapEachCount ixs = 0 := by omega
  unfold compareWith
  simp only [h0, if_false]
  split <;> rfl

theorem compareWith_zero (c : Ctx) (base : Option Val) (ixs : List FieldIndex) (d : Bool)
    (op : CmpOp) (h : mapEachCount ixs = 0) :
    compareWith c base ixs d op =
      match base with
      | none => .ok (.one d)
      | some v =>
        match getNested v ixs with
        | .error e => .error e
        | .ok none => .ok (.one d)
        | .ok (some x) => (compareVal c op x).map .one := by
  unfold compareWith
  simp only [h, if_true]
  rfl

theorem indexValue_zero (base : VRes) (ixs : List FieldIndex) (ty : Ty)
    (h : mapEachCount ixs = 0) :
    indexValue base ixs ty =
      match base with
      | .error _ => .ok (.error ty)
      | .ok v =>
        match getNested v ixs with
        | .error e => .error e
        | .ok none => .ok (.error ty)
        | .ok (some x) => .ok (.ok x) := by
  unfold indexValue
  simp only [h, if_true]
  rfl

/-! ### list-name lexing -/

theorem spanWhile_iff (p : Char → Bool) : ∀ (l a b : Input),
    spanWhile p l = (a, b) ↔
      (l = a ++ b ∧ a.all p = true ∧ ∀ c, b.head? = some c → p c = false)
  | [], a, b => by
    simp only [spanWhile, Prod.mk.injEq]
    constructor
    · rintro ⟨rfl, rfl⟩; simp
    · rintro ⟨h, _, _⟩
      have := List.append_eq_nil_iff.mp h.symm
      exact ⟨this.1.symm, this.2.symm⟩
  | c :: cs, a, b => by
    unfold spanWhile
    by_cases hp : p c = true
    · simp only [hp, if_true]
      cases hs : spanWhile p cs with
      | mk a' b' =>
        have ih := spanWhile_iff p cs a' b'
        have ⟨h1, h2, h3⟩ := ih.mp hs
        simp only [Prod.mk.injEq]
        constructor
        · rintro ⟨rfl, rfl⟩
          refine ⟨by rw [h1]; rfl, by simp [hp, h2], h3⟩
        · rintro ⟨hl, ha, hb⟩
          cases a with
          | nil =>
            simp only [List.nil_append] at hl
            subst hl
            have := hb c rfl
            rw [hp] at this; cases this
          | cons x a'' =>
            simp only [List.cons_append, List.cons.injEq] at hl
            obtain ⟨rfl, hl⟩ := hl
            have ha'' : a''.all p = true := by
              simp only [List.all_cons, Bool.and_eq_true] at ha; exact ha.2
            have := (spanWhile_iff p cs a'' b).mpr ⟨hl, ha'', hb⟩
            rw [hs] at this
            simp only [Prod.mk.injEq] at this
            exact ⟨by rw [this.1], this.2⟩
    · have hp' : p c = false := by simpa using hp
      simp only [hp', Bool.false_eq_true, if_false, Prod.mk.injEq]
      constructor
      · rintro ⟨rfl, rfl⟩
        refine ⟨rfl, rfl, ?_⟩
        intro c' hc'
        simp only [List.head?_cons, Option.some.injEq] at hc'
        subst hc'; exact hp'
      · rintro ⟨hl, ha, _⟩
        cases a with
        | nil => exact ⟨rfl, by simpa using hl⟩
        | cons x a'' =>
          simp only [List.cons_append, List.cons.injEq] at hl
          obtain ⟨rfl, _⟩ := hl
          simp only [List.all_cons, Bool.and_eq_true] at ha
          rw [hp'] at ha; cases ha.1

theorem expect_dollar (input : Input) (r : Input) :
    expect input "$" = some r ↔ input = '$' :: r := by
  show stripPrefix input ['$'] = some r ↔ _
  cases input with
  | nil => simp [stripPrefix]
  | cons c cs =>
    by_cases hc : c = '$'
    · subst hc; simp [stripPrefix]
    · simp [stripPrefix, hc]

theorem expect_dollar_none (input : Input) :
    expect input "$" = none ↔ ∀ r, input ≠ '$' :: r := by
  constructor
  · intro h r hr
    have := (expect_dollar input r).mpr hr
    rw [h] at this; cases this
  · intro h
    cases he : expect input "$" with
    | none => rfl
    | some r => exact absurd ((expect_dollar input r).mp he) (h r)

/-- a well-formed list name: non-empty, over the alphabet, no leading or trailing dot -/
def ListNameOk (name : List Char) : Prop :=
  name ≠ [] ∧ name.all isListNameChar = true ∧ name.head? ≠ some '.' ∧
    name.getLast? ≠ some '.'

theorem lexListName_ok_iff (input : Input) (name rest : List Char) :
    lexListName input = .ok (name, rest) ↔
      (input = '$' :: (name ++ rest) ∧ ListNameOk name ∧
        ∀ c, rest.head? = some c → isListNameChar c = false) := by
  unfold lexListName ListNameOk
  cases he : expect input "$" with
  | none =>
    have hn := (expect_dollar_none input).mp he
    simp only [errAt]
    constructor
    · intro h; cases h
    · rintro ⟨h, _⟩; exact absurd h (hn _)
  | some r =>
    have hi := (expect_dollar input r).mp he
    subst hi
    dsimp only
    cases hs : spanWhile isListNameChar r with
    | mk a b =>
      have hsp := spanWhile_iff isListNameChar r a b
      simp only []
      by_cases hemp : a.isEmpty = true
      · simp only [hemp, if_true, errAt]
        constructor
        · intro h; cases h
        · rintro ⟨hl, ⟨hne, hall, _, _⟩, hb⟩
          simp only [List.cons.injEq, true_and] at hl
          have h2 := (spanWhile_iff isListNameChar r name rest).mpr ⟨hl, hall, hb⟩
          rw [hs] at h2
          simp only [Prod.mk.injEq] at h2
          rw [h2.1] at hemp
          exact absurd (List.isEmpty_iff.mp hemp) hne
      · simp only [hemp, Bool.false_eq_true, if_false]
        by_cases hdot : (a.head? = some '.' || a.getLast? = some '.') = true
        · simp only [hdot, if_true, errAt]
          constructor
          · intro h; cases h
          · rintro ⟨hl, ⟨_, hall, hh, hg⟩, hb⟩
            simp only [List.cons.injEq, true_and] at hl
            have h2 := (spanWhile_iff isListNameChar r name rest).mpr ⟨hl, hall, hb⟩
            rw [hs] at h2
            simp only [Prod.mk.injEq] at h2
            rw [h2.1] at hdot
            simp only [Bool.or_eq_true, decide_eq_true_eq] at hdot
            rcases hdot with h | h
            · exact absurd h hh
            · exact absurd h hg
        · simp only [hdot, Bool.false_eq_true, if_false]
          have ⟨h1, h2, h3⟩ := hsp.mp hs
          simp only [Bool.or_eq_true, decide_eq_true_eq, not_or] at hdot
          constructor
          · intro h
            simp only [Except.ok.injEq, Prod.mk.injEq] at h
            obtain ⟨rfl, rfl⟩ := h
            refine ⟨by rw [h1], ⟨?_, h2, hdot.1, hdot.2⟩, h3⟩
            intro hnil; subst hnil; exact hemp rfl
          · rintro ⟨hl, ⟨_, hall, _, _⟩, hb⟩
            simp only [List.cons.injEq, true_and] at hl
            have h4 := (spanWhile_iff isListNameChar r name rest).mpr ⟨hl, hall, hb⟩
            rw [hs] at h4
            simp only [Prod.mk.injEq] at h4
            rw [h4.1, h4.2]

theorem isListNameChar_iff (c : Char) :
    isListNameChar c = true ↔
      (('a' ≤ c ∧ c ≤ 'z') ∨ ('0' ≤ c ∧ c ≤ '9') ∨ c = '_' ∨ c = '.') := by
  simp [isListNameChar, isAsciiDigit, or_assoc]

/-! ### routing: `Scheme::get_list` -/

theorem findIdx_some {α} (p : α → Bool) : ∀ (l : List α) (i j : Nat),
    findIdx p l i = some j ↔
      ∃ k, j = i + k ∧ (∃ a, l[k]? = some a ∧ p a = true) ∧
        ∀ k' < k, ∀ a, l[k']? = some a → p a = false
  | [], i, j => by simp [findIdx]
  | a :: as, i, j => by
    unfold findIdx
    by_cases hp : p a = true
    · simp only [hp, if_true, Option.some.injEq]
      constructor
      · rintro rfl
        exact ⟨0, rfl, ⟨a, rfl, hp⟩, fun k' hk' => absurd hk' (Nat.not_lt_zero _)⟩
      · rintro ⟨k, rfl, _, hmin⟩
        cases k with
        | zero => rfl
        | succ k =>
          have := hmin 0 (Nat.succ_pos _) a rfl
          rw [hp] at this; cases this
    · have hp' : p a = false := by simpa using hp
      simp only [hp', Bool.false_eq_true, if_false]
      rw [findIdx_some p as (i + 1) j]
      constructor
      · rintro ⟨k, rfl, ⟨b, hb, hpb⟩, hmin⟩
        refine ⟨k + 1, by omega, ⟨b, by simpa using hb, hpb⟩, ?_⟩
        intro k' hk' x hx
        cases k' with
        | zero => simp only [List.getElem?_cons_zero, Option.some.injEq] at hx; subst hx; exact hp'
        | succ k' =>
          exact hmin k' (by omega) x (by simpa using hx)
      · rintro ⟨k, rfl, ⟨b, hb, hpb⟩, hmin⟩
        cases k with
        | zero =>
          simp only [List.getElem?_cons_zero, Option.some.injEq] at hb
          subst hb; rw [hp'] at hpb; cases hpb
        | succ k =>
          refine ⟨k, by omega, ⟨b, by simpa using hb, hpb⟩, ?_⟩
          intro k' hk' x hx
          exact hmin (k' + 1) (by omega) x (by simpa using hx)

theorem findIdx_none {α} (p : α → Bool) : ∀ (l : List α) (i : Nat),
    findIdx p l i = none ↔ ∀ a ∈ l, p a = false
  | [], i => by simp [findIdx]
  | a :: as, i => by
    unfold findIdx
    by_cases hp : p a = true
    · simp [hp]
    · have hp' : p a = false := by simpa using hp
      simp [hp', findIdx_none p as (i + 1)]

/-- `get_list(ty) = Some(l)`: `l` is the first registration index whose type is `ty` -/
theorem getList_some_iff (s : Scheme) (t : Ty) (l : Nat) :
    s.getList t = some l ↔
      (∃ k, s.lists[l]? = some (t, k)) ∧ ∀ j < l, ∀ x, s.lists[j]? = some x → x.1 ≠ t := by
  unfold Scheme.getList
  rw [findIdx_some]
  constructor
  · rintro ⟨k, rfl, ⟨a, ha, hpa⟩, hmin⟩
    simp only [Nat.zero_add]
    refine ⟨⟨a.2, ?_⟩, ?_⟩
    · have : a.1 = t := by simpa using hpa
      rw [ha, ← this]
    · intro j hj x hx
      have := hmin j hj x hx
      simpa using this
  · rintro ⟨⟨k, hk⟩, hmin⟩
    refine ⟨l, by omega, ⟨(t, k), hk, by simp⟩, ?_⟩
    intro j hj x hx
    have := hmin j hj x hx
    simpa using this

theorem getList_none_iff (s : Scheme) (t : Ty) :
    s.getList t = none ↔ ∀ x ∈ s.lists, x.1 ≠ t := by
  unfold Scheme.getList
  rw [findIdx_none]
  simp

/-- one list per type, as `SchemeBuilder::add_list` enforces (`DuplicateListError`) -/
def Scheme.ListsDistinct (s : Scheme) : Prop := (s.lists.map (·.1)).Nodup

theorem getList_of_registered (s : Scheme) (hd : s.ListsDistinct) (t : Ty) (k : ListKind)
    (l : Nat) (h : s.lists[l]? = some (t, k)) : s.getList t = some l := by
  rw [getList_some_iff]
  refine ⟨⟨k, h⟩, ?_⟩
  intro j hj x hx hxt
  unfold Scheme.ListsDistinct at hd
  rw [List.nodup_iff_pairwise_ne, List.pairwise_iff_getElem] at hd
  have hl : l < s.lists.length := by
    rcases Nat.lt_or_ge l s.lists.length with h' | h'
    · exact h'
    · rw [List.getElem?_eq_none h'] at h; cases h
  have hjl : j < s.lists.length := by omega
  have := hd j l (by simpa using hjl) (by simpa using hl) hj
  simp only [List.getElem_map] at this
  have e1 : s.lists[j] = x := by
    have := List.getElem?_eq_getElem hjl
    rw [this] at hx; exact Option.some.inj hx
  have e2 : s.lists[l] = (t, k) := by
    have := List.getElem?_eq_getElem hl
    rw [this] at h; exact Option.some.inj h
  rw [e1, e2] at this
  exact this hxt

/-- the context's matchers are created from the list definitions, in registration order -/
def CtxFor (s : Scheme) (c : Ctx) : Prop := c.lists.map (·.kind) = s.lists.map (·.2)

theorem ctxFor_get (s : Scheme) (c : Ctx) (h : CtxFor s c) (l : Nat) (t : Ty) (k : ListKind)
    (hl : s.lists[l]? = some (t, k)) : ∃ st, c.lists[l]? = some st ∧ st.kind = k := by
  unfold CtxFor at h
  have h1 : (c.lists.map (·.kind))[l]? = (s.lists.map (·.2))[l]? := by rw [h]
  simp only [List.getElem?_map, hl, Option.map_some] at h1
  cases hc : c.lists[l]? with
  | none => rw [hc] at h1; cases h1
  | some st =>
    rw [hc] at h1
    exact ⟨st, rfl, by simpa using h1⟩

/-! ### `ComparisonExpr::lex_with_lhs`: the `in $name` arm -/

/-- whenever the parser produces an `InList` node, it came from the `in` arm with a lexed
list name, and the list index is the one `get_list(lhs_type)` returned -/
theorem cmpWithLhs_inList (env : PEnv) (lhs : IExpr) (lhsTy : Ty) (input rest : Input)
    (t : Typed LExpr) (lhs' : IExpr) (l : Nat) (name : List Char)
    (h : cmpWithLhs env lhs lhsTy input = .ok (t, rest))
    (hn : t.node = .comparison lhs' (.inList l name)) :
    lhs' = lhs ∧ env.scheme.getList lhsTy = some l ∧
      (lhsTy = .ip ∨ lhsTy = .bytes ∨ lhsTy = .int) ∧
      ∃ afterOp, lexEnum comparisonOps (skipSpace input) = some (.in_, afterOp) ∧
        lexListName (skipSpace afterOp) = .ok (name, rest) := by
  unfold cmpWithLhs at h
  simp only [] at h
  repeat' split at h
  all_goals (try (simp [errAt, errSpan] at h; done))
  all_goals (try (simp only [Except.ok.injEq, Prod.mk.injEq] at h; obtain ⟨rfl, rfl⟩ := h;
                  simp at hn; done))
  all_goals
    simp only [Except.ok.injEq, Prod.mk.injEq] at h
    obtain ⟨rfl, rfl⟩ := h
    simp only [LExpr.comparison.injEq, CmpOp.inList.injEq] at hn
    obtain ⟨rfl, rfl, rfl⟩ := hn
    have hty : (lhsTy == Ty.ip || lhsTy == Ty.bytes || lhsTy == Ty.int) = true := by assumption
    simp only [Bool.or_eq_true, beq_iff_eq] at hty
    refine ⟨rfl, by assumption, ?_, _, by assumption, by assumption⟩
    rcases hty with (h1 | h1) | h1
    · exact Or.inl h1
    · exact Or.inr (Or.inl h1)
    · exact Or.inr (Or.inr h1)

/-- the type a comparison node gets -/
def cmpTy (lhs : IExpr) : Ty := if mapEachCount lhs.indexes > 0 then .array .bool else .bool

/-- the `in $name` arm, computed: given an admissible lhs type, the `in` operator and a
lexed list name -/
theorem cmpWithLhs_in_dollar (env : PEnv) (lhs : IExpr) (lhsTy : Ty) (input afterOp rest : Input)
    (name : List Char)
    (hty : lhsTy = .ip ∨ lhsTy = .bytes ∨ lhsTy = .int)
    (hop : lexEnum comparisonOps (skipSpace input) = some (.in_, afterOp))
    (hname : lexListName (skipSpace afterOp) = .ok (name, rest)) :
    cmpWithLhs env lhs lhsTy input =
      match env.scheme.getList lhsTy with
      | some l => .ok ({ node := .comparison lhs (.inList l name), ty := cmpTy lhs }, rest)
      | none => errSpan .unsupportedOp (skipSpace input) rest := by
  have hexp : expect (skipSpace afterOp) "$" = some (name ++ rest) := by
    rw [expect_dollar]
    exact ((lexListName_ok_iff _ _ _).mp hname).1
  unfold cmpWithLhs cmpTy
  rcases hty with rfl | rfl | rfl <;>
  · simp only [hop, hexp, hname]
    cases env.scheme.getList _ with
    | none => rfl
    | some l => by_cases hm : mapEachCount lhs.indexes > 0 <;> simp [hm, Ty.next]

/-- `in $…` whose list name does not lex is rejected with the lexer's error -/
theorem cmpWithLhs_in_dollar_badname (env : PEnv) (lhs : IExpr) (lhsTy : Ty)
    (input afterOp r : Input) (e : LexErr)
    (hty : lhsTy = .ip ∨ lhsTy = .bytes ∨ lhsTy = .int)
    (hop : lexEnum comparisonOps (skipSpace input) = some (.in_, afterOp))
    (hexp : expect (skipSpace afterOp) "$" = some r)
    (hname : lexListName (skipSpace afterOp) = .error e) :
    cmpWithLhs env lhs lhsTy input = .error e := by
  unfold cmpWithLhs
  rcases hty with rfl | rfl | rfl <;>
  · simp only [hop, hexp, hname]
    rfl

/-- for any other lhs type `in` is not supported at all -/
theorem cmpWithLhs_in_other (env : PEnv) (lhs : IExpr) (lhsTy : Ty) (input afterOp : Input)
    (hb : lhsTy ≠ .bool) (hnb : lhsTy.next ≠ some .bool)
    (hty : ¬ (lhsTy = .ip ∨ lhsTy = .bytes ∨ lhsTy = .int))
    (hop : lexEnum comparisonOps (skipSpace input) = some (.in_, afterOp)) :
    cmpWithLhs env lhs lhsTy input = errSpan .unsupportedOp (skipSpace input) afterOp := by
  have h1 : (lhsTy == Ty.bool) = false := by simpa using hb
  have h2 : (lhsTy.next == some Ty.bool) = false := by simpa using hnb
  have h3 : (lhsTy == Ty.ip || lhsTy == Ty.bytes || lhsTy == Ty.int) = false := by
    simp only [not_or] at hty
    simp [hty.1, hty.2.1, hty.2.2]
  unfold cmpWithLhs
  simp only [h1, h2, h3, hop]
  rfl

/-! ### a single trailing `[*]`: the elements of the value of the path before it -/

theorem popTrailingEach_eq (ixs : List FieldIndex) (h : ixs.getLast? = some .each) :
    popTrailingEach ixs = ixs.take (ixs.length - 1) := by
  obtain ⟨ys, rfl⟩ := List.getLast?_eq_some_iff.mp h
  simp [popTrailingEach]

/-- the elements `compile_vec_with` iterates over -/
def containerItems : Val → EM (List Val)
  | .array _ xs => .ok xs
  | .map _ kvs => .ok (kvs.map (·.2))
  | _ => .error .unwrapIndex

theorem eachItems_of_value (s : Scheme) (c : Ctx) (lhs : IExpr) (x : Val)
    (h1 : mapEachCount lhs.indexes = 1) (hl : lhs.indexes.getLast? = some .each)
    (hv : evalI s c lhs = .ok (.ok x)) :
    ∃ v, evalBase s c lhs = .ok (.ok v) ∧ eachItems lhs.indexes v = containerItems x := by
  unfold evalI at hv
  cases hb : evalBase s c lhs with
  | error e => rw [hb] at hv; cases hv
  | ok base =>
    rw [hb] at hv
    simp only [] at hv
    unfold indexValue at hv
    simp only [h1, hl, Nat.succ_ne_zero, if_false, beq_self_eq_true, Bool.and_self,
      if_true, decide_true] at hv
    cases base with
    | error t => simp at hv
    | ok v =>
      refine ⟨v, rfl, ?_⟩
      simp only [] at hv
      unfold eachItems
      simp only [h1, hl, beq_self_eq_true, decide_true, Bool.and_self, if_true]
      rw [popTrailingEach_eq _ hl]
      cases hg : getNested v (List.take (lhs.indexes.length - 1) lhs.indexes) with
      | error e => rw [hg] at hv; cases hv
      | ok o =>
        rw [hg] at hv
        cases o with
        | none => simp at hv
        | some y =>
          simp only [Except.ok.injEq] at hv
          subst hv
          cases y <;> rfl

end WfModel
