import WfModel.Model.Lit

/-! Helper lemmas for C06 (literals): digit rendering, scanner primitives.
No property statements here. -/
namespace WfModel

/-! ### spec-side digit rendering -/

/-- the (lower-case) character of a digit value `< 16` -/
def digitChar (d : Nat) : Char := if d < 10 then Char.ofNat (48 + d) else Char.ofNat (87 + d)

/-- upper-case variant (`A`–`F`) -/
def digitCharU (d : Nat) : Char := if d < 10 then Char.ofNat (48 + d) else Char.ofNat (55 + d)

/-- positional rendering of `n` in `radix` (most significant first, no leading zeros,
`0` ↦ `"0"`). Well-founded on `n`. -/
def digits (radix n : Nat) : List Char :=
  if n < radix ∨ radix < 2 then [digitChar n]
  else digits radix (n / radix) ++ [digitChar (n % radix)]
termination_by n
decreasing_by
  rename_i h
  have : 2 ≤ radix := by omega
  exact Nat.div_lt_self (by omega) this

theorem digits_small {radix n : Nat} (h : n < radix) : digits radix n = [digitChar n] := by
  rw [digits]; simp [h]

theorem digits_big {radix n : Nat} (h2 : 2 ≤ radix) (h : radix ≤ n) :
    digits radix n = digits radix (n / radix) ++ [digitChar (n % radix)] := by
  rw [digits]
  have : ¬ (n < radix ∨ radix < 2) := by omega
  simp [this]

theorem digitVal_digitChar : ∀ d, d < 16 → digitVal (digitChar d) = some d := by decide
theorem digitVal_digitCharU : ∀ d, d < 16 → digitVal (digitCharU d) = some d := by decide
theorem isHex_digitChar : ∀ d, d < 16 → isAsciiHexDigit (digitChar d) = true := by decide
theorem isHex_digitCharU : ∀ d, d < 16 → isAsciiHexDigit (digitCharU d) = true := by decide

theorem digitChar_zero : digitChar 0 = '0' := by decide

/-- a nonzero decimal/hex digit is not `0`, not a sign, not `x` -/
theorem digitChar_pos_ne : ∀ d, d < 16 → 1 ≤ d →
    digitChar d ≠ '0' ∧ digitChar d ≠ '-' ∧ digitChar d ≠ '+' ∧ digitChar d ≠ 'x' := by decide

theorem digitChar_ne_sign : ∀ d, d < 16 →
    digitChar d ≠ '-' ∧ digitChar d ≠ '+' ∧ digitChar d ≠ 'x' ∧ digitChar d ≠ '"' ∧
    digitChar d ≠ '\\' := by decide

/-! ### `parseDigits` -/

/-- one step of the fold inside `parseDigits` -/
def pdStep (radix : Nat) (acc : Option Nat) (c : Char) : Option Nat := do
  let a ← acc
  let d ← digitVal c
  if d < radix then some (a * radix + d) else none

theorem parseDigits_eq (radix : Nat) (cs : List Char) :
    parseDigits radix cs = if cs.isEmpty then none else cs.foldl (pdStep radix) (some 0) := rfl

theorem pdStep_digitChar {radix a d : Nat} (hr : radix ≤ 16) (hd : d < radix) :
    pdStep radix (some a) (digitChar d) = some (a * radix + d) := by
  have := digitVal_digitChar d (by omega)
  simp [pdStep, this, hd]

theorem pdStep_digitCharU {radix a d : Nat} (hr : radix ≤ 16) (hd : d < radix) :
    pdStep radix (some a) (digitCharU d) = some (a * radix + d) := by
  have := digitVal_digitCharU d (by omega)
  simp [pdStep, this, hd]

theorem digits_ne_nil (radix n : Nat) : digits radix n ≠ [] := by
  rw [digits]; split <;> simp

theorem foldl_digits {radix : Nat} (h2 : 2 ≤ radix) (h16 : radix ≤ 16) (n : Nat) :
    (digits radix n).foldl (pdStep radix) (some 0) = some n := by
  induction n using digits.induct radix with
  | case1 x hx =>
    have hx' : x < radix := by omega
    rw [digits_small hx']
    simp [pdStep_digitChar h16 hx']
  | case2 x hx ih =>
    have hx' : radix ≤ x := by omega
    rw [digits_big h2 hx', List.foldl_append, ih]
    have hm : x % radix < radix := Nat.mod_lt _ (by omega)
    simp only [List.foldl_cons, List.foldl_nil, pdStep_digitChar h16 hm]
    congr 1
    exact Nat.div_add_mod' x radix

/-- **Core lemma**: parsing the rendering gives the number back (radix 2..16). -/
theorem parseDigits_digits {radix : Nat} (h2 : 2 ≤ radix) (h16 : radix ≤ 16) (n : Nat) :
    parseDigits radix (digits radix n) = some n := by
  rw [parseDigits_eq, foldl_digits h2 h16 n]
  simp [digits_ne_nil]

theorem digits_all_hex {radix : Nat} (h2 : 2 ≤ radix) (h16 : radix ≤ 16) (n : Nat) :
    ∀ c ∈ digits radix n, isAsciiHexDigit c = true := by
  · induction n using digits.induct radix with
    | case1 x hx =>
      have hx' : x < radix := by omega
      rw [digits_small hx']
      intro c hc
      simp at hc; subst hc
      exact isHex_digitChar x (by omega)
    | case2 x hx ih =>
      have hx' : radix ≤ x := by omega
      rw [digits_big h2 hx']
      intro c hc
      rcases List.mem_append.mp hc with h | h
      · exact ih c h
      · simp at h; subst h
        have hm : x % radix < radix := Nat.mod_lt _ (by omega)
        exact isHex_digitChar _ (by omega)

theorem digits_head {radix : Nat} (h2 : 2 ≤ radix) (n : Nat) :
    ∃ d tl, digits radix n = digitChar d :: tl ∧ d < radix ∧ (1 ≤ n → 1 ≤ d) := by
  induction n using digits.induct radix with
  | case1 x hx =>
    have hx' : x < radix := by omega
    exact ⟨x, [], digits_small hx', hx', fun h => h⟩
  | case2 x hx ih =>
    have hx' : radix ≤ x := by omega
    obtain ⟨d, tl, he, hd, h1⟩ := ih
    refine ⟨d, tl ++ [digitChar (x % radix)], ?_, hd, fun _ => h1 ?_⟩
    · rw [digits_big h2 hx', he]; rfl
    · exact (Nat.le_div_iff_mul_le (by omega)).mpr (by omega)

/-! ### scanner primitives -/

/-- the input is empty or its first character does not satisfy `p` -/
def headNot (p : Char → Bool) : Input → Bool
  | [] => true
  | c :: _ => !p c

theorem spanWhile_run (p : Char → Bool) (a b : Input) (ha : ∀ c ∈ a, p c = true)
    (hb : headNot p b = true) : spanWhile p (a ++ b) = (a, b) := by
  induction a with
  | nil =>
    cases b with
    | nil => rfl
    | cons c cs => simp [headNot] at hb; simp [spanWhile, hb]
  | cons c cs ih =>
    have hc := ha c List.mem_cons_self
    have := ih (fun d hd => ha d (List.mem_cons_of_mem _ hd))
    simp [spanWhile, hc, this]

theorem takeWhile1_run (p : Char → Bool) (a b : Input) (hne : a ≠ [])
    (ha : ∀ c ∈ a, p c = true) (hb : headNot p b = true) :
    takeWhile1 p (a ++ b) = .ok (a, b) := by
  unfold takeWhile1
  rw [spanWhile_run p a b ha hb]
  cases a with
  | nil => exact absurd rfl hne
  | cons c cs => rfl

theorem take_length_append (a b : Input) : (a ++ b).take ((a ++ b).length - b.length) = a := by
  simp

/-! ### character classes on code points -/

theorem char_le_iff (a b : Char) : a ≤ b ↔ a.toNat ≤ b.toNat := Iff.rfl

theorem digitVal_nat (c : Char) :
    digitVal c =
      if 48 ≤ c.toNat ∧ c.toNat ≤ 57 then some (c.toNat - 48)
      else if 97 ≤ c.toNat ∧ c.toNat ≤ 102 then some (c.toNat - 87)
      else if 65 ≤ c.toNat ∧ c.toNat ≤ 70 then some (c.toNat - 55)
      else none := by
  unfold digitVal isAsciiDigit
  simp only [Bool.and_eq_true, decide_eq_true_eq, char_le_iff]
  have e0 : ('0' : Char).toNat = 48 := by decide
  have e9 : ('9' : Char).toNat = 57 := by decide
  have ea : ('a' : Char).toNat = 97 := by decide
  have ef : ('f' : Char).toNat = 102 := by decide
  have eA : ('A' : Char).toNat = 65 := by decide
  have eF : ('F' : Char).toNat = 70 := by decide
  simp only [e0, e9, ea, ef, eA, eF]
  split
  · rfl
  · split
    · congr 1; omega
    · split
      · congr 1; omega
      · rfl

theorem isHex_iff (c : Char) : isAsciiHexDigit c = true ↔
    (48 ≤ c.toNat ∧ c.toNat ≤ 57) ∨ (97 ≤ c.toNat ∧ c.toNat ≤ 102) ∨
      (65 ≤ c.toNat ∧ c.toNat ≤ 70) := by
  unfold isAsciiHexDigit isAsciiDigit
  simp only [Bool.or_eq_true, Bool.and_eq_true, decide_eq_true_eq, char_le_iff]
  have e0 : ('0' : Char).toNat = 48 := by decide
  have e9 : ('9' : Char).toNat = 57 := by decide
  have ea : ('a' : Char).toNat = 97 := by decide
  have ef : ('f' : Char).toNat = 102 := by decide
  have eA : ('A' : Char).toNat = 65 := by decide
  have eF : ('F' : Char).toNat = 70 := by decide
  simp only [e0, e9, ea, ef, eA, eF]
  omega

/-- a hex digit has a value below 16; anything else has none -/
theorem digitVal_of_hex (c : Char) (h : isAsciiHexDigit c = true) :
    ∃ d, digitVal c = some d ∧ d < 16 := by
  rw [isHex_iff] at h
  rw [digitVal_nat]
  split
  · exact ⟨_, rfl, by omega⟩
  · split
    · exact ⟨_, rfl, by omega⟩
    · split
      · exact ⟨_, rfl, by omega⟩
      · omega

theorem digitVal_of_not_hex (c : Char) (h : isAsciiHexDigit c = false) : digitVal c = none := by
  have h' : ¬ (isAsciiHexDigit c = true) := by simp [h]
  rw [isHex_iff] at h'
  rw [digitVal_nat]
  split
  · omega
  · split
    · omega
    · split
      · omega
      · rfl

theorem pdStep_none_left (radix : Nat) (c : Char) : pdStep radix none c = none := rfl

theorem pdStep_none_of {radix : Nat} (acc : Option Nat) (c : Char)
    (h : ∀ d, digitVal c = some d → radix ≤ d) : pdStep radix acc c = none := by
  cases acc with
  | none => rfl
  | some a =>
    cases hd : digitVal c with
    | none => simp [pdStep, hd]
    | some d =>
      have := h d hd
      have : ¬ d < radix := by omega
      simp [pdStep, hd, this]

theorem pdStep_some {radix a d : Nat} (c : Char) (hd : digitVal c = some d) (hl : d < radix) :
    pdStep radix (some a) c = some (a * radix + d) := by
  simp [pdStep, hd, hl]

theorem parseDigits_two_eq (radix : Nat) (a b : Char) :
    parseDigits radix [a, b] = pdStep radix (pdStep radix (some 0) a) b := rfl

theorem parseDigits_three_eq (radix : Nat) (a b c : Char) :
    parseDigits radix [a, b, c] = pdStep radix (pdStep radix (pdStep radix (some 0) a) b) c := rfl

theorem inI64_iff (v : Int) :
    inI64 v = true ↔ -9223372036854775808 ≤ v ∧ v ≤ 9223372036854775807 := by
  unfold inI64 i64Min i64Max
  rw [Bool.and_eq_true, decide_eq_true_eq, decide_eq_true_eq]

end WfModel
