import WfModel.Model.Parse
import WfModel.Lemmas.C07.Lex
/-!
# `LogicalExpr::lex_unary_op` (`lexUnary`): basic facts

`lexUnary` is `lexEnum unaryOps` minus one case: the word `not` glued to name characters that
complete a registered name. Bridging lemmas between the two, used wherever a proof about
`simpleL` / `argL` used to reason about `lexEnum unaryOps`. Helper lemmas only.
-/
namespace WfModel

theorem gluedTo_cons (c : Char) (cs : Input) :
    gluedTo (c :: cs) = (isIdentChar c || c == '.') := rfl

/-- `!` is always the operator -/
theorem lexUnary_bang (env : PEnv) (x : Input) : lexUnary env ('!' :: x) = some ((), x) := by
  simp [lexUnary, lexEnum, unaryOps, expect, stripPrefix]

/-- the word `not`: the operator unless glued to the rest of a registered name -/
theorem lexUnary_not (env : PEnv) (x : Input) :
    lexUnary env ('n' :: 'o' :: 't' :: x) =
      if gluedTo x && isRegistered env.scheme ('n' :: 'o' :: 't' :: x) then none
      else some ((), x) := by
  simp [lexUnary, lexEnum, unaryOps, expect, stripPrefix, gluedTo, isRegistered]

/-- what `lexEnum unaryOps` accepts -/
theorem lexEnum_unary_cases {input rest : Input} {u : Unit}
    (h : lexEnum unaryOps input = some (u, rest)) :
    input = 'n' :: 'o' :: 't' :: rest ∨ input = '!' :: rest := by
  obtain ⟨sp, hmem, hin⟩ := C07L.lexEnum_sound h
  simp only [unaryOps, List.mem_cons, Prod.mk.injEq, and_true, List.not_mem_nil, or_false] at hmem
  rcases hmem with rfl | rfl
  · exact .inl hin
  · exact .inr hin

/-- **bridge**: whenever `lex_unary_op` returns the operator, it returns what `UnaryOp::lex`
returns (so every fact about the rest carries over) -/
theorem lexUnary_some {env : PEnv} {input rest : Input} {u : Unit}
    (h : lexUnary env input = some (u, rest)) : lexEnum unaryOps input = some (u, rest) := by
  unfold lexUnary at h
  split at h
  · cases h
  · rename_i op r he
    split at h
    · cases h
    · rw [he]; exact h

theorem lexUnary_none_of_enum {env : PEnv} {input : Input}
    (h : lexEnum unaryOps input = none) : lexUnary env input = none := by
  simp only [lexUnary, h]

/-- **when `lex_unary_op` declines**: no operator spelling at all, or the word `not` glued to
name characters with a registered maximal dotted name starting at the `n` -/
theorem lexUnary_eq_none_iff (env : PEnv) (input : Input) :
    lexUnary env input = none ↔
      lexEnum unaryOps input = none ∨
      ∃ x, input = 'n' :: 'o' :: 't' :: x ∧ gluedTo x = true ∧
        isRegistered env.scheme input = true := by
  constructor
  · intro h
    cases he : lexEnum unaryOps input with
    | none => exact .inl rfl
    | some p =>
      obtain ⟨u, rest⟩ := p
      right
      rcases lexEnum_unary_cases he with rfl | rfl
      · refine ⟨rest, rfl, ?_⟩
        rw [lexUnary_not] at h
        split at h
        · rename_i hc
          simpa using hc
        · cases h
      · rw [lexUnary_bang] at h; cases h
  · rintro (h | ⟨x, rfl, hg, hr⟩)
    · exact lexUnary_none_of_enum h
    · rw [lexUnary_not, hg, hr]; rfl

/-- the operator is taken: `!`, or `not` not glued, or glued to an unregistered name -/
theorem lexUnary_eq_some_iff (env : PEnv) (input rest : Input) (u : Unit) :
    lexUnary env input = some (u, rest) ↔
      input = '!' :: rest ∨
      (input = 'n' :: 'o' :: 't' :: rest ∧
        (gluedTo rest = false ∨ isRegistered env.scheme input = false)) := by
  constructor
  · intro h
    rcases lexEnum_unary_cases (lexUnary_some h) with rfl | rfl
    · right
      refine ⟨rfl, ?_⟩
      rw [lexUnary_not] at h
      split at h
      · cases h
      · rename_i hc
        cases hg : gluedTo rest with
        | false => exact .inl rfl
        | true =>
          right
          cases hr : isRegistered env.scheme ('n' :: 'o' :: 't' :: rest) with
          | false => rfl
          | true => simp [hg, hr] at hc
    · exact .inl rfl
  · rintro (rfl | ⟨rfl, h⟩)
    · exact lexUnary_bang env rest
    · rw [lexUnary_not]
      rcases h with h | h <;> simp [h]

/-- `lexUnary` looks at the scheme only -/
theorem lexUnary_scheme (e1 e2 : PEnv) (h : e1.scheme = e2.scheme) :
    lexUnary e1 = lexUnary e2 := by
  funext i
  simp only [lexUnary, h]

end WfModel
