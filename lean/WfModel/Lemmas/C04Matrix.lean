import WfModel.Model.Eval
/-!
# C04 — the finite typing matrices

`Spec.*` = the documented rules, written independently of `Model/Parse.lean`.
`admits` = the decision `cmpWithLhs` makes on (lhs type, operator), factored out of it
(`cmpWithLhs_factored`).
-/
namespace WfModel
namespace Spec

/-- Documented operator admissibility (README "Comparison operators" / `field_expr.rs`):
* `Int`: `in`, the six ordering operators, bitwise and;
* `Bytes`: `in`, ordering, `contains`, `matches`, `wildcard`, `strict wildcard`;
* `Ip`: `in`, ordering;
* `Bool` and containers of `Bool`: no operator at all (the bare field is the test, `IsTrue`);
* every other container: none. -/
def allowed : Ty → CompOp → Bool
  | .int, .in_ => true
  | .int, .ord _ => true
  | .int, .bitAnd => true
  | .bytes, .in_ => true
  | .bytes, .ord _ => true
  | .bytes, .contains => true
  | .bytes, .matches_ => true
  | .bytes, .wildcard => true
  | .bytes, .strictWildcard => true
  | .ip, .in_ => true
  | .ip, .ord _ => true
  | _, _ => false

/-- Documented index rule: `[n]` on arrays, `["k"]` on maps, `[*]` on both; the result is
the element type. -/
def indexRule (t : Ty) (ix : FieldIndex) (t' : Ty) : Prop :=
  match ix with
  | .arr _ => t = .array t'
  | .key _ => t = .map t'
  | .each => t = .array t' ∨ t = .map t'

/-- Documented rule for the operands of `and`/`or`/`xor`. -/
def logicalRule (l r : Ty) : Prop :=
  (l = .bool ∧ r = .bool) ∨ ((∃ a, l = .array a) ∧ (∃ b, r = .array b))

end Spec

/-- The decision of `ComparisonExpr::lex_with_lhs` once an operator has been lexed on a
left-hand side that is neither `Bool` nor a container of `Bool`: `false` = the
`UnsupportedOp` fallback arm. -/
def admits (t : Ty) (op : CompOp) : Bool :=
  match op with
  | .in_ => t == .ip || t == .bytes || t == .int
  | .ord _ => t == .ip || t == .bytes || t == .int
  | .bitAnd => t == .int
  | .contains => t == .bytes
  | .matches_ => t == .bytes
  | .wildcard => t == .bytes
  | .strictWildcard => t == .bytes

/-- `IsTrue` lhs: `Bool`, or a container of `Bool` -/
def isTrueLhs (t : Ty) : Bool := t == .bool || t.next == some .bool

/-- The right-hand-side arm of `lex_with_lhs` for an admitted (type, operator) pair. -/
def cmpRhs (env : PEnv) (lhs : IExpr) (lhsTy : Ty) (initial afterOp : Input) (op : CompOp) :
    LexRes (Typed LExpr) :=
  let mec := mapEachCount lhs.indexes
  let mk (op : CmpOp) (rest : Input) : LexRes (Typed LExpr) :=
    let ty : Ty := if mec > 0 then .array .bool else if op == CmpOp.isTrue then lhsTy else .bool
    .ok ({ node := .comparison lhs op, ty := ty }, rest)
  let inp := skipSpace afterOp
  let unsupported : LexRes (Typed LExpr) := errSpan .unsupportedOp initial afterOp
  match op with
  | .in_ =>
    match expect inp "$" with
    | some _ =>
      match lexListName inp with
      | .error e => .error e
      | .ok (name, rest) =>
        match env.scheme.getList lhsTy with
        | some l => mk (.inList l name) rest
        | none => errSpan .unsupportedOp initial rest
    | none =>
      match lexRhsVals lhsTy inp with
      | some (.ok (vs, rest)) => mk (.oneOf vs) rest
      | some (.error e) => .error e
      | none => unsupported
  | .ord o =>
    match lexRhsVal lhsTy inp with
    | some (.ok (v, rest)) => mk (.ordering o v) rest
    | some (.error e) => .error e
    | none => unsupported
  | .bitAnd =>
    match lexInt inp with
    | .ok (v, rest) => mk (.bitAnd v) rest
    | .error e => .error e
  | .contains =>
    match lexBytes inp with
    | .ok (b, rest) => mk (.contains b) rest
    | .error e => .error e
  | .matches_ =>
    match inp with
    | '"' :: r =>
      match cmpWithLhs.scan r false [] with
      | none => errAt .missingEndingQuote r
      | some (pat, rest) =>
        match regexVerdict pat with
        | some true => mk (.matches pat .literal) rest
        | some false => errSpan .parseRegex r rest
        | none => errAt .undecided r
    | 'r' :: r =>
      match lexRawStr r with
      | .error e => .error e
      | .ok ((pat, k), rest) =>
        match regexVerdict pat with
        | some true => mk (.matches pat (.raw k)) rest
        | some false => errAt .parseRegex rest
        | none => errAt .undecided r
    | [] => errAt .eof inp
    | _ => errAt .expectedName inp
  | .wildcard =>
    match lexQuotedOrRaw inp with
    | .error e => .error e
    | .ok (b, rest) =>
      if wildcardOk env.st b.data then mk (.wildcard false b) rest else errAt .parseWildcard inp
  | .strictWildcard =>
    match lexQuotedOrRaw inp with
    | .error e => .error e
    | .ok (b, rest) =>
      if wildcardOk env.st b.data then mk (.wildcard true b) rest else errAt .parseWildcard inp

/-- `lex_with_lhs` with the (type, operator) decision factored out as `admits`. -/
def cmpWithLhs' (env : PEnv) (lhs : IExpr) (lhsTy : Ty) (input : Input) : LexRes (Typed LExpr) :=
  let mec := mapEachCount lhs.indexes
  if lhsTy == .bool then
    .ok ({ node := .comparison lhs .isTrue, ty := if mec > 0 then .array .bool else lhsTy }, input)
  else if lhsTy.next == some .bool then
    if mec > 0 then .error { kind := .unsupportedOp, pos := input, len := 0 }
    else .ok ({ node := .comparison lhs .isTrue, ty := lhsTy }, input)
  else
    let initial := skipSpace input
    match lexEnum comparisonOps initial with
    | none => errAt .expectedName initial
    | some (op, afterOp) =>
      if admits lhsTy op then cmpRhs env lhs lhsTy initial afterOp op
      else errSpan .unsupportedOp initial afterOp

theorem cmpWithLhs_factored (env : PEnv) (lhs : IExpr) (lhsTy : Ty) (input : Input) :
    cmpWithLhs env lhs lhsTy input = cmpWithLhs' env lhs lhsTy input := by
  unfold cmpWithLhs cmpWithLhs'
  by_cases hb : (lhsTy == Ty.bool) = true
  · simp only [hb, if_true]; rfl
  · simp only [hb]
    by_cases hn : (lhsTy.next == some Ty.bool) = true
    · simp only [hn, if_true]
      by_cases hm : mapEachCount lhs.indexes > 0
      · simp only [hm, if_true]
      · simp only [hm, if_false]; rfl
    · simp only [hn]
      cases hl : lexEnum comparisonOps (skipSpace input) with
      | none => rfl
      | some p =>
        obtain ⟨op, afterOp⟩ := p
        cases op <;> simp only [admits, cmpRhs] <;> split <;> rfl

end WfModel

namespace WfModel

/-- `admits` (the model's decision) is the documented table, for every type and operator. -/
theorem admits_eq_allowed (t : Ty) (op : CompOp) : admits t op = Spec.allowed t op := by
  cases t <;> cases op <;> rfl

theorem isTrueLhs_not_allowed (t : Ty) (op : CompOp) (h : isTrueLhs t = true) :
    Spec.allowed t op = false := by
  cases t <;> cases op <;> first | rfl | (simp [isTrueLhs, Ty.next] at h)

/-- rejection: an operator that lexes but is not allowed for the lhs type ends in the
`UnsupportedOp` fallback, with the span of the operator. -/
theorem cmpWithLhs_unsupported (env : PEnv) (lhs : IExpr) (t : Ty) (input afterOp : Input)
    (op : CompOp) (hT : isTrueLhs t = false)
    (hlex : lexEnum comparisonOps (skipSpace input) = some (op, afterOp))
    (hna : Spec.allowed t op = false) :
    cmpWithLhs env lhs t input = errSpan .unsupportedOp (skipSpace input) afterOp := by
  rw [cmpWithLhs_factored]
  unfold cmpWithLhs'
  simp only [isTrueLhs, Bool.or_eq_false_iff] at hT
  simp only [hT.1, hT.2, hlex, admits_eq_allowed, hna]
  rfl

/-- acceptance: a comparison is only ever produced for a bare `IsTrue` lhs or through an
allowed (type, operator) cell. -/
theorem cmpWithLhs_ok_allowed (env : PEnv) (lhs : IExpr) (t : Ty) (input rest : Input)
    (e : Typed LExpr) (h : cmpWithLhs env lhs t input = .ok (e, rest)) :
    (isTrueLhs t = true ∧ e.node = .comparison lhs .isTrue ∧ rest = input) ∨
    (isTrueLhs t = false ∧ ∃ op afterOp,
      lexEnum comparisonOps (skipSpace input) = some (op, afterOp) ∧ Spec.allowed t op = true) := by
  rw [cmpWithLhs_factored] at h
  unfold cmpWithLhs' at h
  by_cases hb : (t == Ty.bool) = true
  · simp only [hb, if_true] at h
    injection h with h; injection h with h1 h2
    exact Or.inl ⟨by simp [isTrueLhs, hb], by rw [← h1], h2.symm⟩
  · simp only [hb] at h
    by_cases hn : (t.next == some Ty.bool) = true
    · simp only [hn, if_true] at h
      by_cases hm : mapEachCount lhs.indexes > 0
      · simp only [hm, if_true] at h; cases h
      · simp only [hm, if_false] at h
        injection h with h; injection h with h1 h2
        exact Or.inl ⟨by simp [isTrueLhs, hn], by rw [← h1], h2.symm⟩
    · simp only [hn] at h
      refine Or.inr ⟨by simp [isTrueLhs, hb, hn], ?_⟩
      cases hl : lexEnum comparisonOps (skipSpace input) with
      | none => simp only [hl] at h; cases h
      | some p =>
        obtain ⟨op, afterOp⟩ := p
        refine ⟨op, afterOp, rfl, ?_⟩
        rw [← admits_eq_allowed]
        by_cases ha : admits t op = true
        · exact ha
        · simp only [hl, ha] at h; cases h

theorem index_matrix (t : Ty) (ix : FieldIndex) (t' : Ty) :
    indexStep t ix = some t' ↔ Spec.indexRule t ix t' := by
  cases ix <;> cases t <;> simp [indexStep, Spec.indexRule]

/-- all 3 × 6 cells, spelled out -/
theorem index_matrix_cells (e : Ty) (n : Nat) (k : List Char) :
    indexStep (.array e) (.arr n) = some e ∧ indexStep (.map e) (.key k) = some e ∧
    indexStep (.array e) .each = some e ∧ indexStep (.map e) .each = some e ∧
    indexStep (.map e) (.arr n) = none ∧ indexStep (.array e) (.key k) = none ∧
    (∀ ix, indexStep .bool ix = none) ∧ (∀ ix, indexStep .int ix = none) ∧
    (∀ ix, indexStep .ip ix = none) ∧ (∀ ix, indexStep .bytes ix = none) := by
  refine ⟨rfl, rfl, rfl, rfl, rfl, rfl, ?_, ?_, ?_, ?_⟩ <;> intro ix <;> cases ix <;> rfl

theorem logical_matrix (l r : Ty) : logicalTypesOk l r = true ↔ Spec.logicalRule l r := by
  cases l <;> cases r <;> simp [logicalTypesOk, Spec.logicalRule]

end WfModel

namespace WfModel
namespace Spec

/-- Rust spelling of the type head (`Type::X`) -/
def tyName : Ty → String
  | .bool => "Bool" | .int => "Int" | .ip => "Ip" | .bytes => "Bytes"
  | .array _ => "Array" | .map _ => "Map"

/-- Rust spelling of the operator class (`ComparisonOp::X`) -/
def classOf : CompOp → String
  | .in_ => "In"
  | .ord _ => "Ordering"
  | .bitAnd => "Int"
  | .contains => "Bytes" | .matches_ => "Bytes" | .wildcard => "Bytes" | .strictWildcard => "Bytes"

/-- Rust spelling of the `BytesOp` variant -/
def bytesOpName : CompOp → Option String
  | .contains => some "Contains" | .matches_ => some "Matches"
  | .wildcard => some "Wildcard" | .strictWildcard => some "StrictWildcard"
  | _ => none

end Spec
end WfModel
