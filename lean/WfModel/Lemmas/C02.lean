import WfModel.Model.Eval

/-!
Helper definitions and lemmas for C02 (indexing, map-each, element-wise logic, any/all).
No property statements here; see `WfModel/Props/C02.lean`.
-/
namespace WfModel
namespace C02

/-! ### the declarative reference: `pathSpec` and `PathOk` -/

/-- `v[n]` on an array (anything else has no element) -/
def atIdx (v : Val) (n : Nat) : Option Val :=
  match v with
  | .array _ xs => xs[n]?
  | _ => none

/-- `v["k"]` on a map (anything else has no entry) -/
def atKey (v : Val) (k : List Char) : Option Val :=
  match v with
  | .map _ kvs => mapGet kvs (utf8s k)
  | _ => none

/-- the values one index step selects, in order -/
def stepSpec (ix : FieldIndex) (v : Val) : List Val :=
  match ix with
  | .arr n => (atIdx v n).toList
  | .key k => (atKey v k).toList
  | .each => Val.elements v

/-- **Reference semantics of an index path**: the list of values it selects, in row-major
order (arrays in index order, maps in stored = ascending key order). -/
def pathSpec : List FieldIndex → Val → List Val
  | [], v => [v]
  | ix :: r, v => (stepSpec ix v).flatMap (pathSpec r)

/-- Typing of a path against the container layers of a type: exactly what the parser's
`indexStep` enforces index by index. -/
def PathOk (t : Ty) : List FieldIndex → Prop
  | [] => True
  | ix :: r =>
    match indexStep t ix with
    | some t' => PathOk t' r
    | none => False

instance instDecPathOk : (t : Ty) → (p : List FieldIndex) → Decidable (PathOk t p)
  | _, [] => isTrue trivial
  | t, ix :: r =>
    match h : indexStep t ix with
    | some t' =>
      match instDecPathOk t' r with
      | isTrue hp => isTrue (by simp only [PathOk, h]; exact hp)
      | isFalse hn => isFalse (by simp only [PathOk, h]; exact hn)
    | none => isFalse (by simp [PathOk, h])

theorem pathOk_cons {t : Ty} {ix : FieldIndex} {r : List FieldIndex} :
    PathOk t (ix :: r) ↔ ∃ t', indexStep t ix = some t' ∧ PathOk t' r := by
  simp only [PathOk]
  cases h : indexStep t ix with
  | none => simp
  | some t' => simp

theorem pathSpec_append (p q : List FieldIndex) (v : Val) :
    pathSpec (p ++ q) v = (pathSpec p v).flatMap (pathSpec q) := by
  induction p generalizing v with
  | nil => simp [pathSpec]
  | cons ix r ih =>
    simp only [List.cons_append, pathSpec, List.flatMap_assoc]
    congr 1
    funext x
    exact ih x

theorem pathSpec_each (v : Val) : pathSpec [.each] v = Val.elements v := by
  simp [pathSpec, stepSpec]

theorem pathOk_append {t : Ty} {p q : List FieldIndex} :
    PathOk t (p ++ q) → PathOk t p := by
  induction p generalizing t with
  | nil => intro _; trivial
  | cons ix r ih =>
    simp only [List.cons_append, pathOk_cons]
    rintro ⟨t', h1, h2⟩
    exact ⟨t', h1, ih h2⟩

/-! ### well-formed values: shape follows type -/

theorem wfList_mem {t : Ty} {xs : List Val} (h : Val.wfList t xs = true) :
    ∀ x ∈ xs, x.typeOf = t ∧ x.wf = true := by
  induction xs with
  | nil => intro x hx; cases hx
  | cons y ys ih =>
    simp only [Val.wfList, Bool.and_eq_true, beq_iff_eq] at h
    intro x hx
    rcases List.mem_cons.mp hx with rfl | hx
    · exact ⟨h.1.1, h.1.2⟩
    · exact ih h.2 x hx

theorem wfKvs_mem {t : Ty} {kvs : List (Bytes × Val)} (h : Val.wfKvs t kvs = true) :
    ∀ x ∈ kvs.map (·.2), x.typeOf = t ∧ x.wf = true := by
  induction kvs with
  | nil => intro x hx; cases hx
  | cons y ys ih =>
    obtain ⟨k, y⟩ := y
    simp only [Val.wfKvs, Bool.and_eq_true, beq_iff_eq] at h
    intro x hx
    simp only [List.map_cons, List.mem_cons] at hx
    rcases hx with rfl | hx
    · exact ⟨h.1.1, h.1.2⟩
    · exact ih h.2 x hx

/-- elements of a well-formed container are well-formed and have the element type -/
theorem elements_typed {v : Val} (hwf : v.wf = true) {t : Ty} (ht : v.typeOf.next = some t) :
    ∀ x ∈ Val.elements v, x.typeOf = t ∧ x.wf = true := by
  cases v with
  | array u xs =>
    simp only [Val.typeOf, Ty.next, Option.some.injEq] at ht
    subst ht
    simp only [Val.wf] at hwf
    exact wfList_mem hwf
  | map u kvs =>
    simp only [Val.typeOf, Ty.next, Option.some.injEq] at ht
    subst ht
    simp only [Val.wf, Bool.and_eq_true] at hwf
    exact wfKvs_mem hwf.1
  | _ => simp [Val.typeOf, Ty.next] at ht

theorem indexStep_next {t t' : Ty} {ix : FieldIndex} (h : indexStep t ix = some t') :
    t.next = some t' := by
  cases ix <;> cases t <;> simp_all [indexStep, Ty.next]

theorem mapGet_mem {kvs : List (Bytes × Val)} {k : Bytes} {x : Val}
    (h : mapGet kvs k = some x) : x ∈ kvs.map (·.2) := by
  unfold mapGet at h
  cases hf : kvs.find? (fun kv => kv.1 == k) with
  | none => simp [hf] at h
  | some kv =>
    simp only [hf, Option.map_some, Option.some.injEq] at h
    subst h
    exact List.mem_map.mpr ⟨kv, List.mem_of_find?_eq_some hf, rfl⟩

theorem stepSpec_sub_elements (ix : FieldIndex) (v : Val) :
    ∀ x ∈ stepSpec ix v, x ∈ Val.elements v := by
  intro x hx
  cases ix with
  | arr n =>
    cases v <;> simp only [stepSpec, atIdx, Option.toList_none, List.not_mem_nil] at hx
    rename_i t xs
    simp only [Option.mem_toList] at hx
    exact List.mem_of_getElem? hx
  | key k =>
    cases v <;> simp only [stepSpec, atKey, Option.toList_none, List.not_mem_nil] at hx
    rename_i t kvs
    simp only [Option.mem_toList] at hx
    exact mapGet_mem hx
  | each => exact hx

/-- one well-typed step on a well-formed value: the selected values are well-formed and have
the step's result type -/
theorem stepSpec_typed {v : Val} (hwf : v.wf = true) {ix : FieldIndex} {t : Ty}
    (ht : indexStep v.typeOf ix = some t) :
    ∀ x ∈ stepSpec ix v, x.typeOf = t ∧ x.wf = true :=
  fun x hx => elements_typed hwf (indexStep_next ht) x (stepSpec_sub_elements ix v x hx)

/-- the iterator the machine builds for one index yields exactly `stepSpec` (never `Stuck`
on a well-typed step) -/
theorem indexIterItems_eq {v : Val} {ix : FieldIndex} {t : Ty}
    (ht : indexStep v.typeOf ix = some t) :
    indexIterItems v ix = .ok (stepSpec ix v) := by
  cases ix <;> cases v <;> simp [indexStep, Val.typeOf] at ht <;>
    simp only [indexIterItems, stepSpec, atIdx, atKey, Val.elements]
  · rename_i n t xs; cases xs[n]? <;> rfl
  · rename_i k t kvs; cases mapGet kvs (utf8s k) <;> rfl

/-- `LhsValue::get` on a well-typed step is the head of `stepSpec` -/
theorem get_eq {v : Val} {ix : FieldIndex} {t : Ty}
    (ht : indexStep v.typeOf ix = some t) (hne : ix ≠ .each) :
    ∃ o : Option Val, v.get ix = .ok o ∧ stepSpec ix v = o.toList := by
  cases ix <;> cases v <;> simp [indexStep, Val.typeOf] at ht <;>
    simp only [Val.get, stepSpec, atIdx, atKey]
  · exact ⟨_, rfl, rfl⟩
  · exact ⟨_, rfl, rfl⟩
  · exact absurd rfl hne
  · exact absurd rfl hne

/-! ### node counts (fuel accounting) -/

theorem valNodes_pos (v : Val) : 0 < valNodes v := by
  cases v <;> simp [valNodes]

theorem valNodesKvs_eq (kvs : List (Bytes × Val)) :
    valNodesKvs kvs = valNodesList (kvs.map (·.2)) := by
  induction kvs with
  | nil => rfl
  | cons kv r ih => obtain ⟨k, x⟩ := kv; simp [valNodesKvs, valNodesList, ih]

theorem valNodes_elements (v : Val) : valNodesList (Val.elements v) + 1 ≤ valNodes v := by
  cases v <;> simp [Val.elements, valNodes, valNodesList, valNodesKvs_eq]

theorem valNodes_mem_le {x : Val} {xs : List Val} (h : x ∈ xs) :
    valNodes x ≤ valNodesList xs := by
  induction xs with
  | nil => cases h
  | cons y ys ih =>
    simp only [valNodesList]
    rcases List.mem_cons.mp h with rfl | h
    · omega
    · have := ih h; omega

theorem valNodes_step (ix : FieldIndex) (v : Val) :
    valNodesList (stepSpec ix v) + 1 ≤ valNodes v := by
  have he := valNodes_elements v
  have hsub := stepSpec_sub_elements ix v
  cases ix with
  | each => exact he
  | arr n =>
    simp only [stepSpec] at hsub ⊢
    cases h : atIdx v n with
    | none => simp [valNodesList]; exact valNodes_pos v
    | some x =>
      have := valNodes_mem_le (hsub x (by simp [h]))
      simp only [Option.toList_some, valNodesList]; omega
  | key k =>
    simp only [stepSpec] at hsub ⊢
    cases h : atKey v k with
    | none => simp [valNodesList]; exact valNodes_pos v
    | some x =>
      have := valNodes_mem_le (hsub x (by simp [h]))
      simp only [Option.toList_some, valNodesList]; omega

/-! ### the stack machine (`MapEachIterator`) against the reference

Stacks are written top-first (`rs`); the model's stack is `rs.reverse` (deepest last). -/

/-- what remains to be produced from a stack: deepest level first; the items pending at the
level with `j` levels below it still have to be indexed by `ixs.drop (j+1)` -/
def stackOut (ixs : List FieldIndex) : List (List Val) → List Val
  | [] => []
  | top :: below =>
    top.flatMap (pathSpec (ixs.drop (below.length + 1))) ++ stackOut ixs below

/-- typing invariant of a stack -/
def StackOk (ixs : List FieldIndex) : List (List Val) → Prop
  | [] => True
  | top :: below =>
    below.length + 1 ≤ ixs.length ∧
    (∀ x ∈ top, x.wf = true ∧ PathOk x.typeOf (ixs.drop (below.length + 1))) ∧
    StackOk ixs below

/-- loop iterations still needed (upper bound): one per pending level plus two per node
below a pending item -/
def stackCost : List (List Val) → Nat
  | [] => 0
  | top :: below => 1 + 2 * valNodesList top + stackCost below

theorem next_pop_level (ixs : List FieldIndex) (f : Nat) (below : List (List Val)) :
    mapEachNext ixs (f + 1) ([] :: below).reverse = mapEachNext ixs f below.reverse := by
  rw [mapEachNext]
  simp

theorem next_leaf (ixs : List FieldIndex) (f : Nat) (x : Val) (top' : List Val)
    (below : List (List Val)) (h : below.length + 1 = ixs.length) :
    mapEachNext ixs (f + 1) ((x :: top') :: below).reverse
      = .ok (some x, (top' :: below).reverse) := by
  rw [mapEachNext]
  simp [h]

theorem next_push (ixs : List FieldIndex) (f : Nat) (x : Val) (top' : List Val)
    (below : List (List Val)) (h : below.length + 1 ≠ ixs.length) (ix : FieldIndex)
    (hix : ixs[below.length + 1]? = some ix) (items : List Val)
    (hit : indexIterItems x ix = .ok items) :
    mapEachNext ixs (f + 1) ((x :: top') :: below).reverse
      = mapEachNext ixs f (items :: top' :: below).reverse := by
  rw [mapEachNext]
  simp [h, hix, hit]

/-- **One `next()`** from a well-typed stack with enough fuel: either nothing remains and it
returns `None`, or it returns the first remaining value and leaves a well-typed, strictly
cheaper stack whose remaining output is the rest. -/
theorem next_spec (ixs : List FieldIndex) (f : Nat) (rs : List (List Val))
    (hok : StackOk ixs rs) (hf : stackCost rs < f) :
    (stackOut ixs rs = [] ∧ mapEachNext ixs f rs.reverse = .ok (none, [])) ∨
    (∃ y rs', mapEachNext ixs f rs.reverse = .ok (some y, rs'.reverse) ∧ StackOk ixs rs' ∧
      stackOut ixs rs = y :: stackOut ixs rs' ∧ stackCost rs' < stackCost rs) := by
  induction f generalizing rs with
  | zero => omega
  | succ f ih =>
    match rs, hok, hf with
    | [], _, _ =>
      left
      refine ⟨rfl, ?_⟩
      rw [mapEachNext]; simp
    | [] :: below, hok, hf =>
      rw [next_pop_level]
      simp only [stackCost, valNodesList] at hf
      have hb : stackOut ixs ([] :: below) = stackOut ixs below := by simp [stackOut]
      rcases ih below hok.2.2 (by omega) with ⟨h1, h2⟩ | ⟨y, rs', h1, h2, h3, h4⟩
      · left; exact ⟨hb ▸ h1, h2⟩
      · right
        refine ⟨y, rs', h1, h2, hb ▸ h3, ?_⟩
        simp only [stackCost, valNodesList]; omega
    | (x :: top') :: below, hok, hf =>
      obtain ⟨hlen, htop, hbelow⟩ := hok
      have hx := htop x List.mem_cons_self
      have htop' : ∀ y ∈ top', y.wf = true ∧ PathOk y.typeOf (ixs.drop (below.length + 1)) :=
        fun y hy => htop y (List.mem_cons_of_mem _ hy)
      by_cases hleaf : below.length + 1 = ixs.length
      · right
        refine ⟨x, top' :: below, next_leaf ixs f x top' below hleaf, ⟨hlen, htop', hbelow⟩, ?_, ?_⟩
        · have : ixs.drop (below.length + 1) = [] := by
            rw [hleaf]; exact List.drop_length
          simp [stackOut, this, pathSpec]
        · have := valNodes_pos x
          simp only [stackCost, valNodesList]; omega
      · have hlt : below.length + 1 < ixs.length := by omega
        have hdrop : ixs.drop (below.length + 1)
            = ixs[below.length + 1] :: ixs.drop (below.length + 1 + 1) :=
          List.drop_eq_getElem_cons hlt
        obtain ⟨hxwf, hxok⟩ := hx
        rw [hdrop, pathOk_cons] at hxok
        obtain ⟨t', hstep, hrest⟩ := hxok
        have hix : ixs[below.length + 1]? = some ixs[below.length + 1] :=
          List.getElem?_eq_getElem hlt
        rw [next_push ixs f x top' below hleaf _ hix _ (indexIterItems_eq hstep)]
        have hnodes := valNodes_step ixs[below.length + 1] x
        have hok' : StackOk ixs (stepSpec ixs[below.length + 1] x :: top' :: below) := by
          refine ⟨by simp only [List.length_cons]; omega, ?_, hlen, htop', hbelow⟩
          intro y hy
          have := stepSpec_typed hxwf hstep y hy
          exact ⟨this.2, by simpa [this.1] using hrest⟩
        have hout : stackOut ixs (stepSpec ixs[below.length + 1] x :: top' :: below)
            = stackOut ixs ((x :: top') :: below) := by
          simp only [stackOut, List.length_cons, List.flatMap_cons, List.append_assoc]
          rw [hdrop]
          simp only [pathSpec]
        have hcost : stackCost (stepSpec ixs[below.length + 1] x :: top' :: below)
            < stackCost ((x :: top') :: below) := by
          simp only [stackCost, valNodesList]; omega
        rcases ih _ hok' (by omega) with ⟨h1, h2⟩ | ⟨y, rs', h1, h2, h3, h4⟩
        · left; exact ⟨hout ▸ h1, h2⟩
        · right
          exact ⟨y, rs', h1, h2, hout ▸ h3, by omega⟩

/-- **Draining** a well-typed stack: with fuel above the stack's cost, `collect` appends
exactly the remaining output. -/
theorem collect_spec (ixs : List FieldIndex) (fuel n : Nat) (rs : List (List Val))
    (acc : List Val) (hok : StackOk ixs rs) (hf : stackCost rs < fuel) (hn : stackCost rs < n) :
    mapEachCollect ixs fuel n rs.reverse acc = .ok (acc ++ stackOut ixs rs) := by
  induction n generalizing rs acc with
  | zero => omega
  | succ n ih =>
    rw [mapEachCollect]
    rcases next_spec ixs fuel rs hok hf with ⟨h1, h2⟩ | ⟨y, rs', h1, h2, h3, h4⟩
    · simp [h2, h1]
    · simp only [h1]
      rw [ih rs' _ h2 (by omega) (by omega), h3]
      simp

/-- any fuel above the initial cost works -/
theorem run_spec_fuel (ix : FieldIndex) (r : List FieldIndex) (v : Val) (hwf : v.wf = true)
    (hp : PathOk v.typeOf (ix :: r)) (fuel n : Nat)
    (hf : 2 * valNodes v ≤ fuel) (hn : 2 * valNodes v ≤ n) :
    mapEachCollect (ix :: r) fuel n [stepSpec ix v] [] = .ok (pathSpec (ix :: r) v) := by
  obtain ⟨t', hstep, hrest⟩ := pathOk_cons.mp hp
  have hok : StackOk (ix :: r) [stepSpec ix v] := by
    refine ⟨by simp, ?_, trivial⟩
    intro y hy
    have := stepSpec_typed hwf hstep y hy
    exact ⟨this.2, by simpa [this.1] using hrest⟩
  have hnodes := valNodes_step ix v
  have hcost : stackCost [stepSpec ix v] < 2 * valNodes v := by
    simp only [stackCost]; omega
  have := collect_spec (ix :: r) fuel n [stepSpec ix v] [] hok (by omega) (by omega)
  simpa [stackOut, pathSpec] using this

/-! ### `[*]` counting -/

theorem mec_nil : mapEachCount [] = 0 := rfl

theorem mec_cons_each (r : List FieldIndex) :
    mapEachCount (.each :: r) = mapEachCount r + 1 := by
  simp [mapEachCount]

theorem mec_cons_ne {ix : FieldIndex} (h : ix ≠ .each) (r : List FieldIndex) :
    mapEachCount (ix :: r) = mapEachCount r := by
  cases ix <;> simp_all [mapEachCount]

theorem mec_append (p q : List FieldIndex) :
    mapEachCount (p ++ q) = mapEachCount p + mapEachCount q := by
  simp [mapEachCount]

theorem mec_cons_zero {ix : FieldIndex} {r : List FieldIndex}
    (h : mapEachCount (ix :: r) = 0) : ix ≠ .each ∧ mapEachCount r = 0 := by
  cases ix
  · exact ⟨by simp, by rwa [mec_cons_ne (by simp)] at h⟩
  · exact ⟨by simp, by rwa [mec_cons_ne (by simp)] at h⟩
  · rw [mec_cons_each] at h; omega

theorem popTrailingEach_snoc (p : List FieldIndex) : popTrailingEach (p ++ [.each]) = p := by
  simp [popTrailingEach]

theorem popTrailingEach_noEach {p : List FieldIndex} (h : mapEachCount p = 0) :
    popTrailingEach p = p := by
  unfold popTrailingEach
  cases hr : p.reverse with
  | nil => rfl
  | cons ix r =>
    cases ix with
    | arr n => rfl
    | key k => rfl
    | each =>
      have hp : p = r.reverse ++ [.each] := by
        have := congrArg List.reverse hr
        simpa using this
      rw [hp, mec_append, mec_cons_each] at h
      omega

/-- a path whose only `[*]` is the last index -/
theorem trailing_each_split {p : List FieldIndex} (h1 : mapEachCount p = 1)
    (hl : p.getLast? = some .each) :
    ∃ q, p = q ++ [.each] ∧ mapEachCount q = 0 := by
  obtain ⟨q, rfl⟩ := List.getLast?_eq_some_iff.mp hl
  refine ⟨q, rfl, ?_⟩
  rw [mec_append, mec_cons_each, mec_nil] at h1
  omega

/-! ### `get_nested` against the reference -/

theorem get_some_mem {v : Val} {ix : FieldIndex} {y : Val} (h : v.get ix = .ok (some y)) :
    y ∈ stepSpec ix v := by
  cases ix <;> cases v <;> simp [Val.get] at h <;> simp [stepSpec, atIdx, atKey, h]

/-- **`get_nested`** on a well-typed `[*]`-free path never gets stuck and returns the one
value the reference selects, or `None` when the reference selects nothing. -/
theorem getNested_spec {v : Val} (hwf : v.wf = true) {p : List FieldIndex}
    (hp : PathOk v.typeOf p) (hm : mapEachCount p = 0) :
    ∃ o : Option Val, getNested v p = .ok o ∧ pathSpec p v = o.toList := by
  induction p generalizing v with
  | nil => exact ⟨some v, rfl, rfl⟩
  | cons ix r ih =>
    obtain ⟨hne, hr⟩ := mec_cons_zero hm
    obtain ⟨t', hstep, hrest⟩ := pathOk_cons.mp hp
    obtain ⟨o, hget, hs⟩ := get_eq hstep hne
    cases o with
    | none =>
      refine ⟨none, ?_, ?_⟩
      · simp [getNested, hget]
      · simp [pathSpec, hs]
    | some x =>
      have hx := stepSpec_typed hwf hstep x (by simp [hs])
      obtain ⟨o', hg', hs'⟩ := ih hx.2 (by simpa [hx.1] using hrest) hr
      refine ⟨o', ?_, ?_⟩
      · simp [getNested, hget, hg']
      · simp [pathSpec, hs, hs']

/-- a value reached by `get_nested` is well-formed and typed by the rest of the path -/
theorem getNested_typed {v : Val} (hwf : v.wf = true) {p q : List FieldIndex}
    (hp : PathOk v.typeOf (p ++ q)) {x : Val} (h : getNested v p = .ok (some x)) :
    x.wf = true ∧ PathOk x.typeOf q := by
  induction p generalizing v with
  | nil =>
    simp only [getNested, Except.ok.injEq, Option.some.injEq] at h
    subst h
    exact ⟨hwf, hp⟩
  | cons ix r ih =>
    obtain ⟨t', hstep, hrest⟩ := pathOk_cons.mp hp
    simp only [getNested] at h
    cases hg : v.get ix with
    | error e => simp [hg] at h
    | ok o =>
      cases o with
      | none => simp [hg] at h
      | some y =>
        simp only [hg] at h
        have hy := stepSpec_typed hwf hstep y (get_some_mem hg)
        exact ih hy.2 (by simpa [hy.1] using hrest) h

theorem pathOk_each_container {x : Val} (h : PathOk x.typeOf [.each]) :
    (∃ t xs, x = .array t xs) ∨ (∃ t kvs, x = .map t kvs) := by
  cases x <;> simp [PathOk, Val.typeOf, indexStep] at h
  · exact Or.inl ⟨_, _, rfl⟩
  · exact Or.inr ⟨_, _, rfl⟩

/-! ### the three strategies -/

/-- the general (iterator) strategy `compile_iter_with`, stated on its own -/
def iterStrategy (c : Ctx) (v : Val) (ixs : List FieldIndex) (op : CmpOp) : EM BV :=
  match mapEachRun ixs v with
  | .error e => .error e
  | .ok items => (mapM' (compareVal c op) items).map .vec

/-- the reference result of comparing under `[*]`: the comparison mapped over `pathSpec` -/
def cmpSpec (c : Ctx) (v : Val) (path : List FieldIndex) (op : CmpOp) : EM BV :=
  (mapM' (compareVal c op) (pathSpec path v)).map .vec

/-- `compile_vec_with` (pops a trailing `[*]`, `get_nested`, iterate the container) equals the
reference for the path *with* the `[*]` -/
theorem compareVecDirect_spec (c : Ctx) {v : Val} (hwf : v.wf = true) {q : List FieldIndex}
    (hp : PathOk v.typeOf (q ++ [.each])) (hm : mapEachCount q = 0) (ixs : List FieldIndex)
    (hix : popTrailingEach ixs = q) (op : CmpOp) :
    compareVecDirect c (some v) ixs op = cmpSpec c v (q ++ [.each]) op := by
  obtain ⟨o, hg, hs⟩ := getNested_spec hwf (pathOk_append hp) hm
  simp only [compareVecDirect, hix, hg, cmpSpec, pathSpec_append, hs]
  cases o with
  | none => simp [mapM', Except.map]
  | some x =>
    have hx := getNested_typed hwf hp hg
    rcases pathOk_each_container hx.2 with ⟨t, xs, rfl⟩ | ⟨t, kvs, rfl⟩
    · simp [pathSpec_each, Val.elements]
    · simp [pathSpec_each, Val.elements]

theorem compareWith_vec_branch (c : Ctx) (base : Option Val) (ixs : List FieldIndex) (d : Bool)
    (op : CmpOp) (h1 : mapEachCount ixs = 1) (hl : ixs.getLast? = some .each) :
    compareWith c base ixs d op = compareVecDirect c base ixs op := by
  simp [compareWith, compareVecDirect, h1, hl]

theorem compareWith_iter_branch (c : Ctx) (v : Val) (ixs : List FieldIndex) (d : Bool)
    (op : CmpOp) (h0 : mapEachCount ixs ≠ 0)
    (h : ¬ (mapEachCount ixs = 1 ∧ ixs.getLast? = some .each)) :
    compareWith c (some v) ixs d op = iterStrategy c v ixs op := by
  simp only [compareWith, iterStrategy, h0, if_false]
  rw [if_neg (by simpa using h)]
  rfl

theorem compareWith_one_branch (c : Ctx) (v : Val) (ixs : List FieldIndex) (d : Bool)
    (op : CmpOp) (h0 : mapEachCount ixs = 0) :
    compareWith c (some v) ixs d op =
      match getNested v ixs with
      | .error e => .error e
      | .ok none => .ok (.one d)
      | .ok (some x) => (compareVal c op x).map .one := by
  simp only [compareWith, h0, if_true]
  rfl

/-! ### `mapM'` -/

/-- two lists related element by element (core Lean has no `All₂`) -/
inductive All₂ {α β : Type} (R : α → β → Prop) : List α → List β → Prop
  | nil : All₂ R [] []
  | cons {a b as bs} : R a b → All₂ R as bs → All₂ R (a :: as) (b :: bs)

theorem mapM'_ok_iff {α β : Type} (f : α → EM β) (xs : List α) (bs : List β) :
    mapM' f xs = .ok bs ↔ All₂ (fun x b => f x = .ok b) xs bs := by
  induction xs generalizing bs with
  | nil =>
    cases bs with
    | nil => simp only [mapM']; exact ⟨fun _ => All₂.nil, fun _ => trivial⟩
    | cons b bs =>
      simp only [mapM', Except.ok.injEq, reduceCtorEq, false_iff]
      intro h; cases h
  | cons x xs ih =>
    simp only [mapM']
    cases hx : f x with
    | error e =>
      simp only [reduceCtorEq, false_iff]
      intro h; cases h with | cons h1 _ => simp [hx] at h1
    | ok b =>
      cases hr : mapM' f xs with
      | error e =>
        simp only [reduceCtorEq, false_iff]
        intro h
        cases h with
        | cons h1 h2 => have := (ih _).mpr h2; simp [hr] at this
      | ok bs' =>
        simp only [Except.ok.injEq]
        constructor
        · rintro rfl
          exact All₂.cons hx ((ih _).mp hr)
        · intro h
          cases h with
          | cons h1 h2 =>
            have e1 := (ih _).mpr h2
            rw [hx] at h1
            rw [hr] at e1
            simp only [Except.ok.injEq] at h1 e1
            subst h1; subst e1; rfl

theorem any_of_forall₂ {α : Type} (f : α → EM Bool) {xs : List α} {bs : List Bool}
    (h : All₂ (fun x b => f x = .ok b) xs bs) :
    bs.any id = true ↔ ∃ x ∈ xs, f x = .ok true := by
  induction h with
  | nil => simp
  | @cons x b xs bs h1 _ ih =>
    simp only [List.any_cons, id_eq, Bool.or_eq_true, ih, List.mem_cons, exists_eq_or_imp]
    constructor
    · rintro (rfl | h)
      · exact Or.inl h1
      · exact Or.inr h
    · rintro (h | h)
      · rw [h1] at h
        simp only [Except.ok.injEq] at h
        exact Or.inl h
      · exact Or.inr h

theorem all_of_forall₂ {α : Type} (f : α → EM Bool) {xs : List α} {bs : List Bool}
    (h : All₂ (fun x b => f x = .ok b) xs bs) :
    bs.all id = true ↔ ∀ x ∈ xs, f x = .ok true := by
  induction h with
  | nil => simp
  | @cons x b xs bs h1 _ ih =>
    simp only [List.all_cons, id_eq, Bool.and_eq_true, ih, List.mem_cons, forall_eq_or_imp]
    constructor
    · rintro ⟨rfl, h⟩
      exact ⟨h1, h⟩
    · rintro ⟨h, h'⟩
      rw [h1] at h
      simp only [Except.ok.injEq] at h
      exact ⟨h, h'⟩

end C02
end WfModel
