import WfModel.Lemmas.CtxSerdeCtx
/-!
Helper lemmas for C14, part 4: what `serde_json::Value` does (`J.sortKeys`) and why it is
harmless for values and for contexts without lists.
-/
namespace WfModel.CtxSerde
open WfModel Val

/-! ## `J.sortKeys` as repeated insertion; it only permutes objects with distinct keys -/

def strInsertAll (acc : List (String × J)) : List (String × J) → List (String × J)
  | [] => acc
  | (k, v) :: rest => strInsertAll (strInsert k v acc) rest

theorem sortKeysObj_eq (l acc : List (String × J)) :
    J.sortKeysObj l acc = strInsertAll acc (l.map fun kv => (kv.1, kv.2.sortKeys)) := by
  induction l generalizing acc with
  | nil => simp [J.sortKeysObj, strInsertAll]
  | cons x l ih => obtain ⟨k, v⟩ := x; simp [J.sortKeysObj, strInsertAll, ih]

theorem strInsert_perm {k : String} {v : J} {m : List (String × J)} (h : ∀ x ∈ m, x.1 ≠ k) :
    (strInsert k v m).Perm ((k, v) :: m) := by
  induction m with
  | nil => simp [strInsert]
  | cons a rest ih =>
    obtain ⟨l, w⟩ := a
    have hne : ¬ k = l := fun e => h (l, w) List.mem_cons_self e.symm
    simp only [strInsert, hne, if_false]
    split
    · exact List.Perm.refl _
    · exact ((ih (fun x hx => h x (List.mem_cons_of_mem _ hx))).cons _).trans (List.Perm.swap _ _ _)

theorem strInsertAll_perm {acc es : List (String × J)}
    (h : (acc ++ es).Pairwise (fun a b => a.1 ≠ b.1)) : (strInsertAll acc es).Perm (acc ++ es) := by
  induction es generalizing acc with
  | nil => simp [strInsertAll]
  | cons e rest ih =>
    obtain ⟨k, v⟩ := e
    simp only [strInsertAll]
    have hp : (strInsert k v acc).Perm ((k, v) :: acc) := by
      apply strInsert_perm
      intro x hx
      exact (List.pairwise_append.mp h).2.2 x hx (k, v) List.mem_cons_self
    have hp2 : (strInsert k v acc ++ rest).Perm (acc ++ (k, v) :: rest) :=
      (hp.append_right rest).trans (by simpa using (List.perm_middle (l₁ := acc) (l₂ := rest) (a := (k, v))).symm)
    refine (ih ?_).trans hp2
    exact (List.Perm.pairwise_iff (fun {a b} (hab : a.1 ≠ b.1) => (Ne.symm hab : b.1 ≠ a.1))
      hp2).mpr h

theorem sortKeysList_ints (b : Bytes) :
    J.sortKeysList (b.map fun x => J.int (x.toNat : Int)) = b.map fun x => J.int (x.toNat : Int) := by
  induction b with
  | nil => rfl
  | cons x xs ih => simp [J.sortKeysList, J.sortKeys, ih]

theorem sortKeys_serBytes (b : Bytes) : (serBytes b).sortKeys = serBytes b := by
  unfold serBytes
  split
  · simp [J.sortKeys]
  · simp only [J.sortKeys]
    congr 1
    exact sortKeysList_ints b

/-! ## the object deserializer on a permuted entry list -/

theorem deObj_cons {T : IpText} {t : Ty} {k : String} {j : J} {rest : List (String × J)}
    {es : List (Bytes × Val)} (h : deObj T t ((k, j) :: rest) = .ok es) :
    ∃ v es', deVal T t j = .ok v ∧ v.typeOf = t ∧ deObj T t rest = .ok es' ∧ es = (strBytes k, v) :: es' := by
  simp only [deObj] at h
  split at h
  · simp at h
  · rename_i v hv
    split at h
    · rename_i hty
      split at h
      · rename_i es' hr
        simp only [Except.ok.injEq] at h
        exact ⟨v, es', hv, hty, hr, h.symm⟩
      · simp at h
    · simp at h

theorem deObj_cons_ok {T : IpText} {t : Ty} {k : String} {j : J} {rest : List (String × J)}
    {v : Val} {es' : List (Bytes × Val)} (hv : deVal T t j = .ok v) (hty : v.typeOf = t)
    (hr : deObj T t rest = .ok es') : deObj T t ((k, j) :: rest) = .ok ((strBytes k, v) :: es') := by
  simp [deObj, hv, hty, hr]

theorem deObj_perm {T : IpText} {t : Ty} {l1 l2 : List (String × J)} (hp : l1.Perm l2) :
    ∀ es1, deObj T t l1 = .ok es1 → ∃ es2, deObj T t l2 = .ok es2 ∧ es1.Perm es2 := by
  induction hp with
  | nil => intro es1 h; exact ⟨es1, h, List.Perm.refl _⟩
  | cons x _ ih =>
    obtain ⟨k, j⟩ := x
    intro es1 h
    obtain ⟨v, es', hv, hty, hr, rfl⟩ := deObj_cons h
    obtain ⟨es2, h2, hp2⟩ := ih es' hr
    exact ⟨_, deObj_cons_ok hv hty h2, hp2.cons _⟩
  | swap x y l =>
    obtain ⟨k, j⟩ := x
    obtain ⟨k', j'⟩ := y
    intro es1 h
    obtain ⟨v', es', hv', hty', hr', rfl⟩ := deObj_cons h
    obtain ⟨v, es'', hv, hty, hr, rfl⟩ := deObj_cons hr'
    exact ⟨_, deObj_cons_ok hv hty (deObj_cons_ok hv' hty' hr), List.Perm.swap _ _ _⟩
  | trans _ _ ih1 ih2 =>
    intro es1 h
    obtain ⟨es2, h2, hp2⟩ := ih1 es1 h
    obtain ⟨es3, h3, hp3⟩ := ih2 es2 h2
    exact ⟨es3, h3, hp2.trans hp3⟩

theorem keyLt_ne {a b : Bytes × Val} (h : KeyLt a b) : a.1 ≠ b.1 := bytesLt_ne h

/-- inserting any arrangement of an ascending entry list rebuilds that list -/
theorem insertAll_of_perm_asc {es kvs : List (Bytes × Val)} (hp : kvs.Perm es)
    (hasc : kvs.Pairwise KeyLt) : insertAll [] es = kvs := by
  have hne : kvs.Pairwise (fun a b => a.1 ≠ b.1) := hasc.imp keyLt_ne
  have hne2 : es.Pairwise (fun a b => a.1 ≠ b.1) :=
    (List.Perm.pairwise_iff (fun {a b} (hab : a.1 ≠ b.1) => (Ne.symm hab : b.1 ≠ a.1)) hp).mp hne
  have h1 : (insertAll [] es).Perm kvs := (insertAll_perm (acc := []) (by simpa using hne2)).trans
    (by simpa using hp.symm)
  have h2 : (insertAll [] es).Pairwise KeyLt := insertAll_asc List.Pairwise.nil
  refine List.Perm.eq_of_pairwise (le := KeyLt) ?_ h2 hasc h1
  intro a b _ _ hab hba
  have := bytesLt_asymm hab
  rw [hba] at this
  exact absurd this (by simp)

theorem keyStr_inj {k l : Bytes} (hk : utf8Valid k = true) (hl : utf8Valid l = true)
    (h : keyStr k = keyStr l) : k = l := by
  rw [← strBytes_keyStr hk, ← strBytes_keyStr hl, h]

theorem serObj_keys_ne (T : IpText) (f : J → J) {kvs : List (Bytes × Val)} (hk : allKeysUtf8 kvs = true)
    (hne : kvs.Pairwise (fun a b => a.1 ≠ b.1)) :
    ((serObj T kvs).map fun kv => (kv.1, f kv.2)).Pairwise (fun a b => a.1 ≠ b.1) := by
  induction kvs with
  | nil => simp [serObj]
  | cons a rest ih =>
    obtain ⟨k, x⟩ := a
    simp only [allKeysUtf8, Bool.and_eq_true] at hk
    rw [List.pairwise_cons] at hne
    simp only [serObj, List.map_cons, List.pairwise_cons]
    refine ⟨?_, ih hk.2 hne.2⟩
    intro y hy
    -- y comes from some (l, w) ∈ rest
    have : ∃ l w, (l, w) ∈ rest ∧ y.1 = keyStr l := by
      clear ih hne
      induction rest with
      | nil => simp [serObj] at hy
      | cons b rest ih2 =>
        obtain ⟨l, w⟩ := b
        simp only [serObj, List.map_cons, List.mem_cons] at hy
        rcases hy with rfl | hy
        · exact ⟨l, w, List.mem_cons_self, rfl⟩
        · simp only [allKeysUtf8, Bool.and_eq_true] at hk
          obtain ⟨l', w', hm, he⟩ := ih2 ⟨hk.1, hk.2.2⟩ hy
          exact ⟨l', w', List.mem_cons_of_mem _ hm, he⟩
    obtain ⟨l, w, hm, he⟩ := this
    have hlv : utf8Valid l = true := by
      clear ih hne hy he
      induction rest with
      | nil => simp at hm
      | cons b rest ih2 =>
        obtain ⟨l', w'⟩ := b
        simp only [allKeysUtf8, Bool.and_eq_true] at hk
        rcases List.mem_cons.mp hm with h | h
        · simp only [Prod.mk.injEq] at h; rw [h.1]; exact hk.2.1
        · exact ih2 ⟨hk.1, hk.2.2⟩ h
    intro heq
    apply hne.1 (l, w) hm
    exact keyStr_inj hk.1 hlv (by rw [heq, he])

mutual
theorem vt_val (T : IpText) (hT : T.RoundTrip) :
    ∀ v : Val, v.wf = true → valInRange v = true → deVal T v.typeOf (serVal T v).sortKeys = .ok v
  | .bool b, _, _ => by simp [serVal, deVal, typeOf, J.sortKeys]
  | .int i, _, hr => by
    simp only [valInRange, decide_eq_true_eq] at hr
    simp [serVal, deVal, typeOf, J.sortKeys, hr]
  | .ip a, _, hr => by
    simp only [valInRange] at hr
    simp [serVal, deVal, typeOf, J.sortKeys, hT a hr]
  | .bytes b, _, _ => by simp [serVal, deVal, typeOf, sortKeys_serBytes, deBytes_serBytes]
  | .array t xs, hw, hr => by
    have := vt_list T hT t xs (by simpa [wf] using hw) (by simpa [valInRange] using hr)
    simp [serVal, deVal, typeOf, J.sortKeys, this]
  | .map t kvs, hw, hr => by
    simp only [wf, Bool.and_eq_true] at hw
    simp only [valInRange] at hr
    simp only [serVal, typeOf]
    have hasc : kvs.Pairwise KeyLt := (keysAscending_iff kvs).mp hw.2
    split
    · rename_i hk
      have h1 := vt_obj T hT t kvs hw.1 hr hk
      simp only [J.sortKeys, sortKeysObj_eq]
      have hne := serObj_keys_ne T J.sortKeys hk (hasc.imp keyLt_ne)
      have hp := strInsertAll_perm (acc := []) (by simpa using hne)
      obtain ⟨es2, h2, hp2⟩ := deObj_perm (by simpa using hp.symm) kvs h1
      simp [deVal, h2, insertAll_of_perm_asc hp2 hasc]
    · have := vt_pairs T hT t kvs hw.1 hr
      have hasc' : ([] ++ kvs).Pairwise KeyLt := by simpa using hasc
      simp [deVal, J.sortKeys, this, insertAll_asc_append [] kvs hasc']
theorem vt_list (T : IpText) (hT : T.RoundTrip) :
    ∀ (t : Ty) (xs : List Val), wfList t xs = true → listInRange xs = true →
      deElems T t (J.sortKeysList (serList T xs)) = .ok xs
  | _, [], _, _ => by simp [serList, J.sortKeysList, deElems]
  | t, x :: xs, hw, hr => by
    simp only [wfList, Bool.and_eq_true, beq_iff_eq] at hw
    simp only [listInRange, Bool.and_eq_true] at hr
    have h1 := vt_val T hT x hw.1.2 hr.1
    rw [hw.1.1] at h1
    have h2 := vt_list T hT t xs hw.2 hr.2
    simp [serList, J.sortKeysList, deElems, h1, h2, hw.1.1]
theorem vt_obj (T : IpText) (hT : T.RoundTrip) :
    ∀ (t : Ty) (kvs : List (Bytes × Val)), wfKvs t kvs = true → kvsInRange kvs = true →
      allKeysUtf8 kvs = true →
      deObj T t ((serObj T kvs).map fun kv => (kv.1, kv.2.sortKeys)) = .ok kvs
  | _, [], _, _, _ => by simp [serObj, deObj]
  | t, (k, x) :: rest, hw, hr, hk => by
    simp only [wfKvs, Bool.and_eq_true, beq_iff_eq] at hw
    simp only [kvsInRange, Bool.and_eq_true] at hr
    simp only [allKeysUtf8, Bool.and_eq_true] at hk
    have h1 := vt_val T hT x hw.1.2 hr.1
    rw [hw.1.1] at h1
    have h2 := vt_obj T hT t rest hw.2 hr.2 hk.2
    simp [serObj, deObj, h1, h2, hw.1.1, strBytes_keyStr hk.1]
theorem vt_pairs (T : IpText) (hT : T.RoundTrip) :
    ∀ (t : Ty) (kvs : List (Bytes × Val)), wfKvs t kvs = true → kvsInRange kvs = true →
      dePairs T t (J.sortKeysList (serPairs T kvs)) = .ok kvs
  | _, [], _, _ => by simp [serPairs, J.sortKeysList, dePairs]
  | t, (k, x) :: rest, hw, hr => by
    simp only [wfKvs, Bool.and_eq_true, beq_iff_eq] at hw
    simp only [kvsInRange, Bool.and_eq_true] at hr
    have h1 := vt_val T hT x hw.1.2 hr.1
    rw [hw.1.1] at h1
    have h2 := vt_pairs T hT t rest hw.2 hr.2
    simp [serPairs, J.sortKeysList, J.sortKeys, dePairs, h1, h2, hw.1.1, sortKeys_serBytes, deBytes_serBytes]
end

/-! ## the context deserializer on a permuted, `$lists`-free entry list -/

theorem findField_lt {k : String} {fs : List Field} {i : Nat} {t : Ty}
    (h : findField k fs = some (i, t)) : ∃ f, fs[i]? = some f ∧ f.name = k := by
  induction fs generalizing i with
  | nil => simp [findField] at h
  | cons f fs ih =>
    simp only [findField] at h
    split at h
    · simp only [Option.some.injEq, Prod.mk.injEq] at h
      obtain ⟨rfl, _⟩ := h
      exact ⟨f, rfl, by assumption⟩
    · cases hr : findField k fs with
      | none => simp [hr] at h
      | some p =>
        obtain ⟨i', t'⟩ := p
        simp only [hr, Option.some.injEq, Prod.mk.injEq] at h
        obtain ⟨rfl, rfl⟩ := h
        obtain ⟨g, hg, hn⟩ := ih hr
        exact ⟨g, by simpa using hg, hn⟩

/-- one non-`$lists` member succeeds exactly as an index/value update -/
theorem deEntries_field_cons {M} {T : IpText} {s : Scheme M} {k : String} {j : J}
    {rest : List (String × J)} {c c' : Ctx M} (hk : k ≠ "$lists")
    (h : deEntries T s ((k, j) :: rest) c = .ok c') :
    ∃ i ty v, findField k s.fields = some (i, ty) ∧ deVal T ty j = .ok v ∧ ty = v.typeOf ∧
      deEntries T s rest { c with values := c.values.set i (some v) } = .ok c' := by
  simp only [deEntries, hk, if_false] at h
  split at h
  · simp at h
  · rename_i i ty hf
    split at h
    · simp at h
    · rename_i v hv
      by_cases hty : ty = v.typeOf
      · simp only [setFieldFromName, hf, hty, if_true] at h
        exact ⟨i, ty, v, hf, hv, hty, h⟩
      · simp [setFieldFromName, hf, hty] at h

theorem deEntries_field_cons_ok {M} {T : IpText} {s : Scheme M} {k : String} {j : J}
    {rest : List (String × J)} {c : Ctx M} {i : Nat} {ty : Ty} {v : Val} (hk : k ≠ "$lists")
    (hf : findField k s.fields = some (i, ty)) (hv : deVal T ty j = .ok v) (hty : ty = v.typeOf) :
    deEntries T s ((k, j) :: rest) c
      = deEntries T s rest { c with values := c.values.set i (some v) } := by
  subst hty
  simp [deEntries, hk, hf, hv, setFieldFromName]

theorem deEntries_perm {M} {T : IpText} {s : Scheme M} {l1 l2 : List (String × J)} (hp : l1.Perm l2) :
    (∀ x ∈ l1, x.1 ≠ "$lists") → l1.Pairwise (fun a b => a.1 ≠ b.1) →
    ∀ c c' : Ctx M, deEntries T s l1 c = .ok c' → deEntries T s l2 c = .ok c' := by
  induction hp with
  | nil => intro _ _ c c' h; exact h
  | cons x _ ih =>
    obtain ⟨k, j⟩ := x
    intro hl hd c c' h
    have hk := hl (k, j) List.mem_cons_self
    obtain ⟨i, ty, v, hf, hv, hty, hr⟩ := deEntries_field_cons hk h
    rw [deEntries_field_cons_ok hk hf hv hty]
    exact ih (fun x hx => hl x (List.mem_cons_of_mem _ hx)) (List.pairwise_cons.mp hd).2 _ _ hr
  | swap x y l =>
    obtain ⟨k, j⟩ := x
    obtain ⟨k', j'⟩ := y
    intro hl hd c c' h
    have hk' := hl (k', j') List.mem_cons_self
    have hk := hl (k, j) (List.mem_cons_of_mem _ List.mem_cons_self)
    obtain ⟨i', ty', v', hf', hv', hty', hr'⟩ := deEntries_field_cons hk' h
    obtain ⟨i, ty, v, hf, hv, hty, hr⟩ := deEntries_field_cons hk hr'
    rw [deEntries_field_cons_ok hk hf hv hty, deEntries_field_cons_ok hk' hf' hv' hty']
    have hne : k' ≠ k := (List.pairwise_cons.mp hd).1 (k, j) List.mem_cons_self
    have hii : i' ≠ i := by
      intro e
      subst e
      obtain ⟨f1, hg1, hn1⟩ := findField_lt hf'
      obtain ⟨f2, hg2, hn2⟩ := findField_lt hf
      rw [hg1] at hg2
      simp only [Option.some.injEq] at hg2
      subst hg2
      exact hne (hn1.symm.trans hn2)
    simp only at hr ⊢
    rw [List.set_comm _ _ hii] at hr
    exact hr
  | trans hp1 _ ih1 ih2 =>
    intro hl hd c c' h
    refine ih2 (fun x hx => hl x (hp1.symm.subset hx)) ?_ c c' (ih1 hl hd c c' h)
    exact (List.Perm.pairwise_iff (fun {a b} (hab : a.1 ≠ b.1) => (Ne.symm hab : b.1 ≠ a.1)) hp1).mp hd

theorem serFieldsG_keys {T : IpText} {g : J → J} {fs : List Field} {vs : List (Option Val)} {x : String × J}
    (h : x ∈ serFieldsG T g fs vs) : x.1 ∈ fs.map (·.name) := by
  induction fs generalizing vs with
  | nil => cases vs <;> simp [serFieldsG] at h
  | cons f fs ih =>
    cases vs with
    | nil => simp [serFieldsG] at h
    | cons v vs =>
      cases v with
      | none => simp only [serFieldsG] at h; exact List.mem_cons_of_mem _ (ih h)
      | some v =>
        simp only [serFieldsG, List.mem_cons] at h
        rcases h with rfl | h
        · simp
        · exact List.mem_cons_of_mem _ (ih h)

theorem serFieldsG_nodup {T : IpText} {g : J → J} {fs : List Field} {vs : List (Option Val)}
    (h : (fs.map (·.name)).Nodup) : (serFieldsG T g fs vs).Pairwise (fun a b => a.1 ≠ b.1) := by
  induction fs generalizing vs with
  | nil => cases vs <;> simp [serFieldsG]
  | cons f fs ih =>
    simp only [List.map_cons, List.nodup_cons] at h
    cases vs with
    | nil => simp [serFieldsG]
    | cons v vs =>
      cases v with
      | none => simp only [serFieldsG]; exact ih h.2
      | some v =>
        simp only [serFieldsG, List.pairwise_cons]
        refine ⟨?_, ih h.2⟩
        intro x hx heq
        exact h.1 (heq ▸ serFieldsG_keys hx)

theorem serFieldsG_map (T : IpText) (g : J → J) (fs : List Field) (vs : List (Option Val)) :
    (serFields T fs vs).map (fun kv => (kv.1, g kv.2)) = serFieldsG T g fs vs := by
  induction fs generalizing vs with
  | nil => cases vs <;> simp [serFieldsG, serFields]
  | cons f fs ih =>
    cases vs with
    | nil => simp [serFieldsG, serFields]
    | cons v vs => cases v <;> simp [serFieldsG, serFields, ih]
end WfModel.CtxSerde
