import WfModel.Lemmas.C05LexParse
import WfModel.Lemmas.Unary
/-!
# C05 — the parser levels: spans stay inside the input, loops never run out of fuel,
every successful entry point consumes input

`Good i r` bundles the three facts for a result `r` of a lexer run on `i`:
* `ResOk`: a returned rest is a suffix of `i`; a returned error has `pos` a suffix of `i`
  and `len ≤ pos.length`;
* `NoFuel`: the error is never the model-only `outOfFuel`;
* strict progress: a returned rest is strictly shorter than `i`.
`Good0` is the same without strict progress.
-/
set_option linter.unusedSimpArgs false
set_option linter.unusedVariables false
namespace WfModel

def Good0 {α} (i : Input) (r : LexRes α) : Prop := ResOk i r ∧ NoFuel r

def Good {α} (i : Input) (r : LexRes α) : Prop :=
  ResOk i r ∧ NoFuel r ∧ ∀ a rest, r = .ok (a, rest) → rest.length < i.length

theorem Good.toGood0 {α} {i : Input} {r : LexRes α} (h : Good i r) : Good0 i r := ⟨h.1, h.2.1⟩

theorem good_err {α} {i : Input} {e : LexErr} (h1 : ErrOk i e) (h2 : e.kind ≠ .outOfFuel) :
    Good i (.error e : LexRes α) := ⟨h1, h2, fun _ _ h => by cases h⟩

theorem good0_err {α} {i : Input} {e : LexErr} (h1 : ErrOk i e) (h2 : e.kind ≠ .outOfFuel) :
    Good0 i (.error e : LexRes α) := ⟨h1, h2⟩

theorem good_errAt {α} {i pos : Input} {k : ErrKind} (h : pos <:+ i) (hk : k ≠ .outOfFuel) :
    Good i (errAt k pos : LexRes α) := good_err ⟨h, Nat.le_refl _⟩ hk

theorem good0_errAt {α} {i pos : Input} {k : ErrKind} (h : pos <:+ i) (hk : k ≠ .outOfFuel) :
    Good0 i (errAt k pos : LexRes α) := good0_err ⟨h, Nat.le_refl _⟩ hk

theorem good_errSpan {α} {i a b : Input} {k : ErrKind} (h : a <:+ i) (hk : k ≠ .outOfFuel) :
    Good i (errSpan k a b : LexRes α) := good_err ⟨h, Nat.sub_le _ _⟩ hk

theorem good0_errSpan {α} {i a b : Input} {k : ErrKind} (h : a <:+ i) (hk : k ≠ .outOfFuel) :
    Good0 i (errSpan k a b : LexRes α) := good0_err ⟨h, Nat.sub_le _ _⟩ hk

theorem good_ok {α} {i rest : Input} {a : α} (h : rest <:+ i) (hl : rest.length < i.length) :
    Good i (.ok (a, rest) : LexRes α) :=
  ⟨h, trivial, fun _ _ he => by cases he; exact hl⟩

theorem good0_ok {α} {i rest : Input} {a : α} (h : rest <:+ i) :
    Good0 i (.ok (a, rest) : LexRes α) := ⟨h, trivial⟩

theorem Good.ok {α} {i : Input} {r : LexRes α} {a : α} {rest : Input} (h : Good i r)
    (he : r = .ok (a, rest)) : rest <:+ i ∧ rest.length < i.length :=
  ⟨h.1.of_ok he, h.2.2 a rest he⟩

theorem Good.err {α} {i : Input} {r : LexRes α} {e : LexErr} (h : Good i r)
    (he : r = .error e) : ErrOk i e ∧ e.kind ≠ .outOfFuel :=
  ⟨h.1.of_error he, h.2.1.of_error he⟩

theorem Good0.ok {α} {i : Input} {r : LexRes α} {a : α} {rest : Input} (h : Good0 i r)
    (he : r = .ok (a, rest)) : rest <:+ i := h.1.of_ok he

theorem Good0.err {α} {i : Input} {r : LexRes α} {e : LexErr} (h : Good0 i r)
    (he : r = .error e) : ErrOk i e ∧ e.kind ≠ .outOfFuel :=
  ⟨h.1.of_error he, h.2.of_error he⟩

theorem Good0.mono {α} {a b : Input} {r : LexRes α} (h : Good0 b r) (hs : b <:+ a) : Good0 a r :=
  ⟨h.1.mono hs, h.2⟩

theorem Good.mono {α} {a b : Input} {r : LexRes α} (h : Good b r) (hs : b <:+ a) : Good a r :=
  ⟨h.1.mono hs, h.2.1, fun x rest he => Nat.lt_of_lt_of_le (h.2.2 x rest he) hs.length_le⟩

/-- a non-strict result after something that already consumed input -/
theorem Good0.strict {α} {a b : Input} {r : LexRes α} (h : Good0 b r) (hs : b <:+ a)
    (hl : b.length < a.length) : Good a r :=
  ⟨h.1.mono hs, h.2, fun x rest he => Nat.lt_of_le_of_lt (h.1.of_ok he).length_le hl⟩

theorem good0_of {α} {i : Input} {r : LexRes α} (h1 : ResOk i r) (h2 : NoFuel r) : Good0 i r :=
  ⟨h1, h2⟩

/-- all four entry points of a level are `Good` -/
structure Level.Good (lv : Level) : Prop where
  logical : ∀ i, WfModel.Good i (lv.logical i)
  simple : ∀ i, WfModel.Good i (lv.simple i)
  quantArg : ∀ i, WfModel.Good i (lv.quantArg i)
  callBody : ∀ k sig i, WfModel.Good i (lv.callBody k sig i)

def LowerGood (lower : Option Level) : Prop := ∀ lw, lower = some lw → lw.Good

theorem ne_fuel_of {k : ErrKind} (h : k ≠ .outOfFuel) : k ≠ .outOfFuel := h

macro "nf" : tactic => `(tactic| (intro h; cases h))

theorem lexIndexes_good0 (rest : Input) (ty : Ty) :
    Good0 rest (lexIndexes (rest.length + 1) rest ty []) :=
  ⟨lexIndexes_resOk _ _ _ _, lexIndexes_noFuel _ _ _ _ (Nat.le_refl _)⟩

theorem cmpWithLhs_good0 (env : PEnv) (lhs : IExpr) (ty : Ty) (i : Input) :
    Good0 i (cmpWithLhs env lhs ty i) :=
  ⟨cmpWithLhs_resOk _ _ _ _, cmpWithLhs_noFuel _ _ _ _⟩

theorem argAfterIndex_good0 (env : PEnv) (lhs : Typed IExpr) (i : Input) :
    Good0 i (argAfterIndex env lhs i) :=
  ⟨argAfterIndex_resOk _ _ _, argAfterIndex_noFuel _ _ _⟩

theorem lexIdentifier_good (s : Scheme) (i : Input) : Good i (lexIdentifier s i) :=
  ⟨lexIdentifier_resOk s i, lexIdentifier_noFuel s i, fun _ _ h => lexIdentifier_lt h⟩

theorem indexExprL_good {env : PEnv} {lower : Option Level} (hl : LowerGood lower) (i : Input) :
    Good i (indexExprL env lower i) := by
  have hid := lexIdentifier_good env.scheme i
  unfold indexExprL
  split
  · rename_i e he
    exact good_err (hid.err he).1 (hid.err he).2
  · rename_i fi rest he
    obtain ⟨hs, hlt⟩ := hid.ok he
    have hix := lexIndexes_good0 rest (env.scheme.fieldTy fi)
    split
    · rename_i e hx
      exact good_err ((hix.err hx).1.mono hs) (hix.err hx).2
    · rename_i ixs ty rest2 hx
      have := hix.ok hx
      exact good_ok (this.trans hs) (Nat.lt_of_le_of_lt this.length_le hlt)
  · rename_i fi rest he
    obtain ⟨hs, hlt⟩ := hid.ok he
    split
    · exact good_errAt (List.suffix_refl _) (by nf)
    · split
      · exact good_errAt ((skipSpace_suffix rest).trans hs) (by nf)
      · rename_i lw
        have hcb := (hl lw rfl).callBody fi ‹_› rest
        split
        · rename_i e hx
          exact good_err ((hcb.err hx).1.mono hs) (hcb.err hx).2
        · rename_i args ctx callTy rest2 hx
          obtain ⟨hs2, hlt2⟩ := hcb.ok hx
          have hix := lexIndexes_good0 rest2 callTy
          split
          · rename_i e hx2
            exact good_err ((hix.err hx2).1.mono (hs2.trans hs)) (hix.err hx2).2
          · rename_i ixs ty rest3 hx2
            have := hix.ok hx2
            exact good_ok (this.trans (hs2.trans hs))
              (by have := this.length_le; omega)

theorem comparisonL_good {env : PEnv} {lower : Option Level} (hl : LowerGood lower) (i : Input) :
    Good i (comparisonL env lower i) := by
  have hi := indexExprL_good (env := env) hl i
  unfold comparisonL
  split
  · rename_i e he
    exact good_err (hi.err he).1 (hi.err he).2
  · rename_i lhs rest he
    obtain ⟨hs, hlt⟩ := hi.ok he
    exact (cmpWithLhs_good0 env lhs.node lhs.ty rest).strict hs hlt

theorem expect_lt {i r : Input} {s : String} (h : expect i s = some r) (hs : s.toList ≠ []) :
    r.length < i.length := by
  have := expect_length h
  have : 0 < s.toList.length := List.length_pos_iff.mpr hs
  omega

theorem simpleL_good {env : PEnv} {lower : Option Level} (hl : LowerGood lower) (i : Input) :
    Good i (simpleL env lower i) := by
  unfold simpleL
  split
  · rename_i rest hp
    have hs := expect_suffix hp
    have hlt := expect_lt hp (by decide)
    split
    · exact good_errAt (List.suffix_refl _) (by nf)
    · rename_i lw
      have hg := (hl lw rfl).logical (skipSpace rest)
      have hs1 := (skipSpace_suffix rest).trans hs
      split
      · rename_i e hx
        exact good_err ((hg.err hx).1.mono hs1) (hg.err hx).2
      · rename_i e r hx
        obtain ⟨hs2, hlt2⟩ := hg.ok hx
        split
        · rename_i r2 hp2
          have := expect_suffix hp2
          exact good_ok (this.trans ((skipSpace_suffix r).trans (hs2.trans hs1)))
            (by have h1 := this.length_le; have h2 := (skipSpace_suffix r).length_le
                have h3 := hs1.length_le; have h4 := hs.length_le; omega)
        · exact good_errAt ((skipSpace_suffix r).trans (hs2.trans hs1)) (by nf)
  · split
    · rename_i u rest hu
      have hu := lexUnary_some hu
      have hs := lexEnum_suffix hu
      have hlt := lexEnum_lt (by decide) hu
      split
      · exact good_errAt (List.suffix_refl _) (by nf)
      · rename_i lw
        have hg := (hl lw rfl).simple (skipSpace rest)
        have hs1 := (skipSpace_suffix rest).trans hs
        split
        · rename_i e hx
          exact good_err ((hg.err hx).1.mono hs1) (hg.err hx).2
        · rename_i e r hx
          obtain ⟨hs2, hlt2⟩ := hg.ok hx
          exact good_ok (hs2.trans hs1) (by have := hs1.length_le; omega)
    · split
      · rename_i op rest hq
        have hs := lexQuantCall_suffix hq
        have hlt := lexQuantCall_lt hq
        have hs0 := (skipSpace_suffix rest).trans hs
        split
        · exact good_errAt hs0 (by nf)
        · rename_i lw
          split
          · exact good_errAt hs0 (by nf)
          · rename_i r1 hp1
            have hs1 := ((skipSpace_suffix r1).trans (expect_suffix hp1)).trans hs0
            have hg := (hl lw rfl).quantArg (skipSpace r1)
            split
            · rename_i e hx
              exact good_err ((hg.err hx).1.mono hs1) (hg.err hx).2
            · rename_i arg r2 hx
              obtain ⟨hs2, hlt2⟩ := hg.ok hx
              have hs3 := (skipSpace_suffix r2).trans (hs2.trans hs1)
              split
              · rename_i r3 hp3
                have := expect_suffix hp3
                exact good_ok (this.trans hs3)
                  (by have h1 := this.length_le; have h2 := (skipSpace_suffix r2).length_le
                      have h3 := hs1.length_le; omega)
              · exact good_errAt hs3 (by nf)
      · exact comparisonL_good hl i

/-! ### the precedence climber -/

theorem lexCombiningOp_cases (r : Input) :
    ((lexCombiningOp r).1 = none ∧ (lexCombiningOp r).2 = r) ∨
    (∃ op, (lexCombiningOp r).1 = some op ∧ (lexCombiningOp r).2.length < r.length) := by
  unfold lexCombiningOp
  split
  · rename_i op r' he
    right
    refine ⟨op, rfl, ?_⟩
    have h1 := lexEnum_lt (by decide) he
    have h2 := (skipSpace_suffix r').length_le
    have h3 := (skipSpace_suffix r).length_le
    show (skipSpace r').length < r.length
    omega
  · left; exact ⟨rfl, rfl⟩

/-- fuel the outer loop needs on a lookahead -/
def climbNeed (look : Option LogicalOp × Input) : Nat :=
  match look.1 with
  | none => 1
  | some _ => 2 * look.2.length + 3

/-- well-formedness of a `climbInner` result w.r.t. the input `r0` it started from -/
def InnerGood (r0 : Input)
    (res : Except LexErr ((Typed LExpr × Input) × (Option LogicalOp × Input))) : Prop :=
  match res with
  | .error e => ErrOk r0 e ∧ e.kind ≠ .outOfFuel
  | .ok ((_, rr), look) =>
    rr <:+ r0 ∧ look.2 <:+ r0 ∧ (look.1 = none ∨ look.2.length < r0.length)

theorem climb_good (simple : Input → LexRes (Typed LExpr)) (hs : ∀ i, Good i (simple i))
    (f : Nat) :
    (∀ lhs mp look, climbNeed look ≤ f → Good0 look.2 (climb simple f lhs mp look)) ∧
    (∀ op rhs r, 2 * r.length + 2 ≤ f → InnerGood r (climbInner simple f op rhs r)) := by
  induction f with
  | zero =>
    constructor
    · intro lhs mp look hf
      exfalso; unfold climbNeed at hf; split at hf <;> omega
    · intro op rhs r hf; omega
  | succ f ih =>
    constructor
    · intro lhs mp look hf
      obtain ⟨lo, inp⟩ := look
      cases lo with
      | none => simp only [climb]; exact good0_ok (List.suffix_refl _)
      | some op =>
        simp only [climbNeed] at hf
        simp only [climb]
        have hg := hs inp
        split
        · rename_i e hx
          exact good0_err (hg.err hx).1 (hg.err hx).2
        · rename_i rhs0 r0 hx
          obtain ⟨hs0, hlt0⟩ := hg.ok hx
          have hin := ih.2 op rhs0 r0 (by omega)
          split
          · rename_i e hy
            rw [hy] at hin
            exact good0_err (hin.1.mono hs0) hin.2
          · rename_i rhs rhsRest look1 hy
            rw [hy] at hin
            obtain ⟨h1, h2, h3⟩ := hin
            split
            · exact good0_errAt (h2.trans hs0) (by nf)
            · split
              · -- lookahead below minPrec: stop
                refine (ih.1 _ mp (none, rhsRest) (by simp only [climbNeed]; omega)).mono ?_
                exact h1.trans hs0
              · refine (ih.1 _ mp look1 ?_).mono (h2.trans hs0)
                unfold climbNeed
                split
                · omega
                · rename_i o ho
                  rcases h3 with h3 | h3
                  · rw [h3] at ho; cases ho
                  · omega
    · intro op rhs r hf
      simp only [climbInner]
      have hc := lexCombiningOp_cases r
      have hsf := lexCombiningOp_suffix r
      split
      · refine ⟨List.suffix_refl _, hsf, ?_⟩
        rcases hc with ⟨h1, _⟩ | ⟨o, _, h2⟩
        · exact Or.inl h1
        · exact Or.inr h2
      · rename_i hprec
        rcases hc with ⟨h1, _⟩ | ⟨o, ho, h2⟩
        · exfalso; rw [h1] at hprec; simp [optPrec] at hprec
        · have hg := ih.1 rhs (lexCombiningOp r).1 (lexCombiningOp r)
            (by unfold climbNeed; rw [ho]; simp only; omega)
          split
          · rename_i e hx
            exact ⟨(hg.err hx).1.mono hsf, (hg.err hx).2⟩
          · rename_i rhs' r' hx
            have hs1 := hg.ok hx
            have hin := ih.2 op rhs' r' (by have := hs1.length_le; omega)
            have hlt : r'.length < r.length := by have := hs1.length_le; omega
            revert hin
            cases climbInner simple f op rhs' r' with
            | error e => intro hin; exact ⟨hin.1.mono (hs1.trans hsf), hin.2⟩
            | ok v =>
              obtain ⟨⟨x, rr⟩, lk⟩ := v
              intro hin
              obtain ⟨a1, a2, a3⟩ := hin
              refine ⟨a1.trans (hs1.trans hsf), a2.trans (hs1.trans hsf), Or.inr ?_⟩
              have := a2.length_le; omega

theorem logicalL_good {env : PEnv} {lower : Option Level} (hl : LowerGood lower) (i : Input) :
    Good i (logicalL env lower i) := by
  have hsim := simpleL_good (env := env) hl i
  unfold logicalL
  split
  · rename_i e hx
    exact good_err (hsim.err hx).1 (hsim.err hx).2
  · rename_i lhs rest hx
    obtain ⟨hs, hlt⟩ := hsim.ok hx
    have hsf := lexCombiningOp_suffix rest
    refine ((climb_good _ (fun i => simpleL_good hl i) _).1 lhs none (lexCombiningOp rest) ?_).strict
      (hsf.trans hs) (Nat.lt_of_le_of_lt hsf.length_le hlt)
    unfold climbNeed
    have := hsf.length_le
    split <;> omega

/-! ### function-call arguments -/

theorem argLit_lt {ty : Ty} {i rest : Input} {a : Typed AExpr}
    (h : argLit ty i = some (.ok (a, rest))) : rest.length < i.length := by
  unfold argLit at h
  cases hv : lexRhsVal ty i with
  | none => simp [hv] at h
  | some res =>
    cases res with
    | error e => simp [hv, Except.map] at h
    | ok v =>
      obtain ⟨v, rest'⟩ := v
      simp only [hv, Option.map_some, Except.map, Option.some.injEq, Except.ok.injEq,
        Prod.mk.injEq] at h
      obtain ⟨_, h2⟩ := h
      subst h2
      unfold lexRhsVal at hv
      split at hv
      · simp only [Option.some.injEq] at hv
        cases hi : lexInt i with
        | error e => simp [hi, Except.map] at hv
        | ok w =>
          obtain ⟨w, r⟩ := w
          simp only [hi, Except.map, Except.ok.injEq, Prod.mk.injEq] at hv
          rw [← hv.2]; exact lexInt_lt hi
      · simp only [Option.some.injEq] at hv
        cases hi : lexIpAddr i with
        | error e => simp [hi, Except.map] at hv
        | ok w =>
          obtain ⟨w, r⟩ := w
          simp only [hi, Except.map, Except.ok.injEq, Prod.mk.injEq] at hv
          rw [← hv.2]; exact lexIpAddr_lt hi
      · simp only [Option.some.injEq] at hv
        cases hi : lexBytes i with
        | error e => simp [hi, Except.map] at hv
        | ok w =>
          obtain ⟨w, r⟩ := w
          simp only [hi, Except.map, Except.ok.injEq, Prod.mk.injEq] at hv
          rw [← hv.2]; exact lexBytes_lt hi
      · cases hv

theorem argLit_good {ty : Ty} {i : Input} {r : LexRes (Typed AExpr)}
    (h : argLit ty i = some r) : Good i r :=
  ⟨argLit_resOk h, argLit_noFuel h, fun a rest he => argLit_lt (he ▸ h)⟩

theorem argFallback_good {env : PEnv} {lower : Option Level} (hl : LowerGood lower) (i : Input) :
    Good i (argFallback env lower i) := by
  have hi := indexExprL_good (env := env) hl i
  unfold argFallback
  split
  · rename_i lhs rest hx
    obtain ⟨hs, hlt⟩ := hi.ok hx
    exact (argAfterIndex_good0 env lhs rest).strict hs hlt
  · split
    · rename_i r hx; exact argLit_good hx
    · split
      · rename_i r hx; exact argLit_good hx
      · split
        · rename_i r hx; exact argLit_good hx
        · exact good_errAt (List.suffix_refl _) (by nf)

theorem argL_good {env : PEnv} {lower : Option Level} (hl : LowerGood lower) (i : Input) :
    Good i (argL env lower i) := by
  unfold argL
  split
  · exact argFallback_good hl _
  · rename_i c cs
    dsimp only
    split
    · split
      · rename_i r hx; exact argLit_good hx
      · exact good_errAt (List.suffix_refl _) (by nf)
    · split
      · have hg := logicalL_good (env := env) hl (c :: cs)
        split
        · rename_i e hx
          exact good_err (hg.err hx).1 (hg.err hx).2
        · rename_i e r hx
          obtain ⟨hs, hlt⟩ := hg.ok hx
          exact good_ok hs hlt
      · split
        · have hi := indexExprL_good (env := env) hl (c :: cs)
          split
          · rename_i e hx
            exact good_err (hi.err hx).1 (hi.err hx).2
          · rename_i lhs rest hx
            obtain ⟨hs, hlt⟩ := hi.ok hx
            exact (argAfterIndex_good0 env lhs rest).strict hs hlt
        · exact argFallback_good hl _

theorem callArgsLoop_good {env : PEnv} {lower : Option Level} (hl : LowerGood lower)
    (sig : FuncSig) (f : Nat) : ∀ inp args ps ctx, inp.length + 1 ≤ f →
      Good0 inp (callArgsLoop env lower sig f inp args ps ctx) := by
  induction f with
  | zero => intro inp args ps ctx hf; omega
  | succ f ih =>
    intro inp args ps ctx hf
    simp only [callArgsLoop]
    split
    · exact good0_ok (List.suffix_refl _)
    · rename_i c t
      split
      · exact good0_ok (List.suffix_refl _)
      · split
        · rename_i e hx
          -- the comma error
          split at hx
          · split at hx
            · cases hx
            · simp only [errAt, Except.error.injEq] at hx
              subst hx
              exact good0_err ⟨List.suffix_refl _, Nat.le_refl _⟩ (by nf)
          · cases hx
        · rename_i inp1 hx
          have hs1 : inp1 <:+ c :: t := by
            split at hx
            · split at hx
              · rename_i r hp; cases hx; exact expect_suffix hp
              · simp [errAt] at hx
            · cases hx; exact List.suffix_refl _
          have hs2 := (skipSpace_suffix inp1).trans hs1
          have hg := argL_good (env := env) hl (skipSpace inp1)
          split
          · rename_i e hy
            exact good0_err ((hg.err hy).1.mono hs2) (hg.err hy).2
          · rename_i a rest hy
            obtain ⟨hs3, hlt3⟩ := hg.ok hy
            have hrec : ∀ args ps ctx,
                Good0 (c :: t) (callArgsLoop env lower sig f (skipSpace rest) args ps ctx) := by
              intro args ps ctx
              refine (ih _ args ps ctx ?_).mono ((skipSpace_suffix rest).trans (hs3.trans hs2))
              have h1 := (skipSpace_suffix rest).length_le
              have h2 := hs2.length_le
              simp only [List.length_cons] at hf h2 ⊢
              omega
            repeat' split
            all_goals first
              | exact hrec _ _ _
              | exact good0_errSpan hs2 (by nf)
              | exact good0_errAt hs2 (by nf)

theorem callBodyL_good {env : PEnv} {lower : Option Level} (hl : LowerGood lower)
    (k : Nat) (sig : FuncSig) (i : Input) : Good i (callBodyL env lower k sig i) := by
  unfold callBodyL
  dsimp only
  have hs0 := skipSpace_suffix i
  split
  · exact good_errAt hs0 (by nf)
  · rename_i r hp
    have hs1 := ((skipSpace_suffix r).trans (expect_suffix hp)).trans hs0
    have hlt1 : (skipSpace r).length < i.length := by
      have h1 := expect_lt hp (by decide)
      have h2 := (skipSpace_suffix r).length_le
      have h3 := hs0.length_le
      omega
    have hg := callArgsLoop_good (env := env) hl sig ((skipSpace r).length + 2) (skipSpace r) [] []
      (match sig with | .ctxCounter => some 0 | _ => none) (by omega)
    split
    · rename_i e hx
      exact good_err ((hg.err hx).1.mono hs1) (hg.err hx).2
    · rename_i args params ctx rest hx
      have hs2 := (hg.ok hx).trans hs1
      split
      · exact good_errAt hs2 (by nf)
      · split
        · exact good_errAt hs2 (by nf)
        · rename_i rest2 hp2
          have := expect_suffix hp2
          exact good_ok (this.trans hs2)
            (by have h1 := this.length_le; have h2 := (hg.ok hx).length_le; omega)

theorem quantArgL_good {env : PEnv} {lower : Option Level} (hl : LowerGood lower) (i : Input) :
    Good i (quantArgL env lower i) := by
  have hg := argL_good (env := env) hl i
  unfold quantArgL
  split
  · rename_i e hx
    exact good_err (hg.err hx).1 (hg.err hx).2
  · rename_i a rest hx
    obtain ⟨hs, hlt⟩ := hg.ok hx
    repeat' split
    all_goals first
      | exact good_ok hs hlt
      | exact good_errSpan (List.suffix_refl _) (by nf)

theorem mkLevel_good {env : PEnv} {lower : Option Level} (hl : LowerGood lower) :
    (mkLevel env lower).Good where
  logical := fun i => logicalL_good hl i
  simple := fun i => simpleL_good hl i
  quantArg := fun i => quantArgL_good hl i
  callBody := fun k sig i => callBodyL_good hl k sig i

theorem level_good (env : PEnv) (n : Nat) : (level env n).Good := by
  induction n with
  | zero => exact mkLevel_good (fun lw h => by cases h)
  | succ n ih => exact mkLevel_good (fun lw h => by cases h; exact ih)

theorem lowerOf_good (env : PEnv) (n : Nat) : LowerGood (lowerOf env n) := by
  intro lw h
  cases n with
  | zero => cases h
  | succ n => cases h; exact level_good env n

/-! ### `complete`, `parseFilter`, `parseValue` -/

theorem complete_error {α} {i : Input} {r : LexRes α} (hg : Good0 i r) {e : LexErr}
    (h : complete r = .error e) : ErrOk i e ∧ e.kind ≠ .outOfFuel := by
  unfold complete at h
  split at h
  · rename_i e' ; cases h; exact hg.err rfl
  · cases h
  · rename_i a rest hne
    simp only [errAt, Except.error.injEq] at h
    subst h
    exact ⟨⟨hg.ok rfl, Nat.le_refl _⟩, by nf⟩

theorem parseFilter_error {env : PEnv} {src : Input} {e : LexErr}
    (h : parseFilter env src = .error e) : ErrOk (trim src) e ∧ e.kind ≠ .outOfFuel := by
  unfold parseFilter at h
  dsimp only at h
  refine complete_error ?_ h
  have hg := (level_good env env.st.maxDepth).logical (trim src)
  split
  · rename_i e' hx
    exact good0_err (hg.err hx).1 (hg.err hx).2
  · rename_i e' rest hx
    split
    · exact good0_ok (hg.ok hx).1
    · exact good0_errAt (hg.ok hx).1 (by nf)

theorem parseValue_error {env : PEnv} {src : Input} {e : LexErr}
    (h : parseValue env src = .error e) : ErrOk (trim src) e ∧ e.kind ≠ .outOfFuel := by
  unfold parseValue topIndexExpr at h
  dsimp only at h
  refine complete_error ?_ h
  have hg := indexExprL_good (env := env) (lowerOf_good env env.st.maxDepth) (trim src)
  split
  · rename_i e' hx
    exact good0_err (hg.err hx).1 (hg.err hx).2
  · rename_i e' rest hx
    split
    · exact good0_errAt (List.suffix_refl _) (by nf)
    · exact good0_ok (hg.ok hx).1

end WfModel
