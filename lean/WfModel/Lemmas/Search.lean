import WfModel.Model.Search

/-! Helper lemmas for C10 (no property statements here). -/
namespace WfModel.Search

theorem isPrefixOf_iff_take (p w : Bytes) :
    p.isPrefixOf w = true ↔ p.length ≤ w.length ∧ w.take p.length = p := by
  rw [List.isPrefixOf_iff_prefix]
  constructor
  · intro h
    exact ⟨h.length_le, (List.prefix_iff_eq_take.mp h).symm⟩
  · rintro ⟨_, h⟩
    exact List.prefix_iff_eq_take.mpr h.symm

theorem naive_nil (h : Bytes) : naive h [] = true := by
  cases h <;> simp [naive]

theorem naive_spec_aux (p : Bytes) : ∀ h : Bytes,
    naive h p = true ↔ ∃ i, i + p.length ≤ h.length ∧ (h.drop i).take p.length = p
  | [] => by
    simp only [naive, List.isEmpty_iff, List.length_nil, Nat.le_zero_eq, List.drop_nil,
      List.take_nil]
    constructor
    · rintro rfl; exact ⟨0, by simp, rfl⟩
    · rintro ⟨_, _, h⟩; exact h.symm
  | b :: t => by
    simp only [naive, Bool.or_eq_true, isPrefixOf_iff_take, naive_spec_aux p t]
    constructor
    · rintro (⟨hl, ht⟩ | ⟨i, hl, ht⟩)
      · exact ⟨0, by simpa using hl, by simpa using ht⟩
      · exact ⟨i + 1, by simp only [List.length_cons]; omega, by simpa using ht⟩
    · rintro ⟨i, hl, ht⟩
      cases i with
      | zero => exact Or.inl ⟨by simpa using hl, by simpa using ht⟩
      | succ j =>
        refine Or.inr ⟨j, ?_, by simpa using ht⟩
        simp only [List.length_cons] at hl; omega

theorem naive_longer (h p : Bytes) (hl : h.length < p.length) : naive h p = false := by
  cases hn : naive h p with
  | false => rfl
  | true =>
    rcases (naive_spec_aux p h).mp hn with ⟨i, hi, _⟩
    omega

theorem naive_same_length (h p : Bytes) (hl : h.length = p.length) : naive h p = (h == p) := by
  rw [Bool.eq_iff_iff, naive_spec_aux, beq_iff_eq]
  constructor
  · rintro ⟨i, hi, ht⟩
    have : i = 0 := by omega
    subst this
    rw [List.drop_zero, ← hl, List.take_length] at ht
    exact ht
  · rintro rfl
    exact ⟨0, by omega, by simp⟩

/-- At an offset where a whole needle still fits, the anchor pre-filter followed by the
comparison of the remaining bytes is the full comparison. -/
theorem anchoredAt_eq (k : Nat) (p w : Bytes) (hk : k < p.length) (hl : p.length ≤ w.length) :
    anchoredAt k p w = p.isPrefixOf w := by
  cases p with
  | nil => simp at hk
  | cons a pt =>
    cases w with
    | nil => simp at hl
    | cons b wt =>
      rw [Bool.eq_iff_iff]
      simp only [anchoredAt, Bool.and_eq_true, beq_iff_eq, List.isPrefixOf_cons_cons,
        isPrefixOf_iff_take]
      simp only [List.length_cons] at hl
      constructor
      · rintro ⟨⟨hba, _⟩, ht⟩
        exact ⟨hba.symm, by omega, ht⟩
      · rintro ⟨hab, _, ht⟩
        subst hab
        refine ⟨⟨rfl, ?_⟩, ht⟩
        cases k with
        | zero => rfl
        | succ j =>
          simp only [List.getElem?_cons_succ]
          conv => rhs; rw [← ht]
          have hj : j < pt.length := by simp only [List.length_cons] at hk; omega
          rw [List.getElem?_take_of_lt hj]

/-- Scanning the `n = |h| - |p| + 1` candidate offsets is the reference search. -/
theorem anchoredScan_eq (k : Nat) (p : Bytes) (hk : k < p.length) :
    ∀ (n : Nat) (h : Bytes), n + p.length = h.length + 1 → anchoredScan k p n h = naive h p
  | 0, h, hn => by
    rw [anchoredScan, naive_longer h p (by omega)]
  | n + 1, [], hn => by
    simp only [List.length_nil] at hn; omega
  | n + 1, b :: t, hn => by
    simp only [List.length_cons] at hn
    rw [anchoredScan, naive, anchoredAt_eq k p (b :: t) hk (by simp only [List.length_cons]; omega),
      List.tail_cons, anchoredScan_eq k p hk n t (by omega)]

theorem anchoredSearch_eq (k : Nat) (h p : Bytes) (hk : k < p.length) :
    anchoredSearch k h p = naive h p := by
  unfold anchoredSearch
  split
  · next hle =>
    by_cases heq : h.length = p.length
    · exact (naive_same_length h p heq).symm
    · rw [naive_longer h p (by omega)]
      apply beq_eq_false_iff_ne.mpr
      intro hh; exact heq (by rw [hh])
  · next hgt => exact anchoredScan_eq k p hk _ h (by omega)

theorem memchr_isSome (b : UInt8) : ∀ h : Bytes, (memchr b h).isSome = naive h [b]
  | [] => rfl
  | a :: t => by
    rw [memchr, naive]
    by_cases hab : a = b
    · subst hab; simp
    · have : (a == b) = false := beq_eq_false_iff_ne.mpr hab
      have hba : ¬ b = a := fun h => hab h.symm
      simp [this, hba, memchr_isSome b t]

theorem memchrSearch_eq (b : UInt8) (h : Bytes) : memchrSearch b h = naive h [b] := by
  unfold memchrSearch
  cases h with
  | nil => rfl
  | cons a t => simp only [List.isEmpty_cons, Bool.false_eq_true, if_false]; exact memchr_isSome b _

theorem memmemFind_isSome (p : Bytes) : ∀ h : Bytes, (memmemFind p h).isSome = naive h p
  | [] => by
    simp only [memmemFind, naive]
    cases p <;> rfl
  | b :: t => by
    rw [memmemFind, naive]
    cases hp : p.isPrefixOf (b :: t) with
    | true => simp
    | false => simp [memmemFind_isSome p t]

/-- `memmem` returns the *first* occurrence (documented contract of `Finder::find`). -/
theorem memmemFind_first (p : Bytes) : ∀ (h : Bytes) (i : Nat), memmemFind p h = some i →
    p.isPrefixOf (h.drop i) = true ∧ ∀ j < i, p.isPrefixOf (h.drop j) = false
  | [], i, hi => by
    simp only [memmemFind] at hi
    split at hi
    · next hp =>
      cases hi
      exact ⟨by simpa using hp, by intro j hj; omega⟩
    · cases hi
  | b :: t, i, hi => by
    rw [memmemFind] at hi
    split at hi
    · next hp =>
      cases hi
      exact ⟨by simpa using hp, by intro j hj; omega⟩
    · next hp =>
      cases hm : memmemFind p t with
      | none => simp [hm] at hi
      | some i' =>
        simp only [hm, Option.map_some, Option.some.injEq] at hi
        subst hi
        have ih := memmemFind_first p t i' hm
        refine ⟨by simpa using ih.1, ?_⟩
        intro j hj
        cases j with
        | zero => rw [List.drop_zero]; exact Bool.eq_false_iff.mpr hp
        | succ j' => simpa using ih.2 j' (by omega)

end WfModel.Search
