import WfModel.Lemmas.CtxSerde
/-!
Helper lemmas for C14, part 2: value-level round trip (`rt_*`) and typing (`ty_*`) of the
type-directed deserializer, by mutual structural recursion over `Val` / `J`.
-/
namespace WfModel.CtxSerde
open WfModel Val

theorem deByteElems_map (b : Bytes) : deByteElems (b.map fun x => J.int (x.toNat : Int)) = .ok b := by
  induction b with
  | nil => rfl
  | cons x xs ih =>
    have hx := UInt8.toNat_lt x
    simp only [List.map, deByteElems, ih]
    have : (0:Int) ≤ (x.toNat : Int) ∧ (x.toNat : Int) ≤ 255 := by omega
    simp [this, UInt8.ofNat_toNat]

theorem strBytes_ofList (cs : List Char) : strBytes (String.ofList cs) = utf8Encode cs := by
  simp [strBytes, String.toList_ofList]

theorem deBytes_serBytes (b : Bytes) : deBytes (serBytes b) = .ok b := by
  unfold serBytes
  split
  · rename_i cs h
    simp [deBytes, strBytes_ofList, utf8_enc_dec b cs h]
  · simp only [deBytes]
    exact deByteElems_map b

theorem strBytes_keyStr {k : Bytes} (h : utf8Valid k = true) : strBytes (keyStr k) = k := by
  unfold utf8Valid at h
  unfold keyStr
  split
  · rename_i cs hc
    simp [strBytes_ofList, utf8_enc_dec k cs hc]
  · rename_i hc; simp [hc] at h

mutual
theorem rt_val (T : IpText) (hT : T.RoundTrip) :
    ∀ v : Val, v.wf = true → valInRange v = true → deVal T v.typeOf (serVal T v) = .ok v
  | .bool b, _, _ => by simp [serVal, deVal, typeOf]
  | .int i, _, hr => by
    simp only [valInRange, decide_eq_true_eq] at hr
    simp [serVal, deVal, typeOf, hr]
  | .ip a, _, hr => by
    simp only [valInRange] at hr
    simp [serVal, deVal, typeOf, hT a hr]
  | .bytes b, _, _ => by simp [serVal, deVal, typeOf, deBytes_serBytes]
  | .array t xs, hw, hr => by
    have := rt_list T hT t xs (by simpa [wf] using hw) (by simpa [valInRange] using hr)
    simp [serVal, deVal, typeOf, this]
  | .map t kvs, hw, hr => by
    simp only [wf, Bool.and_eq_true] at hw
    simp only [valInRange] at hr
    simp only [serVal, typeOf]
    have hasc : ([] ++ kvs).Pairwise KeyLt := by simpa using (keysAscending_iff kvs).mp hw.2
    split
    · rename_i hk
      have := rt_obj T hT t kvs hw.1 hr hk
      simp [deVal, this, insertAll_asc_append [] kvs hasc]
    · have := rt_pairs T hT t kvs hw.1 hr
      simp [deVal, this, insertAll_asc_append [] kvs hasc]
theorem rt_list (T : IpText) (hT : T.RoundTrip) :
    ∀ (t : Ty) (xs : List Val), wfList t xs = true → listInRange xs = true →
      deElems T t (serList T xs) = .ok xs
  | _, [], _, _ => by simp [serList, deElems]
  | t, x :: xs, hw, hr => by
    simp only [wfList, Bool.and_eq_true, beq_iff_eq] at hw
    simp only [listInRange, Bool.and_eq_true] at hr
    have h1 := rt_val T hT x hw.1.2 hr.1
    rw [hw.1.1] at h1
    have h2 := rt_list T hT t xs hw.2 hr.2
    simp [serList, deElems, h1, h2, hw.1.1]
theorem rt_obj (T : IpText) (hT : T.RoundTrip) :
    ∀ (t : Ty) (kvs : List (Bytes × Val)), wfKvs t kvs = true → kvsInRange kvs = true →
      allKeysUtf8 kvs = true → deObj T t (serObj T kvs) = .ok kvs
  | _, [], _, _, _ => by simp [serObj, deObj]
  | t, (k, x) :: rest, hw, hr, hk => by
    simp only [wfKvs, Bool.and_eq_true, beq_iff_eq] at hw
    simp only [kvsInRange, Bool.and_eq_true] at hr
    simp only [allKeysUtf8, Bool.and_eq_true] at hk
    have h1 := rt_val T hT x hw.1.2 hr.1
    rw [hw.1.1] at h1
    have h2 := rt_obj T hT t rest hw.2 hr.2 hk.2
    simp [serObj, deObj, h1, h2, hw.1.1, strBytes_keyStr hk.1]
theorem rt_pairs (T : IpText) (hT : T.RoundTrip) :
    ∀ (t : Ty) (kvs : List (Bytes × Val)), wfKvs t kvs = true → kvsInRange kvs = true →
      dePairs T t (serPairs T kvs) = .ok kvs
  | _, [], _, _ => by simp [serPairs, dePairs]
  | t, (k, x) :: rest, hw, hr => by
    simp only [wfKvs, Bool.and_eq_true, beq_iff_eq] at hw
    simp only [kvsInRange, Bool.and_eq_true] at hr
    have h1 := rt_val T hT x hw.1.2 hr.1
    rw [hw.1.1] at h1
    have h2 := rt_pairs T hT t rest hw.2 hr.2
    simp [serPairs, dePairs, h1, h2, hw.1.1, deBytes_serBytes]
end

theorem wf_map_insertAll {t : Ty} {es : List (Bytes × Val)}
    (h : ∀ e ∈ es, e.2.typeOf = t ∧ e.2.wf = true) : (Val.map t (insertAll [] es)).wf = true := by
  simp only [wf, Bool.and_eq_true]
  constructor
  · rw [wfKvs_iff]
    intro x hx
    rcases mem_insertAll hx with hx | hx
    · simp at hx
    · exact h x hx
  · rw [keysAscending_iff]
    exact insertAll_asc List.Pairwise.nil

mutual
theorem ty_val (T : IpText) :
    ∀ (j : J) (t : Ty) (v : Val), deVal T t j = .ok v → v.typeOf = t ∧ v.wf = true
  | .null, t, v, h => by cases t <;> simp [deVal, deBytes] at h
  | .bool b, t, v, h => by
    cases t <;> simp [deVal, deBytes] at h
    subst h; simp [typeOf, wf]
  | .int i, t, v, h => by
    cases t with
    | int =>
      simp only [deVal] at h
      split at h <;> simp at h
      subst h; simp [typeOf, wf]
    | _ => simp [deVal, deBytes] at h
  | .str s, t, v, h => by
    cases t <;> simp [deVal, deBytes] at h
    · split at h <;> simp at h
      subst h; simp [typeOf, wf]
    · subst h; simp [typeOf, wf]
  | .arr xs, t, v, h => by
    cases t with
    | bool => simp [deVal] at h
    | int => simp [deVal] at h
    | ip => simp [deVal] at h
    | bytes =>
      simp only [deVal] at h
      split at h <;> simp at h
      subst h; simp [typeOf, wf]
    | array t' =>
      simp only [deVal] at h
      cases hd : deElems T t' xs with
      | error e => simp [hd] at h
      | ok vs =>
        simp [hd] at h
        subst h
        have := ty_elems T xs t' vs hd
        refine ⟨rfl, ?_⟩
        simp only [wf]
        rw [wfList_iff]
        exact this
    | map t' =>
      simp only [deVal] at h
      cases hd : dePairs T t' xs with
      | error e => simp [hd] at h
      | ok es =>
        simp [hd] at h
        subst h
        exact ⟨rfl, wf_map_insertAll (ty_pairs T xs t' es hd)⟩
  | .obj kvs, t, v, h => by
    cases t with
    | bool => simp [deVal] at h
    | int => simp [deVal] at h
    | ip => simp [deVal] at h
    | bytes => simp [deVal, deBytes] at h
    | array t' => simp [deVal] at h
    | map t' =>
      simp only [deVal] at h
      cases hd : deObj T t' kvs with
      | error e => simp [hd] at h
      | ok es =>
        simp [hd] at h
        subst h
        exact ⟨rfl, wf_map_insertAll (ty_obj T kvs t' es hd)⟩
theorem ty_elems (T : IpText) :
    ∀ (xs : List J) (t : Ty) (vs : List Val), deElems T t xs = .ok vs →
      ∀ x ∈ vs, x.typeOf = t ∧ x.wf = true
  | [], t, vs, h => by simp [deElems] at h; subst h; simp
  | j :: rest, t, vs, h => by
    simp only [deElems] at h
    cases hv : deVal T t j with
    | error e => simp [hv] at h
    | ok v =>
      simp only [hv] at h
      split at h
      · cases hr : deElems T t rest with
        | error e => simp [hr] at h
        | ok vs' =>
          simp [hr] at h
          subst h
          intro x hx
          rcases List.mem_cons.mp hx with rfl | hx
          · exact ty_val T j t x hv
          · exact ty_elems T rest t vs' hr x hx
      · simp at h
theorem ty_obj (T : IpText) :
    ∀ (kvs : List (String × J)) (t : Ty) (es : List (Bytes × Val)), deObj T t kvs = .ok es →
      ∀ e ∈ es, e.2.typeOf = t ∧ e.2.wf = true
  | [], t, es, h => by simp [deObj] at h; subst h; simp
  | (k, j) :: rest, t, es, h => by
    simp only [deObj] at h
    cases hv : deVal T t j with
    | error e => simp [hv] at h
    | ok v =>
      simp only [hv] at h
      split at h
      · cases hr : deObj T t rest with
        | error e => simp [hr] at h
        | ok es' =>
          simp [hr] at h
          subst h
          intro x hx
          rcases List.mem_cons.mp hx with rfl | hx
          · exact ty_val T j t v hv
          · exact ty_obj T rest t es' hr x hx
      · simp at h
theorem ty_pairs (T : IpText) :
    ∀ (xs : List J) (t : Ty) (es : List (Bytes × Val)), dePairs T t xs = .ok es →
      ∀ e ∈ es, e.2.typeOf = t ∧ e.2.wf = true
  | [], t, es, h => by simp [dePairs] at h; subst h; simp
  | .arr [kj, vj] :: rest, t, es, h => by
    simp only [dePairs] at h
    cases hk : deBytes kj with
    | error e => simp [hk] at h
    | ok k =>
      cases hv : deVal T t vj with
      | error e => simp [hk, hv] at h
      | ok v =>
        simp only [hk, hv] at h
        split at h
        · cases hr : dePairs T t rest with
          | error e => simp [hr] at h
          | ok es' =>
            simp [hr] at h
            subst h
            intro x hx
            rcases List.mem_cons.mp hx with rfl | hx
            · exact ty_val T vj t v hv
            · exact ty_pairs T rest t es' hr x hx
        · simp at h
  | .arr [] :: _, t, es, h => by simp [dePairs] at h
  | .arr [_] :: _, t, es, h => by simp [dePairs] at h
  | .arr (_ :: _ :: _ :: _) :: _, t, es, h => by simp [dePairs] at h
  | .null :: _, t, es, h => by simp [dePairs] at h
  | .bool _ :: _, t, es, h => by simp [dePairs] at h
  | .int _ :: _, t, es, h => by simp [dePairs] at h
  | .str _ :: _, t, es, h => by simp [dePairs] at h
  | .obj _ :: _, t, es, h => by simp [dePairs] at h
end
end WfModel.CtxSerde
