import WfModel.Lemmas.CtxSerdeVal
/-!
Helper lemmas for C14, part 3: the context level — type tags, field/list lookups, the field and
`$lists` sections of a serialized context read back, preservation of typing by every step of
the context deserializer, absence of the `stuck` outcome.
-/
namespace WfModel.CtxSerde
open WfModel Val

/-! ## type tags -/
theorem tyOfJ_tyToJ : ∀ t : Ty, t.layers ≤ maxCompoundLayers + 1 → tyOfJ (tyToJ t) = .ok t
  | .bool, _ => by simp [tyToJ, tyOfJ, primOfName]
  | .int, _ => by simp [tyToJ, tyOfJ, primOfName]
  | .ip, _ => by simp [tyToJ, tyOfJ, primOfName]
  | .bytes, _ => by simp [tyToJ, tyOfJ, primOfName]
  | .array t, h => by
    have hl : t.layers ≤ maxCompoundLayers := by simp [Ty.layers] at h; omega
    have := tyOfJ_tyToJ t (by omega)
    simp [tyToJ, tyOfJ, tyOfVariant, this, hl]
  | .map t, h => by
    have hl : t.layers ≤ maxCompoundLayers := by simp [Ty.layers] at h; omega
    have := tyOfJ_tyToJ t (by omega)
    simp [tyToJ, tyOfJ, tyOfVariant, this, hl]

/-! ## lookups -/
theorem findField_append {name : String} {pre : List Field} {f : Field} {post : List Field}
    (hn : name ∉ pre.map (·.name)) (hf : f.name = name) :
    findField name (pre ++ f :: post) = some (pre.length, f.ty) := by
  induction pre with
  | nil => simp [findField, hf]
  | cons g pre ih =>
    simp only [List.map_cons, List.mem_cons, not_or] at hn
    have hg : ¬ g.name = name := fun e => hn.1 e.symm
    simp [findField, hg, ih hn.2]

theorem findList_append {M} {ty : Ty} {pre : List (ListDef M)} {d : ListDef M} {post : List (ListDef M)}
    (hn : ty ∉ pre.map (·.ty)) (hd : d.ty = ty) :
    findList ty (pre ++ d :: post) = some (pre.length, d) := by
  induction pre with
  | nil => simp [findList, hd]
  | cons g pre ih =>
    simp only [List.map_cons, List.mem_cons, not_or] at hn
    have hg : ¬ g.ty = ty := fun e => hn.1 e.symm
    simp [findList, hg, ih hn.2]

theorem set_append_length {α} (pre : List α) (x y : α) (post : List α) :
    (pre ++ x :: post).set pre.length y = pre ++ y :: post := by
  induction pre with
  | nil => rfl
  | cons a pre ih => simp [ih]

theorem deEntries_append {M} (T : IpText) (s : Scheme M) (a b : List (String × J)) (c : Ctx M) :
    deEntries T s (a ++ b) c =
      match deEntries T s a c with
      | .ok c' => deEntries T s b c'
      | .error e => .error e := by
  induction a generalizing c with
  | nil => simp [deEntries]
  | cons x a ih =>
    obtain ⟨k, j⟩ := x
    simp only [List.cons_append, deEntries]
    split
    · split
      · exact ih _
      · rfl
    · split
      · rfl
      · split
        · rfl
        · split
          · exact ih _
          all_goals rfl

/-- the field part of `serCtx`, with a post-processing `g` of every serialized value -/
def serFieldsG (T : IpText) (g : J → J) : List Field → List (Option Val) → List (String × J)
  | f :: fs, some v :: vs => (f.name, g (serVal T v)) :: serFieldsG T g fs vs
  | _ :: fs, none :: vs => serFieldsG T g fs vs
  | _, _ => []

theorem serFieldsG_id (T : IpText) (fs : List Field) (vs : List (Option Val)) :
    serFieldsG T id fs vs = serFields T fs vs := by
  induction fs generalizing vs with
  | nil => cases vs <;> simp [serFieldsG, serFields]
  | cons f fs ih =>
    cases vs with
    | nil => simp [serFieldsG, serFields]
    | cons v vs => cases v <;> simp [serFieldsG, serFields, ih]

theorem deEntries_fields {M} (T : IpText) (g : J → J) (s : Scheme M)
    (hg : ∀ v : Val, v.wf = true → valInRange v = true → deVal T v.typeOf (g (serVal T v)) = .ok v)
    (hnd : (s.fields.map (·.name)).Nodup) (hl : "$lists" ∉ s.fields.map (·.name)) :
    ∀ (post pre : List Field) (vpre vpost : List (Option Val)) (m : List M),
      s.fields = pre ++ post → vpre.length = pre.length →
      typedVals post vpost = true → valsInRange vpost = true →
      deEntries T s (serFieldsG T g post vpost) ⟨vpre ++ post.map (fun _ => none), m⟩
        = .ok ⟨vpre ++ vpost, m⟩ := by
  intro post
  induction post with
  | nil =>
    intro pre vpre vpost m _ _ ht _
    cases vpost with
    | nil => simp [serFieldsG, deEntries]
    | cons _ _ => simp [typedVals] at ht
  | cons f post ih =>
    intro pre vpre vpost m hs hlen ht hr
    cases vpost with
    | nil => simp [typedVals] at ht
    | cons ov vpost =>
      have hs' : s.fields = (pre ++ [f]) ++ post := by simp [hs]
      cases ov with
      | none =>
        simp only [typedVals] at ht
        simp only [valsInRange] at hr
        have := ih (pre ++ [f]) (vpre ++ [none]) vpost m hs' (by simp [hlen]) ht hr
        simpa [serFieldsG] using this
      | some v =>
        simp only [typedVals, Bool.and_eq_true, decide_eq_true_eq] at ht
        simp only [valsInRange, Bool.and_eq_true] at hr
        have hname : f.name ∉ pre.map (·.name) := by
          rw [hs] at hnd
          simp only [List.map_append, List.map_cons] at hnd
          have := (List.nodup_append.mp hnd).2.2
          intro hmem
          exact this _ hmem _ List.mem_cons_self rfl
        have hne : ¬ f.name = "$lists" := by
          intro e
          apply hl
          rw [hs, ← e]
          simp
        have hfind : findField f.name s.fields = some (pre.length, f.ty) := by
          rw [hs]; exact findField_append hname rfl
        have hde : deVal T f.ty (g (serVal T v)) = .ok v := by
          have := hg v ht.1.2 hr.1
          rwa [ht.1.1] at this
        have hset : (vpre ++ none :: post.map (fun _ => (none : Option Val))).set pre.length (some v)
            = vpre ++ some v :: post.map (fun _ => none) := by
          rw [← hlen]; exact set_append_length _ _ _ _
        have := ih (pre ++ [f]) (vpre ++ [some v]) vpost m hs' (by simp [hlen]) ht.2 hr.2
        simp only [serFieldsG, deEntries, hne, if_false, hfind, hde, setFieldFromName, ht.1.1,
          if_true, List.map_cons, hset]
        simpa using this

theorem deListEntries_lists {M} (s : Scheme M)
    (hnd : (s.lists.map (·.ty)).Nodup) (hly : ∀ d ∈ s.lists, d.ty.layers ≤ maxCompoundLayers + 1) :
    ∀ (post pre : List (ListDef M)) (mpre mpost : List M) (vals : List (Option Val)),
      s.lists = pre ++ post → mpre.length = pre.length → mpost.length = post.length →
      matchersRoundTrip post mpost →
      deListEntries s (serLists post mpost) ⟨vals, mpre ++ post.map (·.new)⟩
        = .ok ⟨vals, mpre ++ mpost⟩ := by
  intro post
  induction post with
  | nil =>
    intro pre mpre mpost vals _ _ hl _
    cases mpost with
    | nil => simp [serLists, deListEntries]
    | cons _ _ => simp at hl
  | cons d post ih =>
    intro pre mpre mpost vals hs hlen hl hrt
    cases mpost with
    | nil => simp at hl
    | cons m mpost =>
      simp only [matchersRoundTrip] at hrt
      have hs' : s.lists = (pre ++ [d]) ++ post := by simp [hs]
      have hty : d.ty ∉ pre.map (·.ty) := by
        rw [hs] at hnd
        simp only [List.map_append, List.map_cons] at hnd
        have := (List.nodup_append.mp hnd).2.2
        intro hmem
        exact this _ hmem _ List.mem_cons_self rfl
      have hfind : findList d.ty s.lists = some (pre.length, d) := by
        rw [hs]; exact findList_append hty rfl
      have htag : tyOfJ (tyToJ d.ty) = .ok d.ty := tyOfJ_tyToJ _ (hly d (by rw [hs]; simp))
      have hset : (mpre ++ d.new :: post.map (·.new)).set pre.length m = mpre ++ m :: post.map (·.new) := by
        rw [← hlen]; exact set_append_length _ _ _ _
      have := ih (pre ++ [d]) (mpre ++ [m]) mpost vals hs' (by simp [hlen]) (by simpa using hl) hrt.2
      simp only [serLists, deListEntries, deListEntry, if_true, htag, hfind, hrt.1, List.map_cons, hset]
      simpa using this

/-! ## typing is preserved by every step of the context deserializer -/

theorem typedVals_set {fs : List Field} {vs : List (Option Val)} {k : String} {i : Nat} {ty : Ty} {v : Val}
    (ht : typedVals fs vs = true) (hf : findField k fs = some (i, ty))
    (hv : v.typeOf = ty) (hw : v.wf = true) : typedVals fs (vs.set i (some v)) = true := by
  induction fs generalizing vs i with
  | nil => simp [findField] at hf
  | cons f fs ih =>
    cases vs with
    | nil => simp [typedVals] at ht
    | cons ov vs =>
      simp only [findField] at hf
      split at hf
      · simp only [Option.some.injEq, Prod.mk.injEq] at hf
        obtain ⟨rfl, rfl⟩ := hf
        cases ov with
        | none => simp only [typedVals] at ht; simp [typedVals, hv, hw, ht]
        | some w =>
          simp only [typedVals, Bool.and_eq_true] at ht
          simp [typedVals, hv, hw, ht.2]
      · cases hr : findField k fs with
        | none => simp [hr] at hf
        | some p =>
          obtain ⟨i', t'⟩ := p
          simp only [hr, Option.some.injEq, Prod.mk.injEq] at hf
          obtain ⟨rfl, rfl⟩ := hf
          cases ov with
          | none =>
            simp only [typedVals] at ht
            simpa [typedVals] using ih ht hr
          | some w =>
            simp only [typedVals, Bool.and_eq_true] at ht
            simp only [List.set_cons_succ, typedVals, Bool.and_eq_true]
            exact ⟨ht.1, ih ht.2 hr⟩

theorem setFieldFromName_typed {M} {T : IpText} {s : Scheme M} {c c' : Ctx M} {k : String} {j : J} {ty : Ty}
    {v : Val} {i : Nat} (ht : CtxTyped s c) (hf : findField k s.fields = some (i, ty))
    (hd : deVal T ty j = .ok v) (hs : setFieldFromName s c k v = .ok c') : CtxTyped s c' := by
  have hv := ty_val T j ty v hd
  simp only [setFieldFromName, hf] at hs
  split at hs
  · simp only [Except.ok.injEq] at hs
    subst hs
    exact ⟨typedVals_set ht.1 hf hv.1 hv.2, ht.2⟩
  · simp at hs

theorem deListEntry_typed {M} {s : Scheme M} {c c' : Ctx M} {j : J} (ht : CtxTyped s c)
    (h : deListEntry s c j = .ok c') : CtxTyped s c' := by
  unfold deListEntry at h
  split at h
  · simp at h
  · split at h
    · split at h
      · simp at h
      · split at h
        · simp at h
        · split at h
          · simp at h
          · split at h
            · split at h
              · simp at h
              · split at h
                · simp only [Except.ok.injEq] at h
                  subst h
                  exact ⟨ht.1, by simpa using ht.2⟩
                · simp at h
            · simp at h
    · simp at h
  · simp at h

theorem deListEntries_typed {M} {s : Scheme M} (es : List J) {c c' : Ctx M} (ht : CtxTyped s c)
    (h : deListEntries s es c = .ok c') : CtxTyped s c' := by
  induction es generalizing c with
  | nil => simp only [deListEntries, Except.ok.injEq] at h; exact h ▸ ht
  | cons j es ih =>
    simp only [deListEntries] at h
    split at h
    · rename_i c1 h1
      exact ih (deListEntry_typed ht h1) h
    · simp at h

theorem deEntries_typed {M} {T : IpText} {s : Scheme M} (es : List (String × J)) {c c' : Ctx M}
    (ht : CtxTyped s c) (h : deEntries T s es c = .ok c') : CtxTyped s c' := by
  induction es generalizing c with
  | nil => simp only [deEntries, Except.ok.injEq] at h; exact h ▸ ht
  | cons e es ih =>
    obtain ⟨k, j⟩ := e
    simp only [deEntries] at h
    split at h
    · split at h
      · rename_i c1 h1
        refine ih ?_ h
        unfold deLists at h1
        split at h1
        · exact deListEntries_typed _ ht h1
        · simp at h1
      · simp at h
    · split at h
      · simp at h
      · rename_i i ty hf
        split at h
        · simp at h
        · rename_i v hd
          split at h
          · rename_i c1 hs
            exact ih (setFieldFromName_typed ht hf hd hs) h
          all_goals simp at h

/-! ## no `Stuck` outcome -/

theorem deByteElems_ne_stuck (xs : List J) : deByteElems xs ≠ .error .stuck := by
  induction xs with
  | nil => simp [deByteElems]
  | cons x xs ih =>
    cases x with
    | int i =>
      simp only [deByteElems]
      split
      · split
        · simp
        · rename_i e he; intro h; simp only [Except.error.injEq] at h; subst h; exact ih he
      · simp
    | _ => simp [deByteElems]

theorem deBytes_ne_stuck (j : J) : deBytes j ≠ .error .stuck := by
  cases j <;> simp [deBytes, deByteElems_ne_stuck]

mutual
theorem ns_val (T : IpText) : ∀ (j : J) (t : Ty), deVal T t j ≠ .error .stuck
  | .null, t => by cases t <;> simp [deVal, deBytes]
  | .bool b, t => by cases t <;> simp [deVal, deBytes]
  | .int i, t => by
    cases t <;> simp [deVal, deBytes]
    split <;> simp
  | .str s, t => by
    cases t <;> simp [deVal, deBytes]
    split <;> simp
  | .arr xs, t => by
    cases t with
    | bool => simp [deVal]
    | int => simp [deVal]
    | ip => simp [deVal]
    | bytes =>
      simp only [deVal]
      have := deBytes_ne_stuck (.arr xs)
      split
      · simp
      · rename_i e he; intro h; simp only [Except.error.injEq] at h; subst h; exact this he
    | array t' =>
      simp only [deVal]
      have := ns_elems T xs t'
      split
      · simp
      · rename_i e he; intro h; simp only [Except.error.injEq] at h; subst h; exact this he
    | map t' =>
      simp only [deVal]
      have := ns_pairs T xs t'
      split
      · simp
      · rename_i e he; intro h; simp only [Except.error.injEq] at h; subst h; exact this he
  | .obj kvs, t => by
    cases t with
    | bool => simp [deVal]
    | int => simp [deVal]
    | ip => simp [deVal]
    | bytes => simp [deVal, deBytes]
    | array t' => simp [deVal]
    | map t' =>
      simp only [deVal]
      have := ns_obj T kvs t'
      split
      · simp
      · rename_i e he; intro h; simp only [Except.error.injEq] at h; subst h; exact this he
theorem ns_elems (T : IpText) : ∀ (xs : List J) (t : Ty), deElems T t xs ≠ .error .stuck
  | [], t => by simp [deElems]
  | j :: rest, t => by
    simp only [deElems]
    have h1 := ns_val T j t
    have h2 := ns_elems T rest t
    split
    · rename_i e he; intro h; simp only [Except.error.injEq] at h; subst h; exact h1 he
    · split
      · split
        · simp
        · rename_i e he; intro h; simp only [Except.error.injEq] at h; subst h; exact h2 he
      · simp
theorem ns_obj (T : IpText) : ∀ (kvs : List (String × J)) (t : Ty), deObj T t kvs ≠ .error .stuck
  | [], t => by simp [deObj]
  | (k, j) :: rest, t => by
    simp only [deObj]
    have h1 := ns_val T j t
    have h2 := ns_obj T rest t
    split
    · rename_i e he; intro h; simp only [Except.error.injEq] at h; subst h; exact h1 he
    · split
      · split
        · simp
        · rename_i e he; intro h; simp only [Except.error.injEq] at h; subst h; exact h2 he
      · simp
theorem ns_pairs (T : IpText) : ∀ (xs : List J) (t : Ty), dePairs T t xs ≠ .error .stuck
  | [], t => by simp [dePairs]
  | .arr [kj, vj] :: rest, t => by
    simp only [dePairs]
    have h0 := deBytes_ne_stuck kj
    have h1 := ns_val T vj t
    have h2 := ns_pairs T rest t
    split
    · rename_i e he; intro h; simp only [Except.error.injEq] at h; subst h; exact h0 he
    · split
      · rename_i e he; intro h; simp only [Except.error.injEq] at h; subst h; exact h1 he
      · split
        · split
          · simp
          · rename_i e he; intro h; simp only [Except.error.injEq] at h; subst h; exact h2 he
        · simp
  | .arr [] :: _, t => by simp [dePairs]
  | .arr [_] :: _, t => by simp [dePairs]
  | .arr (_ :: _ :: _ :: _) :: _, t => by simp [dePairs]
  | .null :: _, t => by simp [dePairs]
  | .bool _ :: _, t => by simp [dePairs]
  | .int _ :: _, t => by simp [dePairs]
  | .str _ :: _, t => by simp [dePairs]
  | .obj _ :: _, t => by simp [dePairs]
end

mutual
theorem ns_tyOfJ : ∀ j : J, tyOfJ j ≠ .error .stuck
  | .null => by simp [tyOfJ]
  | .bool _ => by simp [tyOfJ]
  | .int _ => by simp [tyOfJ]
  | .str s => by simp only [tyOfJ]; split <;> simp
  | .arr _ => by simp [tyOfJ]
  | .obj kvs => by simp only [tyOfJ]; exact ns_tyOfVariant kvs
theorem ns_tyOfVariant : ∀ kvs : List (String × J), tyOfVariant kvs ≠ .error .stuck
  | [] => by simp [tyOfVariant]
  | [(k, j)] => by
    have := ns_tyOfJ j
    simp only [tyOfVariant]
    split
    · split
      · split <;> simp
      · rename_i e he; intro h; simp only [Except.error.injEq] at h; subst h; exact this he
    · split
      · split
        · split <;> simp
        · rename_i e he; intro h; simp only [Except.error.injEq] at h; subst h; exact this he
      · split <;> simp
  | _ :: _ :: _ => by simp [tyOfVariant]
end

theorem deListEntry_ne_stuck {M} (s : Scheme M) (c : Ctx M) (j : J) :
    deListEntry s c j ≠ .error .stuck := by
  unfold deListEntry
  split
  · simp
  · split
    · split
      · rename_i e he; intro h; simp only [Except.error.injEq] at h; subst h; exact ns_tyOfJ _ he
      · split
        · simp
        · split
          · simp
          · split
            · split
              · simp
              · split <;> simp
            · simp
    · simp
  · simp

theorem deListEntries_ne_stuck {M} (s : Scheme M) (es : List J) (c : Ctx M) :
    deListEntries s es c ≠ .error .stuck := by
  induction es generalizing c with
  | nil => simp [deListEntries]
  | cons j es ih =>
    simp only [deListEntries]
    split
    · exact ih _
    · rename_i e he; intro h; simp only [Except.error.injEq] at h; subst h
      exact deListEntry_ne_stuck _ _ _ he

theorem deEntries_ne_stuck {M} (T : IpText) (s : Scheme M) (es : List (String × J)) (c : Ctx M) :
    deEntries T s es c ≠ .error .stuck := by
  induction es generalizing c with
  | nil => simp [deEntries]
  | cons x es ih =>
    obtain ⟨k, j⟩ := x
    simp only [deEntries]
    split
    · split
      · exact ih _
      · rename_i e he; intro h; simp only [Except.error.injEq] at h; subst h
        unfold deLists at he
        split at he
        · exact deListEntries_ne_stuck _ _ _ he
        · simp at he
    · split
      · simp
      · rename_i i ty hf
        split
        · rename_i e he; intro h; simp only [Except.error.injEq] at h; subst h; exact ns_val T _ _ he
        · rename_i v hv
          split
          · exact ih _
          · simp
          · simp
          · rename_i e hne1 hne2 he
            exfalso
            simp only [setFieldFromName, hf] at he
            split at he
            · simp at he
            · simp only [Except.error.injEq] at he
              exact hne2 he.symm

theorem deCtx_ne_stuck {M} (T : IpText) (s : Scheme M) (j : J) (c : Ctx M) :
    deCtx T s j c ≠ .error .stuck := by
  unfold deCtx
  split
  · exact deEntries_ne_stuck _ _ _ _
  · simp
end WfModel.CtxSerde
