import WfModel.Lemmas.Suffix
/-!
C05 span lemmas, lexer part: every lexer of `Model/Lex.lean` and `Model/Lit.lean` (and the
non-recursive parser pieces of `Model/Parse.lean`) returns a rest that is a suffix of its
input and errors whose span lies inside its input.
-/
namespace WfModel

/-! ## Lex.lean -/

theorem stripPrefix_spec {input p r : Input} (h : stripPrefix input p = some r) :
    p ++ r = input := by
  induction p generalizing input with
  | nil =>
    cases input <;> (simp only [stripPrefix, Option.some.injEq] at h; subst h; rfl)
  | cons c cs ih =>
    cases input with
    | nil => simp only [stripPrefix] at h; cases h
    | cons d ds =>
      simp only [stripPrefix] at h
      split at h
      · next hc => subst hc; rw [List.cons_append, ih h]
      · cases h

theorem stripPrefix_suffix {input p r : Input} (h : stripPrefix input p = some r) :
    r <:+ input := by
  rw [← stripPrefix_spec h]; exact List.suffix_append _ _

theorem stripPrefix_length {input p r : Input} (h : stripPrefix input p = some r) :
    r.length + p.length = input.length := by
  rw [← stripPrefix_spec h, List.length_append]; omega

theorem expect_suffix {input r : Input} {s : String} (h : expect input s = some r) :
    r <:+ input := stripPrefix_suffix h

theorem expect_length {input r : Input} {s : String} (h : expect input s = some r) :
    r.length + s.toList.length = input.length := stripPrefix_length h

theorem skipSpace_suffix (i : Input) : skipSpace i <:+ i := by
  induction i with
  | nil => exact List.suffix_refl _
  | cons c cs ih =>
    simp only [skipSpace]
    split
    · exact ih.trans (List.suffix_cons _ _)
    · exact List.suffix_refl _

theorem spanWhile_eq (p : Char → Bool) (i : Input) :
    (spanWhile p i).1 ++ (spanWhile p i).2 = i := by
  induction i with
  | nil => rfl
  | cons c cs ih =>
    simp only [spanWhile]
    split
    · simp only [List.cons_append, ih]
    · rfl

theorem spanWhile_all (p : Char → Bool) (i : Input) :
    ∀ c ∈ (spanWhile p i).1, p c = true := by
  induction i with
  | nil => intro c hc; cases hc
  | cons c cs ih =>
    simp only [spanWhile]
    split
    · next hp =>
      intro d hd
      simp only [List.mem_cons] at hd
      cases hd with
      | inl h => subst h; exact hp
      | inr h => exact ih d h
    · intro d hd; cases hd

theorem spanWhile_suffix (p : Char → Bool) (i : Input) : (spanWhile p i).2 <:+ i := by
  have h := spanWhile_eq p i
  exact ⟨_, h⟩

theorem takeWhile1_ok {p : Char → Bool} {i a b : Input} (h : takeWhile1 p i = .ok (a, b)) :
    a ++ b = i ∧ a ≠ [] ∧ ∀ c ∈ a, p c = true := by
  unfold takeWhile1 at h
  have he := spanWhile_eq p i
  have ha := spanWhile_all p i
  split at h
  · cases h
  · next x y hne heq =>
    simp only [Except.ok.injEq, Prod.mk.injEq] at h
    obtain ⟨h1, h2⟩ := h
    subst h1; subst h2
    rw [heq] at he ha
    refine ⟨he, ?_, ha⟩
    intro hx
    exact hne hx

theorem takeWhile1_error {p : Char → Bool} {i : Input} {e : LexErr}
    (h : takeWhile1 p i = .error e) : e = { kind := .expectedName, pos := i, len := i.length } := by
  unfold takeWhile1 at h
  split at h
  · simp only [errAt, Except.error.injEq] at h; exact h.symm
  · cases h

theorem takeWhile1_resOk (p : Char → Bool) (i : Input) : ResOk i (takeWhile1 p i) := by
  cases h : takeWhile1 p i with
  | error e => rw [takeWhile1_error h]; exact ⟨List.suffix_refl _, Nat.le_refl _⟩
  | ok v =>
    obtain ⟨a, b⟩ := v
    exact ⟨a, (takeWhile1_ok h).1⟩

theorem take_resOk (i : Input) (n : Nat) : ResOk i (take i n) := by
  unfold take
  split
  · exact errAt_ok _ (List.suffix_refl _)
  · exact List.drop_suffix _ _

theorem take_ok {i a b : Input} {n : Nat} (h : take i n = .ok (a, b)) :
    a ++ b = i ∧ a.length = n := by
  unfold take at h
  split at h
  · cases h
  · next hn =>
    simp only [Except.ok.injEq, Prod.mk.injEq] at h
    obtain ⟨h1, h2⟩ := h
    subst h1; subst h2
    refine ⟨List.take_append_drop _ _, ?_⟩
    rw [List.length_take]; omega

theorem lexEnum_suffix {α} {tbl : List (String × α)} {i r : Input} {a : α}
    (h : lexEnum tbl i = some (a, r)) : r <:+ i := by
  induction tbl with
  | nil => cases h
  | cons hd tl ih =>
    obtain ⟨s, b⟩ := hd
    simp only [lexEnum] at h
    split at h
    · next rest he =>
      simp only [Option.some.injEq, Prod.mk.injEq] at h
      rw [← h.2]; exact expect_suffix he
    · exact ih h

theorem lexEnum_lt {α} {tbl : List (String × α)} {i r : Input} {a : α}
    (hne : ∀ x ∈ tbl, x.1.toList ≠ [])
    (h : lexEnum tbl i = some (a, r)) : r.length < i.length := by
  induction tbl with
  | nil => cases h
  | cons hd tl ih =>
    obtain ⟨s, b⟩ := hd
    simp only [lexEnum] at h
    split at h
    · next rest he =>
      simp only [Option.some.injEq, Prod.mk.injEq] at h
      rw [← h.2]
      have hl := expect_length he
      have : s.toList ≠ [] := hne (s, b) (List.mem_cons_self ..)
      have : s.toList.length ≠ 0 := fun h0 => this (List.eq_nil_of_length_eq_zero h0)
      omega
    · exact ih (fun x hx => hne x (List.mem_cons_of_mem _ hx)) h

/-! ## Lit.lean -/

theorem ResOk.map {α β} {i : Input} {r : LexRes α} (g : α × Input → β × Input)
    (hg : ∀ x, (g x).2 = x.2) (h : ResOk i r) : ResOk i (r.map g) := by
  cases r with
  | error e => exact h
  | ok v =>
    obtain ⟨a, rest⟩ := v
    show (g (a, rest)).2 <:+ i
    rw [hg]; exact h

theorem parseNumber_resOk {full ds rest ss : Input} {radix : Nat}
    (hr : rest <:+ full) (hs : ss <:+ full) : ResOk full (parseNumber ds rest radix ss) := by
  unfold parseNumber
  split
  · exact hr
  · exact errSpan_ok _ hs

theorem getD_expect_suffix (input : Input) (s : String) :
    (expect input s).getD input <:+ input := by
  cases h : expect input s with
  | none => exact List.suffix_refl _
  | some r => exact expect_suffix h

theorem lexInt_resOk (input : Input) : ResOk input (lexInt input) := by
  unfold lexInt
  split
  · next r he =>
    have hs := expect_suffix he
    have h1 := takeWhile1_resOk isAsciiHexDigit r
    split
    · next e h => rw [h] at h1; exact ErrOk.mono h1 hs
    · next ds rest h =>
      rw [h] at h1
      exact parseNumber_resOk (List.IsSuffix.trans h1 hs) hs
  · split
    · have h1 := takeWhile1_resOk isAsciiHexDigit input
      split
      · next e h => rw [h] at h1; exact h1
      · next ds rest h =>
        rw [h] at h1
        exact parseNumber_resOk h1 (List.suffix_refl _)
    · have hs := getD_expect_suffix input "-"
      have h1 := takeWhile1_resOk isAsciiHexDigit ((expect input "-").getD input)
      dsimp only
      split
      · next e h => rw [h] at h1; exact ErrOk.mono h1 hs
      · next ds rest h =>
        rw [h] at h1
        exact parseNumber_resOk (List.IsSuffix.trans h1 hs) (List.suffix_refl _)

theorem lexIntRange_resOk (input : Input) : ResOk input (lexIntRange input) := by
  unfold lexIntRange
  have h1 := lexInt_resOk input
  split
  · next e h => rw [h] at h1; exact h1
  · next first r h =>
    rw [h] at h1
    have h1 : r <:+ input := h1
    split
    · next r2 he =>
      have h2 := (lexInt_resOk r2).mono ((expect_suffix he).trans h1)
      split
      · next e h' => rw [h'] at h2; exact h2
      · next last r3 h' =>
        rw [h'] at h2
        split
        · exact errSpan_ok _ (List.suffix_refl _)
        · exact h2
    · exact h1

theorem fixedByte_resOk (input : Input) (n radix : Nat) : ResOk input (fixedByte input n radix) := by
  unfold fixedByte
  have h1 := take_resOk input n
  split
  · next e h => rw [h] at h1; exact h1
  · next ds rest h =>
    rw [h] at h1
    split
    · split
      · exact h1
      · exact errSpan_ok _ (List.suffix_refl _)
    · exact errSpan_ok _ (List.suffix_refl _)

theorem lexQuotedGo_resOk {full : Input} (f : Nat) {inp : Input} (acc : List UInt8)
    (hs : inp <:+ full) : ResOk full (lexQuotedGo full f inp acc) := by
  induction f generalizing inp acc with
  | zero => unfold lexQuotedGo; exact errAt_ok _ (List.suffix_refl _)
  | succ f ih =>
    unfold lexQuotedGo
    split
    · exact errAt_ok _ (List.suffix_refl _)
    · exact errAt_ok _ (List.suffix_refl _)
    · next f' r heq =>
      cases heq
      have hr : r <:+ full := (List.suffix_cons _ _).trans hs
      split
      · exact errAt_ok _ (List.suffix_refl _)
      · next c r2 =>
        have hr2 : r2 <:+ full := (List.suffix_cons _ _).trans hr
        split
        · exact ih _ hr2
        · split
          · have h1 := (fixedByte_resOk r2 2 16).mono hr2
            split
            · next e h => rw [h] at h1; exact h1
            · next b r3 h => rw [h] at h1; exact ih _ h1
          · split
            · have h1 := (fixedByte_resOk (c :: r2) 3 8).mono hr
              split
              · next e h => rw [h] at h1; exact h1
              · next b r3 h => rw [h] at h1; exact ih _ h1
            · exact ⟨hr, Nat.succ_le_succ (Nat.zero_le _)⟩
    · next f' c r _ heq =>
      cases heq
      have hr : r <:+ full := (List.suffix_cons _ _).trans hs
      split
      · exact hr
      · exact ih _ hr

theorem lexQuoted_resOk (input : Input) : ResOk input (lexQuoted input) :=
  lexQuotedGo_resOk _ _ (List.suffix_refl _)

theorem rawScan_suffix {k : Nat} {i : Input} {acc s : List Char} {rest : Input}
    (h : rawScan k i acc = some (s, rest)) : rest <:+ i := by
  induction i generalizing acc with
  | nil => simp only [rawScan] at h; cases h
  | cons c r ih =>
    simp only [rawScan] at h
    split at h
    · simp only [Option.some.injEq, Prod.mk.injEq] at h
      rw [← h.2]
      exact (List.drop_suffix _ _).trans (List.suffix_cons _ _)
    · exact (ih h).trans (List.suffix_cons _ _)

theorem lexRawStr_resOk (input : Input) : ResOk input (lexRawStr input) := by
  unfold lexRawStr
  dsimp only
  split
  · exact errAt_ok _ (List.suffix_refl _)
  · split
    · next body heq =>
      have hb : body <:+ input := by
        have := List.drop_suffix (countHashes input) input
        rw [heq] at this
        exact (List.suffix_cons _ _).trans this
      split
      · next s rest h => exact (rawScan_suffix h).trans hb
      · exact errAt_ok _ (List.suffix_refl _)
    · exact errAt_ok _ (List.drop_suffix _ _)

theorem lexByteSep_suffix {i r : Input} (h : lexByteSep i = some r) : r <:+ i := by
  unfold lexByteSep at h
  split at h
  · split at h
    · simp only [Option.some.injEq] at h; subst h; exact List.suffix_cons _ _
    · cases h
  · cases h

theorem lexByteSepE_resOk (input : Input) : ResOk input (lexByteSepE input) := by
  unfold lexByteSepE
  split
  · exact errAt_ok _ (List.suffix_refl _)
  · split
    · exact List.suffix_cons _ _
    · exact ⟨List.suffix_refl _, Nat.succ_le_succ (Nat.zero_le _)⟩

theorem lexByteStringGo_resOk (f : Nat) (input : Input) (acc : Bytes) :
    ResOk input (lexByteStringGo f input acc) := by
  induction f generalizing input acc with
  | zero => unfold lexByteStringGo; exact errAt_ok _ (List.suffix_refl _)
  | succ f ih =>
    unfold lexByteStringGo
    have h1 := fixedByte_resOk input 2 16
    split
    · next e h => rw [h] at h1; exact h1
    · next b r h =>
      rw [h] at h1
      have h1 : r <:+ input := h1
      split
      · next r2 hsep => exact (ih r2 _).mono ((lexByteSep_suffix hsep).trans h1)
      · exact h1

theorem lexByteString_resOk (input : Input) : ResOk input (lexByteString input) := by
  unfold lexByteString
  have h1 := fixedByte_resOk input 2 16
  split
  · next e h => rw [h] at h1; exact h1
  · next b r h =>
    rw [h] at h1
    have h1 : r <:+ input := h1
    have h2 := (lexByteSepE_resOk r).mono h1
    split
    · next e h' => rw [h'] at h2; exact h2
    · next u r2 h' =>
      rw [h'] at h2
      exact (lexByteStringGo_resOk _ r2 _).mono h2

theorem lexQuotedOrRaw_resOk (input : Input) : ResOk input (lexQuotedOrRaw input) := by
  unfold lexQuotedOrRaw
  split
  · next r =>
    exact ((lexQuoted_resOk r).mono (List.suffix_cons _ _)).map _ (fun ⟨_, _⟩ => rfl)
  · next r =>
    exact ((lexRawStr_resOk r).mono (List.suffix_cons _ _)).map _ (fun ⟨⟨_, _⟩, _⟩ => rfl)
  · exact errAt_ok _ (List.suffix_refl _)
  · exact errAt_ok _ (List.suffix_refl _)

theorem lexBytes_resOk (input : Input) : ResOk input (lexBytes input) := by
  unfold lexBytes
  split
  · exact lexQuotedOrRaw_resOk _
  · exact lexQuotedOrRaw_resOk _
  · exact errAt_ok _ (List.suffix_refl _)
  · exact (lexByteString_resOk input).map _ (fun ⟨_, _⟩ => rfl)

theorem lexIpAddr_resOk (input : Input) : ResOk input (lexIpAddr input) := by
  unfold lexIpAddr
  have h1 := takeWhile1_resOk isIpChar input
  split
  · next e h => rw [h] at h1; exact h1
  · next chunk rest h =>
    rw [h] at h1
    split
    · exact h1
    · exact errSpan_ok _ (List.suffix_refl _)

theorem lexIpRange_resOk (input : Input) : ResOk input (lexIpRange input) := by
  unfold lexIpRange
  have h1 := takeWhile1_resOk isIpChar input
  split
  · next e h => rw [h] at h1; exact h1
  · next chunk rest h =>
    rw [h] at h1
    have h1 : rest <:+ input := h1
    split
    · split
      · split
        · exact h1
        · exact errSpan_ok _ (List.suffix_refl _)
      · split
        · exact h1
        · exact errSpan_ok _ (List.suffix_refl _)
      · exact errSpan_ok _ (List.suffix_refl _)
      · exact errSpan_ok _ (List.suffix_refl _)
    · split
      · exact h1
      · exact errSpan_ok _ (List.suffix_refl _)

theorem lexListName_resOk (input : Input) : ResOk input (lexListName input) := by
  unfold lexListName
  split
  · exact errAt_ok _ (List.suffix_refl _)
  · next r he =>
    have hr := expect_suffix he
    have hsp := spanWhile_suffix isListNameChar r
    split
    · next name rest heq =>
      rw [heq] at hsp
      split
      · exact errAt_ok _ hr
      · split
        · exact errAt_ok _ hr
        · exact List.IsSuffix.trans hsp hr

theorem lexFieldIndex_resOk (input : Input) : ResOk input (lexFieldIndex input) := by
  unfold lexFieldIndex
  split
  · next r he => exact expect_suffix he
  · split
    · split
      · next e h => exact (lexBytes_resOk _).of_error h
      · next b rest h =>
        split
        · exact (lexBytes_resOk _).of_ok h
        · exact errAt_ok _ (List.suffix_refl _)
    · have h1 := lexInt_resOk input
      split
      · exact errAt_ok _ (List.suffix_refl _)
      · next i rest h =>
        rw [h] at h1
        split
        · exact h1
        · exact errAt_ok _ (List.suffix_refl _)

theorem lexBraceGo_resOk {α} {item : Input → LexRes α} (hitem : ∀ i, ResOk i (item i))
    (f : Nat) (input : Input) (acc : List α) : ResOk input (lexBraceGo item f input acc) := by
  induction f generalizing input acc with
  | zero => unfold lexBraceGo; exact errAt_ok _ (List.suffix_refl _)
  | succ f ih =>
    unfold lexBraceGo
    dsimp only
    have hsp := skipSpace_suffix input
    split
    · next r he => exact (expect_suffix he).trans hsp
    · have h1 := (hitem (skipSpace input)).mono hsp
      split
      · next e h => rw [h] at h1; exact h1
      · next a r h =>
        rw [h] at h1
        exact (ih r _).mono h1

theorem lexBrace_resOk {α} {item : Input → LexRes α} (hitem : ∀ i, ResOk i (item i))
    (input : Input) : ResOk input (lexBrace item input) := by
  unfold lexBrace
  split
  · exact errAt_ok _ (List.suffix_refl _)
  · next r he => exact (lexBraceGo_resOk hitem _ r _).mono (expect_suffix he)

theorem lexRhsVal_resOk {ty : Ty} {i : Input} {r : LexRes RhsVal}
    (h : lexRhsVal ty i = some r) : ResOk i r := by
  unfold lexRhsVal at h
  split at h
  · simp only [Option.some.injEq] at h; subst h
    exact (lexInt_resOk i).map _ (fun ⟨_, _⟩ => rfl)
  · simp only [Option.some.injEq] at h; subst h
    exact (lexIpAddr_resOk i).map _ (fun ⟨_, _⟩ => rfl)
  · simp only [Option.some.injEq] at h; subst h
    exact (lexBytes_resOk i).map _ (fun ⟨_, _⟩ => rfl)
  · cases h

theorem lexRhsVals_resOk {ty : Ty} {i : Input} {r : LexRes RhsVals}
    (h : lexRhsVals ty i = some r) : ResOk i r := by
  unfold lexRhsVals at h
  split at h
  · simp only [Option.some.injEq] at h; subst h
    exact (lexBrace_resOk lexIntRange_resOk i).map _ (fun ⟨_, _⟩ => rfl)
  · simp only [Option.some.injEq] at h; subst h
    exact (lexBrace_resOk lexIpRange_resOk i).map _ (fun ⟨_, _⟩ => rfl)
  · simp only [Option.some.injEq] at h; subst h
    exact (lexBrace_resOk lexBytes_resOk i).map _ (fun ⟨_, _⟩ => rfl)
  · cases h

/-! ## strict progress (for fuel adequacy) -/

theorem exceptMap_ok {α β} {r : LexRes α} {g : α × Input → β × Input}
    (hg : ∀ x, (g x).2 = x.2) {b : β} {rest : Input}
    (h : r.map g = .ok (b, rest)) : ∃ a, r = .ok (a, rest) := by
  cases r with
  | error e => cases h
  | ok v =>
    obtain ⟨a, r'⟩ := v
    simp only [Except.map, Except.ok.injEq] at h
    have h2 := hg (a, r')
    rw [h] at h2
    have h3 : rest = r' := h2
    subst h3
    exact ⟨a, rfl⟩

theorem exceptMap_error {α β} {r : LexRes α} {g : α × Input → β × Input} {e : LexErr}
    (h : r.map g = .error e) : r = .error e := by
  cases r with
  | error e' => simp only [Except.map, Except.error.injEq] at h; rw [h]
  | ok v => cases h

theorem takeWhile1_lt {p : Char → Bool} {i a b : Input} (h : takeWhile1 p i = .ok (a, b)) :
    b.length < i.length := by
  obtain ⟨he, hne, _⟩ := takeWhile1_ok h
  rw [← he, List.length_append]
  have : a.length ≠ 0 := fun h0 => hne (List.eq_nil_of_length_eq_zero h0)
  omega

theorem parseNumber_ok {ds rest ss r : Input} {radix : Nat} {v : Int}
    (h : parseNumber ds rest radix ss = .ok (v, r)) : r = rest := by
  unfold parseNumber at h
  split at h
  · simp only [Except.ok.injEq, Prod.mk.injEq] at h; exact h.2.symm
  · cases h

theorem lexInt_lt {i rest : Input} {v : Int} (h : lexInt i = .ok (v, rest)) :
    rest.length < i.length := by
  unfold lexInt at h
  split at h
  · next r he =>
    have hl := (expect_suffix he).length_le
    split at h
    · cases h
    · next ds rest' ht =>
      have h2 := parseNumber_ok h; subst h2
      have := takeWhile1_lt ht; omega
  · split at h
    · split at h
      · cases h
      · next ds rest' ht =>
        have h2 := parseNumber_ok h; subst h2
        exact takeWhile1_lt ht
    · dsimp only at h
      have hl := (getD_expect_suffix i "-").length_le
      split at h
      · cases h
      · next ds rest' ht =>
        have h2 := parseNumber_ok h; subst h2
        have := takeWhile1_lt ht; omega

theorem lexIntRange_lt {i rest : Input} {v : Int × Int} (h : lexIntRange i = .ok (v, rest)) :
    rest.length < i.length := by
  unfold lexIntRange at h
  split at h
  · cases h
  · next first r h1 =>
    have hl1 := lexInt_lt h1
    split at h
    · next r2 he =>
      have hl2 := (expect_suffix he).length_le
      split at h
      · cases h
      · next last r3 h2 =>
        have hl3 := lexInt_lt h2
        split at h
        · cases h
        · simp only [Except.ok.injEq, Prod.mk.injEq] at h
          rw [← h.2]; omega
    · simp only [Except.ok.injEq, Prod.mk.injEq] at h
      rw [← h.2]; exact hl1

theorem fixedByte_ok {i rest : Input} {n radix : Nat} {b : UInt8}
    (h : fixedByte i n radix = .ok (b, rest)) : rest.length + n = i.length := by
  unfold fixedByte at h
  split at h
  · cases h
  · next ds rest' ht =>
    obtain ⟨he, hn⟩ := take_ok ht
    have hlen : rest'.length + n = i.length := by
      rw [← he, List.length_append]; omega
    split at h
    · split at h
      · simp only [Except.ok.injEq, Prod.mk.injEq] at h
        rw [← h.2]; exact hlen
      · cases h
    · cases h

theorem fixedByte_lt {i rest : Input} {n radix : Nat} {b : UInt8} (hn : 0 < n)
    (h : fixedByte i n radix = .ok (b, rest)) : rest.length < i.length := by
  have := fixedByte_ok h; omega

theorem lexQuotedOrRaw_lt {i rest : Input} {v : BytesLit} (h : lexQuotedOrRaw i = .ok (v, rest)) :
    rest.length < i.length := by
  unfold lexQuotedOrRaw at h
  split at h
  · next r =>
    obtain ⟨a, ha⟩ := exceptMap_ok (fun ⟨_, _⟩ => rfl) h
    have := ((lexQuoted_resOk r).of_ok ha).length_le
    simp only [List.length_cons]; omega
  · next r =>
    obtain ⟨a, ha⟩ := exceptMap_ok (fun ⟨⟨_, _⟩, _⟩ => rfl) h
    have := ((lexRawStr_resOk r).of_ok ha).length_le
    simp only [List.length_cons]; omega
  · cases h
  · cases h

theorem lexByteString_lt {i rest : Input} {v : Bytes} (h : lexByteString i = .ok (v, rest)) :
    rest.length < i.length := by
  unfold lexByteString at h
  split at h
  · cases h
  · next b r hb =>
    have h1 := fixedByte_ok hb
    split at h
    · cases h
    · next u r2 hs =>
      have h2 := ((lexByteSepE_resOk r).of_ok hs).length_le
      have h3 := ((lexByteStringGo_resOk _ r2 _).of_ok h).length_le
      omega

theorem lexBytes_lt {i rest : Input} {v : BytesLit} (h : lexBytes i = .ok (v, rest)) :
    rest.length < i.length := by
  unfold lexBytes at h
  split at h
  · exact lexQuotedOrRaw_lt h
  · exact lexQuotedOrRaw_lt h
  · cases h
  · obtain ⟨a, ha⟩ := exceptMap_ok (fun ⟨_, _⟩ => rfl) h
    exact lexByteString_lt ha

theorem lexIpAddr_lt {i rest : Input} {v : Ip} (h : lexIpAddr i = .ok (v, rest)) :
    rest.length < i.length := by
  unfold lexIpAddr at h
  split at h
  · cases h
  · next chunk rest' ht =>
    have hl := takeWhile1_lt ht
    split at h
    · simp only [Except.ok.injEq, Prod.mk.injEq] at h
      rw [← h.2]; exact hl
    · cases h

theorem lexIpRange_lt {i rest : Input} {v : IpRangeLit} (h : lexIpRange i = .ok (v, rest)) :
    rest.length < i.length := by
  unfold lexIpRange at h
  split at h
  · cases h
  · next chunk rest' ht =>
    have hl := takeWhile1_lt ht
    have key : ∀ {x : IpRangeLit}, (Except.ok (x, rest') : LexRes IpRangeLit) = .ok (v, rest) →
        rest.length < i.length := by
      intro x hx
      simp only [Except.ok.injEq, Prod.mk.injEq] at hx
      rw [← hx.2]; exact hl
    split at h
    · split at h
      · split at h
        · exact key h
        · cases h
      · split at h
        · exact key h
        · cases h
      · cases h
      · cases h
    · split at h
      · exact key h
      · cases h

/-! ## fuel adequacy: `outOfFuel` is never returned with the fuel the wrappers give -/

/-- the result is not the model-only `outOfFuel` error -/
def NoFuel {α} (r : Except LexErr α) : Prop :=
  match r with
  | .ok _ => True
  | .error e => e.kind ≠ .outOfFuel

theorem noFuel_ok {α} (a : α) : NoFuel (.ok a : Except LexErr α) := trivial

theorem noFuel_error {α} (e : LexErr) :
    NoFuel (.error e : Except LexErr α) ↔ e.kind ≠ .outOfFuel := Iff.rfl

theorem NoFuel.of_error {α} {r : Except LexErr α} {e : LexErr} (h : NoFuel r)
    (he : r = .error e) : e.kind ≠ .outOfFuel := by subst he; exact h

theorem NoFuel.intro {α} {r : Except LexErr α}
    (h : ∀ e, r = .error e → e.kind ≠ .outOfFuel) : NoFuel r := by
  cases r with
  | ok a => trivial
  | error e => exact h e rfl

theorem noFuel_errAt {α} {k : ErrKind} (pos : Input) (hk : k ≠ .outOfFuel) :
    NoFuel (errAt k pos : Except LexErr α) := hk

theorem noFuel_errSpan {α} {k : ErrKind} (a b : Input) (hk : k ≠ .outOfFuel) :
    NoFuel (errSpan k a b : Except LexErr α) := hk

theorem NoFuel.map {α β} {r : Except LexErr α} (g : α → β) (h : NoFuel r) : NoFuel (r.map g) := by
  cases r with
  | error e => exact h
  | ok v => trivial

theorem takeWhile1_noFuel (p : Char → Bool) (i : Input) : NoFuel (takeWhile1 p i) := by
  unfold takeWhile1
  split
  · exact noFuel_errAt _ (by decide)
  · trivial

theorem take_noFuel (i : Input) (n : Nat) : NoFuel (take i n) := by
  unfold take
  split
  · exact noFuel_errAt _ (by decide)
  · trivial

theorem parseNumber_noFuel (ds rest ss : Input) (radix : Nat) :
    NoFuel (parseNumber ds rest radix ss) := by
  unfold parseNumber
  split
  · trivial
  · exact noFuel_errSpan _ _ (by decide)

theorem lexInt_noFuel (input : Input) : NoFuel (lexInt input) := by
  unfold lexInt
  split
  · next r he =>
    have h1 := takeWhile1_noFuel isAsciiHexDigit r
    split
    · next e h => rw [h] at h1; exact h1
    · exact parseNumber_noFuel ..
  · split
    · have h1 := takeWhile1_noFuel isAsciiHexDigit input
      split
      · next e h => rw [h] at h1; exact h1
      · exact parseNumber_noFuel ..
    · have h1 := takeWhile1_noFuel isAsciiHexDigit ((expect input "-").getD input)
      dsimp only
      split
      · next e h => rw [h] at h1; exact h1
      · exact parseNumber_noFuel ..

theorem lexIntRange_noFuel (input : Input) : NoFuel (lexIntRange input) := by
  unfold lexIntRange
  have h1 := lexInt_noFuel input
  split
  · next e h => rw [h] at h1; exact h1
  · split
    · next r2 he =>
      have h2 := lexInt_noFuel r2
      split
      · next e h' => rw [h'] at h2; exact h2
      · split
        · exact noFuel_errSpan _ _ (by decide)
        · trivial
    · trivial

theorem fixedByte_noFuel (input : Input) (n radix : Nat) : NoFuel (fixedByte input n radix) := by
  unfold fixedByte
  have h1 := take_noFuel input n
  split
  · next e h => rw [h] at h1; exact h1
  · split
    · split
      · trivial
      · exact noFuel_errSpan _ _ (by decide)
    · exact noFuel_errSpan _ _ (by decide)

theorem lexQuotedGo_noFuel (full : Input) (f : Nat) (inp : Input) (acc : List UInt8)
    (hf : inp.length + 1 ≤ f) : NoFuel (lexQuotedGo full f inp acc) := by
  induction f generalizing inp acc with
  | zero => omega
  | succ f ih =>
    unfold lexQuotedGo
    split
    · next heq => cases heq
    · exact noFuel_errAt _ (by decide)
    · next f' r heq =>
      cases heq
      simp only [List.length_cons] at hf
      split
      · exact noFuel_errAt _ (by decide)
      · next c r2 =>
        simp only [List.length_cons] at hf
        split
        · exact ih _ _ (by omega)
        · split
          · have h1 := fixedByte_noFuel r2 2 16
            split
            · next e h => rw [h] at h1; exact h1
            · next b r3 h =>
              have := fixedByte_ok h
              exact ih _ _ (by omega)
          · split
            · have h1 := fixedByte_noFuel (c :: r2) 3 8
              split
              · next e h => rw [h] at h1; exact h1
              · next b r3 h =>
                have := fixedByte_ok h
                simp only [List.length_cons] at this
                exact ih _ _ (by omega)
            · exact (show ErrKind.invalidCharacterEscape ≠ ErrKind.outOfFuel by decide)
    · next f' c r _ heq =>
      cases heq
      simp only [List.length_cons] at hf
      split
      · trivial
      · exact ih _ _ (by omega)

theorem lexQuoted_noFuel (input : Input) : NoFuel (lexQuoted input) :=
  lexQuotedGo_noFuel _ _ _ _ (Nat.le_refl _)

theorem lexRawStr_noFuel (input : Input) : NoFuel (lexRawStr input) := by
  unfold lexRawStr
  dsimp only
  split
  · exact noFuel_errAt _ (by decide)
  · split
    · split
      · trivial
      · exact noFuel_errAt _ (by decide)
    · exact noFuel_errAt _ (by decide)

theorem lexByteSepE_noFuel (input : Input) : NoFuel (lexByteSepE input) := by
  unfold lexByteSepE
  split
  · exact noFuel_errAt _ (by decide)
  · split
    · trivial
    · exact (show ErrKind.expectedName ≠ ErrKind.outOfFuel by decide)

theorem lexByteStringGo_noFuel (f : Nat) (input : Input) (acc : Bytes)
    (hf : input.length + 1 ≤ f) : NoFuel (lexByteStringGo f input acc) := by
  induction f generalizing input acc with
  | zero => omega
  | succ f ih =>
    unfold lexByteStringGo
    have h1 := fixedByte_noFuel input 2 16
    split
    · next e h => rw [h] at h1; exact h1
    · next b r h =>
      have hl := fixedByte_ok h
      split
      · next r2 hsep =>
        have := (lexByteSep_suffix hsep).length_le
        exact ih _ _ (by omega)
      · trivial

theorem lexByteString_noFuel (input : Input) : NoFuel (lexByteString input) := by
  unfold lexByteString
  have h1 := fixedByte_noFuel input 2 16
  split
  · next e h => rw [h] at h1; exact h1
  · next b r h =>
    have h2 := lexByteSepE_noFuel r
    split
    · next e h' => rw [h'] at h2; exact h2
    · exact lexByteStringGo_noFuel _ _ _ (Nat.le_refl _)

theorem lexQuotedOrRaw_noFuel (input : Input) : NoFuel (lexQuotedOrRaw input) := by
  unfold lexQuotedOrRaw
  split
  · exact (lexQuoted_noFuel _).map _
  · exact (lexRawStr_noFuel _).map _
  · exact noFuel_errAt _ (by decide)
  · exact noFuel_errAt _ (by decide)

theorem lexBytes_noFuel (input : Input) : NoFuel (lexBytes input) := by
  unfold lexBytes
  split
  · exact lexQuotedOrRaw_noFuel _
  · exact lexQuotedOrRaw_noFuel _
  · exact noFuel_errAt _ (by decide)
  · exact (lexByteString_noFuel _).map _

theorem lexIpAddr_noFuel (input : Input) : NoFuel (lexIpAddr input) := by
  unfold lexIpAddr
  have h1 := takeWhile1_noFuel isIpChar input
  split
  · next e h => rw [h] at h1; exact h1
  · split
    · trivial
    · exact noFuel_errSpan _ _ (by decide)

theorem lexIpRange_noFuel (input : Input) : NoFuel (lexIpRange input) := by
  unfold lexIpRange
  have h1 := takeWhile1_noFuel isIpChar input
  split
  · next e h => rw [h] at h1; exact h1
  · split
    · split
      · split
        · trivial
        · exact noFuel_errSpan _ _ (by decide)
      · split
        · trivial
        · exact noFuel_errSpan _ _ (by decide)
      · exact noFuel_errSpan _ _ (by decide)
      · exact noFuel_errSpan _ _ (by decide)
    · split
      · trivial
      · exact noFuel_errSpan _ _ (by decide)

theorem lexListName_noFuel (input : Input) : NoFuel (lexListName input) := by
  unfold lexListName
  split
  · exact noFuel_errAt _ (by decide)
  · split
    · split
      · exact noFuel_errAt _ (by decide)
      · split
        · exact noFuel_errAt _ (by decide)
        · trivial

theorem lexFieldIndex_noFuel (input : Input) : NoFuel (lexFieldIndex input) := by
  unfold lexFieldIndex
  split
  · trivial
  · split
    · split
      · next e h => exact (lexBytes_noFuel _).of_error h
      · split
        · trivial
        · exact noFuel_errAt _ (by decide)
    · split
      · exact noFuel_errAt _ (by decide)
      · split
        · trivial
        · exact noFuel_errAt _ (by decide)

theorem lexBraceGo_noFuel {α} {item : Input → LexRes α}
    (hlt : ∀ i a r, item i = .ok (a, r) → r.length < i.length)
    (hnf : ∀ i, NoFuel (item i))
    (f : Nat) (input : Input) (acc : List α) (hf : input.length + 1 ≤ f) :
    NoFuel (lexBraceGo item f input acc) := by
  induction f generalizing input acc with
  | zero => omega
  | succ f ih =>
    unfold lexBraceGo
    dsimp only
    have hsp := (skipSpace_suffix input).length_le
    split
    · trivial
    · have h1 := hnf (skipSpace input)
      split
      · next e h => rw [h] at h1; exact h1
      · next a r h =>
        have := hlt _ _ _ h
        exact ih _ _ (by omega)

theorem lexBrace_noFuel {α} {item : Input → LexRes α}
    (hlt : ∀ i a r, item i = .ok (a, r) → r.length < i.length)
    (hnf : ∀ i, NoFuel (item i)) (input : Input) : NoFuel (lexBrace item input) := by
  unfold lexBrace
  split
  · exact noFuel_errAt _ (by decide)
  · exact lexBraceGo_noFuel hlt hnf _ _ _ (by omega)

theorem lexRhsVal_noFuel {ty : Ty} {i : Input} {r : LexRes RhsVal}
    (h : lexRhsVal ty i = some r) : NoFuel r := by
  unfold lexRhsVal at h
  split at h
  · simp only [Option.some.injEq] at h; subst h; exact (lexInt_noFuel i).map _
  · simp only [Option.some.injEq] at h; subst h; exact (lexIpAddr_noFuel i).map _
  · simp only [Option.some.injEq] at h; subst h; exact (lexBytes_noFuel i).map _
  · cases h

theorem lexRhsVals_noFuel {ty : Ty} {i : Input} {r : LexRes RhsVals}
    (h : lexRhsVals ty i = some r) : NoFuel r := by
  unfold lexRhsVals at h
  split at h
  · simp only [Option.some.injEq] at h; subst h
    exact (lexBrace_noFuel (fun _ _ _ => lexIntRange_lt) lexIntRange_noFuel i).map _
  · simp only [Option.some.injEq] at h; subst h
    exact (lexBrace_noFuel (fun _ _ _ => lexIpRange_lt) lexIpRange_noFuel i).map _
  · simp only [Option.some.injEq] at h; subst h
    exact (lexBrace_noFuel (fun _ _ _ => lexBytes_lt) lexBytes_noFuel i).map _
  · cases h

/-! ### the same, in the `result = .error e → e.kind ≠ .outOfFuel` form -/

theorem lexQuotedGo_fuel {full inp : Input} {f : Nat} {acc : List UInt8} {e : LexErr}
    (hf : f ≥ inp.length + 1) (h : lexQuotedGo full f inp acc = .error e) :
    e.kind ≠ .outOfFuel := (lexQuotedGo_noFuel full f inp acc hf).of_error h

theorem lexByteStringGo_fuel {input : Input} {f : Nat} {acc : Bytes} {e : LexErr}
    (hf : f ≥ input.length + 1) (h : lexByteStringGo f input acc = .error e) :
    e.kind ≠ .outOfFuel := (lexByteStringGo_noFuel f input acc hf).of_error h

theorem lexBraceGo_fuel {α} {item : Input → LexRes α}
    (hlt : ∀ i a r, item i = .ok (a, r) → r.length < i.length)
    (hnf : ∀ i e, item i = .error e → e.kind ≠ .outOfFuel)
    {input : Input} {f : Nat} {acc : List α} {e : LexErr}
    (hf : f ≥ input.length + 1) (h : lexBraceGo item f input acc = .error e) :
    e.kind ≠ .outOfFuel :=
  (lexBraceGo_noFuel hlt (fun i => NoFuel.intro (hnf i)) f input acc hf).of_error h

end WfModel
