import WfModel.Lemmas.Atoms.Ident
import WfModel.Lemmas.Atoms.Lit
import WfModel.Lemmas.Atoms.Sk

/-!
# Concrete atoms: `GoodAtom` for real comparison expressions

`CAtom` is a syntax of concrete atoms over a scheme — a bare boolean field, or
`field ws₁ op ws₂ literal` with any of the six ordering operators in either spelling, any layout
on both sides of the operator, and a literal of `Lit` (integer dec/hex/oct, quoted or raw byte
string, IPv4 dotted quad, full IPv6). `CAtom.txt` is the character string, `CAtom.node` the
intended AST node, `CAtom.ok` the decidable side conditions. `goodAtom` proves the hypothesis
`GoodAtom` of `parse_render_logical` for every atom meeting them. Helper lemmas only; the
property statements are in `Props/C01Atoms.lean`.
-/
namespace WfModel.Atoms

open WfModel WfModel.Render WfModel.C07L

/-! ### syntax -/

/-- concrete atoms -/
inductive CAtom
  /-- a bare field of type `Bool` (`ComparisonOpExpr::IsTrue`) -/
  | boolField (name : List Char)
  /-- `name ws₁ op ws₂ lit`; `sym` chooses the symbolic spelling of `op` -/
  | cmp (name : List Char) (ws₁ : Input) (op : OrdOp) (sym : Bool) (ws₂ : Input) (lit : Lit)
deriving DecidableEq, Repr

/-- `name ws₁ op ws₂ v` with the integer written in `form` (decimal by default) -/
abbrev CAtom.intCmp (name : List Char) (ws₁ : Input) (op : OrdOp) (sym : Bool) (ws₂ : Input)
    (v : Int) (form : IntForm := .dec) : CAtom := .cmp name ws₁ op sym ws₂ (.int form v)

/-- `name ws₁ op ws₂ "…"` with the quoted rendering of C06 (`renderQuoted`: per byte `\xHH` in
either case, `\OOO`, or the character itself) -/
abbrev CAtom.bytesCmp (name : List Char) (ws₁ : Input) (op : OrdOp) (sym : Bool) (ws₂ : Input)
    (items : List (Esc × UInt8)) : CAtom := .cmp name ws₁ op sym ws₂ (.quoted items)

/-- `name ws₁ op ws₂ r#"…"#` -/
abbrev CAtom.rawCmp (name : List Char) (ws₁ : Input) (op : OrdOp) (sym : Bool) (ws₂ : Input)
    (k : Nat) (body : List Char) : CAtom := .cmp name ws₁ op sym ws₂ (.raw k body)

/-- `name ws₁ op ws₂ a.b.c.d` -/
abbrev CAtom.ipCmp (name : List Char) (ws₁ : Input) (op : OrdOp) (sym : Bool) (ws₂ : Input)
    (a : Nat) : CAtom := .cmp name ws₁ op sym ws₂ (.ip4 a)

/-- `name ws₁ op ws₂ g:g:g:g:g:g:g:g` -/
abbrev CAtom.ip6Cmp (name : List Char) (ws₁ : Input) (op : OrdOp) (sym : Bool) (ws₂ : Input)
    (a : Nat) : CAtom := .cmp name ws₁ op sym ws₂ (.ip6 a)

/-- **the text**: field name ++ ws₁ ++ operator spelling ++ ws₂ ++ literal rendering -/
def CAtom.txt : CAtom → List Char
  | .boolField name => name
  | .cmp name ws₁ op sym ws₂ lit => name ++ (ws₁ ++ ((ordAlias op sym).toList ++ (ws₂ ++ lit.txt)))

/-- index of the field called `name` (0 when there is none: excluded by `CAtom.ok`) -/
def fieldIx (s : Scheme) (name : List Char) : Nat :=
  match s.get name with
  | some (.field i) => i
  | _ => 0

/-- **the intended AST node** -/
def CAtom.node (s : Scheme) : CAtom → LExpr
  | .boolField name => .comparison (.field (fieldIx s name) []) .isTrue
  | .cmp name _ op _ _ lit => .comparison (.field (fieldIx s name) []) (.ordering op lit.val)

/-- the scheme has a field of exactly that name, of type `t` -/
def fieldHasTy (s : Scheme) (name : List Char) (t : Ty) : Bool :=
  match s.get name with
  | some (.field i) => s.fieldTy i == t
  | _ => false

/-- a valid identifier other than the word `not` itself. A REGISTERED name that merely begins
with `not` (`notes`, `not_b`) is fine: `LogicalExpr::lex_unary_op` does not take the operator
when the glued characters complete a registered name. The bare word `not` always is the
operator (nothing is glued to it), so a field literally called `not` cannot be written at the
start of an operand. -/
def nameGood (name : List Char) : Bool := nameOk name && name != "not".toList

/-- **side conditions** (decidable).
* `boolField`: valid name, not exactly `not`, not exactly `any`/`all` (those followed by
  ` (` would be a quantifier call), a `Bool` field of the scheme;
* `cmp`: valid name, not exactly `not`; a field of the literal's type; `ws₁`, `ws₂` are
  layout; a word spelling needs `ws₁ ≠ []` (`ieq 5` is the identifier `ieq`), a symbol does not;
  the literal's own conditions (`Lit.ok`). -/
def CAtom.ok (s : Scheme) : CAtom → Bool
  | .boolField name =>
    nameGood name && name != "any".toList && name != "all".toList && fieldHasTy s name .bool
  | .cmp name ws₁ _ sym ws₂ lit =>
    nameGood name && fieldHasTy s name lit.ty && Layout ws₁ && Layout ws₂ &&
      (sym || !ws₁.isEmpty) && lit.ok

/-- the `Atoms` structure `parse_render_logical` is instantiated with -/
def atoms (s : Scheme) : Atoms CAtom := { txt := CAtom.txt, node := CAtom.node s }

/-! ### lemmas -/

theorem CAtom.ok_boolField {s : Scheme} {name : List Char} (hname : nameOk name = true)
    (hnot : name ≠ "not".toList) (hany : name ≠ "any".toList)
    (hall : name ≠ "all".toList) (hfield : fieldHasTy s name .bool = true) :
    (CAtom.boolField name).ok s = true := by
  have e0 : (name != "not".toList) = true := bne_iff_ne.mpr hnot
  have e1 : (name != "any".toList) = true := bne_iff_ne.mpr hany
  have e2 : (name != "all".toList) = true := bne_iff_ne.mpr hall
  simp only [CAtom.ok, nameGood]
  rw [hname, e0, hfield, e1, e2]
  rfl

theorem CAtom.ok_cmp {s : Scheme} {name : List Char} {ws₁ ws₂ : Input} {op : OrdOp} {sym : Bool}
    {lit : Lit} (hname : nameOk name = true) (hnot : name ≠ "not".toList)
    (hfield : fieldHasTy s name lit.ty = true) (h₁ : Layout ws₁ = true) (h₂ : Layout ws₂ = true)
    (hsep : sym = true ∨ ws₁ ≠ []) (hlit : lit.ok = true) :
    (CAtom.cmp name ws₁ op sym ws₂ lit).ok s = true := by
  have : (sym || !ws₁.isEmpty) = true := by
    rcases hsep with h | h
    · simp [h]
    · cases ws₁ with
      | nil => exact absurd rfl h
      | cons _ _ => simp
  have e0 : (name != "not".toList) = true := bne_iff_ne.mpr hnot
  simp only [CAtom.ok, nameGood]
  rw [hname, e0, hfield, h₁, h₂, this, hlit]
  rfl

theorem fieldHasTy_spec {s : Scheme} {name : List Char} {t : Ty}
    (h : fieldHasTy s name t = true) :
    s.get name = some (.field (fieldIx s name)) ∧ s.fieldTy (fieldIx s name) = t := by
  unfold fieldHasTy at h
  unfold fieldIx
  split at h
  · rename_i i hg
    simp only [hg, true_and]
    simpa using h
  · cases h

theorem nameGood_spec {name : List Char} (h : nameGood name = true) :
    nameOk name = true ∧ name ≠ "not".toList := by
  simpa [nameGood] using h

theorem fieldHasTy_registered {s : Scheme} {name : List Char} {t : Ty}
    (h : fieldHasTy s name t = true) : (s.get name).isSome = true := by
  rw [(fieldHasTy_spec h).1]; rfl

/-- `ComparisonExpr::lex_with` on a bare boolean field, any valid name -/
theorem boolField_parses_name (env : PEnv) (lower : Option Level) {name rest : Input}
    (hn : nameOk name = true) (hf : fieldHasTy env.scheme name .bool = true)
    (hrest : IdStop rest = true) :
    comparisonL env lower (name ++ rest) =
      .ok ({ node := .comparison (.field (fieldIx env.scheme name) []) .isTrue, ty := .bool },
        rest) := by
  obtain ⟨hget, hty⟩ := fieldHasTy_spec hf
  unfold comparisonL
  rw [indexExprL_field env lower hn hget hrest]
  simp [cmpWithLhs, hty, mapEachCount, IExpr.indexes]

/-- `ComparisonExpr::lex_with_lhs` at an ordering operator, from its four lexing steps -/
theorem cmpWithLhs_ord_steps (env : PEnv) (i : Nat) (ty : Ty)
    (hty : ty = .int ∨ ty = .ip ∨ ty = .bytes) (op : OrdOp) (v : RhsVal)
    (input afterLayout afterOp lit rest : Input)
    (e1 : skipSpace input = afterLayout)
    (e2 : lexEnum comparisonOps afterLayout = some (CompOp.ord op, afterOp))
    (e3 : skipSpace afterOp = lit)
    (e4 : lexRhsVal ty lit = some (.ok (v, rest))) :
    cmpWithLhs env (.field i []) ty input =
      .ok ({ node := .comparison (.field i []) (.ordering op v), ty := .bool }, rest) := by
  unfold cmpWithLhs
  rcases hty with rfl | rfl | rfl <;>
    simp [mapEachCount, IExpr.indexes, Ty.next, e1, e2, e3, e4]

theorem layout_cons {c : Char} {cs : Input} (h : Layout (c :: cs) = true) : isSpace c = true := by
  simp only [Layout, List.all_cons, Bool.and_eq_true] at h
  exact h.1

/-- what follows the operator: layout or a literal start, never `=` -/
theorem afterOp_head {ws₂ : Input} (h₂ : Layout ws₂ = true) (l : Lit) (rest : Input) :
    (ws₂ ++ (l.txt ++ rest)).head? ≠ some '=' := by
  cases ws₂ with
  | nil =>
    obtain ⟨d, ds, hl, hd⟩ := l.txt_head
    rw [List.nil_append, hl]
    simpa using (litStart_iff hd).2
  | cons w ws =>
    have hw := layout_cons h₂
    intro h
    simp only [List.cons_append, List.head?_cons, Option.some.injEq] at h
    subst h
    revert hw; decide

/-- **`ComparisonExpr::lex_with_lhs` on `ws₁ op ws₂ literal`** -/
theorem cmpWithLhs_ord {tight : Bool} (env : PEnv) (i : Nat) {ws₁ ws₂ : Input}
    (h₁ : Layout ws₁ = true) (h₂ : Layout ws₂ = true) (op : OrdOp) (sym : Bool) (l : Lit)
    (hok : l.ok = true) (rest : Input) (hstop : Stop tight rest = true) :
    cmpWithLhs env (.field i []) l.ty
        (ws₁ ++ ((ordAlias op sym).toList ++ (ws₂ ++ (l.txt ++ rest)))) =
      .ok ({ node := .comparison (.field i []) (.ordering op l.val), ty := .bool }, rest) := by
  obtain ⟨c, cs, hal, hsp, _, _⟩ := ordAlias_head op sym
  obtain ⟨d, ds, hl, hd⟩ := l.txt_head
  refine cmpWithLhs_ord_steps env i l.ty l.ty_cases op l.val _ _ _ _ rest
    (skipSpace_layout_solid h₁ ⟨c, cs ++ (ws₂ ++ (l.txt ++ rest)), by rw [hal]; rfl, hsp⟩)
    (lexEnum_ordAlias op sym _ (afterOp_head h₂ l rest))
    (skipSpace_layout_solid h₂ ⟨d, ds ++ rest, by rw [hl]; rfl, (litStart_iff hd).1⟩)
    (l.lex hok rest hstop)

/-- what follows the field name in a comparison ends the identifier -/
theorem cmp_idStop {ws₁ : Input} (h₁ : Layout ws₁ = true) (op : OrdOp) (sym : Bool)
    (hsep : (sym || !ws₁.isEmpty) = true) (x : Input) :
    IdStop (ws₁ ++ ((ordAlias op sym).toList ++ x)) = true := by
  cases ws₁ with
  | cons w ws => exact idStop_of_space (layout_cons h₁) _
  | nil =>
    have hs : sym = true := by simpa using hsep
    obtain ⟨c, cs, hal, _, _, hid⟩ := ordAlias_head op sym
    rw [List.nil_append, hal]
    exact hid hs _

/-- after the layout, an operator spelling does not start with `(` -/
theorem cmp_noParen {ws₁ : Input} (h₁ : Layout ws₁ = true) (op : OrdOp) (sym : Bool) (x : Input) :
    expect (skipSpace (ws₁ ++ ((ordAlias op sym).toList ++ x))) "(" = none := by
  obtain ⟨c, cs, hal, hsp, hpar, _⟩ := ordAlias_head op sym
  rw [skipSpace_layout_solid h₁ ⟨c, cs ++ x, by rw [hal]; rfl, hsp⟩, hal]
  show stripPrefix (c :: (cs ++ x)) ['('] = none
  simp [stripPrefix, hpar]

/-! ### `GoodAtom` -/

/-- **every concrete atom meeting its side conditions is a `GoodAtom`** (both settings of
`tight`) -/
theorem goodAtom (env : PEnv) (tight : Bool) (a : CAtom) (h : a.ok env.scheme = true) :
    GoodAtom env (atoms env.scheme) tight a := by
  cases a with
  | boolField name =>
    simp only [CAtom.ok, Bool.and_eq_true, bne_iff_ne, ne_eq] at h
    obtain ⟨⟨⟨hg, hany⟩, hall⟩, hf⟩ := h
    obtain ⟨hn, hnot⟩ := nameGood_spec hg
    exact
      { parses := fun n rest hs => boolField_parses_name env _ hn hf (stop_idStop hs)
        noUnary := fun rest hs =>
          name_noUnary env hn (fieldHasTy_registered hf) hnot (stop_idStop hs)
        noQuant := fun rest hs => name_noQuant hn (stop_idStop hs)
          (fun hq => by
            rcases hq with hq | hq
            · exact absurd hq hany
            · exact absurd hq hall)
        notCombining := rfl }
  | cmp name ws₁ op sym ws₂ lit =>
    simp only [CAtom.ok, Bool.and_eq_true] at h
    obtain ⟨⟨⟨⟨⟨hg, hf⟩, h₁⟩, h₂⟩, hsep⟩, hlit⟩ := h
    obtain ⟨hn, hnot⟩ := nameGood_spec hg
    obtain ⟨hget, hty⟩ := fieldHasTy_spec hf
    have eq : ∀ rest : Input, (atoms env.scheme).txt (.cmp name ws₁ op sym ws₂ lit) ++ rest =
        name ++ (ws₁ ++ ((ordAlias op sym).toList ++ (ws₂ ++ (lit.txt ++ rest)))) := by
      intro rest; simp [atoms, CAtom.txt, List.append_assoc]
    exact
      { parses := fun n rest hs => by
          rw [eq]
          unfold comparisonL
          rw [indexExprL_field env _ hn hget (cmp_idStop h₁ op sym hsep _)]
          simp only [hty]
          exact cmpWithLhs_ord env _ h₁ h₂ op sym lit hlit rest hs
        noUnary := fun rest _ => by
          rw [eq]
          exact name_noUnary env hn (fieldHasTy_registered hf) hnot (cmp_idStop h₁ op sym hsep _)
        noQuant := fun rest _ => by
          rw [eq]
          exact name_noQuant hn (cmp_idStop h₁ op sym hsep _) (fun _ => cmp_noParen h₁ op sym _)
        notCombining := rfl }

/-! ### what an atom MEANS: field, operator, value -/

/-- a concrete atom without its spelling: which field, which operator, which value -/
inductive Core
  | isTrue (name : List Char)
  | ord (name : List Char) (op : OrdOp) (v : RhsVal)
deriving DecidableEq, Repr

/-- forgets the operator spelling, the layout and the way the literal is written (radix, escapes,
`::` compression) -/
def CAtom.core : CAtom → Core
  | .boolField name => .isTrue name
  | .cmp name _ op _ _ lit => .ord name op lit.val

def Core.node (s : Scheme) : Core → LExpr
  | .isTrue name => .comparison (.field (fieldIx s name) []) .isTrue
  | .ord name op v => .comparison (.field (fieldIx s name) []) (.ordering op v)

/-- nodes of cores (the text is irrelevant for `canon`) -/
def coreAtoms (s : Scheme) : Atoms Core := { txt := fun _ => [], node := Core.node s }

theorem node_core (s : Scheme) (a : CAtom) : (atoms s).node a = (coreAtoms s).node a.core := by
  cases a <;> rfl

/-- the AST of a skeleton of concrete atoms is determined by the cores -/
theorem canon_core (s : Scheme) (sk : Sk CAtom) :
    canon (atoms s) sk = canon (coreAtoms s) (mapSk CAtom.core sk) :=
  canon_mapSk (atoms s) (coreAtoms s) CAtom.core (node_core s) sk

/-- whole filters over concrete atoms -/
theorem filter_concrete (env : PEnv) (tight : Bool) (sk : Sk CAtom)
    (hok : allAtoms (CAtom.ok env.scheme) sk = true) (s : Input)
    (hr : Renders env (atoms env.scheme) tight sk s) (hd : depth sk ≤ env.st.maxDepth)
    (htrim : trim s = s) : parseFilter env s = .ok (canon (atoms env.scheme) sk) :=
  filter_on env (atoms env.scheme) tight (CAtom.ok env.scheme) (fun a h => goodAtom env tight a h)
    sk hok s hr hd htrim

end WfModel.Atoms
