import WfModel.Lemmas.Atoms.Ident
import WfModel.Lemmas.Atoms.Lit
import WfModel.Lemmas.Atoms.Sk
import WfModel.Lemmas.Atoms.Path
import WfModel.Lemmas.Atoms.Tail

/-!
# Concrete atoms: `GoodAtom` for real comparison expressions

`CAtom` is a syntax of concrete atoms over a scheme: `name path tail` with

* `name` a field name;
* `path` a (possibly empty) chain of index suffixes `[k]` / `["key"]` as written (`Ix`,
  `Lemmas/Atoms/Path.lean`), layout allowed after `[` and before `]`;
* `tail` (`Lemmas/Atoms/Tail.lean`) nothing (a `Bool` left-hand side), `ws₁ op ws₂ literal` with
  any of the six ordering operators in either spelling and a literal of `Lit`,
  `ws₁ in ws₂ { … }` with integer items `a` / `a..b`, byte-string items or IPv4 items
  `a.b.c.d` / `a..b` / `a/len`, `ws₁ contains ws₂ "…"`, `ws₁ & ws₂ int` / `ws₁ bitwise_and ws₂ int`,
  or `ws₁ in ws₂ $name`.

`CAtom.txt` is the character string, `CAtom.node` the intended AST node, `CAtom.ok` the decidable
side conditions. `goodAtom` proves the hypothesis `GoodAtom` of `parse_render_logical` for every
atom meeting them. `CAtom.boolField` / `CAtom.cmp` (empty path) are the atoms of the first
version. Helper lemmas only; the property statements are in `Props/C01Atoms.lean`.
-/
namespace WfModel.Atoms

open WfModel WfModel.Render WfModel.C07L

/-! ### syntax -/

/-- concrete atoms: field name, index suffixes, what follows -/
structure CAtom where
  name : List Char
  path : List Ix
  tail : Tail
deriving DecidableEq, Repr

/-- a bare field of type `Bool` (`ComparisonOpExpr::IsTrue`) -/
@[match_pattern] abbrev CAtom.boolField (name : List Char) : CAtom := ⟨name, [], .isTrue⟩

/-- `name ws₁ op ws₂ lit`; `sym` chooses the symbolic spelling of `op` -/
@[match_pattern] abbrev CAtom.cmp (name : List Char) (ws₁ : Input) (op : OrdOp) (sym : Bool)
    (ws₂ : Input) (lit : Lit) : CAtom := ⟨name, [], .ord ws₁ op sym ws₂ lit⟩

/-- `name ws₁ op ws₂ v` with the integer written in `form` (decimal by default) -/
abbrev CAtom.intCmp (name : List Char) (ws₁ : Input) (op : OrdOp) (sym : Bool) (ws₂ : Input)
    (v : Int) (form : IntForm := .dec) : CAtom := .cmp name ws₁ op sym ws₂ (.int form v)

/-- `name ws₁ op ws₂ "…"` with the quoted rendering of C06 (`renderQuoted`: per byte `\xHH` in
either case, `\OOO`, or the character itself) -/
abbrev CAtom.bytesCmp (name : List Char) (ws₁ : Input) (op : OrdOp) (sym : Bool) (ws₂ : Input)
    (items : List (Esc × UInt8)) : CAtom := .cmp name ws₁ op sym ws₂ (.quoted items)

/-- `name ws₁ op ws₂ r#"…"#` -/
abbrev CAtom.rawCmp (name : List Char) (ws₁ : Input) (op : OrdOp) (sym : Bool) (ws₂ : Input)
    (k : Nat) (body : List Char) : CAtom := .cmp name ws₁ op sym ws₂ (.raw k body)

/-- `name ws₁ op ws₂ a.b.c.d` -/
abbrev CAtom.ipCmp (name : List Char) (ws₁ : Input) (op : OrdOp) (sym : Bool) (ws₂ : Input)
    (a : Nat) : CAtom := .cmp name ws₁ op sym ws₂ (.ip4 a)

/-- `name ws₁ op ws₂ g:g:g:g:g:g:g:g` -/
abbrev CAtom.ip6Cmp (name : List Char) (ws₁ : Input) (op : OrdOp) (sym : Bool) (ws₂ : Input)
    (a : Nat) : CAtom := .cmp name ws₁ op sym ws₂ (.ip6 a)

/-- `name ws₁ in ws₂ { ws₀ items }` -/
abbrev CAtom.inSet (name : List Char) (ws₁ ws₂ ws₀ : Input) (items : List IntItem) : CAtom :=
  ⟨name, [], .inInts ws₁ ws₂ ws₀ items⟩

/-- `name ws₁ contains ws₂ lit` -/
abbrev CAtom.containsCmp (name : List Char) (ws₁ ws₂ : Input) (lit : Lit) : CAtom :=
  ⟨name, [], .contains ws₁ ws₂ lit⟩

/-- `name ws₁ in ws₂ { ws₀ items }` with byte-string items -/
abbrev CAtom.inBytesSet (name : List Char) (ws₁ ws₂ ws₀ : Input) (items : List (Lit × Input)) :
    CAtom := ⟨name, [], .inBytes ws₁ ws₂ ws₀ items⟩

/-- `name ws₁ in ws₂ { ws₀ items }` with address items -/
abbrev CAtom.inIpSet (name : List Char) (ws₁ ws₂ ws₀ : Input) (items : List IpItem) : CAtom :=
  ⟨name, [], .inIps ws₁ ws₂ ws₀ items⟩

/-- `name ws₁ & ws₂ v` / `name ws₁ bitwise_and ws₂ v` -/
abbrev CAtom.bitAndCmp (name : List Char) (ws₁ : Input) (sym : Bool) (ws₂ : Input) (v : Int)
    (form : IntForm := .dec) : CAtom := ⟨name, [], .bitAnd ws₁ sym ws₂ form v⟩

/-- `name ws₁ in ws₂ $list` -/
abbrev CAtom.inListCmp (name : List Char) (ws₁ ws₂ : Input) (ty : Ty) (list : Nat)
    (listName : List Char) : CAtom := ⟨name, [], .inList ws₁ ws₂ ty list listName⟩

/-- the same atom on an indexed left-hand side: `name path tail` -/
abbrev CAtom.indexed (a : CAtom) (path : List Ix) : CAtom := { a with path := path }

/-- **the text**: field name ++ index suffixes ++ tail (for a comparison: ws₁ ++ operator
spelling ++ ws₂ ++ literal rendering) -/
def CAtom.txt (a : CAtom) : List Char := a.name ++ (pathTxt a.path ++ a.tail.txt)

/-- index of the field called `name` (0 when there is none: excluded by `CAtom.ok`) -/
def fieldIx (s : Scheme) (name : List Char) : Nat :=
  match s.get name with
  | some (.field i) => i
  | _ => 0

/-- **the intended AST node**: `ComparisonExpr { lhs: IndexExpr { field, indexes }, op }` -/
def CAtom.node (s : Scheme) (a : CAtom) : LExpr :=
  .comparison (.field (fieldIx s a.name) (a.path.map Ix.val)) a.tail.op

/-- the scheme has a field of exactly that name, of type `t` -/
def fieldHasTy (s : Scheme) (name : List Char) (t : Ty) : Bool :=
  match s.get name with
  | some (.field i) => s.fieldTy i == t
  | _ => false

/-- the scheme has a field of exactly that name, and the index path is well-typed for its
declared type and leads to `t` (`pathTy`: array index on an array, key on a map, by recursion
on the type: `pathTy_eq_tyAt`) -/
def fieldPathTy (s : Scheme) (name : List Char) (path : List FieldIndex) (t : Ty) : Bool :=
  match s.get name with
  | some (.field i) => pathTy (s.fieldTy i) path == some t
  | _ => false

/-- a valid identifier other than the word `not` itself. A REGISTERED name that merely begins
with `not` (`notes`, `not_b`) is fine: `LogicalExpr::lex_unary_op` does not take the operator
when the glued characters complete a registered name. The bare word `not` always is the
operator (nothing is glued to it), so a field literally called `not` cannot be written at the
start of an operand. -/
def nameGood (name : List Char) : Bool := nameOk name && name != "not".toList

/-- what is asked where the tail meets a BARE name (empty path): a word operator is separated
from the name (`ieq 5`, `iin {1}` are identifiers), and a bare `Bool` field is not called
`any`/`all` (followed by ` (` that would be a quantifier call). After `]` nothing is asked. -/
def CAtom.junctionOk (a : CAtom) : Bool :=
  !a.path.isEmpty ||
    (a.tail.sepFromName &&
      (a.tail != .isTrue || (a.name != "any".toList && a.name != "all".toList)))

/-- **side conditions** (decidable): valid name, not exactly `not`; every index suffix is
well-formed (`Ix.ok`); the tail is (`Tail.ok`: layout, literal / item conditions); the scheme
has the field, the path is well-typed for its type and ends in the tail's type (`Bool` for a
bare atom, the literal's type, the item type for `in {…}`, `Bytes` for `contains`, `Int` for `&`,
the named type for `in $name`); `junctionOk`; for `in $name` the scheme has a list registered
for that type (`Tail.schemeOk`). -/
def CAtom.ok (s : Scheme) (a : CAtom) : Bool :=
  nameGood a.name && a.path.all Ix.ok && a.tail.ok &&
    fieldPathTy s a.name (a.path.map Ix.val) a.tail.ty && a.junctionOk && a.tail.schemeOk s

/-- the `Atoms` structure `parse_render_logical` is instantiated with -/
def atoms (s : Scheme) : Atoms CAtom := { txt := CAtom.txt, node := CAtom.node s }

/-! ### lemmas -/

theorem fieldPathTy_nil (s : Scheme) (name : List Char) (t : Ty) :
    fieldPathTy s name [] t = fieldHasTy s name t := by
  unfold fieldPathTy fieldHasTy
  split <;> simp [pathTy]

theorem CAtom.ok_boolField {s : Scheme} {name : List Char} (hname : nameOk name = true)
    (hnot : name ≠ "not".toList) (hany : name ≠ "any".toList)
    (hall : name ≠ "all".toList) (hfield : fieldHasTy s name .bool = true) :
    (CAtom.boolField name).ok s = true := by
  have e0 : (name != "not".toList) = true := bne_iff_ne.mpr hnot
  have e1 : (name != "any".toList) = true := bne_iff_ne.mpr hany
  have e2 : (name != "all".toList) = true := bne_iff_ne.mpr hall
  simp only [CAtom.ok, nameGood, CAtom.junctionOk, List.map_nil, fieldPathTy_nil, Tail.ty]
  rw [hname, e0, hfield, e1, e2]
  rfl

theorem CAtom.ok_cmp {s : Scheme} {name : List Char} {ws₁ ws₂ : Input} {op : OrdOp} {sym : Bool}
    {lit : Lit} (hname : nameOk name = true) (hnot : name ≠ "not".toList)
    (hfield : fieldHasTy s name lit.ty = true) (h₁ : Layout ws₁ = true) (h₂ : Layout ws₂ = true)
    (hsep : sym = true ∨ ws₁ ≠ []) (hlit : lit.ok = true) :
    (CAtom.cmp name ws₁ op sym ws₂ lit).ok s = true := by
  have : (sym || !ws₁.isEmpty) = true := by
    rcases hsep with h | h
    · simp [h]
    · cases ws₁ with
      | nil => exact absurd rfl h
      | cons _ _ => simp
  have e0 : (name != "not".toList) = true := bne_iff_ne.mpr hnot
  simp only [CAtom.ok, nameGood, CAtom.junctionOk, List.map_nil, fieldPathTy_nil, Tail.ty,
    Tail.ok, Tail.sepFromName]
  rw [hname, e0, hfield, h₁, h₂, this, hlit]
  rfl

theorem fieldHasTy_spec {s : Scheme} {name : List Char} {t : Ty}
    (h : fieldHasTy s name t = true) :
    s.get name = some (.field (fieldIx s name)) ∧ s.fieldTy (fieldIx s name) = t := by
  unfold fieldHasTy at h
  unfold fieldIx
  split at h
  · rename_i i hg
    simp only [hg, true_and]
    simpa using h
  · cases h

theorem fieldPathTy_spec {s : Scheme} {name : List Char} {path : List FieldIndex} {t : Ty}
    (h : fieldPathTy s name path t = true) :
    s.get name = some (.field (fieldIx s name)) ∧
      pathTy (s.fieldTy (fieldIx s name)) path = some t := by
  unfold fieldPathTy at h
  unfold fieldIx
  split at h
  · rename_i i hg
    simp only [hg, true_and]
    simpa using h
  · cases h

theorem nameGood_spec {name : List Char} (h : nameGood name = true) :
    nameOk name = true ∧ name ≠ "not".toList := by
  simpa [nameGood] using h

theorem fieldHasTy_registered {s : Scheme} {name : List Char} {t : Ty}
    (h : fieldHasTy s name t = true) : (s.get name).isSome = true := by
  rw [(fieldHasTy_spec h).1]; rfl

/-- `ComparisonExpr::lex_with` on a bare boolean field, any valid name -/
theorem boolField_parses_name (env : PEnv) (lower : Option Level) {name rest : Input}
    (hn : nameOk name = true) (hf : fieldHasTy env.scheme name .bool = true)
    (hrest : IdStop rest = true) :
    comparisonL env lower (name ++ rest) =
      .ok ({ node := .comparison (.field (fieldIx env.scheme name) []) .isTrue, ty := .bool },
        rest) := by
  obtain ⟨hget, hty⟩ := fieldHasTy_spec hf
  unfold comparisonL
  rw [indexExprL_field env lower hn hget hrest]
  simp [cmpWithLhs, hty, mapEachCount, IExpr.indexes]

/-- `ComparisonExpr::lex_with_lhs` at an ordering operator, from its four lexing steps -/
theorem cmpWithLhs_ord_steps (env : PEnv) (i : Nat) (ty : Ty)
    (hty : ty = .int ∨ ty = .ip ∨ ty = .bytes) (op : OrdOp) (v : RhsVal)
    (input afterLayout afterOp lit rest : Input)
    (e1 : skipSpace input = afterLayout)
    (e2 : lexEnum comparisonOps afterLayout = some (CompOp.ord op, afterOp))
    (e3 : skipSpace afterOp = lit)
    (e4 : lexRhsVal ty lit = some (.ok (v, rest))) :
    cmpWithLhs env (.field i []) ty input =
      .ok ({ node := .comparison (.field i []) (.ordering op v), ty := .bool }, rest) :=
  cmpWithLhs_ord_steps' env (.field i []) rfl ty hty op v input afterLayout afterOp lit rest
    e1 e2 e3 e4

theorem layout_cons {c : Char} {cs : Input} (h : Layout (c :: cs) = true) : isSpace c = true :=
  layout_head_space h

/-- **`ComparisonExpr::lex_with_lhs` on `ws₁ op ws₂ literal`** -/
theorem cmpWithLhs_ord {tight : Bool} (env : PEnv) (i : Nat) {ws₁ ws₂ : Input}
    (h₁ : Layout ws₁ = true) (h₂ : Layout ws₂ = true) (op : OrdOp) (sym : Bool) (l : Lit)
    (hok : l.ok = true) (rest : Input) (hstop : Stop tight rest = true) :
    cmpWithLhs env (.field i []) l.ty
        (ws₁ ++ ((ordAlias op sym).toList ++ (ws₂ ++ (l.txt ++ rest)))) =
      .ok ({ node := .comparison (.field i []) (.ordering op l.val), ty := .bool }, rest) := by
  have := cmpWithLhs_tail (tight := tight) env (.field i []) rfl (.ord ws₁ op sym ws₂ l)
    (by simp [Tail.ok, h₁, h₂, hok]) rfl rest hstop
  simpa [Tail.txt, Tail.ty, Tail.op, List.append_assoc] using this

/-! ### `GoodAtom` -/

/-- **every concrete atom meeting its side conditions is a `GoodAtom`** (both settings of
`tight`) -/
theorem goodAtom (env : PEnv) (tight : Bool) (a : CAtom) (h : a.ok env.scheme = true) :
    GoodAtom env (atoms env.scheme) tight a := by
  obtain ⟨name, path, tail⟩ := a
  simp only [CAtom.ok, Bool.and_eq_true] at h
  obtain ⟨⟨⟨⟨⟨hg, hpath⟩, htail⟩, hf⟩, hj⟩, hsch⟩ := h
  obtain ⟨hn, hnot⟩ := nameGood_spec hg
  obtain ⟨hget, hty⟩ := fieldPathTy_spec hf
  -- what `junctionOk` says when the path is empty
  have hj' : path = [] → tail.sepFromName = true ∧
      (tail = .isTrue → name ≠ "any".toList ∧ name ≠ "all".toList) := by
    intro hp
    subst hp
    simp only [CAtom.junctionOk, List.isEmpty_nil, Bool.not_true, Bool.false_or,
      Bool.and_eq_true, Bool.or_eq_true, bne_iff_ne, ne_eq] at hj
    refine ⟨hj.1, fun ht => ?_⟩
    rcases hj.2 with h | h
    · exact absurd ht h
    · exact h
  have eq : ∀ rest : Input, (atoms env.scheme).txt ⟨name, path, tail⟩ ++ rest =
      name ++ (pathTxt path ++ (tail.txt ++ rest)) := by
    intro rest; simp [atoms, CAtom.txt, List.append_assoc]
  have hps : ∀ rest : Input, Stop tight rest = true → PathStop path (tail.txt ++ rest) :=
    fun rest hs => tail.pathStop htail path (fun hp => (hj' hp).1) rest hs
  exact
    { parses := fun n rest hs => by
        rw [eq]
        unfold comparisonL
        rw [indexExprL_path env _ hn hget hpath hty (hps rest hs)]
        exact cmpWithLhs_tail env (.field (fieldIx env.scheme name) (path.map Ix.val))
          (mapEachCount_path path) tail htail hsch rest hs
      noUnary := fun rest hs => by
        rw [eq]
        exact name_noUnary_ns env hn (by rw [hget]; rfl) hnot (hps rest hs).name
      noQuant := fun rest hs => by
        rw [eq]
        refine name_noQuant_ns hn (hps rest hs).name (fun hq => ?_)
        cases path with
        | cons ix r =>
          obtain ⟨x, hx⟩ := pathTxt_head (ix := ix) (r := r) (tail.txt ++ rest)
          rw [hx, skipSpace_cons_of_not_space _ (by decide)]
          show stripPrefix ('[' :: x) ['('] = none
          simp [stripPrefix]
        | nil =>
          by_cases ht : tail = .isTrue
          · obtain ⟨h1, h2⟩ := (hj' rfl).2 ht
            rcases hq with hq | hq
            · exact absurd hq h1
            · exact absurd hq h2
          · simpa [pathTxt] using tail.noParen htail ht rest
      notCombining := rfl }

/-! ### what an atom MEANS: field, operator, value -/

/-- a concrete atom without its spelling: which field, which indexes, which operator with which
value(s) -/
structure Core where
  name : List Char
  path : List FieldIndex
  op : CmpOp
deriving DecidableEq, Repr

/-- forgets the operator spelling, the layout (also inside `[ ]` and `{ }`) and the way literals,
indexes and keys are written (radix, escapes, `::` compression) -/
def CAtom.core (a : CAtom) : Core := ⟨a.name, a.path.map Ix.val, a.tail.op⟩

def Core.node (s : Scheme) (c : Core) : LExpr :=
  .comparison (.field (fieldIx s c.name) c.path) c.op

/-- nodes of cores (the text is irrelevant for `canon`) -/
def coreAtoms (s : Scheme) : Atoms Core := { txt := fun _ => [], node := Core.node s }

theorem node_core (s : Scheme) (a : CAtom) : (atoms s).node a = (coreAtoms s).node a.core := rfl

/-- the AST of a skeleton of concrete atoms is determined by the cores -/
theorem canon_core (s : Scheme) (sk : Sk CAtom) :
    canon (atoms s) sk = canon (coreAtoms s) (mapSk CAtom.core sk) :=
  canon_mapSk (atoms s) (coreAtoms s) CAtom.core (node_core s) sk

/-- whole filters over concrete atoms -/
theorem filter_concrete (env : PEnv) (tight : Bool) (sk : Sk CAtom)
    (hok : allAtoms (CAtom.ok env.scheme) sk = true) (s : Input)
    (hr : Renders env (atoms env.scheme) tight sk s) (hd : depth sk ≤ env.st.maxDepth)
    (htrim : trim s = s) : parseFilter env s = .ok (canon (atoms env.scheme) sk) :=
  filter_on env (atoms env.scheme) tight (CAtom.ok env.scheme) (fun a h => goodAtom env tight a h)
    sk hok s hr hd htrim

end WfModel.Atoms
