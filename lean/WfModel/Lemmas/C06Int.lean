import WfModel.Lemmas.C06Base

/-! Helper lemmas for C06: integer literals, integer ranges, array indexes. -/
namespace WfModel

/-! ### renderers (spec side) -/

/-- decimal: optional `-`, digits without leading zeros (`0` ↦ `"0"`) -/
def renderDec (v : Int) : List Char :=
  if v < 0 then '-' :: digits 10 v.natAbs else digits 10 v.natAbs

/-- `0x` + lower-case hex digits of a non-negative value -/
def renderHex (v : Int) : List Char := '0' :: 'x' :: digits 16 v.toNat

/-- leading `0` + octal digits of a non-negative value -/
def renderOct (v : Int) : List Char := '0' :: digits 8 v.toNat

/-- first character of the rest cannot extend a digit run -/
def NoHexDigitHead (rest : Input) : Bool := headNot isAsciiHexDigit rest

/-- first character of the rest is not `x` (only matters after the literal `0`) -/
def NoXHead (rest : Input) : Bool := headNot (· == 'x') rest

/-! ### `fromStrRadixI64` -/

theorem fromStrRadixI64_nosign (c : Char) (tl : List Char) (radix : Nat)
    (h1 : c ≠ '-') (h2 : c ≠ '+') :
    fromStrRadixI64 (c :: tl) radix =
      (parseDigits radix (c :: tl)).bind fun n =>
        let v : Int := n; if inI64 v then some v else none := by
  unfold fromStrRadixI64
  split
  · rename_i h; injection h with h _; exact absurd h h1
  · rename_i h; injection h with h _; exact absurd h h2
  · rfl

theorem fromStrRadixI64_neg (ds : List Char) (radix : Nat) :
    fromStrRadixI64 ('-' :: ds) radix =
      (parseDigits radix ds).bind fun n =>
        let v : Int := -(n : Int); if inI64 v then some v else none := rfl

theorem fromStrRadixI64_digits {radix : Nat} (h2 : 2 ≤ radix) (h16 : radix ≤ 16) (n : Nat) :
    fromStrRadixI64 (digits radix n) radix = if inI64 (n : Int) then some (n : Int) else none := by
  obtain ⟨d, tl, he, hd, _⟩ := digits_head h2 n
  have hs := digitChar_ne_sign d (by omega)
  rw [he, fromStrRadixI64_nosign _ _ _ hs.1 hs.2.1, ← he, parseDigits_digits h2 h16]
  rfl

theorem parseDigits_zero_cons {radix : Nat} (hr : 1 ≤ radix) (ds : List Char) (hne : ds ≠ []) :
    parseDigits radix ('0' :: ds) = parseDigits radix ds := by
  rw [parseDigits_eq, parseDigits_eq]
  have h0 : pdStep radix (some 0) '0' = some 0 := by
    have : digitVal '0' = some 0 := by decide
    simp [pdStep, this]; omega
  cases ds with
  | nil => exact absurd rfl hne
  | cons c cs => simp [List.foldl_cons, h0]

theorem fromStrRadixI64_zero_digits {radix : Nat} (h2 : 2 ≤ radix) (h16 : radix ≤ 16) (n : Nat) :
    fromStrRadixI64 ('0' :: digits radix n) radix =
      if inI64 (n : Int) then some (n : Int) else none := by
  rw [fromStrRadixI64_nosign _ _ _ (by decide) (by decide),
    parseDigits_zero_cons (by omega) _ (digits_ne_nil _ _), parseDigits_digits h2 h16]
  rfl

/-! ### `lexInt` on the three renderings -/

theorem headNot_cons_of {p : Char → Bool} {c : Char} {r : Input} (h : p c = false) :
    headNot p (c :: r) = true := by simp [headNot, h]

theorem expect_0x_none_of_head (c : Char) (r : Input) (h : c ≠ '0') :
    expect (c :: r) "0x" = none := by
  show stripPrefix (c :: r) ['0', 'x'] = none
  simp [stripPrefix, h]

theorem expect_0x_none_of_second (c : Char) (r : Input) (h : c ≠ 'x') :
    expect ('0' :: c :: r) "0x" = none := by
  show stripPrefix ('0' :: c :: r) ['0', 'x'] = none
  simp [stripPrefix, h]

theorem expect_0x_zero (rest : Input) (hx : NoXHead rest = true) :
    expect ('0' :: rest) "0x" = none := by
  cases rest with
  | nil => rfl
  | cons c r =>
    simp [NoXHead, headNot] at hx
    exact expect_0x_none_of_second c r hx

theorem parseNumber_eq (ds rest : Input) (radix : Nat) (sp : Input) (v : Int)
    (h : fromStrRadixI64 ds radix = if inI64 v then some v else none) :
    parseNumber ds rest radix sp =
      if inI64 v then .ok (v, rest) else errSpan .parseInt sp rest := by
  unfold parseNumber
  rw [h]
  by_cases hv : inI64 v = true <;> simp [hv]

/-- positive decimal: what `lexInt` computes -/
theorem lexInt_dec_pos (n : Nat) (hn : 1 ≤ n) (rest : Input) (hr : NoHexDigitHead rest = true) :
    lexInt (digits 10 n ++ rest) =
      if inI64 (n : Int) then .ok ((n : Int), rest)
      else errSpan .parseInt (digits 10 n ++ rest) rest := by
  obtain ⟨d, tl, he, hd, h1⟩ := digits_head (by omega : 2 ≤ 10) n
  have hne := digitChar_pos_ne d (by omega) (h1 hn)
  have hall := digits_all_hex (by omega : 2 ≤ 10) (by omega) n
  have htw := takeWhile1_run isAsciiHexDigit (digits 10 n) rest (digits_ne_nil _ _) hall hr
  have hf := fromStrRadixI64_digits (by omega : 2 ≤ 10) (by omega) n
  unfold lexInt
  have e1 : expect (digits 10 n ++ rest) "0x" = none := by
    rw [he]; exact expect_0x_none_of_head _ _ hne.1
  have e2 : (digits 10 n ++ rest).head? ≠ some '0' := by
    rw [he]; simp [hne.1]
  have e3 : (expect (digits 10 n ++ rest) "-").getD (digits 10 n ++ rest) = digits 10 n ++ rest := by
    rw [he]
    show (stripPrefix (digitChar d :: tl ++ rest) ['-']).getD _ = _
    simp [stripPrefix, hne.2.1]
  simp only [e1, if_neg e2, e3, htw, take_length_append]
  exact parseNumber_eq _ _ _ _ _ hf

theorem natAbs_neg_cast {v : Int} (h : v < 0) : -((v.natAbs : Nat) : Int) = v := by omega
theorem natAbs_nonneg_cast {v : Int} (h : 0 ≤ v) : ((v.natAbs : Nat) : Int) = v := by omega

theorem lexInt_dec_neg (n : Nat) (rest : Input) (hr : NoHexDigitHead rest = true) :
    lexInt ('-' :: digits 10 n ++ rest) =
      if inI64 (-(n : Int)) then .ok (-(n : Int), rest)
      else errSpan .parseInt ('-' :: digits 10 n ++ rest) rest := by
  have hall := digits_all_hex (by omega : 2 ≤ 10) (by omega) n
  have htw := takeWhile1_run isAsciiHexDigit (digits 10 n) rest (digits_ne_nil _ _) hall hr
  unfold lexInt
  have e1 : expect ('-' :: digits 10 n ++ rest) "0x" = none := by
    rw [List.cons_append]; exact expect_0x_none_of_head _ _ (by decide)
  have e2 : ('-' :: digits 10 n ++ rest).head? ≠ some '0' := by simp
  have e3 : (expect ('-' :: digits 10 n ++ rest) "-").getD ('-' :: digits 10 n ++ rest)
      = digits 10 n ++ rest := by
    show (stripPrefix ('-' :: (digits 10 n ++ rest)) ['-']).getD _ = _
    simp [stripPrefix]
  have e4 : ('-' :: digits 10 n ++ rest).take (('-' :: digits 10 n ++ rest).length - rest.length)
      = '-' :: digits 10 n := by
    have := take_length_append ('-' :: digits 10 n) rest
    simpa using this
  simp only [e1, if_neg e2, e3, htw, e4]
  have hf : fromStrRadixI64 ('-' :: digits 10 n) 10 =
      if inI64 (-(n : Int)) then some (-(n : Int)) else none := by
    rw [fromStrRadixI64_neg, parseDigits_digits (by omega) (by omega)]; rfl
  exact parseNumber_eq _ _ _ _ _ hf

theorem lexInt_zero (rest : Input) (hr : NoHexDigitHead rest = true) (hx : NoXHead rest = true) :
    lexInt ('0' :: rest) = .ok (0, rest) := by
  have htw := takeWhile1_run isAsciiHexDigit ['0'] rest (by simp) (by decide) hr
  unfold lexInt
  have e1 := expect_0x_zero rest hx
  have e2 : ('0' :: rest).head? = some '0' := rfl
  have htw' : takeWhile1 isAsciiHexDigit ('0' :: rest) = .ok (['0'], rest) := htw
  simp only [e1, e2, if_true, htw']
  rfl

/-- **decimal**: the general computation (round trip in range, `ParseInt` error outside) -/
theorem lexInt_renderDec (v : Int) (rest : Input) (hr : NoHexDigitHead rest = true)
    (hx : v = 0 → NoXHead rest = true) :
    lexInt (renderDec v ++ rest) =
      if inI64 v then .ok (v, rest) else errSpan .parseInt (renderDec v ++ rest) rest := by
  unfold renderDec
  by_cases hneg : v < 0
  · simp only [if_pos hneg]
    have := lexInt_dec_neg v.natAbs rest hr
    rw [natAbs_neg_cast hneg] at this
    exact this
  · simp only [if_neg hneg]
    by_cases h0 : v = 0
    · subst h0
      have hd : digits 10 (0 : Int).natAbs = ['0'] := by
        show digits 10 0 = _
        rw [digits_small (by omega)]; rfl
      rw [hd]
      have : inI64 0 = true := by decide
      simp only [this, if_true]
      exact lexInt_zero rest hr (hx rfl)
    · have := lexInt_dec_pos v.natAbs (by omega) rest hr
      rw [natAbs_nonneg_cast (by omega)] at this
      exact this

theorem lexInt_renderHex (n : Nat) (rest : Input) (hr : NoHexDigitHead rest = true) :
    lexInt ('0' :: 'x' :: digits 16 n ++ rest) =
      if inI64 (n : Int) then .ok ((n : Int), rest)
      else errSpan .parseInt (digits 16 n ++ rest) rest := by
  have hall := digits_all_hex (by omega : 2 ≤ 16) (by omega) n
  have htw := takeWhile1_run isAsciiHexDigit (digits 16 n) rest (digits_ne_nil _ _) hall hr
  have hf := fromStrRadixI64_digits (by omega : 2 ≤ 16) (by omega) n
  unfold lexInt
  have e1 : expect ('0' :: 'x' :: digits 16 n ++ rest) "0x" = some (digits 16 n ++ rest) := by
    show stripPrefix ('0' :: 'x' :: (digits 16 n ++ rest)) ['0', 'x'] = _
    simp [stripPrefix]
  simp only [e1, htw]
  exact parseNumber_eq _ _ _ _ _ hf

theorem lexInt_renderOct (n : Nat) (rest : Input) (hr : NoHexDigitHead rest = true) :
    lexInt ('0' :: digits 8 n ++ rest) =
      if inI64 (n : Int) then .ok ((n : Int), rest)
      else errSpan .parseInt ('0' :: digits 8 n ++ rest) rest := by
  have hall : ∀ c ∈ '0' :: digits 8 n, isAsciiHexDigit c = true := by
    intro c hc
    rcases List.mem_cons.mp hc with h | h
    · subst h; decide
    · exact digits_all_hex (by omega : 2 ≤ 8) (by omega) n c h
  have htw := takeWhile1_run isAsciiHexDigit ('0' :: digits 8 n) rest (by simp) hall hr
  have hf := fromStrRadixI64_zero_digits (by omega : 2 ≤ 8) (by omega) n
  obtain ⟨d, tl, he, hd, _⟩ := digits_head (by omega : 2 ≤ 8) n
  have hs := digitChar_ne_sign d (by omega)
  unfold lexInt
  have e1 : expect ('0' :: digits 8 n ++ rest) "0x" = none := by
    rw [he]; exact expect_0x_none_of_second _ _ hs.2.2.1
  have e2 : ('0' :: digits 8 n ++ rest).head? = some '0' := rfl
  simp only [e1, e2, if_true, htw]
  exact parseNumber_eq _ _ _ _ _ hf

/-! ### all three forms at once -/

inductive IntForm | dec | hex | oct
deriving DecidableEq, Repr

/-- hex and octal have no sign -/
def IntForm.admits : IntForm → Int → Bool
  | .dec, _ => true
  | _, v => decide (0 ≤ v)

def renderInt : IntForm → Int → List Char
  | .dec, v => renderDec v
  | .hex, v => renderHex v
  | .oct, v => renderOct v

theorem lexInt_renderInt (f : IntForm) (v : Int) (rest : Input) (ha : f.admits v = true)
    (hi : inI64 v = true) (hr : NoHexDigitHead rest = true)
    (hx : f = .dec → v = 0 → NoXHead rest = true) :
    lexInt (renderInt f v ++ rest) = .ok (v, rest) := by
  cases f with
  | dec =>
    have := lexInt_renderDec v rest hr (hx rfl)
    simpa [renderInt, hi] using this
  | hex =>
    have h0 : 0 ≤ v := by simpa [IntForm.admits] using ha
    have hv : ((v.toNat : Nat) : Int) = v := by omega
    have := lexInt_renderHex v.toNat rest hr
    rw [hv] at this
    simpa [renderInt, renderHex, hi] using this
  | oct =>
    have h0 : 0 ≤ v := by simpa [IntForm.admits] using ha
    have hv : ((v.toNat : Nat) : Int) = v := by omega
    have := lexInt_renderOct v.toNat rest hr
    rw [hv] at this
    simpa [renderInt, renderOct, hi] using this

/-! ### integer ranges -/

theorem noHex_dot (r : Input) : NoHexDigitHead ('.' :: r) = true := by
  show (!isAsciiHexDigit '.') = true; decide

theorem noX_dot (r : Input) : NoXHead ('.' :: r) = true := by
  show (!('.' == 'x')) = true; decide

theorem lexIntRange_render (f g : IntForm) (a b : Int) (rest : Input)
    (haf : f.admits a = true) (hbg : g.admits b = true)
    (hia : inI64 a = true) (hib : inI64 b = true)
    (hr : NoHexDigitHead rest = true) (hx : g = .dec → b = 0 → NoXHead rest = true) :
    lexIntRange (renderInt f a ++ ('.' :: '.' :: (renderInt g b ++ rest))) =
      if b < a then
        errSpan .incompatibleRangeBounds (renderInt f a ++ ('.' :: '.' :: (renderInt g b ++ rest))) rest
      else .ok ((a, b), rest) := by
  have h1 := lexInt_renderInt f a ('.' :: '.' :: (renderInt g b ++ rest)) haf hia (noHex_dot _)
    (fun _ _ => noX_dot _)
  have h2 := lexInt_renderInt g b rest hbg hib hr hx
  unfold lexIntRange
  have e : expect ('.' :: '.' :: (renderInt g b ++ rest)) ".." = some (renderInt g b ++ rest) := by
    show stripPrefix ('.' :: '.' :: (renderInt g b ++ rest)) ['.', '.'] = _
    simp [stripPrefix]
  simp only [h1, e, h2]

/-- a single value is the range `v..v` when no `..` follows -/
theorem lexIntRange_single (f : IntForm) (a : Int) (rest : Input)
    (haf : f.admits a = true) (hia : inI64 a = true)
    (hr : NoHexDigitHead rest = true) (hx : f = .dec → a = 0 → NoXHead rest = true)
    (hdd : expect rest ".." = none) :
    lexIntRange (renderInt f a ++ rest) = .ok ((a, a), rest) := by
  have h1 := lexInt_renderInt f a rest haf hia hr hx
  unfold lexIntRange
  simp only [h1, hdd]

/-! ### array indexes -/

theorem digitChar_ne_star : ∀ d, d < 16 → digitChar d ≠ '*' := by decide

theorem renderDec_head (v : Int) : ∃ c tl, renderDec v = c :: tl ∧ c ≠ '*' ∧ c ≠ '"' := by
  unfold renderDec
  split
  · exact ⟨'-', _, rfl, by decide, by decide⟩
  · obtain ⟨d, tl, he, hd, _⟩ := digits_head (by omega : 2 ≤ 10) v.natAbs
    exact ⟨digitChar d, tl, he, digitChar_ne_star d (by omega), (digitChar_ne_sign d (by omega)).2.2.2.1⟩

theorem lexFieldIndex_noquote (c : Char) (r : Input) (h1 : c ≠ '*') (h2 : c ≠ '"') :
    lexFieldIndex (c :: r) =
      match lexInt (c :: r) with
      | .error _ => errAt .expectedLiteral (c :: r)
      | .ok (i, rest) =>
        if 0 ≤ i && i < 4294967296 then .ok (.arr i.toNat, rest)
        else errAt .expectedLiteral (c :: r) := by
  unfold lexFieldIndex
  have e : expect (c :: r) "*" = none := by
    show stripPrefix (c :: r) ['*'] = none
    simp [stripPrefix, h1]
  simp only [e]
  split
  · rename_i h; injection h with h _; exact absurd h h2
  · rfl

theorem lexFieldIndex_renderDec (v : Int) (rest : Input) (hr : NoHexDigitHead rest = true)
    (hx : v = 0 → NoXHead rest = true) :
    lexFieldIndex (renderDec v ++ rest) =
      if 0 ≤ v ∧ v < 4294967296 then .ok (.arr v.toNat, rest)
      else errAt .expectedLiteral (renderDec v ++ rest) := by
  have hl := lexInt_renderDec v rest hr hx
  obtain ⟨c, tl, he, h1, h2⟩ := renderDec_head v
  rw [he] at hl ⊢
  rw [List.cons_append] at hl ⊢
  rw [lexFieldIndex_noquote c _ h1 h2, hl]
  by_cases hi : inI64 v = true
  · simp only [hi, if_true]
    by_cases hb : 0 ≤ v ∧ v < 4294967296
    · have : (decide (0 ≤ v) && decide (v < 4294967296)) = true := by simp [hb]
      simp [hb]
    · have : ¬ (0 ≤ v ∧ v < 4294967296) := hb
      simp only [if_neg this]
      have : (decide (0 ≤ v) && decide (v < 4294967296)) = false := by
        simp only [Bool.and_eq_false_iff, decide_eq_false_iff_not]; omega
      simp [this]
  · have hb : ¬ (0 ≤ v ∧ v < 4294967296) := by
      intro ⟨h0, h32⟩
      apply hi
      rw [inI64_iff]; omega
    simp only [hi, if_neg hb]
    rfl

end WfModel
