import WfModel.Model.PanicCatcher
/-!
Helper lemmas for C19 (big-step invariants, small-step/big-step agreement, N-thread frame
lemmas).  Property statements are in `Props/C19.lean`.
-/
namespace WfModel.PanicCatcher

/-! ### elementary facts -/

theorem raise_level (s : St) (m : Nat) : (raise s m).1.loc.level = s.loc.level := by
  unfold raise
  cases h : runHook s.hook s.loc m with
  | recorded l =>
    -- the hook only writes `lastMsg`
    have : l.level = s.loc.level := by
      generalize s.hook = hk at h
      induction hk with
      | default => simp [runHook] at h
      | sentinel => simp [runHook] at h
      | catcher next ih =>
        simp only [runHook] at h
        split at h
        · cases h; rfl
        · split at h
          · exact ih h
          · cases h
    simp [this]
  | fellThrough ev => rfl
  | abort => rfl

theorem simple_level (s : St) (op : Op) : (simple s op).1.loc.level = s.loc.level := by
  cases op <;> simp [simple, doSetHook] <;> split <;> rfl

theorem exec_catch_on {s : St} (body : List Op) (v : Nat) (hE : s.loc.enabled = true)
    (hL : s.loc.level + 1 < levelLimit) :
    exec s (.catch_ body v) =
      finishCatch (execList (enter s) body).1 (execList (enter s) body).2.1
        (execList (enter s) body).2.2 v := by
  simp only [exec, hE, hL, if_true]

theorem exec_catch_over {s : St} (body : List Op) (v : Nat) (hE : s.loc.enabled = true)
    (hL : ¬ s.loc.level + 1 < levelLimit) :
    exec s (.catch_ body v) = (s, [.abort], .aborted) := by
  simp only [exec, hE, hL, if_true, if_false]

theorem exec_catch_off {s : St} (body : List Op) (v : Nat) (hE : s.loc.enabled = false) :
    exec s (.catch_ body v) =
      finishPlain (execList s body).1 (execList s body).2.1 (execList s body).2.2 v := by
  simp [exec, hE]

theorem execList_cons (s : St) (op : Op) (rest : List Op) :
    execList s (op :: rest) =
      match (exec s op).2.2 with
      | .done =>
        ((execList (exec s op).1 rest).1, (exec s op).2.1 ++ (execList (exec s op).1 rest).2.1,
          (execList (exec s op).1 rest).2.2)
      | _ => exec s op := by
  simp only [execList]
  generalize exec s op = r
  obtain ⟨s1, tr, out⟩ := r
  cases out <;> rfl

mutual
/-- Balance: whatever an op does, if control comes back (normally or by unwinding) the
nesting level is what it was. -/
theorem exec_level (s : St) : (op : Op) → (exec s op).2.2 ≠ .aborted →
    (exec s op).1.loc.level = s.loc.level
  | .catch_ body v => by
    intro h
    cases hE : s.loc.enabled with
    | true =>
      by_cases hL : s.loc.level + 1 < levelLimit
      · rw [exec_catch_on body v hE hL] at h ⊢
        have ih := execList_level (enter s) body
        revert h ih
        generalize execList (enter s) body = r
        obtain ⟨s1, tr, out⟩ := r
        intro h ih
        cases out with
        | aborted => simp [finishCatch] at h
        | done =>
          have := ih (by simp)
          simp only [finishCatch] at h ⊢
          split at h
          · simp at h
          · rename_i h0; simp [h0, leave, enter] at this ⊢; omega
        | panicked m =>
          have := ih (by simp)
          simp only [finishCatch] at h ⊢
          split at h
          · simp at h
          · rename_i h0; simp [h0, leave, enter] at this ⊢; omega
      · rw [exec_catch_over body v hE hL] at h; simp at h
    | false =>
      rw [exec_catch_off body v hE] at h ⊢
      have ih := execList_level s body
      revert h ih
      generalize execList s body = r
      obtain ⟨s1, tr, out⟩ := r
      intro h ih
      cases out <;> simp_all [finishPlain]
  | .panic m => by intro _; simp only [exec]; exact raise_level s m
  | .enable => by intro _; simp only [exec]; exact simple_level s _
  | .disable => by intro _; simp only [exec]; exact simple_level s _
  | .setHook => by intro _; simp only [exec]; exact simple_level s _
  | .setFallback f => by intro _; simp only [exec]; exact simple_level s _
  | .query => by intro _; simp only [exec]; exact simple_level s _

theorem execList_level (s : St) : (ops : List Op) → (execList s ops).2.2 ≠ .aborted →
    (execList s ops).1.loc.level = s.loc.level
  | [] => by intro _; simp [execList]
  | op :: rest => by
    intro h
    have ih1 := exec_level s op
    rw [execList_cons] at h ⊢
    cases ho : (exec s op).2.2 with
    | done =>
      have ih2 := execList_level (exec s op).1 rest
      simp only [ho] at h ⊢
      rw [ih2 h, ih1 (by simp [ho])]
    | panicked m => simp only [ho] at h ⊢; exact ih1 (by simp [ho])
    | aborted => simp [ho] at h
end

/-! ### the hook stays installed -/

theorem simple_hook (s : St) (op : Op) (h : s.hookSet = true) :
    (simple s op).1.hook = s.hook ∧ (simple s op).1.hookSet = true := by
  cases op <;> simp [simple, doSetHook, h]

theorem raise_hook (s : St) (m : Nat) :
    (raise s m).1.hook = s.hook ∧ (raise s m).1.hookSet = s.hookSet := by
  unfold raise
  cases runHook s.hook s.loc m <;> simp

mutual
theorem exec_hook (s : St) (h : s.hookSet = true) : (op : Op) →
    (exec s op).1.hook = s.hook ∧ (exec s op).1.hookSet = true
  | .catch_ body v => by
    cases hE : s.loc.enabled with
    | true =>
      by_cases hL : s.loc.level + 1 < levelLimit
      · rw [exec_catch_on body v hE hL]
        have ih := execList_hook (enter s) (by simpa [enter] using h) body
        revert ih
        generalize execList (enter s) body = r
        obtain ⟨s1, tr, out⟩ := r
        intro ih
        cases out <;> simp only [finishCatch] <;> (try split) <;> simpa [leave, enter] using ih
      · rw [exec_catch_over body v hE hL]; exact ⟨rfl, h⟩
    | false =>
      rw [exec_catch_off body v hE]
      have ih := execList_hook s h body
      revert ih
      generalize execList s body = r
      obtain ⟨s1, tr, out⟩ := r
      intro ih
      cases out <;> simpa [finishPlain] using ih
  | .panic m => by simp only [exec]; have := raise_hook s m; simp [this, h]
  | .enable => by simp only [exec]; exact simple_hook s _ h
  | .disable => by simp only [exec]; exact simple_hook s _ h
  | .setHook => by simp only [exec]; exact simple_hook s _ h
  | .setFallback f => by simp only [exec]; exact simple_hook s _ h
  | .query => by simp only [exec]; exact simple_hook s _ h

theorem execList_hook (s : St) (h : s.hookSet = true) : (ops : List Op) →
    (execList s ops).1.hook = s.hook ∧ (execList s ops).1.hookSet = true
  | [] => by simp [execList, h]
  | op :: rest => by
    have ih1 := exec_hook s h op
    rw [execList_cons]
    cases ho : (exec s op).2.2 with
    | done =>
      have ih2 := execList_hook (exec s op).1 ih1.2 rest
      simp only
      exact ⟨ih2.1.trans ih1.1, ih2.2⟩
    | panicked m => exact ih1
    | aborted => exact ih1
end

/-! ### inside a catching frame -/

/-- The catcher's hook is the process hook and the flag says so. -/
def Installed (s : St) : Prop := (∃ n, s.hook = .catcher n) ∧ s.hookSet = true

theorem raise_inside (s : St) (m : Nat) (hI : Installed s) (hpos : 0 < s.loc.level) :
    raise s m = ({ s with loc := { s.loc with lastMsg := some m } }, [], .panicked m) := by
  obtain ⟨⟨n, hn⟩, _⟩ := hI
  simp [raise, hn, runHook, hpos]

mutual
/-- With the hook installed and at least one catching frame active, nothing aborts (short of
2^64 nested frames) and a panic that leaves the op has been recorded as the last message. -/
theorem exec_inside (s : St) (hI : Installed s) (hpos : 0 < s.loc.level) : (op : Op) →
    s.loc.level + op.nesting < levelLimit →
    (exec s op).2.2 ≠ .aborted ∧
      ∀ m, (exec s op).2.2 = .panicked m → (exec s op).1.loc.lastMsg = some m
  | .catch_ body v => by
    intro hN
    simp only [Op.nesting] at hN
    cases hE : s.loc.enabled with
    | true =>
      have hL : s.loc.level + 1 < levelLimit := by omega
      rw [exec_catch_on body v hE hL]
      have hI' : Installed (enter s) := by simpa [Installed, enter] using hI
      have ih := execList_inside (enter s) hI' (by simp [enter]) body (by simp [enter]; omega)
      have hb := execList_level (enter s) body ih.1
      revert ih hb
      generalize execList (enter s) body = r
      obtain ⟨s1, tr, out⟩ := r
      intro ih hb
      have h1 : s1.loc.level ≠ 0 := by simp [enter] at hb; omega
      cases out with
      | aborted => exact absurd rfl ih.1
      | done => simp [finishCatch, h1]
      | panicked m => simp [finishCatch, h1]
    | false =>
      rw [exec_catch_off body v hE]
      have ih := execList_inside s hI hpos body (by omega)
      revert ih
      generalize execList s body = r
      obtain ⟨s1, tr, out⟩ := r
      intro ih
      cases out <;> simp [finishPlain] at ih ⊢ <;> exact ih
  | .panic m => by intro _; simp only [exec]; rw [raise_inside s m hI hpos]; simp
  | .enable => by intro _; simp [exec]
  | .disable => by intro _; simp [exec]
  | .setHook => by intro _; simp [exec]
  | .setFallback f => by intro _; simp [exec]
  | .query => by intro _; simp [exec]

theorem execList_inside (s : St) (hI : Installed s) (hpos : 0 < s.loc.level) : (ops : List Op) →
    s.loc.level + nestingList ops < levelLimit →
    (execList s ops).2.2 ≠ .aborted ∧
      ∀ m, (execList s ops).2.2 = .panicked m → (execList s ops).1.loc.lastMsg = some m
  | [] => by intro _; simp [execList]
  | op :: rest => by
    intro hN
    simp only [nestingList] at hN
    have ih1 := exec_inside s hI hpos op (by omega)
    have hh := exec_hook s hI.2 op
    have hl := exec_level s op ih1.1
    rw [execList_cons]
    cases ho : (exec s op).2.2 with
    | done =>
      have hI1 : Installed (exec s op).1 := by
        obtain ⟨⟨n, hn⟩, _⟩ := hI
        exact ⟨⟨n, hh.1.trans hn⟩, hh.2⟩
      have ih2 := execList_inside (exec s op).1 hI1 (by omega) rest (by omega)
      simpa using ih2
    | panicked m =>
      simp only; rw [ho]
      exact ⟨by simp, fun m' hm => ih1.2 m' (ho.trans hm)⟩
    | aborted => exact absurd ho ih1.1
end

/-! ### the top level, and reaching the previous hook -/

theorem runTop_cons (s : St) (op : Op) (rest : List Op) :
    runTop s (op :: rest) =
      match (exec s op).2.2 with
      | .done =>
        ((runTop (exec s op).1 rest).1, (exec s op).2.1 ++ (runTop (exec s op).1 rest).2.1,
          (runTop (exec s op).1 rest).2.2)
      | .panicked m =>
        ((runTop (exec s op).1 rest).1,
          (exec s op).2.1 ++ [.unwound m] ++ (runTop (exec s op).1 rest).2.1,
          (runTop (exec s op).1 rest).2.2)
      | .aborted => ((exec s op).1, (exec s op).2.1, true) := by
  simp only [runTop]
  generalize exec s op = r
  obtain ⟨s1, tr, out⟩ := r
  cases out <;> rfl

theorem runTop_level (s : St) (ops : List Op) (h : (runTop s ops).2.2 = false) :
    (runTop s ops).1.loc.level = s.loc.level := by
  induction ops generalizing s with
  | nil => simp [runTop]
  | cons op rest ih =>
    rw [runTop_cons] at h ⊢
    cases ho : (exec s op).2.2 with
    | done =>
      simp only [ho] at h ⊢
      rw [ih _ h, exec_level s op (by simp [ho])]
    | panicked m =>
      simp only [ho] at h ⊢
      rw [ih _ h, exec_level s op (by simp [ho])]
    | aborted => simp [ho] at h

theorem simple_reaches (s : St) (op : Op) (h : s.hook.reachesSentinel = true) :
    (simple s op).1.hook.reachesSentinel = true := by
  cases op <;> simp [simple, doSetHook, h] <;> split <;> simp [Hook.reachesSentinel, h]

mutual
theorem exec_reaches (s : St) (h : s.hook.reachesSentinel = true) : (op : Op) →
    (exec s op).1.hook.reachesSentinel = true
  | .catch_ body v => by
    cases hE : s.loc.enabled with
    | true =>
      by_cases hL : s.loc.level + 1 < levelLimit
      · rw [exec_catch_on body v hE hL]
        have ih := execList_reaches (enter s) (by simpa [enter] using h) body
        revert ih
        generalize execList (enter s) body = r
        obtain ⟨s1, tr, out⟩ := r
        intro ih
        cases out <;> simp only [finishCatch] <;> (try split) <;> simpa [leave] using ih
      · rw [exec_catch_over body v hE hL]; exact h
    | false =>
      rw [exec_catch_off body v hE]
      have ih := execList_reaches s h body
      revert ih
      generalize execList s body = r
      obtain ⟨s1, tr, out⟩ := r
      intro ih
      cases out <;> simpa [finishPlain] using ih
  | .panic m => by simp only [exec]; rw [(raise_hook s m).1]; exact h
  | .enable => by simp only [exec]; exact simple_reaches s _ h
  | .disable => by simp only [exec]; exact simple_reaches s _ h
  | .setHook => by simp only [exec]; exact simple_reaches s _ h
  | .setFallback f => by simp only [exec]; exact simple_reaches s _ h
  | .query => by simp only [exec]; exact simple_reaches s _ h

theorem execList_reaches (s : St) (h : s.hook.reachesSentinel = true) : (ops : List Op) →
    (execList s ops).1.hook.reachesSentinel = true
  | [] => by simpa [execList] using h
  | op :: rest => by
    have ih1 := exec_reaches s h op
    rw [execList_cons]
    cases ho : (exec s op).2.2 with
    | done => exact execList_reaches (exec s op).1 ih1 rest
    | panicked m => exact ih1
    | aborted => exact ih1
end

theorem runTop_reaches (s : St) (ops : List Op) (h : s.hook.reachesSentinel = true) :
    (runTop s ops).1.hook.reachesSentinel = true := by
  induction ops generalizing s with
  | nil => simpa [runTop] using h
  | cons op rest ih =>
    rw [runTop_cons]
    have h1 := exec_reaches s h op
    cases ho : (exec s op).2.2 with
    | done => exact ih _ h1
    | panicked m => exact ih _ h1
    | aborted => exact h1

theorem runHook_outside (hk : Hook) (l : Local) (m : Nat) (hr : hk.reachesSentinel = true)
    (h0 : l.level = 0) (hf : l.fallback = .cont) : runHook hk l m = .fellThrough (.sentinel m) := by
  induction hk with
  | default => simp [Hook.reachesSentinel] at hr
  | sentinel => rfl
  | catcher next ih =>
    simp only [Hook.reachesSentinel] at hr
    simp [runHook, h0, hf, ih hr]

/-! ### N threads -/

theorem runHook_fields (hk : Hook) (l l' : Local) (m : Nat) (h : runHook hk l m = .recorded l') :
    l' = { l with lastMsg := some m } := by
  induction hk with
  | default => simp [runHook] at h
  | sentinel => simp [runHook] at h
  | catcher next ih =>
    simp only [runHook] at h
    split at h
    · cases h; rfl
    · split at h
      · exact ih h
      · cases h

/-- the state a step result carries -/
def StepRes.st? : StepRes → Option St
  | .halt => none
  | .next s _ _ => some s
  | .abort s _ => some s

@[simp] theorem addEvs_st (pre : List Ev) (r : StepRes) : (tstep.addEvs pre r).st? = r.st? := by
  cases r <;> rfl

theorem unwind_hook (s : St) (m : Nat) (top : List Op) (stk : List Frame) (s' : St)
    (hs : (unwind s m top stk).st? = some s') : s'.hook = s.hook ∧ s'.hookSet = s.hookSet := by
  induction stk generalizing top with
  | nil => simp [unwind, StepRes.st?] at hs; subst hs; simp
  | cons f fs ih =>
    simp only [unwind] at hs
    by_cases hf : f.started = true
    · by_cases h0 : s.loc.level = 0
      · simp [hf, h0, StepRes.st?] at hs; subst hs; simp
      · simp [hf, h0, StepRes.st?] at hs; subst hs; simp [leave]
    · simp only [hf] at hs
      exact ih f.rest hs

/-- A step of a thread leaves the process hook alone once the flag is set. -/
theorem tstep_hook (s : St) (c : Code) (h : s.hookSet = true) (s' : St)
    (hs : (tstep s c).st? = some s') : s'.hook = s.hook ∧ s'.hookSet = true := by
  obtain ⟨cur, stk⟩ := c
  cases cur with
  | nil =>
    cases stk with
    | nil => simp [tstep, StepRes.st?] at hs
    | cons f fs =>
      simp only [tstep] at hs
      by_cases hf : f.started = true
      · by_cases h0 : s.loc.level = 0
        · simp [hf, h0, StepRes.st?] at hs; subst hs; simp [h]
        · simp [hf, h0, StepRes.st?] at hs; subst hs; simp [leave, h]
      · simp [hf, StepRes.st?] at hs; subst hs; simp [h]
  | cons op rest =>
    cases op with
    | catch_ body v =>
      simp only [tstep] at hs
      by_cases hE : s.loc.enabled = true
      · by_cases hL : s.loc.level + 1 < levelLimit
        · simp [hE, hL, StepRes.st?] at hs; subst hs; simp [enter, h]
        · simp [hE, hL, StepRes.st?] at hs; subst hs; simp [h]
      · simp [hE, StepRes.st?] at hs; subst hs; simp [h]
    | panic m =>
      simp only [tstep] at hs
      cases hr : runHook s.hook s.loc m with
      | recorded l =>
        simp only [hr, addEvs_st] at hs
        have := unwind_hook _ _ _ _ _ hs
        simpa [h] using this
      | fellThrough ev =>
        simp only [hr, addEvs_st] at hs
        have := unwind_hook _ _ _ _ _ hs
        simpa [h] using this
      | abort => simp [hr, StepRes.st?] at hs; subst hs; simp [h]
    | enable => simp [tstep, simple, StepRes.st?] at hs; subst hs; simp [h]
    | disable => simp [tstep, simple, StepRes.st?] at hs; subst hs; simp [h]
    | setHook => simp [tstep, simple, doSetHook, h, StepRes.st?] at hs; subst hs; simp [h]
    | setFallback f => simp [tstep, simple, StepRes.st?] at hs; subst hs; simp [h]
    | query => simp [tstep, simple, StepRes.st?] at hs; subst hs; simp [h]

theorem Sys.step_dead (y : Sys) (i : Nat) (h : y.dead = true) : y.step i = y := by
  simp [Sys.step, h]

theorem Sys.run_dead (y : Sys) (σ : List Nat) (h : y.dead = true) : (y.run σ).dead = true := by
  induction σ generalizing y with
  | nil => simpa [Sys.run] using h
  | cons i rest ih => simp only [Sys.run]; rw [Sys.step_dead y i h]; exact ih y h

theorem Thread.solo_halt (hook : Hook) (n : Nat) (t : Thread)
    (h : tstep { loc := t.loc, hook := hook, hookSet := true } t.code = .halt) :
    Thread.solo hook n t = t := by
  cases n with
  | zero => rfl
  | succ n => simp [Thread.solo, h]

/-- Frame lemma for schedules: if the hook is installed and the process did not abort, every
thread ends exactly where it would have ended running alone for as many steps as it was
scheduled; the hook and its flag are untouched. -/
theorem Sys.run_frame (σ : List Nat) : ∀ (y : Sys), y.hookSet = true → (y.run σ).dead = false →
    (y.run σ).hook = y.hook ∧ (y.run σ).hookSet = true ∧
    ∀ j, (y.run σ).threads[j]? = (y.threads[j]?).map (Thread.solo y.hook (σ.count j)) := by
  induction σ with
  | nil => intro y h _; simp [Sys.run, h, Thread.solo]
  | cons i rest ih =>
    intro y h hd
    simp only [Sys.run] at hd ⊢
    by_cases hdead : y.dead = true
    · have := Sys.run_dead (y.step i) rest (by rw [Sys.step_dead y i hdead]; exact hdead)
      rw [this] at hd; cases hd
    · have hdead' : y.dead = false := by simpa using hdead
      cases ht : y.threads[i]? with
      | none =>
        have hy : y.step i = y := by simp [Sys.step, hdead', ht]
        rw [hy] at hd ⊢
        obtain ⟨h1, h2, h3⟩ := ih y h hd
        refine ⟨h1, h2, fun j => ?_⟩
        rw [h3 j]
        by_cases hij : i = j
        · subst hij; simp [ht]
        · simp [List.count_cons, hij]
      | some t =>
        have hk := tstep_hook { loc := t.loc, hook := y.hook, hookSet := y.hookSet } t.code h
        simp only at hk
        cases hr : tstep { loc := t.loc, hook := y.hook, hookSet := y.hookSet } t.code with
        | halt =>
          have hy : y.step i = y := by simp [Sys.step, hdead', ht, hr]
          rw [hy] at hd ⊢
          obtain ⟨h1, h2, h3⟩ := ih y h hd
          refine ⟨h1, h2, fun j => ?_⟩
          rw [h3 j]
          by_cases hij : i = j
          · subst hij
            rw [h] at hr
            simp [ht, List.count_cons, Thread.solo_halt y.hook _ t hr]
          · simp [List.count_cons, hij]
        | next s k evs =>
          have hk := hk s (by simp [hr, StepRes.st?])
          have hy : y.step i =
              { threads := y.threads.set i { loc := s.loc, code := k, tr := t.tr ++ evs },
                hook := s.hook, hookSet := s.hookSet, dead := false } := by
            simp [Sys.step, hdead', ht, hr]
          rw [hy] at hd ⊢
          obtain ⟨h1, h2, h3⟩ := ih _ hk.2 hd
          refine ⟨h1.trans hk.1, h2, fun j => ?_⟩
          rw [h3 j]
          simp only [hk.1]
          by_cases hij : i = j
          · subst hij
            have hlt : i < y.threads.length := by
              rcases Nat.lt_or_ge i y.threads.length with hl | hl
              · exact hl
              · rw [List.getElem?_eq_none hl] at ht; cases ht
            rw [h] at hr
            have hti : y.threads[i] = t := by
              have := List.getElem?_eq_getElem hlt
              rw [ht] at this; exact (Option.some.inj this).symm
            simp [hlt, Thread.solo, hti, hr]
          · simp [List.count_cons, hij, List.getElem?_set_ne hij]
        | abort s evs =>
          have hy : (y.step i).dead = true := by simp [Sys.step, hdead', ht, hr]
          rw [Sys.run_dead _ rest hy] at hd; cases hd

end WfModel.PanicCatcher
