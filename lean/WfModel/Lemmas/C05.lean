import WfModel.Lemmas.C05Level
import WfModel.Lemmas.ParseErr
/-!
# C05 — assembly: every error of `parseFilter` / `parseValue` designates a span inside the
source, at an offset for which `ParseError::new`'s assert and slices are safe
-/
namespace WfModel

theorem trimStart_suffix (s : Input) : trimStart s <:+ s := by
  induction s with
  | nil => exact List.suffix_refl _
  | cons c cs ih =>
    unfold trimStart
    split
    · exact ih.trans (List.suffix_cons c cs)
    · exact List.suffix_refl _

theorem trimEnd_prefix (s : Input) : trimEnd s <+: s := by
  unfold trimEnd
  have := trimStart_suffix s.reverse
  rw [← List.reverse_prefix, List.reverse_reverse] at this
  exact this

/-- `str::trim` returns a sub-slice: `src = a ++ trim src ++ b` with `|a|` the number of
characters `trim_start` removed -/
theorem trim_infix (src : Input) :
    ∃ a b, src = a ++ trim src ++ b ∧ a.length = trimStartCount src := by
  obtain ⟨a, ha⟩ := trimStart_suffix src
  obtain ⟨b, hb⟩ := trimEnd_prefix (trimStart src)
  refine ⟨a, b, ?_, ?_⟩
  · unfold trim; rw [List.append_assoc, hb, ha]
  · unfold trimStartCount
    have := congrArg List.length ha
    simp only [List.length_append] at this
    omega

/-- offset (in characters) of the error span in the *untrimmed* source — the
`span.as_ptr() - input.as_ptr()` of `ParseError::new` -/
def errOffset (src : Input) (e : LexErr) : Nat :=
  -- `str::trim` of an all-whitespace string is the empty slice at offset 0
  if (trim src).isEmpty then 0
  else trimStartCount src + ((trim src).length - e.pos.length)

/-- an error span inside `trim src` is a span inside `src` at `errOffset` -/
theorem errOk_in_src {src : Input} {e : LexErr} (h : ErrOk (trim src) e) :
    ∃ A post, src = A ++ e.pos ++ post ∧ A.length = errOffset src e ∧
      errOffset src e + e.len ≤ src.length := by
  obtain ⟨a, b, hsrc, hlen⟩ := trim_infix src
  obtain ⟨⟨pre, hpre⟩, hl⟩ := h
  have hlp : (trim src).length = pre.length + e.pos.length := by
    rw [← hpre, List.length_append]
  by_cases hempty : (trim src).isEmpty = true
  · -- whitespace-only source: the trimmed slice, hence the span, is empty and sits at offset 0
    have ht : trim src = [] := List.isEmpty_iff.mp hempty
    have hpos : e.pos = [] := by
      rw [ht] at hpre
      exact (List.append_eq_nil_iff.mp hpre).2
    have hlen0 : e.len = 0 := by rw [hpos] at hl; simpa using hl
    refine ⟨[], src, ?_, ?_, ?_⟩
    · simp [hpos]
    · simp [errOffset, hempty]
    · simp [errOffset, hempty, hlen0]
  · refine ⟨a ++ pre, b, ?_, ?_, ?_⟩
    · rw [List.append_assoc a pre, hpre]; exact hsrc
    · unfold errOffset; simp only [hempty]; rw [List.length_append, hlen, hlp]; simp
    · have := congrArg List.length hsrc
      simp only [List.length_append] at this
      unfold errOffset
      simp only [hempty]
      simp
      omega

theorem parseFilter_error_in_src {env : PEnv} {src : Input} {e : LexErr}
    (h : parseFilter env src = .error e) :
    ∃ A post, src = A ++ e.pos ++ post ∧ A.length = errOffset src e ∧
      errOffset src e + e.len ≤ src.length :=
  errOk_in_src (parseFilter_error h).1

theorem parseValue_error_in_src {env : PEnv} {src : Input} {e : LexErr}
    (h : parseValue env src = .error e) :
    ∃ A post, src = A ++ e.pos ++ post ∧ A.length = errOffset src e ∧
      errOffset src e + e.len ≤ src.length :=
  errOk_in_src (parseValue_error h).1

end WfModel
