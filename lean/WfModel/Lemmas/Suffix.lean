import WfModel.Model.Parse
/-!
Shared vocabulary of the C05 span lemmas: a lexer result is *well-formed w.r.t. its input*
when a returned rest is a suffix of the input and a returned error designates a span
(`pos`, `len`) with `pos` a suffix of the input and `len ≤ pos.length`.
Uses core's `List.IsSuffix` (`rest <:+ input ↔ ∃ pre, pre ++ rest = input`).
-/
namespace WfModel

/-- the error designates a span inside `input` -/
def ErrOk (input : Input) (e : LexErr) : Prop := e.pos <:+ input ∧ e.len ≤ e.pos.length

/-- well-formedness of a lexer result w.r.t. the input it was run on -/
def ResOk {α} (input : Input) (r : LexRes α) : Prop :=
  match r with
  | .ok (_, rest) => rest <:+ input
  | .error e => ErrOk input e

/-- same for results without a rest (`Except LexErr α`) -/
def ExcOk {α} (input : Input) (r : Except LexErr α) : Prop :=
  match r with
  | .ok _ => True
  | .error e => ErrOk input e

theorem ErrOk.mono {a b : Input} {e : LexErr} (h : ErrOk b e) (hs : b <:+ a) : ErrOk a e :=
  ⟨h.1.trans hs, h.2⟩

theorem ResOk.mono {α} {a b : Input} {r : LexRes α} (h : ResOk b r) (hs : b <:+ a) : ResOk a r := by
  cases r with
  | error e => exact ErrOk.mono h hs
  | ok v => exact List.IsSuffix.trans h hs

@[simp] theorem resOk_ok {α} (input : Input) (a : α) (rest : Input) :
    ResOk input (.ok (a, rest) : LexRes α) ↔ rest <:+ input := Iff.rfl

@[simp] theorem resOk_error {α} (input : Input) (e : LexErr) :
    ResOk input (.error e : LexRes α) ↔ ErrOk input e := Iff.rfl

theorem errAt_ok {α} (k : ErrKind) {pos input : Input} (h : pos <:+ input) :
    ResOk input (errAt k pos : LexRes α) := ⟨h, Nat.le_refl _⟩

theorem errSpan_ok {α} (k : ErrKind) {a rest input : Input} (h : a <:+ input) :
    ResOk input (errSpan k a rest : LexRes α) := ⟨h, Nat.sub_le _ _⟩

theorem ResOk.of_ok {α} {input : Input} {r : LexRes α} {a : α} {rest : Input}
    (h : ResOk input r) (he : r = .ok (a, rest)) : rest <:+ input := by subst he; exact h

theorem ResOk.of_error {α} {input : Input} {r : LexRes α} {e : LexErr}
    (h : ResOk input r) (he : r = .error e) : ErrOk input e := by subst he; exact h

end WfModel
