import WfModel.Lemmas.C13Down
import WfModel.Lemmas.C13Env
/-!
# C13 — assembly: the statements about `parseFilter` / `parseValue` under a configured limit

Pieces: `C13Spec` (nesting measure), `C13Bound` (`accepted_le`), `C13Tok` (follow lemma),
`C13Mono` (`limit_monotone`), `C13Down` (`limit_complete`), `C13Env` (`withDepth`).
-/
namespace WfModel
open Spec

theorem parseFilter_ok_iff {env : PEnv} {src : Input} {e : LExpr} :
    parseFilter env src = .ok e ↔
      ∃ ty, (level env env.st.maxDepth).logical (trim src) = .ok ({ node := e, ty := ty }, []) ∧
        (ty == Ty.bool) = true := by
  constructor
  · intro h
    unfold parseFilter at h
    have h := complete_ok h
    split at h
    · cases h
    · rename_i e' rest hl
      split at h
      · rename_i hty
        cases h
        exact ⟨e'.ty, hl, hty⟩
      · simp [errAt] at h
  · rintro ⟨ty, hl, hty⟩
    unfold parseFilter
    simp only [hl, hty, if_true, complete]

theorem parseValue_ok_iff {env : PEnv} {src : Input} {e : Typed IExpr} :
    parseValue env src = .ok e ↔
      indexExprL env (lowerOf env env.st.maxDepth) (trim src) = .ok (e, []) ∧
        ¬ mapEachCount e.node.indexes > 0 := by
  constructor
  · intro h
    unfold parseValue topIndexExpr at h
    have h := complete_ok h
    split at h
    · cases h
    · rename_i e' rest hl
      split at h
      · simp [errAt] at h
      · rename_i hm
        cases h
        exact ⟨hl, hm⟩
  · rintro ⟨hl, hm⟩
    unfold parseValue topIndexExpr
    simp only [hl, hm, if_false, complete]

/-- `parseFilter` at limit `d` reads `env` only through `level env d` -/
theorem parseFilter_withDepth_iff {env : PEnv} {d : Nat} {src : Input} {e : LExpr} :
    parseFilter (env.withDepth d) src = .ok e ↔
      ∃ ty, (level env d).logical (trim src) = .ok ({ node := e, ty := ty }, []) ∧
        (ty == Ty.bool) = true := by
  rw [parseFilter_ok_iff, PEnv.withDepth_maxDepth, level_withDepth]

theorem parseValue_withDepth_iff {env : PEnv} {d : Nat} {src : Input} {e : Typed IExpr} :
    parseValue (env.withDepth d) src = .ok e ↔
      indexExprL env (lowerOf env d) (trim src) = .ok (e, []) ∧
        ¬ mapEachCount e.node.indexes > 0 := by
  rw [parseValue_ok_iff, PEnv.withDepth_maxDepth, lowerOf_withDepth, indexExprL_withDepth]

theorem parseFilter_mono {env : PEnv} {d d' : Nat} (hle : d ≤ d') {src : Input} {e : LExpr}
    (h : parseFilter (env.withDepth d) src = .ok e) :
    parseFilter (env.withDepth d') src = .ok e := by
  rw [parseFilter_withDepth_iff] at h ⊢
  obtain ⟨ty, hl, hty⟩ := h
  exact ⟨ty, (level_le env hle).logical _ _ hl, hty⟩

theorem parseValue_mono {env : PEnv} {d d' : Nat} (hle : d ≤ d') {src : Input}
    {e : Typed IExpr} (h : parseValue (env.withDepth d) src = .ok e) :
    parseValue (env.withDepth d') src = .ok e := by
  rw [parseValue_withDepth_iff] at h ⊢
  exact ⟨indexExprL_mono (lowerOf_le env hle) h.1, h.2⟩

theorem parseFilter_down {env : PEnv} {d D : Nat} (hle : d ≤ D) {src : Input} {e : LExpr}
    (h : parseFilter (env.withDepth D) src = .ok e) (hn : nestL e ≤ d) :
    parseFilter (env.withDepth d) src = .ok e := by
  rw [parseFilter_withDepth_iff] at h ⊢
  obtain ⟨ty, hl, hty⟩ := h
  exact ⟨ty, (level_down env d D hle).logical _ _ _ hl hn, hty⟩

theorem parseValue_down {env : PEnv} {d D : Nat} (hle : d ≤ D) {src : Input}
    {e : Typed IExpr} (h : parseValue (env.withDepth D) src = .ok e) (hn : nestI e.node ≤ d) :
    parseValue (env.withDepth d) src = .ok e := by
  rw [parseValue_withDepth_iff] at h ⊢
  exact ⟨indexExprL_down (lowerOf_down env hle) h.1 hn, h.2⟩

/-- the five exhausted-budget sites -/
theorem exhausted_paren {env : PEnv} {input rest : Input} (h : expect input "(" = some rest) :
    simpleL env none input = errAt .nestingLimitExceeded input := by
  unfold simpleL; simp only [h, nestErr]

theorem exhausted_not {env : PEnv} {input rest : Input} {u : Unit}
    (h0 : expect input "(" = none) (h : lexUnary env input = some (u, rest)) :
    simpleL env none input = errAt .nestingLimitExceeded input := by
  unfold simpleL; simp only [h0, h, nestErr]

theorem exhausted_quant {env : PEnv} {input rest : Input} {op : QOp}
    (h0 : expect input "(" = none) (h1 : lexUnary env input = none)
    (h : lexQuantCall input = some (op, rest)) :
    simpleL env none input = errAt .nestingLimitExceeded (skipSpace rest) := by
  unfold simpleL; simp only [h0, h1, h, nestErr]

theorem exhausted_call {env : PEnv} {input rest : Input} {i : Nat} {nm : List Char}
    {sig : FuncSig} (h : lexIdentifier env.scheme input = .ok (.func i, rest))
    (hf : env.scheme.funcs[i]? = some (nm, sig)) :
    indexExprL env none input = errAt .nestingLimitExceeded (skipSpace rest) := by
  unfold indexExprL; simp only [h, hf, nestErr]

end WfModel
