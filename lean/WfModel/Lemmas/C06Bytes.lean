import WfModel.Lemmas.C06Base

/-! Helper lemmas for C06: quoted strings, raw strings, hex pairs. -/
namespace WfModel

/-! ### `fixedByte` -/

theorem parseDigits_two {radix : Nat} (c1 c2 : Char) (d1 d2 : Nat)
    (h1 : digitVal c1 = some d1) (h2 : digitVal c2 = some d2) (l1 : d1 < radix) (l2 : d2 < radix) :
    parseDigits radix [c1, c2] = some (d1 * radix + d2) := by
  simp [parseDigits, h1, h2, l1, l2]

theorem parseDigits_three {radix : Nat} (c1 c2 c3 : Char) (d1 d2 d3 : Nat)
    (h1 : digitVal c1 = some d1) (h2 : digitVal c2 = some d2) (h3 : digitVal c3 = some d3)
    (l1 : d1 < radix) (l2 : d2 < radix) (l3 : d3 < radix) :
    parseDigits radix [c1, c2, c3] = some ((d1 * radix + d2) * radix + d3) := by
  simp [parseDigits, h1, h2, h3, l1, l2, l3]

theorem fixedByte_two (c1 c2 : Char) (r : Input) (v : Nat)
    (h : parseDigits 16 [c1, c2] = some v) (hv : v ≤ 255) :
    fixedByte (c1 :: c2 :: r) 2 16 = .ok (UInt8.ofNat v, r) := by
  have : ¬ (r.length + 1 + 1 < 2) := by omega
  simp [fixedByte, take, this, h, hv]

theorem fixedByte_three (c1 c2 c3 : Char) (r : Input) (v : Nat)
    (h : parseDigits 8 [c1, c2, c3] = some v) (hv : v ≤ 255) :
    fixedByte (c1 :: c2 :: c3 :: r) 3 8 = .ok (UInt8.ofNat v, r) := by
  have : ¬ (r.length + 1 + 1 + 1 < 3) := by omega
  simp [fixedByte, take, this, h, hv]

/-! ### quoted strings: renderer -/

/-- how one byte is written inside a quoted string -/
inductive Esc
  /-- `\xHH`; the flags choose upper case for each of the two digits -/
  | hex (u1 u2 : Bool)
  /-- `\OOO` -/
  | oct
  /-- the character itself (printable ASCII), `\"` and `\\` for those two -/
  | lit
deriving DecidableEq, Repr

def hexDigit (u : Bool) (d : Nat) : Char := if u then digitCharU d else digitChar d

/-- `lit` is only permitted for printable ASCII -/
def escOk (it : Esc × UInt8) : Bool :=
  match it.1 with
  | .lit => 32 ≤ it.2.toNat && it.2.toNat ≤ 126
  | _ => true

def renderEsc : Esc × UInt8 → List Char
  | (.hex u1 u2, b) => ['\\', 'x', hexDigit u1 (b.toNat / 16), hexDigit u2 (b.toNat % 16)]
  | (.oct, b) => ['\\', digitChar (b.toNat / 64), digitChar (b.toNat / 8 % 8), digitChar (b.toNat % 8)]
  | (.lit, b) =>
    if b.toNat = 34 then ['\\', '"'] else if b.toNat = 92 then ['\\', '\\']
    else [Char.ofNat b.toNat]

/-- body of a quoted string (without the quotes) -/
def renderQuoted (items : List (Esc × UInt8)) : List Char := items.flatMap renderEsc

theorem digitVal_hexDigit (u : Bool) (d : Nat) (h : d < 16) : digitVal (hexDigit u d) = some d := by
  cases u
  · exact digitVal_digitChar d h
  · exact digitVal_digitCharU d h

/-! ### quoted strings: one step of the lexer per rendered byte -/

theorem lexQuotedGo_lit (full : Input) (f : Nat) (c : Char) (r : Input) (acc : List UInt8)
    (h1 : c ≠ '\\') (h2 : c ≠ '"') :
    lexQuotedGo full (f + 1) (c :: r) acc = lexQuotedGo full f r (acc ++ utf8 c) := by
  rw [lexQuotedGo.eq_def]
  split
  · omega
  · simp_all
  · simp_all
  · rename_i h; simp_all

theorem lexQuotedGo_quote (full : Input) (f : Nat) (r : Input) (acc : List UInt8) :
    lexQuotedGo full (f + 1) ('"' :: r) acc = .ok (acc, r) := by
  rw [lexQuotedGo]
  · simp
  · decide

theorem lexQuotedGo_escQ (full : Input) (f : Nat) (r : Input) (acc : List UInt8) :
    lexQuotedGo full (f + 1) ('\\' :: '"' :: r) acc = lexQuotedGo full f r (acc ++ [34]) := by
  rw [lexQuotedGo]
  have : utf8 '"' = [34] := by decide
  simp [this]

theorem lexQuotedGo_escB (full : Input) (f : Nat) (r : Input) (acc : List UInt8) :
    lexQuotedGo full (f + 1) ('\\' :: '\\' :: r) acc = lexQuotedGo full f r (acc ++ [92]) := by
  rw [lexQuotedGo]
  have : utf8 '\\' = [92] := by decide
  simp [this]

theorem lexQuotedGo_x (full : Input) (f : Nat) (r : Input) (acc : List UInt8) :
    lexQuotedGo full (f + 1) ('\\' :: 'x' :: r) acc =
      match fixedByte r 2 16 with
      | .error e => .error e
      | .ok (b, r3) => lexQuotedGo full f r3 (acc ++ [b]) := by
  rw [lexQuotedGo]
  simp only [show ('x' = '"' || 'x' = '\\') = false by decide]
  simp only [Bool.false_eq_true, if_false, if_true]
  rfl

/-- is `c` one of `0`..`7` -/
def isOctDigit (c : Char) : Bool := '0' ≤ c && c ≤ '7'

theorem lexQuotedGo_o (full : Input) (f : Nat) (c : Char) (r : Input) (acc : List UInt8)
    (hc : isOctDigit c = true) :
    lexQuotedGo full (f + 1) ('\\' :: c :: r) acc =
      match fixedByte (c :: r) 3 8 with
      | .error e => .error e
      | .ok (b, r3) => lexQuotedGo full f r3 (acc ++ [b]) := by
  have hne : c ≠ '"' ∧ c ≠ '\\' ∧ c ≠ 'x' := by
    refine ⟨?_, ?_, ?_⟩ <;> (intro h; subst h; revert hc; decide)
  rw [lexQuotedGo]
  unfold isOctDigit at hc
  have e1 : (c = '"' || c = '\\') = false := by simp [hne.1, hne.2.1]
  simp only [e1, hne.2.2, hc, Bool.false_eq_true, if_false, if_true]
  rfl

theorem lexQuotedGo_unknown (full : Input) (f : Nat) (c : Char) (r : Input) (acc : List UInt8)
    (h1 : c ≠ '"') (h2 : c ≠ '\\') (h3 : c ≠ 'x') (h4 : isOctDigit c = false) :
    lexQuotedGo full (f + 1) ('\\' :: c :: r) acc =
      .error { kind := .invalidCharacterEscape, pos := c :: r, len := 1 } := by
  rw [lexQuotedGo]
  unfold isOctDigit at h4
  simp [h1, h2, h3, h4]

theorem lexQuotedGo_nil (full : Input) (f : Nat) (acc : List UInt8) :
    lexQuotedGo full (f + 1) [] acc = errAt .missingEndingQuote full := by
  rw [lexQuotedGo]

theorem lexQuotedGo_backslash_end (full : Input) (f : Nat) (acc : List UInt8) :
    lexQuotedGo full (f + 1) ['\\'] acc = errAt .missingEndingQuote full := by
  rw [lexQuotedGo]

set_option maxRecDepth 4000 in
theorem utf8_ascii : ∀ n, n < 128 → utf8 (Char.ofNat n) = [UInt8.ofNat n] := by decide

theorem ofNat_ne_special : ∀ n, n < 128 → n ≠ 34 → n ≠ 92 →
    Char.ofNat n ≠ '"' ∧ Char.ofNat n ≠ '\\' := by decide

theorem oct_lead : ∀ d, d < 4 → isOctDigit (digitChar d) = true := by decide

/-- one rendered byte costs one unit of fuel and appends that byte -/
theorem lexQuotedGo_renderEsc (full : Input) (f : Nat) (it : Esc × UInt8) (tail : Input)
    (acc : List UInt8) (hok : escOk it = true) :
    lexQuotedGo full (f + 1) (renderEsc it ++ tail) acc = lexQuotedGo full f tail (acc ++ [it.2]) := by
  obtain ⟨e, b⟩ := it
  have hb : b.toNat < 256 := b.toNat_lt
  cases e with
  | hex u1 u2 =>
    have hp := parseDigits_two (radix := 16) _ _ _ _
      (digitVal_hexDigit u1 (b.toNat / 16) (by omega)) (digitVal_hexDigit u2 (b.toNat % 16) (by omega))
      (by omega) (by omega)
    have hv : b.toNat / 16 * 16 + b.toNat % 16 = b.toNat := by omega
    rw [hv] at hp
    have := fixedByte_two _ _ tail _ hp (by omega)
    simp only [renderEsc, List.cons_append, List.nil_append]
    rw [lexQuotedGo_x, this]
    simp
  | oct =>
    have hp := parseDigits_three (radix := 8) _ _ _ _ _ _
      (digitVal_digitChar (b.toNat / 64) (by omega)) (digitVal_digitChar (b.toNat / 8 % 8) (by omega))
      (digitVal_digitChar (b.toNat % 8) (by omega)) (by omega) (by omega) (by omega)
    have hv : (b.toNat / 64 * 8 + b.toNat / 8 % 8) * 8 + b.toNat % 8 = b.toNat := by omega
    rw [hv] at hp
    have := fixedByte_three _ _ _ tail _ hp (by omega)
    simp only [renderEsc, List.cons_append, List.nil_append]
    rw [lexQuotedGo_o _ _ _ _ _ (oct_lead _ (by omega)), this]
    simp
  | lit =>
    simp only [escOk, Bool.and_eq_true, decide_eq_true_eq] at hok
    simp only [renderEsc]
    by_cases h34 : b.toNat = 34
    · have : b = 34 := by
        have := UInt8.ofNat_toNat (x := b); rw [h34] at this; exact this.symm
      simp only [h34, if_true, List.cons_append, List.nil_append]
      rw [lexQuotedGo_escQ, this]
    · by_cases h92 : b.toNat = 92
      · have : b = 92 := by
          have := UInt8.ofNat_toNat (x := b); rw [h92] at this; exact this.symm
        simp only [h92, if_true]
        rw [if_neg (by decide)]
        show lexQuotedGo full (f + 1) ('\\' :: '\\' :: tail) acc = _
        rw [lexQuotedGo_escB, this]
      · simp only [if_neg h34, if_neg h92, List.cons_append, List.nil_append]
        have hne := ofNat_ne_special b.toNat (by omega) h34 h92
        rw [lexQuotedGo_lit _ _ _ _ _ hne.2 hne.1, utf8_ascii _ (by omega), UInt8.ofNat_toNat]

/-- **prefix lemma**: a rendered body costs one unit of fuel per byte and appends the bytes -/
theorem lexQuotedGo_renderQuoted (full : Input) (items : List (Esc × UInt8)) (f : Nat)
    (tail : Input) (acc : List UInt8) (hok : ∀ it ∈ items, escOk it = true) :
    lexQuotedGo full (f + items.length) (renderQuoted items ++ tail) acc =
      lexQuotedGo full f tail (acc ++ items.map (·.2)) := by
  induction items generalizing acc with
  | nil => simp [renderQuoted]
  | cons it items ih =>
    have h1 := hok it List.mem_cons_self
    have h2 := ih (acc ++ [it.2]) (fun x hx => hok x (List.mem_cons_of_mem _ hx))
    have e : renderQuoted (it :: items) ++ tail = renderEsc it ++ (renderQuoted items ++ tail) := by
      simp [renderQuoted]
    rw [e, List.length_cons, ← Nat.add_assoc, lexQuotedGo_renderEsc _ _ _ _ _ h1, h2]
    simp

theorem renderEsc_length_pos (it : Esc × UInt8) : 1 ≤ (renderEsc it).length := by
  obtain ⟨e, b⟩ := it
  cases e <;> simp only [renderEsc]
  · simp
  · simp
  · split
    · simp
    · split <;> simp

theorem renderQuoted_length (items : List (Esc × UInt8)) :
    items.length ≤ (renderQuoted items).length := by
  induction items with
  | nil => simp [renderQuoted]
  | cons it items ih =>
    have := renderEsc_length_pos it
    simp only [renderQuoted, List.flatMap_cons, List.length_append, List.length_cons] at ih ⊢
    omega

/-- `lexQuoted` on a rendered body followed by anything: runs the loop on the tail with at least
`tail.length + 1` fuel left. -/
theorem lexQuoted_prefix (items : List (Esc × UInt8)) (tail : Input)
    (hok : ∀ it ∈ items, escOk it = true) :
    ∃ f, tail.length + 1 ≤ f ∧
      lexQuoted (renderQuoted items ++ tail) =
        lexQuotedGo (renderQuoted items ++ tail) f tail (items.map (·.2)) := by
  have hl := renderQuoted_length items
  refine ⟨(renderQuoted items ++ tail).length + 1 - items.length, ?_, ?_⟩
  · simp only [List.length_append]; omega
  · unfold lexQuoted
    have e : (renderQuoted items ++ tail).length + 1 =
        ((renderQuoted items ++ tail).length + 1 - items.length) + items.length := by
      simp only [List.length_append]; omega
    have := lexQuotedGo_renderQuoted (renderQuoted items ++ tail) items
      ((renderQuoted items ++ tail).length + 1 - items.length) tail [] hok
    rw [← e] at this
    simpa using this

/-! ### quoted strings: results -/

theorem lexQuoted_render (items : List (Esc × UInt8)) (rest : Input)
    (hok : ∀ it ∈ items, escOk it = true) :
    lexQuoted (renderQuoted items ++ '"' :: rest) = .ok (items.map (·.2), rest) := by
  obtain ⟨f, hf, e⟩ := lexQuoted_prefix items ('"' :: rest) hok
  obtain ⟨f', rfl⟩ : ∃ f', f = f' + 1 := ⟨f - 1, by omega⟩
  rw [e, lexQuotedGo_quote]

/-- the next two characters are hex digits -/
def TwoHex : Input → Bool
  | a :: b :: _ => isAsciiHexDigit a && isAsciiHexDigit b
  | _ => false

/-- the next three characters are octal digits denoting a value ≤ 255 (`000`–`377`) -/
def ThreeOct : Input → Bool
  | a :: b :: c :: _ => ('0' ≤ a && a ≤ '3') && isOctDigit b && isOctDigit c
  | _ => false

theorem fixedByte_two_bad (r : Input) (h : TwoHex r = false) : ∃ e, fixedByte r 2 16 = .error e := by
  match r, h with
  | [], _ => exact ⟨_, rfl⟩
  | [_], _ => exact ⟨_, rfl⟩
  | a :: b :: r', h =>
    have hp : parseDigits 16 [a, b] = none := by
      rw [parseDigits_two_eq]
      simp only [TwoHex, Bool.and_eq_false_iff] at h
      rcases h with h | h
      · have := digitVal_of_not_hex a h
        rw [pdStep_none_of (some 0) a (by simp [this])]; rfl
      · have := digitVal_of_not_hex b h
        exact pdStep_none_of _ b (by simp [this])
    have hl : ¬ (r'.length + 1 + 1 < 2) := by omega
    refine ⟨{ kind := .parseInt, pos := a :: b :: r', len := (a :: b :: r').length - r'.length }, ?_⟩
    simp only [fixedByte, take, List.length_cons, if_neg hl, List.take_succ_cons, List.take_zero,
      List.drop_succ_cons, List.drop_zero, hp]
    rfl

theorem fixedByte_two_good (r : Input) (h : TwoHex r = true) :
    ∃ b r', fixedByte r 2 16 = .ok (b, r') := by
  match r, h with
  | a :: b :: r', h =>
    simp only [TwoHex, Bool.and_eq_true] at h
    obtain ⟨da, ha, la⟩ := digitVal_of_hex a h.1
    obtain ⟨db, hb, lb⟩ := digitVal_of_hex b h.2
    exact ⟨_, _, fixedByte_two a b r' _ (parseDigits_two a b da db ha hb la lb) (by omega)⟩

theorem isOctDigit_iff (c : Char) : isOctDigit c = true ↔ 48 ≤ c.toNat ∧ c.toNat ≤ 55 := by
  unfold isOctDigit
  simp only [Bool.and_eq_true, decide_eq_true_eq, char_le_iff]
  have e0 : ('0' : Char).toNat = 48 := by decide
  have e7 : ('7' : Char).toNat = 55 := by decide
  rw [e0, e7]

theorem digitVal_of_oct (c : Char) (h : isOctDigit c = true) :
    digitVal c = some (c.toNat - 48) ∧ c.toNat - 48 < 8 := by
  rw [isOctDigit_iff] at h
  rw [digitVal_nat, if_pos (by omega)]
  exact ⟨rfl, by omega⟩

theorem digitVal_of_not_oct (c : Char) (h : isOctDigit c = false) :
    ∀ d, digitVal c = some d → 8 ≤ d := by
  have h' : ¬ (isOctDigit c = true) := by simp [h]
  rw [isOctDigit_iff] at h'
  rw [digitVal_nat]
  intro d
  split
  · intro e; injection e; omega
  · split
    · intro e; injection e; omega
    · split
      · intro e; injection e; omega
      · intro e; cases e

theorem fixedByte_three_bad (r : Input) (h : ThreeOct r = false) :
    ∃ e, fixedByte r 3 8 = .error e := by
  match r, h with
  | [], _ => exact ⟨_, rfl⟩
  | [_], _ => exact ⟨_, rfl⟩
  | [_, _], _ => exact ⟨_, rfl⟩
  | a :: b :: c :: r', h =>
    have hl : ¬ (r'.length + 1 + 1 + 1 < 3) := by omega
    have key : ∀ v, parseDigits 8 [a, b, c] = some v → 255 < v := by
      intro v hv
      rw [parseDigits_three_eq] at hv
      by_cases ha : isOctDigit a = true
      · by_cases hb : isOctDigit b = true
        · by_cases hc : isOctDigit c = true
          · obtain ⟨ea, la⟩ := digitVal_of_oct a ha
            obtain ⟨eb, lb⟩ := digitVal_of_oct b hb
            obtain ⟨ec, lc⟩ := digitVal_of_oct c hc
            rw [pdStep_some a ea la, pdStep_some b eb lb, pdStep_some c ec lc] at hv
            injection hv with hv
            have h3 : ¬ (a.toNat ≤ 51) := by
              intro h3
              have : ThreeOct (a :: b :: c :: r') = true := by
                simp only [ThreeOct, hb, hc, Bool.and_true, Bool.and_eq_true, decide_eq_true_eq,
                  char_le_iff]
                have e0 : ('0' : Char).toNat = 48 := by decide
                have e3 : ('3' : Char).toNat = 51 := by decide
                rw [e0, e3]
                rw [isOctDigit_iff] at ha
                omega
              rw [this] at h; cases h
            rw [isOctDigit_iff] at ha
            omega
          · have hc' : isOctDigit c = false := by simpa using hc
            rw [pdStep_none_of _ c (digitVal_of_not_oct c hc')] at hv; cases hv
        · have hb' : isOctDigit b = false := by simpa using hb
          rw [pdStep_none_of _ b (digitVal_of_not_oct b hb')] at hv; cases hv
      · have ha' : isOctDigit a = false := by simpa using ha
        rw [pdStep_none_of _ a (digitVal_of_not_oct a ha')] at hv; cases hv
    refine ⟨{ kind := .parseInt, pos := a :: b :: c :: r', len := (a :: b :: c :: r').length - r'.length }, ?_⟩
    simp only [fixedByte, take, List.length_cons, if_neg hl, List.take_succ_cons, List.take_zero,
      List.drop_succ_cons, List.drop_zero]
    cases hp : parseDigits 8 [a, b, c] with
    | none => rfl
    | some v =>
      have := key v hp
      have : ¬ v ≤ 255 := by omega
      simp only [if_neg this]
      rfl

theorem lexQuoted_bad_hex (items : List (Esc × UInt8)) (r : Input)
    (hok : ∀ it ∈ items, escOk it = true) (h : TwoHex r = false) :
    ∃ e, lexQuoted (renderQuoted items ++ '\\' :: 'x' :: r) = .error e := by
  obtain ⟨f, hf, e⟩ := lexQuoted_prefix items ('\\' :: 'x' :: r) hok
  obtain ⟨f', rfl⟩ : ∃ f', f = f' + 1 := ⟨f - 1, by omega⟩
  obtain ⟨err, he⟩ := fixedByte_two_bad r h
  exact ⟨err, by rw [e, lexQuotedGo_x, he]⟩

theorem lexQuoted_bad_oct (items : List (Esc × UInt8)) (c : Char) (r : Input)
    (hok : ∀ it ∈ items, escOk it = true) (hc : isOctDigit c = true)
    (h : ThreeOct (c :: r) = false) :
    ∃ e, lexQuoted (renderQuoted items ++ '\\' :: c :: r) = .error e := by
  obtain ⟨f, hf, e⟩ := lexQuoted_prefix items ('\\' :: c :: r) hok
  obtain ⟨f', rfl⟩ : ∃ f', f = f' + 1 := ⟨f - 1, by omega⟩
  obtain ⟨err, he⟩ := fixedByte_three_bad (c :: r) h
  exact ⟨err, by rw [e, lexQuotedGo_o _ _ _ _ _ hc, he]⟩

theorem lexQuoted_unknown_escape (items : List (Esc × UInt8)) (c : Char) (r : Input)
    (hok : ∀ it ∈ items, escOk it = true)
    (h1 : c ≠ '"') (h2 : c ≠ '\\') (h3 : c ≠ 'x') (h4 : isOctDigit c = false) :
    lexQuoted (renderQuoted items ++ '\\' :: c :: r) =
      .error { kind := .invalidCharacterEscape, pos := c :: r, len := 1 } := by
  obtain ⟨f, hf, e⟩ := lexQuoted_prefix items ('\\' :: c :: r) hok
  obtain ⟨f', rfl⟩ : ∃ f', f = f' + 1 := ⟨f - 1, by omega⟩
  rw [e, lexQuotedGo_unknown _ _ _ _ _ h1 h2 h3 h4]

theorem lexQuoted_unterminated (items : List (Esc × UInt8))
    (hok : ∀ it ∈ items, escOk it = true) :
    lexQuoted (renderQuoted items) = errAt .missingEndingQuote (renderQuoted items) := by
  obtain ⟨f, hf, e⟩ := lexQuoted_prefix items [] hok
  obtain ⟨f', rfl⟩ : ∃ f', f = f' + 1 := ⟨f - 1, by omega⟩
  rw [List.append_nil] at e
  rw [e, lexQuotedGo_nil]

theorem lexQuoted_unterminated_backslash (items : List (Esc × UInt8))
    (hok : ∀ it ∈ items, escOk it = true) :
    lexQuoted (renderQuoted items ++ ['\\']) =
      errAt .missingEndingQuote (renderQuoted items ++ ['\\']) := by
  obtain ⟨f, hf, e⟩ := lexQuoted_prefix items ['\\'] hok
  obtain ⟨f', rfl⟩ : ∃ f', f = f' + 1 := ⟨f - 1, by omega⟩
  rw [e, lexQuotedGo_backslash_end]

/-! ### raw strings -/

def hashes (k : Nat) : List Char := List.replicate k '#'

/-- no `"` in the body is followed by `k` or more `#` -/
def rawBodyOk (k : Nat) : List Char → Bool
  | [] => true
  | c :: r => !(c = '"' && countHashes r ≥ k) && rawBodyOk k r

theorem countHashes_hash (r : Input) : countHashes ('#' :: r) = countHashes r + 1 := rfl

theorem countHashes_other (c : Char) (r : Input) (h : c ≠ '#') : countHashes (c :: r) = 0 := by
  unfold countHashes
  split
  · rename_i h'; injection h' with h' _; exact absurd h' h
  · rfl

theorem countHashes_nil : countHashes [] = 0 := rfl

theorem countHashes_hashes_ge (k : Nat) (t : Input) : k ≤ countHashes (hashes k ++ t) := by
  induction k with
  | zero => exact Nat.zero_le _
  | succ k ih =>
    show k + 1 ≤ countHashes ('#' :: (hashes k ++ t))
    rw [countHashes_hash]; omega

theorem countHashes_hashes_stop (k : Nat) (c : Char) (t : Input) (h : c ≠ '#') :
    countHashes (hashes k ++ c :: t) = k := by
  induction k with
  | zero => exact countHashes_other c t h
  | succ k ih =>
    show countHashes ('#' :: (hashes k ++ c :: t)) = k + 1
    rw [countHashes_hash, ih]

theorem drop_hashes (k : Nat) (t : Input) : (hashes k ++ t).drop k = t := by
  have : (hashes k).length = k := by simp [hashes]
  rw [List.drop_append_of_le_length (by omega)]
  simp [hashes]

/-- hashes counted from inside the body stop at the closing quote -/
theorem countHashes_append_quote (r t : Input) :
    countHashes (r ++ '"' :: t) = countHashes r := by
  induction r with
  | nil => exact countHashes_other '"' t (by decide)
  | cons c r ih =>
    by_cases hc : c = '#'
    · subst hc
      show countHashes ('#' :: (r ++ '"' :: t)) = countHashes ('#' :: r)
      rw [countHashes_hash, countHashes_hash, ih]
    · show countHashes (c :: (r ++ '"' :: t)) = countHashes (c :: r)
      rw [countHashes_other c _ hc, countHashes_other c _ hc]

theorem rawScan_body (k : Nat) (body rest : Input) (acc : List Char)
    (hb : rawBodyOk k body = true) :
    rawScan k (body ++ '"' :: (hashes k ++ rest)) acc = some (acc.reverse ++ body, rest) := by
  induction body generalizing acc with
  | nil =>
    show rawScan k ('"' :: (hashes k ++ rest)) acc = _
    have := countHashes_hashes_ge k rest
    simp [rawScan, this, drop_hashes]
  | cons c body ih =>
    simp only [rawBodyOk, Bool.and_eq_true, Bool.not_eq_true', Bool.and_eq_false_iff,
      decide_eq_false_iff_not] at hb
    have hcnt : ¬ (c = '"' ∧ countHashes (body ++ '"' :: (hashes k ++ rest)) ≥ k) := by
      rw [countHashes_append_quote]
      rintro ⟨h1, h2⟩
      rcases hb.1 with h | h
      · exact h h1
      · exact h h2
    have := ih (c :: acc) hb.2
    show rawScan k (c :: (body ++ '"' :: (hashes k ++ rest))) acc = _
    rw [rawScan]
    have e : (c = '"' && countHashes (body ++ '"' :: (hashes k ++ rest)) ≥ k) = false := by
      simp only [Bool.and_eq_false_iff, decide_eq_false_iff_not]
      by_cases h1 : c = '"'
      · exact Or.inr (fun h2 => hcnt ⟨h1, h2⟩)
      · exact Or.inl h1
    rw [e]
    simp only [Bool.false_eq_true, if_false]
    rw [this]
    simp

theorem lexRawStr_render (k : Nat) (hk : k ≤ 255) (body rest : Input)
    (hb : rawBodyOk k body = true) :
    lexRawStr (hashes k ++ '"' :: (body ++ '"' :: (hashes k ++ rest))) = .ok ((body, k), rest) := by
  unfold lexRawStr
  have hc := countHashes_hashes_stop k '"' (body ++ '"' :: (hashes k ++ rest)) (by decide)
  simp only [hc, drop_hashes]
  rw [if_neg (by omega), rawScan_body k body rest [] hb]
  rfl

theorem lexRawStr_too_many (k : Nat) (hk : 256 ≤ k) (t : Input) :
    lexRawStr (hashes k ++ t) = errAt .invalidRawStringHashCount (hashes k ++ t) := by
  unfold lexRawStr
  have := countHashes_hashes_ge k t
  simp only
  rw [if_pos (by omega)]

/-- unterminated raw string: no closing `"` + `k` hashes anywhere -/
theorem rawScan_none (k : Nat) (body : Input) (acc : List Char) (hb : rawBodyOk k body = true) :
    rawScan k body acc = none := by
  induction body generalizing acc with
  | nil => rfl
  | cons c body ih =>
    simp only [rawBodyOk, Bool.and_eq_true, Bool.not_eq_true'] at hb
    rw [rawScan, hb.1]
    simp only [Bool.false_eq_true, if_false]
    exact ih _ hb.2

theorem lexRawStr_unterminated (k : Nat) (hk : k ≤ 255) (body : Input)
    (hb : rawBodyOk k body = true) :
    lexRawStr (hashes k ++ '"' :: body) = errAt .missingEndingQuote (hashes k ++ '"' :: body) := by
  unfold lexRawStr
  have hc := countHashes_hashes_stop k '"' body (by decide)
  simp only [hc, drop_hashes]
  rw [if_neg (by omega), rawScan_none k body [] hb]

/-! ### hex pairs -/

structure HexPair where
  /-- upper case for the first / second digit -/
  u1 : Bool
  u2 : Bool
  b : UInt8
deriving Repr

def renderPair (p : HexPair) : List Char :=
  [hexDigit p.u1 (p.b.toNat / 16), hexDigit p.u2 (p.b.toNat % 16)]

/-- `sep pair sep pair …` -/
def renderPairsTail (items : List (Char × HexPair)) : List Char :=
  items.flatMap fun it => it.1 :: renderPair it.2

def NoSepHead (rest : Input) : Bool := headNot isByteSep rest

theorem fixedByte_renderPair (p : HexPair) (t : Input) :
    fixedByte (renderPair p ++ t) 2 16 = .ok (p.b, t) := by
  have hb : p.b.toNat < 256 := p.b.toNat_lt
  have hp := parseDigits_two (radix := 16) _ _ _ _
    (digitVal_hexDigit p.u1 (p.b.toNat / 16) (by omega))
    (digitVal_hexDigit p.u2 (p.b.toNat % 16) (by omega)) (by omega) (by omega)
  have hv : p.b.toNat / 16 * 16 + p.b.toNat % 16 = p.b.toNat := by omega
  rw [hv] at hp
  have := fixedByte_two _ _ t _ hp (by omega)
  rw [UInt8.ofNat_toNat] at this
  exact this

theorem lexByteSep_headNot (rest : Input) (h : NoSepHead rest = true) : lexByteSep rest = none := by
  cases rest with
  | nil => rfl
  | cons c r =>
    simp only [NoSepHead, headNot, Bool.not_eq_true'] at h
    simp [lexByteSep, h]

theorem lexByteStringGo_render (p : HexPair) (items : List (Char × HexPair)) (rest : Input)
    (f : Nat) (acc : Bytes) (hsep : ∀ it ∈ items, isByteSep it.1 = true)
    (hr : NoSepHead rest = true) :
    lexByteStringGo (f + 1 + items.length) (renderPair p ++ (renderPairsTail items ++ rest)) acc =
      .ok (acc ++ p.b :: items.map (·.2.b), rest) := by
  induction items generalizing p acc with
  | nil =>
    show lexByteStringGo (f + 1) (renderPair p ++ ([] ++ rest)) acc = _
    rw [List.nil_append, lexByteStringGo, fixedByte_renderPair]
    simp only [lexByteSep_headNot rest hr]
    simp
  | cons it items ih =>
    have hs := hsep it List.mem_cons_self
    have := ih it.2 (acc ++ [p.b]) (fun x hx => hsep x (List.mem_cons_of_mem _ hx))
    have e : renderPairsTail (it :: items) ++ rest =
        it.1 :: (renderPair it.2 ++ (renderPairsTail items ++ rest)) := by
      simp [renderPairsTail]
    rw [e, List.length_cons, ← Nat.add_assoc, lexByteStringGo, fixedByte_renderPair]
    simp only [lexByteSep, hs, if_true]
    rw [this]
    simp

theorem renderPairsTail_length (items : List (Char × HexPair)) :
    (renderPairsTail items).length = 3 * items.length := by
  induction items with
  | nil => rfl
  | cons it items ih =>
    simp only [renderPairsTail, List.flatMap_cons, List.length_append, List.length_cons,
      renderPair, List.length_nil] at ih ⊢
    omega

theorem lexByteString_render (p0 : HexPair) (it : Char × HexPair) (items : List (Char × HexPair))
    (rest : Input) (hsep : ∀ x ∈ it :: items, isByteSep x.1 = true) (hr : NoSepHead rest = true) :
    lexByteString (renderPair p0 ++ (renderPairsTail (it :: items) ++ rest)) =
      .ok (p0.b :: (it :: items).map (·.2.b), rest) := by
  have hs := hsep it List.mem_cons_self
  have e : renderPairsTail (it :: items) ++ rest =
      it.1 :: (renderPair it.2 ++ (renderPairsTail items ++ rest)) := by
    simp [renderPairsTail]
  unfold lexByteString
  rw [fixedByte_renderPair, e]
  simp only [lexByteSepE, hs, if_true]
  have hlen : (renderPair it.2 ++ (renderPairsTail items ++ rest)).length + 1 =
      (1 + 2 * items.length + rest.length + 1) + 1 + items.length := by
    simp only [List.length_append, renderPairsTail_length, renderPair, List.length_cons,
      List.length_nil]
    omega
  rw [hlen, lexByteStringGo_render it.2 items rest _ [p0.b]
    (fun x hx => hsep x (List.mem_cons_of_mem _ hx)) hr]
  simp

/-- a single pair is not a byte string -/
theorem lexByteString_single (p0 : HexPair) (rest : Input) (hr : NoSepHead rest = true) :
    ∃ e, lexByteString (renderPair p0 ++ rest) = .error e := by
  unfold lexByteString
  rw [fixedByte_renderPair]
  cases rest with
  | nil => exact ⟨_, rfl⟩
  | cons c r =>
    simp only [NoSepHead, headNot, Bool.not_eq_true'] at hr
    simp only [lexByteSepE, hr]
    exact ⟨_, rfl⟩

theorem lexByteString_bad_first (r : Input) (h : TwoHex r = false) :
    ∃ e, lexByteString r = .error e := by
  obtain ⟨err, he⟩ := fixedByte_two_bad r h
  exact ⟨err, by unfold lexByteString; rw [he]⟩

theorem lexByteStringGo_bad (p : HexPair) (items : List (Char × HexPair)) (sep : Char) (r : Input)
    (f : Nat) (acc : Bytes) (hsep : ∀ it ∈ items, isByteSep it.1 = true)
    (hs : isByteSep sep = true) (h : TwoHex r = false) :
    ∃ e, lexByteStringGo (f + 2 + items.length)
      (renderPair p ++ (renderPairsTail items ++ sep :: r)) acc = .error e := by
  induction items generalizing p acc with
  | nil =>
    obtain ⟨err, he⟩ := fixedByte_two_bad r h
    refine ⟨err, ?_⟩
    show lexByteStringGo (f + 1 + 1) (renderPair p ++ ([] ++ sep :: r)) acc = _
    rw [List.nil_append, lexByteStringGo, fixedByte_renderPair]
    simp only [lexByteSep, hs, if_true]
    rw [lexByteStringGo, he]
  | cons it items ih =>
    have hs' := hsep it List.mem_cons_self
    obtain ⟨err, he⟩ := ih it.2 (acc ++ [p.b]) (fun x hx => hsep x (List.mem_cons_of_mem _ hx))
    refine ⟨err, ?_⟩
    have e : renderPairsTail (it :: items) ++ sep :: r =
        it.1 :: (renderPair it.2 ++ (renderPairsTail items ++ sep :: r)) := by
      simp [renderPairsTail]
    rw [e, List.length_cons, ← Nat.add_assoc, lexByteStringGo, fixedByte_renderPair]
    simp only [lexByteSep, hs', if_true]
    exact he

/-- a malformed pair (e.g. one carrying a sign) after any number of good pairs -/
theorem lexByteString_bad_later (p0 : HexPair) (items : List (Char × HexPair)) (sep : Char)
    (r : Input) (hsep : ∀ x ∈ items, isByteSep x.1 = true) (hs : isByteSep sep = true)
    (h : TwoHex r = false) :
    ∃ e, lexByteString (renderPair p0 ++ (renderPairsTail items ++ sep :: r)) = .error e := by
  cases items with
  | nil =>
    obtain ⟨err, he⟩ := fixedByte_two_bad r h
    refine ⟨err, ?_⟩
    unfold lexByteString
    have e0 : renderPairsTail [] ++ sep :: r = sep :: r := rfl
    rw [e0, fixedByte_renderPair]
    simp only [lexByteSepE, hs, if_true]
    rw [lexByteStringGo, he]
  | cons it items =>
    have hs' := hsep it List.mem_cons_self
    have e : renderPairsTail (it :: items) ++ sep :: r =
        it.1 :: (renderPair it.2 ++ (renderPairsTail items ++ sep :: r)) := by
      simp [renderPairsTail]
    unfold lexByteString
    rw [fixedByte_renderPair, e]
    simp only [lexByteSepE, hs', if_true]
    have hlen : (renderPair it.2 ++ (renderPairsTail items ++ sep :: r)).length + 1 =
        (2 * items.length + r.length + 2) + 2 + items.length := by
      simp only [List.length_append, renderPairsTail_length, renderPair, List.length_cons,
        List.length_nil]
      omega
    rw [hlen]
    exact lexByteStringGo_bad it.2 items sep r _ [p0.b]
      (fun x hx => hsep x (List.mem_cons_of_mem _ hx)) hs h

end WfModel
