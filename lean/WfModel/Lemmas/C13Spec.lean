import WfModel.Model.Parse
/-!
# C13 — the specification-side nesting measure

`Spec.nest*` is the specification-side nesting measure. The parser of `Model/Parse.lean`
is defined by recursion on the remaining budget; all lemmas are stated per level function
with a hypothesis about the level below (`lower`).
-/
namespace WfModel
namespace Spec

mutual
/-- nesting of a `LogicalExpr`: parentheses, `not` and quantifiers add one level -/
def nestL : LExpr → Nat
  | .combining _ items => nestLs items
  | .comparison lhs _ => nestI lhs
  | .paren e => nestL e + 1
  | .unaryNot e => nestL e + 1
  | .quantifier _ a => nestQ a + 1
def nestLs : List LExpr → Nat
  | [] => 0
  | e :: es => max (nestL e) (nestLs es)
/-- a function call's argument list adds one level -/
def nestI : IExpr → Nat
  | .field _ _ => 0
  | .call _ args _ _ => nestAs args + 1
def nestAs : List AExpr → Nat
  | [] => 0
  | a :: as => max (nestA a) (nestAs as)
def nestA : AExpr → Nat
  | .index e => nestI e
  | .literal _ => 0
  | .logical e => nestL e
def nestQ : QArg → Nat
  | .index e => nestI e
  | .logical e => nestL e
end

/-- `Spec.nesting` of a filter AST -/
abbrev nesting : LExpr → Nat := nestL

theorem nestLs_append (a b : List LExpr) : nestLs (a ++ b) = max (nestLs a) (nestLs b) := by
  induction a with
  | nil => simp [nestLs]
  | cons x xs ih => simp only [List.cons_append, nestLs, ih]; omega

theorem nestAs_append (a b : List AExpr) : nestAs (a ++ b) = max (nestAs a) (nestAs b) := by
  induction a with
  | nil => simp [nestAs]
  | cons x xs ih => simp only [List.cons_append, nestAs, ih]; omega

theorem nestLs_single (e : LExpr) : nestLs [e] = nestL e := by simp [nestLs]
theorem nestAs_single (e : AExpr) : nestAs [e] = nestA e := by simp [nestAs]

/-- `combine` takes the max of its parts -/
theorem nestL_combine (op : LogicalOp) (l r : LExpr) :
    nestL (combine op l r) = max (nestL l) (nestL r) := by
  unfold combine
  split
  · split
    · simp only [nestL, nestLs_append, nestLs_single]
    · simp only [nestL, nestLs]; omega
  · simp only [nestL, nestLs]; omega

end Spec
end WfModel
