import WfModel.Lemmas.C07.Lex
import WfModel.Lemmas.C07.Defs
import WfModel.Lemmas.C07.Utf8
import WfModel.Lemmas.C07.Str
import WfModel.Lemmas.C07.Json
import WfModel.Lemmas.C07.Inj
import WfModel.Lemmas.C06V6

/-!
# C07 — helper lemmas (umbrella)

* `C07/Lex.lean`  — `stripPrefix`/`lexEnum` characterisation, the concrete operator tables,
  `skipSpace`, `lexCombiningOp`.
* `C07/Defs.lean` — `stripParens`, `norm`, range predicates `ok…`, `SameLitKinds`, `V6InjOn`.
* `C07/Utf8.lean` — the strict UTF-8 decoder is injective.
* `C07/Str.lean`  — decimal / IPv4 / CIDR printing is injective; `v6Str` character facts.
* `C07/Json.lean` — leaves of the JSON document are injective modulo `norm`.
* `C07/Inj.lean`  — the mutual induction: equal JSON ⇒ equal `norm`.
* `C06V6.lean`    — (shared with C06) the parser model reads back `v6Str`; hence `v6Str` is injective.
-/

namespace WfModel.C07L

open WfModel WfModel.C07

/-- the (Rust variant name, `"op"` string) pairs of the model's comparison constructors that
have a hand-written serializer in `field_expr.rs`, in source order (`opName` is the head of
`cmpOpFields` for every argument, see `cmpOpFields_head`). -/
def modelSerializerOps : List (String × String) :=
  [("IsTrue", opName .isTrue),
   ("Contains", opName (.contains default)),
   ("Matches", opName (.matches [] .literal)),
   ("Wildcard", opName (.wildcard false default)),
   ("StrictWildcard", opName (.wildcard true default)),
   ("OneOf", opName (.oneOf (.int []))),
   ("InList", opName (.inList 0 []))]

/-- `opName` does not depend on the arguments of a constructor (only on `opTag`), except for
the operator of an `ordering` node. -/
theorem opName_of_tag {o o' : CmpOp} (h : opTag o = opTag o') (h1 : opTag o ≠ 1) :
    opName o = opName o' := by
  cases o with
  | wildcard st _ =>
    cases o' with
    | wildcard st' _ => cases st <;> cases st' <;> first | rfl | simp [opTag] at h
    | _ => cases st <;> simp [opTag] at h
  | ordering _ _ => simp [opTag] at h1
  | _ =>
    cases o' with
    | wildcard st' _ => cases st' <;> simp [opTag] at h
    | _ => first | rfl | simp [opTag] at h

/-- the keys of a comparison node after `"lhs"`: `op` alone for `IsTrue`, else `op`, `rhs` -/
theorem cmpOpFields_keys (o : CmpOp) :
    (cmpOpFields o).map Prod.fst = if opTag o = 0 then ["op"] else ["op", "rhs"] := by
  cases o with
  | wildcard st _ => cases st <;> rfl
  | _ => rfl

end WfModel.C07L

namespace WfModel.C07

/-! ### the concrete instance used by the `example`s of `Props/C07.lean` -/

/-- `ip.src : Ip`, `name : Bytes`, `n : Int`; one function `lower(Bytes) → Bytes` -/
def exScheme : Scheme :=
  { fields := [⟨"ip.src".toList, .ip, false⟩, ⟨"name".toList, .bytes, false⟩,
      ⟨"n".toList, .int, false⟩],
    funcs := [("lower".toList, .simple [(.field, .bytes)] [] .bytes 0)],
    lists := [] }

/-- `(ip.src == 1.2.3.4) && !(lower(name) contains r#"x"#) && n in {1..5}` -/
def exA : LExpr :=
  .combining .and
    [.paren (.comparison (.field 0 []) (.ordering .eq (.ip (.v4 16909060)))),
     .unaryNot (.paren (.comparison (.call 0 [.index (.field 1 [])] (some 3) [])
       (.contains ⟨.raw 1, [120]⟩))),
     .comparison (.field 2 []) (.oneOf (.int [(1, 5)]))]

/-- `ip.src eq 1.2.3.4 and not lower(name) contains "x" and n in {1..5}` -/
def exB : LExpr :=
  .combining .and
    [.comparison (.field 0 []) (.ordering .eq (.ip (.v4 16909060))),
     .unaryNot (.comparison (.call 0 [.index (.field 1 [])] none [])
       (.contains ⟨.quoted, [120]⟩)),
     .comparison (.field 2 []) (.oneOf (.int [(1, 5)]))]

end WfModel.C07
