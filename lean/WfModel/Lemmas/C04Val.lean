import WfModel.Lemmas.C04WTBasic
namespace WfModel
open Spec

/-- a well-formed value of type `t` -/
def HasTy (v : Val) (t : Ty) : Prop := v.typeOf = t ∧ v.wf = true

theorem wfList_iff (t : Ty) : ∀ (xs : List Val),
    Val.wfList t xs = true ↔ ∀ x ∈ xs, HasTy x t
  | [] => by simp [Val.wfList]
  | x :: xs => by
    simp only [Val.wfList, Bool.and_eq_true, beq_iff_eq, wfList_iff t xs, List.mem_cons,
      forall_eq_or_imp, HasTy]

theorem wfKvs_iff (t : Ty) : ∀ (kvs : List (Bytes × Val)),
    Val.wfKvs t kvs = true ↔ ∀ kv ∈ kvs, HasTy kv.2 t
  | [] => by simp [Val.wfKvs]
  | (k, x) :: xs => by
    simp only [Val.wfKvs, Bool.and_eq_true, beq_iff_eq, wfKvs_iff t xs, List.mem_cons,
      forall_eq_or_imp, HasTy]

theorem HasTy.array_elems {t e : Ty} {xs : List Val} (h : HasTy (.array e xs) t) :
    t = .array e ∧ ∀ x ∈ xs, HasTy x e := by
  obtain ⟨h1, h2⟩ := h
  simp only [Val.typeOf] at h1
  simp only [Val.wf] at h2
  exact ⟨h1.symm, (wfList_iff e xs).mp h2⟩

theorem HasTy.map_elems {t e : Ty} {kvs : List (Bytes × Val)} (h : HasTy (.map e kvs) t) :
    t = .map e ∧ ∀ kv ∈ kvs, HasTy kv.2 e := by
  obtain ⟨h1, h2⟩ := h
  simp only [Val.typeOf] at h1
  simp only [Val.wf, Bool.and_eq_true] at h2
  exact ⟨h1.symm, (wfKvs_iff e kvs).mp h2.1⟩

theorem HasTy.mk_array {e : Ty} {xs : List Val} (h : ∀ x ∈ xs, HasTy x e) :
    HasTy (.array e xs) (.array e) :=
  ⟨rfl, by simp only [Val.wf]; exact (wfList_iff e xs).mpr h⟩

/-- canonical forms -/
theorem HasTy.bool_inv {v : Val} (h : HasTy v .bool) : ∃ b, v = .bool b := by
  cases v <;> simp [HasTy, Val.typeOf] at h ⊢
theorem HasTy.int_inv {v : Val} (h : HasTy v .int) : ∃ b, v = .int b := by
  cases v <;> simp [HasTy, Val.typeOf] at h ⊢
theorem HasTy.ip_inv {v : Val} (h : HasTy v .ip) : ∃ b, v = .ip b := by
  cases v <;> simp [HasTy, Val.typeOf] at h ⊢
theorem HasTy.bytes_inv {v : Val} (h : HasTy v .bytes) : ∃ b, v = .bytes b := by
  cases v <;> simp [HasTy, Val.typeOf] at h ⊢
theorem HasTy.array_inv {v : Val} {e : Ty} (h : HasTy v (.array e)) :
    ∃ xs, v = .array e xs ∧ ∀ x ∈ xs, HasTy x e := by
  cases v with
  | array t xs =>
    obtain ⟨h1, h2⟩ := h.array_elems
    injection h1 with h1; subst h1
    exact ⟨xs, rfl, h2⟩
  | _ => simp [HasTy, Val.typeOf] at h
theorem HasTy.map_inv {v : Val} {e : Ty} (h : HasTy v (.map e)) :
    ∃ kvs, v = .map e kvs ∧ ∀ kv ∈ kvs, HasTy kv.2 e := by
  cases v with
  | map t kvs =>
    obtain ⟨h1, h2⟩ := h.map_elems
    injection h1 with h1; subst h1
    exact ⟨kvs, rfl, h2⟩
  | _ => simp [HasTy, Val.typeOf] at h

theorem mapGet_mem {kvs : List (Bytes × Val)} {k : Bytes} {x : Val} (h : mapGet kvs k = some x) :
    ∃ kv ∈ kvs, kv.2 = x := by
  unfold mapGet at h
  cases hf : kvs.find? (fun kv => kv.1 == k) with
  | none => simp [hf] at h
  | some kv =>
    simp only [hf, Option.map_some, Option.some.injEq] at h
    exact ⟨kv, List.mem_of_find?_eq_some hf, h⟩

/-- one index step on a typed value: no `unwrap` failure, result typed -/
theorem indexIterItems_typed {v : Val} {t t' : Ty} {ix : FieldIndex} (hv : HasTy v t)
    (hs : indexStep t ix = some t') :
    ∃ items, indexIterItems v ix = .ok items ∧ ∀ x ∈ items, HasTy x t' := by
  cases ix with
  | arr n =>
    cases t <;> simp only [indexStep, Option.some.injEq, reduceCtorEq] at hs
    subst hs
    obtain ⟨xs, rfl, hx⟩ := hv.array_inv
    refine ⟨_, rfl, ?_⟩
    intro x hm
    cases hg : xs[n]? with
    | none => simp [hg] at hm
    | some y =>
      simp only [hg, List.mem_singleton] at hm
      subst hm
      exact hx _ (List.mem_of_getElem? hg)
  | key k =>
    cases t <;> simp only [indexStep, Option.some.injEq, reduceCtorEq] at hs
    subst hs
    obtain ⟨kvs, rfl, hx⟩ := hv.map_inv
    refine ⟨_, rfl, ?_⟩
    intro x hm
    cases hg : mapGet kvs (utf8s k) with
    | none => simp [hg] at hm
    | some y =>
      simp only [hg, List.mem_singleton] at hm
      subst hm
      obtain ⟨kv, hkv, rfl⟩ := mapGet_mem hg
      exact hx _ hkv
  | each =>
    cases t <;> simp only [indexStep, Option.some.injEq, reduceCtorEq] at hs
    · subst hs
      obtain ⟨xs, rfl, hx⟩ := hv.array_inv
      exact ⟨_, rfl, hx⟩
    · subst hs
      obtain ⟨kvs, rfl, hx⟩ := hv.map_inv
      refine ⟨_, rfl, ?_⟩
      intro x hm
      obtain ⟨kv, hkv, rfl⟩ := List.mem_map.mp hm
      exact hx _ hkv

theorem mapEachCount_arr (n : Nat) (r : List FieldIndex) :
    mapEachCount (.arr n :: r) = mapEachCount r := rfl
theorem mapEachCount_key (k : List Char) (r : List FieldIndex) :
    mapEachCount (.key k :: r) = mapEachCount r := rfl
theorem mapEachCount_each (r : List FieldIndex) :
    mapEachCount (.each :: r) = mapEachCount r + 1 := rfl

/-- `get_nested` along a `[*]`-free well-typed path: no `unwrap` failure, result typed -/
theorem getNested_typed {t t' : Ty} {ixs : List FieldIndex} (hi : IdxOk t ixs t') :
    ∀ {v : Val}, HasTy v t → mapEachCount ixs = 0 →
    ∃ o, getNested v ixs = .ok o ∧ ∀ x, o = some x → HasTy x t' := by
  induction hi with
  | nil t => intro v hv _; exact ⟨some v, rfl, fun x hx => by injection hx with hx; subst hx; exact hv⟩
  | @arr e t' r n _ ih =>
    intro v hv hm
    obtain ⟨xs, rfl, hx⟩ := hv.array_inv
    have hm' : mapEachCount r = 0 := hm
    simp only [getNested, Val.get]
    cases hg : xs[n]? with
    | none => exact ⟨none, rfl, fun x hx => by cases hx⟩
    | some y => exact ih (hx _ (List.mem_of_getElem? hg)) hm'
  | @key e t' r k _ ih =>
    intro v hv hm
    obtain ⟨kvs, rfl, hx⟩ := hv.map_inv
    have hm' : mapEachCount r = 0 := hm
    simp only [getNested, Val.get]
    cases hg : mapGet kvs (utf8s k) with
    | none => exact ⟨none, rfl, fun x hx => by cases hx⟩
    | some y =>
      obtain ⟨kv, hkv, rfl⟩ := mapGet_mem hg
      exact ih (hx _ hkv) hm'
  | eachA _ _ => intro v _ hm; rw [mapEachCount_each] at hm; omega
  | eachM _ _ => intro v _ hm; rw [mapEachCount_each] at hm; omega

end WfModel
