import WfModel.Model.Rx
import WfModel.Model.Search

/-!
Helper lemmas for the regex half of C11: the declarative language `Rx.Matches` and the
correctness of the position-aware derivative matcher of `WfModel/Model/Rx.lean`.
-/
namespace WfModel.Rx

/-- **Declarative semantics.** `Matches r w s e`: the word `w` belongs to the language of
`r` when `w` sits in a haystack such that the position where `w` begins is the haystack
start iff `s`, and the position where `w` ends is the haystack end iff `e`. The anchors are
zero-width: `bol` accepts the empty word only when `s`, `eol` only when `e`. In `cat` the
word is split; the left part ends at the haystack end only if the right part is empty (and
`e`), the right part begins at the start only if the left part is empty (and `s`). `star`
is a finite concatenation of matches of the body. -/
inductive Matches : Rx → Bytes → Bool → Bool → Prop
  | eps (s e) : Matches .eps [] s e
  | set {neg rs b} (s e) (h : setMem neg rs b = true) : Matches (.set neg rs) [b] s e
  | cat {r q u v s e} : Matches r u s (e && v.isEmpty) → Matches q v (s && u.isEmpty) e →
      Matches (.cat r q) (u ++ v) s e
  | altL {r q w s e} : Matches r w s e → Matches (.alt r q) w s e
  | altR {r q w s e} : Matches q w s e → Matches (.alt r q) w s e
  | starNil (r s e) : Matches (.star r) [] s e
  | starCons {r u v s e} : Matches r u s (e && v.isEmpty) →
      Matches (.star r) v (s && u.isEmpty) e → Matches (.star r) (u ++ v) s e
  | bol (e) : Matches .bol [] true e
  | eol (s) : Matches .eol [] s true

/-! ## Inversion -/

theorem matches_empty {w s e} : ¬ Matches .empty w s e := by
  intro h; cases h

theorem matches_eps {w s e} : Matches .eps w s e ↔ w = [] := by
  constructor
  · intro h; cases h; rfl
  · rintro rfl; exact .eps s e

theorem matches_set {neg rs w s e} :
    Matches (.set neg rs) w s e ↔ ∃ b, w = [b] ∧ setMem neg rs b = true := by
  constructor
  · intro h; cases h with | set _ _ h => exact ⟨_, rfl, h⟩
  · rintro ⟨b, rfl, h⟩; exact .set s e h

theorem matches_cat {r q w s e} :
    Matches (.cat r q) w s e ↔
      ∃ u v, w = u ++ v ∧ Matches r u s (e && v.isEmpty) ∧ Matches q v (s && u.isEmpty) e := by
  constructor
  · intro h; cases h with | cat h1 h2 => exact ⟨_, _, rfl, h1, h2⟩
  · rintro ⟨u, v, rfl, h1, h2⟩; exact .cat h1 h2

theorem matches_alt {r q w s e} :
    Matches (.alt r q) w s e ↔ Matches r w s e ∨ Matches q w s e := by
  constructor
  · intro h
    cases h with
    | altL h => exact Or.inl h
    | altR h => exact Or.inr h
  · rintro (h | h)
    · exact .altL h
    · exact .altR h

theorem matches_star {r w s e} :
    Matches (.star r) w s e ↔
      w = [] ∨ ∃ u v, w = u ++ v ∧ Matches r u s (e && v.isEmpty) ∧
        Matches (.star r) v (s && u.isEmpty) e := by
  constructor
  · intro h
    cases h with
    | starNil => exact Or.inl rfl
    | starCons h1 h2 => exact Or.inr ⟨_, _, rfl, h1, h2⟩
  · rintro (rfl | ⟨u, v, rfl, h1, h2⟩)
    · exact .starNil r s e
    · exact .starCons h1 h2

theorem matches_bol {w s e} : Matches .bol w s e ↔ w = [] ∧ s = true := by
  constructor
  · intro h; cases h; exact ⟨rfl, rfl⟩
  · rintro ⟨rfl, rfl⟩; exact .bol e

theorem matches_eol {w s e} : Matches .eol w s e ↔ w = [] ∧ e = true := by
  constructor
  · intro h; cases h; exact ⟨rfl, rfl⟩
  · rintro ⟨rfl, rfl⟩; exact .eol s

/-- Empty iterations of a starred body contribute nothing: a non-empty word of `star r`
begins with a NON-EMPTY match of `r`, and what follows no longer begins at the start. -/
theorem star_cases {r w s e} (h : Matches (.star r) w s e) :
    w = [] ∨ ∃ b u v, w = b :: u ++ v ∧ Matches r (b :: u) s (e && v.isEmpty) ∧
      Matches (.star r) v false e := by
  generalize hx : Rx.star r = x at h
  induction h with
  | starNil => exact Or.inl rfl
  | @starCons r' u v s e h1 h2 _ ih2 =>
    cases hx
    cases u with
    | nil =>
      have := ih2 rfl
      simpa using this
    | cons b u =>
      refine Or.inr ⟨b, u, v, rfl, h1, ?_⟩
      simpa using h2
  | _ => cases hx

/-! ## The derivative matcher decides the language -/

theorem nullable_iff (r : Rx) (s e : Bool) : nullable r s e = true ↔ Matches r [] s e := by
  induction r with
  | empty => simp [nullable, matches_empty]
  | eps => simp [nullable, matches_eps]
  | set neg rs => simp [nullable, matches_set]
  | cat r q ihr ihq =>
    simp only [nullable, Bool.and_eq_true, ihr, ihq, matches_cat]
    constructor
    · rintro ⟨h1, h2⟩; exact ⟨[], [], rfl, by simpa using h1, by simpa using h2⟩
    · rintro ⟨u, v, huv, h1, h2⟩
      obtain ⟨hu, hv⟩ := List.nil_eq_append_iff.mp huv
      subst hu hv
      exact ⟨by simpa using h1, by simpa using h2⟩
  | alt r q ihr ihq => simp [nullable, ihr, ihq, matches_alt]
  | star r _ => simp [nullable, Matches.starNil]
  | bol => simp [nullable, matches_bol]
  | eol => simp [nullable, matches_eol]

theorem mkAlt_iff (r q : Rx) (w : Bytes) (s e : Bool) :
    Matches (mkAlt r q) w s e ↔ Matches r w s e ∨ Matches q w s e := by
  unfold mkAlt
  split
  · simp [matches_empty]
  · simp [matches_empty]
  · exact matches_alt

theorem mkCat_iff (r q : Rx) (w : Bytes) (s e : Bool) :
    Matches (mkCat r q) w s e ↔ Matches (.cat r q) w s e := by
  unfold mkCat
  split
  · simp [matches_empty, matches_cat]
  · simp only [matches_cat, matches_eps]
    constructor
    · intro h; exact ⟨[], w, rfl, rfl, by simpa using h⟩
    · rintro ⟨u, v, rfl, rfl, h⟩; simpa using h
  · rfl

theorem deriv_iff (s : Bool) (b : UInt8) (r : Rx) :
    ∀ (w : Bytes) (e : Bool), Matches (deriv s b r) w false e ↔ Matches r (b :: w) s e := by
  induction r with
  | empty => intro w e; simp [deriv, matches_empty]
  | eps => intro w e; simp [deriv, matches_empty, matches_eps]
  | bol => intro w e; simp [deriv, matches_empty, matches_bol]
  | eol => intro w e; simp [deriv, matches_empty, matches_eol]
  | set neg rs =>
    intro w e
    simp only [deriv, matches_set]
    split
    · rename_i hm
      simp only [matches_eps]
      constructor
      · rintro rfl; exact ⟨b, rfl, hm⟩
      · rintro ⟨b', h, _⟩; simpa using (List.cons.inj h).2
    · rename_i hm
      simp only [matches_empty, false_iff]
      rintro ⟨b', h, hm'⟩
      have : b = b' := (List.cons.inj h).1
      subst this; exact hm hm'
  | alt r q ihr ihq =>
    intro w e
    simp only [deriv, mkAlt_iff, ihr, ihq, matches_alt]
  | cat r q ihr ihq =>
    intro w e
    simp only [deriv, mkAlt_iff, mkCat_iff]
    rw [matches_cat, matches_cat]
    constructor
    · rintro (⟨u, v, rfl, h1, h2⟩ | h)
      · refine ⟨b :: u, v, rfl, (ihr _ _).mp h1, ?_⟩
        simpa using h2
      · split at h
        · rename_i hn
          refine ⟨[], b :: w, rfl, ?_, ?_⟩
          · simpa using (nullable_iff r s false).mp hn
          · simpa using (ihq _ _).mp h
        · exact absurd h matches_empty
    · rintro ⟨u, v, huv, h1, h2⟩
      cases u with
      | nil =>
        right
        simp only [List.nil_append] at huv
        subst huv
        have hn : nullable r s false = true := (nullable_iff r s false).mpr (by simpa using h1)
        simp only [hn, if_true]
        exact (ihq _ _).mpr (by simpa using h2)
      | cons b' u =>
        left
        simp only [List.cons_append, List.cons.injEq] at huv
        obtain ⟨rfl, rfl⟩ := huv
        exact ⟨u, v, rfl, (ihr _ _).mpr h1, by simpa using h2⟩
  | star r ihr =>
    intro w e
    simp only [deriv, mkCat_iff]
    rw [matches_cat]
    constructor
    · rintro ⟨u, v, rfl, h1, h2⟩
      have h1' := (ihr _ _).mp h1
      have : Matches (.star r) ((b :: u) ++ v) s e :=
        .starCons h1' (by simpa using h2)
      simpa using this
    · intro h
      rcases star_cases h with h0 | ⟨b', u, v, hw, h1, h2⟩
      · cases h0
      · simp only [List.cons_append, List.cons.injEq] at hw
        obtain ⟨rfl, rfl⟩ := hw
        exact ⟨u, v, rfl, (ihr _ _).mpr h1, by simpa using h2⟩

/-- The derivative matcher decides the declarative language, for every regex, word and
position flags. -/
theorem matchesFrom_iff (r : Rx) (w : Bytes) (s e : Bool) :
    matchesFrom r w s e = true ↔ Matches r w s e := by
  induction w generalizing r s with
  | nil => simp [matchesFrom, nullable_iff]
  | cons b w ih => simp [matchesFrom, ih, deriv_iff]

theorem not_matches_of_isEmpty {r : Rx} (h : r.isEmpty = true) {w s e} : ¬ Matches r w s e := by
  cases r <;> simp [isEmpty] at h
  exact matches_empty

theorem prefixMatch_iff (r : Rx) (h : Bytes) (s : Bool) :
    prefixMatch r h s = true ↔ ∃ mid post, h = mid ++ post ∧ Matches r mid s post.isEmpty := by
  induction h generalizing r s with
  | nil =>
    simp only [prefixMatch, nullable_iff]
    constructor
    · intro h; exact ⟨[], [], rfl, h⟩
    · rintro ⟨mid, post, hmp, h⟩
      obtain ⟨hm, hp⟩ := List.nil_eq_append_iff.mp hmp
      subst hm hp; exact h
  | cons b t ih =>
    simp only [prefixMatch, Bool.or_eq_true, Bool.and_eq_true, Bool.not_eq_true', nullable_iff, ih]
    constructor
    · rintro (h | ⟨_, mid, post, rfl, h⟩)
      · exact ⟨[], b :: t, rfl, h⟩
      · exact ⟨b :: mid, post, rfl, (deriv_iff s b r _ _).mp h⟩
    · rintro ⟨mid, post, hmp, h⟩
      cases mid with
      | nil =>
        left
        simp only [List.nil_append] at hmp
        subst hmp; simpa using h
      | cons b' mid =>
        right
        simp only [List.cons_append, List.cons.injEq] at hmp
        obtain ⟨rfl, rfl⟩ := hmp
        have hd := (deriv_iff s b r _ _).mpr h
        refine ⟨?_, mid, post, rfl, hd⟩
        cases hemp : (deriv s b r).isEmpty with
        | false => rfl
        | true => exact absurd hd (not_matches_of_isEmpty hemp)

theorem searchFrom_iff (r : Rx) (h : Bytes) (s : Bool) :
    searchFrom r h s = true ↔
      ∃ pre mid post, h = pre ++ mid ++ post ∧ Matches r mid (s && pre.isEmpty) post.isEmpty := by
  induction h generalizing s with
  | nil =>
    simp only [searchFrom, prefixMatch_iff]
    constructor
    · rintro ⟨mid, post, hmp, h⟩; exact ⟨[], mid, post, by simpa using hmp, by simpa using h⟩
    · rintro ⟨pre, mid, post, hmp, h⟩
      have hp : pre = [] := by cases pre <;> simp_all
      subst hp
      exact ⟨mid, post, by simpa using hmp, by simpa using h⟩
  | cons b t ih =>
    simp only [searchFrom, Bool.or_eq_true, prefixMatch_iff, ih]
    constructor
    · rintro (⟨mid, post, hmp, h⟩ | ⟨pre, mid, post, rfl, h⟩)
      · exact ⟨[], mid, post, by simpa using hmp, by simpa using h⟩
      · exact ⟨b :: pre, mid, post, by simp, by simpa using h⟩
    · rintro ⟨pre, mid, post, hmp, h⟩
      cases pre with
      | nil => left; exact ⟨mid, post, by simpa using hmp, by simpa using h⟩
      | cons b' pre =>
        right
        simp only [List.cons_append, List.cons.injEq] at hmp
        obtain ⟨rfl, rfl⟩ := hmp
        exact ⟨pre, mid, post, rfl, by simpa using h⟩

/-! ## Bytes, literals, classes -/

theorem setMem_single (b b' : UInt8) : setMem false [(b, b)] b' = true ↔ b' = b := by
  simp only [setMem, inRanges, List.any_cons, List.any_nil, Bool.or_false, bne_iff_ne, ne_eq,
    Bool.not_eq_false, Bool.and_eq_true, decide_eq_true_eq]
  constructor
  · rintro ⟨h1, h2⟩; exact UInt8.le_antisymm h2 h1
  · rintro rfl; exact ⟨UInt8.le_refl _, UInt8.le_refl _⟩

theorem matches_lit {b : UInt8} {w s e} : Matches (lit b) w s e ↔ w = [b] := by
  simp only [lit, matches_set, setMem_single]
  constructor
  · rintro ⟨b', rfl, rfl⟩; rfl
  · rintro rfl; exact ⟨b, rfl, rfl⟩

theorem setMem_dot (b : UInt8) : setMem true [(10, 10)] b = true ↔ b ≠ 10 := by
  simp only [setMem, inRanges, List.any_cons, List.any_nil, Bool.or_false, bne_iff_ne, ne_eq,
    Bool.not_eq_true, Bool.and_eq_false_iff, decide_eq_false_iff_not]
  constructor
  · rintro h rfl; rcases h with h | h <;> exact h (UInt8.le_refl _)
  · intro h
    by_cases h1 : (10 : UInt8) ≤ b
    · right; intro h2; exact h (UInt8.le_antisymm h2 h1)
    · left; exact h1

theorem matches_catList_cons (r : Rx) (rs : List Rx) (w : Bytes) (s e : Bool) :
    Matches (catList (r :: rs)) w s e ↔
      ∃ u v, w = u ++ v ∧ Matches r u s (e && v.isEmpty) ∧
        Matches (catList rs) v (s && u.isEmpty) e := by
  cases rs with
  | nil =>
    simp only [catList, matches_eps]
    constructor
    · intro h; exact ⟨w, [], by simp, by simpa using h, rfl⟩
    · rintro ⟨u, v, rfl, h, rfl⟩; simpa using h
  | cons q rs => simp only [catList, matches_cat]

theorem matches_catList_lits (bs w : Bytes) (s e : Bool) :
    Matches (catList (bs.map lit)) w s e ↔ w = bs := by
  induction bs generalizing w s e with
  | nil => simp [catList, matches_eps]
  | cons b bs ih =>
    simp only [List.map_cons, matches_catList_cons, matches_lit, ih]
    constructor
    · rintro ⟨u, v, rfl, rfl, rfl⟩; rfl
    · rintro rfl; exact ⟨[b], bs, rfl, rfl, rfl⟩

theorem matches_litChar (c : Char) (w : Bytes) (s e : Bool) :
    Matches (litChar c) w s e ↔ w = String.utf8EncodeChar c :=
  matches_catList_lits _ w s e

theorem matches_catList_litChars (p : List Char) (w : Bytes) (s e : Bool) :
    Matches (catList (p.map litChar)) w s e ↔ w = p.flatMap String.utf8EncodeChar := by
  induction p generalizing w s e with
  | nil => simp [catList, matches_eps]
  | cons c p ih =>
    simp only [List.map_cons, matches_catList_cons, matches_litChar, ih, List.flatMap_cons]
    constructor
    · rintro ⟨u, v, rfl, rfl, rfl⟩; rfl
    · rintro rfl; exact ⟨_, _, rfl, rfl, rfl⟩

/-! ## Parser on literal patterns -/

theorem lex_plain (p : List Char) (hp : ∀ c ∈ p, isMeta c = false) :
    lex none p = some (p.map (fun c => Tok.atom (litChar c))) := by
  induction p with
  | nil => rfl
  | cons c p ih =>
    have hc := hp c (by simp)
    have ih' := ih (fun d hd => hp d (by simp [hd]))
    simp only [isMeta, Bool.or_eq_false_iff, decide_eq_false_iff_not] at hc
    obtain ⟨⟨⟨⟨⟨⟨⟨⟨⟨⟨⟨h1, h2⟩, h3⟩, h4⟩, h5⟩, h6⟩, h7⟩, h8⟩, h9⟩, h10⟩, h11⟩, h12⟩ := hc
    rw [lex.eq_def]
    simp only [h1, h2, h3, h4, h5, h6, h7, h8, h9, h10, h11, h12, if_false, ih', consTok,
      Option.map_some, List.map_cons]

theorem build_atoms (rs : List Rx) (alts acc : List Rx) (q : Bool) :
    build (rs.map Tok.atom) ⟨alts, acc⟩ q [] = some (Frame.close ⟨alts, rs.reverse ++ acc⟩) := by
  induction rs generalizing acc q with
  | nil => simp [build]
  | cons r rs ih => simp [build, ih]

theorem parse_plain (p : List Char) (hp : ∀ c ∈ p, isMeta c = false) :
    parse p = some (catList (p.map litChar)) := by
  have h := build_atoms (p.map litChar) [] [] false
  simp only [List.map_map] at h
  simp only [parse, lex_plain p hp]
  rw [show (fun c => Tok.atom (litChar c)) = Tok.atom ∘ litChar from rfl, h]
  simp [Frame.close, altList]

/-- `Search.naive h p` (the reference substring search of C10) holds iff `p` occurs in `h`. -/
theorem naive_iff (h p : Bytes) :
    Search.naive h p = true ↔ ∃ pre post, h = pre ++ p ++ post := by
  induction h with
  | nil =>
    simp only [Search.naive, List.isEmpty_iff]
    constructor
    · rintro rfl; exact ⟨[], [], rfl⟩
    · rintro ⟨pre, post, h⟩
      have := congrArg List.length h
      simp only [List.length_nil, List.length_append] at this
      exact List.length_eq_zero_iff.mp (by omega)
  | cons b t ih =>
    simp only [Search.naive, Bool.or_eq_true, List.isPrefixOf_iff_prefix, ih]
    constructor
    · rintro (⟨post, h⟩ | ⟨pre, post, h⟩)
      · exact ⟨[], post, by simpa using h.symm⟩
      · exact ⟨b :: pre, post, by simp [h]⟩
    · rintro ⟨pre, post, h⟩
      cases pre with
      | nil => left; exact ⟨post, by simpa using h.symm⟩
      | cons b' pre =>
        right
        simp only [List.cons_append, List.cons.injEq] at h
        exact ⟨pre, post, h.2⟩

/-! ## Search, anchors -/

theorem search_iff (r : Rx) (h : Bytes) :
    search r h = true ↔
      ∃ pre mid post, h = pre ++ mid ++ post ∧ Matches r mid pre.isEmpty post.isEmpty := by
  simp only [search, searchFrom_iff, Bool.true_and]

theorem matches_bol_cat {r : Rx} {w s e} :
    Matches (.cat .bol r) w s e ↔ s = true ∧ Matches r w s e := by
  simp only [matches_cat, matches_bol]
  constructor
  · rintro ⟨u, v, rfl, ⟨rfl, hs⟩, h⟩; exact ⟨hs, by simpa using h⟩
  · rintro ⟨hs, h⟩; exact ⟨[], w, rfl, ⟨rfl, hs⟩, by simpa using h⟩

theorem matches_cat_eol {r : Rx} {w s e} :
    Matches (.cat r .eol) w s e ↔ e = true ∧ Matches r w s e := by
  simp only [matches_cat, matches_eol]
  constructor
  · rintro ⟨u, v, rfl, h, rfl, he⟩; exact ⟨he, by simpa using h⟩
  · rintro ⟨he, h⟩; exact ⟨w, [], by simp, by simpa using h, rfl, he⟩

theorem search_bol_iff (r : Rx) (h : Bytes) :
    search (.cat .bol r) h = true ↔ ∃ mid post, h = mid ++ post ∧ Matches r mid true post.isEmpty := by
  simp only [search_iff, matches_bol_cat]
  constructor
  · rintro ⟨pre, mid, post, rfl, hp, h⟩
    have : pre = [] := List.isEmpty_iff.mp hp
    subst this
    exact ⟨mid, post, by simp, by simpa using h⟩
  · rintro ⟨mid, post, rfl, h⟩; exact ⟨[], mid, post, by simp, rfl, by simpa using h⟩

theorem search_eol_iff (r : Rx) (h : Bytes) :
    search (.cat r .eol) h = true ↔ ∃ pre mid, h = pre ++ mid ∧ Matches r mid pre.isEmpty true := by
  simp only [search_iff, matches_cat_eol]
  constructor
  · rintro ⟨pre, mid, post, rfl, hp, h⟩
    have : post = [] := List.isEmpty_iff.mp hp
    subst this
    exact ⟨pre, mid, by simp, by simpa using h⟩
  · rintro ⟨pre, mid, rfl, h⟩; exact ⟨pre, mid, [], by simp, rfl, by simpa using h⟩

theorem search_bol_eol_iff (r : Rx) (h : Bytes) :
    search (.cat .bol (.cat r .eol)) h = true ↔ Matches r h true true := by
  simp only [search_bol_iff, matches_cat_eol]
  constructor
  · rintro ⟨mid, post, rfl, hp, h⟩
    have : post = [] := List.isEmpty_iff.mp hp
    subst this
    simpa using h
  · intro hm; exact ⟨h, [], by simp, rfl, by simpa using hm⟩

/-! ## Byte sets -/

theorem inRanges_iff (rs : Ranges) (b : UInt8) :
    inRanges rs b = true ↔ ∃ r ∈ rs, r.1 ≤ b ∧ b ≤ r.2 := by
  simp [inRanges]

theorem setMem_iff (neg : Bool) (rs : Ranges) (b : UInt8) :
    setMem neg rs b = true ↔ ((∃ r ∈ rs, r.1 ≤ b ∧ b ≤ r.2) ↔ neg = false) := by
  rw [← inRanges_iff]
  cases neg <;> cases hr : inRanges rs b <;> simp [setMem, hr]

/-! ## Escapes -/

theorem parse_hex_escape (h1 h2 : Char) (x y : Nat) (hx : hexVal h1 = some x) (hy : hexVal h2 = some y) :
    parse ['\\', 'x', h1, h2] = some (lit (UInt8.ofNat (x * 16 + y))) := by
  simp [parse, lex, hx, hy, consTok, build, Frame.close, altList, catList]

/-! ## ASCII Perl classes -/

theorem inRanges_cons (lo hi : UInt8) (rs : Ranges) (b : UInt8) :
    inRanges ((lo, hi) :: rs) b = ((decide (lo.toNat ≤ b.toNat) && decide (b.toNat ≤ hi.toNat)) || inRanges rs b) := by
  simp [inRanges, UInt8.le_iff_toNat_le]

theorem inRanges_nil (b : UInt8) : inRanges [] b = false := rfl

theorem perl_d (b : UInt8) : inRanges [(48, 57)] b = true ↔ 48 ≤ b.toNat ∧ b.toNat ≤ 57 := by
  simp [inRanges_cons, inRanges_nil]

theorem perl_w (b : UInt8) :
    inRanges [(48, 57), (65, 90), (95, 95), (97, 122)] b = true ↔
      (48 ≤ b.toNat ∧ b.toNat ≤ 57) ∨ (65 ≤ b.toNat ∧ b.toNat ≤ 90) ∨ b.toNat = 95 ∨
        (97 ≤ b.toNat ∧ b.toNat ≤ 122) := by
  simp [inRanges_cons, inRanges_nil]
  omega

theorem perl_s (b : UInt8) :
    inRanges [(9, 13), (32, 32)] b = true ↔ (9 ≤ b.toNat ∧ b.toNat ≤ 13) ∨ b.toNat = 32 := by
  simp [inRanges_cons, inRanges_nil]
  omega

theorem perl_D (b : UInt8) : inRanges [(0, 47), (58, 255)] b = !inRanges [(48, 57)] b := by
  have := b.toNat_lt
  rw [Bool.eq_iff_iff]
  simp [inRanges_cons, inRanges_nil]
  omega

theorem perl_W (b : UInt8) :
    inRanges [(0, 47), (58, 64), (91, 94), (96, 96), (123, 255)] b =
      !inRanges [(48, 57), (65, 90), (95, 95), (97, 122)] b := by
  have := b.toNat_lt
  rw [Bool.eq_iff_iff]
  simp [inRanges_cons, inRanges_nil]
  omega

theorem perl_S (b : UInt8) :
    inRanges [(0, 8), (14, 31), (33, 255)] b = !inRanges [(9, 13), (32, 32)] b := by
  have := b.toNat_lt
  rw [Bool.eq_iff_iff]
  simp [inRanges_cons, inRanges_nil]
  omega

end WfModel.Rx
