import WfModel.Lemmas.C02

/-!
Helper lemmas for C02, second part: element-wise logic on boolean arrays, quantifiers,
value expressions under `[*]`, map iteration order.  No property statements here.
-/
namespace WfModel
namespace C02

/-! ### zip + truncate -/

theorem zipTrunc_eq_zipWith (f : Bool → Bool → Bool) (as bs : List Bool) :
    zipTrunc f as bs = List.zipWith f as bs := by
  induction as generalizing bs with
  | nil => cases bs <;> simp [zipTrunc]
  | cons a as ih => cases bs <;> simp [zipTrunc, ih]

theorem zipTrunc_length (f : Bool → Bool → Bool) (as bs : List Bool) :
    (zipTrunc f as bs).length = min as.length bs.length := by
  simp [zipTrunc_eq_zipWith]

theorem zipTrunc_getElem? (f : Bool → Bool → Bool) (as bs : List Bool) (i : Nat) (a b : Bool)
    (ha : as[i]? = some a) (hb : bs[i]? = some b) :
    (zipTrunc f as bs)[i]? = some (f a b) := by
  rw [zipTrunc_eq_zipWith, List.getElem?_zipWith, ha, hb]

/-- the function a `LogicalOp` applies to a pair of elements -/
def opFn : LogicalOp → Bool → Bool → Bool
  | .and => (· && ·)
  | .or => (· || ·)
  | .xor => (· != ·)

/-- n-ary element-wise combination: left fold of zip-truncate -/
def vecFold (f : Bool → Bool → Bool) (acc : List Bool) (bss : List (List Bool)) : List Bool :=
  bss.foldl (zipTrunc f) acc

theorem vecFold_length (f : Bool → Bool → Bool) (acc : List Bool) (bss : List (List Bool)) :
    (vecFold f acc bss).length = bss.foldl (fun n bs => min n bs.length) acc.length := by
  induction bss generalizing acc with
  | nil => rfl
  | cons bs r ih => simp only [vecFold, List.foldl_cons] at ih ⊢; rw [ih, zipTrunc_length]

theorem vecFold_lt_iff (f : Bool → Bool → Bool) (acc : List Bool) (bss : List (List Bool))
    (i : Nat) :
    i < (vecFold f acc bss).length ↔ i < acc.length ∧ ∀ bs ∈ bss, i < bs.length := by
  induction bss generalizing acc with
  | nil => simp [vecFold]
  | cons bs r ih =>
    simp only [vecFold, List.foldl_cons] at ih ⊢
    rw [ih, zipTrunc_length]
    simp only [List.mem_cons, forall_eq_or_imp, Nat.lt_min, and_assoc]

/-- the `i`-th element of the combination is the fold of the operator over the `i`-th
elements of the operands (`col` = that column) -/
theorem vecFold_getElem? (f : Bool → Bool → Bool) (acc : List Bool) (bss : List (List Bool))
    (i : Nat) (a : Bool) (col : List Bool) (ha : acc[i]? = some a)
    (hc : All₂ (fun bs b => bs[i]? = some b) bss col) :
    (vecFold f acc bss)[i]? = some (col.foldl f a) := by
  induction hc generalizing acc a with
  | nil => simpa [vecFold] using ha
  | @cons bs b bss col h1 _ ih =>
    simp only [vecFold, List.foldl_cons] at ih ⊢
    exact ih _ _ (zipTrunc_getElem? f acc bs i a b ha h1)

/-- a column exists for every index below all operand lengths -/
theorem column_exists (bss : List (List Bool)) (i : Nat) (h : ∀ bs ∈ bss, i < bs.length) :
    ∃ col, All₂ (fun bs b => bs[i]? = some b) bss col := by
  induction bss with
  | nil => exact ⟨[], .nil⟩
  | cons bs r ih =>
    obtain ⟨col, hc⟩ := ih (fun bs hb => h bs (List.mem_cons_of_mem _ hb))
    have hi := h bs List.mem_cons_self
    exact ⟨bs[i] :: col, .cons (List.getElem?_eq_getElem hi) hc⟩

/-! ### `LogicalExpr` arms -/

theorem evalVecs_spec (s : Scheme) (c : Ctx) (op : LogicalOp) (acc : List Bool)
    (rest : List LExpr) (bss : List (List Bool))
    (h : All₂ (fun e bs => evalL s c e = .ok (.vec bs)) rest bss) :
    evalVecs s c op acc rest = .ok (.vec (vecFold (opFn op) acc bss)) := by
  induction h generalizing acc with
  | nil => cases op <;> simp [evalVecs, vecFold]
  | @cons e bs rest bss h1 _ ih =>
    cases op <;> simp only [evalVecs, h1, ih, vecFold, List.foldl_cons, opFn]

theorem combining_vec (s : Scheme) (c : Ctx) (op : LogicalOp) (first : LExpr) (b0 : List Bool)
    (rest : List LExpr) (bss : List (List Bool))
    (h0 : evalL s c first = .ok (.vec b0))
    (h : All₂ (fun e bs => evalL s c e = .ok (.vec bs)) rest bss) :
    evalL s c (.combining op (first :: rest)) = .ok (.vec (vecFold (opFn op) b0 bss)) := by
  rw [evalL]
  simp only [h0]
  exact evalVecs_spec s c op b0 rest bss h

theorem unaryNot_vec (s : Scheme) (c : Ctx) (e : LExpr) (bs : List Bool)
    (h : evalL s c e = .ok (.vec bs)) :
    evalL s c (.unaryNot e) = .ok (.vec (bs.map (!·))) := by
  rw [evalL]; simp only [h]

theorem unaryNot_one (s : Scheme) (c : Ctx) (e : LExpr) (b : Bool)
    (h : evalL s c e = .ok (.one b)) :
    evalL s c (.unaryNot e) = .ok (.one (!b)) := by
  rw [evalL]; simp only [h]

def qFn : QOp → List Bool → Bool
  | .any => fun bs => bs.any id
  | .all => fun bs => bs.all id

theorem quantifier_logical (s : Scheme) (c : Ctx) (q : QOp) (e : LExpr) (bs : List Bool)
    (h : evalL s c e = .ok (.vec bs)) :
    evalL s c (.quantifier q (.logical e)) = .ok (.one (qFn q bs)) := by
  rw [evalL]; simp only [h]; cases q <;> rfl

theorem quantifier_index_absent (s : Scheme) (c : Ctx) (q : QOp) (e : IExpr) (t : Ty)
    (h : evalI s c e = .ok (.error t)) :
    evalL s c (.quantifier q (.index e)) = .ok (.one false) := by
  rw [evalL]; simp only [h]

theorem mapM'_bool (f : Val → EM Bool) (hf : ∀ b, f (Val.bool b) = .ok b) (bs : List Bool) :
    mapM' f (bs.map Val.bool) = .ok bs := by
  induction bs with
  | nil => rfl
  | cons b r ih => simp [mapM', ih, hf]

theorem quantifier_index_present (s : Scheme) (c : Ctx) (q : QOp) (e : IExpr) (t : Ty)
    (bs : List Bool) (h : evalI s c e = .ok (.ok (.array t (bs.map .bool)))) :
    evalL s c (.quantifier q (.index e)) = .ok (.one (qFn q bs)) := by
  rw [evalL]; simp only [h]
  rw [mapM'_bool _ (fun b => rfl)]
  cases q <;> rfl

/-- an absent identifier (absent field, function returning nothing) makes the whole value
expression absent, whatever the indexes -/
theorem indexValue_absent (t : Ty) (ixs : List FieldIndex) (ty : Ty) :
    ∃ t', indexValue (.error t) ixs ty = .ok (.error t') := by
  unfold indexValue
  by_cases h0 : mapEachCount ixs = 0
  · exact ⟨ty, by simp [h0]⟩
  · by_cases h1 : (mapEachCount ixs = 1 && ixs.getLast? = some FieldIndex.each) = true
    · exact ⟨ty.array, by simp only [h0, if_false, h1, if_true]⟩
    · exact ⟨ty.array, by simp only [h0, if_false, h1]; rfl⟩

theorem evalI_absent (s : Scheme) (c : Ctx) (e : IExpr) (t : Ty)
    (h : evalBase s c e = .ok (.error t)) : ∃ t', evalI s c e = .ok (.error t') := by
  obtain ⟨t', ht⟩ := indexValue_absent t e.indexes (tyI s e)
  exact ⟨t', by rw [evalI]; simp only [h, ht]⟩

theorem evalBase_field_absent (s : Scheme) (c : Ctx) (f : Nat) (ixs : List FieldIndex)
    (h : c.fieldVal s f = .ok none) :
    evalBase s c (.field f ixs) = .ok (.error (s.fieldTy f)) := by
  rw [evalBase]; simp only [h]

/-! ### missing steps -/

theorem getNested_append_none {v : Val} {p : List FieldIndex} (r : List FieldIndex)
    (h : getNested v p = .ok none) : getNested v (p ++ r) = .ok none := by
  induction p generalizing v with
  | nil => simp [getNested] at h
  | cons ix p ih =>
    simp only [getNested, List.cons_append] at h ⊢
    cases hg : v.get ix with
    | error e => simp [hg] at h
    | ok o =>
      cases o with
      | none => rfl
      | some y => simp only [hg] at h ⊢; exact ih h

theorem getNested_append_some {v x : Val} {p : List FieldIndex} (r : List FieldIndex)
    (h : getNested v p = .ok (some x)) : getNested v (p ++ r) = getNested x r := by
  induction p generalizing v with
  | nil =>
    simp only [getNested, Except.ok.injEq, Option.some.injEq] at h
    subst h; rfl
  | cons ix p ih =>
    simp only [getNested, List.cons_append] at h ⊢
    cases hg : v.get ix with
    | error e => simp [hg] at h
    | ok o =>
      cases o with
      | none => simp [hg] at h
      | some y => simp only [hg] at h ⊢; exact ih h

theorem mapGet_none_of_absent {kvs : List (Bytes × Val)} {k : Bytes}
    (h : ∀ kv ∈ kvs, kv.1 ≠ k) : mapGet kvs k = none := by
  unfold mapGet
  rw [Option.map_eq_none_iff, List.find?_eq_none]
  intro kv hkv
  simpa using h kv hkv

/-! ### value expressions under `[*]` (`IndexExpr::compile_with_compiler`) -/

theorem pathSpec_typed {v : Val} (hwf : v.wf = true) {p : List FieldIndex}
    (hp : PathOk v.typeOf p) :
    ∀ x ∈ pathSpec p v, x.typeOf = applyIndexes v.typeOf p ∧ x.wf = true := by
  induction p generalizing v with
  | nil => intro x hx; simp only [pathSpec, List.mem_singleton] at hx; subst hx; exact ⟨rfl, hwf⟩
  | cons ix r ih =>
    obtain ⟨t', hstep, hrest⟩ := pathOk_cons.mp hp
    intro x hx
    simp only [pathSpec, List.mem_flatMap] at hx
    obtain ⟨y, hy, hx⟩ := hx
    have hyt := stepSpec_typed hwf hstep y hy
    have := ih hyt.2 (by simpa [hyt.1] using hrest) x hx
    simp only [applyIndexes, hstep]
    rw [hyt.1] at this
    exact this

/-- the general strategy of a value expression builds the array of `pathSpec` (no
`try_from_iter` failure: all selected values have the path's result type) -/
theorem indexValue_iter (v : Val) (hwf : v.wf = true) (path : List FieldIndex)
    (hp : PathOk v.typeOf path) (h0 : mapEachCount path ≠ 0)
    (h : ¬ (mapEachCount path = 1 ∧ path.getLast? = some .each)) :
    indexValue (.ok v) path (applyIndexes v.typeOf path)
      = .ok (.ok (.array (applyIndexes v.typeOf path) (pathSpec path v))) := by
  have hne : path ≠ [] := by rintro rfl; exact h0 rfl
  obtain ⟨ix, r, rfl⟩ := List.exists_cons_of_ne_nil hne
  have hrun : mapEachRun (ix :: r) v = .ok (pathSpec (ix :: r) v) := by
    obtain ⟨t', hstep, _⟩ := pathOk_cons.mp hp
    simp only [mapEachRun, indexIterItems_eq hstep]
    exact run_spec_fuel ix r v hwf hp _ _ (by omega) (by omega)
  have hall : (pathSpec (ix :: r) v).all
      (fun x => x.typeOf == applyIndexes v.typeOf (ix :: r)) = true := by
    rw [List.all_eq_true]
    intro x hx
    simpa using (pathSpec_typed hwf hp x hx).1
  unfold indexValue
  simp only [h0, if_false]
  rw [if_neg (by simpa using h)]
  simp only [hrun, hall, if_true]

/-- the trailing-`[*]` strategy of a value expression hands over the container itself; its
elements are `pathSpec`, and it is absent exactly when the reference selects no container -/
theorem indexValue_vec (v : Val) (hwf : v.wf = true) (q : List FieldIndex)
    (hp : PathOk v.typeOf (q ++ [.each])) (hm : mapEachCount q = 0) (ty : Ty) :
    (∃ x, indexValue (.ok v) (q ++ [.each]) ty = .ok (.ok x) ∧
        Val.elements x = pathSpec (q ++ [.each]) v ∧ pathSpec q v = [x]) ∨
    (indexValue (.ok v) (q ++ [.each]) ty = .ok (.error (.array ty)) ∧ pathSpec q v = []) := by
  obtain ⟨o, hg, hs⟩ := getNested_spec hwf (pathOk_append hp) hm
  have hmec : mapEachCount (q ++ [.each]) = 1 := by
    rw [mec_append, mec_cons_each, mec_nil, hm]
  have htake : (q ++ [FieldIndex.each]).take ((q ++ [FieldIndex.each]).length - 1) = q := by
    simp
  unfold indexValue
  simp only [hmec, htake, hg]
  cases o with
  | none => right; exact ⟨by simp, by simpa using hs⟩
  | some x =>
    left
    refine ⟨x, by simp, ?_, by simpa using hs⟩
    rw [pathSpec_append, hs]
    simp [pathSpec_each]

/-! ### maps iterate in key order -/

theorem bytesLt_irrefl (a : Bytes) : Val.bytesLt a a = false := by
  induction a with
  | nil => rfl
  | cons x r ih => simp [Val.bytesLt, ih]

theorem bytesLt_trans : ∀ (a b c : Bytes),
    Val.bytesLt a b = true → Val.bytesLt b c = true → Val.bytesLt a c = true
  | [], [], _, h, _ => by simp [Val.bytesLt] at h
  | [], _ :: _, [], _, h => by simp [Val.bytesLt] at h
  | [], _ :: _, _ :: _, _, _ => by simp [Val.bytesLt]
  | _ :: _, [], _, h, _ => by simp [Val.bytesLt] at h
  | _ :: _, _ :: _, [], _, h => by simp [Val.bytesLt] at h
  | x :: a, y :: b, z :: c, h1, h2 => by
    simp only [Val.bytesLt] at h1 h2 ⊢
    by_cases hxy : x < y
    · by_cases hyz : y < z
      · simp [UInt8.lt_trans hxy hyz]
      · by_cases hzy : z < y
        · simp [hyz, hzy] at h2
        · have : y = z := UInt8.le_antisymm (UInt8.not_lt.mp hzy) (UInt8.not_lt.mp hyz)
          subst this; simp [hxy]
    · by_cases hyx : y < x
      · simp [hxy, hyx] at h1
      · have hxy' : x = y := UInt8.le_antisymm (UInt8.not_lt.mp hyx) (UInt8.not_lt.mp hxy)
        subst hxy'
        simp only [hxy, if_false] at h1
        by_cases hxz : x < z
        · simp [hxz]
        · by_cases hzx : z < x
          · simp [hxz, hzx] at h2
          · simp only [hxz, hzx, if_false] at h2 ⊢
            exact bytesLt_trans a b c h1 h2

theorem keysAscending_pairwise {kvs : List (Bytes × Val)} (h : Val.keysAscending kvs = true) :
    (kvs.map (·.1)).Pairwise (fun a b => Val.bytesLt a b = true) := by
  induction kvs with
  | nil => exact List.Pairwise.nil
  | cons kv r ih =>
    cases r with
    | nil => simp
    | cons kv' r' =>
      obtain ⟨k, x⟩ := kv
      obtain ⟨l, y⟩ := kv'
      simp only [Val.keysAscending, Bool.and_eq_true] at h
      have ih' := ih h.2
      simp only [List.map_cons, List.pairwise_cons] at ih' ⊢
      refine ⟨?_, ih'⟩
      intro b hb
      rcases List.mem_cons.mp hb with rfl | hb
      · exact h.1
      · exact bytesLt_trans _ _ _ h.1 (ih'.1 b hb)

theorem keys_nodup {kvs : List (Bytes × Val)} (h : Val.keysAscending kvs = true) :
    (kvs.map (·.1)).Nodup := by
  have := keysAscending_pairwise h
  refine List.Pairwise.imp ?_ this
  intro a b hab heq
  subst heq
  simp [bytesLt_irrefl] at hab

theorem mapGet_cons (l : Bytes) (y : Val) (r : List (Bytes × Val)) (k : Bytes) :
    mapGet ((l, y) :: r) k = if l = k then some y else mapGet r k := by
  unfold mapGet
  by_cases h : l = k
  · simp [h]
  · have : (l == k) = false := by simpa using h
    simp [this, h]

/-- in a key-sorted entry list, lookup finds exactly the stored entries -/
theorem mapGet_eq_some_iff {kvs : List (Bytes × Val)} (h : Val.keysAscending kvs = true)
    (k : Bytes) (x : Val) : mapGet kvs k = some x ↔ (k, x) ∈ kvs := by
  have hnd := keys_nodup h
  clear h
  induction kvs with
  | nil => simp [mapGet]
  | cons kv r ih =>
    obtain ⟨l, y⟩ := kv
    simp only [List.map_cons, List.nodup_cons] at hnd
    have ih' := ih hnd.2
    rw [mapGet_cons]
    by_cases hlk : l = k
    · subst hlk
      simp only [if_true, Option.some.injEq, List.mem_cons, Prod.mk.injEq, true_and]
      constructor
      · intro h; exact Or.inl h.symm
      · rintro (h | h)
        · exact h.symm
        · exact absurd (List.mem_map.mpr ⟨(l, x), h, rfl⟩) hnd.1
    · simp only [hlk, if_false, List.mem_cons, Prod.mk.injEq]
      constructor
      · intro h; exact Or.inr (ih'.mp h)
      · rintro (⟨h, _⟩ | h)
        · exact absurd h.symm hlk
        · exact ih'.mpr h

/-- two key-sorted entry lists with the same entries are the same list: the iteration order
is a function of the key set -/
theorem sorted_perm_eq {k1 k2 : List (Bytes × Val)} (h1 : Val.keysAscending k1 = true)
    (h2 : Val.keysAscending k2 = true) (hp : k1.Perm k2) : k1 = k2 := by
  have p1 : k1.Pairwise (fun a b => Val.bytesLt a.1 b.1 = true) :=
    List.pairwise_map.mp (keysAscending_pairwise h1)
  have p2 : k2.Pairwise (fun a b => Val.bytesLt a.1 b.1 = true) :=
    List.pairwise_map.mp (keysAscending_pairwise h2)
  refine List.Perm.eq_of_pairwise ?_ p1 p2 hp
  intro a b _ _ hab hba
  have := bytesLt_trans _ _ _ hab hba
  simp [bytesLt_irrefl] at this

/-! ### the parser only produces well-typed paths -/

theorem lexIndexes_pathOk (f : Nat) (input : Input) (ty : Ty) (acc ixs : List FieldIndex)
    (ty' : Ty) (rest : Input)
    (h : lexIndexes f input ty acc = .ok ((ixs, ty'), rest)) :
    ∃ suffix, ixs = acc ++ suffix ∧ PathOk ty suffix ∧ applyIndexes ty suffix = ty' := by
  induction f generalizing input ty acc with
  | zero => simp [lexIndexes, errAt] at h
  | succ f ih =>
    rw [lexIndexes] at h
    split at h
    · simp only [Except.ok.injEq, Prod.mk.injEq] at h
      obtain ⟨⟨rfl, rfl⟩, _⟩ := h
      exact ⟨[], by simp, trivial, rfl⟩
    · split at h
      · cases h
      · split at h
        · simp [errAt] at h
        · split at h
          · rename_i ix _ _ _ _ _ _ ty1 hstep
            obtain ⟨suffix, h1, h2, h3⟩ := ih _ _ _ h
            refine ⟨ix :: suffix, by simp [h1], ?_, ?_⟩
            · rw [pathOk_cons]; exact ⟨ty1, hstep, h2⟩
            · simp only [applyIndexes, hstep]; exact h3
          · simp [errSpan] at h

/-! ### example value for the non-vacuity checks -/

/-- `Map(Array(Array(Int)))`, ragged, with empty inner and outer arrays -/
def exV : Val :=
  .map (.array (.array .int))
    [([97], .array (.array .int) [.array .int [.int 1, .int 2], .array .int [], .array .int [.int 3]]),
     ([97, 0], .array (.array .int) []),
     ([98], .array (.array .int) [.array .int [.int 4]])]

end C02
end WfModel
