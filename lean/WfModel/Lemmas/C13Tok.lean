import WfModel.Model.Parse
/-!
# C13 — what follows a literal that starts where a function call starts

`argFallback` tries a literal when the index expression failed. When the index expression
fails only because the nesting budget is exhausted (input = function name, spaces, `(` …),
a literal lexed from the same position stops inside the function name or exactly at its
end; in both cases what follows the literal can neither close nor continue the argument
list (`BadFollow`), so the enclosing call fails anyway. This is what makes the parser
monotone in the budget without any assumption on function names.
-/
namespace WfModel
namespace Tok

/-- `rest` is obtained from `input` by consuming characters that all satisfy `p` -/
def Tok (p : Char → Bool) (input rest : Input) : Prop :=
  ∃ pre, input = pre ++ rest ∧ ∀ c ∈ pre, p c = true

theorem Tok.refl (p : Char → Bool) (i : Input) : Tok p i i := ⟨[], rfl, by simp⟩

theorem Tok.trans {p : Char → Bool} {a b c : Input} (h1 : Tok p a b) (h2 : Tok p b c) : Tok p a c := by
  obtain ⟨p1, e1, a1⟩ := h1
  obtain ⟨p2, e2, a2⟩ := h2
  refine ⟨p1 ++ p2, by rw [e1, e2, List.append_assoc], ?_⟩
  intro c hc
  rcases List.mem_append.mp hc with h | h
  · exact a1 c h
  · exact a2 c h

theorem Tok.cons {p : Char → Bool} {c : Char} {r : Input} (h : p c = true) : Tok p (c :: r) r :=
  ⟨[c], rfl, by simpa using h⟩

theorem Tok.weaken {p q : Char → Bool} (hpq : ∀ c, p c = true → q c = true) {a b : Input}
    (h : Tok p a b) : Tok q a b := by
  obtain ⟨pre, e, ha⟩ := h
  exact ⟨pre, e, fun c hc => hpq c (ha c hc)⟩

theorem spanWhile_tok (p : Char → Bool) (i : Input) :
    i = (spanWhile p i).1 ++ (spanWhile p i).2 ∧ ∀ c ∈ (spanWhile p i).1, p c = true := by
  induction i with
  | nil => simp [spanWhile]
  | cons c cs ih =>
    unfold spanWhile
    split
    · rename_i hp
      constructor
      · simp only [List.cons_append]; rw [← ih.1]
      · intro d hd
        simp only [List.mem_cons] at hd
        rcases hd with rfl | hd
        · exact hp
        · exact ih.2 d hd
    · simp

theorem takeWhile1_tok {p : Char → Bool} {i a b : Input} (h : takeWhile1 p i = .ok (a, b)) :
    i = a ++ b ∧ a ≠ [] ∧ ∀ c ∈ a, p c = true := by
  unfold takeWhile1 at h
  have hs := spanWhile_tok p i
  split at h
  · simp [errAt] at h
  · rename_i a' b' hne heq
    cases h
    rw [heq] at hs
    refine ⟨hs.1, ?_, hs.2⟩
    intro ha; subst ha; exact hne rfl

theorem stripPrefix_eq {i p r : Input} (h : stripPrefix i p = some r) : i = p ++ r := by
  induction p generalizing i with
  | nil => simp [stripPrefix] at h; simp [h]
  | cons c cs ih =>
    cases i with
    | nil => simp [stripPrefix] at h
    | cons d ds =>
      simp only [stripPrefix] at h
      split at h
      · rename_i hdc; subst hdc; rw [ih h]; rfl
      · cases h

theorem expect_eq {i r : Input} {s : String} (h : expect i s = some r) : i = s.toList ++ r :=
  stripPrefix_eq h

/-! ### character classes -/

/-- characters an identifier (dotted run) consists of -/
def idCh (c : Char) : Bool := isIdentChar c || c = '.'

/-- characters an IP, integer or byte-string literal consists of -/
def litCh (c : Char) : Bool :=
  isAsciiHexDigit c || c = ':' || c = '.' || c = '/' || c = '-' || c = 'x'

theorem isSpace_cases {c : Char} (h : isSpace c = true) : c = ' ' ∨ c = '\r' ∨ c = '\n' := by
  have : (c = ' ' ∨ c = '\r') ∨ c = '\n' := by simpa [isSpace] using h
  rcases this with (h | h) | h
  · exact Or.inl h
  · exact Or.inr (Or.inl h)
  · exact Or.inr (Or.inr h)

theorem idCh_not_space {c : Char} (h : idCh c = true) : isSpace c = false := by
  cases hs : isSpace c with
  | false => rfl
  | true =>
    exfalso
    rcases isSpace_cases hs with rfl | rfl | rfl <;> exact absurd h (by decide)

theorem litCh_not_space {c : Char} (h : litCh c = true) : isSpace c = false := by
  cases hs : isSpace c with
  | false => rfl
  | true =>
    exfalso
    rcases isSpace_cases hs with rfl | rfl | rfl <;> exact absurd h (by decide)

theorem skipSpace_cons_of_not_space {c : Char} {t : Input} (h : isSpace c = false) :
    skipSpace (c :: t) = c :: t := by
  simp [skipSpace, h]

theorem digitVal_isSome (c : Char) : (digitVal c).isSome = isAsciiHexDigit c := by
  unfold digitVal isAsciiHexDigit
  split
  · simp_all
  · split
    · simp_all
    · split <;> simp_all

/-! ### identifiers -/

theorem identRest_tok (f : Nat) : ∀ (i rest : Input), identRest f i = .ok ((), rest) →
    ∃ pre, i = pre ++ rest ∧ pre ≠ [] ∧ ∀ c ∈ pre, idCh c = true := by
  induction f with
  | zero => intro i rest h; simp [identRest, errAt] at h
  | succ f ih =>
    intro i rest h
    simp only [identRest] at h
    split at h
    · cases h
    · rename_i a b htw
      obtain ⟨e1, ne1, a1⟩ := takeWhile1_tok htw
      have a1' : ∀ c ∈ a, idCh c = true := fun c hc => by simp [idCh, a1 c hc]
      split at h
      · rename_i r2 hex
        obtain ⟨pre, e2, _, a2⟩ := ih _ _ h
        have e3 := expect_eq hex
        refine ⟨a ++ ('.' :: pre), ?_, by simp [ne1], ?_⟩
        · rw [e1, e3, e2]; simp
        · intro c hc
          rcases List.mem_append.mp hc with hc | hc
          · exact a1' c hc
          · rcases List.mem_cons.mp hc with rfl | hc
            · decide
            · exact a2 c hc
      · cases h
        exact ⟨a, e1, ne1, a1'⟩

theorem lexIdentifier_tok {s : Scheme} {i rest : Input} {id : Ident}
    (h : lexIdentifier s i = .ok (id, rest)) :
    ∃ pre, i = pre ++ rest ∧ pre ≠ [] ∧ ∀ c ∈ pre, idCh c = true := by
  unfold lexIdentifier at h
  split at h
  · cases h
  · rename_i rest' hid
    dsimp only at h
    split at h
    · cases h; exact identRest_tok _ _ _ hid
    · simp [errSpan] at h

/-! ### literals -/

theorem foldl_digits_none (radix : Nat) (cs : List Char) :
    cs.foldl (fun acc c => do
      let a ← acc
      let d ← digitVal c
      if d < radix then some (a * radix + d) else none) (none : Option Nat) = none := by
  induction cs with
  | nil => rfl
  | cons c cs ih => simpa using ih

theorem foldl_digits_some (radix : Nat) (cs : List Char) : ∀ (acc : Option Nat) (v : Nat),
    cs.foldl (fun acc c => do
      let a ← acc
      let d ← digitVal c
      if d < radix then some (a * radix + d) else none) acc = some v →
    ∀ c ∈ cs, isAsciiHexDigit c = true := by
  induction cs with
  | nil => intro acc v _ c hc; cases hc
  | cons d ds ih =>
    intro acc v h c hc
    simp only [List.foldl_cons] at h
    rcases List.mem_cons.mp hc with rfl | hc
    · cases hd : digitVal c with
      | none =>
        rw [hd] at h
        have : (do let a ← acc; let d ← (none : Option Nat); if d < radix then some (a * radix + d) else none) = none := by
          cases acc <;> rfl
        rw [this, foldl_digits_none] at h
        cases h
      | some x =>
        rw [← digitVal_isSome, hd]; rfl
    · exact ih _ _ h c hc

theorem parseDigits_hex {radix : Nat} {cs : List Char} {v : Nat}
    (h : parseDigits radix cs = some v) : ∀ c ∈ cs, isAsciiHexDigit c = true := by
  unfold parseDigits at h
  split at h
  · cases h
  · exact foldl_digits_some radix cs _ _ h

theorem hex_lit {c : Char} (h : isAsciiHexDigit c = true) : litCh c = true := by
  simp [litCh, h]

theorem fixedByte_tok {i rest : Input} {n radix : Nat} {b : UInt8}
    (h : fixedByte i n radix = .ok (b, rest)) : Tok litCh i rest := by
  unfold fixedByte at h
  split at h
  · cases h
  · rename_i ds r htk
    unfold take at htk
    split at htk
    · simp [errAt] at htk
    · cases htk
      split at h
      · rename_i v hv
        split at h
        · cases h
          exact ⟨_, (List.take_append_drop n i).symm, fun c hc => hex_lit (parseDigits_hex hv c hc)⟩
        · simp [errSpan] at h
      · simp [errSpan] at h

theorem lexByteStringGo_tok (f : Nat) : ∀ (i : Input) (acc : Bytes) (b : Bytes) (rest : Input),
    lexByteStringGo f i acc = .ok (b, rest) → Tok litCh i rest := by
  induction f with
  | zero => intro i acc b rest h; simp [lexByteStringGo, errAt] at h
  | succ f ih =>
    intro i acc b rest h
    simp only [lexByteStringGo] at h
    split at h
    · cases h
    · rename_i b1 r1 hfb
      have t1 := fixedByte_tok hfb
      split at h
      · rename_i r2 hsep
        refine t1.trans (Tok.trans ?_ (ih _ _ _ _ h))
        unfold lexByteSep at hsep
        split at hsep
        · split at hsep
          · rename_i hc
            cases hsep
            refine Tok.cons ?_
            simp only [isByteSep, Bool.or_eq_true, decide_eq_true_eq] at hc
            rcases hc with (rfl | rfl) | rfl <;> decide
          · cases hsep
        · cases hsep
      · cases h; exact t1

theorem lexByteString_tok {i rest : Input} {b : Bytes}
    (h : lexByteString i = .ok (b, rest)) : Tok litCh i rest := by
  unfold lexByteString at h
  split at h
  · cases h
  · rename_i b1 r1 hfb
    have t1 := fixedByte_tok hfb
    split at h
    · cases h
    · rename_i u r2 hsep
      refine t1.trans (Tok.trans ?_ (lexByteStringGo_tok _ _ _ _ _ h))
      unfold lexByteSepE at hsep
      split at hsep
      · simp [errAt] at hsep
      · split at hsep
        · rename_i hc
          cases hsep
          refine Tok.cons ?_
          simp only [isByteSep, Bool.or_eq_true, decide_eq_true_eq] at hc
          rcases hc with (rfl | rfl) | rfl <;> decide
        · cases hsep

theorem takeWhile1_litTok {p : Char → Bool} (hp : ∀ c, p c = true → litCh c = true)
    {i a b : Input} (h : takeWhile1 p i = .ok (a, b)) : Tok litCh i b :=
  have ⟨e, _, ha⟩ := takeWhile1_tok h
  ⟨a, e, fun c hc => hp c (ha c hc)⟩

theorem parseNumber_rest {ds rest : Input} {radix : Nat} {sp : Input} {v : Int} {r : Input}
    (h : parseNumber ds rest radix sp = .ok (v, r)) : r = rest := by
  unfold parseNumber at h
  split at h
  · cases h; rfl
  · simp [errSpan] at h

theorem lexInt_tok {i rest : Input} {v : Int} (h : lexInt i = .ok (v, rest)) :
    Tok litCh i rest := by
  unfold lexInt at h
  split at h
  · rename_i r hex
    split at h
    · cases h
    · rename_i ds rs htw
      have := parseNumber_rest h; subst this
      have e := expect_eq hex
      have t := takeWhile1_litTok (fun c => hex_lit) htw
      refine Tok.trans ⟨"0x".toList, e, ?_⟩ t
      intro c hc
      have : c = '0' ∨ c = 'x' := by simpa using hc
      rcases this with rfl | rfl <;> decide
  · split at h
    · split at h
      · cases h
      · rename_i ds rs htw
        have := parseNumber_rest h; subst this
        exact takeWhile1_litTok (fun c => hex_lit) htw
    · dsimp only at h
      split at h
      · cases h
      · rename_i ds rs htw
        have := parseNumber_rest h; subst this
        have t := takeWhile1_litTok (fun c => hex_lit) htw
        cases hneg : expect i "-" with
        | none => rw [hneg] at t; exact t
        | some wn =>
          rw [hneg] at t
          have e := expect_eq hneg
          refine Tok.trans ⟨"-".toList, e, ?_⟩ t
          intro c hc
          have : c = '-' := by simpa using hc
          subst this; decide

theorem ipCh_lit {c : Char} (h : isIpChar c = true) : litCh c = true := by
  simp only [isIpChar, Bool.or_eq_true, decide_eq_true_eq] at h
  rcases h with ((h | rfl) | rfl) | rfl
  · exact hex_lit h
  all_goals decide

theorem lexIpAddr_tok {i rest : Input} {v : Ip} (h : lexIpAddr i = .ok (v, rest)) :
    Tok litCh i rest := by
  unfold lexIpAddr at h
  split at h
  · cases h
  · rename_i chunk rs htw
    split at h
    · cases h; exact takeWhile1_litTok (fun c => ipCh_lit) htw
    · simp [errSpan] at h

theorem lexRawStr_head {r : Input} {x : List Char × Nat} {rest : Input}
    (h : lexRawStr r = .ok (x, rest)) : ∃ c t, r = c :: t ∧ (c = '#' ∨ c = '"') := by
  unfold lexRawStr at h
  dsimp only at h
  split at h
  · simp [errAt] at h
  · split at h
    · rename_i body hd
      cases r with
      | nil => simp at hd
      | cons c t =>
        refine ⟨c, t, rfl, ?_⟩
        by_cases hc : c = '#'
        · exact Or.inl hc
        · have : countHashes (c :: t) = 0 := by
            unfold countHashes
            split
            · rename_i heq; cases heq; exact absurd rfl hc
            · rfl
          rw [this] at hd
          simp only [List.drop_zero, List.cons.injEq] at hd
          exact Or.inr hd.1
    · simp [errAt] at h

/-- the three literal kinds `argFallback` tries: either the literal consumed only
literal characters, or the input starts a quoted / raw string -/
theorem argLit_tok {ty : Ty} {i rest : Input} {a : Typed AExpr}
    (h : argLit ty i = some (.ok (a, rest))) :
    Tok litCh i rest ∨ (∃ t, i = '"' :: t) ∨ (∃ c t, i = 'r' :: c :: t ∧ (c = '#' ∨ c = '"')) := by
  unfold argLit at h
  cases hv : lexRhsVal ty i with
  | none => simp [hv] at h
  | some res =>
    cases res with
    | error e => simp [hv, Except.map] at h
    | ok v =>
      obtain ⟨v, rest'⟩ := v
      simp only [hv, Option.map_some, Except.map, Option.some.injEq, Except.ok.injEq,
        Prod.mk.injEq] at h
      obtain ⟨_, h2⟩ := h
      subst h2
      unfold lexRhsVal at hv
      split at hv
      · -- int
        simp only [Option.some.injEq] at hv
        cases hi : lexInt i with
        | error e => simp [hi, Except.map] at hv
        | ok w =>
          obtain ⟨w, r⟩ := w
          simp only [hi, Except.map, Except.ok.injEq, Prod.mk.injEq] at hv
          rw [← hv.2]; exact Or.inl (lexInt_tok hi)
      · -- ip
        simp only [Option.some.injEq] at hv
        cases hi : lexIpAddr i with
        | error e => simp [hi, Except.map] at hv
        | ok w =>
          obtain ⟨w, r⟩ := w
          simp only [hi, Except.map, Except.ok.injEq, Prod.mk.injEq] at hv
          rw [← hv.2]; exact Or.inl (lexIpAddr_tok hi)
      · -- bytes
        simp only [Option.some.injEq] at hv
        cases hi : lexBytes i with
        | error e => simp [hi, Except.map] at hv
        | ok w =>
          obtain ⟨w, r⟩ := w
          simp only [hi, Except.map, Except.ok.injEq, Prod.mk.injEq] at hv
          rw [← hv.2]
          unfold lexBytes at hi
          split at hi
          · exact Or.inr (Or.inl ⟨_, rfl⟩)
          · rename_i t
            right; right
            unfold lexQuotedOrRaw at hi
            simp only at hi
            cases hr : lexRawStr t with
            | error e => simp [hr, Except.map] at hi
            | ok x =>
              obtain ⟨x, r'⟩ := x
              obtain ⟨c, t', e, hc⟩ := lexRawStr_head hr
              exact ⟨c, t', by rw [e], hc⟩
          · simp [errAt] at hi
          · cases hb : lexByteString i with
            | error e => simp [hb, Except.map] at hi
            | ok x =>
              obtain ⟨x, r'⟩ := x
              simp only [hb, Except.map, Except.ok.injEq, Prod.mk.injEq] at hi
              rw [← hi.2]; exact Or.inl (lexByteString_tok hb)
      · cases hv

/-! ### the follow lemma -/

/-- what follows can neither end (`)`) nor continue (`,`) an argument list, and is not the
end of the input -/
def BadFollow (rest : Input) : Prop :=
  ∃ c t, skipSpace rest = c :: t ∧ c ≠ ')' ∧ c ≠ ','

theorem follow_of_tok {i rest0 rest r1 : Input}
    (hid : ∃ pre, i = pre ++ rest0 ∧ pre ≠ [] ∧ ∀ c ∈ pre, idCh c = true)
    (hp : expect (skipSpace rest0) "(" = some r1)
    (hlit : Tok litCh i rest) : BadFollow rest := by
  obtain ⟨pre, e1, _, a1⟩ := hid
  obtain ⟨pre', e2, a2⟩ := hlit
  have hparen : skipSpace rest0 = '(' :: r1 := expect_eq hp
  have good0 : BadFollow rest0 := ⟨'(', r1, hparen, by decide, by decide⟩
  rw [e1] at e2
  rcases List.append_eq_append_iff.mp e2 with ⟨a', ha, hb⟩ | ⟨c', hc, hd⟩
  · -- the literal runs past the identifier: impossible unless it stops exactly there
    cases a' with
    | nil => simp at hb; rw [← hb]; exact good0
    | cons c t =>
      exfalso
      have hcl : litCh c = true := a2 c (by rw [ha]; simp)
      have hns := litCh_not_space hcl
      rw [hb, List.cons_append, skipSpace_cons_of_not_space hns] at hparen
      simp only [List.cons.injEq] at hparen
      rw [hparen.1] at hcl
      exact absurd hcl (by decide)
  · -- the literal stops inside the identifier or at its end: rest = c' ++ rest0
    cases c' with
    | nil => simp at hd; rw [hd]; exact good0
    | cons c t =>
      have hcid : idCh c = true := a1 c (by rw [hc]; simp)
      have hns := idCh_not_space hcid
      refine ⟨c, t ++ rest0, ?_, ?_, ?_⟩
      · rw [hd]; exact skipSpace_cons_of_not_space hns
      · rintro rfl; exact absurd hcid (by decide)
      · rintro rfl; exact absurd hcid (by decide)

/-- **Follow lemma.** If an identifier can be lexed at `i` and is followed by `(`, then any
literal that `argFallback` lexes at `i` is followed by something that makes the enclosing
argument list fail. -/
theorem fallback_follow {s : Scheme} {i rest0 r1 rest : Input} {id : Ident} {ty : Ty}
    {a : Typed AExpr}
    (hid : lexIdentifier s i = .ok (id, rest0))
    (hp : expect (skipSpace rest0) "(" = some r1)
    (hlit : argLit ty i = some (.ok (a, rest))) : BadFollow rest := by
  have hid := lexIdentifier_tok hid
  rcases argLit_tok hlit with h | ⟨t, h⟩ | ⟨c, t, h, hc⟩
  · exact follow_of_tok hid hp h
  · exfalso
    obtain ⟨pre, e1, ne, a1⟩ := hid
    cases pre with
    | nil => exact ne rfl
    | cons d ds =>
      rw [h] at e1
      simp only [List.cons_append, List.cons.injEq] at e1
      have := a1 d (by simp)
      rw [← e1.1] at this
      exact absurd this (by decide)
  · exfalso
    obtain ⟨pre, e1, ne, a1⟩ := hid
    cases pre with
    | nil => exact ne rfl
    | cons d ds =>
      rw [h] at e1
      simp only [List.cons_append, List.cons.injEq] at e1
      cases ds with
      | nil =>
        simp only [List.nil_append] at e1
        have hparen : skipSpace rest0 = '(' :: r1 := expect_eq hp
        rw [← e1.2] at hparen
        rcases hc with rfl | rfl
        · simp [skipSpace, isSpace] at hparen
        · simp [skipSpace, isSpace] at hparen
      | cons d2 ds2 =>
        simp only [List.cons_append, List.cons.injEq] at e1
        have := a1 d2 (by simp)
        rw [← e1.2.1] at this
        rcases hc with rfl | rfl <;> exact absurd this (by decide)

theorem argLit_literal {ty : Ty} {i rest : Input} {a : Typed AExpr}
    (h : argLit ty i = some (.ok (a, rest))) : ∃ v, a.node = .literal v := by
  unfold argLit at h
  cases hv : lexRhsVal ty i with
  | none => simp [hv] at h
  | some res =>
    cases res with
    | error e => simp [hv, Except.map] at h
    | ok v =>
      obtain ⟨v, rest'⟩ := v
      simp only [hv, Option.map_some, Except.map, Option.some.injEq, Except.ok.injEq,
        Prod.mk.injEq] at h
      exact ⟨v, by rw [← h.1]⟩

end Tok
end WfModel
