import WfModel.Model.CtxSerde
/-!
Helper lemmas for C14 (`Props/C14.lean`): UTF-8 codec inverses, the byte-string order,
ordered-map insertion, value/context round trips and typing of the deserializer.
-/
namespace WfModel.CtxSerde
open WfModel Val

/-! ## UTF-8 -/


theorem toNat_ofNat_lt {n : Nat} (h : n < 256) : (UInt8.ofNat n).toNat = n := by
  simp [UInt8.toNat_ofNat', Nat.mod_eq_of_lt h]

theorem decode_encodeCp (n : Nat) (h : n.isValidChar) (r : List UInt8) :
    utf8Decode? (encodeCp n ++ r) = (utf8Decode? r).map (Char.ofNat n :: ·) := by
  have hv : n < 55296 ∨ (57343 < n ∧ n < 1114112) := h
  unfold encodeCp
  split
  · rename_i h1
    simp only [List.cons_append, List.nil_append]
    rw [utf8Decode?.eq_def]
    simp [toNat_ofNat_lt (show n < 256 by omega), h1]
  · split
    · rename_i h1 h2
      simp only [List.cons_append, List.nil_append]
      rw [utf8Decode?.eq_def]
      have e0 : (UInt8.ofNat (192 + n / 64)).toNat = 192 + n / 64 := toNat_ofNat_lt (by omega)
      have e1 : (UInt8.ofNat (128 + n % 64)).toNat = 128 + n % 64 := toNat_ofNat_lt (by omega)
      have e : (192 + n / 64 - 192) * 64 + (128 + n % 64 - 128) = n := by omega
      simp only [e0, e1, isCont, e]
      have c1 : ¬ (192 + n / 64 < 128) := by omega
      have c2 : ¬ (192 + n / 64 < 194) := by omega
      have c3 : (192 + n / 64 < 224) := by omega
      have c4 : 128 ≤ 128 + n % 64 ∧ 128 + n % 64 < 192 := by omega
      simp [c1, c2, c3, c4]
    · split
      · rename_i h1 h2 h3
        simp only [List.cons_append, List.nil_append]
        rw [utf8Decode?.eq_def]
        have e0 : (UInt8.ofNat (224 + n / 4096)).toNat = 224 + n / 4096 := toNat_ofNat_lt (by omega)
        have e1 : (UInt8.ofNat (128 + n / 64 % 64)).toNat = 128 + n / 64 % 64 := toNat_ofNat_lt (by omega)
        have e2 : (UInt8.ofNat (128 + n % 64)).toNat = 128 + n % 64 := toNat_ofNat_lt (by omega)
        have e : (224 + n / 4096 - 224) * 4096 + (128 + n / 64 % 64 - 128) * 64 + (128 + n % 64 - 128) = n := by omega
        simp only [e0, e1, e2, isCont, e]
        have c1 : ¬ (224 + n / 4096 < 128) := by omega
        have c2 : ¬ (224 + n / 4096 < 194) := by omega
        have c3 : ¬ (224 + n / 4096 < 224) := by omega
        have c3' : (224 + n / 4096 < 240) := by omega
        have c4 : 128 ≤ 128 + n % 64 ∧ 128 + n % 64 < 192 := by omega
        have c5 : 128 ≤ 128 + n / 64 % 64 ∧ 128 + n / 64 % 64 < 192 := by omega
        have c6 : 2048 ≤ n := by omega
        have c7 : ¬ (55296 ≤ n ∧ n < 57344) := by omega
        simp [c1, c2, c3, c3', c4, c5, c6, c7]
      · rename_i h1 h2 h3
        simp only [List.cons_append, List.nil_append]
        rw [utf8Decode?.eq_def]
        have e0 : (UInt8.ofNat (240 + n / 262144)).toNat = 240 + n / 262144 := toNat_ofNat_lt (by omega)
        have e1 : (UInt8.ofNat (128 + n / 4096 % 64)).toNat = 128 + n / 4096 % 64 := toNat_ofNat_lt (by omega)
        have e2 : (UInt8.ofNat (128 + n / 64 % 64)).toNat = 128 + n / 64 % 64 := toNat_ofNat_lt (by omega)
        have e3 : (UInt8.ofNat (128 + n % 64)).toNat = 128 + n % 64 := toNat_ofNat_lt (by omega)
        have e : (240 + n / 262144 - 240) * 262144 + (128 + n / 4096 % 64 - 128) * 4096 + (128 + n / 64 % 64 - 128) * 64 + (128 + n % 64 - 128) = n := by omega
        simp only [e0, e1, e2, e3, isCont, e]
        have c1 : ¬ (240 + n / 262144 < 128) := by omega
        have c2 : ¬ (240 + n / 262144 < 194) := by omega
        have c3 : ¬ (240 + n / 262144 < 224) := by omega
        have c3' : ¬ (240 + n / 262144 < 240) := by omega
        have c3'' : (240 + n / 262144 < 245) := by omega
        have c4 : 128 ≤ 128 + n % 64 ∧ 128 + n % 64 < 192 := by omega
        have c5 : 128 ≤ 128 + n / 64 % 64 ∧ 128 + n / 64 % 64 < 192 := by omega
        have c5' : 128 ≤ 128 + n / 4096 % 64 ∧ 128 + n / 4096 % 64 < 192 := by omega
        have c6 : 65536 ≤ n := by omega
        have c7 : n < 1114112 := by omega
        simp [c1, c2, c3, c3', c3'', c4, c5, c5', c6, c7]

theorem utf8_dec_enc (cs : List Char) : utf8Decode? (utf8Encode cs) = some cs := by
  induction cs with
  | nil => simp [utf8Encode, utf8Decode?]
  | cons c cs ih =>
    simp only [utf8Encode]
    rw [decode_encodeCp c.toNat c.valid, ih]
    simp [Char.ofNat_toNat]



theorem char_toNat_ofNat {n : Nat} (h : n.isValidChar) : (Char.ofNat n).toNat = n := by
  unfold Char.ofNat
  simp [h, Char.toNat, Char.ofNatAux]

theorem ofNat_eq_of_toNat {b : UInt8} {n : Nat} (h : n = b.toNat) : UInt8.ofNat n = b := by
  subst h; exact UInt8.ofNat_toNat

theorem map_cons_eq_some {α} {o : Option (List α)} {c : α} {cs : List α}
    (h : o.map (c :: ·) = some cs) : ∃ cs', o = some cs' ∧ cs = c :: cs' := by
  cases o with
  | none => simp at h
  | some x => simp at h; exact ⟨x, rfl, h.symm⟩

theorem utf8_enc_dec (bs : List UInt8) : ∀ cs, utf8Decode? bs = some cs → utf8Encode cs = bs := by
  fun_induction utf8Decode? bs with
  | case1 => intro cs h; simp at h; subst h; rfl
  | case2 b0 r h0 ih =>
    intro cs h
    obtain ⟨cs', h1, rfl⟩ := map_cons_eq_some h
    have hb := UInt8.toNat_lt b0
    simp only [utf8Encode, ih cs' h1]
    rw [char_toNat_ofNat (by left; omega)]
    simp [encodeCp, h0, UInt8.ofNat_toNat]
  | case3 b0 r h0 h1 => intro cs h; simp at h
  | case4 b0 h0 h1 h2 b1 r hc ih =>
    intro cs h
    obtain ⟨cs', h3, rfl⟩ := map_cons_eq_some h
    simp only [isCont, Bool.and_eq_true, decide_eq_true_eq] at hc
    simp only [utf8Encode, ih cs' h3]
    rw [char_toNat_ofNat (by left; omega)]
    have : ¬ ((b0.toNat - 192) * 64 + (b1.toNat - 128) < 128) := by omega
    have : ((b0.toNat - 192) * 64 + (b1.toNat - 128) < 2048) := by omega
    simp only [encodeCp, *, if_true, if_false, List.cons_append, List.nil_append]
    rw [ofNat_eq_of_toNat (b := b0) (by omega), ofNat_eq_of_toNat (b := b1) (by omega)]
  | case5 b0 h0 h1 h2 b1 r hc => intro cs h; simp at h
  | case6 b0 r h0 h1 h2 hr => intro cs h; simp at h
  | case7 b0 h0 h1 h2 h3 b1 b2 r hc ih =>
    intro cs h
    obtain ⟨cs', h4, rfl⟩ := map_cons_eq_some h
    simp only [isCont, Bool.and_eq_true, decide_eq_true_eq, Bool.not_eq_true', Bool.and_eq_false_iff,
      decide_eq_false_iff_not] at hc
    simp only [utf8Encode, ih cs' h4]
    have hb := UInt8.toNat_lt b0
    have hv : ((b0.toNat - 224) * 4096 + (b1.toNat - 128) * 64 + (b2.toNat - 128)).isValidChar := by
      show _ < 55296 ∨ (57343 < _ ∧ _ < 1114112)
      omega
    rw [char_toNat_ofNat hv]
    have : ¬ ((b0.toNat - 224) * 4096 + (b1.toNat - 128) * 64 + (b2.toNat - 128) < 128) := by omega
    have : ¬ ((b0.toNat - 224) * 4096 + (b1.toNat - 128) * 64 + (b2.toNat - 128) < 2048) := by omega
    have : ((b0.toNat - 224) * 4096 + (b1.toNat - 128) * 64 + (b2.toNat - 128) < 65536) := by omega
    simp only [encodeCp, *, if_true, if_false, List.cons_append, List.nil_append]
    rw [ofNat_eq_of_toNat (b := b0) (by omega), ofNat_eq_of_toNat (b := b1) (by omega),
      ofNat_eq_of_toNat (b := b2) (by omega)]
  | case8 b0 h0 h1 h2 h3 b1 b2 r hc => intro cs h; simp at h
  | case9 b0 r h0 h1 h2 h3 hr => intro cs h; simp at h
  | case10 b0 h0 h1 h2 h3 h4 b1 b2 b3 r hc ih =>
    intro cs h
    obtain ⟨cs', h5, rfl⟩ := map_cons_eq_some h
    simp only [isCont, Bool.and_eq_true, decide_eq_true_eq] at hc
    simp only [utf8Encode, ih cs' h5]
    have hv : ((b0.toNat - 240) * 262144 + (b1.toNat - 128) * 4096 + (b2.toNat - 128) * 64
        + (b3.toNat - 128)).isValidChar := by
      show _ < 55296 ∨ (57343 < _ ∧ _ < 1114112)
      omega
    rw [char_toNat_ofNat hv]
    have : ¬ ((b0.toNat - 240) * 262144 + (b1.toNat - 128) * 4096 + (b2.toNat - 128) * 64
        + (b3.toNat - 128) < 128) := by omega
    have : ¬ ((b0.toNat - 240) * 262144 + (b1.toNat - 128) * 4096 + (b2.toNat - 128) * 64
        + (b3.toNat - 128) < 2048) := by omega
    have : ¬ ((b0.toNat - 240) * 262144 + (b1.toNat - 128) * 4096 + (b2.toNat - 128) * 64
        + (b3.toNat - 128) < 65536) := by omega
    simp only [encodeCp, *, if_false, List.cons_append, List.nil_append]
    rw [ofNat_eq_of_toNat (b := b0) (by omega), ofNat_eq_of_toNat (b := b1) (by omega),
      ofNat_eq_of_toNat (b := b2) (by omega), ofNat_eq_of_toNat (b := b3) (by omega)]
  | case11 b0 h0 h1 h2 h3 h4 b1 b2 b3 r hc => intro cs h; simp at h
  | case12 b0 r h0 h1 h2 h3 h4 hr => intro cs h; simp at h
  | case13 b0 r h0 h1 h2 h3 h4 => intro cs h; simp at h

/-! ## byte-string order -/


theorem bytesLt_irrefl (a : Bytes) : bytesLt a a = false := by
  induction a with
  | nil => rfl
  | cons x xs ih => simp [bytesLt, ih]

theorem bytesLt_trans {a b c : Bytes} : bytesLt a b = true → bytesLt b c = true → bytesLt a c = true := by
  induction a generalizing b c with
  | nil => cases b <;> cases c <;> simp [bytesLt]
  | cons x xs ih =>
    cases b with
    | nil => simp [bytesLt]
    | cons y ys =>
      cases c with
      | nil => simp [bytesLt]
      | cons z zs =>
        simp only [bytesLt, UInt8.lt_iff_toNat_lt]
        intro h1 h2
        split at h1
        · split at h2
          · have : x.toNat < z.toNat := by omega
            simp [this]
          · split at h2
            · simp at h2
            · have : x.toNat < z.toNat := by omega
              simp [this]
        · split at h1
          · simp at h1
          · split at h2
            · have : x.toNat < z.toNat := by omega
              simp [this]
            · split at h2
              · simp at h2
              · have h3 : ¬ x.toNat < z.toNat := by omega
                have h4 : ¬ z.toNat < x.toNat := by omega
                simp [h3, h4]
                exact ih h1 h2

theorem bytesLt_total {a b : Bytes} : a ≠ b → bytesLt a b = false → bytesLt b a = true := by
  induction a generalizing b with
  | nil => cases b <;> simp [bytesLt]
  | cons x xs ih =>
    cases b with
    | nil => simp [bytesLt]
    | cons y ys =>
      simp only [bytesLt, UInt8.lt_iff_toNat_lt]
      intro hne h
      split at h
      · simp at h
      · split at h
        · simp [*]
        · have hxy : x = y := UInt8.toNat_inj.mp (by omega)
          subst hxy
          simp
          exact ih (by intro e; exact hne (by rw [e])) h

theorem bytesLt_asymm {a b : Bytes} (h : bytesLt a b = true) : bytesLt b a = false := by
  cases hb : bytesLt b a with
  | false => rfl
  | true => have := bytesLt_trans h hb; rw [bytesLt_irrefl] at this; exact absurd this (by simp)

theorem bytesLt_ne {a b : Bytes} (h : bytesLt a b = true) : a ≠ b := by
  intro e; subst e; rw [bytesLt_irrefl] at h; exact absurd h (by simp)

/-! ## ordered map insertion -/


/-- strict key order on entries -/
def KeyLt (a b : Bytes × Val) : Prop := bytesLt a.1 b.1 = true

theorem keysAscending_iff (m : List (Bytes × Val)) : keysAscending m = true ↔ m.Pairwise KeyLt := by
  induction m with
  | nil => simp [keysAscending]
  | cons a rest ih =>
    cases rest with
    | nil => simp [keysAscending]
    | cons b rest =>
      obtain ⟨k, v⟩ := a
      obtain ⟨l, w⟩ := b
      simp only [keysAscending, Bool.and_eq_true, ih, List.pairwise_cons]
      constructor
      · rintro ⟨hkl, hb, hrest⟩
        refine ⟨?_, hb, hrest⟩
        intro x hx
        rcases List.mem_cons.mp hx with rfl | hx
        · exact hkl
        · exact bytesLt_trans hkl (hb x hx)
      · rintro ⟨ha, hb, hrest⟩
        exact ⟨ha _ List.mem_cons_self, hb, hrest⟩

theorem wfKvs_iff (t : Ty) (m : List (Bytes × Val)) :
    wfKvs t m = true ↔ ∀ x ∈ m, x.2.typeOf = t ∧ x.2.wf = true := by
  induction m with
  | nil => simp [wfKvs]
  | cons a rest ih =>
    obtain ⟨k, v⟩ := a
    simp [wfKvs, ih, and_assoc]

theorem wfList_iff (t : Ty) (xs : List Val) :
    wfList t xs = true ↔ ∀ x ∈ xs, x.typeOf = t ∧ x.wf = true := by
  induction xs with
  | nil => simp [wfList]
  | cons a rest ih => simp [wfList, ih, and_assoc]

theorem mem_mapInsert {k v x} {m : List (Bytes × Val)} (h : x ∈ mapInsert k v m) : x = (k, v) ∨ x ∈ m := by
  induction m with
  | nil => simp [mapInsert] at h; exact Or.inl h
  | cons a rest ih =>
    obtain ⟨l, w⟩ := a
    simp only [mapInsert] at h
    split at h
    · rcases List.mem_cons.mp h with h | h
      · exact Or.inl h
      · exact Or.inr (List.mem_cons_of_mem _ h)
    · split at h
      · rcases List.mem_cons.mp h with h | h
        · exact Or.inl h
        · exact Or.inr h
      · rcases List.mem_cons.mp h with h | h
        · exact Or.inr (h ▸ List.mem_cons_self)
        · rcases ih h with h | h
          · exact Or.inl h
          · exact Or.inr (List.mem_cons_of_mem _ h)

theorem mapInsert_asc {k v} {m : List (Bytes × Val)} (h : m.Pairwise KeyLt) :
    (mapInsert k v m).Pairwise KeyLt := by
  induction m with
  | nil => simp [mapInsert]
  | cons a rest ih =>
    obtain ⟨l, w⟩ := a
    rw [List.pairwise_cons] at h
    simp only [mapInsert]
    split
    · rename_i hkl
      subst hkl
      exact List.pairwise_cons.mpr ⟨fun x hx => h.1 x hx, h.2⟩
    · split
      · rename_i hne hlt
        refine List.pairwise_cons.mpr ⟨?_, List.pairwise_cons.mpr h⟩
        intro x hx
        rcases List.mem_cons.mp hx with rfl | hx
        · exact hlt
        · exact bytesLt_trans hlt (h.1 x hx)
      · rename_i hne hlt
        refine List.pairwise_cons.mpr ⟨?_, ih h.2⟩
        intro x hx
        rcases mem_mapInsert hx with rfl | hx
        · exact bytesLt_total hne (by simpa using hlt)
        · exact h.1 x hx

theorem mapInsert_last {k v} {m : List (Bytes × Val)} (h : ∀ x ∈ m, bytesLt x.1 k = true) :
    mapInsert k v m = m ++ [(k, v)] := by
  induction m with
  | nil => rfl
  | cons a rest ih =>
    obtain ⟨l, w⟩ := a
    have hl : bytesLt l k = true := h (l, w) List.mem_cons_self
    have h1 : ¬ k = l := fun e => bytesLt_ne hl e.symm
    have h2 : bytesLt k l = false := bytesLt_asymm hl
    simp [mapInsert, h1, h2, ih (fun x hx => h x (List.mem_cons_of_mem _ hx))]

theorem insertAll_asc_append (acc es : List (Bytes × Val)) (h : (acc ++ es).Pairwise KeyLt) :
    insertAll acc es = acc ++ es := by
  induction es generalizing acc with
  | nil => simp [insertAll]
  | cons e rest ih =>
    obtain ⟨k, v⟩ := e
    simp only [insertAll]
    have hlast : mapInsert k v acc = acc ++ [(k, v)] := by
      apply mapInsert_last
      intro x hx
      have := List.pairwise_append.mp h
      exact this.2.2 x hx (k, v) List.mem_cons_self
    rw [hlast, ih (acc ++ [(k, v)]) (by simpa using h)]
    simp

theorem insertAll_asc {acc es : List (Bytes × Val)} (h : acc.Pairwise KeyLt) :
    (insertAll acc es).Pairwise KeyLt := by
  induction es generalizing acc with
  | nil => simpa [insertAll]
  | cons e rest ih => obtain ⟨k, v⟩ := e; exact ih (mapInsert_asc h)

theorem mem_insertAll {x} {acc es : List (Bytes × Val)} (h : x ∈ insertAll acc es) : x ∈ acc ∨ x ∈ es := by
  induction es generalizing acc with
  | nil => exact Or.inl (by simpa [insertAll] using h)
  | cons e rest ih =>
    obtain ⟨k, v⟩ := e
    rcases ih h with h | h
    · rcases mem_mapInsert h with rfl | h
      · exact Or.inr List.mem_cons_self
      · exact Or.inl h
    · exact Or.inr (List.mem_cons_of_mem _ h)

theorem mapInsert_perm {k v} {m : List (Bytes × Val)} (h : ∀ x ∈ m, x.1 ≠ k) :
    (mapInsert k v m).Perm ((k, v) :: m) := by
  induction m with
  | nil => simp [mapInsert]
  | cons a rest ih =>
    obtain ⟨l, w⟩ := a
    have hne : ¬ k = l := fun e => h (l, w) List.mem_cons_self e.symm
    simp only [mapInsert, hne, if_false]
    split
    · exact List.Perm.refl _
    · exact ((ih (fun x hx => h x (List.mem_cons_of_mem _ hx))).cons _).trans (List.Perm.swap _ _ _)

theorem insertAll_perm {acc es : List (Bytes × Val)} (h : (acc ++ es).Pairwise (fun a b => a.1 ≠ b.1)) :
    (insertAll acc es).Perm (acc ++ es) := by
  induction es generalizing acc with
  | nil => simp [insertAll]
  | cons e rest ih =>
    obtain ⟨k, v⟩ := e
    simp only [insertAll]
    have hp : (mapInsert k v acc).Perm ((k, v) :: acc) := by
      apply mapInsert_perm
      intro x hx
      exact (List.pairwise_append.mp h).2.2 x hx (k, v) List.mem_cons_self
    have hp2 : (mapInsert k v acc ++ rest).Perm (acc ++ (k, v) :: rest) :=
      (hp.append_right rest).trans (by simpa using (List.perm_middle (l₁ := acc) (l₂ := rest) (a := (k, v))).symm)
    refine (ih ?_).trans hp2
    exact (List.Perm.pairwise_iff (fun {a b} (hab : a.1 ≠ b.1) => (Ne.symm hab : b.1 ≠ a.1))
      hp2).mpr h

end WfModel.CtxSerde
