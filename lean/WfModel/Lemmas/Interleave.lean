import WfModel.Model.Interleave
namespace WfModel.Interleave
open WfModel

/-- the invariant relating a reachable state to the sequential runs -/
structure Inv (w : World) (progs : List (List Job)) (s : St) : Prop where
  lenP : s.pcs.length = progs.length
  lenO : s.outs.length = progs.length
  outs : ∀ (t : Nat) (prog : List Job), progs[t]? = some prog → ∀ (pc : Nat), s.pcs[t]? = some pc →
    s.outs[t]? = some (sequential w prog pc) ∧ pc ≤ prog.length

theorem inv_init (w : World) (progs : List (List Job)) : Inv w progs (init progs.length) := by
  refine ⟨by simp [init], by simp [init], ?_⟩
  intro t prog hp pc hpc
  have ht : t < progs.length := by
    have := List.getElem?_eq_some_iff.mp hp
    exact this.1
  simp only [init, List.getElem?_replicate, ht, if_true, Option.some.injEq] at hpc ⊢
  subst hpc
  simp [sequential]

theorem take_succ_map {α β} (f : α → β) (l : List α) (k : Nat) (x : α) (h : l[k]? = some x) :
    (l.take (k + 1)).map f = (l.take k).map f ++ [f x] := by
  rw [List.take_succ, h]; simp

theorem inv_step (w : World) (progs : List (List Job)) (env : Nat → Bool) (s : St) (t : Nat)
    (h : Inv w progs s) : Inv w progs (step w progs env s t) := by
  unfold step
  split
  · rename_i prog pc hp hpc
    split
    · exact ⟨h.lenP, h.lenO, h.outs⟩
    · rename_i j hj
      refine ⟨by simpa using h.lenP, by simpa using h.lenO, ?_⟩
      intro t' prog' hp' pc' hpc'
      by_cases htt : t' = t
      · subst htt
        have hpe : prog' = prog := by rw [hp] at hp'; exact (Option.some.inj hp').symm
        subst hpe
        have ht : t' < s.pcs.length := (List.getElem?_eq_some_iff.mp hpc).1
        have hto : t' < s.outs.length := by rw [h.lenO, ← h.lenP]; exact ht
        simp only [List.getElem?_set_self ht, Option.some.injEq] at hpc'
        subst hpc'
        have := (h.outs t' prog' hp pc hpc).1
        have hlt : pc < prog'.length := (List.getElem?_eq_some_iff.mp hj).1
        refine ⟨?_, by omega⟩
        show (s.outs.modify t' fun x => x ++ [runJob w j])[t']? = _
        rw [List.getElem?_modify_eq, this]
        show some (sequential w prog' pc ++ [runJob w j]) = some (sequential w prog' (pc + 1))
        simp only [Option.some.injEq, sequential]
        exact (take_succ_map (runJob w) prog' pc j hj).symm
      · have hne : t ≠ t' := fun e => htt e.symm
        rw [List.getElem?_set_ne hne] at hpc'
        show (s.outs.modify t fun x => x ++ [runJob w j])[t']? = _ ∧ _
        rw [List.getElem?_modify_ne _ _ hne]
        exact h.outs t' prog' hp' pc' hpc'
  · exact ⟨h.lenP, h.lenO, h.outs⟩

theorem inv_run (w : World) (progs : List (List Job)) (env : Nat → Bool) (sched : List Nat) :
    Inv w progs (run w progs env sched) := by
  unfold run
  generalize hs : init progs.length = s0
  have h0 : Inv w progs s0 := hs ▸ inv_init w progs
  clear hs
  induction sched generalizing s0 with
  | nil => exact h0
  | cons t rest ih => exact ih _ (inv_step w progs env s0 t h0)

/-- latch invariant: every observation so far equals the latched value -/
def LatchInv (s : St) : Prop :=
  (s.latch = none → s.seen = []) ∧ ∀ v, s.latch = some v → ∀ x ∈ s.seen, x = v

theorem latch_step (w : World) (progs : List (List Job)) (env : Nat → Bool) (s : St) (t : Nat)
    (h : LatchInv s) : LatchInv (step w progs env s t) ∧
      (∀ v, s.latch = some v → (step w progs env s t).latch = some v) := by
  unfold step
  split
  · split
    · exact ⟨h, fun v hv => hv⟩
    · cases hl : s.latch with
      | none =>
        have hs := h.1 hl
        refine ⟨⟨by simp, ?_⟩, by simp⟩
        intro v hv x hx
        simp only [hs, List.nil_append, List.mem_singleton] at hx
        simp only [Option.some.injEq] at hv
        rw [hx, ← hv]
      | some v0 =>
        refine ⟨⟨by simp, ?_⟩, by simp⟩
        intro v hv x hx
        simp only [Option.some.injEq] at hv
        subst hv
        rcases List.mem_append.mp hx with hx | hx
        · exact h.2 _ hl x hx
        · simpa using hx
  · exact ⟨h, fun v hv => hv⟩

theorem latch_run_aux (w : World) (progs : List (List Job)) (env : Nat → Bool) (sched : List Nat)
    (s0 : St) (h0 : LatchInv s0) : LatchInv (sched.foldl (step w progs env) s0) := by
  induction sched generalizing s0 with
  | nil => exact h0
  | cons t rest ih => exact ih _ (latch_step w progs env s0 t h0).1

/-- bridge between the search model and the core evaluator's `contains` -/
theorem isPrefixOf_eq (p h : Bytes) : WfModel.isPrefixOf p h = p.isPrefixOf h := by
  induction p generalizing h with
  | nil => cases h <;> simp [WfModel.isPrefixOf]
  | cons a as ih =>
    cases h with
    | nil => simp [WfModel.isPrefixOf]
    | cons b bs => simp [WfModel.isPrefixOf, List.isPrefixOf, ih]

theorem naive_eq_containsBytes (h p : Bytes) : Search.naive h p = containsBytes h p := by
  induction h with
  | nil => simp [Search.naive, containsBytes]
  | cons b t ih => simp [Search.naive, containsBytes, ih, isPrefixOf_eq]

end WfModel.Interleave
