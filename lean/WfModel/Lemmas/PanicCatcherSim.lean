import WfModel.Lemmas.PanicCatcher
/-!
The small-step machine (`tstep`, `Cfg.step`) and the big-step semantics (`exec`, `execList`,
`runTop`) of `Model/PanicCatcher.lean` agree: running the machine on a history reaches exactly
the big-step result.
-/
namespace WfModel.PanicCatcher

/-- exactly `n` steps (none if the machine stops earlier) -/
def Cfg.stepN : Nat → Cfg → Option Cfg
  | 0, c => some c
  | n + 1, c => match c.step with
    | none => none
    | some c' => Cfg.stepN n c'

theorem Cfg.stepN_add (n k : Nat) (c : Cfg) :
    Cfg.stepN (n + k) c = (Cfg.stepN n c).bind (Cfg.stepN k) := by
  induction n generalizing c with
  | zero => simp [Cfg.stepN]
  | succ n ih =>
    rw [Nat.succ_add]
    simp only [Cfg.stepN]
    cases c.step with
    | none => rfl
    | some c' => exact ih c'

theorem Cfg.stepN_trans {n k : Nat} {a b c : Cfg} (h1 : Cfg.stepN n a = some b)
    (h2 : Cfg.stepN k b = some c) : Cfg.stepN (n + k) a = some c := by
  rw [Cfg.stepN_add, h1]; exact h2

theorem Cfg.stepN_one {a b : Cfg} (h : a.step = some b) : Cfg.stepN 1 a = some b := by
  simp [Cfg.stepN, h]

theorem Cfg.run_of_stepN {n fuel : Nat} {a b : Cfg} (h : Cfg.stepN n a = some b)
    (hb : b.step = none) (hf : n ≤ fuel) : Cfg.run fuel a = b := by
  induction n generalizing a fuel with
  | zero =>
    simp [Cfg.stepN] at h; subst h
    cases fuel with
    | zero => rfl
    | succ f => simp [Cfg.run, hb]
  | succ n ih =>
    simp only [Cfg.stepN] at h
    cases hs : a.step with
    | none => rw [hs] at h; cases h
    | some a' =>
      rw [hs] at h
      cases fuel with
      | zero => omega
      | succ f =>
        simp only [Cfg.run, hs]
        exact ih h (by omega)

/-- configuration after a step result, given the trace so far -/
def settle (tr : List Ev) : StepRes → Cfg
  | .next s k evs => { st := s, code := k, tr := tr ++ evs, aborted := false }
  | .abort s evs => { st := s, code := {}, tr := tr ++ evs, aborted := true }
  | .halt => { st := default, code := {}, tr := tr, aborted := true }

theorem Cfg.step_eq (s : St) (k : Code) (tr : List Ev) (h : tstep s k ≠ .halt) :
    Cfg.step { st := s, code := k, tr := tr, aborted := false } = some (settle tr (tstep s k)) := by
  unfold Cfg.step
  simp only [Bool.false_eq_true, if_false]
  cases hr : tstep s k with
  | halt => exact absurd hr h
  | next s2 k2 evs => rfl
  | abort s2 evs => rfl

theorem unwind_ne_halt (s : St) (m : Nat) (top : List Op) (stk : List Frame) :
    unwind s m top stk ≠ .halt := by
  induction stk generalizing top with
  | nil => simp [unwind]
  | cons f fs ih =>
    simp only [unwind]
    split
    · split <;> simp
    · exact ih f.rest

theorem unwind_top_irrel (s : St) (m : Nat) (top top' : List Op) (f : Frame) (fs : List Frame) :
    unwind s m top (f :: fs) = unwind s m top' (f :: fs) := by
  simp [unwind]

theorem addEvs_ne_halt (pre : List Ev) (r : StepRes) (h : r ≠ .halt) :
    tstep.addEvs pre r ≠ .halt := by
  cases r with
  | halt => exact absurd rfl h
  | next s k evs => simp [tstep.addEvs]
  | abort s evs => simp [tstep.addEvs]

theorem settle_addEvs (tr pre : List Ev) (r : StepRes) (h : r ≠ .halt) :
    settle tr (tstep.addEvs pre r) = settle (tr ++ pre) r := by
  cases r with
  | halt => exact absurd rfl h
  | next s k evs => simp [tstep.addEvs, settle, List.append_assoc]
  | abort s evs => simp [tstep.addEvs, settle, List.append_assoc]

/-- where the machine stands once the op (with result `r`) is over -/
def after (r : St × List Ev × Outcome) (rest : List Op) (stk : List Frame) (tr0 : List Ev) : Cfg :=
  match r.2.2 with
  | .done => { st := r.1, code := { cur := rest, stk := stk }, tr := tr0 ++ r.2.1, aborted := false }
  | .aborted => { st := r.1, code := {}, tr := tr0 ++ r.2.1, aborted := true }
  | .panicked m => settle (tr0 ++ r.2.1) (unwind r.1 m rest stk)

theorem tstep_simple (s : St) (op : Op) (rest : List Op) (stk : List Frame)
    (h : ∀ b v, op ≠ .catch_ b v) (h' : ∀ m, op ≠ .panic m) :
    tstep s { cur := op :: rest, stk := stk } =
      .next (simple s op).1 { cur := rest, stk := stk } (simple s op).2 := by
  cases op with
  | catch_ b v => exact absurd rfl (h b v)
  | panic m => exact absurd rfl (h' m)
  | enable => simp [tstep]
  | disable => simp [tstep]
  | setHook => simp [tstep]
  | setFallback f => simp [tstep]
  | query => simp [tstep]

theorem sim_simple (s : St) (op : Op) (rest : List Op) (stk : List Frame) (tr0 : List Ev)
    (h : ∀ b v, op ≠ .catch_ b v) (h' : ∀ m, op ≠ .panic m)
    (he : exec s op = ((simple s op).1, (simple s op).2, .done)) :
    Cfg.stepN 1 { st := s, code := { cur := op :: rest, stk := stk }, tr := tr0, aborted := false } =
      some (after (exec s op) rest stk tr0) := by
  apply Cfg.stepN_one
  rw [Cfg.step_eq _ _ _ (by rw [tstep_simple s op rest stk h h']; simp), tstep_simple s op rest stk h h', he]
  rfl

mutual
theorem exec_sim : (op : Op) → ∀ (s : St) (rest : List Op) (stk : List Frame) (tr0 : List Ev),
    ∃ n, n ≤ op.steps ∧
      Cfg.stepN n { st := s, code := { cur := op :: rest, stk := stk }, tr := tr0, aborted := false } =
        some (after (exec s op) rest stk tr0)
  | .enable => fun s rest stk tr0 =>
    ⟨1, by simp [Op.steps], sim_simple s _ rest stk tr0 (by simp) (by simp) (by simp [exec])⟩
  | .disable => fun s rest stk tr0 =>
    ⟨1, by simp [Op.steps], sim_simple s _ rest stk tr0 (by simp) (by simp) (by simp [exec])⟩
  | .setHook => fun s rest stk tr0 =>
    ⟨1, by simp [Op.steps], sim_simple s _ rest stk tr0 (by simp) (by simp) (by simp [exec])⟩
  | .setFallback f => fun s rest stk tr0 =>
    ⟨1, by simp [Op.steps], sim_simple s _ rest stk tr0 (by simp) (by simp) (by simp [exec])⟩
  | .query => fun s rest stk tr0 =>
    ⟨1, by simp [Op.steps], sim_simple s _ rest stk tr0 (by simp) (by simp) (by simp [exec])⟩
  | .panic m => fun s rest stk tr0 => by
    refine ⟨1, by simp [Op.steps], Cfg.stepN_one ?_⟩
    have hts : tstep s { cur := .panic m :: rest, stk := stk } =
        match runHook s.hook s.loc m with
        | .recorded l => tstep.addEvs [] (unwind { s with loc := l } m rest stk)
        | .fellThrough ev => tstep.addEvs [ev] (unwind s m rest stk)
        | .abort => .abort s [.abort] := rfl
    have hne : tstep s { cur := .panic m :: rest, stk := stk } ≠ .halt := by
      rw [hts]
      cases runHook s.hook s.loc m with
      | recorded l => exact addEvs_ne_halt _ _ (unwind_ne_halt _ _ _ _)
      | fellThrough ev => exact addEvs_ne_halt _ _ (unwind_ne_halt _ _ _ _)
      | abort => simp
    rw [Cfg.step_eq _ _ _ hne, hts]
    simp only [exec, raise]
    cases runHook s.hook s.loc m with
    | recorded l =>
      simp only [after]
      rw [settle_addEvs _ _ _ (unwind_ne_halt _ _ _ _)]
    | fellThrough ev =>
      simp only [after]
      rw [settle_addEvs _ _ _ (unwind_ne_halt _ _ _ _)]
    | abort => simp [after, settle]
  | .catch_ body v => fun s rest stk tr0 => by
    cases hE : s.loc.enabled with
    | true =>
      by_cases hL : s.loc.level + 1 < levelLimit
      · -- catching frame
        have h1 : Cfg.step { st := s, code := { cur := .catch_ body v :: rest, stk := stk }, tr := tr0, aborted := false } =
            some { st := enter s, code := { cur := body, stk := { started := true, val := v, rest := rest } :: stk }, tr := tr0, aborted := false } := by
          have : tstep s { cur := .catch_ body v :: rest, stk := stk } =
              .next (enter s) { cur := body, stk := { started := true, val := v, rest := rest } :: stk } [] := by
            simp [tstep, hE, hL]
          rw [Cfg.step_eq _ _ _ (by rw [this]; simp), this]
          simp [settle]
        obtain ⟨n, hn, hb⟩ := execList_sim body (enter s) [] { started := true, val := v, rest := rest } stk tr0
        rw [List.append_nil] at hb
        rw [exec_catch_on body v hE hL]
        revert hb
        generalize execList (enter s) body = r
        obtain ⟨s1, tr, out⟩ := r
        intro hb
        cases out with
        | aborted =>
          refine ⟨1 + n, by simp [Op.steps]; omega, Cfg.stepN_trans (Cfg.stepN_one h1) ?_⟩
          rw [hb]; simp [after, finishCatch]
        | panicked m =>
          refine ⟨1 + n, by simp [Op.steps]; omega, Cfg.stepN_trans (Cfg.stepN_one h1) ?_⟩
          rw [hb]
          by_cases h0 : s1.loc.level = 0
          · simp [after, finishCatch, unwind, settle, h0]
          · simp [after, finishCatch, unwind, settle, h0]
        | done =>
          refine ⟨1 + n + 1, by simp [Op.steps]; omega,
            Cfg.stepN_trans (Cfg.stepN_trans (Cfg.stepN_one h1) hb) (Cfg.stepN_one ?_)⟩
          simp only [after]
          by_cases h0 : s1.loc.level = 0
          · have : tstep s1 { cur := [], stk := { started := true, val := v, rest := rest } :: stk } =
                .abort s1 [.abort] := by simp [tstep, h0]
            rw [Cfg.step_eq _ _ _ (by rw [this]; simp), this]
            simp [settle, finishCatch, h0]
          · have : tstep s1 { cur := [], stk := { started := true, val := v, rest := rest } :: stk } =
                .next (leave s1) { cur := rest, stk := stk } [.caught (.ok v)] := by simp [tstep, h0]
            rw [Cfg.step_eq _ _ _ (by rw [this]; simp), this]
            simp [settle, finishCatch, h0]
      · -- checked_add overflow
        refine ⟨1, by simp [Op.steps], Cfg.stepN_one ?_⟩
        have : tstep s { cur := .catch_ body v :: rest, stk := stk } = .abort s [.abort] := by
          simp [tstep, hE, hL]
        rw [Cfg.step_eq _ _ _ (by rw [this]; simp), this, exec_catch_over body v hE hL]
        simp [settle, after]
    | false =>
      have h1 : Cfg.step { st := s, code := { cur := .catch_ body v :: rest, stk := stk }, tr := tr0, aborted := false } =
          some { st := s, code := { cur := body, stk := { started := false, val := v, rest := rest } :: stk }, tr := tr0, aborted := false } := by
        have : tstep s { cur := .catch_ body v :: rest, stk := stk } =
            .next s { cur := body, stk := { started := false, val := v, rest := rest } :: stk } [] := by
          simp [tstep, hE]
        rw [Cfg.step_eq _ _ _ (by rw [this]; simp), this]
        simp [settle]
      obtain ⟨n, hn, hb⟩ := execList_sim body s [] { started := false, val := v, rest := rest } stk tr0
      rw [List.append_nil] at hb
      rw [exec_catch_off body v hE]
      revert hb
      generalize execList s body = r
      obtain ⟨s1, tr, out⟩ := r
      intro hb
      cases out with
      | aborted =>
        refine ⟨1 + n, by simp [Op.steps]; omega, Cfg.stepN_trans (Cfg.stepN_one h1) ?_⟩
        rw [hb]; simp [after, finishPlain]
      | panicked m =>
        refine ⟨1 + n, by simp [Op.steps]; omega, Cfg.stepN_trans (Cfg.stepN_one h1) ?_⟩
        rw [hb]; simp [after, finishPlain, unwind]
      | done =>
        refine ⟨1 + n + 1, by simp [Op.steps]; omega,
          Cfg.stepN_trans (Cfg.stepN_trans (Cfg.stepN_one h1) hb) (Cfg.stepN_one ?_)⟩
        simp only [after]
        have : tstep s1 { cur := [], stk := { started := false, val := v, rest := rest } :: stk } =
            .next s1 { cur := rest, stk := stk } [.caught (.ok v)] := by simp [tstep]
        rw [Cfg.step_eq _ _ _ (by rw [this]; simp), this]
        simp [settle, finishPlain]

theorem execList_sim : (ops : List Op) → ∀ (s : St) (rest : List Op) (f : Frame) (fs : List Frame)
    (tr0 : List Ev),
    ∃ n, n ≤ stepsList ops ∧
      Cfg.stepN n { st := s, code := { cur := ops ++ rest, stk := f :: fs }, tr := tr0, aborted := false } =
        some (after (execList s ops) rest (f :: fs) tr0)
  | [] => fun s rest f fs tr0 => ⟨0, by simp [stepsList], by simp [Cfg.stepN, after, execList]⟩
  | op :: ops => fun s rest f fs tr0 => by
    obtain ⟨n1, hn1, h1⟩ := exec_sim op s (ops ++ rest) (f :: fs) tr0
    rw [execList_cons]
    cases ho : (exec s op).2.2 with
    | done =>
      obtain ⟨n2, hn2, h2⟩ := execList_sim ops (exec s op).1 rest f fs (tr0 ++ (exec s op).2.1)
      refine ⟨n1 + n2, by simp [stepsList]; omega, ?_⟩
      rw [List.cons_append]
      have h1' : Cfg.stepN n1 { st := s, code := { cur := op :: (ops ++ rest), stk := f :: fs }, tr := tr0, aborted := false } =
          some { st := (exec s op).1, code := { cur := ops ++ rest, stk := f :: fs }, tr := tr0 ++ (exec s op).2.1, aborted := false } := by
        rw [h1]; simp [after, ho]
      refine Cfg.stepN_trans h1' ?_
      rw [h2]
      simp only [after]
      cases (execList (exec s op).1 ops).2.2 <;> simp [List.append_assoc]
    | panicked m =>
      refine ⟨n1, by simp [stepsList]; omega, ?_⟩
      rw [List.cons_append, h1]
      simp only [after, ho]
      rw [unwind_top_irrel _ _ (ops ++ rest) rest]
    | aborted =>
      refine ⟨n1, by simp [stepsList]; omega, ?_⟩
      rw [List.cons_append, h1]
      simp [after, ho]
end

/-- final configuration of a top-level run -/
def finalCfg (r : St × List Ev × Bool) (tr0 : List Ev) : Cfg :=
  { st := r.1, code := {}, tr := tr0 ++ r.2.1, aborted := r.2.2 }

theorem runTop_sim (ops : List Op) : ∀ (s : St) (tr0 : List Ev),
    ∃ n, n ≤ stepsList ops ∧
      Cfg.stepN n { st := s, code := { cur := ops, stk := [] }, tr := tr0, aborted := false } =
        some (finalCfg (runTop s ops) tr0) := by
  induction ops with
  | nil => intro s tr0; exact ⟨0, by simp [stepsList], by simp [Cfg.stepN, finalCfg, runTop]⟩
  | cons op rest ih =>
    intro s tr0
    obtain ⟨n1, hn1, h1⟩ := exec_sim op s rest [] tr0
    rw [runTop_cons]
    cases ho : (exec s op).2.2 with
    | done =>
      obtain ⟨n2, hn2, h2⟩ := ih (exec s op).1 (tr0 ++ (exec s op).2.1)
      refine ⟨n1 + n2, by simp [stepsList]; omega, Cfg.stepN_trans (h1.trans ?_) (h2.trans ?_)⟩
      · simp [after, ho]
      · simp [finalCfg, List.append_assoc]
    | panicked m =>
      obtain ⟨n2, hn2, h2⟩ := ih (exec s op).1 (tr0 ++ (exec s op).2.1 ++ [.unwound m])
      refine ⟨n1 + n2, by simp [stepsList]; omega, Cfg.stepN_trans (h1.trans ?_) (h2.trans ?_)⟩
      · simp [after, ho, unwind, settle]
      · simp [finalCfg, List.append_assoc]
    | aborted =>
      refine ⟨n1, by simp [stepsList]; omega, h1.trans ?_⟩
      simp [after, ho, finalCfg]

theorem finalCfg_halts (r : St × List Ev × Bool) (tr0 : List Ev) : (finalCfg r tr0).step = none := by
  unfold Cfg.step finalCfg
  cases r.2.2 <;> simp [tstep]

/-- The small-step machine run to completion computes the big-step result. -/
theorem runSmall_eq_runTop (s : St) (ops : List Op) : runSmall s ops = runTop s ops := by
  obtain ⟨n, hn, h⟩ := runTop_sim ops s []
  have := Cfg.run_of_stepN h (finalCfg_halts _ _) (by omega : n ≤ stepsList ops + 1)
  unfold runSmall
  rw [this]
  simp [finalCfg]

end WfModel.PanicCatcher

namespace WfModel.PanicCatcher

/-- with enough fuel the machine ends in the big-step result -/
theorem run_ge_eq_runTop (s : St) (ops : List Op) (fuel : Nat) (hf : stepsList ops ≤ fuel) :
    Cfg.run fuel { st := s, code := { cur := ops } } = finalCfg (runTop s ops) [] := by
  obtain ⟨n, hn, h⟩ := runTop_sim ops s []
  exact Cfg.run_of_stepN h (finalCfg_halts _ _) (by omega)

theorem Cfg.run_aborted (n : Nat) (c : Cfg) (h : c.aborted = true) : Cfg.run n c = c := by
  cases n with
  | zero => rfl
  | succ n => simp [Cfg.run, Cfg.step, h]

/-- A thread of `Sys` running alone is the single-thread machine, as long as nothing aborts. -/
theorem solo_eq_run (hook : Hook) (n : Nat) : ∀ (c : Cfg), c.st.hook = hook → c.st.hookSet = true →
    c.aborted = false → (Cfg.run n c).aborted = false →
    Thread.solo hook n { loc := c.st.loc, code := c.code, tr := c.tr } =
      { loc := (Cfg.run n c).st.loc, code := (Cfg.run n c).code, tr := (Cfg.run n c).tr } := by
  induction n with
  | zero => intro c _ _ _ _; rfl
  | succ n ih =>
    intro c hh hs ha hna
    have hst : ({ loc := c.st.loc, hook := hook, hookSet := true } : St) = c.st := by
      cases hc : c.st with
      | mk loc hk hset => rw [hc] at hh hs; simp at hh hs; simp [hh, hs]
    have hk := tstep_hook c.st c.code hs
    simp only [Thread.solo, Cfg.run, Cfg.step, ha, Bool.false_eq_true, if_false, hst] at hna ⊢
    cases hr : tstep c.st c.code with
    | halt => simp
    | next s k evs =>
      have hk' := hk s (by simp [hr, StepRes.st?])
      simp only [hr] at hna ⊢
      exact ih { st := s, code := k, tr := c.tr ++ evs, aborted := false } (hk'.1.trans hh) hk'.2 rfl hna
    | abort s evs =>
      simp only [hr] at hna
      rw [Cfg.run_aborted _ _ rfl] at hna
      cases hna

end WfModel.PanicCatcher
