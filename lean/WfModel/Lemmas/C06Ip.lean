import WfModel.Lemmas.C06Base

/-! IP literal lemmas for C06: chunk lemmas for the IP lexers, `rfindSlash`, CIDR host bits,
explicit ranges, dotted-quad and full IPv6 round trips.  No property statements are
re-exported here; `Props/C06.lean` does that. -/
namespace WfModel

theorem headNot_nil (p : Char → Bool) : headNot p [] = true := rfl

theorem headNot_cons {p : Char → Bool} {c : Char} {r : Input} (h : p c = false) :
    headNot p (c :: r) = true := by simp [headNot, h]

theorem errSpan_eq {α} (k i r) : (errSpan k i r : Except LexErr α) = .error { kind := k, pos := i, len := i.length - r.length } := rfl

/-- what `lexIpRange` does on a maximal address chunk -/
theorem lexIpRange_of_chunk {chunk rest : Input}
    (hc : ∀ c ∈ chunk, isIpChar c = true) (hne : chunk ≠ []) (hr : headNot isIpChar rest = true) :
    lexIpRange (chunk ++ rest) =
      match findDotDot chunk 0 with
      | some pos =>
        match parseIpAddr (chunk.take pos), parseIpAddr (chunk.drop (pos + 2)) with
        | some (.v4 a), some (.v4 b) =>
          if a ≤ b then .ok (.explicit false a b, rest)
          else errSpan .incompatibleRangeBounds (chunk ++ rest) rest
        | some (.v6 a), some (.v6 b) =>
          if a ≤ b then .ok (.explicit true a b, rest)
          else errSpan .incompatibleRangeBounds (chunk ++ rest) rest
        | some _, some _ => errSpan .incompatibleRangeBounds (chunk ++ rest) rest
        | _, _ => errSpan .parseNetwork (chunk ++ rest) rest
      | none =>
        match parseCidr chunk with
        | some r => .ok (r, rest)
        | none => errSpan .parseNetwork (chunk ++ rest) rest := by
  unfold lexIpRange
  rw [takeWhile1_run _ _ _ hne hc hr]
  rfl

theorem lexIpAddr_of_chunk {chunk rest : Input}
    (hc : ∀ c ∈ chunk, isIpChar c = true) (hne : chunk ≠ []) (hr : headNot isIpChar rest = true) :
    lexIpAddr (chunk ++ rest) =
      match parseIpAddr chunk with
      | some a => .ok (a, rest)
      | none => errSpan .parseNetwork (chunk ++ rest) rest := by
  unfold lexIpAddr
  rw [takeWhile1_run _ _ _ hne hc hr]
  rfl

/-! rfindSlash -/

theorem rfindSlash_go_noslash {l : Input} (hl : ∀ c ∈ l, c ≠ '/') (i last) :
    rfindSlash.go l i last = last := by
  induction l generalizing i last with
  | nil => rfl
  | cons c l ih =>
    have hc : c ≠ '/' := hl c (by simp)
    simp only [rfindSlash.go, hc, if_false]
    exact ih (fun d hd => hl d (by simp [hd])) _ _

theorem rfindSlash_go_append (a b : Input) (i last) :
    rfindSlash.go (a ++ b) i last = rfindSlash.go b (i + a.length) (rfindSlash.go a i last) := by
  induction a generalizing i last with
  | nil => rfl
  | cons c a ih =>
    simp only [List.cons_append, rfindSlash.go, List.length_cons]
    rw [ih]
    congr 1
    omega

theorem rfindSlash_last {addr l : Input} (hl : ∀ c ∈ l, c ≠ '/') :
    rfindSlash (addr ++ '/' :: l) = some addr.length := by
  unfold rfindSlash
  rw [rfindSlash_go_append]
  simp only [rfindSlash.go, if_true, Nat.zero_add]
  exact rfindSlash_go_noslash hl _ _

theorem rfindSlash_none {l : Input} (hl : ∀ c ∈ l, c ≠ '/') : rfindSlash l = none :=
  rfindSlash_go_noslash hl _ _

/-! ### `parseDigits` accepts only digits of the radix -/

theorem foldl_pdStep_none (radix : Nat) (s : Input) : s.foldl (pdStep radix) none = none := by
  induction s with
  | nil => rfl
  | cons c s ih => simpa [pdStep] using ih

theorem foldl_pdStep_some_all {radix : Nat} {s : Input} {acc : Option Nat} {v : Nat}
    (h : s.foldl (pdStep radix) acc = some v) : ∀ c ∈ s, isRadixDigit radix c = true := by
  induction s generalizing acc with
  | nil => intro c hc; simp at hc
  | cons d s ih =>
    rw [List.foldl_cons] at h
    intro c hc
    rcases List.mem_cons.mp hc with rfl | hc
    · cases acc with
      | none => simp [pdStep, foldl_pdStep_none] at h
      | some a =>
        unfold isRadixDigit
        cases hd : digitVal c with
        | none => simp [pdStep, hd, foldl_pdStep_none] at h
        | some dv =>
          by_cases hlt : dv < radix
          · simp [hlt]
          · simp [pdStep, hd, hlt, foldl_pdStep_none] at h
    · exact ih h c hc

theorem parseDigits_some_all {radix : Nat} {s : Input} {v : Nat}
    (h : parseDigits radix s = some v) : ∀ c ∈ s, isRadixDigit radix c = true := by
  rw [parseDigits_eq] at h
  split at h
  · cases h
  · exact foldl_pdStep_some_all h

theorem isRadixDigit_slash (radix : Nat) : isRadixDigit radix '/' = false := by
  have : digitVal '/' = none := by decide
  simp [isRadixDigit, this]

theorem parseU8_no_slash {s : Input} {v : Nat} (h : parseU8 s = some v) : ∀ c ∈ s, c ≠ '/' := by
  unfold parseU8 at h
  cases hp : parseDigits 10 s with
  | none => simp [hp] at h
  | some w =>
    intro c hc hcs
    have := parseDigits_some_all hp c hc
    rw [hcs, isRadixDigit_slash] at this
    cases this

/-! ### CIDR host bits -/

/-- straight from the definition: a v4 network whose host bits are not all zero is rejected -/
theorem parseCidr_hostbits {chunk : Input} {pos a len : Nat}
    (hs : rfindSlash chunk = some pos)
    (ha : parseCidrAddr (chunk.take pos) = some (.v4 a))
    (hl : parseU8 (chunk.drop (pos + 1)) = some len)
    (hb : a % 2 ^ (32 - len) ≠ 0) : parseCidr chunk = none := by
  unfold parseCidr
  simp only [hs, ha, hl]
  split <;> rfl

theorem parseCidr_hostbits_v6 {chunk : Input} {pos a len : Nat}
    (hs : rfindSlash chunk = some pos)
    (ha : parseCidrAddr (chunk.take pos) = some (.v6 a))
    (hl : parseU8 (chunk.drop (pos + 1)) = some len)
    (hb : a % 2 ^ (128 - len) ≠ 0) : parseCidr chunk = none := by
  unfold parseCidr
  simp only [hs, ha, hl]
  split <;> rfl

/-- and the positive counterpart -/
theorem parseCidr_ok_v4 {chunk : Input} {pos a len : Nat}
    (hs : rfindSlash chunk = some pos)
    (ha : parseCidrAddr (chunk.take pos) = some (.v4 a))
    (hl : parseU8 (chunk.drop (pos + 1)) = some len)
    (h32 : len ≤ 32) (hb : a % 2 ^ (32 - len) = 0) :
    parseCidr chunk = some (.cidr false a len) := by
  unfold parseCidr
  simp only [hs, ha, hl]
  have : ¬ len > 32 := by omega
  simp [this, hb]

theorem parseCidr_ok_v6 {chunk : Input} {pos a len : Nat}
    (hs : rfindSlash chunk = some pos)
    (ha : parseCidrAddr (chunk.take pos) = some (.v6 a))
    (hl : parseU8 (chunk.drop (pos + 1)) = some len)
    (h128 : len ≤ 128) (hb : a % 2 ^ (128 - len) = 0) :
    parseCidr chunk = some (.cidr true a len) := by
  unfold parseCidr
  simp only [hs, ha, hl]
  have : ¬ len > 128 := by omega
  simp [this, hb]

theorem take_addr_slash (addr l : Input) : (addr ++ '/' :: l).take addr.length = addr := by
  simp

theorem drop_addr_slash (addr l : Input) : (addr ++ '/' :: l).drop (addr.length + 1) = l := by
  simp

theorem cidr_hostbits_v4 {addr lenDigits : Input} {a len : Nat}
    (ha : parseCidrAddr addr = some (.v4 a)) (hl : parseU8 lenDigits = some len)
    (hb : a % 2 ^ (32 - len) ≠ 0) : parseCidr (addr ++ '/' :: lenDigits) = none := by
  refine parseCidr_hostbits (rfindSlash_last (parseU8_no_slash hl)) ?_ ?_ hb
  · rw [take_addr_slash]; exact ha
  · rw [drop_addr_slash]; exact hl

theorem cidr_hostbits_v6 {addr lenDigits : Input} {a len : Nat}
    (ha : parseCidrAddr addr = some (.v6 a)) (hl : parseU8 lenDigits = some len)
    (hb : a % 2 ^ (128 - len) ≠ 0) : parseCidr (addr ++ '/' :: lenDigits) = none := by
  refine parseCidr_hostbits_v6 (rfindSlash_last (parseU8_no_slash hl)) ?_ ?_ hb
  · rw [take_addr_slash]; exact ha
  · rw [drop_addr_slash]; exact hl

/-- lexer level: a chunk without `..` that `cidr` rejects is a `ParseNetwork` error spanning
the chunk -/
theorem lexIpRange_parseCidr_none {chunk rest : Input}
    (hc : ∀ c ∈ chunk, isIpChar c = true) (hne : chunk ≠ []) (hr : headNot isIpChar rest = true)
    (hdd : findDotDot chunk 0 = none) (hp : parseCidr chunk = none) :
    lexIpRange (chunk ++ rest) = errSpan .parseNetwork (chunk ++ rest) rest := by
  rw [lexIpRange_of_chunk hc hne hr, hdd, hp]

theorem lexIpRange_parseCidr_some {chunk rest : Input} {r : IpRangeLit}
    (hc : ∀ c ∈ chunk, isIpChar c = true) (hne : chunk ≠ []) (hr : headNot isIpChar rest = true)
    (hdd : findDotDot chunk 0 = none) (hp : parseCidr chunk = some r) :
    lexIpRange (chunk ++ rest) = .ok (r, rest) := by
  rw [lexIpRange_of_chunk hc hne hr, hdd, hp]

theorem isRadixDigit_hex {radix : Nat} {c : Char} (h : isRadixDigit radix c = true) :
    isAsciiHexDigit c = true := by
  unfold isRadixDigit digitVal at h
  unfold isAsciiHexDigit
  by_cases h1 : isAsciiDigit c = true
  · simp [h1]
  · by_cases h2 : ('a' ≤ c && c ≤ 'f') = true
    · simp [h2]
    · by_cases h3 : ('A' ≤ c && c ≤ 'F') = true
      · simp [h3]
      · simp [h1, h2, h3] at h

theorem isIpChar_of_hex {c : Char} (h : isAsciiHexDigit c = true) : isIpChar c = true := by
  simp [isIpChar, h]

theorem isIpChar_dot : isIpChar '.' = true := by decide
theorem isIpChar_slash : isIpChar '/' = true := by decide
theorem isIpChar_colon : isIpChar ':' = true := by decide

theorem parseU8_all_ipchar {s : Input} {v : Nat} (h : parseU8 s = some v) :
    ∀ c ∈ s, isIpChar c = true := by
  unfold parseU8 at h
  cases hp : parseDigits 10 s with
  | none => simp [hp] at h
  | some w => exact fun c hc => isIpChar_of_hex (isRadixDigit_hex (parseDigits_some_all hp c hc))

theorem cidr_chunk_ipchars {addr lenDigits : Input} {len : Nat}
    (hc : ∀ c ∈ addr, isIpChar c = true) (hl : parseU8 lenDigits = some len) :
    ∀ c ∈ addr ++ '/' :: lenDigits, isIpChar c = true := by
  intro c h
  rcases List.mem_append.mp h with h | h
  · exact hc c h
  · rcases List.mem_cons.mp h with rfl | h
    · exact isIpChar_slash
    · exact parseU8_all_ipchar hl c h

/-- lexer level, v4 host bits: `addr/len` with a non-zero host part is a `ParseNetwork` error
whose span is the whole chunk -/
theorem lexIpRange_hostbits_v4 {addr lenDigits rest : Input} {a len : Nat}
    (hc : ∀ c ∈ addr, isIpChar c = true) (hr : headNot isIpChar rest = true)
    (hdd : findDotDot (addr ++ '/' :: lenDigits) 0 = none)
    (ha : parseCidrAddr addr = some (.v4 a)) (hl : parseU8 lenDigits = some len)
    (hb : a % 2 ^ (32 - len) ≠ 0) :
    lexIpRange (addr ++ '/' :: lenDigits ++ rest) =
      errSpan .parseNetwork (addr ++ '/' :: lenDigits ++ rest) rest :=
  lexIpRange_parseCidr_none (cidr_chunk_ipchars hc hl) (by simp) hr hdd
    (cidr_hostbits_v4 ha hl hb)

theorem lexIpRange_hostbits_v6 {addr lenDigits rest : Input} {a len : Nat}
    (hc : ∀ c ∈ addr, isIpChar c = true) (hr : headNot isIpChar rest = true)
    (hdd : findDotDot (addr ++ '/' :: lenDigits) 0 = none)
    (ha : parseCidrAddr addr = some (.v6 a)) (hl : parseU8 lenDigits = some len)
    (hb : a % 2 ^ (128 - len) ≠ 0) :
    lexIpRange (addr ++ '/' :: lenDigits ++ rest) =
      errSpan .parseNetwork (addr ++ '/' :: lenDigits ++ rest) rest :=
  lexIpRange_parseCidr_none (cidr_chunk_ipchars hc hl) (by simp) hr hdd
    (cidr_hostbits_v6 ha hl hb)

/-! ### explicit ranges -/

theorem iprange_family_order {chunk rest : Input} {pos : Nat} {A B : Ip}
    (hc : ∀ c ∈ chunk, isIpChar c = true) (hne : chunk ≠ []) (hr : headNot isIpChar rest = true)
    (hdd : findDotDot chunk 0 = some pos)
    (hA : parseIpAddr (chunk.take pos) = some A)
    (hB : parseIpAddr (chunk.drop (pos + 2)) = some B)
    (hbad : (∃ a b, A = .v4 a ∧ B = .v6 b) ∨ (∃ a b, A = .v6 a ∧ B = .v4 b) ∨
            (∃ a b, A = .v4 a ∧ B = .v4 b ∧ b < a) ∨ (∃ a b, A = .v6 a ∧ B = .v6 b ∧ b < a)) :
    lexIpRange (chunk ++ rest) = errSpan .incompatibleRangeBounds (chunk ++ rest) rest := by
  rw [lexIpRange_of_chunk hc hne hr, hdd]
  simp only [hA, hB]
  rcases hbad with ⟨a, b, rfl, rfl⟩ | ⟨a, b, rfl, rfl⟩ | ⟨a, b, rfl, rfl, h⟩ | ⟨a, b, rfl, rfl, h⟩
  · rfl
  · rfl
  · have : ¬ a ≤ b := by omega
    simp [this]
  · have : ¬ a ≤ b := by omega
    simp [this]

theorem iprange_explicit_ok_v4 {chunk rest : Input} {pos a b : Nat}
    (hc : ∀ c ∈ chunk, isIpChar c = true) (hne : chunk ≠ []) (hr : headNot isIpChar rest = true)
    (hdd : findDotDot chunk 0 = some pos)
    (hA : parseIpAddr (chunk.take pos) = some (.v4 a))
    (hB : parseIpAddr (chunk.drop (pos + 2)) = some (.v4 b)) (hab : a ≤ b) :
    lexIpRange (chunk ++ rest) = .ok (.explicit false a b, rest) := by
  rw [lexIpRange_of_chunk hc hne hr, hdd]
  simp [hA, hB, hab]

theorem iprange_explicit_ok_v6 {chunk rest : Input} {pos a b : Nat}
    (hc : ∀ c ∈ chunk, isIpChar c = true) (hne : chunk ≠ []) (hr : headNot isIpChar rest = true)
    (hdd : findDotDot chunk 0 = some pos)
    (hA : parseIpAddr (chunk.take pos) = some (.v6 a))
    (hB : parseIpAddr (chunk.drop (pos + 2)) = some (.v6 b)) (hab : a ≤ b) :
    lexIpRange (chunk ++ rest) = .ok (.explicit true a b, rest) := by
  rw [lexIpRange_of_chunk hc hne hr, hdd]
  simp [hA, hB, hab]

/-- both positive cases in one statement (`v6` selects the family) -/
theorem iprange_explicit_ok {chunk rest : Input} {pos a b : Nat} {v6 : Bool}
    (hc : ∀ c ∈ chunk, isIpChar c = true) (hne : chunk ≠ []) (hr : headNot isIpChar rest = true)
    (hdd : findDotDot chunk 0 = some pos)
    (hA : parseIpAddr (chunk.take pos) = some (if v6 then .v6 a else .v4 a))
    (hB : parseIpAddr (chunk.drop (pos + 2)) = some (if v6 then .v6 b else .v4 b)) (hab : a ≤ b) :
    lexIpRange (chunk ++ rest) = .ok (.explicit v6 a b, rest) := by
  cases v6
  · exact iprange_explicit_ok_v4 hc hne hr hdd hA hB hab
  · exact iprange_explicit_ok_v6 hc hne hr hdd hA hB hab

/-! ### explicit ranges `x..y` of two rendered addresses -/

theorem dotdot_all_ipchar {x y : Input} (hx : ∀ c ∈ x, isIpChar c = true)
    (hy : ∀ c ∈ y, isIpChar c = true) : ∀ c ∈ x ++ '.' :: '.' :: y, isIpChar c = true := by
  intro c hc
  simp only [List.mem_append, List.mem_cons] at hc
  rcases hc with h | h | h | h
  · exact hx c h
  · rw [h]; exact isIpChar_dot
  · rw [h]; exact isIpChar_dot
  · exact hy c h

theorem take_dotdot (x y : Input) : (x ++ '.' :: '.' :: y).take x.length = x := by simp
theorem drop_dotdot (x y : Input) : (x ++ '.' :: '.' :: y).drop (x.length + 2) = y := by simp

theorem iprange_pair_bad {x y rest : Input} {A B : Ip}
    (hx : ∀ c ∈ x, isIpChar c = true) (hy : ∀ c ∈ y, isIpChar c = true)
    (hr : headNot isIpChar rest = true)
    (hdd : findDotDot (x ++ '.' :: '.' :: y) 0 = some x.length)
    (hA : parseIpAddr x = some A) (hB : parseIpAddr y = some B)
    (hbad : (∃ a b, A = .v4 a ∧ B = .v6 b) ∨ (∃ a b, A = .v6 a ∧ B = .v4 b) ∨
            (∃ a b, A = .v4 a ∧ B = .v4 b ∧ b < a) ∨ (∃ a b, A = .v6 a ∧ B = .v6 b ∧ b < a)) :
    lexIpRange (x ++ '.' :: '.' :: y ++ rest) =
      errSpan .incompatibleRangeBounds (x ++ '.' :: '.' :: y ++ rest) rest := by
  refine iprange_family_order (dotdot_all_ipchar hx hy) (by simp) hr hdd ?_ ?_ hbad
  · rw [take_dotdot]; exact hA
  · rw [drop_dotdot]; exact hB

theorem iprange_pair_ok_v4 {x y rest : Input} {a b : Nat}
    (hx : ∀ c ∈ x, isIpChar c = true) (hy : ∀ c ∈ y, isIpChar c = true)
    (hr : headNot isIpChar rest = true)
    (hdd : findDotDot (x ++ '.' :: '.' :: y) 0 = some x.length)
    (hA : parseIpAddr x = some (.v4 a)) (hB : parseIpAddr y = some (.v4 b)) (hab : a ≤ b) :
    lexIpRange (x ++ '.' :: '.' :: y ++ rest) = .ok (.explicit false a b, rest) := by
  refine iprange_explicit_ok_v4 (dotdot_all_ipchar hx hy) (by simp) hr hdd ?_ ?_ hab
  · rw [take_dotdot]; exact hA
  · rw [drop_dotdot]; exact hB

theorem iprange_pair_ok_v6 {x y rest : Input} {a b : Nat}
    (hx : ∀ c ∈ x, isIpChar c = true) (hy : ∀ c ∈ y, isIpChar c = true)
    (hr : headNot isIpChar rest = true)
    (hdd : findDotDot (x ++ '.' :: '.' :: y) 0 = some x.length)
    (hA : parseIpAddr x = some (.v6 a)) (hB : parseIpAddr y = some (.v6 b)) (hab : a ≤ b) :
    lexIpRange (x ++ '.' :: '.' :: y ++ rest) = .ok (.explicit true a b, rest) := by
  refine iprange_explicit_ok_v6 (dotdot_all_ipchar hx hy) (by simp) hr hdd ?_ ?_ hab
  · rw [take_dotdot]; exact hA
  · rw [drop_dotdot]; exact hB

/-! ### more facts about `digits` -/

theorem digits_all_radix {radix : Nat} (h2 : 2 ≤ radix) (h16 : radix ≤ 16) (n : Nat) :
    ∀ c ∈ digits radix n, isRadixDigit radix c = true :=
  parseDigits_some_all (parseDigits_digits h2 h16 n)

theorem digits_length_le {radix : Nat} (h2 : 2 ≤ radix) :
    ∀ (k n : Nat), n < radix ^ (k + 1) → (digits radix n).length ≤ k + 1
  | 0, n, h => by
    rw [digits_small (by simpa using h)]; simp
  | k + 1, n, h => by
    by_cases hs : n < radix
    · rw [digits_small hs]; simp
    · rw [digits_big h2 (by omega)]
      have hd : n / radix < radix ^ (k + 1) :=
        Nat.div_lt_of_lt_mul (by rw [Nat.pow_succ, Nat.mul_comm] at h; exact h)
      have := digits_length_le h2 k _ hd
      simp only [List.length_append, List.length_cons, List.length_nil]
      omega

/-- no leading zero: the rendering starts with `0` only for `0` itself -/
theorem digits_head_zero {radix n : Nat} (h2 : 2 ≤ radix) (h16 : radix ≤ 16)
    (h : (digits radix n).head? = some '0') : digits radix n = ['0'] := by
  obtain ⟨d, tl, he, hd, h1⟩ := digits_head h2 n
  rw [he] at h
  simp only [List.head?_cons, Option.some.injEq] at h
  have hn : n = 0 := by
    by_cases hn : 1 ≤ n
    · exact absurd h (digitChar_pos_ne d (by omega) (h1 hn)).1
    · omega
  subst hn
  rw [digits_small (by omega), digitChar_zero]

/-- std `read_number` reads a rendered number back -/
theorem readNum_digits {radix maxDigits maxVal n : Nat} {azp : Bool} {r : Input}
    (h2 : 2 ≤ radix) (h16 : radix ≤ 16) (hk : 1 ≤ maxDigits) (hn : n < radix ^ maxDigits)
    (hv : n ≤ maxVal) (hr : headNot (isRadixDigit radix) r = true) :
    readNum radix maxDigits azp maxVal (digits radix n ++ r) = some (n, r) := by
  unfold readNum
  rw [spanWhile_run _ _ _ (digits_all_radix h2 h16 n) hr]
  have hlen : (digits radix n).length ≤ maxDigits := by
    obtain ⟨k, rfl⟩ : ∃ k, maxDigits = k + 1 := ⟨maxDigits - 1, by omega⟩
    exact digits_length_le h2 k n hn
  have hne : (digits radix n).isEmpty = false := by
    cases h : digits radix n with
    | nil => exact absurd h (digits_ne_nil radix n)
    | cons c cs => rfl
  have hz : ((digits radix n).head? = some '0' && decide ((digits radix n).length > 1)) = false := by
    by_cases h0 : (digits radix n).head? = some '0'
    · rw [digits_head_zero h2 h16 h0]; rfl
    · simp [h0]
  have hgt : ¬ (digits radix n).length > maxDigits := by omega
  simp only [hne, hgt, parseDigits_digits h2 h16 n, hv, Bool.false_or, decide_false,
    Bool.false_eq_true, if_false, if_true, Bool.and_assoc, hz, Bool.and_false]

theorem headNot_dec_of_hex {r : Input} (h : headNot (isRadixDigit 16) r = true) :
    headNot (isRadixDigit 10) r = true := by
  cases r with
  | nil => rfl
  | cons c r =>
    simp only [headNot, Bool.not_eq_true'] at h ⊢
    unfold isRadixDigit at h ⊢
    cases hd : digitVal c with
    | none => rfl
    | some d =>
      simp only [hd, decide_eq_false_iff_not] at h ⊢
      omega

theorem headNot_radix_of_ip {radix : Nat} {r : Input} (h : headNot isIpChar r = true) :
    headNot (isRadixDigit radix) r = true := by
  cases r with
  | nil => rfl
  | cons c r =>
    simp only [headNot, Bool.not_eq_true'] at h ⊢
    cases hd : isRadixDigit radix c with
    | false => rfl
    | true => rw [isIpChar_of_hex (isRadixDigit_hex hd)] at h; cases h

/-! ### dotted quads -/

/-- canonical rendering of an IPv4 address -/
def dotted (a : Nat) : List Char :=
  digits 10 (a / 16777216 % 256) ++ '.' :: digits 10 (a / 65536 % 256) ++
    '.' :: digits 10 (a / 256 % 256) ++ '.' :: digits 10 (a % 256)

theorem dotted_eq (a : Nat) : dotted a =
    digits 10 (a / 16777216 % 256) ++ ('.' :: (digits 10 (a / 65536 % 256) ++
      ('.' :: (digits 10 (a / 256 % 256) ++ ('.' :: digits 10 (a % 256)))))) := by
  simp [dotted]

theorem headNot_dot_dec (r : Input) : headNot (isRadixDigit 10) ('.' :: r) = true := by
  have : isRadixDigit 10 '.' = false := by decide
  simp [headNot, this]

theorem readNum_octet {n : Nat} {r : Input} (hn : n < 256)
    (hr : headNot (isRadixDigit 10) r = true) :
    readNum 10 3 false 255 (digits 10 n ++ r) = some (n, r) :=
  readNum_digits (by omega) (by omega) (by omega) (by omega) (by omega) hr

theorem readV4_dotted {a : Nat} {r : Input} (ha : a < 2 ^ 32)
    (hr : headNot (isRadixDigit 10) r = true) : readV4 (dotted a ++ r) = some (a, r) := by
  have h1 : a / 16777216 % 256 < 256 := Nat.mod_lt _ (by omega)
  have h2 : a / 65536 % 256 < 256 := Nat.mod_lt _ (by omega)
  have h3 : a / 256 % 256 < 256 := Nat.mod_lt _ (by omega)
  have h4 : a % 256 < 256 := Nat.mod_lt _ (by omega)
  rw [dotted_eq]
  simp only [List.append_assoc, List.cons_append]
  unfold readV4
  simp only [readNum_octet h1 (headNot_dot_dec _), readNum_octet h2 (headNot_dot_dec _),
    readNum_octet h3 (headNot_dot_dec _), readNum_octet h4 hr, expectChar, if_true,
    Option.bind_eq_bind, Option.bind_some, Option.pure_def, Option.some.injEq, Prod.mk.injEq, and_true]
  omega

theorem ip_roundtrip_v4 {a : Nat} (ha : a < 2 ^ 32) : parseIpAddr (dotted a) = some (.v4 a) := by
  have := readV4_dotted ha (headNot_nil _)
  rw [List.append_nil] at this
  unfold parseIpAddr
  rw [this]

theorem digits_all_ipchar {radix : Nat} (h2 : 2 ≤ radix) (h16 : radix ≤ 16) (n : Nat) :
    ∀ c ∈ digits radix n, isIpChar c = true :=
  fun c hc => isIpChar_of_hex (digits_all_hex h2 h16 n c hc)

theorem dotted_all_ipchar (a : Nat) : ∀ c ∈ dotted a, isIpChar c = true := by
  intro c hc
  simp only [dotted, List.mem_append, List.mem_cons] at hc
  have hd := fun n => digits_all_ipchar (radix := 10) (by omega) (by omega) n c
  rcases hc with ((h | h | h) | h | h) | h | h
  · exact hd _ h
  · rw [h]; exact isIpChar_dot
  · exact hd _ h
  · rw [h]; exact isIpChar_dot
  · exact hd _ h
  · rw [h]; exact isIpChar_dot
  · exact hd _ h

theorem dotted_ne_nil (a : Nat) : dotted a ≠ [] := by
  rw [dotted_eq]
  intro h
  exact digits_ne_nil _ _ (List.append_eq_nil_iff.mp h).1

/-- `impl Lex for IpAddr` reads a rendered dotted quad back -/
theorem lexIpAddr_roundtrip_v4 {a : Nat} {rest : Input} (ha : a < 2 ^ 32)
    (hr : headNot isIpChar rest = true) : lexIpAddr (dotted a ++ rest) = .ok (.v4 a, rest) := by
  rw [lexIpAddr_of_chunk (dotted_all_ipchar a) (dotted_ne_nil a) hr, ip_roundtrip_v4 ha]

/-! ### `findDotDot` on dotted quads -/

theorem findDotDot_cons_ne {c : Char} (hc : c ≠ '.') (r : Input) (i : Nat) :
    findDotDot (c :: r) i = findDotDot r (i + 1) := by
  rw [findDotDot]
  intro r' h1 _
  exact hc h1

theorem findDotDot_dot_ne {c : Char} (hc : c ≠ '.') (r : Input) (i : Nat) :
    findDotDot ('.' :: c :: r) i = findDotDot (c :: r) (i + 1) := by
  rw [findDotDot]
  intro r' _ h2
  cases h2
  exact hc rfl

theorem findDotDot_dot_nil (i : Nat) : findDotDot ['.'] i = none := by
  simp [findDotDot]

/-- a run without dots is skipped -/
theorem findDotDot_nodot {d : Input} (hd : ∀ c ∈ d, c ≠ '.') (s : Input) (i : Nat) :
    findDotDot (d ++ s) i = findDotDot s (i + d.length) := by
  induction d generalizing i with
  | nil => rfl
  | cons c d ih =>
    have hc : c ≠ '.' := hd c (by simp)
    rw [List.cons_append, findDotDot_cons_ne hc, ih (fun x hx => hd x (by simp [hx]))]
    simp only [List.length_cons]
    congr 1; omega

/-- a single dot followed by a non-empty run without dots is skipped -/
theorem findDotDot_dot_run {d : Input} (hd : ∀ c ∈ d, c ≠ '.') (hne : d ≠ []) (s : Input)
    (i : Nat) : findDotDot ('.' :: (d ++ s)) i = findDotDot s (i + 1 + d.length) := by
  cases d with
  | nil => exact absurd rfl hne
  | cons c d =>
    rw [List.cons_append, findDotDot_dot_ne (hd c (by simp)), ← List.cons_append,
      findDotDot_nodot hd]

theorem hex_ne_dot {c : Char} (h : isAsciiHexDigit c = true) : c ≠ '.' := by
  intro hc; rw [hc] at h; exact absurd h (by decide)

theorem digits_no_dot {radix : Nat} (h2 : 2 ≤ radix) (h16 : radix ≤ 16) (n : Nat) :
    ∀ c ∈ digits radix n, c ≠ '.' :=
  fun c hc => hex_ne_dot (digits_all_hex h2 h16 n c hc)

theorem dotted_length (a : Nat) : (dotted a).length =
    (digits 10 (a / 16777216 % 256)).length + 1 + (digits 10 (a / 65536 % 256)).length + 1 +
      (digits 10 (a / 256 % 256)).length + 1 + (digits 10 (a % 256)).length := by
  simp only [dotted, List.length_append, List.length_cons]
  omega

/-- a dotted quad has no `..` inside: the scan continues behind it -/
theorem findDotDot_dotted (a : Nat) (s : Input) (i : Nat) :
    findDotDot (dotted a ++ s) i = findDotDot s (i + (dotted a).length) := by
  have nd := fun n => digits_no_dot (radix := 10) (by omega) (by omega) n
  have nn := fun n => digits_ne_nil 10 n
  rw [dotted_length, dotted_eq]
  simp only [List.append_assoc, List.cons_append]
  rw [findDotDot_nodot (nd _), findDotDot_dot_run (nd _) (nn _), findDotDot_dot_run (nd _) (nn _),
    findDotDot_dot_run (nd _) (nn _)]
  congr 1
  omega

theorem findDotDot_dotted_dotdot (a : Nat) (s : Input) :
    findDotDot (dotted a ++ '.' :: '.' :: s) 0 = some (dotted a).length := by
  rw [findDotDot_dotted, findDotDot, Nat.zero_add]

theorem findDotDot_dotted_none (a : Nat) : findDotDot (dotted a) 0 = none := by
  have := findDotDot_dotted a [] 0
  rw [List.append_nil] at this
  rw [this]; rfl

/-! ### explicit ranges of rendered dotted quads -/

/-- `a.b.c.d..e.f.g.h` with `a ≤ b` lexes to the explicit range -/
theorem iprange_dotted_ok {a b : Nat} {rest : Input} (ha : a < 2 ^ 32) (hb : b < 2 ^ 32)
    (hab : a ≤ b) (hr : headNot isIpChar rest = true) :
    lexIpRange (dotted a ++ '.' :: '.' :: dotted b ++ rest) = .ok (.explicit false a b, rest) :=
  iprange_pair_ok_v4 (dotted_all_ipchar a) (dotted_all_ipchar b) hr (findDotDot_dotted_dotdot a _)
    (ip_roundtrip_v4 ha) (ip_roundtrip_v4 hb) hab

/-- … and with `b < a` it is an `IncompatibleRangeBounds` error spanning the chunk -/
theorem iprange_dotted_order {a b : Nat} {rest : Input} (ha : a < 2 ^ 32) (hb : b < 2 ^ 32)
    (hab : b < a) (hr : headNot isIpChar rest = true) :
    lexIpRange (dotted a ++ '.' :: '.' :: dotted b ++ rest) =
      errSpan .incompatibleRangeBounds (dotted a ++ '.' :: '.' :: dotted b ++ rest) rest :=
  iprange_pair_bad (dotted_all_ipchar a) (dotted_all_ipchar b) hr (findDotDot_dotted_dotdot a _)
    (ip_roundtrip_v4 ha) (ip_roundtrip_v4 hb) (Or.inr (Or.inr (Or.inl ⟨a, b, rfl, rfl, hab⟩)))

/-! ### CIDR blocks of rendered dotted quads -/

theorem parseU8_digits {n : Nat} (h : n ≤ 255) : parseU8 (digits 10 n) = some n := by
  unfold parseU8
  rw [parseDigits_digits (by omega) (by omega)]
  simp [h]

theorem parseCidrAddr_dotted {a : Nat} (ha : a < 2 ^ 32) :
    parseCidrAddr (dotted a) = some (.v4 a) := by
  unfold parseCidrAddr
  rw [ip_roundtrip_v4 ha]

theorem findDotDot_dotted_slash (a n : Nat) :
    findDotDot (dotted a ++ '/' :: digits 10 n) 0 = none := by
  have hnd : ∀ c ∈ '/' :: digits 10 n, c ≠ '.' := by
    intro c hc
    rcases List.mem_cons.mp hc with rfl | hc
    · decide
    · exact digits_no_dot (by omega) (by omega) n c hc
  have := findDotDot_nodot hnd [] (0 + (dotted a).length)
  rw [List.append_nil] at this
  rw [findDotDot_dotted, this]
  rfl

/-- `a.b.c.d/len` whose host bits are not all zero: `ParseNetwork` error over the chunk -/
theorem cidr_dotted_hostbits {a len : Nat} {rest : Input} (ha : a < 2 ^ 32) (hl : len ≤ 255)
    (hb : a % 2 ^ (32 - len) ≠ 0) (hr : headNot isIpChar rest = true) :
    lexIpRange (dotted a ++ '/' :: digits 10 len ++ rest) =
      errSpan .parseNetwork (dotted a ++ '/' :: digits 10 len ++ rest) rest :=
  lexIpRange_hostbits_v4 (dotted_all_ipchar a) hr (findDotDot_dotted_slash a len)
    (parseCidrAddr_dotted ha) (parseU8_digits hl) hb

/-- `a.b.c.d/len` with `len ≤ 32` and zero host bits is accepted as that block -/
theorem cidr_dotted_ok {a len : Nat} {rest : Input} (ha : a < 2 ^ 32) (hl : len ≤ 32)
    (hb : a % 2 ^ (32 - len) = 0) (hr : headNot isIpChar rest = true) :
    lexIpRange (dotted a ++ '/' :: digits 10 len ++ rest) = .ok (.cidr false a len, rest) := by
  have hu := parseU8_digits (n := len) (by omega)
  refine lexIpRange_parseCidr_some (cidr_chunk_ipchars (dotted_all_ipchar a) hu) (by simp) hr
    (findDotDot_dotted_slash a len) ?_
  refine parseCidr_ok_v4 (rfindSlash_last (parseU8_no_slash hu)) ?_ ?_ hl hb
  · rw [take_addr_slash]; exact parseCidrAddr_dotted ha
  · rw [drop_addr_slash]; exact hu

/-- a bare dotted quad is the `/32` block -/
theorem cidr_dotted_bare {a : Nat} {rest : Input} (ha : a < 2 ^ 32)
    (hr : headNot isIpChar rest = true) :
    lexIpRange (dotted a ++ rest) = .ok (.cidr false a 32, rest) := by
  refine lexIpRange_parseCidr_some (dotted_all_ipchar a) (dotted_ne_nil a) hr
    (findDotDot_dotted_none a) ?_
  have hns : ∀ c ∈ dotted a, c ≠ '/' := by
    intro c hc
    simp only [dotted, List.mem_append, List.mem_cons] at hc
    have hd : ∀ n, c ∈ digits 10 n → c ≠ '/' := fun n h hc => by
      have := digits_all_radix (radix := 10) (by omega) (by omega) n c h
      rw [hc, isRadixDigit_slash] at this; cases this
    rcases hc with ((h | h | h) | h | h) | h | h
    · exact hd _ h
    · rw [h]; decide
    · exact hd _ h
    · rw [h]; decide
    · exact hd _ h
    · rw [h]; decide
    · exact hd _ h
  unfold parseCidr
  rw [rfindSlash_none hns]
  simp only [parseCidrAddr_dotted ha]

/-! ### full IPv6 rendering -/

theorem readNum_rest {radix m mv : Nat} {z : Bool} {s s' : Input} {v : Nat}
    (h : readNum radix m z mv s = some (v, s')) : s' = (spanWhile (isRadixDigit radix) s).2 := by
  unfold readNum at h
  cases hs : spanWhile (isRadixDigit radix) s with
  | mk ds rest =>
    rw [hs] at h
    simp only at h
    split at h
    · cases h
    · split at h
      · cases h
      · split at h
        · split at h
          · simp only [Option.some.injEq, Prod.mk.injEq] at h
            exact h.2.symm
          · cases h
        · cases h

theorem spanWhile_snd_no_dot {p : Char → Bool} {x t : Input} (hx : ∀ c ∈ x, c ≠ '.')
    (ht : headNot p t = true) (htd : t.head? ≠ some '.') :
    (spanWhile p (x ++ t)).2.head? ≠ some '.' := by
  induction x with
  | nil =>
    have := spanWhile_run p [] t (by simp) ht
    rw [List.nil_append] at this ⊢
    rw [this]; exact htd
  | cons d x ih =>
    rw [List.cons_append, spanWhile]
    by_cases hd : p d = true
    · simp only [hd, if_true]
      exact ih (fun c hc => hx c (by simp [hc]))
    · simp only [hd]
      simp only [Bool.false_eq_true, if_false, List.head?_cons, ne_eq, Option.some.injEq]
      exact hx d (by simp)

theorem expectChar_none_of_head {c : Char} {s : Input} (h : s.head? ≠ some c) :
    expectChar c s = none := by
  cases s with
  | nil => rfl
  | cons d r =>
    simp only [List.head?_cons, ne_eq, Option.some.injEq] at h
    have : ¬ c = d := fun e => h e.symm
    simp [expectChar, this]

theorem readV4_none_of_rest {s : Input}
    (h : (spanWhile (isRadixDigit 10) s).2.head? ≠ some '.') : readV4 s = none := by
  unfold readV4
  cases hn : readNum 10 3 false 255 s with
  | none => rfl
  | some p =>
    obtain ⟨v, s'⟩ := p
    have := readNum_rest hn
    subst this
    simp [expectChar_none_of_head h]

/-- std `read_ipv4_addr` fails on a run of hex digits that is not followed by a dot -/
theorem readV4_hexrun_none {x t : Input} (hx : ∀ c ∈ x, isAsciiHexDigit c = true)
    (ht : headNot (isRadixDigit 16) t = true) (htd : t.head? ≠ some '.') :
    readV4 (x ++ t) = none :=
  readV4_none_of_rest
    (spanWhile_snd_no_dot (fun c hc => hex_ne_dot (hx c hc)) (headNot_dec_of_hex ht) htd)

theorem readGroups_done {limit i : Nat} (h : limit ≤ i) (fuel : Nat) (s : Input) :
    readGroups limit fuel i s = ([], false, s) := by
  cases fuel with
  | zero => rfl
  | succ f => simp [readGroups, h]

/-- groups joined by `:` -/
def v6groups : List Nat → List Char
  | [] => []
  | [g] => digits 16 g
  | g :: gs => digits 16 g ++ ':' :: v6groups gs

/-- the separator `read_groups` expects before slot `i` -/
def sepStr (i : Nat) : List Char := if i = 0 then [] else [':']

theorem readSep_sepStr (i : Nat) (s : Input) : readSep i (sepStr i ++ s) = some s := by
  unfold readSep sepStr
  by_cases h : i = 0 <;> simp [h, expectChar]

theorem headNot_colon_hex (r : Input) : headNot (isRadixDigit 16) (':' :: r) = true := by
  have : isRadixDigit 16 ':' = false := by decide
  simp [headNot, this]

theorem readNum_group {g : Nat} {r : Input} (hg : g < 65536)
    (hr : headNot (isRadixDigit 16) r = true) :
    readNum 16 4 true 65535 (digits 16 g ++ r) = some (g, r) :=
  readNum_digits (by omega) (by omega) (by omega) (by omega) (by omega) hr

theorem readGroups_v6groups (limit : Nat) : ∀ (gs : List Nat) (fuel i : Nat) (r : Input),
    gs ≠ [] → (∀ g ∈ gs, g < 65536) → i + gs.length = limit → gs.length ≤ fuel →
    headNot (isRadixDigit 16) r = true →
    readGroups limit fuel i (sepStr i ++ (v6groups gs ++ r)) = (gs, false, r)
  | [], _, _, _, hne, _, _, _, _ => absurd rfl hne
  | [g], fuel, i, r, _, hg, hi, hf, hr => by
    obtain ⟨f, rfl⟩ : ∃ f, fuel = f + 1 := ⟨fuel - 1, by simp at hf; omega⟩
    simp only [List.length_cons, List.length_nil] at hi
    have h1 : ¬ i ≥ limit := by omega
    have h2 : ¬ i + 1 < limit := by omega
    rw [readGroups]
    simp only [h1, h2, if_false, readSep_sepStr, v6groups, Option.bind_some,
      readNum_group (hg g (by simp)) hr, readGroups_done (show limit ≤ i + 1 by omega)]
  | g :: g' :: gs, fuel, i, r, _, hg, hi, hf, hr => by
    obtain ⟨f, rfl⟩ : ∃ f, fuel = f + 1 := ⟨fuel - 1, by simp at hf; omega⟩
    simp only [List.length_cons] at hi hf
    have h1 : ¬ i ≥ limit := by omega
    have h2 : i + 1 < limit := by omega
    have ih := readGroups_v6groups limit (g' :: gs) f (i + 1) r (by simp)
      (fun x hx => hg x (by simp [hx])) (by simp only [List.length_cons]; omega)
      (by simp only [List.length_cons]; omega) hr
    have hsep : sepStr (i + 1) = [':'] := by simp [sepStr]
    rw [hsep] at ih
    have hv4 : readV4 (digits 16 g ++ (':' :: (v6groups (g' :: gs) ++ r))) = none :=
      readV4_hexrun_none (digits_all_hex (by omega) (by omega) g) (headNot_colon_hex _)
        (by simp)
    rw [readGroups]
    simp only [h1, h2, if_false, if_true, readSep_sepStr, v6groups, Option.bind_some,
      List.append_assoc, List.cons_append, hv4,
      readNum_group (hg g (by simp)) (headNot_colon_hex _)]
    simp only [List.singleton_append] at ih
    rw [ih]

/-- the eight 16-bit groups of an IPv6 address, most significant first -/
def v6parts (a : Nat) : List Nat :=
  [a / 65536 ^ 7 % 65536, a / 65536 ^ 6 % 65536, a / 65536 ^ 5 % 65536, a / 65536 ^ 4 % 65536,
   a / 65536 ^ 3 % 65536, a / 65536 ^ 2 % 65536, a / 65536 % 65536, a % 65536]

/-- full (uncompressed, lower-case, no leading zeros) rendering of an IPv6 address -/
def v6full (a : Nat) : List Char := v6groups (v6parts a)

theorem v6parts_length (a : Nat) : (v6parts a).length = 8 := rfl

theorem v6parts_lt (a : Nat) : ∀ g ∈ v6parts a, g < 65536 := by
  intro g hg
  simp only [v6parts, List.mem_cons, List.mem_nil_iff, or_false] at hg
  rcases hg with h | h | h | h | h | h | h | h <;> rw [h] <;> exact Nat.mod_lt _ (by omega)

theorem groupsToNat_v6parts {a : Nat} (ha : a < 2 ^ 128) : groupsToNat (v6parts a) = a := by
  simp only [groupsToNat, v6parts, List.foldl_cons, List.foldl_nil, Nat.reducePow] at ha ⊢
  omega

theorem readGroups_v6full (a : Nat) {r : Input} (hr : headNot (isRadixDigit 16) r = true) :
    readGroups 8 8 0 (v6full a ++ r) = (v6parts a, false, r) := by
  have := readGroups_v6groups 8 (v6parts a) 8 0 r (by simp [v6parts]) (v6parts_lt a)
    (by simp [v6parts]) (by simp [v6parts]) hr
  simpa [sepStr, v6full] using this

theorem readV6_v6full {a : Nat} {r : Input} (ha : a < 2 ^ 128)
    (hr : headNot (isRadixDigit 16) r = true) : readV6 (v6full a ++ r) = some (a, r) := by
  unfold readV6
  rw [readGroups_v6full a hr]
  simp [v6parts_length, groupsToNat_v6parts ha]

theorem v6full_eq (a : Nat) : v6full a =
    digits 16 (a / 65536 ^ 7 % 65536) ++ (':' :: v6groups (v6parts a).tail) := rfl

theorem v6full_all_ipchar (a : Nat) : ∀ c ∈ v6full a, isIpChar c = true := by
  have hd := fun n c => digits_all_ipchar (radix := 16) (by omega) (by omega) n c
  intro c hc
  simp only [v6full, v6parts, v6groups, List.mem_append, List.mem_cons] at hc
  rcases hc with h | h | h | h | h | h | h | h | h | h | h | h | h | h | h
  all_goals first | exact hd _ c h | (rw [h]; exact isIpChar_colon)

theorem v6full_ne_nil (a : Nat) : v6full a ≠ [] := by
  rw [v6full_eq]
  intro h
  exact digits_ne_nil _ _ (List.append_eq_nil_iff.mp h).1

/-- std `IpAddr::from_str` reads the full rendering of an IPv6 address back -/
theorem ip_roundtrip_v6 {a : Nat} (ha : a < 2 ^ 128) : parseIpAddr (v6full a) = some (.v6 a) := by
  have h4 : readV4 (v6full a) = none := by
    rw [v6full_eq]
    exact readV4_hexrun_none (digits_all_hex (by omega) (by omega) _) (headNot_colon_hex _)
      (by simp)
  have h6 := readV6_v6full ha (headNot_nil _)
  rw [List.append_nil] at h6
  unfold parseIpAddr
  rw [h4, h6]

/-- `impl Lex for IpAddr` reads the full rendering of an IPv6 address back -/
theorem lexIpAddr_roundtrip_v6 {a : Nat} {rest : Input} (ha : a < 2 ^ 128)
    (hr : headNot isIpChar rest = true) : lexIpAddr (v6full a ++ rest) = .ok (.v6 a, rest) := by
  rw [lexIpAddr_of_chunk (v6full_all_ipchar a) (v6full_ne_nil a) hr, ip_roundtrip_v6 ha]

theorem v6full_no_dot_slash (a : Nat) : ∀ c ∈ v6full a, c ≠ '.' ∧ c ≠ '/' := by
  have hd : ∀ n c, c ∈ digits 16 n → c ≠ '.' ∧ c ≠ '/' := fun n c h =>
    ⟨digits_no_dot (by omega) (by omega) n c h, fun hc => by
      have := digits_all_radix (radix := 16) (by omega) (by omega) n c h
      rw [hc, isRadixDigit_slash] at this; cases this⟩
  intro c hc
  simp only [v6full, v6parts, v6groups, List.mem_append, List.mem_cons] at hc
  rcases hc with h | h | h | h | h | h | h | h | h | h | h | h | h | h | h
  all_goals first | exact hd _ c h | (rw [h]; decide)

theorem findDotDot_v6full_dotdot (a : Nat) (s : Input) :
    findDotDot (v6full a ++ '.' :: '.' :: s) 0 = some (v6full a).length := by
  rw [findDotDot_nodot (fun c hc => (v6full_no_dot_slash a c hc).1), findDotDot, Nat.zero_add]

/-- full IPv6 `a..b` with `a ≤ b` -/
theorem iprange_v6full_ok {a b : Nat} {rest : Input} (ha : a < 2 ^ 128) (hb : b < 2 ^ 128)
    (hab : a ≤ b) (hr : headNot isIpChar rest = true) :
    lexIpRange (v6full a ++ '.' :: '.' :: v6full b ++ rest) = .ok (.explicit true a b, rest) :=
  iprange_pair_ok_v6 (v6full_all_ipchar a) (v6full_all_ipchar b) hr (findDotDot_v6full_dotdot a _)
    (ip_roundtrip_v6 ha) (ip_roundtrip_v6 hb) hab

/-- full IPv6 `a..b` with `b < a` -/
theorem iprange_v6full_order {a b : Nat} {rest : Input} (ha : a < 2 ^ 128) (hb : b < 2 ^ 128)
    (hab : b < a) (hr : headNot isIpChar rest = true) :
    lexIpRange (v6full a ++ '.' :: '.' :: v6full b ++ rest) =
      errSpan .incompatibleRangeBounds (v6full a ++ '.' :: '.' :: v6full b ++ rest) rest :=
  iprange_pair_bad (v6full_all_ipchar a) (v6full_all_ipchar b) hr (findDotDot_v6full_dotdot a _)
    (ip_roundtrip_v6 ha) (ip_roundtrip_v6 hb) (Or.inr (Or.inr (Or.inr ⟨a, b, rfl, rfl, hab⟩)))

/-- an IPv4 lower bound with an IPv6 upper bound is rejected whatever the values -/
theorem iprange_mixed_v4_v6 {a b : Nat} {rest : Input} (ha : a < 2 ^ 32) (hb : b < 2 ^ 128)
    (hr : headNot isIpChar rest = true) :
    lexIpRange (dotted a ++ '.' :: '.' :: v6full b ++ rest) =
      errSpan .incompatibleRangeBounds (dotted a ++ '.' :: '.' :: v6full b ++ rest) rest :=
  iprange_pair_bad (dotted_all_ipchar a) (v6full_all_ipchar b) hr (findDotDot_dotted_dotdot a _)
    (ip_roundtrip_v4 ha) (ip_roundtrip_v6 hb) (Or.inl ⟨a, b, rfl, rfl⟩)

/-- … and the other way round -/
theorem iprange_mixed_v6_v4 {a b : Nat} {rest : Input} (ha : a < 2 ^ 128) (hb : b < 2 ^ 32)
    (hr : headNot isIpChar rest = true) :
    lexIpRange (v6full a ++ '.' :: '.' :: dotted b ++ rest) =
      errSpan .incompatibleRangeBounds (v6full a ++ '.' :: '.' :: dotted b ++ rest) rest :=
  iprange_pair_bad (v6full_all_ipchar a) (dotted_all_ipchar b) hr (findDotDot_v6full_dotdot a _)
    (ip_roundtrip_v6 ha) (ip_roundtrip_v4 hb) (Or.inr (Or.inl ⟨a, b, rfl, rfl⟩))

/-! ### CIDR blocks of full IPv6 renderings -/

theorem parseCidrAddr_v6full {a : Nat} (ha : a < 2 ^ 128) :
    parseCidrAddr (v6full a) = some (.v6 a) := by
  unfold parseCidrAddr
  rw [ip_roundtrip_v6 ha]

theorem findDotDot_v6full_slash (a n : Nat) :
    findDotDot (v6full a ++ '/' :: digits 10 n) 0 = none := by
  have hnd : ∀ c ∈ v6full a ++ '/' :: digits 10 n, c ≠ '.' := by
    intro c hc
    rcases List.mem_append.mp hc with hc | hc
    · exact (v6full_no_dot_slash a c hc).1
    · rcases List.mem_cons.mp hc with rfl | hc
      · decide
      · exact digits_no_dot (by omega) (by omega) n c hc
  have := findDotDot_nodot hnd [] 0
  rw [List.append_nil] at this
  rw [this]; rfl

/-- full IPv6 `addr/len` whose host bits are not all zero -/
theorem cidr_v6full_hostbits {a len : Nat} {rest : Input} (ha : a < 2 ^ 128) (hl : len ≤ 255)
    (hb : a % 2 ^ (128 - len) ≠ 0) (hr : headNot isIpChar rest = true) :
    lexIpRange (v6full a ++ '/' :: digits 10 len ++ rest) =
      errSpan .parseNetwork (v6full a ++ '/' :: digits 10 len ++ rest) rest :=
  lexIpRange_hostbits_v6 (v6full_all_ipchar a) hr (findDotDot_v6full_slash a len)
    (parseCidrAddr_v6full ha) (parseU8_digits hl) hb

/-- full IPv6 `addr/len` with `len ≤ 128` and zero host bits -/
theorem cidr_v6full_ok {a len : Nat} {rest : Input} (ha : a < 2 ^ 128) (hl : len ≤ 128)
    (hb : a % 2 ^ (128 - len) = 0) (hr : headNot isIpChar rest = true) :
    lexIpRange (v6full a ++ '/' :: digits 10 len ++ rest) = .ok (.cidr true a len, rest) := by
  have hu := parseU8_digits (n := len) (by omega)
  refine lexIpRange_parseCidr_some (cidr_chunk_ipchars (v6full_all_ipchar a) hu) (by simp) hr
    (findDotDot_v6full_slash a len) ?_
  refine parseCidr_ok_v6 (rfindSlash_last (parseU8_no_slash hu)) ?_ ?_ hl hb
  · rw [take_addr_slash]; exact parseCidrAddr_v6full ha
  · rw [drop_addr_slash]; exact hu

/-- a prefix length above the family's width is rejected -/
theorem parseCidr_len_too_big_v4 {chunk : Input} {pos a len : Nat}
    (hs : rfindSlash chunk = some pos)
    (ha : parseCidrAddr (chunk.take pos) = some (.v4 a))
    (hl : parseU8 (chunk.drop (pos + 1)) = some len) (h32 : 32 < len) : parseCidr chunk = none := by
  unfold parseCidr
  simp only [hs, ha, hl]
  simp [h32]

theorem parseCidr_len_too_big_v6 {chunk : Input} {pos a len : Nat}
    (hs : rfindSlash chunk = some pos)
    (ha : parseCidrAddr (chunk.take pos) = some (.v6 a))
    (hl : parseU8 (chunk.drop (pos + 1)) = some len) (h128 : 128 < len) :
    parseCidr chunk = none := by
  unfold parseCidr
  simp only [hs, ha, hl]
  simp [h128]

theorem cidr_dotted_len_too_big {a len : Nat} {rest : Input} (ha : a < 2 ^ 32) (h32 : 32 < len)
    (hl : len ≤ 255) (hr : headNot isIpChar rest = true) :
    lexIpRange (dotted a ++ '/' :: digits 10 len ++ rest) =
      errSpan .parseNetwork (dotted a ++ '/' :: digits 10 len ++ rest) rest := by
  have hu := parseU8_digits hl
  refine lexIpRange_parseCidr_none (cidr_chunk_ipchars (dotted_all_ipchar a) hu) (by simp) hr
    (findDotDot_dotted_slash a len) ?_
  refine parseCidr_len_too_big_v4 (a := a) (rfindSlash_last (parseU8_no_slash hu)) ?_ ?_ h32
  · rw [take_addr_slash]; exact parseCidrAddr_dotted ha
  · rw [drop_addr_slash]; exact hu

/-! ### satisfiability of the hypotheses (concrete instances) -/

/-- `10.0.0.1/8` has host bits set -/
example : parseCidr "10.0.0.1/8".toList = none :=
  cidr_hostbits_v4 (addr := "10.0.0.1".toList) (lenDigits := "8".toList) (a := 167772161)
    (len := 8) (by decide) (by decide) (by decide)

/-- `10.1/8` (short form `10.1` = `10.1.0.0`, accepted by `cidr` only) has host bits set too -/
example : lexIpRange "10.1/8 ".toList = errSpan .parseNetwork "10.1/8 ".toList " ".toList :=
  lexIpRange_hostbits_v4 (addr := "10.1".toList) (lenDigits := "8".toList) (rest := " ".toList)
    (a := 167837696) (len := 8) (by decide) (by decide) (by decide) (by decide) (by decide)
    (by decide)

/-- mixed families: `1.2.3.4..::1` -/
example : lexIpRange "1.2.3.4..::1}".toList =
    errSpan .incompatibleRangeBounds "1.2.3.4..::1}".toList "}".toList :=
  iprange_family_order (chunk := "1.2.3.4..::1".toList) (rest := "}".toList) (pos := 7)
    (A := .v4 16909060) (B := .v6 1) (by decide) (by decide) (by decide) (by decide) (by decide)
    (by decide) (Or.inl ⟨_, _, rfl, rfl⟩)

/-- the side conditions of the rendered forms are satisfiable for every address -/
example (a : Nat) (ha : a < 2 ^ 32) : lexIpAddr (dotted a ++ " ".toList) = .ok (.v4 a, " ".toList) :=
  lexIpAddr_roundtrip_v4 ha (by decide)

end WfModel
