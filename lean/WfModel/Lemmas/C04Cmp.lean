import WfModel.Lemmas.C04Val
import WfModel.Lemmas.C04Parse
namespace WfModel
open Spec

/-- contexts the theorem ranges over: every mandatory field is set, stored values are
well-formed and of the declared type, a matcher exists for every registered list -/
structure CtxOk (s : Scheme) (c : Ctx) : Prop where
  mandatory : ∀ (f : Nat) (fd : FieldDef), s.fields[f]? = some fd → fd.optional = false →
    ∃ v, c.values[f]? = some (some v)
  typed : ∀ (f : Nat) (v : Val), f < s.fields.length → c.values[f]? = some (some v) → HasTy v (s.fieldTy f)
  lists : s.lists.length ≤ c.lists.length

theorem mapM'_ok {α β} {f : α → EM β} : ∀ {xs : List α}, (∀ x ∈ xs, ∃ b, f x = .ok b) →
    ∃ bs, mapM' f xs = .ok bs
  | [], _ => ⟨[], rfl⟩
  | x :: xs, h => by
    obtain ⟨b, hb⟩ := h x (List.mem_cons_self ..)
    obtain ⟨bs, hbs⟩ := mapM'_ok (xs := xs) (fun y hy => h y (List.mem_cons_of_mem _ hy))
    exact ⟨b :: bs, by simp [mapM', hb, hbs]⟩

theorem getList_lt {s : Scheme} {t : Ty} {l : Nat} (h : s.getList t = some l) :
    l < s.lists.length := by
  have := findIdx_lt _ _ _ _ h
  omega

theorem allowed_types {t : Ty} {c : CompOp} (h : Spec.allowed t c = true) :
    t = .int ∨ t = .ip ∨ t = .bytes := by
  cases t <;> cases c <;> simp [Spec.allowed] at h ⊢

/-- `cmp_no_stuck`: under the admissibility rule the comparator never hits `cast_value!` /
`unreachable!()` on a value of the lhs type -/
theorem compareVal_ok {s : Scheme} {c : Ctx} (hc : CtxOk s c) {t : Ty} {he : Bool} {op : CmpOp}
    (hok : cmpOk s t he op) (hnt : compOpOf op ≠ none) {x : Val} (hx : HasTy x t) :
    ∃ b, compareVal c op x = .ok b := by
  unfold cmpOk at hok
  cases op with
  | isTrue => simp [compOpOf] at hnt
  | ordering o rhs =>
    simp only [compOpOf, litOk] at hok
    obtain ⟨ha, hl⟩ := hok
    cases rhs <;> simp only [RhsVal.typeOf] at hl <;> subst hl
    · obtain ⟨i, rfl⟩ := hx.int_inv; exact ⟨_, rfl⟩
    · obtain ⟨i, rfl⟩ := hx.ip_inv; exact ⟨_, rfl⟩
    · obtain ⟨i, rfl⟩ := hx.bytes_inv; exact ⟨_, rfl⟩
  | bitAnd r =>
    simp only [compOpOf, litOk] at hok
    have : t = .int := by cases t <;> simp [Spec.allowed] at hok ⊢
    subst this
    obtain ⟨i, rfl⟩ := hx.int_inv; exact ⟨_, rfl⟩
  | contains p =>
    simp only [compOpOf, litOk] at hok
    have : t = .bytes := by cases t <;> simp [Spec.allowed] at hok ⊢
    subst this
    obtain ⟨i, rfl⟩ := hx.bytes_inv; exact ⟨_, rfl⟩
  | «matches» p f =>
    simp only [compOpOf, litOk] at hok
    have : t = .bytes := by cases t <;> simp [Spec.allowed] at hok ⊢
    subst this
    obtain ⟨i, rfl⟩ := hx.bytes_inv; exact ⟨_, rfl⟩
  | wildcard strict p =>
    have hok' : t = .bytes ∧ (wildTokens p.data).isSome = true := by
      cases strict <;> simp only [compOpOf, litOk] at hok <;>
        exact ⟨by cases t <;> simp [Spec.allowed] at hok ⊢, hok.2⟩
    obtain ⟨ht, hw⟩ := hok'
    subst ht
    obtain ⟨i, rfl⟩ := hx.bytes_inv
    cases hwt : wildTokens p.data with
    | none => simp [hwt] at hw
    | some toks => exact ⟨wildMatch strict toks i, by simp [compareVal, hwt]⟩
  | oneOf vs =>
    simp only [compOpOf, litOk] at hok
    obtain ⟨ha, hl⟩ := hok
    cases vs <;> simp only [valsTy] at hl <;> subst hl
    · obtain ⟨i, rfl⟩ := hx.int_inv; exact ⟨_, rfl⟩
    · obtain ⟨i, rfl⟩ := hx.ip_inv
      cases i <;> exact ⟨_, rfl⟩
    · obtain ⟨i, rfl⟩ := hx.bytes_inv; exact ⟨_, rfl⟩
  | inList l name =>
    simp only [compOpOf, litOk] at hok
    obtain ⟨ha, hl⟩ := hok
    have hlt : l < c.lists.length := Nat.lt_of_lt_of_le (getList_lt hl) hc.lists
    have hcv : compareVal c (.inList l name) x = listMatch c l name x := by
      cases x <;> rfl
    rw [hcv]
    unfold listMatch
    rw [List.getElem?_eq_getElem hlt]
    simp only
    cases c.lists[l].kind <;> exact ⟨_, rfl⟩

theorem compareVal_isTrue_ok {c : Ctx} {x : Val} (hx : HasTy x .bool) :
    ∃ b, compareVal c .isTrue x = .ok b := by
  obtain ⟨b, rfl⟩ := hx.bool_inv; exact ⟨_, rfl⟩

theorem mapEachCount_append (a b : List FieldIndex) :
    mapEachCount (a ++ b) = mapEachCount a + mapEachCount b := by
  simp [mapEachCount, List.filter_append]

theorem Spec.IdxOk.split_last {ix : FieldIndex} {t' : Ty} : ∀ {pre : List FieldIndex} {t : Ty},
    IdxOk t (pre ++ [ix]) t' → ∃ tc, IdxOk t pre tc ∧ indexStep tc ix = some t'
  | [], t, h => by
    refine ⟨t, .nil _, ?_⟩
    cases h with
    | arr n h => cases h; rfl
    | key k h => cases h; rfl
    | eachA h => cases h; rfl
    | eachM h => cases h; rfl
  | p :: pre, t, h => by
    cases h with
    | arr n h => obtain ⟨tc, h1, h2⟩ := Spec.IdxOk.split_last h; exact ⟨tc, .arr n h1, h2⟩
    | key k h => obtain ⟨tc, h1, h2⟩ := Spec.IdxOk.split_last h; exact ⟨tc, .key k h1, h2⟩
    | eachA h => obtain ⟨tc, h1, h2⟩ := Spec.IdxOk.split_last h; exact ⟨tc, .eachA h1, h2⟩
    | eachM h => obtain ⟨tc, h1, h2⟩ := Spec.IdxOk.split_last h; exact ⟨tc, .eachM h1, h2⟩

theorem lastEach_split {ixs : List FieldIndex} (h : ixs.getLast? = some .each) :
    ∃ pre, ixs = pre ++ [.each] := by
  rcases List.eq_nil_or_concat ixs with h0 | ⟨pre, x, rfl⟩
  · subst h0; simp at h
  · simp only [List.concat_eq_append, List.getLast?_append, List.getLast?_singleton,
      Option.some_or, Option.some.injEq] at h
    subst h; exact ⟨pre, by simp⟩

theorem popTrailingEach_snoc (pre : List FieldIndex) : popTrailingEach (pre ++ [.each]) = pre := by
  simp [popTrailingEach]

theorem popTrailingEach_noEach {ixs : List FieldIndex} (h : mapEachCount ixs = 0) :
    popTrailingEach ixs = ixs := by
  unfold popTrailingEach
  split
  · rename_i r hr
    have : ixs = r.reverse ++ [.each] := by
      have := congrArg List.reverse hr
      simpa using this
    subst this
    rw [mapEachCount_append] at h
    have : mapEachCount [FieldIndex.each] = 1 := rfl
    omega
  · rfl

/-- elements of a typed container -/
theorem container_elems {x : Val} {tc t' : Ty} (hx : HasTy x tc)
    (hs : indexStep tc .each = some t') :
    (∃ xs, x = .array t' xs ∧ ∀ y ∈ xs, HasTy y t') ∨
    (∃ kvs, x = .map t' kvs ∧ ∀ kv ∈ kvs, HasTy kv.2 t') := by
  cases tc <;> simp only [indexStep, Option.some.injEq, reduceCtorEq] at hs
  · subst hs; exact Or.inl hx.array_inv
  · subst hs; exact Or.inr hx.map_inv

end WfModel
