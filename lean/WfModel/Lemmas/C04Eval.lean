import WfModel.Lemmas.C04MapEach
namespace WfModel
open Spec

/-- decomposition of a path with exactly one `[*]`, at the end -/
theorem vecPath_split {bt t : Ty} {ixs : List FieldIndex} (hi : IdxOk bt ixs t)
    (h1 : mapEachCount ixs = 1) (hl : ixs.getLast? = some .each) :
    ∃ pre tc, ixs = pre ++ [.each] ∧ mapEachCount pre = 0 ∧ IdxOk bt pre tc ∧
      indexStep tc .each = some t := by
  obtain ⟨pre, rfl⟩ := lastEach_split hl
  obtain ⟨tc, h2, h3⟩ := hi.split_last
  refine ⟨pre, tc, rfl, ?_, h2, h3⟩
  rw [mapEachCount_append] at h1
  have : mapEachCount [FieldIndex.each] = 1 := rfl
  omega

theorem elems_cmp_ok {c : Ctx} {op : CmpOp} {t : Ty}
    (hcmp : ∀ x, HasTy x t → ∃ b, compareVal c op x = .ok b) {xs : List Val}
    (hx : ∀ x ∈ xs, HasTy x t) : ∃ bs, (mapM' (compareVal c op) xs).map BV.vec = .ok (.vec bs) := by
  obtain ⟨bs, hbs⟩ := mapM'_ok (f := compareVal c op) (fun x hm => hcmp x (hx x hm))
  exact ⟨bs, by rw [hbs]; rfl⟩

/-- comparing the elements of the container reached by a `[*]`-free path -/
theorem vecAt_ok {c : Ctx} {op : CmpOp} {bt tc t : Ty} {pre : List FieldIndex}
    (hp : IdxOk bt pre tc) (hm : mapEachCount pre = 0) (hs : indexStep tc .each = some t)
    (hcmp : ∀ x, HasTy x t → ∃ b, compareVal c op x = .ok b) {v : Val} (hv : HasTy v bt) :
    ∃ bs, (match getNested v pre with
      | .error e => .error e
      | .ok none => .ok (.vec [])
      | .ok (some x) =>
        match x with
        | .array _ xs => (mapM' (compareVal c op) xs).map BV.vec
        | .map _ kvs => (mapM' (compareVal c op) (kvs.map (·.2))).map BV.vec
        | _ => .error .unwrapIndex : EM BV) = .ok (.vec bs) := by
  obtain ⟨o, ho, hot⟩ := getNested_typed hp hv hm
  rw [ho]
  cases o with
  | none => exact ⟨[], rfl⟩
  | some x =>
    rcases container_elems (hot x rfl) hs with ⟨xs, rfl, hx⟩ | ⟨kvs, rfl, hx⟩
    · exact elems_cmp_ok hcmp hx
    · refine elems_cmp_ok hcmp ?_
      intro y hy
      obtain ⟨kv, hkv, rfl⟩ := List.mem_map.mp hy
      exact hx kv hkv

theorem compareWith_ok {c : Ctx} {bt t : Ty} {ixs : List FieldIndex} (hi : IdxOk bt ixs t)
    {base : Option Val} (hb : ∀ v, base = some v → HasTy v bt) {op : CmpOp}
    (hcmp : ∀ x, HasTy x t → ∃ b, compareVal c op x = .ok b) (d : Bool) :
    ∃ r, compareWith c base ixs d op = .ok r ∧
      (mapEachCount ixs = 0 → ∃ b, r = .one b) ∧ (mapEachCount ixs > 0 → ∃ bs, r = .vec bs) := by
  unfold compareWith
  by_cases h0 : mapEachCount ixs = 0
  · simp only [h0, if_true]
    cases base with
    | none => exact ⟨_, rfl, fun _ => ⟨_, rfl⟩, fun h => by omega⟩
    | some v =>
      obtain ⟨o, ho, hot⟩ := getNested_typed hi (hb v rfl) h0
      simp only [ho]
      cases o with
      | none => exact ⟨_, rfl, fun _ => ⟨_, rfl⟩, fun h => by omega⟩
      | some x =>
        obtain ⟨b, hbx⟩ := hcmp x (hot x rfl)
        exact ⟨.one b, by simp [hbx, Except.map], fun _ => ⟨_, rfl⟩, fun h => by omega⟩
  · simp only [h0, if_false]
    by_cases h1 : (mapEachCount ixs = 1 && ixs.getLast? = some .each) = true
    · simp only [h1, if_true]
      simp only [Bool.and_eq_true, decide_eq_true_eq] at h1
      obtain ⟨pre, tc, rfl, hm, hp, hs⟩ := vecPath_split hi h1.1 h1.2
      cases base with
      | none => exact ⟨_, rfl, fun h => h.elim, fun _ => ⟨_, rfl⟩⟩
      | some v =>
        simp only [popTrailingEach_snoc]
        obtain ⟨bs, hbs⟩ := vecAt_ok (c := c) (op := op) hp hm hs hcmp (hb v rfl)
        exact ⟨_, hbs, fun h => h.elim, fun _ => ⟨_, rfl⟩⟩
    · simp only [h1]
      cases base with
      | none => exact ⟨_, rfl, fun h => h.elim, fun _ => ⟨_, rfl⟩⟩
      | some v =>
        have hne : ixs ≠ [] := by intro h; subst h; exact h0 rfl
        obtain ⟨items, hit, hty⟩ := mapEachRun_typed hi hne (hb v rfl)
        simp only [hit]
        obtain ⟨bs, hbs⟩ := elems_cmp_ok hcmp hty
        exact ⟨_, hbs, fun h => h.elim, fun _ => ⟨_, rfl⟩⟩

theorem compareVecDirect_ok {c : Ctx} {bt t : Ty} {ixs : List FieldIndex} (hi : IdxOk bt ixs t)
    (hm : mapEachCount ixs = 0) (ht : t.next = some .bool)
    {base : Option Val} (hb : ∀ v, base = some v → HasTy v bt) :
    ∃ bs, compareVecDirect c base ixs .isTrue = .ok (.vec bs) := by
  unfold compareVecDirect
  cases base with
  | none => exact ⟨_, rfl⟩
  | some v =>
    simp only [popTrailingEach_noEach hm]
    have hs : indexStep t .each = some .bool := by
      cases t <;> simp [Ty.next] at ht <;> subst ht <;> rfl
    exact vecAt_ok hi hm hs (fun x hx => compareVal_isTrue_ok hx) (hb v rfl)

/-- what a value expression whose index list has `mec` occurrences of `[*]` may yield:
a well-formed value of the static type (of a container of it when `[*]` occurs), or an absence
tagged with that type -/
def ValRes (r : VRes) (mec : Nat) (t : Ty) : Prop :=
  match r with
  | .ok v => if mec = 0 then HasTy v t else (HasTy v (.array t) ∨ HasTy v (.map t))
  | .error ty => ty = if mec = 0 then t else .array t

theorem indexValue_ok {bt t : Ty} {ixs : List FieldIndex} (hi : IdxOk bt ixs t)
    {base : VRes} (hb : ∀ v, base = .ok v → HasTy v bt) :
    ∃ r, indexValue base ixs t = .ok r ∧ ValRes r (mapEachCount ixs) t := by
  unfold indexValue
  by_cases h0 : mapEachCount ixs = 0
  · simp only [h0, if_true]
    cases base with
    | error e => exact ⟨_, rfl, by simp [ValRes]⟩
    | ok v =>
      obtain ⟨o, ho, hot⟩ := getNested_typed hi (hb v rfl) h0
      simp only [ho]
      cases o with
      | none => exact ⟨_, rfl, by simp [ValRes]⟩
      | some x => exact ⟨_, rfl, by simpa [ValRes] using hot x rfl⟩
  · simp only [h0, if_false]
    by_cases h1 : (mapEachCount ixs = 1 && ixs.getLast? = some .each) = true
    · simp only [h1, if_true]
      simp only [Bool.and_eq_true, decide_eq_true_eq] at h1
      obtain ⟨pre, tc, rfl, hm, hp, hs⟩ := vecPath_split hi h1.1 h1.2
      cases base with
      | error e => exact ⟨_, rfl, by simp [ValRes, h0]⟩
      | ok v =>
        have htake : (pre ++ [FieldIndex.each]).take ((pre ++ [FieldIndex.each]).length - 1) = pre := by
          simp
        simp only [htake]
        obtain ⟨o, ho, hot⟩ := getNested_typed hp (hb v rfl) hm
        simp only [ho]
        cases o with
        | none => exact ⟨_, rfl, by simp [ValRes, h0]⟩
        | some x =>
          refine ⟨_, rfl, ?_⟩
          simp only [ValRes, h0, if_false]
          have hx := hot x rfl
          cases tc <;> simp only [indexStep, Option.some.injEq, reduceCtorEq] at hs <;> subst hs
          · exact Or.inl hx
          · exact Or.inr hx
    · simp only [h1]
      cases base with
      | error e => exact ⟨_, rfl, by simp [ValRes, h0]⟩
      | ok v =>
        have hne : ixs ≠ [] := by intro h; subst h; exact h0 rfl
        obtain ⟨items, hit, hty⟩ := mapEachRun_typed hi hne (hb v rfl)
        simp only [hit]
        have hall : items.all (fun x => x.typeOf == t) = true := by
          simp only [List.all_eq_true, beq_iff_eq]
          exact fun x hx => (hty x hx).1
        simp only [hall, if_true]
        exact ⟨_, rfl, by simp only [ValRes, h0, if_false]; exact Or.inl (HasTy.mk_array hty)⟩

/-! ### functions -/

/-- what a function may receive for a parameter of kind `k` and type `t`: a well-formed value
of that type, or an absence unless the parameter is a literal. Implementation quirk,
mirrored: a *logical-expression* argument of static type `Map(Bool)` (e.g. `f(not m)`) is
passed as the `Array(Bool)` of its results. -/
def ArgRes (k : ArgKindSpec) (t : Ty) (r : VRes) : Prop :=
  match r with
  | .ok v => v.wf = true ∧ (v.typeOf = t ∨ (t = .map .bool ∧ v.typeOf = .array .bool))
  | .error _ => k ≠ .literal

/-- a registered simple function honours its signature: default values are well-formed, and on
arguments admissible for its declared parameters its body returns nothing or a well-formed
value of the declared return type (`call_typed`'s hypothesis) -/
def SimpleOk (ps : List (ArgKindSpec × Ty)) (os : List (ArgKindSpec × Val)) (ret : Ty) (id : Nat) :
    Prop :=
  (∀ o ∈ os, o.2.wf = true) ∧
  ∀ args : List VRes, args.length = (sigParams ps os).length →
    (∀ (i : Nat) (k : ArgKindSpec) (t : Ty) (r : VRes),
      (sigParams ps os)[i]? = some (k, t) → args[i]? = some r → ArgRes k t r) →
    ∃ o, simpleImpl id args = .ok o ∧ ∀ v, o = some v → HasTy v ret

def FuncsOk (s : Scheme) : Prop :=
  ∀ (fn : Nat) (name : List Char) (ps : List (ArgKindSpec × Ty)) (os : List (ArgKindSpec × Val))
    (ret : Ty) (id : Nat), s.funcs[fn]? = some (name, .simple ps os ret id) → SimpleOk ps os ret id

/-- evaluated argument against its descriptor -/
def ParamRes (p : ParamInfo) (r : VRes) : Prop :=
  match r with
  | .ok v => v.wf = true ∧ (v.typeOf = p.ty ∨ (p.ty = .map .bool ∧ v.typeOf = .array .bool))
  | .error _ => p.isLiteral = false

def ParamsRes : List ParamInfo → List VRes → Prop
  | [], [] => True
  | p :: ps, r :: rs => ParamRes p r ∧ ParamsRes ps rs
  | _, _ => False

theorem ParamsRes.length : ∀ {ps : List ParamInfo} {rs : List VRes}, ParamsRes ps rs →
    rs.length = ps.length
  | [], [], _ => rfl
  | _ :: _, _ :: _, h => by simp [ParamsRes.length h.2]
  | [], _ :: _, h => by simp [ParamsRes] at h
  | _ :: _, [], h => by simp [ParamsRes] at h

theorem ParamsRes.get : ∀ {ps : List ParamInfo} {rs : List VRes}, ParamsRes ps rs →
    ∀ (i : Nat) (p : ParamInfo) (r : VRes), ps[i]? = some p → rs[i]? = some r → ParamRes p r
  | _ :: _, _ :: _, h, 0, p, r, hp, hr => by
    simp only [List.getElem?_cons_zero, Option.some.injEq] at hp hr
    subst hp; subst hr; exact h.1
  | _ :: _, _ :: _, h, i + 1, p, r, hp, hr => by
    simp only [List.getElem?_cons_succ] at hp hr
    exact ParamsRes.get h.2 i p r hp hr
  | [], [], _, i, p, r, hp, _ => by simp at hp
  | [], _ :: _, h, _, _, _, _, _ => by simp [ParamsRes] at h
  | _ :: _, [], h, _, _, _, _, _ => by simp [ParamsRes] at h

theorem ParamsRes.mem : ∀ {ps : List ParamInfo} {rs : List VRes}, ParamsRes ps rs →
    ∀ r ∈ rs, ∃ p ∈ ps, ParamRes p r
  | _ :: _, _ :: _, h, r, hr => by
    rcases List.mem_cons.mp hr with hr | hr
    · subst hr; exact ⟨_, List.mem_cons_self .., h.1⟩
    · obtain ⟨p, hp, hpr⟩ := ParamsRes.mem h.2 r hr
      exact ⟨p, List.mem_cons_of_mem _ hp, hpr⟩
  | [], [], _, r, hr => by simp at hr
  | [], _ :: _, h, _, _ => by simp [ParamsRes] at h
  | _ :: _, [], h, _, _ => by simp [ParamsRes] at h

def concatArrStep (acc : EM (List Val)) (v : Val) : EM (List Val) :=
  match acc, v with
  | .ok l, .array _ ys => .ok (l ++ ys)
  | .ok _, _ => .error .unreachable
  | .error e, _ => .error e

def concatBytesStep (acc : Bytes) (v : Val) : Bytes :=
  match v with
  | .bytes c => acc ++ c
  | _ => acc

def presentOf (args : List VRes) : List Val :=
  args.filterMap fun a => match a with | .ok v => some v | .error _ => none

/-- `concatImpl` with its folds named -/
def concatImpl' (args : List VRes) : EM (Option Val) :=
  match presentOf args with
  | [] => .ok none
  | Val.array t xs :: rest =>
    (match rest.foldl concatArrStep (.ok xs) with
     | .error e => .error e
     | .ok l => if l.all (fun x => x.typeOf == t) then .ok (some (.array t l)) else .error .tryFromIter)
  | Val.bytes b :: rest => .ok (some (.bytes (rest.foldl concatBytesStep b)))
  | _ => .error .unreachable

theorem concatImpl_eq (args : List VRes) : concatImpl args = concatImpl' args := rfl

theorem foldl_arrays_ok {e : Ty} : ∀ (rest : List Val) (acc : List Val),
    (∀ y ∈ acc, HasTy y e) → (∀ v ∈ rest, HasTy v (.array e)) →
    ∃ l, rest.foldl concatArrStep (.ok acc) = .ok l ∧ ∀ y ∈ l, HasTy y e
  | [], acc, ha, _ => ⟨acc, rfl, ha⟩
  | v :: rest, acc, ha, hr => by
    obtain ⟨ys, rfl, hys⟩ := (hr v (List.mem_cons_self ..)).array_inv
    simp only [List.foldl_cons, concatArrStep]
    refine foldl_arrays_ok rest (acc ++ ys) ?_ (fun w hw => hr w (List.mem_cons_of_mem _ hw))
    intro y hy
    rcases List.mem_append.mp hy with hy | hy
    · exact ha y hy
    · exact hys y hy

theorem presentOf_typed {T : Ty} {vs : List VRes} (h : ∀ r ∈ vs, ∀ v, r = .ok v → HasTy v T) :
    ∀ v ∈ presentOf vs, HasTy v T := by
  intro v hv
  simp only [presentOf, List.mem_filterMap] at hv
  obtain ⟨r, hr, hrv⟩ := hv
  cases r with
  | error e => simp at hrv
  | ok w => simp only [Option.some.injEq] at hrv; subst hrv; exact h _ hr w rfl

theorem concatImpl_ok {T : Ty} (hT : T = .bytes ∨ ∃ e, T = .array e) {vs : List VRes}
    (h : ∀ r ∈ vs, ∀ v, r = .ok v → HasTy v T) :
    ∃ o, concatImpl vs = .ok o ∧ ∀ v, o = some v → HasTy v T := by
  rw [concatImpl_eq]
  unfold concatImpl'
  have hp := presentOf_typed h
  cases hpr : presentOf vs with
  | nil => exact ⟨none, rfl, fun v hv => by cases hv⟩
  | cons x rest =>
    rw [hpr] at hp
    have hx := hp x (List.mem_cons_self ..)
    have hrest : ∀ v ∈ rest, HasTy v T := fun v hv => hp v (List.mem_cons_of_mem _ hv)
    rcases hT with hT | ⟨e, hT⟩
    · subst hT
      obtain ⟨b, rfl⟩ := hx.bytes_inv
      exact ⟨_, rfl, fun v hv => by injection hv with hv; subst hv; exact ⟨rfl, rfl⟩⟩
    · subst hT
      obtain ⟨xs, rfl, hxs⟩ := hx.array_inv
      obtain ⟨l, hl, hlt⟩ := foldl_arrays_ok rest xs hxs hrest
      simp only [hl]
      have hall : l.all (fun x => x.typeOf == e) = true := by
        simp only [List.all_eq_true, beq_iff_eq]
        exact fun x hx => (hlt x hx).1
      simp only [hall, if_true]
      exact ⟨_, rfl, fun v hv => by injection hv with hv; subst hv; exact HasTy.mk_array hlt⟩

theorem simple_args_ok {ps : List (ArgKindSpec × Ty)} {os : List (ArgKindSpec × Val)}
    (hos : ∀ o ∈ os, o.2.wf = true) {params : List ParamInfo}
    (hmin : ps.length ≤ params.length)
    (hsig : sigArgsOk (.simple ps os .bool 0) params) {vs : List VRes} (hv : ParamsRes params vs) :
    let args' := vs ++ (os.drop (params.length - ps.length)).map (fun o => (Except.ok o.2 : VRes))
    args'.length = (sigParams ps os).length ∧
    ∀ (i : Nat) (k : ArgKindSpec) (t : Ty) (r : VRes),
      (sigParams ps os)[i]? = some (k, t) → args'[i]? = some r → ArgRes k t r := by
  obtain ⟨hmax, hall⟩ := hsig
  have hlen := hv.length
  refine ⟨?_, ?_⟩
  · simp only [List.length_append, List.length_map, List.length_drop, sigParams, hlen]; omega
  · intro i k t r hk hr
    by_cases hi : i < params.length
    · rw [List.getElem?_append_left (by omega)] at hr
      obtain ⟨k', t', h1, h2, h3⟩ := hall i params[i] (List.getElem?_eq_getElem hi)
      rw [hk] at h1; injection h1 with h1; injection h1 with h1 h1'; subst h1; subst h1'
      have hpr := hv.get i params[i] r (List.getElem?_eq_getElem hi) hr
      cases r with
      | ok v => exact ⟨hpr.1, by rw [← h3]; exact hpr.2⟩
      | error e =>
        simp only [ParamRes] at hpr
        simp only [ArgRes]
        rw [hpr] at h2
        cases k <;> simp [kindOk] at h2 ⊢
    · have hi' : params.length ≤ i := Nat.le_of_not_lt hi
      rw [List.getElem?_append_right (by omega), List.getElem?_map, List.getElem?_drop] at hr
      simp only [sigParams] at hk
      rw [List.getElem?_append_right (by omega), List.getElem?_map] at hk
      have hidx : params.length - ps.length + (i - vs.length) = i - ps.length := by omega
      rw [hidx] at hr
      cases ho : os[i - ps.length]? with
      | none => simp [ho] at hk
      | some o =>
        simp only [ho, Option.map_some, Option.some.injEq, Prod.mk.injEq] at hk hr
        subst hr
        obtain ⟨hk1, hk2⟩ := hk
        exact ⟨hos o (List.mem_of_getElem? ho), Or.inl hk2⟩

theorem callImpl_ok {s : Scheme} (hf : FuncsOk s) {fn : Nat} {name : List Char} {sig : FuncSig}
    (hs : s.funcs[fn]? = some (name, sig)) {params : List ParamInfo} (hsig : sigOk sig params)
    {vs : List VRes} (hv : ParamsRes params vs) (ctx : Option Nat) :
    ∃ o, callImpl sig params.length ctx vs = .ok o ∧
      ∀ v, o = some v → HasTy v (retTy sig params) := by
  obtain ⟨hmin, hargs⟩ := hsig
  cases sig with
  | simple ps os ret id =>
    obtain ⟨hos, himpl⟩ := hf fn name ps os ret id hs
    simp only [callImpl, hv.length, ne_eq, not_true_eq_false, if_false]
    have := simple_args_ok hos hmin hargs hv
    exact himpl _ this.1 this.2
  | concat =>
    simp only [minArgs] at hmin
    cases params with
    | nil => simp at hmin
    | cons p0 rest =>
      obtain ⟨hT, hsame⟩ := hargs
      simp only [callImpl, retTy]
      refine concatImpl_ok hT ?_
      intro r hr v hrv
      subst hrv
      obtain ⟨p, hp, hpr⟩ := hv.mem _ hr
      have hpt : p.ty = p0.ty := by
        rcases List.mem_cons.mp hp with hp | hp
        · subst hp; rfl
        · exact hsame p hp
      obtain ⟨hw, hty⟩ := hpr
      rw [hpt] at hty
      rcases hty with hty | ⟨hm, _⟩
      · exact ⟨hty, hw⟩
      · rcases hT with hT | ⟨e, hT⟩ <;> rw [hT] at hm <;> cases hm
  | ctxCounter =>
    exact ⟨_, rfl, fun v hv => by injection hv with hv; subst hv; exact ⟨rfl, rfl⟩⟩

/-- the `filter_map` over the elements of a mapped call -/
def collectStep (apply : Val → EM (Option Val)) (acc : EM (List Val)) (e : Val) : EM (List Val) :=
  match acc with
  | .error x => .error x
  | .ok l => match apply e with
    | .error x => .error x
    | .ok none => .ok l
    | .ok (some r) => .ok (l ++ [r])

theorem collect_ok {ret : Ty} {apply : Val → EM (Option Val)} : ∀ (elems : List Val) (acc : List Val),
    (∀ e ∈ elems, ∃ o, apply e = .ok o ∧ ∀ v, o = some v → HasTy v ret) →
    (∀ x ∈ acc, HasTy x ret) →
    ∃ l, elems.foldl (collectStep apply) (.ok acc) = .ok l ∧ ∀ x ∈ l, HasTy x ret
  | [], acc, _, ha => ⟨acc, rfl, ha⟩
  | e :: elems, acc, he, ha => by
    obtain ⟨o, ho, hot⟩ := he e (List.mem_cons_self ..)
    have he' : ∀ e' ∈ elems, ∃ o, apply e' = .ok o ∧ ∀ v, o = some v → HasTy v ret :=
      fun e' h' => he e' (List.mem_cons_of_mem _ h')
    simp only [List.foldl_cons, collectStep, ho]
    cases o with
    | none => exact collect_ok elems acc he' ha
    | some r =>
      refine collect_ok elems (acc ++ [r]) he' ?_
      intro x hx
      rcases List.mem_append.mp hx with hx | hx
      · exact ha x hx
      · simp only [List.mem_singleton] at hx; subst hx; exact hot _ rfl

def retOf (s : Scheme) (sig : FuncSig) (args : List AExpr) : Ty :=
  match sig with
  | .simple _ _ r _ => r
  | .concat => (match args with | a :: _ => tyA s a | [] => .bytes)
  | .ctxCounter => .int

/-- the map-each application of a call over the evaluated first argument -/
def mappedResult (ret : Ty) (apply : Val → EM (Option Val)) (first : Val) : EM VRes :=
  match first with
  | .map _ kvs =>
    (match (kvs.map (·.2)).foldl (collectStep apply) (.ok []) with
     | .error e => .error e
     | .ok l =>
       if l.all (fun x => x.typeOf == ret) then .ok (.ok (.array ret l)) else .error .tryFromIter)
  | .array _ xs =>
    if xs.isEmpty then .ok (.ok (.array ret []))
    else
      (match xs.foldl (collectStep apply) (.ok []) with
       | .error e => .error e
       | .ok l =>
         if l.all (fun x => x.typeOf == ret) then .ok (.ok (.array ret l)) else .error .assertArgs)
  | _ => .error .unreachable

def finishCall (ret : Ty) (r : EM (Option Val)) : EM VRes :=
  match r with
  | .error e => .error e
  | .ok (some v) => .ok (.ok v)
  | .ok none => .ok (.error ret)

/-- `evalBase` on a call, with its pieces named -/
theorem evalBase_call (s : Scheme) (c : Ctx) (fn : Nat) (args : List AExpr) (ctx : Option Nat)
    (ixs : List FieldIndex) :
    evalBase s c (.call fn args ctx ixs) =
      match s.funcs[fn]? with
      | none => .error .badFunction
      | some (_, sig) =>
        match args with
        | [] => finishCall (retOf s sig args) (callImpl sig 0 ctx [])
        | a0 :: rest =>
          if a0.mapEachCount > 0 then
            match evalA s c a0 with
            | .error e => .error e
            | .ok (.error _) => .ok (.error (.array (retOf s sig args)))
            | .ok (.ok first) =>
              match evalAs s c rest with
              | .error e => .error e
              | .ok extra =>
                mappedResult (retOf s sig args)
                  (fun elem => callImpl sig args.length ctx (.ok elem :: extra)) first
          else
            match evalAs s c (a0 :: rest) with
            | .error e => .error e
            | .ok vs => finishCall (retOf s sig args) (callImpl sig args.length ctx vs) := by
  conv => lhs; unfold evalBase
  cases s.funcs[fn]? with
  | none => rfl
  | some p =>
    obtain ⟨nm, sig⟩ := p
    cases args with
    | nil => rfl
    | cons a0 rest => rfl

theorem mappedResult_ok {ret T : Ty} {apply : Val → EM (Option Val)} {first : Val}
    (hfirst : HasTy first (.array T) ∨ HasTy first (.map T))
    (happly : ∀ e, HasTy e T → ∃ o, apply e = .ok o ∧ ∀ v, o = some v → HasTy v ret) :
    ∃ v, mappedResult ret apply first = .ok (.ok v) ∧ HasTy v (.array ret) := by
  have hfin : ∀ (elems : List Val), (∀ e ∈ elems, HasTy e T) →
      ∃ l, elems.foldl (collectStep apply) (.ok []) = .ok l ∧
        l.all (fun x => x.typeOf == ret) = true ∧ HasTy (.array ret l) (.array ret) := by
    intro elems he
    obtain ⟨l, hl, hlt⟩ := collect_ok (ret := ret) (apply := apply) elems []
      (fun e h => happly e (he e h)) (by simp)
    refine ⟨l, hl, ?_, HasTy.mk_array hlt⟩
    simp only [List.all_eq_true, beq_iff_eq]
    exact fun x hx => (hlt x hx).1
  rcases hfirst with h | h
  · obtain ⟨xs, rfl, hxs⟩ := h.array_inv
    simp only [mappedResult]
    by_cases hem : xs.isEmpty = true
    · simp only [hem, if_true]
      exact ⟨_, rfl, HasTy.mk_array (by simp)⟩
    · simp only [hem]
      obtain ⟨l, hl, hall, hty⟩ := hfin xs hxs
      simp only [hl, hall, if_true]
      exact ⟨_, rfl, hty⟩
  · obtain ⟨kvs, rfl, hk⟩ := h.map_inv
    simp only [mappedResult]
    obtain ⟨l, hl, hall, hty⟩ := hfin (kvs.map (·.2)) (by
      intro e he
      obtain ⟨kv, hkv, rfl⟩ := List.mem_map.mp he
      exact hk kv hkv)
    simp only [hl, hall, if_true]
    exact ⟨_, rfl, hty⟩

theorem RhsVal.toVal_typed (v : RhsVal) : HasTy v.toVal v.typeOf := by
  cases v <;> exact ⟨rfl, rfl⟩

/-- shape of a logical result against its static type -/
def BVShape (r : BV) (t : Ty) : Prop :=
  match r with
  | .one _ => t = .bool
  | .vec _ => t ≠ .bool

/-- result of an evaluated argument -/
def ArgOut (r : VRes) (a : AExpr) (t : Ty) : Prop :=
  (a.mapEachCount = 0 → ParamRes { isLiteral := isLit a, ty := t } r) ∧
  (a.mapEachCount > 0 → ∀ v, r = .ok v → HasTy v (.array t) ∨ HasTy v (.map t))

theorem retOf_eq {s : Scheme} {sig : FuncSig} {args : List AExpr} {params : List ParamInfo}
    (h : WTArgs s args params) : retOf s sig args = retTy sig params := by
  cases sig with
  | simple => rfl
  | ctxCounter => rfl
  | concat =>
    cases h with
    | nil => rfl
    | cons ha _ => simp [retOf, retTy, WTA.tyA_eq _ ha]

theorem ValRes.toArgOut {r : VRes} {e : IExpr} {t : Ty} (h : ValRes r (mapEachCount e.indexes) t) :
    ArgOut r (.index e) t := by
  constructor
  · intro hm
    simp only [AExpr.mapEachCount] at hm
    cases r with
    | ok v =>
      simp only [ValRes, hm, if_true] at h
      exact ⟨h.2, Or.inl h.1⟩
    | error e => rfl
  · intro hm v hv
    subst hv
    simp only [AExpr.mapEachCount] at hm
    have : mapEachCount e.indexes ≠ 0 := by omega
    simpa [ValRes, this] using h

/-- what `evalBase` guarantees: the identifier's value is typed by the type the index list
starts from -/
def BaseOk (s : Scheme) (c : Ctx) (e : IExpr) (t : Ty) : Prop :=
  ∃ bt, IdxOk bt e.indexes t ∧ ∃ r, evalBase s c e = .ok r ∧ ∀ v, r = .ok v → HasTy v bt

theorem evalI_of_base {s : Scheme} {c : Ctx} {e : IExpr} {t : Ty} (hw : WTI s e t)
    (hb : BaseOk s c e t) : ∃ r, evalI s c e = .ok r ∧ ValRes r (mapEachCount e.indexes) t := by
  obtain ⟨bt, hi, r, hr, hrt⟩ := hb
  unfold evalI
  simp only [hr, WTI.tyI_eq e hw]
  exact indexValue_ok hi hrt

theorem field_base_ok {s : Scheme} {c : Ctx} (hc : CtxOk s c) {f : Nat} {ixs : List FieldIndex}
    {t : Ty} (hf : f < s.fields.length) (hi : IdxOk (s.fieldTy f) ixs t) :
    BaseOk s c (.field f ixs) t := by
  refine ⟨s.fieldTy f, hi, ?_⟩
  simp only [evalBase, Ctx.fieldVal]
  cases hv : c.values[f]? with
  | some o =>
    cases o with
    | some v =>
      exact ⟨_, rfl, fun w hw => by injection hw with hw; subst hw; exact hc.typed f v hf hv⟩
    | none =>
      simp only [List.getElem?_eq_getElem hf]
      by_cases ho : s.fields[f].optional = true
      · simp only [ho, if_true]; exact ⟨_, rfl, fun w hw => by cases hw⟩
      · obtain ⟨v, hv'⟩ := hc.mandatory f s.fields[f] (List.getElem?_eq_getElem hf) (by simpa using ho)
        rw [hv] at hv'; cases hv'
  | none =>
    simp only [List.getElem?_eq_getElem hf]
    by_cases ho : s.fields[f].optional = true
    · simp only [ho, if_true]; exact ⟨_, rfl, fun w hw => by cases hw⟩
    · obtain ⟨v, hv'⟩ := hc.mandatory f s.fields[f] (List.getElem?_eq_getElem hf) (by simpa using ho)
      rw [hv] at hv'; cases hv'

theorem finishCall_ok {ret : Ty} {r : EM (Option Val)}
    (h : ∃ o, r = .ok o ∧ ∀ v, o = some v → HasTy v ret) :
    ∃ r', finishCall ret r = .ok r' ∧ ∀ v, r' = .ok v → HasTy v ret := by
  obtain ⟨o, rfl, ho⟩ := h
  cases o with
  | none => exact ⟨_, rfl, fun v hv => by cases hv⟩
  | some w => exact ⟨_, rfl, fun v hv => by injection hv with hv; subst hv; exact ho w rfl⟩

theorem quant_index_ok {q : QOp} {v : Val} (hv : HasTy v (.array .bool)) :
    ∃ b, (match (Except.ok (Except.ok v : VRes) : EM VRes) with
      | .error e => .error e
      | .ok (.error _) => .ok (.one false)
      | .ok (.ok (.array _ xs)) =>
        let bs := mapM' (fun x => match x with | Val.bool b => .ok b | _ => .error Stuck.castValue) xs
        (match bs with
         | .error e => .error e
         | .ok bs => .ok (.one (match q with | .any => bs.any id | .all => bs.all id)))
      | .ok (.ok _) => .error .unreachable : EM BV) = .ok (.one b) := by
  obtain ⟨xs, rfl, hxs⟩ := hv.array_inv
  obtain ⟨bs, hbs⟩ := mapM'_ok
    (f := fun x => match x with | Val.bool b => (.ok b : EM Bool) | _ => .error Stuck.castValue)
    (xs := xs) (fun x hx => by obtain ⟨b, rfl⟩ := (hxs x hx).bool_inv; exact ⟨b, rfl⟩)
  simp only [hbs]
  exact ⟨_, rfl⟩

theorem compOpOf_ne_none {op : CmpOp} (h : op ≠ .isTrue) : compOpOf op ≠ none := by
  cases op with
  | isTrue => exact absurd rfl h
  | wildcard strict b => cases strict <;> simp [compOpOf]
  | _ => simp [compOpOf]

theorem cmpTy_not_isTrue {op : CmpOp} (h : op ≠ .isTrue) (t : Ty) (b : Bool) :
    cmpTy t b op = if b then .array .bool else .bool := by
  cases op with
  | isTrue => exact absurd rfl h
  | _ => rfl

theorem bools_typed (bs : List Bool) : HasTy (.array .bool (bs.map Val.bool)) (.array .bool) :=
  HasTy.mk_array (by
    intro x hx
    obtain ⟨b, _, rfl⟩ := List.mem_map.mp hx
    exact ⟨rfl, rfl⟩)

section
variable {s : Scheme} {c : Ctx}

theorem comparison_ok (hc : CtxOk s c) {lhs : IExpr} {op : CmpOp} {t0 : Ty} (h1 : WTI s lhs t0)
    (h2 : cmpOk s t0 (decide (mapEachCount lhs.indexes > 0)) op) (hb : BaseOk s c lhs t0) :
    ∃ r, evalL s c (.comparison lhs op) = .ok r ∧
      BVShape r (cmpTy t0 (decide (mapEachCount lhs.indexes > 0)) op) := by
  obtain ⟨bt, hi, r, hr, hrt⟩ := hb
  have hty := WTI.tyI_eq lhs h1
  simp only [evalL, hr, hty]
  have hbase : ∀ v, (match r with | .ok v => some v | .error _ => none : Option Val) = some v →
      HasTy v bt := by
    intro v hv
    cases r with
    | ok w => simp only [Option.some.injEq] at hv; subst hv; exact hrt w rfl
    | error e => cases hv
  by_cases hop : op = .isTrue
  · subst hop
    simp only [beq_self_eq_true, if_true]
    simp only [cmpOk, compOpOf] at h2
    rcases h2 with h2 | ⟨h2, hm⟩
    · subst h2
      simp only [beq_self_eq_true, if_true]
      obtain ⟨r', hr', h0, h1'⟩ := compareWith_ok (c := c) hi hbase
        (fun x hx => compareVal_isTrue_ok hx) false
      refine ⟨r', hr', ?_⟩
      by_cases hmm : mapEachCount lhs.indexes > 0
      · obtain ⟨bs, rfl⟩ := h1' hmm
        simp [BVShape, cmpTy, hmm]
      · obtain ⟨b, rfl⟩ := h0 (by omega)
        simp [BVShape, cmpTy, hmm]
    · have hne : t0 ≠ .bool := by intro h; subst h; simp [Ty.next] at h2
      have hne' : (t0 == Ty.bool) = false := by simpa using hne
      have hnx : (t0.next == some Ty.bool) = true := by simpa using h2
      simp only [hne', hnx, if_true, Bool.false_eq_true, if_false]
      have hm0 : mapEachCount lhs.indexes = 0 := by
        simp only [decide_eq_false_iff_not, Nat.not_lt, Nat.le_zero_eq] at hm; exact hm
      obtain ⟨bs, hbs⟩ := compareVecDirect_ok (c := c) hi hm0 h2 hbase
      refine ⟨_, hbs, ?_⟩
      simp [BVShape, cmpTy, hm0, hne]
  · have hop' : (op == CmpOp.isTrue) = false := by simpa using hop
    simp only [hop', Bool.false_eq_true, if_false]
    obtain ⟨r', hr', h0, h1'⟩ := compareWith_ok (c := c) hi hbase
      (fun x hx => compareVal_ok hc h2 (compOpOf_ne_none hop) hx) (nilDefault s op)
    refine ⟨r', hr', ?_⟩
    rw [cmpTy_not_isTrue hop]
    by_cases hmm : mapEachCount lhs.indexes > 0
    · obtain ⟨bs, rfl⟩ := h1' hmm
      simp [BVShape, hmm]
    · obtain ⟨b, rfl⟩ := h0 (by omega)
      simp [BVShape, hmm]

end
section
variable {s : Scheme} {c : Ctx}

theorem call_base_ok (hf : FuncsOk s) {fn : Nat} {name : List Char} {sig : FuncSig}
    {args : List AExpr} {params : List ParamInfo} {ctx : Option Nat} {ixs : List FieldIndex} {t : Ty}
    (h1 : s.funcs[fn]? = some (name, sig)) (h2 : WTArgs s args params) (h3 : sigOk sig params)
    (h4 : ∀ a ∈ args.tail, a.mapEachCount = 0) (h5 : IdxOk (callTy sig args params) ixs t)
    (hA : ∀ a0 rest, args = a0 :: rest → ∀ ta, WTA s a0 ta →
      ∃ r, evalA s c a0 = .ok r ∧ ArgOut r a0 ta)
    (hAs1 : ∀ (ps : List ParamInfo), WTArgs s args ps →
      (∀ a ∈ args, a.mapEachCount = 0) → ∃ vs, evalAs s c args = .ok vs ∧ ParamsRes ps vs)
    (hAs2 : ∀ (ps : List ParamInfo), WTArgs s args.tail ps →
      (∀ a ∈ args.tail, a.mapEachCount = 0) → ∃ vs, evalAs s c args.tail = .ok vs ∧ ParamsRes ps vs) :
    BaseOk s c (.call fn args ctx ixs) t := by
  refine ⟨callTy sig args params, h5, ?_⟩
  rw [evalBase_call]
  simp only [h1]
  have hret := retOf_eq (sig := sig) h2
  have hlen := h2.length
  cases args with
  | nil =>
    cases h2
    simp only [callTy, hret]
    exact finishCall_ok (callImpl_ok hf h1 h3 (vs := []) (by simp [ParamsRes]) ctx)
  | cons a0 rest =>
    cases h2 with
    | @cons _ ta _ ps ha has =>
      have hrest0 : ∀ a ∈ rest, a.mapEachCount = 0 := h4
      by_cases hm : a0.mapEachCount > 0
      · simp only [hm, if_true, callTy, hret]
        obtain ⟨r0, hr0, hout⟩ := hA a0 rest rfl ta ha
        simp only [hr0]
        cases r0 with
        | error e => exact ⟨_, rfl, fun v hv => by cases hv⟩
        | ok first =>
          obtain ⟨extra, hex, hpr⟩ := hAs2 ps has hrest0
          have hex : evalAs s c rest = .ok extra := hex
          simp only [hex]
          have hfirst := hout.2 hm first rfl
          obtain ⟨v, hv, hvt⟩ := mappedResult_ok
            (ret := retTy sig ({ isLiteral := isLit a0, ty := ta } :: ps))
            (apply := fun elem => callImpl sig (a0 :: rest).length ctx (.ok elem :: extra)) hfirst
            (by
              intro e he
              have := callImpl_ok hf h1 h3 (vs := .ok e :: extra)
                (by exact ⟨⟨he.2, Or.inl he.1⟩, hpr⟩) ctx
              rw [hlen] at this
              exact this)
          exact ⟨_, hv, fun w hw => by injection hw with hw; subst hw; exact hvt⟩
      · simp only [hm, if_false, callTy, hret]
        have hall0 : ∀ a ∈ a0 :: rest, a.mapEachCount = 0 := by
          intro a ha'
          rcases List.mem_cons.mp ha' with h | h
          · subst h; omega
          · exact hrest0 a h
        obtain ⟨vs, hvs, hpr⟩ := hAs1 _ (.cons ha has) hall0
        simp only [hvs]
        have := callImpl_ok hf h1 h3 hpr ctx
        rw [hlen] at this
        exact finishCall_ok this

end
section
variable {s : Scheme} {c : Ctx}

theorem mapM'_ne_error {α β} {f : α → EM β} {xs : List α} (h : ∀ x ∈ xs, ∃ b, f x = .ok b)
    (e : Stuck) : mapM' f xs ≠ .error e := by
  obtain ⟨bs, hbs⟩ := mapM'_ok h
  rw [hbs]; intro h; cases h

theorem quant_index_eval {q : QOp} {e : IExpr} {v : Val} (hr : evalI s c e = .ok (.ok v))
    (hv : HasTy v (.array .bool)) : ∃ b, evalL s c (.quantifier q (.index e)) = .ok (.one b) := by
  obtain ⟨xs, rfl, hxs⟩ := hv.array_inv
  simp only [evalL, hr]
  split
  · rename_i e' heq
    exact absurd heq (mapM'_ne_error (fun x hx => by
      obtain ⟨b, rfl⟩ := (hxs x hx).bool_inv; exact ⟨b, rfl⟩) _)
  · exact ⟨_, rfl⟩

mutual
theorem evalL_ok (hc : CtxOk s c) (hf : FuncsOk s) : ∀ (e : LExpr) {t : Ty}, WT s e t →
    ∃ r, evalL s c e = .ok r ∧ BVShape r t
  | .comparison lhs op, t, h => by
    cases h with
    | @comparison _ _ t0 _ h1 h2 h3 =>
      subst h3
      exact comparison_ok hc h1 h2 (evalBase_ok hc hf lhs h1)
  | .paren e, t, h => by
    cases h with
    | paren h => simpa only [evalL] using evalL_ok hc hf e h
  | .unaryNot e, t, h => by
    cases h with
    | unaryNot h =>
      obtain ⟨r, hr, hsh⟩ := evalL_ok hc hf e h
      simp only [evalL, hr]
      cases r with
      | one b => exact ⟨_, rfl, hsh⟩
      | vec bs => exact ⟨_, rfl, hsh⟩
  | .quantifier q arg, t, h => by
    cases h with
    | quantifier hq =>
      cases hq with
      | @index e hi hm0 =>
        obtain ⟨r, hr, hv⟩ := evalI_of_base hi (evalBase_ok hc hf e hi)
        cases r with
        | error ty => exact ⟨.one false, by simp only [evalL, hr], rfl⟩
        | ok v =>
          simp only [ValRes, hm0, if_true] at hv
          obtain ⟨b, hb⟩ := quant_index_eval (q := q) hr hv
          exact ⟨_, hb, rfl⟩
      | @logical e hl =>
        obtain ⟨r, hr, hsh⟩ := evalL_ok hc hf e hl
        simp only [evalL, hr]
        cases r with
        | one b => simp [BVShape] at hsh
        | vec bs => exact ⟨_, rfl, rfl⟩
  | .combining op items, t, h => by
    cases h with
    | @combining _ first rest _ h1 h2 h3 =>
      obtain ⟨r, hr, hsh⟩ := evalL_ok hc hf first h1
      simp only [evalL, hr]
      rcases h2 with h2 | h2
      · subst h2
        cases r with
        | one b =>
          obtain ⟨b', hb'⟩ := evalOnes_ok hc hf rest h3 op b
          exact ⟨_, hb', rfl⟩
        | vec bs => simp [BVShape] at hsh
      · subst h2
        cases r with
        | one b => simp [BVShape] at hsh
        | vec bs =>
          obtain ⟨bs', hb'⟩ := evalVecs_ok hc hf rest h3 op bs
          exact ⟨_, hb', by simp [BVShape]⟩
termination_by e => sizeOf e
theorem evalOnes_ok (hc : CtxOk s c) (hf : FuncsOk s) : ∀ (items : List LExpr),
    WTItems s .bool items → ∀ (op : LogicalOp) (acc : Bool),
    ∃ b, evalOnes s c op acc items = .ok (.one b)
  | [], _, op, acc => ⟨acc, by unfold evalOnes; rfl⟩
  | e :: rest, h, op, acc => by
    cases h with
    | cons h1 h2 =>
      obtain ⟨r, hr, hsh⟩ := evalL_ok hc hf e h1
      cases r with
      | vec bs => simp [BVShape] at hsh
      | one b =>
        simp only [evalOnes, hr]
        exact evalOnes_ok hc hf rest h2 op _
termination_by items => sizeOf items
theorem evalVecs_ok (hc : CtxOk s c) (hf : FuncsOk s) : ∀ (items : List LExpr),
    WTItems s (.array .bool) items → ∀ (op : LogicalOp) (acc : List Bool),
    ∃ bs, evalVecs s c op acc items = .ok (.vec bs)
  | [], _, op, acc => ⟨acc, by unfold evalVecs; rfl⟩
  | e :: rest, h, op, acc => by
    cases h with
    | cons h1 h2 =>
      obtain ⟨r, hr, hsh⟩ := evalL_ok hc hf e h1
      cases r with
      | one b => simp [BVShape] at hsh
      | vec bs =>
        unfold evalVecs
        simp only [hr]
        exact evalVecs_ok hc hf rest h2 op _
termination_by items => sizeOf items
theorem evalBase_ok (hc : CtxOk s c) (hf : FuncsOk s) : ∀ (e : IExpr) {t : Ty}, WTI s e t →
    BaseOk s c e t
  | .field f ixs, t, h => by
    cases h with
    | field h1 h2 => exact field_base_ok hc h1 h2
  | .call fn args ctx ixs, t, h => by
    cases h with
    | @call _ name sig _ params _ _ _ h1 h2 h3 h4 h5 =>
      cases args with
      | nil =>
        refine call_base_ok hf h1 h2 h3 h4 h5 ?_ ?_ ?_
        · intro a0 rest h; cases h
        · intro ps hw hm; exact evalAs_ok hc hf [] hw hm
        · intro ps hw hm; exact evalAs_ok hc hf [] hw hm
      | cons a0 rest =>
        refine call_base_ok hf h1 h2 h3 h4 h5 ?_ ?_ ?_
        · intro a0' rest' h ta hta
          injection h with h h'; subst h; subst h'
          exact evalA_ok hc hf a0 hta
        · intro ps hw hm; exact evalAs_ok hc hf (a0 :: rest) hw hm
        · intro ps hw hm; exact evalAs_ok hc hf rest hw hm
termination_by e => sizeOf e
theorem evalA_ok (hc : CtxOk s c) (hf : FuncsOk s) : ∀ (a : AExpr) {t : Ty}, WTA s a t →
    ∃ r, evalA s c a = .ok r ∧ ArgOut r a t
  | .index e, t, h => by
    cases h with
    | index hi =>
      obtain ⟨r, hr, hv⟩ := evalI_of_base hi (evalBase_ok hc hf e hi)
      exact ⟨r, by simp only [evalA, hr], hv.toArgOut⟩
  | .literal v, t, h => by
    cases h
    refine ⟨.ok v.toVal, by simp only [evalA], ?_, ?_⟩
    · intro _; exact ⟨(RhsVal.toVal_typed v).2, Or.inl (RhsVal.toVal_typed v).1⟩
    · intro hm; simp [AExpr.mapEachCount] at hm
  | .logical e, t, h => by
    cases h with
    | logical hl =>
      obtain ⟨r, hr, hsh⟩ := evalL_ok hc hf e hl
      simp only [evalA, hr]
      cases r with
      | one b =>
        simp only [BVShape] at hsh; subst hsh
        refine ⟨_, rfl, ?_, ?_⟩
        · intro _; exact ⟨rfl, Or.inl rfl⟩
        · intro hm; simp [AExpr.mapEachCount] at hm
      | vec bs =>
        simp only [BVShape] at hsh
        refine ⟨_, rfl, ?_, ?_⟩
        · intro _
          refine ⟨(bools_typed bs).2, ?_⟩
          rcases WT.ty_shape e hl with h | h | h
          · exact absurd h hsh
          · exact Or.inl h.symm
          · exact Or.inr ⟨h, rfl⟩
        · intro hm; simp [AExpr.mapEachCount] at hm
termination_by a => sizeOf a
theorem evalAs_ok (hc : CtxOk s c) (hf : FuncsOk s) : ∀ (as : List AExpr) {ps : List ParamInfo},
    WTArgs s as ps → (∀ a ∈ as, a.mapEachCount = 0) →
    ∃ vs, evalAs s c as = .ok vs ∧ ParamsRes ps vs
  | [], ps, h, _ => by cases h; exact ⟨[], by simp only [evalAs], trivial⟩
  | a :: as, ps, h, hm => by
    cases h with
    | cons ha has =>
      obtain ⟨r, hr, hout⟩ := evalA_ok hc hf a ha
      obtain ⟨vs, hvs, hpr⟩ := evalAs_ok hc hf as has (fun b hb => hm b (List.mem_cons_of_mem _ hb))
      exact ⟨r :: vs, by simp only [evalAs, hr, hvs], hout.1 (hm a (List.mem_cons_self ..)), hpr⟩
termination_by as => sizeOf as
end

end
theorem evalL_sound {s : Scheme} {c : Ctx} (hc : CtxOk s c) (hf : FuncsOk s) {e : LExpr} {t : Ty}
    (h : WT s e t) :
    ∃ r, evalL s c e = .ok r ∧ (t = .bool → ∃ b, r = .one b) ∧ (t ≠ .bool → ∃ bs, r = .vec bs) := by
  obtain ⟨r, hr, hsh⟩ := evalL_ok hc hf e h
  refine ⟨r, hr, ?_, ?_⟩
  · intro ht
    cases r with
    | one b => exact ⟨b, rfl⟩
    | vec bs => exact absurd ht hsh
  · intro ht
    cases r with
    | one b => exact absurd hsh ht
    | vec bs => exact ⟨bs, rfl⟩

theorem execFilter_sound {s : Scheme} {c : Ctx} (hc : CtxOk s c) (hf : FuncsOk s) {e : LExpr}
    (h : WT s e .bool) : ∃ b, execFilter s c e = .ok b := by
  obtain ⟨r, hr, h1, _⟩ := evalL_sound hc hf h
  obtain ⟨b, rfl⟩ := h1 rfl
  exact ⟨b, by simp only [execFilter, hr]⟩

theorem evalI_sound {s : Scheme} {c : Ctx} (hc : CtxOk s c) (hf : FuncsOk s) {e : IExpr} {t : Ty}
    (h : WTI s e t) : ∃ r, evalI s c e = .ok r ∧ ValRes r (mapEachCount e.indexes) t :=
  evalI_of_base h (evalBase_ok hc hf e h)

end WfModel
