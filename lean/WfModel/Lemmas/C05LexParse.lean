import WfModel.Lemmas.C05Lex
/-!
C05 span lemmas, parser pieces: the loops and non-recursive-in-budget parts of
`Model/Parse.lean`.
-/
namespace WfModel

/-! ## Parse.lean -/

theorem identRest_resOk (f : Nat) (input : Input) : ResOk input (identRest f input) := by
  induction f generalizing input with
  | zero => unfold identRest; exact errAt_ok _ (List.suffix_refl _)
  | succ f ih =>
    unfold identRest
    have h1 := takeWhile1_resOk isIdentChar input
    split
    · next e h => rw [h] at h1; exact h1
    · next a rest h =>
      rw [h] at h1
      have h1 : rest <:+ input := h1
      split
      · next r2 he => exact (ih r2).mono ((expect_suffix he).trans h1)
      · exact h1

theorem lexIdentifier_resOk (s : Scheme) (input : Input) : ResOk input (lexIdentifier s input) := by
  unfold lexIdentifier
  have h1 := identRest_resOk (input.length + 1) input
  split
  · next e h => rw [h] at h1; exact h1
  · next u rest h =>
    rw [h] at h1
    dsimp only
    split
    · exact h1
    · exact errSpan_ok _ (List.suffix_refl _)

theorem lexCombiningOp_suffix (i : Input) : (lexCombiningOp i).2 <:+ i := by
  unfold lexCombiningOp
  split
  · next op r h =>
    exact (skipSpace_suffix r).trans ((lexEnum_suffix h).trans (skipSpace_suffix i))
  · exact List.suffix_refl _

theorem lexIndexes_resOk (f : Nat) (input : Input) (ty : Ty) (acc : List FieldIndex) :
    ResOk input (lexIndexes f input ty acc) := by
  induction f generalizing input ty acc with
  | zero => unfold lexIndexes; exact errAt_ok _ (List.suffix_refl _)
  | succ f ih =>
    unfold lexIndexes
    split
    · exact List.suffix_refl _
    · next r he =>
      have hr : skipSpace r <:+ input := (skipSpace_suffix r).trans (expect_suffix he)
      have h1 := (lexFieldIndex_resOk (skipSpace r)).mono hr
      split
      · next e h => rw [h] at h1; exact h1
      · next ix r2 h =>
        rw [h] at h1
        have h2 : skipSpace r2 <:+ input := (skipSpace_suffix r2).trans h1
        split
        · exact errAt_ok _ h2
        · next r3 he3 =>
          split
          · exact (ih r3 _ _).mono ((expect_suffix he3).trans h2)
          · exact errSpan_ok _ (List.suffix_refl _)

theorem cmpScan_suffix {i : Input} {cls : Bool} {acc p : List Char} {rest : Input}
    (h : cmpWithLhs.scan i cls acc = some (p, rest)) : rest <:+ i := by
  fun_induction cmpWithLhs.scan i cls acc with
  | case1 => cases h
  | case2 c rest' cls acc hc ih =>
    exact (ih h).trans ((List.suffix_cons _ _).trans (List.suffix_cons _ _))
  | case3 c rest' cls acc hc ih =>
    exact (ih h).trans ((List.suffix_cons _ _).trans (List.suffix_cons _ _))
  | case4 => cases h
  | case5 c rest' cls acc _ _ hc =>
    simp only [Option.some.injEq, Prod.mk.injEq] at h
    rw [← h.2]; exact List.suffix_cons _ _
  | case6 c rest' cls acc _ _ _ _ ih => exact (ih h).trans (List.suffix_cons _ _)
  | case7 c rest' cls acc _ _ _ _ _ ih => exact (ih h).trans (List.suffix_cons _ _)
  | case8 c rest' cls acc _ _ _ _ _ ih => exact (ih h).trans (List.suffix_cons _ _)

theorem cmpWithLhs_resOk (env : PEnv) (lhs : IExpr) (lhsTy : Ty) (input : Input) :
    ResOk input (cmpWithLhs env lhs lhsTy input) := by
  unfold cmpWithLhs
  dsimp only
  have hinit : skipSpace input <:+ input := skipSpace_suffix input
  split
  · exact List.suffix_refl _
  · split
    · split
      · exact ⟨List.suffix_refl _, Nat.zero_le _⟩
      · exact List.suffix_refl _
    · split
      · exact errAt_ok _ hinit
      · next op afterOp hop =>
        have hafter : afterOp <:+ input := (lexEnum_suffix hop).trans hinit
        have hinp : skipSpace afterOp <:+ input := (skipSpace_suffix afterOp).trans hafter
        have hunsup : ResOk input (errSpan .unsupportedOp (skipSpace input) afterOp : LexRes (Typed LExpr)) :=
          errSpan_ok _ hinit
        generalize hI : skipSpace afterOp = inp at hinp
        split
        · -- in
          split
          · split
            · have h1 := (lexListName_resOk inp).mono hinp
              split
              · next e h => rw [h] at h1; exact h1
              · next name rest h =>
                rw [h] at h1
                split
                · exact h1
                · exact errSpan_ok _ hinit
            · split
              · next vs rest h => exact ((lexRhsVals_resOk h).mono hinp)
              · next e h => exact ((lexRhsVals_resOk h).mono hinp)
              · exact hunsup
          · exact hunsup
        · -- ord
          split
          · split
            · next v rest h => exact ((lexRhsVal_resOk h).mono hinp)
            · next e h => exact ((lexRhsVal_resOk h).mono hinp)
            · exact hunsup
          · exact hunsup
        · -- bitAnd
          split
          · have h1 := (lexInt_resOk inp).mono hinp
            split
            · next v rest h => rw [h] at h1; exact h1
            · next e h => rw [h] at h1; exact h1
          · exact hunsup
        · -- contains
          split
          · have h1 := (lexBytes_resOk inp).mono hinp
            split
            · next v rest h => rw [h] at h1; exact h1
            · next e h => rw [h] at h1; exact h1
          · exact hunsup
        · -- matches
          split
          · split
            · next r =>
              have hr : r <:+ input := (List.suffix_cons _ _).trans hinp
              split
              · exact errAt_ok _ hr
              · next pat rest h =>
                have hrest : rest <:+ input := (cmpScan_suffix h).trans hr
                split
                · exact hrest
                · exact errSpan_ok _ hr
                · exact errAt_ok _ hr
            · next r =>
              have hr : r <:+ input := (List.suffix_cons _ _).trans hinp
              have h1 := (lexRawStr_resOk r).mono hr
              split
              · next e h => rw [h] at h1; exact h1
              · next pat k rest h =>
                rw [h] at h1
                split
                · exact h1
                · exact errAt_ok _ h1
                · exact errAt_ok _ hr
            · exact errAt_ok _ hinp
            · exact errAt_ok _ hinp
          · exact hunsup
        · -- wildcard
          split
          · have h1 := (lexQuotedOrRaw_resOk inp).mono hinp
            split
            · next e h => rw [h] at h1; exact h1
            · next b rest h =>
              rw [h] at h1
              split
              · exact h1
              · exact errAt_ok _ hinp
          · exact hunsup
        · -- strict wildcard
          split
          · have h1 := (lexQuotedOrRaw_resOk inp).mono hinp
            split
            · next e h => rw [h] at h1; exact h1
            · next b rest h =>
              rw [h] at h1
              split
              · exact h1
              · exact errAt_ok _ hinp
          · exact hunsup

theorem lexQuantCall_suffix {i r : Input} {op : QOp} (h : lexQuantCall i = some (op, r)) :
    r <:+ i := by
  unfold lexQuantCall at h
  split at h
  · next op' rest he =>
    split at h
    · simp only [Option.some.injEq, Prod.mk.injEq] at h
      rw [← h.2]; exact lexEnum_suffix he
    · cases h
  · cases h

theorem argLit_resOk {ty : Ty} {i : Input} {r : LexRes (Typed AExpr)}
    (h : argLit ty i = some r) : ResOk i r := by
  unfold argLit at h
  cases h' : lexRhsVal ty i with
  | none => rw [h'] at h; cases h
  | some r' =>
    rw [h'] at h
    simp only [Option.map, Option.some.injEq] at h
    subst h
    exact (lexRhsVal_resOk h').map _ (fun ⟨_, _⟩ => rfl)

theorem argAfterIndex_resOk (env : PEnv) (lhs : Typed IExpr) (rest : Input) :
    ResOk rest (argAfterIndex env lhs rest) := by
  unfold argAfterIndex
  split
  · have h1 := cmpWithLhs_resOk env lhs.node lhs.ty rest
    split
    · next e h => rw [h] at h1; exact h1
    · next c r h => rw [h] at h1; exact h1
  · exact List.suffix_refl _

/-! ## strict progress and fuel adequacy -/

theorem identRest_lt {f : Nat} {i rest : Input} {u : Unit} (h : identRest f i = .ok (u, rest)) :
    rest.length < i.length := by
  induction f generalizing i with
  | zero => unfold identRest at h; cases h
  | succ f ih =>
    unfold identRest at h
    split at h
    · cases h
    · next a rest' ht =>
      have hl := takeWhile1_lt ht
      split at h
      · next r2 he =>
        have := (expect_suffix he).length_le
        have := ih h
        omega
      · simp only [Except.ok.injEq, Prod.mk.injEq] at h
        rw [← h.2]; exact hl

theorem lexIdentifier_lt {s : Scheme} {i rest : Input} {id : Ident}
    (h : lexIdentifier s i = .ok (id, rest)) : rest.length < i.length := by
  unfold lexIdentifier at h
  split at h
  · cases h
  · next u rest' hr =>
    have hl := identRest_lt hr
    dsimp only at h
    split at h
    · simp only [Except.ok.injEq, Prod.mk.injEq] at h
      rw [← h.2]; exact hl
    · cases h

theorem lexQuantCall_lt {i r : Input} {op : QOp} (h : lexQuantCall i = some (op, r)) :
    r.length < i.length := by
  unfold lexQuantCall at h
  split at h
  · next op' rest he =>
    split at h
    · simp only [Option.some.injEq, Prod.mk.injEq] at h
      rw [← h.2]
      exact lexEnum_lt (by decide) he
    · cases h
  · cases h

theorem identRest_noFuel (f : Nat) (input : Input) (hf : input.length + 1 ≤ f) :
    NoFuel (identRest f input) := by
  induction f generalizing input with
  | zero => omega
  | succ f ih =>
    unfold identRest
    have h1 := takeWhile1_noFuel isIdentChar input
    split
    · next e h => rw [h] at h1; exact h1
    · next a rest h =>
      have hl := takeWhile1_lt h
      split
      · next r2 he =>
        have := (expect_suffix he).length_le
        exact ih _ (by omega)
      · trivial

theorem identRest_fuel {input : Input} {f : Nat} {e : LexErr}
    (hf : f ≥ input.length + 1) (h : identRest f input = .error e) : e.kind ≠ .outOfFuel :=
  (identRest_noFuel f input hf).of_error h

theorem lexIdentifier_noFuel (s : Scheme) (input : Input) : NoFuel (lexIdentifier s input) := by
  unfold lexIdentifier
  have h1 := identRest_noFuel (input.length + 1) input (Nat.le_refl _)
  split
  · next e h => rw [h] at h1; exact h1
  · dsimp only
    split
    · trivial
    · exact noFuel_errSpan _ _ (by decide)

theorem lexIndexes_noFuel (f : Nat) (input : Input) (ty : Ty) (acc : List FieldIndex)
    (hf : input.length + 1 ≤ f) : NoFuel (lexIndexes f input ty acc) := by
  induction f generalizing input ty acc with
  | zero => omega
  | succ f ih =>
    unfold lexIndexes
    split
    · trivial
    · next r he =>
      have hl0 := expect_length he
      have hlb : "[".toList.length = 1 := by decide
      have hl1 := (skipSpace_suffix r).length_le
      have h1 := lexFieldIndex_noFuel (skipSpace r)
      split
      · next e h => rw [h] at h1; exact h1
      · next ix r2 h =>
        have hl2 := ((lexFieldIndex_resOk _).of_ok h).length_le
        have hl3 := (skipSpace_suffix r2).length_le
        split
        · exact noFuel_errAt _ (by decide)
        · next r3 he3 =>
          have hl4 := (expect_suffix he3).length_le
          split
          · exact ih _ _ _ (by omega)
          · exact noFuel_errSpan _ _ (by decide)

theorem lexIndexes_fuel {input : Input} {f : Nat} {ty : Ty} {acc : List FieldIndex} {e : LexErr}
    (hf : f ≥ input.length + 1) (h : lexIndexes f input ty acc = .error e) :
    e.kind ≠ .outOfFuel := (lexIndexes_noFuel f input ty acc hf).of_error h

theorem cmpWithLhs_noFuel (env : PEnv) (lhs : IExpr) (lhsTy : Ty) (input : Input) :
    NoFuel (cmpWithLhs env lhs lhsTy input) := by
  unfold cmpWithLhs
  dsimp only
  split
  · trivial
  · split
    · split
      · exact (show ErrKind.unsupportedOp ≠ ErrKind.outOfFuel by decide)
      · trivial
    · split
      · exact noFuel_errAt _ (by decide)
      · next op afterOp hop =>
        have hunsup : NoFuel (errSpan .unsupportedOp (skipSpace input) afterOp : LexRes (Typed LExpr)) :=
          noFuel_errSpan _ _ (by decide)
        generalize skipSpace afterOp = inp
        split
        · -- in
          split
          · split
            · have h1 := lexListName_noFuel inp
              split
              · next e h => rw [h] at h1; exact h1
              · split
                · trivial
                · exact noFuel_errSpan _ _ (by decide)
            · split
              · trivial
              · next e h => exact lexRhsVals_noFuel h
              · exact hunsup
          · exact hunsup
        · -- ord
          split
          · split
            · trivial
            · next e h => exact lexRhsVal_noFuel h
            · exact hunsup
          · exact hunsup
        · -- bitAnd
          split
          · have h1 := lexInt_noFuel inp
            split
            · trivial
            · next e h => rw [h] at h1; exact h1
          · exact hunsup
        · -- contains
          split
          · have h1 := lexBytes_noFuel inp
            split
            · trivial
            · next e h => rw [h] at h1; exact h1
          · exact hunsup
        · -- matches
          split
          · split
            · split
              · exact noFuel_errAt _ (by decide)
              · split
                · trivial
                · exact noFuel_errSpan _ _ (by decide)
                · exact noFuel_errAt _ (by decide)
            · next r =>
              have h1 := lexRawStr_noFuel r
              split
              · next e h => rw [h] at h1; exact h1
              · split
                · trivial
                · exact noFuel_errAt _ (by decide)
                · exact noFuel_errAt _ (by decide)
            · exact noFuel_errAt _ (by decide)
            · exact noFuel_errAt _ (by decide)
          · exact hunsup
        · -- wildcard
          split
          · have h1 := lexQuotedOrRaw_noFuel inp
            split
            · next e h => rw [h] at h1; exact h1
            · split
              · trivial
              · exact noFuel_errAt _ (by decide)
          · exact hunsup
        · -- strict wildcard
          split
          · have h1 := lexQuotedOrRaw_noFuel inp
            split
            · next e h => rw [h] at h1; exact h1
            · split
              · trivial
              · exact noFuel_errAt _ (by decide)
          · exact hunsup

theorem argLit_noFuel {ty : Ty} {i : Input} {r : LexRes (Typed AExpr)}
    (h : argLit ty i = some r) : NoFuel r := by
  unfold argLit at h
  cases h' : lexRhsVal ty i with
  | none => rw [h'] at h; cases h
  | some r' =>
    rw [h'] at h
    simp only [Option.map, Option.some.injEq] at h
    subst h
    exact (lexRhsVal_noFuel h').map _

theorem argAfterIndex_noFuel (env : PEnv) (lhs : Typed IExpr) (rest : Input) :
    NoFuel (argAfterIndex env lhs rest) := by
  unfold argAfterIndex
  split
  · have h1 := cmpWithLhs_noFuel env lhs.node lhs.ty rest
    split
    · next e h => rw [h] at h1; exact h1
    · trivial
  · trivial

end WfModel
