import WfModel.Model.Parse

/-!
# C07 helper lemmas — `lex_enum!` tables, `skip_space`, `lexCombiningOp`

Generic facts about `stripPrefix` / `lexEnum` (first spelling in table order that is a
prefix of the input) and the layout lemmas for `skipSpace`.
-/
namespace WfModel.C07L

open WfModel

/-! ### `stripPrefix` / `expect` -/

theorem stripPrefix_append (p r : List Char) : stripPrefix (p ++ r) p = some r := by
  induction p with
  | nil => cases r <;> simp [stripPrefix]
  | cons c p ih => simp [stripPrefix, ih]

theorem stripPrefix_eq_some {input p r : List Char} :
    stripPrefix input p = some r ↔ input = p ++ r := by
  constructor
  · intro h
    induction p generalizing input with
    | nil => cases input <;> simp_all [stripPrefix]
    | cons c p ih =>
      cases input with
      | nil => simp [stripPrefix] at h
      | cons d ds =>
        simp only [stripPrefix] at h
        split at h
        · next hd => subst hd; simp [ih h]
        · simp at h
  · rintro rfl; exact stripPrefix_append p r

theorem stripPrefix_eq_none {input p : List Char} :
    stripPrefix input p = none ↔ ¬ p <+: input := by
  constructor
  · rintro h ⟨t, rfl⟩
    rw [stripPrefix_append] at h; simp at h
  · intro h
    cases hs : stripPrefix input p with
    | none => rfl
    | some r => exact absurd ⟨r, (stripPrefix_eq_some.mp hs).symm⟩ h

theorem expect_append (s : String) (r : List Char) : expect (s.toList ++ r) s = some r :=
  stripPrefix_append _ _

theorem expect_eq_some {input : Input} {s : String} {r : Input} :
    expect input s = some r ↔ input = s.toList ++ r := stripPrefix_eq_some

theorem expect_eq_none {input : Input} {s : String} :
    expect input s = none ↔ ¬ s.toList <+: input := stripPrefix_eq_none

/-! ### `lexEnum` -/

/-- nothing in the table is a prefix of the input ⇔ the generated lexer fails -/
theorem lexEnum_eq_none {α} (tbl : List (String × α)) (input : Input) :
    lexEnum tbl input = none ↔ ∀ e ∈ tbl, ¬ e.1.toList <+: input := by
  induction tbl with
  | nil => simp [lexEnum]
  | cons e tbl ih =>
    obtain ⟨s, a⟩ := e
    simp only [lexEnum, List.mem_cons, forall_eq_or_imp]
    cases h : expect input s with
    | some r =>
      simp only [reduceCtorEq, false_iff, not_and]
      intro h1; exact absurd ⟨r, (expect_eq_some.mp h).symm⟩ h1
    | none => simp only [ih]; exact ⟨fun h2 => ⟨expect_eq_none.mp h, h2⟩, fun h2 => h2.2⟩

/-- Exact characterisation of the generated lexer: it returns `(v, rest)` iff the table
splits as `pre ++ (sp, v) :: post` with `input = sp ++ rest` and no spelling of `pre` being
a prefix of the input. -/
theorem lexEnum_eq_some {α} (tbl : List (String × α)) (input : Input) (v : α) (rest : Input) :
    lexEnum tbl input = some (v, rest) ↔
      ∃ pre sp post, tbl = pre ++ (sp, v) :: post ∧ input = sp.toList ++ rest ∧
        ∀ e ∈ pre, ¬ e.1.toList <+: input := by
  induction tbl with
  | nil => simp [lexEnum]
  | cons e tbl ih =>
    obtain ⟨s, a⟩ := e
    simp only [lexEnum]
    cases h : expect input s with
    | some r =>
      have hin := expect_eq_some.mp h
      constructor
      · intro heq
        simp only [Option.some.injEq, Prod.mk.injEq] at heq
        obtain ⟨rfl, rfl⟩ := heq
        exact ⟨[], s, tbl, rfl, hin, by simp⟩
      · rintro ⟨pre, sp, post, htbl, hinp, hpre⟩
        cases pre with
        | nil =>
          simp only [List.nil_append, List.cons.injEq, Prod.mk.injEq] at htbl
          obtain ⟨⟨rfl, rfl⟩, rfl⟩ := htbl
          have : s.toList ++ r = s.toList ++ rest := by rw [← hin, ← hinp]
          simp [List.append_cancel_left this]
        | cons e' pre =>
          simp only [List.cons_append, List.cons.injEq] at htbl
          obtain ⟨rfl, _⟩ := htbl
          exact absurd ⟨r, hin.symm⟩ (hpre (s, a) (by simp))
    | none =>
      have hnp := expect_eq_none.mp h
      simp only [ih]
      constructor
      · rintro ⟨pre, sp, post, rfl, hinp, hpre⟩
        refine ⟨(s, a) :: pre, sp, post, rfl, hinp, ?_⟩
        intro e he
        rcases List.mem_cons.mp he with rfl | he
        · exact hnp
        · exact hpre e he
      · rintro ⟨pre, sp, post, htbl, hinp, hpre⟩
        cases pre with
        | nil =>
          simp only [List.nil_append, List.cons.injEq, Prod.mk.injEq] at htbl
          obtain ⟨⟨rfl, rfl⟩, rfl⟩ := htbl
          exact absurd ⟨rest, hinp.symm⟩ hnp
        | cons e' pre =>
          simp only [List.cons_append, List.cons.injEq] at htbl
          obtain ⟨rfl, rfl⟩ := htbl
          exact ⟨pre, sp, post, rfl, hinp, fun e he => hpre e (by simp [he])⟩

/-- soundness for any table: whatever is returned is a table entry whose spelling was
consumed, and exactly that spelling -/
theorem lexEnum_sound {α} {tbl : List (String × α)} {input : Input} {v : α} {rest : Input}
    (h : lexEnum tbl input = some (v, rest)) :
    ∃ sp, (sp, v) ∈ tbl ∧ input = sp.toList ++ rest := by
  obtain ⟨pre, sp, post, rfl, hin, _⟩ := (lexEnum_eq_some tbl input v rest).mp h
  exact ⟨sp, by simp, hin⟩

/-- completeness for any table: an entry lexes to its own variant with exactly `rest` left,
unless an EARLIER entry's spelling is a prefix of the input -/
theorem lexEnum_complete {α} (pre : List (String × α)) (sp : String) (v : α)
    (post : List (String × α)) (rest : Input)
    (h : ∀ e ∈ pre, ¬ e.1.toList <+: sp.toList ++ rest) :
    lexEnum (pre ++ (sp, v) :: post) (sp.toList ++ rest) = some (v, rest) :=
  (lexEnum_eq_some _ _ _ _).mpr ⟨pre, sp, post, rfl, rfl, h⟩

/-! ### `skipSpace` -/

theorem skipSpace_append_spaces (ws s : Input) (h : ∀ c ∈ ws, isSpace c = true) :
    skipSpace (ws ++ s) = skipSpace s := by
  induction ws with
  | nil => rfl
  | cons c ws ih =>
    have hc : isSpace c = true := h c (by simp)
    simp only [List.cons_append, skipSpace, hc, if_true]
    exact ih fun d hd => h d (by simp [hd])

/-- the result of `skipSpace` never starts with a space -/
theorem skipSpace_head (s : Input) : ∀ c, (skipSpace s).head? = some c → isSpace c = false := by
  induction s with
  | nil => simp [skipSpace]
  | cons d s ih =>
    simp only [skipSpace]
    split
    · exact ih
    · next hd => intro c hc; simp at hc; subst hc; simpa using hd

theorem skipSpace_of_head (s : Input) (h : ∀ c, s.head? = some c → isSpace c = false) :
    skipSpace s = s := by
  cases s with
  | nil => rfl
  | cons d s => simp [skipSpace, h d rfl]

theorem skipSpace_idem (s : Input) : skipSpace (skipSpace s) = skipSpace s :=
  skipSpace_of_head _ (skipSpace_head s)

/-- `skipSpace` returns a suffix and only drops space characters -/
theorem skipSpace_spec (s : Input) :
    ∃ ws, s = ws ++ skipSpace s ∧ ∀ c ∈ ws, isSpace c = true := by
  induction s with
  | nil => exact ⟨[], rfl, by simp⟩
  | cons d s ih =>
    simp only [skipSpace]
    split
    · next hd =>
      obtain ⟨ws, h1, h2⟩ := ih
      refine ⟨d :: ws, by simp [← h1], ?_⟩
      intro c hc
      rcases List.mem_cons.mp hc with rfl | hc
      · exact hd
      · exact h2 c hc
    · exact ⟨[], rfl, by simp⟩

/-! ### the concrete tables -/

theorem logicalOps_complete : ∀ e ∈ logicalOps, ∀ rest : Input,
    lexEnum logicalOps (e.1.toList ++ rest) = some (e.2, rest) := by
  simp [logicalOps, lexEnum, expect, stripPrefix]

theorem unaryOps_complete : ∀ e ∈ unaryOps, ∀ rest : Input,
    lexEnum unaryOps (e.1.toList ++ rest) = some (e.2, rest) := by
  simp [unaryOps, lexEnum, expect, stripPrefix]

theorem quantOps_complete : ∀ e ∈ quantOps, ∀ rest : Input,
    lexEnum quantOps (e.1.toList ++ rest) = some (e.2, rest) := by
  simp [quantOps, lexEnum, expect, stripPrefix]

/-- no spelling of `logicalOps` starts with a space character -/
theorem logicalOps_head_not_space : ∀ e ∈ logicalOps, ∀ t : Input,
    ∀ c, (e.1.toList ++ t).head? = some c → isSpace c = false := by
  simp [logicalOps, isSpace]

/-- In `orderingOps` the only order hazard is `>` / `<` followed by `=` (the earlier entries
`>=` / `<=` then win). -/
theorem orderingOps_complete : ∀ e ∈ orderingOps, ∀ rest : Input,
    ((e.1 = ">" ∨ e.1 = "<") → rest.head? ≠ some '=') →
    lexEnum orderingOps (e.1.toList ++ rest) = some (e.2, rest) := by
  simp only [orderingOps, List.mem_cons, List.not_mem_nil, or_false, forall_eq_or_imp, forall_eq]
  refine ⟨?_, ?_, ?_, ?_, ?_, ?_, ?_, ?_, ?_, ?_, ?_, ?_⟩ <;> intro rest <;>
    first
    | (intro _; simp [lexEnum, expect, stripPrefix]; done)
    | (intro h; cases rest with
        | nil => simp [lexEnum, expect, stripPrefix]
        | cons c r => simp at h; simp [lexEnum, expect, stripPrefix, h])

/-- the flat list `ComparisonOp::lex` walks through -/
theorem comparisonOps_eq : comparisonOps =
    [("in", .in_), ("eq", .ord .eq), ("==", .ord .eq), ("ne", .ord .ne), ("!=", .ord .ne),
     ("ge", .ord .ge), (">=", .ord .ge), ("le", .ord .le), ("<=", .ord .le), ("gt", .ord .gt),
     (">", .ord .gt), ("lt", .ord .lt), ("<", .ord .lt), ("&", .bitAnd),
     ("bitwise_and", .bitAnd), ("contains", .contains), ("~", .matches_),
     ("matches", .matches_), ("wildcard", .wildcard), ("strict wildcard", .strictWildcard)] := rfl

theorem comparisonOps_complete : ∀ e ∈ comparisonOps, ∀ rest : Input,
    ((e.1 = ">" ∨ e.1 = "<") → rest.head? ≠ some '=') →
    lexEnum comparisonOps (e.1.toList ++ rest) = some (e.2, rest) := by
  simp only [comparisonOps_eq, List.mem_cons, List.not_mem_nil, or_false, forall_eq_or_imp,
    forall_eq]
  refine ⟨?_, ?_, ?_, ?_, ?_, ?_, ?_, ?_, ?_, ?_, ?_, ?_, ?_, ?_, ?_, ?_, ?_, ?_, ?_, ?_⟩ <;>
    intro rest <;>
    first
    | (intro _; simp [lexEnum, expect, stripPrefix]; done)
    | (intro h; cases rest with
        | nil => simp [lexEnum, expect, stripPrefix]
        | cons c r => simp at h; simp [lexEnum, expect, stripPrefix, h])

/-! ### `lexCombiningOp` -/

/-- A combining operator surrounded by any amount of layout: the lookahead returns the
variant and the input after the layout, whatever the spelling and the spaces were. -/
theorem lexCombiningOp_layout (sp : String) (op : LogicalOp) (hmem : (sp, op) ∈ logicalOps)
    (ws₁ ws₂ s : Input) (h₁ : ∀ c ∈ ws₁, isSpace c = true) (h₂ : ∀ c ∈ ws₂, isSpace c = true)
    (hs : ∀ c, s.head? = some c → isSpace c = false) :
    lexCombiningOp (ws₁ ++ sp.toList ++ ws₂ ++ s) = (some op, s) := by
  have e1 : ws₁ ++ sp.toList ++ ws₂ ++ s = ws₁ ++ (sp.toList ++ (ws₂ ++ s)) := by
    simp [List.append_assoc]
  unfold lexCombiningOp
  rw [e1, skipSpace_append_spaces _ _ h₁,
    skipSpace_of_head _ (logicalOps_head_not_space _ hmem _),
    logicalOps_complete _ hmem]
  simp only [skipSpace_append_spaces _ _ h₂, skipSpace_of_head _ hs]

end WfModel.C07L
