import WfModel.Lemmas.C07.Json

/-!
# C07 helper — the JSON document of an AST is injective modulo `norm`

`lexprJ_norm` : `norm` is invisible in the JSON;  `injL` (with `injList`, `injI`, `injA`,
`injAs`, `injQ`) : equal JSON ⇒ equal `norm`, by mutual structural recursion on the first
tree (the second tree is stripped of its outermost parentheses with `peel_elim` at every
logical-expression level).
-/
namespace WfModel.C07L

open WfModel WfModel.C07

mutual
theorem lexprJ_norm (s : Scheme) : ∀ e : LExpr, lexprJ s (norm e) = lexprJ s e
  | .combining op xs => by simp only [norm, lexprJ, lexprsJ_norm s xs]
  | .comparison lhs op => by simp only [norm, lexprJ, iexprJ_norm s lhs, cmpOpFields_norm]
  | .paren e => by simp only [norm, lexprJ, lexprJ_norm s e]
  | .unaryNot e => by simp only [norm, lexprJ, lexprJ_norm s e]
  | .quantifier q a => by simp only [norm, lexprJ, qargJ_norm s a]
theorem lexprsJ_norm (s : Scheme) : ∀ es : List LExpr, lexprsJ s (normList es) = lexprsJ s es
  | [] => by simp only [normList, lexprsJ]
  | e :: es => by simp only [normList, lexprsJ, lexprJ_norm s e, lexprsJ_norm s es]
theorem iexprJ_norm (s : Scheme) : ∀ e : IExpr, iexprJ s (normI e) = iexprJ s e
  | .field f ixs => by simp only [normI]
  | .call fn args ctx ixs => by simp only [normI, iexprJ, aexprsJ_norm s args]
theorem aexprJ_norm (s : Scheme) : ∀ e : AExpr, aexprJ s (normA e) = aexprJ s e
  | .index e => by simp only [normA, aexprJ, iexprJ_norm s e]
  | .literal v => by simp only [normA, aexprJ, rhsValJ_norm]
  | .logical e => by simp only [normA, aexprJ, lexprJ_norm s e]
theorem aexprsJ_norm (s : Scheme) : ∀ es : List AExpr, aexprsJ s (normAs es) = aexprsJ s es
  | [] => by simp only [normAs, aexprsJ]
  | e :: es => by simp only [normAs, aexprsJ, aexprJ_norm s e, aexprsJ_norm s es]
theorem qargJ_norm (s : Scheme) : ∀ e : QArg, qargJ s (normQ e) = qargJ s e
  | .index e => by simp only [normQ, qargJ, iexprJ_norm s e]
  | .logical e => by simp only [normQ, qargJ, lexprJ_norm s e]
end

/-! ### parentheses -/

mutual
theorem lexprJ_strip (s : Scheme) : ∀ e : LExpr, lexprJ s (stripParens e) = lexprJ s e
  | .combining op xs => by simp only [stripParens, lexprJ, lexprsJ_strip s xs]
  | .comparison lhs op => by simp only [stripParens, lexprJ, iexprJ_strip s lhs]
  | .paren e => by simp only [stripParens, lexprJ, lexprJ_strip s e]
  | .unaryNot e => by simp only [stripParens, lexprJ, lexprJ_strip s e]
  | .quantifier q a => by simp only [stripParens, lexprJ, qargJ_strip s a]
theorem lexprsJ_strip (s : Scheme) :
    ∀ es : List LExpr, lexprsJ s (stripParensList es) = lexprsJ s es
  | [] => by simp only [stripParensList, lexprsJ]
  | e :: es => by simp only [stripParensList, lexprsJ, lexprJ_strip s e, lexprsJ_strip s es]
theorem iexprJ_strip (s : Scheme) : ∀ e : IExpr, iexprJ s (stripParensI e) = iexprJ s e
  | .field f ixs => by simp only [stripParensI]
  | .call fn args ctx ixs => by simp only [stripParensI, iexprJ, aexprsJ_strip s args]
theorem aexprJ_strip (s : Scheme) : ∀ e : AExpr, aexprJ s (stripParensA e) = aexprJ s e
  | .index e => by simp only [stripParensA, aexprJ, iexprJ_strip s e]
  | .literal v => by simp only [stripParensA]
  | .logical e => by simp only [stripParensA, aexprJ, lexprJ_strip s e]
theorem aexprsJ_strip (s : Scheme) :
    ∀ es : List AExpr, aexprsJ s (stripParensAs es) = aexprsJ s es
  | [] => by simp only [stripParensAs, aexprsJ]
  | e :: es => by simp only [stripParensAs, aexprsJ, aexprJ_strip s e, aexprsJ_strip s es]
theorem qargJ_strip (s : Scheme) : ∀ e : QArg, qargJ s (stripParensQ e) = qargJ s e
  | .index e => by simp only [stripParensQ, qargJ, iexprJ_strip s e]
  | .logical e => by simp only [stripParensQ, qargJ, lexprJ_strip s e]
end

mutual
theorem norm_strip : ∀ e : LExpr, norm (stripParens e) = norm e
  | .combining op xs => by simp only [stripParens, norm, normList_strip xs]
  | .comparison lhs op => by simp only [stripParens, norm, normI_strip lhs]
  | .paren e => by simp only [stripParens, norm, norm_strip e]
  | .unaryNot e => by simp only [stripParens, norm, norm_strip e]
  | .quantifier q a => by simp only [stripParens, norm, normQ_strip a]
theorem normList_strip : ∀ es : List LExpr, normList (stripParensList es) = normList es
  | [] => by simp only [stripParensList]
  | e :: es => by simp only [stripParensList, normList, norm_strip e, normList_strip es]
theorem normI_strip : ∀ e : IExpr, normI (stripParensI e) = normI e
  | .field f ixs => by simp only [stripParensI]
  | .call fn args ctx ixs => by simp only [stripParensI, normI, normAs_strip args]
theorem normA_strip : ∀ e : AExpr, normA (stripParensA e) = normA e
  | .index e => by simp only [stripParensA, normA, normI_strip e]
  | .literal v => by simp only [stripParensA]
  | .logical e => by simp only [stripParensA, normA, norm_strip e]
theorem normAs_strip : ∀ es : List AExpr, normAs (stripParensAs es) = normAs es
  | [] => by simp only [stripParensAs]
  | e :: es => by simp only [stripParensAs, normAs, normA_strip e, normAs_strip es]
theorem normQ_strip : ∀ e : QArg, normQ (stripParensQ e) = normQ e
  | .index e => by simp only [stripParensQ, normQ, normI_strip e]
  | .logical e => by simp only [stripParensQ, normQ, norm_strip e]
end

mutual
theorem noParens_strip : ∀ e : LExpr, noParens (stripParens e) = true
  | .combining op xs => by simp only [stripParens, noParens, noParensList_strip xs]
  | .comparison lhs op => by simp only [stripParens, noParens, noParensI_strip lhs]
  | .paren e => by simp only [stripParens, noParens_strip e]
  | .unaryNot e => by simp only [stripParens, noParens, noParens_strip e]
  | .quantifier q a => by simp only [stripParens, noParens, noParensQ_strip a]
theorem noParensList_strip : ∀ es : List LExpr, noParensList (stripParensList es) = true
  | [] => by simp only [stripParensList, noParensList]
  | e :: es => by
    simp only [stripParensList, noParensList, noParens_strip e, noParensList_strip es,
      Bool.and_self]
theorem noParensI_strip : ∀ e : IExpr, noParensI (stripParensI e) = true
  | .field f ixs => by simp only [stripParensI, noParensI]
  | .call fn args ctx ixs => by simp only [stripParensI, noParensI, noParensAs_strip args]
theorem noParensA_strip : ∀ e : AExpr, noParensA (stripParensA e) = true
  | .index e => by simp only [stripParensA, noParensA, noParensI_strip e]
  | .literal v => by simp only [stripParensA, noParensA]
  | .logical e => by simp only [stripParensA, noParensA, noParens_strip e]
theorem noParensAs_strip : ∀ es : List AExpr, noParensAs (stripParensAs es) = true
  | [] => by simp only [stripParensAs, noParensAs]
  | e :: es => by
    simp only [stripParensAs, noParensAs, noParensA_strip e, noParensAs_strip es, Bool.and_self]
theorem noParensQ_strip : ∀ e : QArg, noParensQ (stripParensQ e) = true
  | .index e => by simp only [stripParensQ, noParensQ, noParensI_strip e]
  | .logical e => by simp only [stripParensQ, noParensQ, noParens_strip e]
end

mutual
theorem noParens_norm : ∀ e : LExpr, noParens (norm e) = true
  | .combining op xs => by simp only [norm, noParens, noParensList_norm xs]
  | .comparison lhs op => by simp only [norm, noParens, noParensI_norm lhs]
  | .paren e => by simp only [norm, noParens_norm e]
  | .unaryNot e => by simp only [norm, noParens, noParens_norm e]
  | .quantifier q a => by simp only [norm, noParens, noParensQ_norm a]
theorem noParensList_norm : ∀ es : List LExpr, noParensList (normList es) = true
  | [] => by simp only [normList, noParensList]
  | e :: es => by
    simp only [normList, noParensList, noParens_norm e, noParensList_norm es, Bool.and_self]
theorem noParensI_norm : ∀ e : IExpr, noParensI (normI e) = true
  | .field f ixs => by simp only [normI, noParensI]
  | .call fn args ctx ixs => by simp only [normI, noParensI, noParensAs_norm args]
theorem noParensA_norm : ∀ e : AExpr, noParensA (normA e) = true
  | .index e => by simp only [normA, noParensA, noParensI_norm e]
  | .literal v => by simp only [normA, noParensA]
  | .logical e => by simp only [normA, noParensA, noParens_norm e]
theorem noParensAs_norm : ∀ es : List AExpr, noParensAs (normAs es) = true
  | [] => by simp only [normAs, noParensAs]
  | e :: es => by
    simp only [normAs, noParensAs, noParensA_norm e, noParensAs_norm es, Bool.and_self]
theorem noParensQ_norm : ∀ e : QArg, noParensQ (normQ e) = true
  | .index e => by simp only [normQ, noParensQ, noParensI_norm e]
  | .logical e => by simp only [normQ, noParensQ, noParens_norm e]
end

theorem lexprsJ_length (s : Scheme) : ∀ xs : List LExpr, (lexprsJ s xs).length = xs.length
  | [] => rfl
  | x :: xs => by simp only [lexprsJ, List.length_cons, lexprsJ_length s xs]

theorem peel_elim (S : Nat → Bool) (s : Scheme) : ∀ b : LExpr, ∃ b', (∀ e, b' ≠ .paren e) ∧ okL S s b' = okL S s b ∧
    norm b' = norm b ∧ lexprJ s b' = lexprJ s b
  | .paren e => by
    obtain ⟨b', h1, h2, h3, h4⟩ := peel_elim S s e
    exact ⟨b', h1, by simp only [okL, h2], by simp only [norm, h3], by simp only [lexprJ, h4]⟩
  | .combining op xs => ⟨_, by simp, rfl, rfl, rfl⟩
  | .comparison l o => ⟨_, by simp, rfl, rfl, rfl⟩
  | .unaryNot e => ⟨_, by simp, rfl, rfl, rfl⟩
  | .quantifier q a => ⟨_, by simp, rfl, rfl, rfl⟩

theorem qName_ne_not (q : QOp) : q.name ≠ "Not" := by cases q <;> simp [QOp.name]

section
set_option linter.unusedSectionVars false
variable (s : Scheme) (hs : NamesDistinct s) {S : Nat → Bool} (h6 : V6InjOn S)
include hs h6

mutual
theorem injL : ∀ (a b : LExpr), okL S s a = true → okL S s b = true →
    kL (norm a) (norm b) = true → lexprJ s a = lexprJ s b → norm a = norm b
  | .paren e, b, ha, hb, hk, h => by
    simp only [okL] at ha
    simp only [norm] at hk ⊢
    simp only [lexprJ] at h
    exact injL e b ha hb hk h
  | .combining op xs, b, ha, hb, hk, h => by
    obtain ⟨b', hnp, e1, e2, e3⟩ := peel_elim S s b
    rw [← e1] at hb; rw [← e2] at hk ⊢; rw [← e3] at h
    clear e1 e2 e3
    cases b' with
    | paren e => exact absurd rfl (hnp e)
    | combining op' ys =>
      simp only [lexprJ, J.obj.injEq, List.cons.injEq, Prod.mk.injEq, J.str.injEq, J.arr.injEq,
        true_and, and_true] at h
      simp only [okL] at ha hb
      simp only [norm, kL] at hk ⊢
      rw [logicalName_inj h.1, injList xs ys ha hb hk h.2]
    | comparison l o => simp [lexprJ] at h
    | unaryNot e => simp [lexprJ] at h
    | quantifier q a => simp [lexprJ] at h
  | .comparison l o, b, ha, hb, hk, h => by
    obtain ⟨b', hnp, e1, e2, e3⟩ := peel_elim S s b
    rw [← e1] at hb; rw [← e2] at hk ⊢; rw [← e3] at h
    clear e1 e2 e3
    cases b' with
    | paren e => exact absurd rfl (hnp e)
    | combining op' ys => simp [lexprJ] at h
    | comparison l' o' =>
      simp only [lexprJ, J.obj.injEq, List.cons.injEq, Prod.mk.injEq, true_and] at h
      simp only [okL, Bool.and_eq_true] at ha hb
      simp only [norm, kL, Bool.and_eq_true] at hk ⊢
      rw [injI l l' ha.1 hb.1 hk.1 h.1, cmpOpFields_inj h6 ha.2 hb.2 hk.2 h.2]
    | unaryNot e => simp [lexprJ] at h
    | quantifier q a => simp [lexprJ] at h
  | .unaryNot e, b, ha, hb, hk, h => by
    obtain ⟨b', hnp, e1, e2, e3⟩ := peel_elim S s b
    rw [← e1] at hb; rw [← e2] at hk ⊢; rw [← e3] at h
    clear e1 e2 e3
    cases b' with
    | paren e => exact absurd rfl (hnp e)
    | combining op' ys => simp [lexprJ] at h
    | comparison l' o' => simp [lexprJ] at h
    | unaryNot e' =>
      simp only [lexprJ, J.obj.injEq, List.cons.injEq, Prod.mk.injEq, true_and, and_true] at h
      simp only [okL] at ha hb
      simp only [norm, kL] at hk ⊢
      rw [injL e e' ha hb hk h]
    | quantifier q a =>
      simp only [lexprJ, J.obj.injEq, List.cons.injEq, Prod.mk.injEq, J.str.injEq, true_and,
        and_true] at h
      exact absurd h.1.symm (qName_ne_not q)
  | .quantifier q a, b, ha, hb, hk, h => by
    obtain ⟨b', hnp, e1, e2, e3⟩ := peel_elim S s b
    rw [← e1] at hb; rw [← e2] at hk ⊢; rw [← e3] at h
    clear e1 e2 e3
    cases b' with
    | paren e => exact absurd rfl (hnp e)
    | combining op' ys => simp [lexprJ] at h
    | comparison l' o' => simp [lexprJ] at h
    | unaryNot e' =>
      simp only [lexprJ, J.obj.injEq, List.cons.injEq, Prod.mk.injEq, J.str.injEq, true_and,
        and_true] at h
      exact absurd h.1 (qName_ne_not q)
    | quantifier q' a' =>
      simp only [lexprJ, J.obj.injEq, List.cons.injEq, Prod.mk.injEq, J.str.injEq, true_and,
        and_true] at h
      simp only [okL] at ha hb
      simp only [norm, kL] at hk ⊢
      rw [qName_inj h.1, injQ a a' ha hb hk h.2]
theorem injList : ∀ (xs ys : List LExpr), okList S s xs = true → okList S s ys = true →
    kList (normList xs) (normList ys) = true → lexprsJ s xs = lexprsJ s ys →
    normList xs = normList ys
  | [], [], _, _, _, _ => rfl
  | [], _ :: _, _, _, _, h => by simp [lexprsJ] at h
  | _ :: _, [], _, _, _, h => by simp [lexprsJ] at h
  | x :: xs, y :: ys, ha, hb, hk, h => by
    simp only [lexprsJ, List.cons.injEq] at h
    simp only [okList, Bool.and_eq_true] at ha hb
    simp only [normList, kList, Bool.and_eq_true] at hk ⊢
    rw [injL x y ha.1 hb.1 hk.1 h.1, injList xs ys ha.2 hb.2 hk.2 h.2]
theorem injI : ∀ (a b : IExpr), okI S s a = true → okI S s b = true →
    kI (normI a) (normI b) = true → iexprJ s a = iexprJ s b → normI a = normI b
  | .field f ixs, .field f' ixs', ha, hb, _, h => by
    simp only [okI, decide_eq_true_eq] at ha hb
    cases ixs <;> cases ixs' <;>
      simp only [iexprJ, List.isEmpty_nil, List.isEmpty_cons, if_true, Bool.false_eq_true,
        if_false, J.str.injEq, J.arr.injEq, List.cons.injEq, reduceCtorEq] at h
    · rw [fieldName_inj hs ha hb h]
    · have := fieldIndexesJ_inj (a := _ :: _) (b := _ :: _) (by simpa using h.2)
      rw [fieldName_inj hs ha hb h.1, this]
  | .field f ixs, .call fn' args' ctx' ixs', _, _, _, h => by
    cases ixs <;> cases ixs' <;> simp [iexprJ] at h
  | .call fn args ctx ixs, .field f' ixs', _, _, _, h => by
    cases ixs <;> cases ixs' <;> simp [iexprJ] at h
  | .call fn args ctx ixs, .call fn' args' ctx' ixs', ha, hb, hk, h => by
    simp only [okI, Bool.and_eq_true, decide_eq_true_eq] at ha hb
    simp only [normI, kI] at hk ⊢
    cases ixs <;> cases ixs' <;>
      simp only [iexprJ, List.isEmpty_nil, List.isEmpty_cons, if_true, Bool.false_eq_true,
        if_false, J.obj.injEq, J.str.injEq, J.arr.injEq, List.cons.injEq, Prod.mk.injEq,
        reduceCtorEq, true_and, and_true] at h
    · rw [funcName_inj hs ha.1 hb.1 h.1, injAs args args' ha.2 hb.2 hk h.2]
    · have := fieldIndexesJ_inj (a := _ :: _) (b := _ :: _) (by simpa using h.2)
      rw [funcName_inj hs ha.1 hb.1 h.1.1, injAs args args' ha.2 hb.2 hk h.1.2, this]
theorem injA : ∀ (a b : AExpr), okA S s a = true → okA S s b = true →
    kA (normA a) (normA b) = true → aexprJ s a = aexprJ s b → normA a = normA b
  | .index e, .index e', ha, hb, hk, h => by
    simp only [aexprJ, J.obj.injEq, List.cons.injEq, Prod.mk.injEq, true_and, and_true] at h
    simp only [okA] at ha hb
    simp only [normA, kA] at hk ⊢
    rw [injI e e' ha hb hk h]
  | .literal v, .literal v', ha, hb, hk, h => by
    simp only [aexprJ, J.obj.injEq, List.cons.injEq, Prod.mk.injEq, true_and, and_true] at h
    simp only [okA] at ha hb
    simp only [normA, kA, normRhs_typeOf, beq_iff_eq] at hk ⊢
    rw [rhsValJ_inj h6 ha hb hk h]
  | .logical e, .logical e', ha, hb, hk, h => by
    simp only [aexprJ, J.obj.injEq, List.cons.injEq, Prod.mk.injEq, true_and, and_true] at h
    simp only [okA] at ha hb
    simp only [normA, kA] at hk ⊢
    rw [injL e e' ha hb hk h]
  | .index _, .literal _, _, _, _, h => by simp [aexprJ] at h
  | .index _, .logical _, _, _, _, h => by simp [aexprJ] at h
  | .literal _, .index _, _, _, _, h => by simp [aexprJ] at h
  | .literal _, .logical _, _, _, _, h => by simp [aexprJ] at h
  | .logical _, .index _, _, _, _, h => by simp [aexprJ] at h
  | .logical _, .literal _, _, _, _, h => by simp [aexprJ] at h
theorem injAs : ∀ (xs ys : List AExpr), okAs S s xs = true → okAs S s ys = true →
    kAs (normAs xs) (normAs ys) = true → aexprsJ s xs = aexprsJ s ys →
    normAs xs = normAs ys
  | [], [], _, _, _, _ => rfl
  | [], _ :: _, _, _, _, h => by simp [aexprsJ] at h
  | _ :: _, [], _, _, _, h => by simp [aexprsJ] at h
  | x :: xs, y :: ys, ha, hb, hk, h => by
    simp only [aexprsJ, List.cons.injEq] at h
    simp only [okAs, Bool.and_eq_true] at ha hb
    simp only [normAs, kAs, Bool.and_eq_true] at hk ⊢
    rw [injA x y ha.1 hb.1 hk.1 h.1, injAs xs ys ha.2 hb.2 hk.2 h.2]
theorem injQ : ∀ (a b : QArg), okQ S s a = true → okQ S s b = true →
    kQ (normQ a) (normQ b) = true → qargJ s a = qargJ s b → normQ a = normQ b
  | .index e, .index e', ha, hb, hk, h => by
    simp only [qargJ, J.obj.injEq, List.cons.injEq, Prod.mk.injEq, true_and, and_true] at h
    simp only [okQ] at ha hb
    simp only [normQ, kQ] at hk ⊢
    rw [injI e e' ha hb hk h]
  | .logical e, .logical e', ha, hb, hk, h => by
    simp only [qargJ, J.obj.injEq, List.cons.injEq, Prod.mk.injEq, true_and, and_true] at h
    simp only [okQ] at ha hb
    simp only [normQ, kQ] at hk ⊢
    rw [injL e e' ha hb hk h]
  | .index _, .logical _, _, _, _, h => by simp [qargJ] at h
  | .logical _, .index _, _, _, _, h => by simp [qargJ] at h
end
end

end WfModel.C07L
