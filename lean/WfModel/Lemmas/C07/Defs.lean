import WfModel.Model.Json

/-!
# C07 — definitions used by the JSON-injectivity theorems

* `stripParens…` removes every `paren` node (parentheses are visible only as nesting);
* `norm…` additionally forgets exactly what the JSON document deliberately does not show:
  the *format* of a byte literal among forms that print alike, the regex literal format,
  the per-call definition context, the list index of `in $name` (the name is shown);
* `ok…` : indices into the scheme are in range, IP addresses / prefix lengths are in range;
* `k…` (`SameLitKinds`): literals at corresponding positions have the same kind.
-/
namespace WfModel.C07

open WfModel

/-! ### leaves -/

/-- Canonical representative of a byte literal among those with the same JSON:
`byte` format or not valid UTF-8 ⇒ printed as an integer array; otherwise a string. -/
def normBytes (b : BytesLit) : BytesLit :=
  match b.fmt with
  | .byte => { fmt := .byte, data := b.data }
  | _ =>
    match utf8Decode b.data with
    | some _ => { fmt := .quoted, data := b.data }
    | none => { fmt := .byte, data := b.data }

def normRhs : RhsVal → RhsVal
  | .bytes b => .bytes (normBytes b)
  | v => v

def normRhsVals : RhsVals → RhsVals
  | .bytes bs => .bytes (bs.map normBytes)
  | v => v

def normOp : CmpOp → CmpOp
  | .ordering o r => .ordering o (normRhs r)
  | .contains b => .contains (normBytes b)
  | .matches p _ => .matches p .literal
  | .wildcard st b => .wildcard st (normBytes b)
  | .oneOf vs => .oneOf (normRhsVals vs)
  | .inList _ name => .inList 0 name
  | o => o

def valsTy : RhsVals → Ty
  | .int _ => .int | .ip _ => .ip | .bytes _ => .bytes

/-! ### parentheses only -/

mutual
def stripParens : LExpr → LExpr
  | .combining op xs => .combining op (stripParensList xs)
  | .comparison lhs op => .comparison (stripParensI lhs) op
  | .paren e => stripParens e
  | .unaryNot e => .unaryNot (stripParens e)
  | .quantifier q a => .quantifier q (stripParensQ a)
def stripParensList : List LExpr → List LExpr
  | [] => []
  | e :: es => stripParens e :: stripParensList es
def stripParensI : IExpr → IExpr
  | .field f ixs => .field f ixs
  | .call fn args ctx ixs => .call fn (stripParensAs args) ctx ixs
def stripParensA : AExpr → AExpr
  | .index e => .index (stripParensI e)
  | .literal v => .literal v
  | .logical e => .logical (stripParens e)
def stripParensAs : List AExpr → List AExpr
  | [] => []
  | e :: es => stripParensA e :: stripParensAs es
def stripParensQ : QArg → QArg
  | .index e => .index (stripParensI e)
  | .logical e => .logical (stripParens e)
end

mutual
/-- no `paren` node anywhere -/
def noParens : LExpr → Bool
  | .combining _ xs => noParensList xs
  | .comparison lhs _ => noParensI lhs
  | .paren _ => false
  | .unaryNot e => noParens e
  | .quantifier _ a => noParensQ a
def noParensList : List LExpr → Bool
  | [] => true
  | e :: es => noParens e && noParensList es
def noParensI : IExpr → Bool
  | .field _ _ => true
  | .call _ args _ _ => noParensAs args
def noParensA : AExpr → Bool
  | .index e => noParensI e
  | .literal _ => true
  | .logical e => noParens e
def noParensAs : List AExpr → Bool
  | [] => true
  | e :: es => noParensA e && noParensAs es
def noParensQ : QArg → Bool
  | .index e => noParensI e
  | .logical e => noParens e
end

/-! ### the full normalisation -/

mutual
def norm : LExpr → LExpr
  | .combining op xs => .combining op (normList xs)
  | .comparison lhs op => .comparison (normI lhs) (normOp op)
  | .paren e => norm e
  | .unaryNot e => .unaryNot (norm e)
  | .quantifier q a => .quantifier q (normQ a)
def normList : List LExpr → List LExpr
  | [] => []
  | e :: es => norm e :: normList es
def normI : IExpr → IExpr
  | .field f ixs => .field f ixs
  | .call fn args _ ixs => .call fn (normAs args) none ixs
def normA : AExpr → AExpr
  | .index e => .index (normI e)
  | .literal v => .literal (normRhs v)
  | .logical e => .logical (norm e)
def normAs : List AExpr → List AExpr
  | [] => []
  | e :: es => normA e :: normAs es
def normQ : QArg → QArg
  | .index e => .index (normI e)
  | .logical e => .logical (norm e)
end

/-- strip the outermost parentheses -/
def peel : LExpr → LExpr
  | .paren e => peel e
  | e => e

/-! ### range conditions

All of them are parametrised by `S : Nat → Bool`, the set of IPv6 address values that may
occur (see `V6InjOn`): `in128` for "any 128-bit value", `noV6` for "no IPv6 literal at all". -/

def in128 (a : Nat) : Bool := decide (a < 340282366920938463463374607431768211456)
def noV6 (_ : Nat) : Bool := false

def ipOk (S : Nat → Bool) : Ip → Bool
  | .v4 a => decide (a < 4294967296)
  | .v6 a => S a

def rhsOk (S : Nat → Bool) : RhsVal → Bool
  | .ip a => ipOk S a
  | _ => true

/-- the addresses of a range item are in range for their family (no condition on the
prefix length) -/
def ipRangeOk (S : Nat → Bool) : IpRangeLit → Bool
  | .explicit false lo hi => decide (lo < 4294967296) && decide (hi < 4294967296)
  | .explicit true lo hi => S lo && S hi
  | .cidr false a _ => decide (a < 4294967296)
  | .cidr true a _ => S a

def ipRangesOk (S : Nat → Bool) : List IpRangeLit → Bool
  | [] => true
  | r :: rs => ipRangeOk S r && ipRangesOk S rs

def opOk (S : Nat → Bool) : CmpOp → Bool
  | .ordering _ r => rhsOk S r
  | .oneOf (.ip rs) => ipRangesOk S rs
  | _ => true

mutual
/-- field / function indices point into the scheme; IPv4 literals are 32-bit values, IPv6
literals are in `S` -/
def okL (S : Nat → Bool) (s : Scheme) : LExpr → Bool
  | .combining _ xs => okList S s xs
  | .comparison lhs op => okI S s lhs && opOk S op
  | .paren e => okL S s e
  | .unaryNot e => okL S s e
  | .quantifier _ a => okQ S s a
def okList (S : Nat → Bool) (s : Scheme) : List LExpr → Bool
  | [] => true
  | e :: es => okL S s e && okList S s es
def okI (S : Nat → Bool) (s : Scheme) : IExpr → Bool
  | .field f _ => decide (f < s.fields.length)
  | .call fn args _ _ => decide (fn < s.funcs.length) && okAs S s args
def okA (S : Nat → Bool) (s : Scheme) : AExpr → Bool
  | .index e => okI S s e
  | .literal v => rhsOk S v
  | .logical e => okL S s e
def okAs (S : Nat → Bool) (s : Scheme) : List AExpr → Bool
  | [] => true
  | e :: es => okA S s e && okAs S s es
def okQ (S : Nat → Bool) (s : Scheme) : QArg → Bool
  | .index e => okI S s e
  | .logical e => okL S s e
end

/-- `v6Str` (std `Display for Ipv6Addr` with `::` compression and the `::ffff:a.b.c.d` form) is
injective on the set `S` of address values. -/
def V6InjOn (S : Nat → Bool) : Prop :=
  ∀ a b : Nat, S a = true → S b = true → v6Str a = v6Str b → a = b

/-- **Side condition (4) of `json_injective_on`** at `S = in128`: the IPv6 printer is injective on
128-bit values.  Proved in `Lemmas/C06V6.lean` (`v6StrInjective`) by reading the printed text
back with the parser model; `json_injective` uses that proof. -/
def V6StrInjective : Prop := V6InjOn in128

theorem V6InjOn_noV6 : V6InjOn noV6 := fun _ _ h => by simp [noV6] at h

/-- `SchemeBuilder` rejects duplicate names: field names are pairwise distinct and function
names are pairwise distinct (a field and a function are told apart by the JSON shape). -/
def NamesDistinct (s : Scheme) : Prop :=
  (s.fields.map (·.name)).Nodup ∧ (s.funcs.map (·.1)).Nodup

instance (s : Scheme) : Decidable (NamesDistinct s) := by
  unfold NamesDistinct; exact inferInstance

/-! ### literal kinds at corresponding positions -/

def kOp : CmpOp → CmpOp → Bool
  | .ordering _ r, .ordering _ r' => r.typeOf == r'.typeOf
  | .oneOf vs, .oneOf vs' => valsTy vs == valsTy vs'
  | _, _ => true

mutual
/-- Walks two trees in parallel as long as their shapes agree and compares the *kind*
(int / ip / bytes) of the literals met at corresponding positions; `true` wherever the
shapes differ (a shape difference is visible in the JSON anyway). -/
def kL : LExpr → LExpr → Bool
  | .combining _ xs, .combining _ ys => kList xs ys
  | .comparison l o, .comparison l' o' => kI l l' && kOp o o'
  | .unaryNot e, .unaryNot e' => kL e e'
  | .quantifier _ a, .quantifier _ a' => kQ a a'
  | _, _ => true
def kList : List LExpr → List LExpr → Bool
  | x :: xs, y :: ys => kL x y && kList xs ys
  | _, _ => true
def kI : IExpr → IExpr → Bool
  | .call _ as _ _, .call _ bs _ _ => kAs as bs
  | _, _ => true
def kA : AExpr → AExpr → Bool
  | .index e, .index e' => kI e e'
  | .literal v, .literal v' => v.typeOf == v'.typeOf
  | .logical e, .logical e' => kL e e'
  | _, _ => true
def kAs : List AExpr → List AExpr → Bool
  | x :: xs, y :: ys => kA x y && kAs xs ys
  | _, _ => true
def kQ : QArg → QArg → Bool
  | .index e, .index e' => kI e e'
  | .logical e, .logical e' => kL e e'
  | _, _ => true
end

/-- **Side condition (3) of `json_injective`.** In the engine the type of a right-hand side /
literal argument is determined by the (equal) left-hand side / parameter type; the JSON itself
does not record it (`1.2.3.4` as an address and `"1.2.3.4"` as bytes print alike; `in {}`
prints `[]` for every type).  The relation only constrains positions that correspond in
both (parenthesis-free) trees. -/
def SameLitKinds (a b : LExpr) : Prop := kL (norm a) (norm b) = true

instance (a b : LExpr) : Decidable (SameLitKinds a b) := by
  unfold SameLitKinds; exact inferInstance

end WfModel.C07
