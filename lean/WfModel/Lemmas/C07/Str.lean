import WfModel.Lemmas.C07.Defs

/-!
# C07 helper — printing of integers and IP addresses is injective

`Nat.repr` (decimal) is injective and digit-only (from core's `Nat.ofDigitChars_toDigits`);
`v4Str` is injective on 32-bit values; `v6Str` only uses hex digits, `:` and `.` and always
contains a `:`; hence address and CIDR printing (`ipRangeJ`) is injective given
`V6InjOn S` for the IPv6 values that occur.
-/
namespace WfModel.C07L

open WfModel WfModel.C07

/-- characters an address can be printed with -/
def ipChar (c : Char) : Bool := c.isDigit || c = '.' || c = ':' || ('a' ≤ c && c ≤ 'f')

theorem hexDigitLower_ipChar : ∀ n, n < 16 → ipChar (J.hexDigitLower n) = true := by decide
theorem hexDigitLower_ne_colon : ∀ n, n < 16 → J.hexDigitLower n ≠ ':' := by decide

theorem natToHexLower_chars (n : Nat) : ∀ c ∈ natToHexLower n, ipChar c = true ∧ c ≠ ':' := by
  fun_induction natToHexLower n with
  | case1 n h =>
    intro c hc; simp at hc; subst hc
    exact ⟨hexDigitLower_ipChar n h, hexDigitLower_ne_colon n h⟩
  | case2 n h ih =>
    intro c hc
    simp only [List.mem_append, List.mem_singleton] at hc
    rcases hc with hc | rfl
    · exact ih c hc
    · exact ⟨hexDigitLower_ipChar _ (Nat.mod_lt _ (by decide)),
        hexDigitLower_ne_colon _ (Nat.mod_lt _ (by decide))⟩

theorem intercalate_cons_cons {α} (sep l l2 : List α) (ls : List (List α)) :
    sep.intercalate (l :: l2 :: ls) = l ++ sep ++ sep.intercalate (l2 :: ls) := by
  simp [List.intercalate]

theorem mem_intercalate {α} (sep : List α) (ls : List (List α)) (c : α)
    (h : c ∈ sep.intercalate ls) : c ∈ sep ∨ ∃ l ∈ ls, c ∈ l := by
  induction ls with
  | nil => simp [List.intercalate] at h
  | cons l ls ih =>
    cases ls with
    | nil => simp [List.intercalate] at h; exact Or.inr ⟨l, by simp, h⟩
    | cons l2 ls =>
      rw [intercalate_cons_cons] at h
      simp only [List.mem_append] at h
      rcases h with (h | h) | h
      · exact Or.inr ⟨l, by simp, h⟩
      · exact Or.inl h
      · rcases ih h with h | ⟨l', hl', hc⟩
        · exact Or.inl h
        · exact Or.inr ⟨l', by simp [hl'], hc⟩

theorem groupsStr_toList (gs : List Nat) :
    (groupsStr gs).toList = [':'].intercalate (gs.map natToHexLower) := by
  simp [groupsStr, String.toList_intercalate, Function.comp_def]

theorem groupsStr_chars (gs : List Nat) : ∀ c ∈ (groupsStr gs).toList, ipChar c = true := by
  intro c hc
  rw [groupsStr_toList] at hc
  rcases mem_intercalate _ _ _ hc with h | ⟨l, hl, hcl⟩
  · simp at h; subst h; decide
  · simp only [List.mem_map] at hl
    obtain ⟨g, _, rfl⟩ := hl
    exact (natToHexLower_chars g c hcl).1

theorem digit_of_mem {c : Char} {n : Nat} (h : c ∈ Nat.toDigits 10 n) : c.isDigit = true :=
  Nat.isDigit_of_mem_toDigits (by decide) (by decide) h

theorem v4Str_toList (a : Nat) : (v4Str a).toList =
    Nat.toDigits 10 (a / 16777216 % 256) ++ '.' :: (Nat.toDigits 10 (a / 65536 % 256) ++ '.' ::
      (Nat.toDigits 10 (a / 256 % 256) ++ '.' :: Nat.toDigits 10 (a % 256))) := by
  have e : (toString "." : String) = "." := rfl
  simp [v4Str, String.toList_append, e]

theorem v4Str_chars {a : Nat} {c : Char} (h : c ∈ (v4Str a).toList) :
    c.isDigit = true ∨ c = '.' := by
  rw [v4Str_toList] at h
  simp only [List.mem_append, List.mem_cons] at h
  rcases h with h | rfl | h | rfl | h | rfl | h <;>
    first | exact Or.inr rfl | exact Or.inl (digit_of_mem h)

theorem v6Str_chars (a : Nat) : ∀ c ∈ (v6Str a).toList, ipChar c = true := by
  intro c hc
  unfold v6Str at hc
  simp only [] at hc
  split at hc
  · simp only [String.toList_append, List.mem_append] at hc
    rcases hc with hc | hc
    · revert c; decide
    · rcases v4Str_chars hc with h | h <;> simp [ipChar, h]
  · split at hc
    · simp only [String.toList_append, List.mem_append] at hc
      rcases hc with (hc | hc) | hc
      · exact groupsStr_chars _ c hc
      · revert c; decide
      · exact groupsStr_chars _ c hc
    · exact groupsStr_chars _ c hc

theorem v6Str_colon (a : Nat) : ':' ∈ (v6Str a).toList := by
  unfold v6Str
  simp only []
  split
  · simp [String.toList_append]
  · split
    · simp [String.toList_append]
    · obtain ⟨g0, g1, t, h⟩ : ∃ g0 g1 t, v6Groups a = g0 :: g1 :: t := ⟨_, _, _, rfl⟩
      rw [h, groupsStr_toList]
      simp

theorem toDigits10_inj {a b : Nat} (h : Nat.toDigits 10 a = Nat.toDigits 10 b) : a = b := by
  have := congrArg (fun l => Nat.ofDigitChars 10 l 0) h
  simpa using this

theorem split_at_sep {α} (sep : α) : ∀ (l1 l2 r1 r2 : List α), sep ∉ l1 → sep ∉ l2 →
    l1 ++ sep :: r1 = l2 ++ sep :: r2 → l1 = l2 ∧ r1 = r2 := by
  intro l1
  induction l1 with
  | nil =>
    intro l2 r1 r2 _ h2 h
    cases l2 with
    | nil => simpa using h
    | cons x l2 =>
      simp only [List.nil_append, List.cons_append, List.cons.injEq] at h
      exact absurd (by simp [h.1]) h2
  | cons x l1 ih =>
    intro l2 r1 r2 h1 h2 h
    cases l2 with
    | nil =>
      simp only [List.nil_append, List.cons_append, List.cons.injEq] at h
      exact absurd (by simp [h.1]) h1
    | cons y l2 =>
      simp only [List.cons_append, List.cons.injEq] at h
      have := ih l2 r1 r2 (fun hm => h1 (by simp [hm])) (fun hm => h2 (by simp [hm])) h.2
      simp [h.1, this.1, this.2]

theorem dot_not_mem (n : Nat) : '.' ∉ Nat.toDigits 10 n := fun h => by
  have := digit_of_mem h; simp at this

theorem v4Str_inj {a b : Nat} (ha : a < 4294967296) (hb : b < 4294967296)
    (h : v4Str a = v4Str b) : a = b := by
  have h' := congrArg String.toList h
  rw [v4Str_toList, v4Str_toList] at h'
  obtain ⟨e1, h'⟩ := split_at_sep '.' _ _ _ _ (dot_not_mem _) (dot_not_mem _) h'
  obtain ⟨e2, h'⟩ := split_at_sep '.' _ _ _ _ (dot_not_mem _) (dot_not_mem _) h'
  obtain ⟨e3, e4⟩ := split_at_sep '.' _ _ _ _ (dot_not_mem _) (dot_not_mem _) h'
  have := toDigits10_inj e1
  have := toDigits10_inj e2
  have := toDigits10_inj e3
  have := toDigits10_inj e4
  omega

theorem v4Str_no_colon (a : Nat) : ':' ∉ (v4Str a).toList := fun h => by
  rcases v4Str_chars h with h | h <;> simp at h

theorem v4Str_ne_v6Str (a b : Nat) : v4Str a ≠ v6Str b := fun h =>
  v4Str_no_colon a (h ▸ v6Str_colon b)

theorem ipStr_inj {S : Nat → Bool} (h6 : V6InjOn S) {a b : Ip} (ha : ipOk S a = true) (hb : ipOk S b = true)
    (h : ipStr a = ipStr b) : a = b := by
  cases a <;> cases b <;> simp only [ipStr, ipOk, decide_eq_true_eq] at h ha hb
  · rw [v4Str_inj ha hb h]
  · exact absurd h (v4Str_ne_v6Str _ _)
  · exact absurd h.symm (v4Str_ne_v6Str _ _)
  · rw [h6 _ _ ha hb h]

def addrStr (v6 : Bool) (a : Nat) : String := if v6 then v6Str a else v4Str a

theorem addrStr_no_slash (v6 : Bool) (a : Nat) : '/' ∉ (addrStr v6 a).toList := fun h => by
  cases v6 <;> simp only [addrStr, if_true, Bool.false_eq_true, if_false] at h
  · rcases v4Str_chars h with h | h <;> simp at h
  · have := v6Str_chars a _ h; simp [ipChar] at this

theorem slash_not_digits (n : Nat) : '/' ∉ Nat.toDigits 10 n := fun h => by
  have := digit_of_mem h; simp at this

def addrOk (S : Nat → Bool) (v6 : Bool) (a : Nat) : Prop :=
  if v6 then S a = true else a < 4294967296

theorem addrStr_inj {S : Nat → Bool} (h6 : V6InjOn S) {v v' : Bool} {a a' : Nat} (ha : addrOk S v a)
    (ha' : addrOk S v' a') (h : addrStr v a = addrStr v' a') : v = v' ∧ a = a' := by
  cases v <;> cases v' <;> simp only [addrStr, addrOk, if_true, Bool.false_eq_true, if_false] at h ha ha'
  · exact ⟨rfl, v4Str_inj ha ha' h⟩
  · exact absurd h (v4Str_ne_v6Str _ _)
  · exact absurd h.symm (v4Str_ne_v6Str _ _)
  · exact ⟨rfl, h6 _ _ ha ha' h⟩

def hostLen (v6 : Bool) : Nat := if v6 then 128 else 32

def cidrStr (v6 : Bool) (a n : Nat) : String :=
  if n = hostLen v6 then addrStr v6 a else addrStr v6 a ++ "/" ++ toString n

theorem ipRangeJ_explicit (v6 : Bool) (lo hi : Nat) :
    ipRangeJ (.explicit v6 lo hi) = rangeJ (.str (addrStr v6 lo)) (.str (addrStr v6 hi)) := by
  cases v6 <;> simp [ipRangeJ, addrStr]

theorem ipRangeJ_cidr (v6 : Bool) (a n : Nat) :
    ipRangeJ (.cidr v6 a n) = .str (cidrStr v6 a n) := by
  cases v6 <;> simp [ipRangeJ, addrStr, cidrStr, hostLen]

theorem ipRangeOk_explicit {S : Nat → Bool} {v6 : Bool} {lo hi : Nat} (h : ipRangeOk S (.explicit v6 lo hi) = true) :
    addrOk S v6 lo ∧ addrOk S v6 hi := by
  cases v6 <;> simpa [ipRangeOk, addrOk] using h

theorem ipRangeOk_cidr {S : Nat → Bool} {v6 : Bool} {a n : Nat} (h : ipRangeOk S (.cidr v6 a n) = true) :
    addrOk S v6 a := by
  cases v6 <;> simpa [ipRangeOk, addrOk] using h

theorem cidrStr_toList (v6 : Bool) (a n : Nat) : (cidrStr v6 a n).toList =
    if n = hostLen v6 then (addrStr v6 a).toList
    else (addrStr v6 a).toList ++ '/' :: Nat.toDigits 10 n := by
  unfold cidrStr
  split <;> simp [String.toList_append]

theorem cidrStr_inj {S : Nat → Bool} (h6 : V6InjOn S) {v v' : Bool} {a a' n n' : Nat}
    (ha : addrOk S v a) (ha' : addrOk S v' a') (h : cidrStr v a n = cidrStr v' a' n') :
    v = v' ∧ a = a' ∧ n = n' := by
  have h' := congrArg String.toList h
  rw [cidrStr_toList, cidrStr_toList] at h'
  by_cases hn : n = hostLen v <;> by_cases hn' : n' = hostLen v' <;>
    simp only [hn, hn', if_true, if_false] at h'
  · obtain ⟨rfl, rfl⟩ := addrStr_inj h6 ha ha' (String.toList_inj.mp h')
    exact ⟨rfl, rfl, by rw [hn, hn']⟩
  · exact absurd (h' ▸ (by simp : '/' ∈ (addrStr v' a').toList ++ '/' :: Nat.toDigits 10 n'))
      (addrStr_no_slash v a)
  · exact absurd (h'.symm ▸ (by simp : '/' ∈ (addrStr v a).toList ++ '/' :: Nat.toDigits 10 n))
      (addrStr_no_slash v' a')
  · obtain ⟨e1, e2⟩ := split_at_sep '/' _ _ _ _ (addrStr_no_slash _ _) (addrStr_no_slash _ _) h'
    obtain ⟨rfl, rfl⟩ := addrStr_inj h6 ha ha' (String.toList_inj.mp e1)
    exact ⟨rfl, rfl, toDigits10_inj e2⟩

theorem ipRangeJ_inj {S : Nat → Bool} (h6 : V6InjOn S) {r r' : IpRangeLit} (hr : ipRangeOk S r = true)
    (hr' : ipRangeOk S r' = true) (h : ipRangeJ r = ipRangeJ r') : r = r' := by
  cases r with
  | explicit v lo hi =>
    cases r' with
    | explicit v' lo' hi' =>
      rw [ipRangeJ_explicit, ipRangeJ_explicit] at h
      simp only [rangeJ, J.obj.injEq, List.cons.injEq, Prod.mk.injEq, J.str.injEq, true_and,
        and_true] at h
      obtain ⟨h1, h2⟩ := ipRangeOk_explicit hr
      obtain ⟨h1', h2'⟩ := ipRangeOk_explicit hr'
      obtain ⟨rfl, rfl⟩ := addrStr_inj h6 h1 h1' h.1
      obtain ⟨_, rfl⟩ := addrStr_inj h6 h2 h2' h.2
      rfl
    | cidr v' a' n' =>
      rw [ipRangeJ_explicit, ipRangeJ_cidr] at h; simp [rangeJ] at h
  | cidr v a n =>
    cases r' with
    | explicit v' lo' hi' =>
      rw [ipRangeJ_explicit, ipRangeJ_cidr] at h; simp [rangeJ] at h
    | cidr v' a' n' =>
      rw [ipRangeJ_cidr, ipRangeJ_cidr] at h
      simp only [J.str.injEq] at h
      obtain ⟨rfl, rfl, rfl⟩ := cidrStr_inj h6 (ipRangeOk_cidr hr) (ipRangeOk_cidr hr') h
      rfl

end WfModel.C07L
