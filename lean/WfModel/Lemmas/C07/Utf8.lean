import WfModel.Model.Lit

/-!
# C07 helper — the strict UTF-8 decoder of the model is injective

`bytesLitJ` prints a byte literal as a JSON string when the bytes are valid UTF-8; two byte
strings with the same decoded text are equal.
-/
namespace WfModel.C07L

open WfModel

theorem toNat_ofNat_valid (n : Nat) (h : n.isValidChar) : (Char.ofNat n).toNat = n := by
  unfold Char.ofNat
  rw [dif_pos h]
  simp [Char.ofNatAux, Char.toNat]

theorem ofNat_inj_valid {n m : Nat} (hn : n.isValidChar) (hm : m.isValidChar)
    (h : Char.ofNat n = Char.ofNat m) : n = m := by
  have h1 := toNat_ofNat_valid n hn
  have h2 := toNat_ofNat_valid m hm
  rw [h] at h1; omega

/-- `pre` is the (strict) UTF-8 encoding of code point `cp`, as accepted by `utf8DecodeGo` -/
def Enc (cp : Nat) (pre : Bytes) : Prop :=
  (∃ b0 : UInt8, pre = [b0] ∧ b0.toNat < 0x80 ∧ cp = b0.toNat) ∨
  (∃ b0 b1 : UInt8, pre = [b0, b1] ∧ 0xC2 ≤ b0.toNat ∧ b0.toNat < 0xE0 ∧
      0x80 ≤ b1.toNat ∧ b1.toNat < 0xC0 ∧ cp = (b0.toNat - 0xC0) * 64 + (b1.toNat - 0x80)) ∨
  (∃ b0 b1 b2 : UInt8, pre = [b0, b1, b2] ∧ 0xE0 ≤ b0.toNat ∧ b0.toNat < 0xF0 ∧
      (b0.toNat = 0xE0 → 0xA0 ≤ b1.toNat) ∧ 0x80 ≤ b1.toNat ∧
      (b0.toNat = 0xED → b1.toNat < 0xA0) ∧ b1.toNat < 0xC0 ∧
      0x80 ≤ b2.toNat ∧ b2.toNat < 0xC0 ∧
      cp = (b0.toNat - 0xE0) * 4096 + (b1.toNat - 0x80) * 64 + (b2.toNat - 0x80)) ∨
  (∃ b0 b1 b2 b3 : UInt8, pre = [b0, b1, b2, b3] ∧ 0xF0 ≤ b0.toNat ∧ b0.toNat < 0xF5 ∧
      (b0.toNat = 0xF0 → 0x90 ≤ b1.toNat) ∧ 0x80 ≤ b1.toNat ∧
      (b0.toNat = 0xF4 → b1.toNat < 0x90) ∧ b1.toNat < 0xC0 ∧
      0x80 ≤ b2.toNat ∧ b2.toNat < 0xC0 ∧ 0x80 ≤ b3.toNat ∧ b3.toNat < 0xC0 ∧
      cp = (b0.toNat - 0xF0) * 262144 + (b1.toNat - 0x80) * 4096 + (b2.toNat - 0x80) * 64
        + (b3.toNat - 0x80))

theorem go_step (f : Nat) (b0 : UInt8) (r : Bytes) (s : List Char)
    (h : utf8DecodeGo (f + 1) (b0 :: r) = some s) :
    ∃ cp pre rest s1, b0 :: r = pre ++ rest ∧ Enc cp pre ∧ s = Char.ofNat cp :: s1 ∧
      utf8DecodeGo f rest = some s1 := by
  by_cases h0 : b0.toNat < 0x80
  · simp only [utf8DecodeGo, h0, if_true, Option.map_eq_some_iff] at h
    obtain ⟨s1, hs1, rfl⟩ := h
    exact ⟨_, [b0], r, s1, rfl, Or.inl ⟨b0, rfl, h0, rfl⟩, rfl, hs1⟩
  by_cases h1 : b0.toNat < 0xC2
  · simp [utf8DecodeGo, h0, h1] at h
  by_cases h2 : b0.toNat < 0xE0
  · match r, h with
    | [], h => simp [utf8DecodeGo, h0, h1, h2] at h
    | b1 :: r1, h =>
      simp only [utf8DecodeGo, h0, h1, h2, if_true, if_false, Option.ite_none_right_eq_some,
        Option.map_eq_some_iff, Bool.and_eq_true, decide_eq_true_eq] at h
      obtain ⟨hc, s1, hs1, rfl⟩ := h
      refine ⟨_, [b0, b1], r1, s1, rfl, Or.inr (Or.inl ⟨b0, b1, rfl, ?_⟩), rfl, hs1⟩
      omega
  by_cases h3 : b0.toNat < 0xF0
  · match r, h with
    | [], h => simp [utf8DecodeGo, h0, h1, h2, h3] at h
    | [_], h => simp [utf8DecodeGo, h0, h1, h2, h3] at h
    | b1 :: b2 :: r2, h =>
      simp only [utf8DecodeGo, h0, h1, h2, h3, if_true, if_false, Option.ite_none_right_eq_some,
        Option.map_eq_some_iff, Bool.and_eq_true, decide_eq_true_eq] at h
      obtain ⟨hc, s1, hs1, rfl⟩ := h
      refine ⟨_, [b0, b1, b2], r2, s1, rfl,
        Or.inr (Or.inr (Or.inl ⟨b0, b1, b2, rfl, ?_⟩)), rfl, hs1⟩
      split at hc <;> split at hc <;> omega
  by_cases h4 : b0.toNat < 0xF5
  · match r, h with
    | [], h => simp [utf8DecodeGo, h0, h1, h2, h3, h4] at h
    | [_], h => simp [utf8DecodeGo, h0, h1, h2, h3, h4] at h
    | [_, _], h => simp [utf8DecodeGo, h0, h1, h2, h3, h4] at h
    | b1 :: b2 :: b3 :: r3, h =>
      simp only [utf8DecodeGo, h0, h1, h2, h3, h4, if_true, if_false,
        Option.ite_none_right_eq_some, Option.map_eq_some_iff, Bool.and_eq_true,
        decide_eq_true_eq] at h
      obtain ⟨hc, s1, hs1, rfl⟩ := h
      refine ⟨_, [b0, b1, b2, b3], r3, s1, rfl,
        Or.inr (Or.inr (Or.inr ⟨b0, b1, b2, b3, rfl, ?_⟩)), rfl, hs1⟩
      split at hc <;> split at hc <;> omega
  · simp [utf8DecodeGo, h0, h1, h2, h3, h4] at h

theorem Enc_valid {cp : Nat} {pre : Bytes} (h : Enc cp pre) : cp.isValidChar := by
  unfold Nat.isValidChar
  rcases h with ⟨b0, _, h⟩ | ⟨b0, b1, _, h⟩ | ⟨b0, b1, b2, _, h⟩ | ⟨b0, b1, b2, b3, _, h⟩ <;> omega

theorem Enc_inj {cp : Nat} {p q : Bytes} (hp : Enc cp p) (hq : Enc cp q) : p = q := by
  rcases hp with ⟨a0, rfl, hp⟩ | ⟨a0, a1, rfl, hp⟩ | ⟨a0, a1, a2, rfl, hp⟩ |
      ⟨a0, a1, a2, a3, rfl, hp⟩ <;>
    rcases hq with ⟨b0, rfl, hq⟩ | ⟨b0, b1, rfl, hq⟩ | ⟨b0, b1, b2, rfl, hq⟩ |
      ⟨b0, b1, b2, b3, rfl, hq⟩ <;>
    first
    | (exfalso; omega)
    | (have e0 : a0 = b0 := UInt8.toNat_inj.mp (by omega)
       subst e0; rfl)
    | (have e0 : a0 = b0 := UInt8.toNat_inj.mp (by omega)
       have e1 : a1 = b1 := UInt8.toNat_inj.mp (by omega)
       subst e0; subst e1; rfl)
    | (have e0 : a0 = b0 := UInt8.toNat_inj.mp (by omega)
       have e1 : a1 = b1 := UInt8.toNat_inj.mp (by omega)
       have e2 : a2 = b2 := UInt8.toNat_inj.mp (by omega)
       subst e0; subst e1; subst e2; rfl)
    | (have e0 : a0 = b0 := UInt8.toNat_inj.mp (by omega)
       have e1 : a1 = b1 := UInt8.toNat_inj.mp (by omega)
       have e2 : a2 = b2 := UInt8.toNat_inj.mp (by omega)
       have e3 : a3 = b3 := UInt8.toNat_inj.mp (by omega)
       subst e0; subst e1; subst e2; subst e3; rfl)

theorem utf8DecodeGo_nil {f : Nat} {d : Bytes} (h : utf8DecodeGo f d = some []) : d = [] := by
  cases f with
  | zero => simp [utf8DecodeGo] at h
  | succ f =>
    cases d with
    | nil => rfl
    | cons b0 r =>
      obtain ⟨_, _, _, _, _, _, h3, _⟩ := go_step f b0 r [] h
      simp at h3

theorem utf8DecodeGo_inj : ∀ (f f' : Nat) (d d' : Bytes) (s : List Char),
    utf8DecodeGo f d = some s → utf8DecodeGo f' d' = some s → d = d' := by
  intro f
  induction f with
  | zero => intro f' d d' s h; simp [utf8DecodeGo] at h
  | succ f ih =>
    intro f' d d' s h h'
    cases d with
    | nil =>
      simp only [utf8DecodeGo, Option.some.injEq] at h
      subst h
      exact (utf8DecodeGo_nil h').symm
    | cons b0 r =>
      obtain ⟨cp, pre, rest, s1, hd, henc, hs, hgo⟩ := go_step f b0 r s h
      cases f' with
      | zero => simp [utf8DecodeGo] at h'
      | succ f' =>
        cases d' with
        | nil =>
          simp only [utf8DecodeGo, Option.some.injEq] at h'
          subst h'; simp at hs
        | cons c0 r' =>
          obtain ⟨cp', pre', rest', s1', hd', henc', hs', hgo'⟩ := go_step f' c0 r' s h'
          rw [hs] at hs'
          simp only [List.cons.injEq] at hs'
          obtain ⟨hc, rfl⟩ := hs'
          have hcp := ofNat_inj_valid (Enc_valid henc) (Enc_valid henc') hc
          subst hcp
          rw [hd, hd', Enc_inj henc henc', ih f' rest rest' s1 hgo hgo']

/-- two byte strings that decode (strictly) to the same text are equal -/
theorem utf8Decode_inj {d d' : Bytes} {s : List Char}
    (h : utf8Decode d = some s) (h' : utf8Decode d' = some s) : d = d' :=
  utf8DecodeGo_inj _ _ _ _ _ h h'

end WfModel.C07L
