import WfModel.Lemmas.C07.Utf8
import WfModel.Lemmas.C07.Str

/-!
# C07 helper — the leaves of the JSON document are injective modulo `norm`
-/
namespace WfModel.C07L

open WfModel WfModel.C07

theorem map_congr_of_inj {α β γ} (f : α → β) (g : α → γ) (P : α → Prop)
    (hf : ∀ a b, P a → P b → f a = f b → g a = g b) :
    ∀ xs ys : List α, (∀ x ∈ xs, P x) → (∀ y ∈ ys, P y) → xs.map f = ys.map f →
      xs.map g = ys.map g := by
  intro xs
  induction xs with
  | nil => intro ys _ _ h; cases ys <;> simp_all
  | cons x xs ih =>
    intro ys hx hy h
    cases ys with
    | nil => simp at h
    | cons y ys =>
      simp only [List.map_cons, List.cons.injEq] at h ⊢
      exact ⟨hf _ _ (hx x (by simp)) (hy y (by simp)) h.1,
        ih ys (fun a ha => hx a (by simp [ha])) (fun a ha => hy a (by simp [ha])) h.2⟩

theorem map_inj_of_inj {α β} (f : α → β) (hf : ∀ a b, f a = f b → a = b)
    (xs ys : List α) (h : xs.map f = ys.map f) : xs = ys := by
  have := map_congr_of_inj f id (fun _ => True) (fun a b _ _ => hf a b) xs ys
    (fun _ _ => trivial) (fun _ _ => trivial) h
  simpa using this

/-! ### byte literals -/

theorem bytesArrJ_inj {a b : Bytes} (h : bytesArrJ a = bytesArrJ b) : a = b := by
  simp only [bytesArrJ, J.arr.injEq] at h
  refine map_inj_of_inj _ ?_ _ _ h
  intro x y hxy
  simp only [J.int.injEq] at hxy
  exact UInt8.toNat_inj.mp (by omega)

theorem bytesLitJ_norm (b : BytesLit) : bytesLitJ (normBytes b) = bytesLitJ b := by
  obtain ⟨fmt, d⟩ := b
  cases fmt <;> simp only [normBytes, bytesLitJ] <;> cases h : utf8Decode d <;> simp [h]

theorem bytesLitJ_inj {a b : BytesLit} (h : bytesLitJ a = bytesLitJ b) :
    normBytes a = normBytes b := by
  obtain ⟨fa, da⟩ := a
  obtain ⟨fb, db⟩ := b
  simp only [bytesLitJ, normBytes] at h ⊢
  cases ha : utf8Decode da <;> cases hb : utf8Decode db <;> cases fa <;> cases fb <;>
    simp only [ha, hb] at h ⊢ <;>
    first
    | (have := bytesArrJ_inj h; subst this; rfl)
    | (simp [bytesArrJ] at h; done)
    | (simp only [J.str.injEq, String.ofList_inj] at h; subst h
       have := utf8Decode_inj ha hb; subst this; rfl)

theorem normBytes_idem (b : BytesLit) : normBytes (normBytes b) = normBytes b :=
  bytesLitJ_inj (bytesLitJ_norm b)

theorem bytesLitJ_ne_int (b : BytesLit) (i : Int) : bytesLitJ b ≠ .int i := by
  obtain ⟨f, d⟩ := b
  simp only [bytesLitJ, bytesArrJ]
  cases f <;> cases utf8Decode d <;> simp

/-! ### right-hand sides -/

theorem normRhs_typeOf (v : RhsVal) : (normRhs v).typeOf = v.typeOf := by
  cases v <;> rfl

theorem valsTy_norm (vs : RhsVals) : valsTy (normRhsVals vs) = valsTy vs := by
  cases vs <;> rfl

theorem rhsValJ_norm (v : RhsVal) : rhsValJ (normRhs v) = rhsValJ v := by
  cases v <;> simp [normRhs, rhsValJ, bytesLitJ_norm]

theorem rhsValJ_inj {S : Nat → Bool} (h6 : V6InjOn S) {v v' : RhsVal} (hv : rhsOk S v = true)
    (hv' : rhsOk S v' = true) (hk : v.typeOf = v'.typeOf) (h : rhsValJ v = rhsValJ v') :
    normRhs v = normRhs v' := by
  cases v <;> cases v' <;> simp only [RhsVal.typeOf, reduceCtorEq] at hk
  · simp only [rhsValJ, J.int.injEq] at h; subst h; rfl
  · simp only [rhsValJ, J.str.injEq] at h
    simp only [rhsOk] at hv hv'
    rw [ipStr_inj h6 hv hv' h]
  · simp only [rhsValJ] at h
    simp only [normRhs, bytesLitJ_inj h]

theorem rhsValsJ_norm (vs : RhsVals) : rhsValsJ (normRhsVals vs) = rhsValsJ vs := by
  cases vs <;> simp [normRhsVals, rhsValsJ, Function.comp_def, bytesLitJ_norm]

theorem rhsValsJ_inj {S : Nat → Bool} (h6 : V6InjOn S) {vs vs' : RhsVals} (hv : opOk S (.oneOf vs) = true)
    (hv' : opOk S (.oneOf vs') = true) (hk : valsTy vs = valsTy vs')
    (h : rhsValsJ vs = rhsValsJ vs') : normRhsVals vs = normRhsVals vs' := by
  cases vs <;> cases vs' <;> simp only [valsTy, reduceCtorEq] at hk
  · next rs rs' =>
    simp only [rhsValsJ, J.arr.injEq] at h
    have := map_inj_of_inj _ (fun (a b : Int × Int) hab => by
      simp only [rangeJ, J.obj.injEq, List.cons.injEq, Prod.mk.injEq, J.int.injEq, true_and,
        and_true] at hab
      exact Prod.ext hab.1 hab.2) _ _ h
    subst this; rfl
  · next rs rs' =>
    simp only [rhsValsJ, J.arr.injEq] at h
    simp only [opOk] at hv hv'
    have hall : ∀ (l : List IpRangeLit), ipRangesOk S l = true → ∀ r ∈ l, ipRangeOk S r = true := by
      intro l
      induction l with
      | nil => simp
      | cons r l ih =>
        intro hl x hx
        simp only [ipRangesOk, Bool.and_eq_true] at hl
        rcases List.mem_cons.mp hx with rfl | hx
        · exact hl.1
        · exact ih hl.2 x hx
    have := map_congr_of_inj ipRangeJ id (fun r => ipRangeOk S r = true)
      (fun a b ha hb hab => ipRangeJ_inj h6 ha hb hab) _ _ (hall _ hv) (hall _ hv') h
    simp only [List.map_id] at this
    subst this; rfl
  · next bs bs' =>
    simp only [rhsValsJ, J.arr.injEq] at h
    have := map_congr_of_inj bytesLitJ normBytes (fun _ => True)
      (fun a b _ _ hab => bytesLitJ_inj hab) _ _ (fun _ _ => trivial) (fun _ _ => trivial) h
    simp only [normRhsVals, this]

/-! ### indexes -/

theorem fieldIndexJ_inj {a b : FieldIndex} (h : fieldIndexJ a = fieldIndexJ b) : a = b := by
  cases a <;> cases b <;> simp [fieldIndexJ] at h
  · next n m => rw [show n = m by omega]
  · next k l => rw [String.ofList_inj.mp h]
  · rfl

theorem fieldIndexesJ_inj {a b : List FieldIndex}
    (h : a.map fieldIndexJ = b.map fieldIndexJ) : a = b :=
  map_inj_of_inj _ (fun _ _ => fieldIndexJ_inj) _ _ h

/-! ### names -/

theorem nodup_map_getElem_inj {α β} [DecidableEq β] (f : α → β) :
    ∀ (l : List α), (l.map f).Nodup → ∀ i j (hi : i < l.length) (hj : j < l.length),
      f l[i] = f l[j] → i = j := by
  intro l
  induction l with
  | nil => intro _ i j hi; simp at hi
  | cons x l ih =>
    intro hn i j hi hj h
    simp only [List.map_cons, List.nodup_cons, List.mem_map, not_exists, not_and] at hn
    cases i with
    | zero =>
      cases j with
      | zero => rfl
      | succ j =>
        simp only [List.getElem_cons_zero, List.getElem_cons_succ] at h
        exact absurd h.symm (hn.1 _ (List.getElem_mem _))
    | succ i =>
      cases j with
      | zero =>
        simp only [List.getElem_cons_zero, List.getElem_cons_succ] at h
        exact absurd h (hn.1 _ (List.getElem_mem _))
      | succ j =>
        simp only [List.getElem_cons_succ] at h
        rw [ih hn.2 i j (by simpa using hi) (by simpa using hj) h]

theorem fieldName_inj {s : Scheme} (hs : NamesDistinct s) {i j : Nat}
    (hi : i < s.fields.length) (hj : j < s.fields.length)
    (h : s.fieldName i = s.fieldName j) : i = j := by
  simp only [Scheme.fieldName, List.getElem?_eq_getElem hi, List.getElem?_eq_getElem hj,
    String.ofList_inj] at h
  exact nodup_map_getElem_inj (·.name) _ hs.1 i j hi hj h

theorem funcName_inj {s : Scheme} (hs : NamesDistinct s) {i j : Nat}
    (hi : i < s.funcs.length) (hj : j < s.funcs.length)
    (h : s.funcName i = s.funcName j) : i = j := by
  simp only [Scheme.funcName, List.getElem?_eq_getElem hi, List.getElem?_eq_getElem hj,
    String.ofList_inj] at h
  exact nodup_map_getElem_inj (·.1) _ hs.2 i j hi hj h

/-! ### operator names and comparison nodes -/

theorem ordName_inj {a b : OrdOp} (h : a.name = b.name) : a = b := by
  cases a <;> cases b <;> first | rfl | (simp [OrdOp.name] at h)

theorem logicalName_inj {a b : LogicalOp} (h : a.name = b.name) : a = b := by
  cases a <;> cases b <;> first | rfl | (simp [LogicalOp.name] at h)

theorem qName_inj {a b : QOp} (h : a.name = b.name) : a = b := by
  cases a <;> cases b <;> first | rfl | (simp [QOp.name] at h)

theorem cmpOpFields_norm (o : CmpOp) : cmpOpFields (normOp o) = cmpOpFields o := by
  cases o with
  | wildcard st b => cases st <;> simp [normOp, cmpOpFields, bytesLitJ_norm]
  | _ => simp [normOp, cmpOpFields, bytesLitJ_norm, rhsValJ_norm, rhsValsJ_norm]

/-- the `"op"` string of a comparison node -/
def opName : CmpOp → String
  | .isTrue => "IsTrue"
  | .ordering o _ => o.name
  | .bitAnd _ => "BitwiseAnd"
  | .contains _ => "Contains"
  | .matches _ _ => "Matches"
  | .wildcard false _ => "Wildcard"
  | .wildcard true _ => "Strict Wildcard"
  | .oneOf _ => "OneOf"
  | .inList _ _ => "InList"

theorem cmpOpFields_head (o : CmpOp) : (cmpOpFields o).head? = some ("op", .str (opName o)) := by
  cases o with
  | wildcard st b => cases st <;> rfl
  | _ => rfl

/-- constructor tag -/
def opTag : CmpOp → Nat
  | .isTrue => 0 | .ordering _ _ => 1 | .bitAnd _ => 2 | .contains _ => 3 | .matches _ _ => 4
  | .wildcard false _ => 5 | .wildcard true _ => 6 | .oneOf _ => 7 | .inList _ _ => 8

theorem opName_tag {o o' : CmpOp} (h : opName o = opName o') : opTag o = opTag o' := by
  cases o with
  | ordering a _ =>
    cases o' with
    | ordering a' _ => rfl
    | wildcard st _ => cases st <;> cases a <;> simp [opName, OrdOp.name] at h
    | _ => cases a <;> simp [opName, OrdOp.name] at h
  | wildcard st _ =>
    cases o' with
    | ordering a' _ => cases st <;> cases a' <;> simp [opName, OrdOp.name] at h
    | wildcard st' _ => cases st <;> cases st' <;> first | rfl | simp [opName] at h
    | _ => cases st <;> simp [opName] at h
  | _ =>
    cases o' with
    | ordering a' _ => cases a' <;> simp [opName, OrdOp.name] at h
    | wildcard st' _ => cases st' <;> simp [opName] at h
    | _ => first | rfl | simp [opName] at h

theorem opName_eq_of_fields {o o' : CmpOp} (h : cmpOpFields o = cmpOpFields o') :
    opName o = opName o' := by
  have := congrArg List.head? h
  rw [cmpOpFields_head, cmpOpFields_head] at this
  simpa using this

theorem opTag_wildcard_ne (st : Bool) (b : BytesLit) : opTag (.wildcard st b) = 5 ∨ opTag (.wildcard st b) = 6 := by
  cases st <;> simp [opTag]

theorem cmpOpFields_inj {S : Nat → Bool} (h6 : V6InjOn S) {o o' : CmpOp} (ho : opOk S o = true)
    (ho' : opOk S o' = true) (hk : kOp (normOp o) (normOp o') = true)
    (h : cmpOpFields o = cmpOpFields o') : normOp o = normOp o' := by
  have hn := opName_eq_of_fields h
  have ht := opName_tag hn
  cases o with
  | isTrue => cases o' <;> first | rfl | (simp [opTag] at ht; done) | (next st _ => cases st <;> simp [opTag] at ht)
  | ordering a r =>
    cases o' with
    | ordering a' r' =>
      simp only [cmpOpFields, List.cons.injEq, Prod.mk.injEq, J.str.injEq, true_and, and_true] at h
      simp only [normOp, kOp, normRhs_typeOf, beq_iff_eq] at hk
      simp only [opOk] at ho ho'
      simp only [normOp, ordName_inj h.1, rhsValJ_inj h6 ho ho' hk h.2]
    | wildcard st _ => cases st <;> simp [opTag] at ht
    | _ => simp [opTag] at ht
  | bitAnd r =>
    cases o' with
    | bitAnd r' =>
      simp only [cmpOpFields, List.cons.injEq, Prod.mk.injEq, J.int.injEq, true_and, and_true] at h
      subst h; rfl
    | wildcard st _ => cases st <;> simp [opTag] at ht
    | _ => simp [opTag] at ht
  | contains b =>
    cases o' with
    | contains b' =>
      simp only [cmpOpFields, List.cons.injEq, Prod.mk.injEq, true_and, and_true] at h
      simp only [normOp, bytesLitJ_inj h]
    | wildcard st _ => cases st <;> simp [opTag] at ht
    | _ => simp [opTag] at ht
  | «matches» p f =>
    cases o' with
    | «matches» p' f' =>
      simp only [cmpOpFields, List.cons.injEq, Prod.mk.injEq, J.str.injEq, String.ofList_inj,
        true_and, and_true] at h
      subst h; rfl
    | wildcard st _ => cases st <;> simp [opTag] at ht
    | _ => simp [opTag] at ht
  | wildcard st b =>
    cases o' with
    | wildcard st' b' =>
      cases st <;> cases st' <;> simp only [opTag] at ht <;>
        first
        | omega
        | (simp only [cmpOpFields, List.cons.injEq, Prod.mk.injEq, true_and, and_true] at h
           simp only [normOp, bytesLitJ_inj h])
    | _ => cases st <;> simp [opTag] at ht
  | oneOf vs =>
    cases o' with
    | oneOf vs' =>
      simp only [cmpOpFields, List.cons.injEq, Prod.mk.injEq, true_and, and_true] at h
      simp only [normOp, kOp, valsTy_norm, beq_iff_eq] at hk
      simp only [normOp, rhsValsJ_inj h6 ho ho' hk h]
    | wildcard st _ => cases st <;> simp [opTag] at ht
    | _ => simp [opTag] at ht
  | inList i n =>
    cases o' with
    | inList i' n' =>
      simp only [cmpOpFields, List.cons.injEq, Prod.mk.injEq, J.str.injEq, String.ofList_inj,
        true_and, and_true] at h
      subst h; rfl
    | wildcard st _ => cases st <;> simp [opTag] at ht
    | _ => simp [opTag] at ht

end WfModel.C07L
