import WfModel.Model.Eval

/-! Helper definitions and lemmas for C01, parts 1-3: operator meaning, nil rule, boolean
folds (no property statements here). -/
namespace WfModel

/-! ### 1. meaning of the ordering operators -/

/-- the mathematical meaning of an ordering operator on the outcome of a three-way
comparison `lhs ? rhs` -/
def OrdOp.denote : OrdOp → Ordering → Prop
  | .eq, o => o = .eq
  | .ne, o => o ≠ .eq
  | .ge, o => o ≠ .lt
  | .le, o => o ≠ .gt
  | .gt, o => o = .gt
  | .lt, o => o = .lt

instance (op : OrdOp) (o : Ordering) : Decidable (op.denote o) := by
  cases op <;> unfold OrdOp.denote <;> infer_instance

/-- the relation an ordering operator denotes on integers -/
def OrdOp.intRel : OrdOp → Int → Int → Prop
  | .eq, a, b => a = b
  | .ne, a, b => a ≠ b
  | .ge, a, b => a ≥ b
  | .le, a, b => a ≤ b
  | .gt, a, b => a > b
  | .lt, a, b => a < b

instance (op : OrdOp) (a b : Int) : Decidable (op.intRel a b) := by
  cases op <;> unfold OrdOp.intRel <;> infer_instance

/-- the relation an ordering operator denotes on naturals (IP addresses of one family) -/
def OrdOp.natRel : OrdOp → Nat → Nat → Prop
  | .eq, a, b => a = b
  | .ne, a, b => a ≠ b
  | .ge, a, b => a ≥ b
  | .le, a, b => a ≤ b
  | .gt, a, b => a > b
  | .lt, a, b => a < b

instance (op : OrdOp) (a b : Nat) : Decidable (op.natRel a b) := by
  cases op <;> unfold OrdOp.natRel <;> infer_instance

theorem matchesOrd_iff (op : OrdOp) (o : Ordering) : op.matchesOrd o = true ↔ op.denote o := by
  cases op <;> cases o <;> decide

theorem cmpInt_lt (a b : Int) : cmpInt a b = .lt ↔ a < b := by
  unfold cmpInt; split
  · simp [*]
  · split <;> simp [*]

theorem cmpInt_gt (a b : Int) : cmpInt a b = .gt ↔ b < a := by
  unfold cmpInt; split
  · simp; omega
  · split <;> simp [*]

theorem cmpInt_eq (a b : Int) : cmpInt a b = .eq ↔ a = b := by
  unfold cmpInt; split
  · simp; omega
  · split
    · simp; omega
    · simp; omega

theorem cmpNat_lt (a b : Nat) : cmpNat a b = .lt ↔ a < b := by
  unfold cmpNat; split
  · simp [*]
  · split <;> simp [*]

theorem cmpNat_gt (a b : Nat) : cmpNat a b = .gt ↔ b < a := by
  unfold cmpNat; split
  · simp; omega
  · split <;> simp [*]

theorem cmpNat_eq (a b : Nat) : cmpNat a b = .eq ↔ a = b := by
  unfold cmpNat; split
  · simp; omega
  · split
    · simp; omega
    · simp; omega

theorem ordering_ne_lt (o : Ordering) : o ≠ .lt ↔ (o = .gt ∨ o = .eq) := by cases o <;> decide
theorem ordering_ne_gt (o : Ordering) : o ≠ .gt ↔ (o = .lt ∨ o = .eq) := by cases o <;> decide
theorem ordering_ne_eq (o : Ordering) : o ≠ .eq ↔ (o = .lt ∨ o = .gt) := by cases o <;> decide

theorem denote_cmpInt (op : OrdOp) (a b : Int) : op.denote (cmpInt a b) ↔ op.intRel a b := by
  cases op <;> simp only [OrdOp.denote, OrdOp.intRel, ordering_ne_lt, ordering_ne_gt,
    ordering_ne_eq, cmpInt_lt, cmpInt_gt, cmpInt_eq] <;> omega

theorem denote_cmpNat (op : OrdOp) (a b : Nat) : op.denote (cmpNat a b) ↔ op.natRel a b := by
  cases op <;> simp only [OrdOp.denote, OrdOp.natRel, ordering_ne_lt, ordering_ne_gt,
    ordering_ne_eq, cmpNat_lt, cmpNat_gt, cmpNat_eq] <;> omega

theorem matchesOrd_cmpInt (op : OrdOp) (a b : Int) :
    op.matchesOrd (cmpInt a b) = decide (op.intRel a b) := by
  rw [Bool.eq_iff_iff, matchesOrd_iff, denote_cmpInt]; simp

theorem matchesOrd_cmpNat (op : OrdOp) (a b : Nat) :
    op.matchesOrd (cmpNat a b) = decide (op.natRel a b) := by
  rw [Bool.eq_iff_iff, matchesOrd_iff, denote_cmpNat]; simp

/-! ### lexicographic byte order -/

/-- textbook strict lexicographic order: `a` is a proper prefix of `b`, or they agree on a
prefix after which `a`'s byte is the smaller one -/
def LexLt (a b : Bytes) : Prop :=
  (∃ c t, b = a ++ c :: t) ∨
  (∃ p x y s t, a = p ++ x :: s ∧ b = p ++ y :: t ∧ x < y)

theorem lexLt_nil_cons (b : UInt8) (bs : Bytes) : LexLt [] (b :: bs) :=
  Or.inl ⟨b, bs, rfl⟩

theorem not_lexLt_nil (a : Bytes) : ¬ LexLt a [] := by
  rintro (⟨c, t, h⟩ | ⟨p, x, y, s, t, _, h, _⟩)
  · cases a <;> simp at h
  · cases p <;> simp at h

theorem lexLt_cons_cons (a b : UInt8) (as bs : Bytes) :
    LexLt (a :: as) (b :: bs) ↔ a < b ∨ (a = b ∧ LexLt as bs) := by
  constructor
  · rintro (⟨c, t, h⟩ | ⟨p, x, y, s, t, h1, h2, hxy⟩)
    · simp only [List.cons_append, List.cons.injEq] at h
      exact Or.inr ⟨h.1.symm, Or.inl ⟨c, t, h.2⟩⟩
    · cases p with
      | nil =>
        simp only [List.nil_append, List.cons.injEq] at h1 h2
        rw [h1.1, h2.1]; exact Or.inl hxy
      | cons q p =>
        simp only [List.cons_append, List.cons.injEq] at h1 h2
        exact Or.inr ⟨h1.1.trans h2.1.symm, Or.inr ⟨p, x, y, s, t, h1.2, h2.2, hxy⟩⟩
  · rintro (h | ⟨rfl, (⟨c, t, h⟩ | ⟨p, x, y, s, t, h1, h2, hxy⟩)⟩)
    · exact Or.inr ⟨[], a, b, as, bs, rfl, rfl, h⟩
    · exact Or.inl ⟨c, t, by simp [h]⟩
    · exact Or.inr ⟨a :: p, x, y, s, t, by simp [h1], by simp [h2], hxy⟩

theorem u8_lt_asymm {a b : UInt8} (h : a < b) : ¬ b < a := by
  rw [UInt8.lt_iff_toNat_lt] at *; omega

theorem u8_eq_of_not_lt {a b : UInt8} (h1 : ¬ a < b) (h2 : ¬ b < a) : a = b := by
  rw [UInt8.lt_iff_toNat_lt] at *
  apply UInt8.toNat_inj.mp; omega

theorem cmpBytes_lt_iff (a b : Bytes) : cmpBytes a b = .lt ↔ LexLt a b := by
  induction a generalizing b with
  | nil =>
    cases b with
    | nil => simp [cmpBytes, not_lexLt_nil]
    | cons b bs => simp [cmpBytes, lexLt_nil_cons]
  | cons a as ih =>
    cases b with
    | nil => simp [cmpBytes, not_lexLt_nil]
    | cons b bs =>
      rw [lexLt_cons_cons]
      unfold cmpBytes
      by_cases h1 : a < b
      · simp [h1]
      · by_cases h2 : b < a
        · have hne : a ≠ b := by rintro rfl; exact h1 h2
          simp [h1, h2, hne]
        · have := u8_eq_of_not_lt h1 h2
          subst this
          simp [h1, ih]

theorem cmpBytes_eq_iff (a b : Bytes) : cmpBytes a b = .eq ↔ a = b := by
  induction a generalizing b with
  | nil => cases b <;> simp [cmpBytes]
  | cons a as ih =>
    cases b with
    | nil => simp [cmpBytes]
    | cons b bs =>
      unfold cmpBytes
      by_cases h1 : a < b
      · have hne : a ≠ b := by rintro rfl; exact u8_lt_asymm h1 h1
        simp [h1, hne]
      · by_cases h2 : b < a
        · have hne : a ≠ b := by rintro rfl; exact h1 h2
          simp [h1, h2, hne]
        · have := u8_eq_of_not_lt h1 h2
          subst this
          simp [h1, ih]

theorem cmpBytes_gt_iff (a b : Bytes) : cmpBytes a b = .gt ↔ cmpBytes b a = .lt := by
  induction a generalizing b with
  | nil => cases b <;> simp [cmpBytes]
  | cons a as ih =>
    cases b with
    | nil => simp [cmpBytes]
    | cons b bs =>
      unfold cmpBytes
      by_cases h1 : a < b
      · have h2 := u8_lt_asymm h1
        simp [h1, h2]
      · by_cases h2 : b < a
        · simp [h1, h2]
        · simp [h1, h2, ih]

theorem lexLt_irrefl (a : Bytes) : ¬ LexLt a a := by
  intro h
  have h1 := (cmpBytes_lt_iff a a).mpr h
  have h2 := (cmpBytes_eq_iff a a).mpr rfl
  rw [h1] at h2; cases h2

theorem lexLt_asymm {a b : Bytes} (h : LexLt a b) : ¬ LexLt b a := by
  intro h'
  have h1 := (cmpBytes_lt_iff a b).mpr h
  have h2 := (cmpBytes_gt_iff a b).mpr ((cmpBytes_lt_iff b a).mpr h')
  rw [h1] at h2; cases h2

theorem lexLt_trichotomy (a b : Bytes) : LexLt a b ∨ a = b ∨ LexLt b a := by
  cases h : cmpBytes a b with
  | lt => exact Or.inl ((cmpBytes_lt_iff a b).mp h)
  | eq => exact Or.inr (Or.inl ((cmpBytes_eq_iff a b).mp h))
  | gt => exact Or.inr (Or.inr ((cmpBytes_lt_iff b a).mp ((cmpBytes_gt_iff a b).mp h)))

/-- the relation an ordering operator denotes on byte strings -/
def OrdOp.bytesRel : OrdOp → Bytes → Bytes → Prop
  | .eq, a, b => a = b
  | .ne, a, b => a ≠ b
  | .ge, a, b => ¬ LexLt a b
  | .le, a, b => ¬ LexLt b a
  | .gt, a, b => LexLt b a
  | .lt, a, b => LexLt a b

theorem denote_cmpBytes (op : OrdOp) (a b : Bytes) :
    op.denote (cmpBytes a b) ↔ op.bytesRel a b := by
  cases op <;> simp only [OrdOp.denote, OrdOp.bytesRel]
  · exact cmpBytes_eq_iff a b
  · exact not_congr (cmpBytes_eq_iff a b)
  · exact not_congr (cmpBytes_lt_iff a b)
  · exact not_congr ((cmpBytes_gt_iff a b).trans (cmpBytes_lt_iff b a))
  · exact (cmpBytes_gt_iff a b).trans (cmpBytes_lt_iff b a)
  · exact cmpBytes_lt_iff a b

/-! ### IP -/

def Ip.isV6 : Ip → Bool
  | .v4 _ => false
  | .v6 _ => true

def Ip.num : Ip → Nat
  | .v4 a => a
  | .v6 a => a

theorem cmpIp_mixed (a b : Ip) (h : a.isV6 ≠ b.isV6) : cmpIp a b = none := by
  cases a <;> cases b <;> simp_all [Ip.isV6, cmpIp]

theorem cmpIp_same (a b : Ip) (h : a.isV6 = b.isV6) : cmpIp a b = some (cmpNat a.num b.num) := by
  cases a <;> cases b <;> simp_all [Ip.isV6, cmpIp, Ip.num]

/-! ### bitwise and -/

theorem bv64_ne_zero_iff (x : BitVec 64) : x ≠ 0#64 ↔ ∃ i, i < 64 ∧ x.getLsbD i = true := by
  constructor
  · intro h
    apply Classical.byContradiction
    intro hne
    apply h
    apply BitVec.eq_of_getLsbD_eq
    intro i hi
    cases hb : x.getLsbD i with
    | false => simp
    | true => exact absurd ⟨i, hi, hb⟩ hne
  · rintro ⟨i, _, hb⟩ rfl
    simp at hb

theorem bitAndNonZero_iff (a b : Int) :
    bitAndNonZero a b = true ↔
      ∃ i, i < 64 ∧ (BitVec.ofInt 64 a).getLsbD i = true ∧ (BitVec.ofInt 64 b).getLsbD i = true := by
  unfold bitAndNonZero
  rw [decide_eq_true_iff, bv64_ne_zero_iff]
  simp only [BitVec.getLsbD_and, Bool.and_eq_true]

/-! ### 2. nil rule -/

theorem nilDefault_iff (s : Scheme) (op : CmpOp) :
    nilDefault s op = true ↔ (∃ rhs, op = .ordering .ne rhs) ∧ s.nilNe = true := by
  unfold nilDefault
  split
  · simp
  · rename_i h
    constructor
    · intro hf; cases hf
    · rintro ⟨⟨rhs, rfl⟩, _⟩
      exact absurd rfl (h rhs)

theorem compareWith_absent (c : Ctx) (base : Option Val) (ixs : List FieldIndex) (d : Bool)
    (op : CmpOp) (hm : mapEachCount ixs = 0)
    (hb : base = none ∨ ∃ v, base = some v ∧ getNested v ixs = .ok none) :
    compareWith c base ixs d op = .ok (.one d) := by
  unfold compareWith
  simp only [hm, ↓reduceIte]
  rcases hb with rfl | ⟨v, rfl, hn⟩
  · rfl
  · simp only [hn]

theorem fieldVal_absent (c : Ctx) (s : Scheme) (f : Nat) (fd : FieldDef)
    (hv : ∀ v, c.values[f]? ≠ some (some v)) (hf : s.fields[f]? = some fd)
    (ho : fd.optional = true) : c.fieldVal s f = .ok none := by
  unfold Ctx.fieldVal
  split
  · rename_i v h; exact absurd h (hv v)
  · simp [hf, ho]

theorem evalBase_field_absent (s : Scheme) (c : Ctx) (f : Nat) (ixs : List FieldIndex)
    (h : c.fieldVal s f = .ok none) :
    evalBase s c (.field f ixs) = .ok (.error (s.fieldTy f)) := by
  rw [evalBase, h]

theorem evalL_comparison_absent (s : Scheme) (c : Ctx) (f : Nat) (ixs : List FieldIndex)
    (op : CmpOp) (h : c.fieldVal s f = .ok none) (hm : mapEachCount ixs = 0)
    (hop : op ≠ .isTrue) :
    evalL s c (.comparison (.field f ixs) op) = .ok (.one (nilDefault s op)) := by
  rw [evalL, evalBase_field_absent s c f ixs h]
  have : (op == CmpOp.isTrue) = false := by simpa using hop
  simp only [this, Bool.false_eq_true, ↓reduceIte, IExpr.indexes]
  exact compareWith_absent c none ixs _ op hm (Or.inl rfl)

theorem evalL_isTrue_absent (s : Scheme) (c : Ctx) (f : Nat) (ixs : List FieldIndex)
    (h : c.fieldVal s f = .ok none) (hm : mapEachCount ixs = 0)
    (ht : tyI s (.field f ixs) = .bool) :
    evalL s c (.comparison (.field f ixs) .isTrue) = .ok (.one false) := by
  rw [evalL, evalBase_field_absent s c f ixs h]
  simp only [beq_self_eq_true, ↓reduceIte, ht, IExpr.indexes]
  exact compareWith_absent c none ixs _ _ hm (Or.inl rfl)

/-! ### 3. boolean folds -/

/-- each item evaluates to the single boolean at the same position -/
def EvalsTo (s : Scheme) (c : Ctx) : List LExpr → List Bool → Prop
  | [], [] => True
  | e :: es, b :: bs => evalL s c e = .ok (.one b) ∧ EvalsTo s c es bs
  | _, _ => False

/-- parity of the number of `true`s -/
def parity : List Bool → Bool
  | [] => false
  | b :: bs => b != parity bs

theorem evalOnes_and (s : Scheme) (c : Ctx) (acc : Bool) (items : List LExpr) (bs : List Bool)
    (h : EvalsTo s c items bs) :
    evalOnes s c .and acc items = .ok (.one (acc && bs.all id)) := by
  induction items generalizing acc bs with
  | nil => cases bs <;> simp_all [EvalsTo, evalOnes]
  | cons e es ih =>
    cases bs with
    | nil => simp [EvalsTo] at h
    | cons b bs =>
      rw [evalOnes, h.1]
      simp only [ih _ _ h.2, List.all_cons, id, Bool.and_assoc]

theorem evalOnes_or (s : Scheme) (c : Ctx) (acc : Bool) (items : List LExpr) (bs : List Bool)
    (h : EvalsTo s c items bs) :
    evalOnes s c .or acc items = .ok (.one (acc || bs.any id)) := by
  induction items generalizing acc bs with
  | nil => cases bs <;> simp_all [EvalsTo, evalOnes]
  | cons e es ih =>
    cases bs with
    | nil => simp [EvalsTo] at h
    | cons b bs =>
      rw [evalOnes, h.1]
      simp only [ih _ _ h.2, List.any_cons, id, Bool.or_assoc]

theorem evalOnes_xor (s : Scheme) (c : Ctx) (acc : Bool) (items : List LExpr) (bs : List Bool)
    (h : EvalsTo s c items bs) :
    evalOnes s c .xor acc items = .ok (.one (acc != parity bs)) := by
  induction items generalizing acc bs with
  | nil => cases bs <;> simp_all [EvalsTo, evalOnes, parity]
  | cons e es ih =>
    cases bs with
    | nil => simp [EvalsTo] at h
    | cons b bs =>
      rw [evalOnes, h.1]
      simp only [ih _ _ h.2, parity]
      cases acc <;> cases b <;> cases parity bs <;> rfl

theorem parity_eq_count (bs : List Bool) : parity bs = decide (bs.count true % 2 = 1) := by
  induction bs with
  | nil => rfl
  | cons b bs ih =>
    rw [parity, ih]
    cases b
    · simp
    · simp only [List.count_cons_self, Bool.true_bne]
      have := Nat.mod_two_eq_zero_or_one (List.count true bs)
      rcases this with h | h <;> simp [h] <;> omega

theorem evalL_combining_ones (s : Scheme) (c : Ctx) (op : LogicalOp) (e : LExpr) (es : List LExpr)
    (b : Bool) (he : evalL s c e = .ok (.one b)) :
    evalL s c (.combining op (e :: es)) = evalOnes s c op b es := by
  rw [evalL, he]

theorem evalL_not_one (s : Scheme) (c : Ctx) (e : LExpr) (b : Bool)
    (he : evalL s c e = .ok (.one b)) : evalL s c (.unaryNot e) = .ok (.one (!b)) := by
  rw [evalL, he]

theorem evalL_paren (s : Scheme) (c : Ctx) (e : LExpr) : evalL s c (.paren e) = evalL s c e := by
  rw [evalL]

end WfModel
