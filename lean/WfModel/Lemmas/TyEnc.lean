import WfModel.Model.TyEnc
import WfModel.Spec.TyEnc
/-!
Helper lemmas for C15 (`Props/C15.lean`): arithmetic reading of the bit operations,
the packed form as the binary numeral of the layer string, JSON descriptor inversion.
-/
namespace WfModel.TyEnc
open WfModel

/-! ### bit operations as arithmetic -/

theorem pushBits_arith (b bit : Nat) (hbit : bit < 2) :
    pushBits b bit = (b * 2 + bit) % u32Size := by
  unfold pushBits u32Size
  have h1 : (b <<< 1) % 4294967296 = (b % 2147483648) <<< 1 := by
    simp only [Nat.shiftLeft_eq]; omega
  rw [h1, ← Nat.shiftLeft_add_eq_or_of_lt (i := 1) (by simpa using hbit)]
  simp only [Nat.shiftLeft_eq]; omega

theorem pushBits_eq (b bit : Nat) (hbit : bit < 2) (h : b * 2 + bit < u32Size) :
    pushBits b bit = b * 2 + bit := by
  rw [pushBits_arith b bit hbit, Nat.mod_eq_of_lt h]

theorem and_one_push (b bit : Nat) (hbit : bit < 2) : (b * 2 + bit) &&& 1 = bit := by
  rw [Nat.and_one_is_mod]; omega

theorem shr_one_push (b bit : Nat) (hbit : bit < 2) : (b * 2 + bit) >>> 1 = b := by
  rw [Nat.shiftRight_eq_div_pow]; omega

theorem Layer.bit_lt (l : Layer) : l.bit < 2 := by cases l <;> decide

theorem layer_of_bit (l : Layer) :
    (if (l.bit == 0) = true then Layer.array else Layer.map) = l := by cases l <;> rfl

theorem two_pow_le_u32 {n : Nat} (h : n ≤ 32) : 2 ^ n ≤ u32Size := by
  have : (2 : Nat) ^ n ≤ 2 ^ 32 := Nat.pow_le_pow_right (by decide) h
  simpa [u32Size] using this

theorem push_fits {b n : Nat} (bit : Nat) (hbit : bit < 2) (hb : b < 2 ^ n) :
    b * 2 + bit < 2 ^ (n + 1) := by
  rw [Nat.pow_succ]; omega

/-! ### push / pop -/

theorem push_none_iff (p : Packed) (l : Layer) : push p l = none ↔ p.len ≥ maxLayers := by
  unfold push; split <;> simp_all

theorem push_eq (p : Packed) (l : Layer) (hv : Valid p) (hl : p.len < maxLayers) :
    push p l = some { p with layers := p.layers * 2 + l.bit, len := p.len + 1 } := by
  have hlt : p.layers * 2 + l.bit < u32Size :=
    Nat.lt_of_lt_of_le (push_fits l.bit l.bit_lt hv.2) (two_pow_le_u32 (by unfold maxLayers at hl; omega))
  unfold push
  rw [if_neg (by omega), pushBits_eq _ _ l.bit_lt hlt]

theorem push_valid (p q : Packed) (l : Layer) (hv : Valid p) (h : push p l = some q) : Valid q := by
  have hl : p.len < maxLayers := by
    rcases Nat.lt_or_ge p.len maxLayers with h' | h'
    · exact h'
    · rw [(push_none_iff p l).mpr h'] at h; cases h
  rw [push_eq p l hv hl] at h
  cases h
  exact ⟨hl, push_fits l.bit l.bit_lt hv.2⟩

theorem pop_pushed (p : Packed) (l : Layer) :
    pop { p with layers := p.layers * 2 + l.bit, len := p.len + 1 } = (p, some l) := by
  unfold pop
  simp only [gt_iff_lt, Nat.zero_lt_succ, ↓reduceIte, Nat.add_sub_cancel,
    and_one_push _ _ l.bit_lt, shr_one_push _ _ l.bit_lt, layer_of_bit]

theorem pop_zero (p : Packed) (h : p.len = 0) : pop p = (p, none) := by
  unfold pop; simp [h]

theorem pop_succ (b n : Nat) (pr : Prim) :
    pop ⟨b, n + 1, pr⟩ = (⟨b / 2, n, pr⟩, some (if b % 2 = 0 then Layer.array else Layer.map)) := by
  unfold pop
  simp only [gt_iff_lt, Nat.zero_lt_succ, ↓reduceIte, Nat.add_sub_cancel, Nat.and_one_is_mod,
    Nat.shiftRight_eq_div_pow, Nat.pow_one, beq_iff_eq]

/-! ### layer strings -/

theorem layerString_length (t : Ty) : (layerString t).length = t.layers := by
  induction t <;> simp_all [layerString, Ty.layers]

theorem bitsOf_lt (ls : List Layer) : bitsOf ls < 2 ^ ls.length := by
  induction ls with
  | nil => simp [bitsOf]
  | cons l ls ih =>
    simp only [bitsOf, List.length_cons]
    exact push_fits l.bit l.bit_lt ih

/-- wrap a core type in a layer string (outermost first) -/
def wrapAll : List Layer → Ty → Ty
  | [], t => t
  | l :: ls, t => l.wrap (wrapAll ls t)

theorem wrapAll_layerString (t : Ty) : wrapAll (layerString t) (primOf t).toTy = t := by
  induction t <;> simp_all [layerString, wrapAll, primOf, Prim.toTy, Layer.wrap]

/-- **Packing computes the binary numeral of the layer string.** -/
theorem fromType_spec (t : Ty) (h : t.layers ≤ maxLayers) :
    fromType t = some ⟨bitsOf (layerString t), t.layers, primOf t⟩ := by
  induction t with
  | bool | int | ip | bytes => rfl
  | array t ih =>
    simp only [Ty.layers] at h
    have hv : Valid ⟨bitsOf (layerString t), t.layers, primOf t⟩ :=
      ⟨by show t.layers ≤ maxLayers; omega, by simpa [layerString_length] using bitsOf_lt (layerString t)⟩
    simp only [fromType, ih (by omega), Option.bind_some]
    rw [push_eq _ _ hv (by show t.layers < maxLayers; omega)]
    rfl
  | map t ih =>
    simp only [Ty.layers] at h
    have hv : Valid ⟨bitsOf (layerString t), t.layers, primOf t⟩ :=
      ⟨by show t.layers ≤ maxLayers; omega, by simpa [layerString_length] using bitsOf_lt (layerString t)⟩
    simp only [fromType, ih (by omega), Option.bind_some]
    rw [push_eq _ _ hv (by show t.layers < maxLayers; omega)]
    rfl

theorem push_len (p q : Packed) (l : Layer) (h : push p l = some q) :
    q.len = p.len + 1 ∧ p.len < maxLayers := by
  unfold push at h
  split at h
  · cases h
  · cases h; exact ⟨rfl, by omega⟩

theorem fromType_len (t : Ty) (p : Packed) (h : fromType t = some p) :
    p.len = t.layers ∧ t.layers ≤ maxLayers := by
  induction t generalizing p with
  | bool | int | ip | bytes =>
    simp only [fromType, Option.some.injEq] at h; subst h; simp [Packed.new, Ty.layers]
  | array t ih =>
    simp only [fromType] at h
    cases hq : fromType t with
    | none => simp [hq] at h
    | some q =>
      rw [hq, Option.bind_some] at h
      have := push_len q p _ h
      have := ih q hq
      simp only [Ty.layers]; omega
  | map t ih =>
    simp only [fromType] at h
    cases hq : fromType t with
    | none => simp [hq] at h
    | some q =>
      rw [hq, Option.bind_some] at h
      have := push_len q p _ h
      have := ih q hq
      simp only [Ty.layers]; omega

theorem fromType_none (t : Ty) (h : t.layers > maxLayers) : fromType t = none := by
  cases hp : fromType t with
  | none => rfl
  | some p => have := (fromType_len t p hp).2; omega

/-! ### unpacking -/

theorem intoTypeAux_bits (ls : List Layer) (pr : Prim) :
    intoTypeAux ls.length ⟨bitsOf ls, ls.length, pr⟩ = wrapAll ls pr.toTy := by
  induction ls with
  | nil => rfl
  | cons l ls ih =>
    simp only [List.length_cons, bitsOf, intoTypeAux]
    have := pop_pushed ⟨bitsOf ls, ls.length, pr⟩ l
    simp only at this
    rw [this]
    simp only [ih, wrapAll]

theorem intoType_fromType (t : Ty) (h : t.layers ≤ maxLayers) :
    (fromType t).map intoType = some t := by
  rw [fromType_spec t h, Option.map_some, intoType]
  simp only
  have := intoTypeAux_bits (layerString t) (primOf t)
  rw [layerString_length] at this
  rw [this, wrapAll_layerString]

theorem fromType_intoTypeAux (n b : Nat) (pr : Prim) (hn : n ≤ maxLayers) (hb : b < 2 ^ n) :
    fromType (intoTypeAux n ⟨b, n, pr⟩) = some ⟨b, n, pr⟩ := by
  induction n generalizing b with
  | zero =>
    have : b = 0 := by simpa using hb
    subst this
    cases pr <;> rfl
  | succ n ih =>
    have hb2 : b / 2 < 2 ^ n := by rw [Nat.pow_succ] at hb; omega
    have hv : Valid ⟨b / 2, n, pr⟩ := ⟨by show n ≤ maxLayers; omega, hb2⟩
    simp only [intoTypeAux, pop_succ]
    by_cases hbit : b % 2 = 0
    · simp only [hbit, ↓reduceIte, Layer.wrap, fromType, ih (b / 2) (by omega) hb2, Option.bind_some]
      rw [push_eq _ _ hv (by show n < maxLayers; omega)]
      simp only [Layer.bit, Option.some.injEq, Packed.mk.injEq, and_true]
      omega
    · simp only [hbit, ↓reduceIte, Layer.wrap, fromType, ih (b / 2) (by omega) hb2, Option.bind_some]
      rw [push_eq _ _ hv (by show n < maxLayers; omega)]
      simp only [Layer.bit, Option.some.injEq, Packed.mk.injEq, and_true]
      omega

theorem fromType_intoType (p : Packed) (hv : Valid p) : fromType (intoType p) = some p := by
  obtain ⟨b, n, pr⟩ := p
  exact fromType_intoTypeAux n b pr hv.1 hv.2

theorem intoTypeAux_layers (n b : Nat) (pr : Prim) : (intoTypeAux n ⟨b, n, pr⟩).layers = n := by
  induction n generalizing b with
  | zero => cases pr <;> rfl
  | succ n ih =>
    simp only [intoTypeAux, pop_succ]
    split <;> simp [Layer.wrap, Ty.layers, ih]

/-! ### the C twin -/

theorem cPrimOfCode_code (pr : Prim) : cPrimOfCode (cPrimCode pr) = some pr := by
  cases pr <;> rfl

theorem cPrimCode_injective (a b : Prim) (h : cPrimCode a = cPrimCode b) : a = b := by
  cases a <;> cases b <;> first | rfl | (simp [cPrimCode] at h)

theorem cpush_asC (p q : Packed) (l : Layer) (h : push p l = some q) :
    (asC p).push l = some (asC q) := by
  have hl := (push_len p q l h).2
  unfold push at h
  rw [if_neg (by omega)] at h
  cases h
  unfold CType.push asC
  rw [if_neg (by unfold maxLayers at hl; simp only; omega)]

theorem cOfType_eq (t : Ty) (h : t.layers ≤ maxLayers) :
    CType.ofType t = (fromType t).map asC := by
  induction t with
  | bool | int | ip | bytes => rfl
  | array t ih =>
    simp only [Ty.layers] at h
    have hs := fromType_spec (.array t) (by simpa [Ty.layers] using h)
    simp only [fromType] at hs
    simp only [CType.ofType, fromType, ih (by omega)]
    cases hq : fromType t with
    | none => rw [hq] at hs; cases hs
    | some q =>
      rw [hq, Option.bind_some] at hs
      simp only [Option.map_some, Option.bind_some, hs]
      exact cpush_asC q _ _ hs
  | map t ih =>
    simp only [Ty.layers] at h
    have hs := fromType_spec (.map t) (by simpa [Ty.layers] using h)
    simp only [fromType] at hs
    simp only [CType.ofType, fromType, ih (by omega)]
    cases hq : fromType t with
    | none => rw [hq] at hs; cases hs
    | some q =>
      rw [hq, Option.bind_some] at hs
      simp only [Option.map_some, Option.bind_some, hs]
      exact cpush_asC q _ _ hs

theorem cpop_succ (b n c : Nat) :
    CType.pop ⟨b, n + 1, c⟩ = (⟨b / 2, n, c⟩, some (if b % 2 = 0 then Layer.array else Layer.map)) := by
  unfold CType.pop
  simp only [gt_iff_lt, Nat.zero_lt_succ, ↓reduceIte, Nat.add_sub_cancel, Nat.and_one_is_mod,
    Nat.shiftRight_eq_div_pow, Nat.pow_one, beq_iff_eq]

theorem cToTypeAux_eq (n b : Nat) (pr : Prim) (hn : n ≤ maxLayers) (hb : b < 2 ^ n) :
    CType.toTypeAux n ⟨b, n, cPrimCode pr⟩ = some (intoTypeAux n ⟨b, n, pr⟩) := by
  induction n generalizing b with
  | zero => simp [CType.toTypeAux, intoTypeAux, cPrimOfCode_code]
  | succ n ih =>
    have hb2 : b / 2 < 2 ^ n := by rw [Nat.pow_succ] at hb; omega
    simp only [CType.toTypeAux, cpop_succ, intoTypeAux, pop_succ, ih (b / 2) (by omega) hb2,
      fromType_intoTypeAux n (b / 2) pr (by omega) hb2, intoType]

theorem cToType_asC (p : Packed) (hv : Valid p) : (asC p).toType = some (intoType p) := by
  obtain ⟨b, n, pr⟩ := p
  exact cToTypeAux_eq n b pr hv.1 hv.2

/-! ### JSON descriptors -/

theorem ofName_name (p : Prim) : Prim.ofName p.name = some p := by cases p <;> rfl

theorem ofName_some (s : String) (p : Prim) (h : Prim.ofName s = some p) : s = p.name := by
  unfold Prim.ofName at h
  split at h
  · cases h; assumption
  · split at h
    · cases h; assumption
    · split at h
      · cases h; assumption
      · split at h
        · cases h; assumption
        · cases h

theorem ofName_container (l : Layer) : Prim.ofName l.name = none := by cases l <;> decide

theorem tyToJ_layers (t : Ty) : jLayers (tyToJ t) = t.layers := by
  induction t <;> simp_all [tyToJ, jLayers, Ty.layers]

theorem wrapCompound_ok (o : Outcome Ty) (l : Layer) (t : Ty) (h : t.layers ≤ maxLayers) :
    wrapCompound o l (.ok t) = .ok (l.wrap t) := by
  have := intoType_fromType t h
  simp only [wrapCompound]
  cases hp : fromType t with
  | none => rw [hp] at this; cases this
  | some p => rw [hp] at this; simp only [Option.map_some, Option.some.injEq] at this; simp [this]

theorem wrapCompound_deep (o : Outcome Ty) (l : Layer) (t : Ty) (h : t.layers > maxLayers) :
    wrapCompound o l (.ok t) = o := by
  simp only [wrapCompound, fromType_none t h]

theorem describes_tyToJ (t : Ty) : Describes (tyToJ t) t := by
  induction t with
  | bool => exact .unit .bool
  | int => exact .unit .int
  | ip => exact .unit .ip
  | bytes => exact .unit .bytes
  | array t ih => exact .layer .array _ _ ih
  | map t ih => exact .layer .map _ _ ih

theorem Prim.name_ne_container (p : Prim) : p.name ≠ "Array" ∧ p.name ≠ "Map" := by
  cases p <;> decide

theorem describes_layers {j : J} {t : Ty} (h : Describes j t) : jLayers j = t.layers := by
  induction h with
  | unit p => cases p <;> rfl
  | unitObj p =>
    have := p.name_ne_container
    cases p <;> simp [jLayers, Prim.name, Prim.toTy, Ty.layers]
  | layer l j t _ ih => cases l <;> simp [jLayers, Layer.name, Layer.wrap, Ty.layers, ih]

theorem tyOfJWith_of_describes (o : Outcome Ty) {j : J} {t : Ty} (h : Describes j t)
    (hl : t.layers ≤ maxLayers + 1) : tyOfJWith o j = .ok t := by
  induction h with
  | unit p => simp [tyOfJWith, ofName_name]
  | unitObj p =>
    have := p.name_ne_container
    simp [tyOfJWith, ofName_name, this.1, this.2]
  | layer l j t _ ih =>
    have hl' : t.layers ≤ maxLayers := by cases l <;> simp [Layer.wrap, Ty.layers] at hl <;> omega
    cases l
    · simp only [Layer.name, tyOfJWith, ↓reduceIte, ih (by omega), wrapCompound_ok _ _ _ hl']
    · have : ("Map" : String) ≠ "Array" := by decide
      simp only [Layer.name, tyOfJWith, this, ↓reduceIte, ih (by omega), wrapCompound_ok _ _ _ hl']

theorem describes_of_tyOfJWith (o : Outcome Ty) (j : J) (t : Ty) (h : tyOfJWith o j = .ok t)
    (ho : ∀ u, o ≠ .ok u) : Describes j t ∧ t.layers ≤ maxLayers + 1 := by
  induction j using jLayers.induct generalizing t with
  | case1 k v hk ih =>
    rcases hk with rfl | rfl
    · simp only [tyOfJWith, ↓reduceIte] at h
      cases hv : tyOfJWith o v with
      | error => simp [hv, wrapCompound] at h
      | stuck => simp [hv, wrapCompound] at h
      | ok u =>
        have ⟨hd, _⟩ := ih u hv
        rw [hv] at h
        rcases Nat.lt_or_ge maxLayers u.layers with hdeep | hfit
        · rw [wrapCompound_deep _ _ _ hdeep] at h; exact absurd h (ho t)
        · rw [wrapCompound_ok _ _ _ hfit] at h
          cases h
          exact ⟨.layer .array _ _ hd, by simp [Layer.wrap, Ty.layers]; omega⟩
    · have hne : ("Map" : String) ≠ "Array" := by decide
      simp only [tyOfJWith, hne, ↓reduceIte] at h
      cases hv : tyOfJWith o v with
      | error => simp [hv, wrapCompound] at h
      | stuck => simp [hv, wrapCompound] at h
      | ok u =>
        have ⟨hd, _⟩ := ih u hv
        rw [hv] at h
        rcases Nat.lt_or_ge maxLayers u.layers with hdeep | hfit
        · rw [wrapCompound_deep _ _ _ hdeep] at h; exact absurd h (ho t)
        · rw [wrapCompound_ok _ _ _ hfit] at h
          cases h
          exact ⟨.layer .map _ _ hd, by simp [Layer.wrap, Ty.layers]; omega⟩
  | case2 k v hk =>
    have h1 : k ≠ "Array" := fun e => hk (Or.inl e)
    have h2 : k ≠ "Map" := fun e => hk (Or.inr e)
    simp only [tyOfJWith, h1, h2, ↓reduceIte] at h
    split at h
    · rename_i p hp
      cases h
      rw [ofName_some k p hp]
      exact ⟨.unitObj p, by cases p <;> simp [Prim.toTy, Ty.layers]⟩
    · cases h
  | case3 j hj =>
    cases j with
    | str s =>
      simp only [tyOfJWith] at h
      split at h
      · rename_i p hp
        cases h
        rw [ofName_some s p hp]
        exact ⟨.unit p, by cases p <;> simp [Prim.toTy, Ty.layers]⟩
      · cases h
    | obj kvs =>
      match kvs, hj with
      | [], _ => simp [tyOfJWith] at h
      | [(k, v)], hj => exact absurd rfl (hj k v)
      | _ :: _ :: _, _ => simp [tyOfJWith] at h
    | null => simp [tyOfJWith] at h
    | bool b => simp [tyOfJWith] at h
    | int i => simp [tyOfJWith] at h
    | arr xs => simp [tyOfJWith] at h

theorem tyOfJ_not_stuck (j : J) : tyOfJ j ≠ .stuck := by
  unfold tyOfJ
  induction j using jLayers.induct with
  | case1 k v hk ih =>
    rcases hk with rfl | rfl
    · simp only [tyOfJWith, ↓reduceIte]
      cases hv : tyOfJWith .error v with
      | stuck => exact absurd hv ih
      | error => simp [wrapCompound]
      | ok u => simp only [wrapCompound]; split <;> simp
    · have hne : ("Map" : String) ≠ "Array" := by decide
      simp only [tyOfJWith, hne, ↓reduceIte]
      cases hv : tyOfJWith .error v with
      | stuck => exact absurd hv ih
      | error => simp [wrapCompound]
      | ok u => simp only [wrapCompound]; split <;> simp
  | case2 k v hk =>
    have h1 : k ≠ "Array" := fun e => hk (Or.inl e)
    have h2 : k ≠ "Map" := fun e => hk (Or.inr e)
    simp only [tyOfJWith, h1, h2, ↓reduceIte]
    split <;> simp
  | case3 j hj =>
    cases j with
    | str s => simp only [tyOfJWith]; split <;> simp
    | obj kvs =>
      match kvs, hj with
      | [], _ => simp [tyOfJWith]
      | [(k, v)], hj => exact absurd rfl (hj k v)
      | _ :: _ :: _, _ => simp [tyOfJWith]
    | null => simp [tyOfJWith]
    | bool b => simp [tyOfJWith]
    | int i => simp [tyOfJWith]
    | arr xs => simp [tyOfJWith]

/-! ### schemes -/

def Field.entry (f : Field) : String × J := (f.name, fieldToJ f)

theorem tyOfJ_tyToJ (t : Ty) (h : t.layers ≤ maxLayers + 1) : tyOfJ (tyToJ t) = .ok t :=
  tyOfJWith_of_describes _ (describes_tyToJ t) h

theorem fieldOfJ_fieldToJ (f : Field) (h : f.ty.layers ≤ maxLayers + 1) :
    fieldOfJ (fieldToJ f) = .ok (f.ty, f.optional) := by
  have h1 : ("optional" : String) ≠ "type" := by decide
  have h2 : ("type" : String) ≠ "optional" := by decide
  simp [fieldOfJ, fieldToJ, lookupAll, h1, h2, tyOfJ_tyToJ f.ty h]

theorem fieldOfJ_not_stuck (j : J) : fieldOfJ j ≠ .stuck := by
  unfold fieldOfJ
  split
  · split
    · split
      · simp
      · simp
      · rename_i hs; exact absurd hs (tyOfJ_not_stuck _)
    · simp
  · split
    · simp
    · simp
    · rename_i hs; exact absurd hs (tyOfJ_not_stuck _)
  · simp

theorem addField_some (s : List Field) (f : Field) (s' : List Field) :
    addField s f = some s' ↔ f.name ∉ s.map Field.name ∧ s' = s ++ [f] := by
  unfold addField
  by_cases h : s.any (fun g => g.name == f.name) = true
  · simp only [h, ↓reduceIte, reduceCtorEq, false_iff, not_and]
    intro hn
    exfalso; apply hn
    simp only [List.any_eq_true, beq_iff_eq] at h
    obtain ⟨g, hg, hgn⟩ := h
    exact List.mem_map.mpr ⟨g, hg, hgn⟩
  · simp only [h, Bool.false_eq_true, ↓reduceIte, Option.some.injEq]
    have hn : f.name ∉ s.map Field.name := by
      intro hm
      apply h
      obtain ⟨g, hg, hgn⟩ := List.mem_map.mp hm
      simp only [List.any_eq_true, beq_iff_eq]
      exact ⟨g, hg, hgn⟩
    constructor
    · intro e; exact ⟨hn, e.symm⟩
    · intro e; exact e.2.symm

/-- **The deserialization loop, characterised.** -/
theorem schemeLoop_ok (acc : List Field) (kvs : List (String × J)) (s : List Field) :
    schemeLoop acc kvs = .ok s ↔
      ∃ fs, s = acc ++ fs ∧ EntriesGive kvs fs ∧
        (∀ k ∈ kvs.map Prod.fst, k ∉ acc.map Field.name) ∧ (kvs.map Prod.fst).Nodup := by
  induction kvs generalizing acc s with
  | nil =>
    simp only [schemeLoop, Outcome.ok.injEq, List.map_nil, List.not_mem_nil, false_imp_iff,
      implies_true, List.nodup_nil, and_true]
    constructor
    · intro h; exact ⟨[], by simp [h], .nil⟩
    · rintro ⟨fs, h, hf⟩; cases hf; simp [h]
  | cons kv rest ih =>
    obtain ⟨k, v⟩ := kv
    simp only [schemeLoop]
    cases hv : fieldOfJ v with
    | error =>
      simp only [reduceCtorEq, false_iff, not_exists, not_and]
      intro fs _ hf
      cases hf with
      | cons h _ => rw [h.2] at hv; cases hv
    | stuck => exact absurd hv (fieldOfJ_not_stuck v)
    | ok to =>
      obtain ⟨t, o⟩ := to
      simp only
      cases ha : addField acc ⟨k, t, o⟩ with
      | none =>
        simp only [reduceCtorEq, false_iff, not_exists, not_and]
        intro fs _ _ hfresh
        have hk : k ∉ acc.map Field.name := hfresh k (by simp)
        have : addField acc ⟨k, t, o⟩ = some (acc ++ [⟨k, t, o⟩]) :=
          (addField_some _ _ _).mpr ⟨hk, rfl⟩
        rw [this] at ha; cases ha
      | some acc' =>
        obtain ⟨hk, rfl⟩ := (addField_some _ _ _).mp ha
        simp only at hk
        simp only [ih]
        constructor
        · rintro ⟨fs, rfl, hf, hfresh, hnd⟩
          refine ⟨⟨k, t, o⟩ :: fs, by simp, .cons ⟨rfl, hv⟩ hf, ?_, ?_⟩
          · intro k' hk'
            simp only [List.map_cons, List.mem_cons] at hk'
            rcases hk' with rfl | hk'
            · exact hk
            · have := hfresh k' hk'
              simp only [List.map_append, List.map_cons, List.map_nil, List.mem_append,
                List.mem_singleton, not_or] at this
              exact this.1
          · simp only [List.map_cons, List.nodup_cons]
            refine ⟨?_, hnd⟩
            intro hm
            have := hfresh k hm
            simp at this
        · rintro ⟨fs, rfl, hf, hfresh, hnd⟩
          cases hf with
          | cons hh ht =>
            rename_i f fs'
            obtain ⟨fn, ft, fo⟩ := f
            obtain ⟨hn, hg⟩ := hh
            simp only at hn hg
            rw [hv] at hg
            simp only [Outcome.ok.injEq, Prod.mk.injEq] at hg
            obtain ⟨rfl, rfl⟩ := hg
            subst hn
            simp only [List.map_cons, List.nodup_cons] at hnd
            refine ⟨fs', by simp, ht, ?_, hnd.2⟩
            intro k' hk'
            simp only [List.map_append, List.map_cons, List.map_nil, List.mem_append,
              List.mem_singleton, not_or]
            refine ⟨hfresh k' (by simp [hk']), ?_⟩
            rintro rfl
            exact hnd.1 hk'

theorem forall₂_names {kvs : List (String × J)} {fs : List Field}
    (h : EntriesGive kvs fs) : fs.map Field.name = kvs.map Prod.fst := by
  induction h with
  | nil => rfl
  | cons hh _ ih => simp [ih, hh.1]

theorem forall₂_entries (s : List Field) (h : ∀ f ∈ s, f.ty.layers ≤ maxLayers + 1) :
    EntriesGive (s.map fun f => (f.name, fieldToJ f)) s := by
  induction s with
  | nil => exact .nil
  | cons f s ih =>
    refine .cons ⟨rfl, fieldOfJ_fieldToJ f (h f (by simp))⟩ (ih ?_)
    intro g hg; exact h g (by simp [hg])

theorem schemeLoop_not_stuck (acc : List Field) (kvs : List (String × J)) :
    schemeLoop acc kvs ≠ .stuck := by
  induction kvs generalizing acc with
  | nil => simp [schemeLoop]
  | cons kv rest ih =>
    obtain ⟨k, v⟩ := kv
    simp only [schemeLoop]
    cases hv : fieldOfJ v with
    | error => simp
    | stuck => exact absurd hv (fieldOfJ_not_stuck v)
    | ok to =>
      obtain ⟨t, o⟩ := to
      simp only
      cases addField acc ⟨k, t, o⟩ with
      | none => simp
      | some acc' => exact ih acc'

/-- The deserializer of the unchanged source on the canonical descriptor of a type that
is two or more layers over the limit: it panics. -/
theorem tyOfJPanicking_deep (t : Ty) (h : t.layers > maxLayers + 1) :
    tyOfJPanicking (tyToJ t) = .stuck := by
  unfold tyOfJPanicking
  induction t with
  | bool | int | ip | bytes => simp [Ty.layers] at h
  | array t ih =>
    simp only [Ty.layers] at h
    simp only [tyToJ, tyOfJWith, ↓reduceIte]
    by_cases h2 : t.layers ≤ maxLayers + 1
    · rw [tyOfJWith_of_describes _ (describes_tyToJ t) h2, wrapCompound_deep _ _ _ (by omega)]
    · rw [ih (by omega)]; rfl
  | map t ih =>
    have hne : ("Map" : String) ≠ "Array" := by decide
    simp only [Ty.layers] at h
    simp only [tyToJ, tyOfJWith, hne, ↓reduceIte]
    by_cases h2 : t.layers ≤ maxLayers + 1
    · rw [tyOfJWith_of_describes _ (describes_tyToJ t) h2, wrapCompound_deep _ _ _ (by omega)]
    · rw [ih (by omega)]; rfl

/-! ### schemes carried by a `serde_json::Value` -/

theorem valueNorm_tyToJ (t : Ty) : valueNorm (tyToJ t) = tyToJ t := by
  induction t with
  | bool | int | ip | bytes => simp [tyToJ, valueNorm]
  | array t ih => simp [tyToJ, valueNorm, valueNormEntries, insertSorted, ih]
  | map t ih => simp [tyToJ, valueNorm, valueNormEntries, insertSorted, ih]

/-- a field entry as it sits in a `serde_json::Value` object (inner keys sorted) -/
def Field.valueEntry (f : Field) : String × J :=
  (f.name, .obj [("optional", .bool f.optional), ("type", tyToJ f.ty)])

theorem valueNorm_fieldToJ (f : Field) : valueNorm (fieldToJ f) = f.valueEntry.2 := by
  have h : ("optional" : String) < "type" := by decide
  simp [fieldToJ, valueNorm, valueNormEntries, insertSorted, valueNorm_tyToJ, h, Field.valueEntry]

theorem fieldOfJ_valueEntry (f : Field) (h : f.ty.layers ≤ maxLayers + 1) :
    fieldOfJ f.valueEntry.2 = .ok (f.ty, f.optional) := by
  have h1 : ("optional" : String) ≠ "type" := by decide
  have h2 : ("type" : String) ≠ "optional" := by decide
  simp [fieldOfJ, Field.valueEntry, lookupAll, h1, h2, tyOfJ_tyToJ f.ty h]

/-- `BTreeMap::insert` on field lists, mirroring `insertSorted` -/
def insertField (f : Field) : List Field → List Field
  | [] => [f]
  | g :: rest =>
    if f.name < g.name then f :: g :: rest
    else if f.name = g.name then f :: rest
    else g :: insertField f rest

theorem insertSorted_map (f : Field) (acc : List Field) :
    insertSorted f.name f.valueEntry.2 (acc.map Field.valueEntry) =
      (insertField f acc).map Field.valueEntry := by
  induction acc with
  | nil => rfl
  | cons g rest ih =>
    simp only [List.map_cons, insertSorted, insertField, Field.valueEntry] at ih ⊢
    split
    · rfl
    · split
      · rfl
      · simp [ih, Field.valueEntry]

theorem valueNormEntries_map (s acc : List Field) :
    valueNormEntries (s.map fun f => (f.name, fieldToJ f)) (acc.map Field.valueEntry) =
      (s.foldl (fun a f => insertField f a) acc).map Field.valueEntry := by
  induction s generalizing acc with
  | nil => rfl
  | cons f s ih =>
    simp only [List.map_cons, valueNormEntries, List.foldl_cons, valueNorm_fieldToJ]
    rw [insertSorted_map, ih]

theorem insertField_perm (f : Field) (acc : List Field) (h : f.name ∉ acc.map Field.name) :
    (insertField f acc).Perm (f :: acc) := by
  induction acc with
  | nil => exact .refl _
  | cons g rest ih =>
    simp only [List.map_cons, List.mem_cons, not_or] at h
    simp only [insertField]
    split
    · exact .refl _
    · rw [if_neg h.1]
      exact ((ih h.2).cons g).trans (.swap f g rest)

theorem foldl_insertField_perm (s acc : List Field) (h : ((acc ++ s).map Field.name).Nodup) :
    (s.foldl (fun a f => insertField f a) acc).Perm (acc ++ s) := by
  induction s generalizing acc with
  | nil => simp
  | cons f s ih =>
    simp only [List.foldl_cons]
    have hf : f.name ∉ acc.map Field.name := by
      simp only [List.map_append, List.map_cons, List.nodup_append, List.nodup_cons] at h
      intro hm
      exact h.2.2 _ hm _ (by simp) rfl
    have hp := insertField_perm f acc hf
    have hnd : ((insertField f acc ++ s).map Field.name).Nodup := by
      have : (insertField f acc ++ s).Perm (acc ++ f :: s) :=
        (hp.append_right s).trans (by simpa using (List.perm_middle (l₁ := acc) (l₂ := s) (a := f)).symm)
      exact (this.map Field.name).nodup_iff.mpr h
    refine (ih _ hnd).trans ?_
    exact (hp.append_right s).trans (by simpa using (List.perm_middle (l₁ := acc) (l₂ := s) (a := f)).symm)

theorem entriesGive_valueEntries (s : List Field) (h : ∀ f ∈ s, f.ty.layers ≤ maxLayers + 1) :
    EntriesGive (s.map Field.valueEntry) s := by
  induction s with
  | nil => exact .nil
  | cons f s ih =>
    refine .cons ⟨rfl, fieldOfJ_valueEntry f (h f (by simp))⟩ (ih ?_)
    intro g hg; exact h g (by simp [hg])

/-- a 32-layer type used by the non-vacuity examples: alternating Map/Array over Ip -/
def deep32 : Ty := (List.range 32).foldl (fun t i => if i % 2 = 0 then .map t else .array t) .ip

end WfModel.TyEnc
