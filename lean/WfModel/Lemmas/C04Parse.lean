import WfModel.Lemmas.C04WTBasic
namespace WfModel
open Spec

theorem lexRhsVal_ty {t : Ty} {inp rest : Input} {v : RhsVal}
    (h : lexRhsVal t inp = some (.ok (v, rest))) : v.typeOf = t := by
  cases t <;> simp only [lexRhsVal, Option.some.injEq, reduceCtorEq] at h
  · cases hl : lexInt inp with
    | error e => simp [hl, Except.map] at h
    | ok p => simp only [hl, Except.map, Except.ok.injEq, Prod.mk.injEq] at h; rw [← h.1]; rfl
  · cases hl : lexIpAddr inp with
    | error e => simp [hl, Except.map] at h
    | ok p => simp only [hl, Except.map, Except.ok.injEq, Prod.mk.injEq] at h; rw [← h.1]; rfl
  · cases hl : lexBytes inp with
    | error e => simp [hl, Except.map] at h
    | ok p => simp only [hl, Except.map, Except.ok.injEq, Prod.mk.injEq] at h; rw [← h.1]; rfl

theorem lexRhsVals_ty {t : Ty} {inp rest : Input} {vs : RhsVals}
    (h : lexRhsVals t inp = some (.ok (vs, rest))) : valsTy vs = t := by
  cases t <;> simp only [lexRhsVals, Option.some.injEq, reduceCtorEq] at h
  · cases hl : lexBrace lexIntRange inp with
    | error e => simp [hl, Except.map] at h
    | ok p => simp only [hl, Except.map, Except.ok.injEq, Prod.mk.injEq] at h; rw [← h.1]; rfl
  · cases hl : lexBrace lexIpRange inp with
    | error e => simp [hl, Except.map] at h
    | ok p => simp only [hl, Except.map, Except.ok.injEq, Prod.mk.injEq] at h; rw [← h.1]; rfl
  · cases hl : lexBrace lexBytes inp with
    | error e => simp [hl, Except.map] at h
    | ok p => simp only [hl, Except.map, Except.ok.injEq, Prod.mk.injEq] at h; rw [← h.1]; rfl

theorem wildcardOk_tokens {st : Settings} {pat : Bytes} (h : wildcardOk st pat = true) :
    (wildTokens pat).isSome = true := by
  unfold wildcardOk at h
  cases hw : wildTokens pat with
  | none => simp [hw] at h
  | some _ => rfl

theorem findIdx_lt {α} (p : α → Bool) : ∀ (l : List α) (k i : Nat),
    findIdx p l k = some i → k ≤ i ∧ i < k + l.length
  | [], _, _, h => by simp [findIdx] at h
  | a :: as, k, i, h => by
    unfold findIdx at h
    split at h
    · injection h with h; subst h; simp
    · have := findIdx_lt p as (k + 1) i h
      simp only [List.length_cons]; omega

theorem lexIdentifier_field {s : Scheme} {inp rest : Input} {i : Nat}
    (h : lexIdentifier s inp = .ok (.field i, rest)) : i < s.fields.length := by
  unfold lexIdentifier at h
  split at h
  · cases h
  · simp only at h
    split at h
    · rename_i id hg
      injection h with h; injection h with h1 h2; subst h1
      unfold Scheme.get at hg
      split at hg
      · rename_i j hj
        injection hg with hg; injection hg with hg; subst hg
        have := findIdx_lt _ _ _ _ hj
        omega
      · split at hg <;> cases hg
    · cases h

theorem lexIndexes_sound {t0 : Ty} : ∀ (f : Nat) (inp : Input) (ty : Ty) (acc : List FieldIndex)
    (ixs : List FieldIndex) (ty' : Ty) (rest : Input),
    IdxOk t0 acc ty → lexIndexes f inp ty acc = .ok ((ixs, ty'), rest) → IdxOk t0 ixs ty'
  | 0, _, _, _, _, _, _, _, h => by simp [lexIndexes, errAt] at h
  | f + 1, inp, ty, acc, ixs, ty', rest, hacc, h => by
    unfold lexIndexes at h
    split at h
    · injection h with h; injection h with h1 h2; injection h1 with h3 h4
      subst h3; subst h4; exact hacc
    · split at h
      · cases h
      · split at h
        · cases h
        · split at h
          · rename_i ty2 hs
            exact lexIndexes_sound f _ _ _ _ _ _ (hacc.snoc hs) h
          · cases h

theorem mkTy_eq (mec : Nat) (t : Ty) (op : CmpOp) :
    (if mec > 0 then Ty.array .bool else if op == CmpOp.isTrue then t else .bool) =
      cmpTy t (decide (mec > 0)) op := by
  unfold cmpTy
  by_cases hm : mec > 0
  · simp [hm]
  · simp only [hm, if_false, decide_false, Bool.false_eq_true]
    cases op <;> rfl

/-- the node `mk` builds is derivable as soon as the operator/type/literal rule holds -/
theorem mk_sound {s : Scheme} {lhs : IExpr} {t : Ty} {op : CmpOp} (hl : WTI s lhs t)
    (hok : cmpOk s t (decide (mapEachCount lhs.indexes > 0)) op) :
    WT s (.comparison lhs op)
      (if mapEachCount lhs.indexes > 0 then Ty.array .bool else if op == CmpOp.isTrue then t else .bool) :=
  .comparison hl hok (mkTy_eq _ _ _)

theorem cmpRhs_sound {env : PEnv} {lhs : IExpr} {t : Ty} {initial afterOp rest : Input} {op : CompOp}
    {e : Typed LExpr} (hl : WTI env.scheme lhs t) (ha : Spec.allowed t op = true)
    (h : cmpRhs env lhs t initial afterOp op = .ok (e, rest)) : WT env.scheme e.node e.ty := by
  cases op with
  | in_ =>
    simp only [cmpRhs] at h
    split at h
    · split at h
      · cases h
      · split at h
        · rename_i l hg
          injection h with h; injection h with h1 h2; subst h1
          exact mk_sound hl ⟨ha, hg⟩
        · cases h
    · split at h
      · rename_i vs r hv
        injection h with h; injection h with h1 h2; subst h1
        exact mk_sound hl ⟨ha, lexRhsVals_ty hv⟩
      · cases h
      · cases h
  | ord o =>
    simp only [cmpRhs] at h
    split at h
    · rename_i v r hv
      injection h with h; injection h with h1 h2; subst h1
      exact mk_sound hl ⟨ha, lexRhsVal_ty hv⟩
    · cases h
    · cases h
  | bitAnd =>
    simp only [cmpRhs] at h
    split at h
    · injection h with h; injection h with h1 h2; subst h1
      exact mk_sound hl ⟨ha, trivial⟩
    · cases h
  | contains =>
    simp only [cmpRhs] at h
    split at h
    · injection h with h; injection h with h1 h2; subst h1
      exact mk_sound hl ⟨ha, trivial⟩
    · cases h
  | matches_ =>
    simp only [cmpRhs] at h
    split at h
    · split at h
      · cases h
      · split at h
        · injection h with h; injection h with h1 h2; subst h1
          exact mk_sound hl ⟨ha, trivial⟩
        · cases h
        · cases h
    · split at h
      · cases h
      · split at h
        · injection h with h; injection h with h1 h2; subst h1
          exact mk_sound hl ⟨ha, trivial⟩
        · cases h
        · cases h
    · cases h
    · cases h
  | wildcard =>
    simp only [cmpRhs] at h
    split at h
    · cases h
    · split at h
      · rename_i hw
        injection h with h; injection h with h1 h2; subst h1
        exact mk_sound hl ⟨ha, wildcardOk_tokens hw⟩
      · cases h
  | strictWildcard =>
    simp only [cmpRhs] at h
    split at h
    · cases h
    · split at h
      · rename_i hw
        injection h with h; injection h with h1 h2; subst h1
        exact mk_sound hl ⟨ha, wildcardOk_tokens hw⟩
      · cases h

theorem cmpWithLhs_sound {env : PEnv} {lhs : IExpr} {t : Ty} {input rest : Input}
    {e : Typed LExpr} (hl : WTI env.scheme lhs t)
    (h : cmpWithLhs env lhs t input = .ok (e, rest)) : WT env.scheme e.node e.ty := by
  rw [cmpWithLhs_factored] at h
  unfold cmpWithLhs' at h
  by_cases hb : (t == Ty.bool) = true
  · simp only [hb, if_true] at h
    injection h with h; injection h with h1 h2; subst h1
    have ht : t = .bool := by simpa using hb
    refine .comparison hl (Or.inl ht) ?_
    simp only [cmpTy]
    by_cases hm : mapEachCount lhs.indexes > 0 <;> simp [hm]
  · simp only [hb] at h
    by_cases hn : (t.next == some Ty.bool) = true
    · simp only [hn, if_true] at h
      by_cases hm : mapEachCount lhs.indexes > 0
      · simp only [hm, if_true] at h; cases h
      · simp only [hm, if_false] at h
        injection h with h; injection h with h1 h2; subst h1
        refine .comparison hl (Or.inr ⟨by simpa using hn, by simpa using hm⟩) ?_
        simp [cmpTy, hm]
    · simp only [hn] at h
      cases hlx : lexEnum comparisonOps (skipSpace input) with
      | none => simp only [hlx] at h; cases h
      | some p =>
        obtain ⟨op, afterOp⟩ := p
        by_cases ha : admits t op = true
        · simp only [hlx, ha, if_true] at h
          exact cmpRhs_sound hl (admits_eq_allowed t op ▸ ha) h
        · simp only [hlx, ha] at h; cases h

/-- what a successful `callBody` guarantees about the call it lexed -/
def CallBodyOk (env : PEnv) (cb : Nat → FuncSig → Input → LexRes (List AExpr × Option Nat × Ty)) : Prop :=
  ∀ (fn : Nat) (name : List Char) (sig : FuncSig) (inp rest : Input) (args : List AExpr)
    (ctx : Option Nat) (ty : Ty),
    env.scheme.funcs[fn]? = some (name, sig) →
    cb fn sig inp = .ok ((args, ctx, ty), rest) →
    ∃ params, WTArgs env.scheme args params ∧ sigOk sig params ∧
      (∀ a ∈ args.tail, a.mapEachCount = 0) ∧ ty = callTy sig args params

/-- soundness of the four entry points of one nesting level -/
structure LevelOk (env : PEnv) (lv : Level) : Prop where
  logical : ∀ inp e rest, lv.logical inp = .ok (e, rest) → WT env.scheme e.node e.ty
  simple : ∀ inp e rest, lv.simple inp = .ok (e, rest) → WT env.scheme e.node e.ty
  quantArg : ∀ inp q rest, lv.quantArg inp = .ok (q, rest) → WTQ env.scheme q
  callBody : CallBodyOk env lv.callBody

def LowerOk (env : PEnv) (lower : Option Level) : Prop := ∀ lw, lower = some lw → LevelOk env lw

theorem indexExprL_sound {env : PEnv} {lower : Option Level} (hlow : LowerOk env lower)
    {inp rest : Input} {e : Typed IExpr} (h : indexExprL env lower inp = .ok (e, rest)) :
    WTI env.scheme e.node e.ty := by
  unfold indexExprL at h
  split at h
  · cases h
  · rename_i i r hid
    split at h
    · cases h
    · rename_i ixs ty r2 hix
      injection h with h; injection h with h1 h2; subst h1
      exact .field (lexIdentifier_field hid) (lexIndexes_sound _ _ _ _ _ _ _ (.nil _) hix)
  · rename_i i r hid
    split at h
    · cases h
    · rename_i nm sig hf
      split at h
      · cases h
      · rename_i lw
        split at h
        · cases h
        · rename_i args ctx callTy r2 hcb
          split at h
          · cases h
          · rename_i ixs ty r3 hix
            injection h with h; injection h with h1 h2; subst h1
            obtain ⟨params, h1, h2, h3, h4⟩ := (hlow lw rfl).callBody i nm sig _ _ _ _ _ hf hcb
            subst h4
            exact .call hf h1 h2 h3 (lexIndexes_sound _ _ _ _ _ _ _ (.nil _) hix)

theorem comparisonL_sound {env : PEnv} {lower : Option Level} (hlow : LowerOk env lower)
    {inp rest : Input} {e : Typed LExpr} (h : comparisonL env lower inp = .ok (e, rest)) :
    WT env.scheme e.node e.ty := by
  unfold comparisonL at h
  split at h
  · cases h
  · rename_i lhs r hi
    exact cmpWithLhs_sound (indexExprL_sound hlow hi) h

theorem simpleL_sound {env : PEnv} {lower : Option Level} (hlow : LowerOk env lower)
    {inp rest : Input} {e : Typed LExpr} (h : simpleL env lower inp = .ok (e, rest)) :
    WT env.scheme e.node e.ty := by
  unfold simpleL at h
  split at h
  · split at h
    · cases h
    · rename_i lw
      split at h
      · cases h
      · rename_i e1 r1 hlg
        split at h
        · injection h with h; injection h with h1 h2; subst h1
          exact .paren ((hlow lw rfl).logical _ _ _ hlg)
        · cases h
  · split at h
    · split at h
      · cases h
      · rename_i lw
        split at h
        · cases h
        · rename_i e1 r1 hs
          injection h with h; injection h with h1 h2; subst h1
          exact .unaryNot ((hlow lw rfl).simple _ _ _ hs)
    · split at h
      · split at h
        · cases h
        · rename_i lw
          split at h
          · cases h
          · split at h
            · cases h
            · rename_i arg r2 hq
              split at h
              · injection h with h; injection h with h1 h2; subst h1
                exact .quantifier ((hlow lw rfl).quantArg _ _ _ hq)
              · cases h
      · exact comparisonL_sound hlow h

/-- operands accepted by `logicalTypesOk` that are types of logical expressions are equal,
and plain booleans or boolean arrays -/
theorem logical_operands {s : Scheme} {l r : LExpr} {tl tr : Ty} (hl : WT s l tl) (hr : WT s r tr)
    (hok : logicalTypesOk tl tr = true) : tr = tl ∧ (tl = .bool ∨ tl = .array .bool) := by
  rcases WT.ty_shape l hl with h1 | h1 | h1 <;> rcases WT.ty_shape r hr with h2 | h2 | h2 <;>
    subst h1 <;> subst h2 <;> simp [logicalTypesOk] at hok ⊢

theorem combine_sound {s : Scheme} {op : LogicalOp} {l r : LExpr} {tl tr : Ty} (hl : WT s l tl)
    (hr : WT s r tr) (hok : logicalTypesOk tl tr = true) : WT s (combine op l r) tl := by
  obtain ⟨he, hs⟩ := logical_operands hl hr hok
  subst he
  cases l with
  | combining lop items =>
    unfold combine
    by_cases ho : lop = op
    · simp only [ho, if_true]
      subst ho
      cases hl with
      | combining h1 h2 h3 => exact .combining h1 h2 (h3.snoc hr)
    · simp only [ho, if_false]
      exact .combining hl hs (.cons hr .nil)
  | comparison _ _ => exact .combining hl hs (.cons hr .nil)
  | paren _ => exact .combining hl hs (.cons hr .nil)
  | unaryNot _ => exact .combining hl hs (.cons hr .nil)
  | quantifier _ _ => exact .combining hl hs (.cons hr .nil)

theorem climb_sound {s : Scheme} {simple : Input → LexRes (Typed LExpr)}
    (hs : ∀ inp e rest, simple inp = .ok (e, rest) → WT s e.node e.ty) :
    ∀ (f : Nat),
      (∀ lhs minPrec look e rest, WT s lhs.node lhs.ty →
        climb simple f lhs minPrec look = .ok (e, rest) → WT s e.node e.ty) ∧
      (∀ op rhs r rhs' rr look, WT s rhs.node rhs.ty →
        climbInner simple f op rhs r = .ok ((rhs', rr), look) → WT s rhs'.node rhs'.ty)
  | 0 => by
    constructor
    · intro lhs minPrec look e rest _ h; simp [climb, errAt] at h
    · intro op rhs r rhs' rr look _ h; simp [climbInner, errAt] at h
  | f + 1 => by
    obtain ⟨ih1, ih2⟩ := climb_sound hs f
    constructor
    · intro lhs minPrec look e rest hl h
      obtain ⟨lo, li⟩ := look
      cases lo with
      | none =>
        simp only [climb] at h
        injection h with h; injection h with h1 h2; subst h1; exact hl
      | some op =>
        simp only [climb] at h
        split at h
        · cases h
        · rename_i rhs0 r0 hs0
          split at h
          · cases h
          · rename_i rhs rhsRest look2 hci
            have hr := ih2 _ _ _ _ _ _ (hs _ _ _ hs0) hci
            by_cases hok : logicalTypesOk lhs.ty rhs.ty = true
            · simp only [hok, Bool.not_true, Bool.false_eq_true, if_false] at h
              exact ih1 _ _ _ _ _ (combine_sound hl hr hok) h
            · simp only [hok] at h; cases h
    · intro op rhs r rhs' rr look hr h
      simp only [climbInner] at h
      split at h
      · injection h with h; injection h with h1 h2; injection h1 with h3 h4; subst h3; exact hr
      · split at h
        · cases h
        · rename_i rhs2 r2 hc
          exact ih2 _ _ _ _ _ _ (ih1 _ _ _ _ _ hr hc) h

theorem logicalL_sound {env : PEnv} {lower : Option Level} (hlow : LowerOk env lower)
    {inp rest : Input} {e : Typed LExpr} (h : logicalL env lower inp = .ok (e, rest)) :
    WT env.scheme e.node e.ty := by
  unfold logicalL at h
  split at h
  · cases h
  · rename_i lhs r hs
    exact (climb_sound (fun _ _ _ => simpleL_sound hlow) _).1 _ _ _ _ _ (simpleL_sound hlow hs) h

theorem argAfterIndex_sound {env : PEnv} {lhs : Typed IExpr} {r rest : Input} {a : Typed AExpr}
    (hl : WTI env.scheme lhs.node lhs.ty) (h : argAfterIndex env lhs r = .ok (a, rest)) :
    WTA env.scheme a.node a.ty := by
  unfold argAfterIndex at h
  split at h
  · split at h
    · cases h
    · rename_i c r2 hc
      injection h with h; injection h with h1 h2; subst h1
      exact .logical (cmpWithLhs_sound hl hc)
  · injection h with h; injection h with h1 h2; subst h1
    exact .index hl

theorem argLit_sound {s : Scheme} {t : Ty} {inp rest : Input} {a : Typed AExpr}
    (h : argLit t inp = some (.ok (a, rest))) : WTA s a.node a.ty := by
  unfold argLit at h
  cases hl : lexRhsVal t inp with
  | none => simp [hl] at h
  | some r =>
    cases r with
    | error e => simp [hl, Except.map] at h
    | ok p =>
      simp only [hl, Option.map_some, Except.map, Option.some.injEq, Except.ok.injEq,
        Prod.mk.injEq] at h
      rw [← h.1]
      exact .literal _

theorem argFallback_sound {env : PEnv} {lower : Option Level} (hlow : LowerOk env lower)
    {inp rest : Input} {a : Typed AExpr} (h : argFallback env lower inp = .ok (a, rest)) :
    WTA env.scheme a.node a.ty := by
  unfold argFallback at h
  split at h
  · rename_i lhs r hi
    exact argAfterIndex_sound (indexExprL_sound hlow hi) h
  · split at h
    · rename_i r hr
      injection h with h; subst h; exact argLit_sound hr
    · split at h
      · rename_i r hr
        injection h with h; subst h; exact argLit_sound hr
      · split at h
        · rename_i r hr
          injection h with h; subst h; exact argLit_sound hr
        · cases h

theorem argL_sound {env : PEnv} {lower : Option Level} (hlow : LowerOk env lower)
    {inp rest : Input} {a : Typed AExpr} (h : argL env lower inp = .ok (a, rest)) :
    WTA env.scheme a.node a.ty := by
  unfold argL at h
  split at h
  · exact argFallback_sound hlow h
  · simp only at h
    split at h
    · split at h
      · rename_i r hr
        subst h; exact argLit_sound hr
      · cases h
    · split at h
      · split at h
        · cases h
        · rename_i e r hlg
          injection h with h; injection h with h1 h2; subst h1
          exact .logical (logicalL_sound hlow hlg)
      · split at h
        · split at h
          · cases h
          · rename_i lhs r hi
            exact argAfterIndex_sound (indexExprL_sound hlow hi) h
        · exact argFallback_sound hlow h

theorem quantArgL_sound {env : PEnv} {lower : Option Level} (hlow : LowerOk env lower)
    {inp rest : Input} {q : QArg} (h : quantArgL env lower inp = .ok (q, rest)) :
    WTQ env.scheme q := by
  unfold quantArgL at h
  split at h
  · cases h
  · rename_i a r ha
    have hwa := argL_sound hlow ha
    split at h
    · cases h
    · rename_i e hn
      split at h
      · rename_i hty
        injection h with h; injection h with h1 h2; subst h1
        simp only [Bool.and_eq_true, beq_iff_eq] at hty
        rw [hn, hty.1] at hwa
        cases hwa with | index hi => exact .index hi hty.2
      · cases h
    · rename_i e hn
      split at h
      · rename_i hty
        injection h with h; injection h with h1 h2; subst h1
        rw [hn, eq_of_beq hty] at hwa
        cases hwa with | logical hi => exact .logical hi
      · cases h

/-- `quantifier_arg`: the quantifier argument lexer accepts only arguments of type
`Array(Bool)` (stated on the argument lexer's own result) -/
theorem quantArgL_accepts_only_bool_array {env : PEnv} {lower : Option Level}
    {inp rest : Input} {q : QArg} (h : quantArgL env lower inp = .ok (q, rest)) :
    ∃ a, argL env lower inp = .ok (a, rest) ∧ a.ty = .array .bool ∧
      ((∃ e, a.node = .index e ∧ q = .index e ∧ mapEachCount e.indexes = 0) ∨
       (∃ e, a.node = .logical e ∧ q = .logical e)) := by
  unfold quantArgL at h
  split at h
  · cases h
  · rename_i a r ha
    split at h
    · cases h
    · rename_i e hn
      split at h
      · rename_i hty
        injection h with h; injection h with h1 h2; subst h1; subst h2
        simp only [Bool.and_eq_true, beq_iff_eq] at hty
        exact ⟨a, ha, hty.1, Or.inl ⟨e, hn, rfl, hty.2⟩⟩
      · cases h
    · rename_i e hn
      split at h
      · rename_i hty
        injection h with h; injection h with h1 h2; subst h1; subst h2
        exact ⟨a, ha, eq_of_beq hty, Or.inr ⟨e, hn, rfl⟩⟩
      · cases h

theorem checkParam_sound {sig : FuncSig} {params : List ParamInfo} {next : ParamInfo}
    (hinv : sigArgsOk sig params)
    (hmany : (match sig.argCount.2 with
      | some o => decide (params.length ≥ sig.argCount.1 + o)
      | none => false) = false)
    (hck : sig.checkParam params next = .ok ()) : sigArgsOk sig (params ++ [next]) := by
  cases sig with
  | simple ps os ret impl =>
    simp only [FuncSig.argCount, decide_eq_false_iff_not, ge_iff_le, Nat.not_le] at hmany
    obtain ⟨hlen, hall⟩ := hinv
    refine ⟨by simp only [List.length_append, List.length_singleton]; omega, ?_⟩
    intro i p hp
    by_cases hi : i < params.length
    · rw [List.getElem?_append_left hi] at hp
      exact hall i p hp
    · have hi' : i = params.length := by
        have : i < (params ++ [next]).length := by
          rcases Nat.lt_or_ge i (params ++ [next]).length with h | h
          · exact h
          · rw [List.getElem?_eq_none h] at hp; cases hp
        simp only [List.length_append, List.length_singleton] at this; omega
      subst hi'
      simp only [List.getElem?_append_right (Nat.le_refl _), Nat.sub_self, List.getElem?_cons_zero,
        Option.some.injEq] at hp
      subst hp
      simp only [FuncSig.checkParam] at hck
      split at hck
      · rename_i k t hps
        split at hck
        · cases hck
        · rename_i hk
          split at hck
          · rename_i hty
            refine ⟨k, t, ?_, by simpa using hk, eq_of_beq hty⟩
            have hlt : params.length < ps.length := by
              rcases Nat.lt_or_ge params.length ps.length with h | h
              · exact h
              · rw [List.getElem?_eq_none h] at hps; cases hps
            unfold sigParams
            rw [List.getElem?_append_left hlt]; exact hps
          · cases hck
      · rename_i hps
        have hge : ps.length ≤ params.length := by
          rcases Nat.lt_or_ge params.length ps.length with h | h
          · rw [List.getElem?_eq_getElem h] at hps; cases hps
          · exact h
        split at hck
        · rename_i k v hos
          split at hck
          · cases hck
          · rename_i hk
            split at hck
            · rename_i hty
              refine ⟨k, v.typeOf, ?_, by simpa using hk, eq_of_beq hty⟩
              unfold sigParams
              rw [List.getElem?_append_right hge, List.getElem?_map, hos]; rfl
            · cases hck
        · rename_i hos
          have : os.length ≤ params.length - ps.length := by
            rcases Nat.lt_or_ge (params.length - ps.length) os.length with h | h
            · rw [List.getElem?_eq_getElem h] at hos; cases hos
            · exact h
          omega
  | concat =>
    simp only [FuncSig.checkParam] at hck
    cases params with
    | nil =>
      simp only at hck
      simp only [List.nil_append, sigArgsOk]
      refine ⟨?_, by simp⟩
      split at hck
      · rename_i e he; exact Or.inr ⟨e, he⟩
      · rename_i he; exact Or.inl he
      · cases hck
    | cons p0 r =>
      simp only at hck
      obtain ⟨h0, hr⟩ := hinv
      simp only [List.cons_append, sigArgsOk]
      refine ⟨h0, ?_⟩
      intro p hp
      rcases List.mem_append.mp hp with hp | hp
      · exact hr p hp
      · simp only [List.mem_singleton] at hp
        subst hp
        split at hck
        · rename_i hty; exact eq_of_beq hty
        · cases hck
  | ctxCounter =>
    simp only [FuncSig.checkParam] at hck
    intro p hp
    rcases List.mem_append.mp hp with hp | hp
    · exact hinv p hp
    · simp only [List.mem_singleton] at hp
      subst hp
      split at hck
      · rename_i hty; exact eq_of_beq hty
      · cases hck

/-- invariant of the argument loop of `lex_with_function` -/
def LoopInv (s : Scheme) (sig : FuncSig) (args : List AExpr) (params : List ParamInfo) : Prop :=
  WTArgs s args params ∧ sigArgsOk sig params ∧ ∀ a ∈ args.tail, a.mapEachCount = 0

theorem isLit_match (a : AExpr) : (match a with | .literal _ => true | _ => false) = isLit a := by
  cases a <;> rfl

def tooManyB (sig : FuncSig) (n : Nat) : Bool :=
  match sig.argCount.2 with
  | some o => decide (n ≥ sig.argCount.1 + o)
  | none => false

def nextParam (a : Typed AExpr) : ParamInfo := { isLiteral := isLit a.node, ty := a.ty }

def ctxStep (sig : FuncSig) (ctx : Option Nat) : Option Nat :=
  match sig with
  | .ctxCounter => ctx.map (· + 1)
  | _ => ctx

/-- one iteration of the argument loop, with its decisions named -/
theorem callArgsLoop_succ (env : PEnv) (lower : Option Level) (sig : FuncSig) (f : Nat)
    (inp : Input) (args : List AExpr) (params : List ParamInfo) (ctx : Option Nat) :
    callArgsLoop env lower sig (f + 1) inp args params ctx =
      match inp with
      | [] => .ok ((args, params, ctx), inp)
      | c :: _ =>
        if c = ')' then .ok ((args, params, ctx), inp)
        else
          match (if args.length ≠ 0 then
              (match expect inp "," with
               | some r => .ok r
               | none => errAt .expectedLiteral inp)
            else .ok inp : Except LexErr Input) with
          | .error e => .error e
          | .ok inp1 =>
            match argL env lower (skipSpace inp1) with
            | .error e => .error e
            | .ok (a, rest) =>
              if a.node.mapEachCount > 0 && args.length ≠ 0 then
                errSpan .invalidMapEachAccess (skipSpace inp1) rest
              else if tooManyB sig args.length then errAt .invalidArgumentsCount (skipSpace inp1)
              else
                match sig.checkParam params (nextParam a) with
                | .error .kind => errSpan .invalidArgumentKind (skipSpace inp1) rest
                | .error .ty => errSpan .invalidArgumentType (skipSpace inp1) rest
                | .error .value => errSpan .invalidArgumentValue (skipSpace inp1) rest
                | .ok _ =>
                  callArgsLoop env lower sig f (skipSpace rest) (args ++ [a.node])
                    (params ++ [nextParam a]) (ctxStep sig ctx) := by
  conv => lhs; unfold callArgsLoop
  rfl

theorem callArgsLoop_sound {env : PEnv} {lower : Option Level} (hlow : LowerOk env lower)
    (sig : FuncSig) : ∀ (f : Nat) (inp : Input) (args : List AExpr) (params : List ParamInfo)
      (ctx : Option Nat) (args' : List AExpr) (params' : List ParamInfo) (ctx' : Option Nat)
      (rest : Input),
      LoopInv env.scheme sig args params →
      callArgsLoop env lower sig f inp args params ctx = .ok ((args', params', ctx'), rest) →
      LoopInv env.scheme sig args' params'
  | 0, _, _, _, _, _, _, _, _, _, h => by simp [callArgsLoop, errAt] at h
  | f + 1, inp, args, params, ctx, args', params', ctx', rest, hinv, h => by
    rw [callArgsLoop_succ] at h
    split at h
    · injection h with h; injection h with h1 h2; injection h1 with h3 h4; injection h4 with h5 h6
      subst h3; subst h5; exact hinv
    · split at h
      · injection h with h; injection h with h1 h2; injection h1 with h3 h4; injection h4 with h5 h6
        subst h3; subst h5; exact hinv
      · split at h
        · cases h
        · split at h
          · cases h
          · rename_i a r ha
            have hwa := argL_sound hlow ha
            by_cases hme : (decide (a.node.mapEachCount > 0) && decide (args.length ≠ 0)) = true
            · simp only [hme, if_true] at h; cases h
            · simp only [hme] at h
              cases hmany : tooManyB sig args.length with
              | true => simp only [hmany, if_true] at h; cases h
              | false =>
                simp only [hmany, Bool.false_eq_true, if_false] at h
                split at h
                · cases h
                · cases h
                · cases h
                · rename_i u hck
                  obtain ⟨h1, h2, h3⟩ := hinv
                  have hlen := h1.length
                  refine callArgsLoop_sound hlow sig f _ _ _ _ _ _ _ _ ⟨?_, ?_, ?_⟩ h
                  · exact h1.snoc hwa
                  · have hu : u = () := rfl
                    subst hu
                    refine checkParam_sound h2 ?_ hck
                    rw [hlen]
                    exact hmany
                  · intro b hb
                    cases args with
                    | nil => simp at hb
                    | cons a0 as =>
                      simp only [List.cons_append, List.tail_cons, List.mem_append,
                        List.mem_singleton] at hb
                      rcases hb with hb | hb
                      · exact h3 b hb
                      · subst hb
                        simp only [List.length_cons, ne_eq, Nat.succ_ne_zero,
                          not_false_eq_true, decide_true, Bool.and_true,
                          decide_eq_true_eq, Nat.not_lt, Nat.le_zero_eq] at hme
                        exact hme

theorem callBodyL_sound {env : PEnv} {lower : Option Level} (hlow : LowerOk env lower) :
    CallBodyOk env (callBodyL env lower) := by
  intro fn name sig inp rest args ctx ty _ h
  unfold callBodyL at h
  simp only at h
  split at h
  · cases h
  · split at h
    · cases h
    · rename_i args1 params1 ctx1 rest1 hloop
      have hinv := callArgsLoop_sound hlow sig _ _ _ _ _ _ _ _ _
        ⟨WTArgs.nil, by cases sig <;> simp [sigArgsOk], by simp⟩ hloop
      split at h
      · cases h
      · rename_i hmin
        split at h
        · cases h
        · injection h with h; injection h with h1 h2; injection h1 with h3 h4; injection h4 with h5 h6
          subst h3
          obtain ⟨i1, i2, i3⟩ := hinv
          refine ⟨params1, i1, ⟨?_, i2⟩, i3, ?_⟩
          · rw [i1.length]
            cases sig <;> simpa [FuncSig.argCount, minArgs, Nat.not_lt] using Nat.le_of_not_lt hmin
          · rw [← h6]
            unfold callTy
            rw [retTy_eq]
            cases args1 with
            | nil => simp
            | cons a as => by_cases hm : a.mapEachCount > 0 <;> simp [hm]

theorem mkLevel_ok {env : PEnv} {lower : Option Level} (hlow : LowerOk env lower) :
    LevelOk env (mkLevel env lower) where
  logical := fun _ _ _ => logicalL_sound hlow
  simple := fun _ _ _ => simpleL_sound hlow
  quantArg := fun _ _ _ => quantArgL_sound hlow
  callBody := callBodyL_sound hlow

theorem lowerOk_none (env : PEnv) : LowerOk env none := fun _ h => by cases h

theorem level_ok (env : PEnv) : ∀ n, LevelOk env (level env n)
  | 0 => mkLevel_ok (lowerOk_none env)
  | n + 1 => mkLevel_ok (fun lw h => by injection h with h; subst h; exact level_ok env n)

theorem lowerOf_ok (env : PEnv) : ∀ n, LowerOk env (lowerOf env n)
  | 0 => lowerOk_none env
  | n + 1 => fun lw h => by
    simp only [lowerOf, Option.some.injEq] at h; subst h; exact level_ok env n

theorem complete_ok {α} {r : LexRes α} {a : α} (h : complete r = .ok a) : r = .ok (a, []) := by
  unfold complete at h
  split at h
  · cases h
  · injection h with h; subst h; rfl
  · cases h

theorem parseFilter_sound {env : PEnv} {src : Input} {e : LExpr}
    (h : parseFilter env src = .ok e) : WT env.scheme e .bool := by
  unfold parseFilter at h
  have h := complete_ok h
  split at h
  · cases h
  · rename_i te rest hl
    have hw := (level_ok env env.st.maxDepth).logical _ _ _ hl
    split at h
    · rename_i hty
      injection h with h; injection h with h1 h2; subst h1
      rw [eq_of_beq hty] at hw; exact hw
    · cases h

theorem topIndexExpr_sound {env : PEnv} {inp rest : Input} {e : Typed IExpr}
    (h : topIndexExpr env inp = .ok (e, rest)) : WTI env.scheme e.node e.ty :=
  indexExprL_sound (lowerOf_ok env _) h

theorem parseValue_sound {env : PEnv} {src : Input} {e : Typed IExpr}
    (h : parseValue env src = .ok e) :
    WTI env.scheme e.node e.ty ∧ mapEachCount e.node.indexes = 0 := by
  unfold parseValue at h
  have h := complete_ok h
  split at h
  · cases h
  · rename_i te rest hl
    split at h
    · cases h
    · rename_i hm
      injection h with h; injection h with h1 h2; subst h1
      exact ⟨topIndexExpr_sound hl, by omega⟩

end WfModel
