import WfModel.Model.Scheme
/-!
Helper definitions (abstract registry `Spec`, invariants) and lemmas for C16.
-/
namespace WfModel.Scheme

/-! ### association lists -/

theorem find_nil {α β} [DecidableEq α] (a : α) : find ([] : List (α × β)) a = none := rfl

theorem find_cons {α β} [DecidableEq α] (k : α) (v : β) (l : List (α × β)) (a : α) :
    find ((k, v) :: l) a = if k = a then some v else find l a := rfl

theorem find_none_iff {α β} [DecidableEq α] (l : List (α × β)) (a : α) :
    find l a = none ↔ a ∉ l.map Prod.fst := by
  induction l with
  | nil => simp [find]
  | cons p l ih =>
    obtain ⟨k, v⟩ := p
    rw [find_cons]
    by_cases h : k = a
    · simp [h]
    · simp only [h, if_false, ih, List.map_cons, List.mem_cons, not_or]
      constructor
      · intro h2; exact ⟨fun e => h e.symm, h2⟩
      · intro h2; exact h2.2

theorem find_some_mem {α β} [DecidableEq α] (l : List (α × β)) (a : α) (v : β)
    (h : find l a = some v) : (a, v) ∈ l := by
  induction l with
  | nil => simp [find] at h
  | cons p l ih =>
    obtain ⟨k, w⟩ := p
    rw [find_cons] at h
    by_cases hk : k = a
    · simp [hk] at h; subst hk; subst h; exact List.mem_cons_self
    · simp [hk] at h; exact List.mem_cons_of_mem _ (ih h)

theorem mem_find_of_nodup {α β} [DecidableEq α] (l : List (α × β)) (a : α) (v : β)
    (hn : (l.map Prod.fst).Nodup) (h : (a, v) ∈ l) : find l a = some v := by
  induction l with
  | nil => cases h
  | cons p l ih =>
    obtain ⟨k, w⟩ := p
    rw [find_cons]
    simp only [List.map_cons, List.nodup_cons] at hn
    rcases List.mem_cons.mp h with h | h
    · cases h; simp
    · have hne : k ≠ a := by
        intro e; subst e
        exact hn.1 (List.mem_map.mpr ⟨(k, v), h, rfl⟩)
      simp [hne, ih hn.2 h]

/-! ### the abstract registry -/

/-- The specification state: a partial map from exact names to (kind, index), the
registration record of each field index, and a partial map from types to list indexes. -/
structure Spec where
  reg : Name → Option (Kind × Nat)
  info : Nat → Option FieldDef
  fnName : Nat → Option Name
  nFields : Nat
  nFunctions : Nat
  lst : Ty → Option Nat
  lstTy : Nat → Option Ty
  nLists : Nat

def Spec.empty : Spec :=
  { reg := fun _ => none, info := fun _ => none, fnName := fun _ => none, nFields := 0,
    nFunctions := 0, lst := fun _ => none, lstTy := fun _ => none, nLists := 0 }

/-- which error a name that is already held produces -/
def holderErr (n : Name) : Kind → Err
  | .field => .fieldRedef n
  | .function => .functionRedef n

def Spec.addFieldFull (sp : Spec) (n : Name) (ty : Ty) (o : Bool) : Except Err Spec :=
  match sp.reg n with
  | some (k, _) => .error (holderErr n k)
  | none =>
    .ok { sp with
      reg := fun m => if m = n then some (.field, sp.nFields) else sp.reg m
      info := fun i => if i = sp.nFields then some ⟨n, ty, o⟩ else sp.info i
      nFields := sp.nFields + 1 }

def Spec.addFunction (sp : Spec) (n : Name) : Except Err Spec :=
  match sp.reg n with
  | some (k, _) => .error (holderErr n k)
  | none =>
    .ok { sp with
      reg := fun m => if m = n then some (.function, sp.nFunctions) else sp.reg m
      fnName := fun i => if i = sp.nFunctions then some n else sp.fnName i
      nFunctions := sp.nFunctions + 1 }

def Spec.addList (sp : Spec) (t : Ty) : Except Err Spec :=
  match sp.lst t with
  | some _ => .error (.listRedef t)
  | none =>
    .ok { sp with
      lst := fun u => if u = t then some sp.nLists else sp.lst u
      lstTy := fun i => if i = sp.nLists then some t else sp.lstTy i
      nLists := sp.nLists + 1 }

def Spec.apply (sp : Spec) : Op → Except Err Spec
  | .addField n ty => sp.addFieldFull n ty false
  | .addOptionalField n ty => sp.addFieldFull n ty true
  | .addFunction n => sp.addFunction n
  | .addList ty => sp.addList ty

def Spec.run (sp : Spec) : List Op → Spec × List (Option Err)
  | [] => (sp, [])
  | op :: ops =>
    match sp.apply op with
    | .ok sp' => let (f, rs) := sp'.run ops; (f, none :: rs)
    | .error e => let (f, rs) := sp.run ops; (f, some e :: rs)

/-- abstraction relation: the builder's five containers present exactly the spec maps -/
structure Abs (b : Builder) (sp : Spec) : Prop where
  reg : ∀ n, (find b.items n).map (fun it => (it.kind, it.index)) = sp.reg n
  info : ∀ i, b.fields[i]? = sp.info i
  fnName : ∀ i, b.functions[i]? = sp.fnName i
  nFields : b.fields.length = sp.nFields
  nFunctions : b.functions.length = sp.nFunctions
  lst : ∀ t, find b.listTypes t = sp.lst t
  lstTy : ∀ i, b.lists[i]? = sp.lstTy i
  nLists : b.lists.length = sp.nLists

theorem abs_empty : Abs Builder.new Spec.empty := by
  constructor <;> intros <;> simp [Builder.new, Spec.empty, find]

theorem getElem?_append_singleton {α} (l : List α) (x : α) (i : Nat) :
    (l ++ [x])[i]? = if i = l.length then some x else l[i]? := by
  by_cases h : i = l.length
  · subst h; simp
  · simp only [h, if_false]
    by_cases h2 : i < l.length
    · rw [List.getElem?_append_left h2]
    · have : l.length < i := by omega
      rw [List.getElem?_eq_none (by simp; omega), List.getElem?_eq_none (by omega)]

theorem abs_addFieldFull (b : Builder) (sp : Spec) (h : Abs b sp) (n : Name) (ty : Ty) (o : Bool) :
    match b.addFieldFull n ty o, sp.addFieldFull n ty o with
    | .ok b', .ok sp' => Abs b' sp'
    | .error e, .error e' => e = e'
    | _, _ => False := by
  have hr := h.reg n
  unfold Builder.addFieldFull Spec.addFieldFull
  cases hf : find b.items n with
  | none =>
    rw [hf] at hr
    simp only [Option.map_none] at hr
    rw [← hr]
    simp only
    constructor
    · intro m
      simp only [find_cons]
      by_cases hm : n = m
      · subst hm; simp [Item.kind, Item.index, h.nFields]
      · have hm' : ¬ m = n := fun e => hm e.symm
        simp [hm, hm', h.reg m]
    · intro i
      simp only [getElem?_append_singleton, h.nFields, h.info i]
    · exact h.fnName
    · simp [h.nFields]
    · exact h.nFunctions
    · exact h.lst
    · exact h.lstTy
    · exact h.nLists
  | some it =>
    rw [hf] at hr
    simp only [Option.map_some] at hr
    rw [← hr]
    cases it <;> simp [Item.kind, holderErr]

theorem abs_addFunction (b : Builder) (sp : Spec) (h : Abs b sp) (n : Name) :
    match b.addFunction n, sp.addFunction n with
    | .ok b', .ok sp' => Abs b' sp'
    | .error e, .error e' => e = e'
    | _, _ => False := by
  have hr := h.reg n
  unfold Builder.addFunction Spec.addFunction
  cases hf : find b.items n with
  | none =>
    rw [hf] at hr
    simp only [Option.map_none] at hr
    rw [← hr]
    simp only
    constructor
    · intro m
      simp only [find_cons]
      by_cases hm : n = m
      · subst hm; simp [Item.kind, Item.index, h.nFunctions]
      · have hm' : ¬ m = n := fun e => hm e.symm
        simp [hm, hm', h.reg m]
    · exact h.info
    · intro i
      simp only [getElem?_append_singleton, h.nFunctions, h.fnName i]
    · exact h.nFields
    · simp [h.nFunctions]
    · exact h.lst
    · exact h.lstTy
    · exact h.nLists
  | some it =>
    rw [hf] at hr
    simp only [Option.map_some] at hr
    rw [← hr]
    cases it <;> simp [Item.kind, holderErr]

theorem abs_addList (b : Builder) (sp : Spec) (h : Abs b sp) (t : Ty) :
    match b.addList t, sp.addList t with
    | .ok b', .ok sp' => Abs b' sp'
    | .error e, .error e' => e = e'
    | _, _ => False := by
  have hr := h.lst t
  unfold Builder.addList Spec.addList
  cases hf : find b.listTypes t with
  | none =>
    rw [hf] at hr
    rw [← hr]
    simp only
    constructor
    · exact h.reg
    · exact h.info
    · exact h.fnName
    · exact h.nFields
    · exact h.nFunctions
    · intro u
      simp only [find_cons]
      by_cases hm : t = u
      · subst hm; simp [h.nLists]
      · have hm' : ¬ u = t := fun e => hm e.symm
        simp [hm, hm', h.lst u]
    · intro i
      simp only [getElem?_append_singleton, h.nLists, h.lstTy i]
    · simp [h.nLists]
  | some i =>
    rw [hf] at hr
    rw [← hr]

theorem abs_apply (b : Builder) (sp : Spec) (h : Abs b sp) (op : Op) :
    match b.apply op, sp.apply op with
    | .ok b', .ok sp' => Abs b' sp'
    | .error e, .error e' => e = e'
    | _, _ => False := by
  cases op with
  | addField n ty => exact abs_addFieldFull b sp h n ty false
  | addOptionalField n ty => exact abs_addFieldFull b sp h n ty true
  | addFunction n => exact abs_addFunction b sp h n
  | addList ty => exact abs_addList b sp h ty

theorem abs_run (ops : List Op) : ∀ (b : Builder) (sp : Spec), Abs b sp →
    (b.run ops).2 = (sp.run ops).2 ∧ Abs (b.run ops).1 (sp.run ops).1 := by
  induction ops with
  | nil => intro b sp h; exact ⟨rfl, h⟩
  | cons op ops ih =>
    intro b sp h
    have hs := abs_apply b sp h op
    unfold Builder.run Spec.run
    cases hb : b.apply op with
    | ok b' =>
      cases hsp : sp.apply op with
      | ok sp' =>
        rw [hb, hsp] at hs
        have := ih b' sp' hs
        simp only [this.1]
        exact ⟨trivial, this.2⟩
      | error e => rw [hb, hsp] at hs; exact hs.elim
    | error e =>
      cases hsp : sp.apply op with
      | ok sp' => rw [hb, hsp] at hs; exact hs.elim
      | error e' =>
        rw [hb, hsp] at hs
        have := ih b sp h
        simp only [this.1, hs]
        exact ⟨trivial, this.2⟩

/-! ### the consistency invariant of the concrete registry -/

/-- `items`, `fields`, `functions`, `list_types`, `lists` index each other consistently and
every key occurs once. -/
structure Inv (b : Builder) : Prop where
  keys : (b.items.map Prod.fst).Nodup
  field_of_item : ∀ n i, find b.items n = some (.field i) → ∃ d, b.fields[i]? = some d ∧ d.name = n
  item_of_field : ∀ i d, b.fields[i]? = some d → find b.items d.name = some (.field i)
  fn_of_item : ∀ n i, find b.items n = some (.function i) → b.functions[i]? = some n
  item_of_fn : ∀ i n, b.functions[i]? = some n → find b.items n = some (.function i)
  lkeys : (b.listTypes.map Prod.fst).Nodup
  list_of_type : ∀ t i, find b.listTypes t = some i → b.lists[i]? = some t
  type_of_list : ∀ i t, b.lists[i]? = some t → find b.listTypes t = some i

theorem inv_new : Inv Builder.new := by
  constructor <;> simp [Builder.new, find]

theorem inv_addFieldFull (b b' : Builder) (h : Inv b) (n : Name) (ty : Ty) (o : Bool)
    (hb : b.addFieldFull n ty o = .ok b') : Inv b' := by
  unfold Builder.addFieldFull at hb
  cases hf : find b.items n with
  | some it => rw [hf] at hb; cases it <;> simp at hb
  | none =>
    rw [hf] at hb
    simp only [Except.ok.injEq] at hb
    subst hb
    have hfresh := (find_none_iff _ _).mp hf
    constructor
    · simp only [List.map_cons, List.nodup_cons]; exact ⟨hfresh, h.keys⟩
    · intro m i hm
      simp only [find_cons] at hm
      by_cases e : n = m
      · simp only [e, if_true, Option.some.injEq, Item.field.injEq] at hm
        subst hm
        exact ⟨⟨n, ty, o⟩, by simp, e⟩
      · simp only [e, if_false] at hm
        obtain ⟨d, hd, hn⟩ := h.field_of_item m i hm
        refine ⟨d, ?_, hn⟩
        have hi : i < b.fields.length := by
          rcases List.getElem?_eq_some_iff.mp hd with ⟨hi, _⟩; exact hi
        simp only [getElem?_append_singleton]
        rw [if_neg (by omega)]; exact hd
    · intro i d hd
      simp only [getElem?_append_singleton] at hd
      simp only [find_cons]
      by_cases e : i = b.fields.length
      · simp only [e, if_true, Option.some.injEq] at hd
        subst hd; simp [e]
      · simp only [e, if_false] at hd
        have hi := h.item_of_field i d hd
        have hne : n ≠ d.name := by
          intro e2; rw [← e2, hf] at hi; cases hi
        simp [hne, hi]
    · intro m i hm
      simp only [find_cons] at hm
      by_cases e : n = m
      · simp [e] at hm
      · simp only [e, if_false] at hm
        exact h.fn_of_item m i hm
    · intro i m hm
      have hi := h.item_of_fn i m hm
      have hne : n ≠ m := by
        intro e2; rw [← e2, hf] at hi; cases hi
      simp [find_cons, hne, hi]
    · exact h.lkeys
    · exact h.list_of_type
    · exact h.type_of_list

theorem inv_addFunction (b b' : Builder) (h : Inv b) (n : Name)
    (hb : b.addFunction n = .ok b') : Inv b' := by
  unfold Builder.addFunction at hb
  cases hf : find b.items n with
  | some it => rw [hf] at hb; cases it <;> simp at hb
  | none =>
    rw [hf] at hb
    simp only [Except.ok.injEq] at hb
    subst hb
    have hfresh := (find_none_iff _ _).mp hf
    constructor
    · simp only [List.map_cons, List.nodup_cons]; exact ⟨hfresh, h.keys⟩
    · intro m i hm
      simp only [find_cons] at hm
      by_cases e : n = m
      · simp [e] at hm
      · simp only [e, if_false] at hm
        exact h.field_of_item m i hm
    · intro i d hd
      have hi := h.item_of_field i d hd
      have hne : n ≠ d.name := by
        intro e2; rw [← e2, hf] at hi; cases hi
      simp [find_cons, hne, hi]
    · intro m i hm
      simp only [find_cons] at hm
      by_cases e : n = m
      · simp only [e, if_true, Option.some.injEq, Item.function.injEq] at hm
        subst hm
        simp [e]
      · simp only [e, if_false] at hm
        have hd := h.fn_of_item m i hm
        have hi : i < b.functions.length := by
          rcases List.getElem?_eq_some_iff.mp hd with ⟨hi, _⟩; exact hi
        simp only [getElem?_append_singleton]
        rw [if_neg (by omega)]; exact hd
    · intro i m hm
      simp only [getElem?_append_singleton] at hm
      simp only [find_cons]
      by_cases e : i = b.functions.length
      · simp only [e, if_true, Option.some.injEq] at hm
        subst hm; simp [e]
      · simp only [e, if_false] at hm
        have hi := h.item_of_fn i m hm
        have hne : n ≠ m := by
          intro e2; rw [← e2, hf] at hi; cases hi
        simp [hne, hi]
    · exact h.lkeys
    · exact h.list_of_type
    · exact h.type_of_list

theorem inv_addList (b b' : Builder) (h : Inv b) (t : Ty)
    (hb : b.addList t = .ok b') : Inv b' := by
  unfold Builder.addList at hb
  cases hf : find b.listTypes t with
  | some it => rw [hf] at hb; simp at hb
  | none =>
    rw [hf] at hb
    simp only [Except.ok.injEq] at hb
    subst hb
    have hfresh := (find_none_iff _ _).mp hf
    constructor
    · exact h.keys
    · exact h.field_of_item
    · exact h.item_of_field
    · exact h.fn_of_item
    · exact h.item_of_fn
    · simp only [List.map_cons, List.nodup_cons]; exact ⟨hfresh, h.lkeys⟩
    · intro u i hm
      simp only [find_cons] at hm
      by_cases e : t = u
      · simp only [e, if_true, Option.some.injEq] at hm
        subst hm
        simp [e]
      · simp only [e, if_false] at hm
        have hd := h.list_of_type u i hm
        have hi : i < b.lists.length := by
          rcases List.getElem?_eq_some_iff.mp hd with ⟨hi, _⟩; exact hi
        simp only [getElem?_append_singleton]
        rw [if_neg (by omega)]; exact hd
    · intro i u hm
      simp only [getElem?_append_singleton] at hm
      simp only [find_cons]
      by_cases e : i = b.lists.length
      · simp only [e, if_true, Option.some.injEq] at hm
        subst hm; simp [e]
      · simp only [e, if_false] at hm
        have hi := h.type_of_list i u hm
        have hne : t ≠ u := by
          intro e2; rw [← e2, hf] at hi; cases hi
        simp [hne, hi]

theorem inv_apply (b b' : Builder) (h : Inv b) (op : Op) (hb : b.apply op = .ok b') : Inv b' := by
  cases op with
  | addField n ty => exact inv_addFieldFull b b' h n ty false hb
  | addOptionalField n ty => exact inv_addFieldFull b b' h n ty true hb
  | addFunction n => exact inv_addFunction b b' h n hb
  | addList ty => exact inv_addList b b' h ty hb

theorem inv_run (ops : List Op) : ∀ b, Inv b → Inv (b.run ops).1 := by
  induction ops with
  | nil => intro b h; exact h
  | cons op ops ih =>
    intro b h
    unfold Builder.run
    cases hb : b.apply op with
    | ok b' => exact ih b' (inv_apply b b' h op hb)
    | error e => exact ih b h

/-- all registered identifier names, as `fields()` and `functions()` enumerate them -/
def Builder.names (b : Builder) : List Name := b.fields.map (·.name) ++ b.functions

theorem find_items_none_iff (b : Builder) (h : Inv b) (n : Name) :
    find b.items n = none ↔ n ∉ b.names := by
  constructor
  · intro hf hm
    simp only [Builder.names, List.mem_append, List.mem_map] at hm
    rcases hm with ⟨d, hd, rfl⟩ | hm
    · obtain ⟨i, hi, he⟩ := List.getElem_of_mem hd
      have := h.item_of_field i d (by rw [List.getElem?_eq_getElem hi, he])
      rw [hf] at this; cases this
    · obtain ⟨i, hi, he⟩ := List.getElem_of_mem hm
      have := h.item_of_fn i n (by rw [List.getElem?_eq_getElem hi, he])
      rw [hf] at this; cases this
  · intro hn
    cases hf : find b.items n with
    | none => rfl
    | some it =>
      exfalso; apply hn
      simp only [Builder.names, List.mem_append, List.mem_map]
      cases it with
      | field i =>
        obtain ⟨d, hd, hname⟩ := h.field_of_item n i hf
        exact Or.inl ⟨d, List.mem_of_getElem? hd, hname⟩
      | function i =>
        exact Or.inr (List.mem_of_getElem? (h.fn_of_item n i hf))

theorem find_listTypes_none_iff (b : Builder) (h : Inv b) (t : Ty) :
    find b.listTypes t = none ↔ t ∉ b.lists := by
  constructor
  · intro hf hm
    obtain ⟨i, hi, he⟩ := List.getElem_of_mem hm
    have := h.type_of_list i t (by rw [List.getElem?_eq_getElem hi, he])
    rw [hf] at this; cases this
  · intro hn
    cases hf : find b.listTypes t with
    | none => rfl
    | some i => exact absurd (List.mem_of_getElem? (h.list_of_type t i hf)) hn

/-! ### monotonicity: later registrations never disturb earlier ones -/

structure Mono (b b' : Builder) : Prop where
  items : ∀ n it, find b.items n = some it → find b'.items n = some it
  fields : ∀ (i : Nat) d, b.fields[i]? = some d → b'.fields[i]? = some d
  functions : ∀ (i : Nat) n, b.functions[i]? = some n → b'.functions[i]? = some n
  listTypes : ∀ t i, find b.listTypes t = some i → find b'.listTypes t = some i
  lists : ∀ (i : Nat) t, b.lists[i]? = some t → b'.lists[i]? = some t

theorem mono_refl (b : Builder) : Mono b b := ⟨fun _ _ h => h, fun _ _ h => h, fun _ _ h => h, fun _ _ h => h, fun _ _ h => h⟩

theorem mono_trans {a b c : Builder} (h1 : Mono a b) (h2 : Mono b c) : Mono a c :=
  ⟨fun n it h => h2.items n it (h1.items n it h), fun i d h => h2.fields i d (h1.fields i d h),
   fun i n h => h2.functions i n (h1.functions i n h), fun t i h => h2.listTypes t i (h1.listTypes t i h),
   fun i t h => h2.lists i t (h1.lists i t h)⟩

theorem getElem?_append_of_some {α} (l : List α) (x : α) (i : Nat) (d : α) (h : l[i]? = some d) :
    (l ++ [x])[i]? = some d := by
  have hi : i < l.length := by
    rcases List.getElem?_eq_some_iff.mp h with ⟨hi, _⟩; exact hi
  rw [List.getElem?_append_left hi]; exact h

theorem mono_apply (b b' : Builder) (op : Op) (hb : b.apply op = .ok b') : Mono b b' := by
  cases op with
  | addField n ty =>
    simp only [Builder.apply, Builder.addField, Builder.addFieldFull] at hb
    cases hf : find b.items n with
    | some it => rw [hf] at hb; cases it <;> simp at hb
    | none =>
      rw [hf] at hb; simp only [Except.ok.injEq] at hb; subst hb
      refine ⟨?_, ?_, fun _ _ h => h, fun _ _ h => h, fun _ _ h => h⟩
      · intro m it hm
        have : n ≠ m := by intro e; rw [e, hm] at hf; cases hf
        simp [find_cons, this, hm]
      · intro i d hd; exact getElem?_append_of_some _ _ _ _ hd
  | addOptionalField n ty =>
    simp only [Builder.apply, Builder.addOptionalField, Builder.addFieldFull] at hb
    cases hf : find b.items n with
    | some it => rw [hf] at hb; cases it <;> simp at hb
    | none =>
      rw [hf] at hb; simp only [Except.ok.injEq] at hb; subst hb
      refine ⟨?_, ?_, fun _ _ h => h, fun _ _ h => h, fun _ _ h => h⟩
      · intro m it hm
        have : n ≠ m := by intro e; rw [e, hm] at hf; cases hf
        simp [find_cons, this, hm]
      · intro i d hd; exact getElem?_append_of_some _ _ _ _ hd
  | addFunction n =>
    simp only [Builder.apply, Builder.addFunction] at hb
    cases hf : find b.items n with
    | some it => rw [hf] at hb; cases it <;> simp at hb
    | none =>
      rw [hf] at hb; simp only [Except.ok.injEq] at hb; subst hb
      refine ⟨?_, fun _ _ h => h, ?_, fun _ _ h => h, fun _ _ h => h⟩
      · intro m it hm
        have : n ≠ m := by intro e; rw [e, hm] at hf; cases hf
        simp [find_cons, this, hm]
      · intro i d hd; exact getElem?_append_of_some _ _ _ _ hd
  | addList t =>
    simp only [Builder.apply, Builder.addList] at hb
    cases hf : find b.listTypes t with
    | some it => rw [hf] at hb; simp at hb
    | none =>
      rw [hf] at hb; simp only [Except.ok.injEq] at hb; subst hb
      refine ⟨fun _ _ h => h, fun _ _ h => h, fun _ _ h => h, ?_, ?_⟩
      · intro u i hm
        have : t ≠ u := by intro e; rw [e, hm] at hf; cases hf
        simp [find_cons, this, hm]
      · intro i d hd; exact getElem?_append_of_some _ _ _ _ hd

theorem mono_run (ops : List Op) : ∀ b, Mono b (b.run ops).1 := by
  induction ops with
  | nil => intro b; exact mono_refl b
  | cons op ops ih =>
    intro b
    unfold Builder.run
    cases hb : b.apply op with
    | ok b' => exact mono_trans (mono_apply b b' op hb) (ih b')
    | error e => exact ih b

/-! ### successful registrations, in order -/

/-- the field registrations among `ops` whose result was `Ok`, oldest first -/
def okFields : List Op → List (Option Err) → List FieldDef
  | .addField n ty :: ops, none :: rs => ⟨n, ty, false⟩ :: okFields ops rs
  | .addOptionalField n ty :: ops, none :: rs => ⟨n, ty, true⟩ :: okFields ops rs
  | _ :: ops, _ :: rs => okFields ops rs
  | _, _ => []

def okFunctions : List Op → List (Option Err) → List Name
  | .addFunction n :: ops, none :: rs => n :: okFunctions ops rs
  | _ :: ops, _ :: rs => okFunctions ops rs
  | _, _ => []

def okLists : List Op → List (Option Err) → List Ty
  | .addList t :: ops, none :: rs => t :: okLists ops rs
  | _ :: ops, _ :: rs => okLists ops rs
  | _, _ => []

theorem run_vectors (ops : List Op) : ∀ b : Builder,
    (b.run ops).1.fields = b.fields ++ okFields ops (b.run ops).2 ∧
    (b.run ops).1.functions = b.functions ++ okFunctions ops (b.run ops).2 ∧
    (b.run ops).1.lists = b.lists ++ okLists ops (b.run ops).2 := by
  induction ops with
  | nil => intro b; simp [Builder.run, okFields, okFunctions, okLists]
  | cons op ops ih =>
    intro b
    unfold Builder.run
    cases hb : b.apply op with
    | error e =>
      have := ih b
      cases op <;> simp [okFields, okFunctions, okLists, this]
    | ok b' =>
      have := ih b'
      cases op with
      | addField n ty =>
        simp only [Builder.apply, Builder.addField, Builder.addFieldFull] at hb
        cases hf : find b.items n with
        | some it => rw [hf] at hb; cases it <;> simp at hb
        | none =>
          rw [hf] at hb; simp only [Except.ok.injEq] at hb; subst hb
          simp [okFields, okFunctions, okLists, this] at this ⊢
      | addOptionalField n ty =>
        simp only [Builder.apply, Builder.addOptionalField, Builder.addFieldFull] at hb
        cases hf : find b.items n with
        | some it => rw [hf] at hb; cases it <;> simp at hb
        | none =>
          rw [hf] at hb; simp only [Except.ok.injEq] at hb; subst hb
          simp [okFields, okFunctions, okLists, this] at this ⊢
      | addFunction n =>
        simp only [Builder.apply, Builder.addFunction] at hb
        cases hf : find b.items n with
        | some it => rw [hf] at hb; cases it <;> simp at hb
        | none =>
          rw [hf] at hb; simp only [Except.ok.injEq] at hb; subst hb
          simp [okFields, okFunctions, okLists, this] at this ⊢
      | addList t =>
        simp only [Builder.apply, Builder.addList] at hb
        cases hf : find b.listTypes t with
        | some it => rw [hf] at hb; simp at hb
        | none =>
          rw [hf] at hb; simp only [Except.ok.injEq] at hb; subst hb
          simp [okFields, okFunctions, okLists, this] at this ⊢

/-! ### identifier scanner -/

/-- a non-empty run of identifier characters -/
def IdentRun (g : List Char) : Prop := g ≠ [] ∧ ∀ c ∈ g, isIdentChar c = true

/-- `.seg.seg…` -/
def tailDots : List (List Char) → List Char
  | [] => []
  | g :: gs => '.' :: (g ++ tailDots gs)

/-- `seg.seg.….seg` -/
def joinDots : List (List Char) → List Char
  | [] => []
  | g :: gs => g ++ tailDots gs

/-- what may follow a complete identifier: end of input, or a character that is neither
an identifier character nor `.` -/
def Stops (r : List Char) : Prop := ∀ c, r.head? = some c → isIdentChar c = false ∧ c ≠ '.'

theorem dot_not_ident : isIdentChar '.' = false := by decide

theorem identGo_complete (segs : List (List Char)) : ∀ (g r : List Char) (fresh : Bool),
    (∀ c ∈ g, isIdentChar c = true) → (fresh = true → g ≠ []) →
    (∀ g' ∈ segs, IdentRun g') → Stops r →
    identGo fresh (g ++ tailDots segs ++ r) = some (g ++ tailDots segs, r) := by
  induction segs with
  | nil =>
    intro g
    induction g with
    | nil =>
      intro r fresh _ hf _ hs
      have hfr : fresh = false := by
        cases fresh with
        | false => rfl
        | true => exact absurd rfl (hf rfl)
      subst hfr
      cases r with
      | nil => simp [tailDots, identGo]
      | cons c cs =>
        have := hs c rfl
        simp [tailDots, identGo, this.1, this.2]
    | cons c g ih =>
      intro r fresh hg _ hsegs hs
      have hc : isIdentChar c = true := hg c List.mem_cons_self
      have := ih r false (fun c' hc' => hg c' (List.mem_cons_of_mem _ hc')) (by simp) hsegs hs
      simp only [tailDots, List.append_nil] at this ⊢
      simp [identGo, hc, this]
  | cons g1 gs ihs =>
    intro g
    induction g with
    | nil =>
      intro r fresh _ hf hsegs hs
      have hfr : fresh = false := by
        cases fresh with
        | false => rfl
        | true => exact absurd rfl (hf rfl)
      subst hfr
      have h1 : IdentRun g1 := hsegs g1 List.mem_cons_self
      have := ihs g1 r true h1.2 (fun _ => h1.1) (fun g' hg' => hsegs g' (List.mem_cons_of_mem _ hg')) hs
      simp only [tailDots, List.nil_append, List.cons_append, List.append_assoc] at this ⊢
      simp [identGo, dot_not_ident, this]
    | cons c g ih =>
      intro r fresh hg _ hsegs hs
      have hc : isIdentChar c = true := hg c List.mem_cons_self
      have := ih r false (fun c' hc' => hg c' (List.mem_cons_of_mem _ hc')) (by simp) hsegs hs
      simp only [List.cons_append, List.append_assoc] at this ⊢
      simp [identGo, hc, this]

theorem identGo_sound (s : List Char) : ∀ (fresh : Bool) (n r : List Char),
    identGo fresh s = some (n, r) →
    ∃ g segs, (∀ c ∈ g, isIdentChar c = true) ∧ (fresh = true → g ≠ []) ∧
      (∀ g' ∈ segs, IdentRun g') ∧ n = g ++ tailDots segs ∧ s = n ++ r ∧ Stops r := by
  induction s with
  | nil =>
    intro fresh n r h
    cases fresh with
    | true => simp [identGo] at h
    | false =>
      simp only [identGo, Bool.false_eq_true, if_false, Option.some.injEq, Prod.mk.injEq] at h
      obtain ⟨rfl, rfl⟩ := h
      exact ⟨[], [], by simp, by simp, by simp, by simp [tailDots], by simp, by intro c hc; cases hc⟩
  | cons c cs ih =>
    intro fresh n r h
    unfold identGo at h
    by_cases hc : isIdentChar c = true
    · simp only [hc, if_true, Option.map_eq_some_iff] at h
      obtain ⟨⟨n', r'⟩, hgo, hnr⟩ := h
      simp only [Prod.mk.injEq] at hnr
      obtain ⟨rfl, rfl⟩ := hnr
      obtain ⟨g, segs, hg, _, hsegs, hn, hs, hst⟩ := ih false n' r' hgo
      refine ⟨c :: g, segs, ?_, by simp, hsegs, by simp [hn], by simp [← hs], hst⟩
      intro c' hc'
      rcases List.mem_cons.mp hc' with rfl | hc'
      · exact hc
      · exact hg c' hc'
    · simp only [hc, Bool.false_eq_true, if_false] at h
      cases fresh with
      | true => simp at h
      | false =>
        simp only [Bool.false_eq_true, if_false] at h
        by_cases hd : c = '.'
        · simp only [hd, if_true, Option.map_eq_some_iff] at h
          obtain ⟨⟨n', r'⟩, hgo, hnr⟩ := h
          simp only [Prod.mk.injEq] at hnr
          obtain ⟨rfl, rfl⟩ := hnr
          obtain ⟨g, segs, hg, hne, hsegs, hn, hs, hst⟩ := ih true n' r' hgo
          refine ⟨[], g :: segs, by simp, by simp, ?_, by simp [tailDots, hn], by simp [hd, ← hs], hst⟩
          intro g' hg'
          rcases List.mem_cons.mp hg' with rfl | hg'
          · exact ⟨hne rfl, hg⟩
          · exact hsegs g' hg'
        · simp only [hd, if_false, Option.some.injEq, Prod.mk.injEq] at h
          obtain ⟨rfl, rfl⟩ := h
          refine ⟨[], [], by simp, by simp, by simp, by simp [tailDots], by simp, ?_⟩
          intro c' hc'
          simp only [List.head?_cons, Option.some.injEq] at hc'
          subst hc'
          exact ⟨by simpa using hc, hd⟩

/-! ### build ids -/

theorem buildAll_length (bs : List Builder) : ∀ k, (buildAll k bs).length = bs.length := by
  induction bs with
  | nil => intro k; rfl
  | cons b bs ih => intro k; simp [buildAll, ih]

theorem buildAll_getElem? (bs : List Builder) : ∀ k i s, (buildAll k bs)[i]? = some s →
    s.id = k + i ∧ bs[i]? = some s.b := by
  induction bs with
  | nil => intro k i s h; simp [buildAll] at h
  | cons b bs ih =>
    intro k i s h
    cases i with
    | zero =>
      simp only [buildAll, List.getElem?_cons_zero, Option.some.injEq] at h
      subst h; simp [build]
    | succ i =>
      simp only [buildAll, List.getElem?_cons_succ] at h
      have := ih (k + 1) i s h
      simp only [List.getElem?_cons_succ]
      exact ⟨by omega, this.2⟩

end WfModel.Scheme
