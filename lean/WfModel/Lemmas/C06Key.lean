import WfModel.Lemmas.C06Int
import WfModel.Lemmas.C06Bytes
import WfModel.Lemmas.C06Utf8

/-! Helper lemmas for C06: `lexBytes`-level corollaries and map keys. -/
namespace WfModel

/-! ### `lexBytes` (= `impl Lex for BytesExpr`) on the three forms -/

theorem lexBytes_quoted (items : List (Esc × UInt8)) (rest : Input)
    (hok : ∀ it ∈ items, escOk it = true) :
    lexBytes ('"' :: (renderQuoted items ++ '"' :: rest)) =
      .ok ({ fmt := .quoted, data := items.map (·.2) }, rest) := by
  simp only [lexBytes, lexQuotedOrRaw, lexQuoted_render items rest hok]
  rfl

theorem lexBytes_raw (k : Nat) (hk : k ≤ 255) (body rest : Input) (hb : rawBodyOk k body = true) :
    lexBytes ('r' :: (hashes k ++ '"' :: (body ++ '"' :: (hashes k ++ rest)))) =
      .ok ({ fmt := .raw k, data := utf8s body }, rest) := by
  simp only [lexBytes, lexQuotedOrRaw, lexRawStr_render k hk body rest hb]
  rfl

theorem hexDigit_ne_quote_r (u : Bool) : ∀ d, d < 16 → hexDigit u d ≠ '"' ∧ hexDigit u d ≠ 'r' := by
  cases u <;> decide

theorem lexBytes_not_string (c : Char) (r : Input) (h1 : c ≠ '"') (h2 : c ≠ 'r') :
    lexBytes (c :: r) =
      (lexByteString (c :: r)).map fun (b, rest) => ({ fmt := .byte, data := b }, rest) := by
  unfold lexBytes
  split
  · rename_i h; injection h with h _; exact absurd h h1
  · rename_i h; injection h with h _; exact absurd h h2
  · rename_i h; cases h
  · rfl

theorem lexBytes_hexpairs (p0 : HexPair) (it : Char × HexPair) (items : List (Char × HexPair))
    (rest : Input) (hsep : ∀ x ∈ it :: items, isByteSep x.1 = true) (hr : NoSepHead rest = true) :
    lexBytes (renderPair p0 ++ (renderPairsTail (it :: items) ++ rest)) =
      .ok ({ fmt := .byte, data := p0.b :: (it :: items).map (·.2.b) }, rest) := by
  have hl := lexByteString_render p0 it items rest hsep hr
  have hb : p0.b.toNat < 256 := p0.b.toNat_lt
  have hne := hexDigit_ne_quote_r p0.u1 (p0.b.toNat / 16) (by omega)
  have e : renderPair p0 ++ (renderPairsTail (it :: items) ++ rest) =
      hexDigit p0.u1 (p0.b.toNat / 16) ::
        (hexDigit p0.u2 (p0.b.toNat % 16) :: (renderPairsTail (it :: items) ++ rest)) := rfl
  rw [e] at hl ⊢
  rw [lexBytes_not_string _ _ hne.1 hne.2, hl]
  rfl

/-! ### map keys -/

theorem lexFieldIndex_quote (r : Input) :
    lexFieldIndex ('"' :: r) =
      match lexBytes ('"' :: r) with
      | .error e => .error e
      | .ok (b, rest) =>
        match utf8Decode b.data with
        | some s => .ok (.key s, rest)
        | none => errAt .expectedLiteral ('"' :: r) := by
  unfold lexFieldIndex
  have e : expect ('"' :: r) "*" = none := by
    show stripPrefix ('"' :: r) ['*'] = none
    simp [stripPrefix]
  simp only [e]
  rfl

theorem lexFieldIndex_key (items : List (Esc × UInt8)) (rest : Input)
    (hok : ∀ it ∈ items, escOk it = true) :
    lexFieldIndex ('"' :: (renderQuoted items ++ '"' :: rest)) =
      match utf8Decode (items.map (·.2)) with
      | some s => .ok (.key s, rest)
      | none => errAt .expectedLiteral ('"' :: (renderQuoted items ++ '"' :: rest)) := by
  rw [lexFieldIndex_quote, lexBytes_quoted items rest hok]

/-- the all-`\xHH` rendering of a byte string (always permitted) -/
def hexItems (bs : Bytes) : List (Esc × UInt8) := bs.map fun b => (Esc.hex false false, b)

theorem hexItems_ok (bs : Bytes) : ∀ it ∈ hexItems bs, escOk it = true := by
  intro it hit
  simp only [hexItems, List.mem_map] at hit
  obtain ⟨b, _, rfl⟩ := hit
  rfl

theorem hexItems_bytes (bs : Bytes) : (hexItems bs).map (·.2) = bs := by
  induction bs with
  | nil => rfl
  | cons b bs ih => simp only [hexItems, List.map_cons] at ih ⊢; rw [ih]

end WfModel
