import WfModel.Model.RangeSet

/-! Helper lemmas for C09 (no property statements here). -/
namespace WfModel.RangeSet

/-- Sorted by start. -/
def SortedLo (l : List Rng) : Prop := l.Pairwise (fun a b => a.lo ≤ b.lo)

/-- Ascending and pairwise disjoint (what the binary search relies on). -/
def Asc (l : List Rng) : Prop := l.Pairwise (fun a b => a.hi < b.lo ∧ a.lo ≤ b.lo)

theorem covers_nil (x : Int) : ¬ Covers [] x := by
  simp [Covers]

theorem covers_cons (a : Rng) (l : List Rng) (x : Int) :
    Covers (a :: l) x ↔ (a.lo ≤ x ∧ x ≤ a.hi) ∨ Covers l x := by
  simp [Covers]

theorem covers_append (l₁ l₂ : List Rng) (x : Int) :
    Covers (l₁ ++ l₂) x ↔ Covers l₁ x ∨ Covers l₂ x := by
  simp only [Covers, List.mem_append]
  constructor
  · rintro ⟨r, hr | hr, h⟩
    · exact Or.inl ⟨r, hr, h⟩
    · exact Or.inr ⟨r, hr, h⟩
  · rintro (⟨r, hr, h⟩ | ⟨r, hr, h⟩)
    · exact ⟨r, Or.inl hr, h⟩
    · exact ⟨r, Or.inr hr, h⟩

theorem covers_perm {l₁ l₂ : List Rng} (h : l₁.Perm l₂) (x : Int) :
    Covers l₁ x ↔ Covers l₂ x := by
  simp only [Covers]
  constructor
  · rintro ⟨r, hr, hx⟩; exact ⟨r, h.mem_iff.mp hr, hx⟩
  · rintro ⟨r, hr, hx⟩; exact ⟨r, h.mem_iff.mpr hr, hx⟩

/-- Every retained range starts at or after the current one. -/
theorem merge_lo_ge (cur : Rng) (rest : List Rng) (hs : SortedLo (cur :: rest)) :
    ∀ r ∈ merge cur rest, cur.lo ≤ r.lo := by
  induction rest generalizing cur with
  | nil => intro r hr; simp [merge] at hr; subst hr; exact Int.le_refl _
  | cons b rest ih =>
    have hs' := List.pairwise_cons.mp hs
    have hbs := List.pairwise_cons.mp hs'.2
    have hcb : cur.lo ≤ b.lo := hs'.1 b (List.mem_cons_self)
    intro r hr
    unfold merge at hr
    split at hr
    · -- merged
      have : SortedLo ((if b.hi > cur.hi then { lo := cur.lo, hi := b.hi } else cur) :: rest) := by
        apply List.pairwise_cons.mpr
        refine ⟨?_, hbs.2⟩
        intro c hc
        have := hs'.1 c (List.mem_cons_of_mem _ hc)
        split <;> simpa using this
      have h := ih _ this r hr
      split at h <;> simpa using h
    · rcases List.mem_cons.mp hr with h | h
      · subst h; exact Int.le_refl _
      · have := ih b hs'.2 r h
        omega

theorem merge_covers (cur : Rng) (rest : List Rng) (hs : SortedLo (cur :: rest)) (x : Int) :
    Covers (merge cur rest) x ↔ Covers (cur :: rest) x := by
  induction rest generalizing cur with
  | nil => simp [merge]
  | cons b rest ih =>
    have hs' := List.pairwise_cons.mp hs
    have hbs := List.pairwise_cons.mp hs'.2
    have hcb : cur.lo ≤ b.lo := hs'.1 b (List.mem_cons_self)
    unfold merge
    split
    · rename_i hle
      have hsorted : SortedLo ((if b.hi > cur.hi then { lo := cur.lo, hi := b.hi } else cur) :: rest) := by
        apply List.pairwise_cons.mpr
        refine ⟨?_, hbs.2⟩
        intro c hc
        have := hs'.1 c (List.mem_cons_of_mem _ hc)
        split <;> simpa using this
      rw [ih _ hsorted]
      rw [covers_cons, covers_cons, covers_cons]
      split
      · rename_i hgt
        simp only
        constructor
        · rintro (h | h)
          · by_cases hx : x ≤ cur.hi
            · exact Or.inl ⟨h.1, hx⟩
            · exact Or.inr (Or.inl ⟨by omega, h.2⟩)
          · exact Or.inr (Or.inr h)
        · rintro (h | h | h)
          · exact Or.inl ⟨h.1, by omega⟩
          · exact Or.inl ⟨by omega, h.2⟩
          · exact Or.inr h
      · rename_i hng
        constructor
        · rintro (h | h)
          · exact Or.inl h
          · exact Or.inr (Or.inr h)
        · rintro (h | h | h)
          · exact Or.inl h
          · exact Or.inl ⟨by omega, by omega⟩
          · exact Or.inr h
    · rw [covers_cons, ih b hs'.2, covers_cons, covers_cons, covers_cons]

theorem merge_asc (cur : Rng) (rest : List Rng) (hs : SortedLo (cur :: rest)) :
    Asc (merge cur rest) := by
  induction rest generalizing cur with
  | nil => simp [merge, Asc]
  | cons b rest ih =>
    have hs' := List.pairwise_cons.mp hs
    have hbs := List.pairwise_cons.mp hs'.2
    have hcb : cur.lo ≤ b.lo := hs'.1 b (List.mem_cons_self)
    unfold merge
    split
    · apply ih
      apply List.pairwise_cons.mpr
      refine ⟨?_, hbs.2⟩
      intro c hc
      have := hs'.1 c (List.mem_cons_of_mem _ hc)
      split <;> simpa using this
    · rename_i hgt
      apply List.pairwise_cons.mpr
      refine ⟨?_, ih b hs'.2⟩
      intro r hr
      have := merge_lo_ge b rest hs'.2 r hr
      constructor <;> omega

theorem dedup_covers (l : List Rng) (hs : SortedLo l) (x : Int) :
    Covers (dedup l) x ↔ Covers l x := by
  cases l with
  | nil => simp [dedup]
  | cons a rest => exact merge_covers a rest hs x

theorem dedup_asc (l : List Rng) (hs : SortedLo l) : Asc (dedup l) := by
  cases l with
  | nil => simp [dedup, Asc]
  | cons a rest => exact merge_asc a rest hs

/-! ### the search -/

theorem bsearch_correct (x : Int) (xs : List Rng) (h : Asc xs) :
    bsearch x xs = true ↔ Covers xs x := by
  induction hn : xs.length using Nat.strongRecOn generalizing xs with
  | _ n ih =>
    unfold bsearch
    split
    · rename_i l hsp
      -- right part empty: whole list is empty
      have hd : xs.drop (xs.length / 2) = [] := by
        have := congrArg Prod.snd hsp; simpa [List.splitAt_eq] using this
      have hlen : xs.length = 0 := by
        have := congrArg List.length hd
        simp at this; omega
      have : xs = [] := List.eq_nil_of_length_eq_zero hlen
      subst this
      simp [covers_nil]
    · rename_i l m r hsp
      have hl : l = xs.take (xs.length / 2) := by
        have := congrArg Prod.fst hsp; simpa [List.splitAt_eq] using this.symm
      have hr : m :: r = xs.drop (xs.length / 2) := by
        have := congrArg Prod.snd hsp; simpa [List.splitAt_eq] using this.symm
      have hxs : xs = l ++ m :: r := by
        rw [hl, hr]; exact (List.take_append_drop _ _).symm
      have hasc : Asc (l ++ m :: r) := hxs ▸ h
      have hpa := List.pairwise_append.mp hasc
      have hmr := List.pairwise_cons.mp hpa.2.1
      have hlm : ∀ a ∈ l, a.hi < m.lo ∧ a.lo ≤ m.lo :=
        fun a ha => hpa.2.2 a ha m (List.mem_cons_self)
      have hlenl : l.length < n := by
        have := congrArg List.length hxs; simp at this; omega
      have hlenr : r.length < n := by
        have := congrArg List.length hxs; simp at this; omega
      rw [hxs, covers_append, covers_cons]
      split
      · rename_i hgt
        rw [ih l.length hlenl l hpa.1 rfl]
        constructor
        · exact Or.inl
        · rintro (h1 | h1 | ⟨c, hc, hcx⟩)
          · exact h1
          · omega
          · have := hmr.1 c hc; omega
      · rename_i hng
        split
        · rename_i hge
          simp only [true_iff]
          exact Or.inr (Or.inl ⟨by omega, by omega⟩)
        · rename_i hlt
          rw [ih r.length hlenr r hmr.2 rfl]
          constructor
          · exact fun h1 => Or.inr (Or.inr h1)
          · rintro (⟨c, hc, hcx⟩ | h1 | h1)
            · have := hlm c hc; omega
            · omega
            · exact h1

/-! ### the (modelled) sort -/

theorem insertByLo_perm (r : Rng) (l : List Rng) : (insertByLo r l).Perm (r :: l) := by
  induction l with
  | nil => simp [insertByLo]
  | cons a rest ih =>
    unfold insertByLo
    split
    · exact List.Perm.refl _
    · exact (List.Perm.cons a ih).trans (List.Perm.swap r a rest)

theorem insertByLo_sorted (r : Rng) (l : List Rng) (h : SortedLo l) :
    SortedLo (insertByLo r l) := by
  induction l with
  | nil => simp [insertByLo, SortedLo]
  | cons a rest ih =>
    have ha := List.pairwise_cons.mp h
    unfold insertByLo
    split
    · rename_i hle
      apply List.pairwise_cons.mpr
      refine ⟨?_, h⟩
      intro c hc
      rcases List.mem_cons.mp hc with hc | hc
      · subst hc; exact hle
      · have := ha.1 c hc; omega
    · rename_i hgt
      apply List.pairwise_cons.mpr
      refine ⟨?_, ih ha.2⟩
      intro c hc
      have hc' := (insertByLo_perm r rest).mem_iff.mp hc
      rcases List.mem_cons.mp hc' with hc' | hc'
      · subst hc'; omega
      · exact ha.1 c hc'

theorem sortByLo_perm (l : List Rng) : (sortByLo l).Perm l := by
  induction l with
  | nil => simp [sortByLo]
  | cons a rest ih => exact (insertByLo_perm a _).trans (List.Perm.cons a ih)

theorem sortByLo_sorted (l : List Rng) : SortedLo (sortByLo l) := by
  induction l with
  | nil => simp [sortByLo, SortedLo]
  | cons a rest ih => exact insertByLo_sorted a _ ih

end WfModel.RangeSet
