import WfModel.Model.Wild

/-! Specification vocabulary and helper lemmas for C11 / wildcard (no property statements). -/
namespace WfModel.Wild

/-! ### Declarative vocabulary -/

/-- Grammar of wildcard patterns (with `?` disabled): the source text `s` denotes tokens `t`. -/
inductive Denotes : Bytes → List Tok → Prop
  | nil : Denotes [] []
  | star {s t} : Denotes s t → Denotes (cStar :: s) (.star :: t)
  | escStar {s t} : Denotes s t → Denotes (cEsc :: cStar :: s) (.lit cStar :: t)
  | escEsc {s t} : Denotes s t → Denotes (cEsc :: cEsc :: s) (.lit cEsc :: t)
  | lit {c s t} : c ≠ cStar → c ≠ cEsc → Denotes s t → Denotes (c :: s) (.lit c :: t)

/-- What one token may consume. -/
def TokTakes (ci : Bool) : Tok → Bytes → Prop
  | .star, _ => True
  | .lit c, w => ∃ b, w = [b] ∧ eqByte ci c b = true

/-- The value cut into one piece per token. -/
inductive Pieces (ci : Bool) : List Tok → List Bytes → Prop
  | nil : Pieces ci [] []
  | cons {t w ts ws} : TokTakes ci t w → Pieces ci ts ws → Pieces ci (t :: ts) (w :: ws)

/-- Two `*` next to each other. -/
def AdjacentStars (t : List Tok) : Prop := ∃ pre post, t = pre ++ .star :: .star :: post

/-- Literal-only token list of a byte string. -/
def lits (p : Bytes) : List Tok := p.map Tok.lit

/-! ### Parser -/

theorem parse_of_denotes {s t} (h : Denotes s t) : parse s = .ok t := by
  induction h with
  | nil => rfl
  | @star s t _ ih =>
    cases s with
    | nil => cases t <;> simp_all [parse, cStar, cEsc]
    | cons d rest => rw [parse]; simp [ih, cStar, cEsc, Except.map]
  | escStar _ ih => rw [parse]; simp [ih, cStar, cEsc, Except.map]
  | escEsc _ ih => rw [parse]; simp [ih, cEsc, Except.map]
  | @lit c s t h1 h2 _ ih =>
    cases s with
    | nil => cases t <;> simp_all [parse]
    | cons d rest => rw [parse]; simp [ih, h1, h2, Except.map]

theorem map_ok_inv {ε α β} {f : α → β} {x : Except ε α} {y : β} (h : x.map f = .ok y) :
    ∃ a, x = .ok a ∧ f a = y := by
  cases x with
  | error e => simp [Except.map] at h
  | ok a => exact ⟨a, rfl, by simpa [Except.map] using h⟩

theorem denotes_of_parse : ∀ (s : Bytes) (t : List Tok), parse s = .ok t → Denotes s t
  | [], t, h => by
    simp only [parse] at h
    cases h; exact .nil
  | [c], t, h => by
    rw [parse] at h
    split at h
    · cases h
    · split at h
      · next hne hc => cases h; subst hc; exact .star .nil
      · next hne hc => cases h; exact .lit hc hne .nil
  | c :: d :: rest, t, h => by
    rw [parse] at h
    split at h
    · next hc =>
      subst hc
      split at h
      · next hd =>
        rcases map_ok_inv h with ⟨a, ha, rfl⟩
        have ih := denotes_of_parse rest a ha
        rcases hd with rfl | rfl
        · exact .escStar ih
        · exact .escEsc ih
      · cases h
    · split at h
      · next hne hc =>
        rcases map_ok_inv h with ⟨a, ha, rfl⟩
        subst hc; exact .star (denotes_of_parse _ a ha)
      · next hne hc =>
        rcases map_ok_inv h with ⟨a, ha, rfl⟩
        exact .lit hc hne (denotes_of_parse _ a ha)

theorem parse_iff_denotes (s : Bytes) (t : List Tok) : parse s = .ok t ↔ Denotes s t :=
  ⟨denotes_of_parse s t, parse_of_denotes⟩

theorem denotes_render : ∀ t : List Tok, Denotes (render t) t
  | [] => .nil
  | .star :: ts => by rw [render]; exact .star (denotes_render ts)
  | .lit c :: ts => by
    rw [render]
    split
    · next h =>
      rcases h with rfl | rfl
      · exact .escStar (denotes_render ts)
      · exact .escEsc (denotes_render ts)
    · next h =>
      exact .lit (fun hc => h (Or.inl hc)) (fun hc => h (Or.inr hc)) (denotes_render ts)

/-! ### Validation -/

theorem hasDoubleStar_iff : ∀ t : List Tok, hasDoubleStar t = true ↔ AdjacentStars t
  | [] => by
    simp only [hasDoubleStar, Bool.false_eq_true, false_iff]
    rintro ⟨pre, post, h⟩
    cases pre <;> simp at h
  | [a] => by
    have : hasDoubleStar [a] = false := by cases a <;> rfl
    simp only [this, Bool.false_eq_true, false_iff]
    rintro ⟨pre, post, h⟩
    match pre, h with
    | [], h => simp at h
    | [_], h => simp at h
    | _ :: _ :: _, h => simp at h
  | a :: b :: ts => by
    have ih := hasDoubleStar_iff (b :: ts)
    by_cases hab : a = .star ∧ b = .star
    · rcases hab with ⟨rfl, rfl⟩
      simp only [hasDoubleStar, true_iff]
      exact ⟨[], ts, rfl⟩
    · have hrec : hasDoubleStar (a :: b :: ts) = hasDoubleStar (b :: ts) := by
        cases a with
        | lit c => rfl
        | star =>
          cases b with
          | star => exact absurd ⟨rfl, rfl⟩ hab
          | lit c => rfl
      rw [hrec, ih]
      constructor
      · rintro ⟨pre, post, h⟩
        exact ⟨a :: pre, post, by rw [h]; rfl⟩
      · rintro ⟨pre, post, h⟩
        cases pre with
        | nil =>
          simp only [List.nil_append, List.cons.injEq] at h
          exact absurd ⟨h.1, h.2.1⟩ hab
        | cons x pre' =>
          simp only [List.cons_append, List.cons.injEq] at h
          exact ⟨pre', post, h.2⟩

/-! ### Matcher -/

theorem starAny_iff (f : Bytes → Bool) : ∀ v : Bytes,
    starAny f v = true ↔ ∃ w v', v = w ++ v' ∧ f v' = true
  | [] => by
    simp only [starAny]
    constructor
    · intro h; exact ⟨[], [], rfl, h⟩
    · rintro ⟨w, v', hv, h⟩
      have : v' = [] := by
        cases w <;> simp_all
      rwa [this] at h
  | b :: v => by
    simp only [starAny, Bool.or_eq_true, starAny_iff f v]
    constructor
    · rintro (h | ⟨w, v', hv, h⟩)
      · exact ⟨[], b :: v, rfl, h⟩
      · exact ⟨b :: w, v', by rw [hv]; rfl, h⟩
    · rintro ⟨w, v', hv, h⟩
      cases w with
      | nil => left; simp only [List.nil_append] at hv; rwa [hv]
      | cons x w' =>
        right
        simp only [List.cons_append, List.cons.injEq] at hv
        exact ⟨w', v', hv.2, h⟩

theorem matchToks_iff (ci : Bool) : ∀ (toks : List Tok) (v : Bytes),
    matchToks ci toks v = true ↔
      ∃ ws : List Bytes, ws.flatten = v ∧ Pieces ci toks ws
  | [], v => by
    simp only [matchToks, List.isEmpty_iff]
    constructor
    · rintro rfl; exact ⟨[], rfl, .nil⟩
    · rintro ⟨ws, hv, hf⟩
      cases hf; simpa using hv.symm
  | .lit c :: ts, v => by
    cases v with
    | nil =>
      simp only [matchToks, Bool.false_eq_true, false_iff]
      rintro ⟨ws, hv, hf⟩
      cases hf with
      | cons h1 _ =>
        rcases h1 with ⟨b, rfl, _⟩
        simp at hv
    | cons b v' =>
      simp only [matchToks, Bool.and_eq_true, matchToks_iff ci ts v']
      constructor
      · rintro ⟨hb, ws, hv, hf⟩
        exact ⟨[b] :: ws, by simp [hv], .cons ⟨b, rfl, hb⟩ hf⟩
      · rintro ⟨ws, hv, hf⟩
        cases hf with
        | cons h1 h2 =>
          rcases h1 with ⟨b', rfl, hb'⟩
          simp only [List.flatten_cons, List.cons_append, List.nil_append, List.cons.injEq] at hv
          rcases hv with ⟨rfl, hv⟩
          exact ⟨hb', _, hv, h2⟩
  | .star :: ts, v => by
    simp only [matchToks, starAny_iff]
    constructor
    · rintro ⟨w, v', rfl, h⟩
      rcases (matchToks_iff ci ts v').mp h with ⟨ws, hv, hf⟩
      exact ⟨w :: ws, by simp [hv], .cons trivial hf⟩
    · rintro ⟨ws, hv, hf⟩
      cases hf with
      | @cons _ w _ ws' _ h2 =>
        exact ⟨w, ws'.flatten, by simpa using hv.symm, (matchToks_iff ci ts _).mpr ⟨ws', rfl, h2⟩⟩

theorem matchToks_lits (ci : Bool) : ∀ (p v : Bytes),
    matchToks ci (lits p) v = true ↔
      v.length = p.length ∧ ∀ i (h1 : i < p.length) (h2 : i < v.length), eqByte ci p[i] v[i] = true
  | [], v => by
    simp only [lits, List.map_nil, matchToks, List.isEmpty_iff, List.length_nil]
    constructor
    · rintro rfl; exact ⟨rfl, by intro i h; omega⟩
    · rintro ⟨h, _⟩; exact List.eq_nil_of_length_eq_zero h
  | c :: p, [] => by
    simp [lits, matchToks]
  | c :: p, b :: v => by
    have ih := matchToks_lits ci p v
    simp only [lits] at ih
    simp only [lits, List.map_cons, matchToks, Bool.and_eq_true, ih, List.length_cons]
    constructor
    · rintro ⟨hb, hl, hall⟩
      refine ⟨by omega, ?_⟩
      intro i h1 h2
      cases i with
      | zero => exact hb
      | succ j => exact hall j (by omega) (by omega)
    · rintro ⟨hl, hall⟩
      refine ⟨hall 0 (by omega) (by omega), by omega, ?_⟩
      intro i h1 h2
      exact hall (i + 1) (by omega) (by omega)

theorem eqByte_strict (a b : UInt8) : eqByte false a b = true ↔ a = b := by
  simp [eqByte]

theorem no_star_length (ci : Bool) : ∀ (toks : List Tok) (v : Bytes),
    (∀ t ∈ toks, t ≠ Tok.star) → matchToks ci toks v = true → v.length = toks.length
  | [], v, _, h => by
    simp only [matchToks, List.isEmpty_iff] at h; simp [h]
  | .star :: ts, v, hn, _ => absurd rfl (hn .star List.mem_cons_self)
  | .lit c :: ts, [], _, h => by simp [matchToks] at h
  | .lit c :: ts, b :: v, hn, h => by
    simp only [matchToks, Bool.and_eq_true] at h
    have := no_star_length ci ts v (fun t ht => hn t (List.mem_cons_of_mem _ ht)) h.2
    simp [this]

/-- No `*` and no `\` in the pattern text. -/
def Plain (p : Bytes) : Prop := ∀ c ∈ p, c ≠ cStar ∧ c ≠ cEsc

theorem denotes_plain : ∀ p : Bytes, Plain p → Denotes p (lits p)
  | [], _ => .nil
  | c :: p, h => by
    have hc := h c List.mem_cons_self
    exact .lit hc.1 hc.2 (denotes_plain p (fun d hd => h d (List.mem_cons_of_mem _ hd)))

theorem matchToks_lits_strict : ∀ (p v : Bytes), matchToks false (lits p) v = true ↔ v = p
  | [], v => by simp [lits, matchToks]
  | c :: p, [] => by simp [lits, matchToks]
  | c :: p, b :: v => by
    have ih := matchToks_lits_strict p v
    simp only [lits] at ih
    simp only [lits, List.map_cons, matchToks, Bool.and_eq_true, ih, eqByte_strict,
      List.cons.injEq]
    constructor
    · rintro ⟨h1, h2⟩; exact ⟨h1.symm, h2⟩
    · rintro ⟨h1, h2⟩; exact ⟨h1.symm, h2⟩

theorem matchToks_lits_fold : ∀ (p v : Bytes),
    matchToks true (lits p) v = true ↔ v.map lower = p.map lower
  | [], v => by simp [lits, matchToks]
  | c :: p, [] => by simp [lits, matchToks]
  | c :: p, b :: v => by
    have ih := matchToks_lits_fold p v
    simp only [lits] at ih
    simp only [lits, List.map_cons, matchToks, Bool.and_eq_true, ih, eqByte, if_true, beq_iff_eq,
      List.cons.injEq]
    constructor
    · rintro ⟨h1, h2⟩; exact ⟨h1.symm, h2⟩
    · rintro ⟨h1, h2⟩; exact ⟨h1.symm, h2⟩

theorem accept_ok_iff (lim : Nat) (s : Bytes) (t : List Tok) :
    accept lim s = .ok t ↔ parse s = .ok t ∧ starCount t ≤ lim ∧ hasDoubleStar t = false := by
  unfold accept
  cases hp : parse s with
  | error e => simp
  | ok toks =>
    simp only
    split
    · next h => simp; intro ht; subst ht; omega
    · next h =>
      split
      · next hd => simp; intro ht; subst ht; intro _; simpa using hd
      · next hd =>
        simp only [Except.ok.injEq]
        constructor
        · rintro rfl; exact ⟨rfl, by omega, by simpa using hd⟩
        · rintro ⟨h1, _, _⟩; exact h1

theorem accept_error_iff (lim : Nat) (s : Bytes) (e : Reject) :
    accept lim s = .error e ↔
      parse s = .error e ∨
      ∃ t, parse s = .ok t ∧
        ((lim < starCount t ∧ e = .tooManyStars) ∨
         (starCount t ≤ lim ∧ hasDoubleStar t = true ∧ e = .doubleStar)) := by
  unfold accept
  cases hp : parse s with
  | error e' => simp
  | ok toks =>
    simp only
    split
    · next h =>
      simp only [Except.error.injEq, reduceCtorEq, Except.ok.injEq, exists_eq_left', false_or]
      constructor
      · rintro rfl; exact Or.inl ⟨h, rfl⟩
      · rintro (⟨_, rfl⟩ | ⟨h', _⟩)
        · rfl
        · omega
    · next h =>
      split
      · next hd =>
        simp only [Except.error.injEq, reduceCtorEq, Except.ok.injEq, exists_eq_left', false_or]
        constructor
        · rintro rfl; exact Or.inr ⟨by omega, hd, rfl⟩
        · rintro (⟨h', _⟩ | ⟨_, _, rfl⟩)
          · omega
          · rfl
      · next hd =>
        simp only [reduceCtorEq, Except.ok.injEq, exists_eq_left', false_or, false_iff]
        rintro (⟨h', _⟩ | ⟨_, hd', _⟩)
        · omega
        · exact hd hd'

theorem lower_of_upper (b : UInt8) (h1 : 0x41 ≤ b.toNat) (h2 : b.toNat ≤ 0x5a) :
    (lower b).toNat = b.toNat + 0x20 := by
  unfold lower
  have : (0x41 ≤ b ∧ b ≤ 0x5a) := by
    constructor <;> simp [UInt8.le_iff_toNat_le] <;> omega
  rw [if_pos this, UInt8.toNat_add]
  simp; omega

theorem lower_of_not_upper (b : UInt8) (h : b.toNat < 0x41 ∨ 0x5a < b.toNat) : lower b = b := by
  unfold lower
  split
  · next hh =>
    have h1 : 0x41 ≤ b.toNat := by simpa [UInt8.le_iff_toNat_le] using hh.1
    have h2 : b.toNat ≤ 0x5a := by simpa [UInt8.le_iff_toNat_le] using hh.2
    omega
  · rfl

/-- A pattern byte below `A` (e.g. `*`, `?`) equals only itself, with or without folding. -/
theorem eqByte_nonletter (ci : Bool) (c b : UInt8) (hc : c.toNat < 0x41) :
    eqByte ci c b = true ↔ b = c := by
  cases ci with
  | false => rw [eqByte_strict]; exact eq_comm
  | true =>
    simp only [eqByte, if_true, beq_iff_eq]
    rw [lower_of_not_upper c (Or.inl hc)]
    constructor
    · intro h
      by_cases hb : 0x41 ≤ b.toNat ∧ b.toNat ≤ 0x5a
      · have := lower_of_upper b hb.1 hb.2
        rw [← h] at this; omega
      · rw [lower_of_not_upper b (by omega)] at h; exact h.symm
    · rintro rfl; exact (lower_of_not_upper b (Or.inl hc)).symm

theorem matchToks_single (ci : Bool) (c : UInt8) (hc : c.toNat < 0x41) (v : Bytes) :
    matchToks ci [.lit c] v = true ↔ v = [c] := by
  match v with
  | [] => simp [matchToks]
  | [b] => simp [matchToks, eqByte_nonletter ci c b hc]
  | _ :: _ :: _ => simp [matchToks]

theorem starCount_lits : ∀ p : Bytes, starCount (lits p) = 0
  | [] => rfl
  | c :: p => by simpa [lits, starCount] using starCount_lits p

theorem hasDoubleStar_lits : ∀ p : Bytes, hasDoubleStar (lits p) = false
  | [] => rfl
  | [c] => rfl
  | c :: d :: p => by
    have := hasDoubleStar_lits (d :: p)
    simpa [lits, hasDoubleStar] using this

end WfModel.Wild
