import WfModel.Lemmas.C04Cmp
namespace WfModel
open Spec

/-! ### the map-each stack machine: typed and fuel-sufficient -/

/-- typing of the iterator stack (shallowest level first): level `j` holds values obtained by
applying the first `j+1` indexes -/
def StackOk : Ty → List FieldIndex → List (List Val) → Prop
  | _, _, [] => True
  | _, [], _ :: _ => False
  | t, ix :: r, lvl :: rest =>
    ∃ t', indexStep t ix = some t' ∧ (∀ x ∈ lvl, HasTy x t') ∧ StackOk t' r rest

def stackW : List (List Val) → Nat
  | [] => 0
  | lvl :: rest => valNodesList lvl + stackW rest

theorem stackW_append (a b : List (List Val)) : stackW (a ++ b) = stackW a + stackW b := by
  induction a with
  | nil => simp [stackW]
  | cons x xs ih => simp [stackW, ih]; omega

theorem valNodes_pos (v : Val) : 0 < valNodes v := by
  cases v <;> simp [valNodes]

theorem valNodesList_mem {x : Val} : ∀ {xs : List Val}, x ∈ xs → valNodes x ≤ valNodesList xs
  | y :: ys, h => by
    simp only [valNodesList]
    rcases List.mem_cons.mp h with h | h
    · subst h; omega
    · have := valNodesList_mem h; omega

theorem valNodesKvs_eq : ∀ (kvs : List (Bytes × Val)), valNodesList (kvs.map (·.2)) = valNodesKvs kvs
  | [] => rfl
  | (k, x) :: r => by simp [valNodesList, valNodesKvs, valNodesKvs_eq r]

theorem indexIterItems_nodes {x : Val} {ix : FieldIndex} {items : List Val}
    (h : indexIterItems x ix = .ok items) : valNodesList items + 1 ≤ valNodes x := by
  cases ix with
  | arr n =>
    cases x <;> simp only [indexIterItems, reduceCtorEq, Except.ok.injEq] at h
    rename_i t xs
    subst h
    simp only [valNodes]
    cases hg : xs[n]? with
    | none => simp [valNodesList]
    | some y =>
      have := valNodesList_mem (List.mem_of_getElem? hg)
      simp [valNodesList]; omega
  | key k =>
    cases x <;> simp only [indexIterItems, reduceCtorEq, Except.ok.injEq] at h
    rename_i t kvs
    subst h
    simp only [valNodes]
    cases hg : mapGet kvs (utf8s k) with
    | none => simp [valNodesList]
    | some y =>
      obtain ⟨kv, hkv, rfl⟩ := mapGet_mem hg
      have := valNodesList_mem (List.mem_map_of_mem (f := (·.2)) hkv)
      rw [valNodesKvs_eq] at this
      simp [valNodesList]; omega
  | each =>
    cases x <;> simp only [indexIterItems, reduceCtorEq, Except.ok.injEq] at h
    · subst h; simp [valNodes]
    · subst h; simp [valNodes, valNodesKvs_eq]

/-- the three equations of `next()` on a stack written deepest-last -/
theorem mapEachNext_nil (ixs : List FieldIndex) (f : Nat) :
    mapEachNext ixs (f + 1) [] = .ok (none, []) := by
  simp [mapEachNext]

theorem mapEachNext_pop (ixs : List FieldIndex) (f : Nat) (below : List (List Val)) :
    mapEachNext ixs (f + 1) (below ++ [[]]) = mapEachNext ixs f below := by
  simp [mapEachNext]

theorem mapEachNext_top (ixs : List FieldIndex) (f : Nat) (below : List (List Val)) (x : Val)
    (top' : List Val) :
    mapEachNext ixs (f + 1) (below ++ [x :: top']) =
      if below.length + 1 = ixs.length then .ok (some x, below ++ [top'])
      else
        match ixs[below.length + 1]? with
        | none => .error .unreachable
        | some ix =>
          match indexIterItems x ix with
          | .error e => .error e
          | .ok items => mapEachNext ixs f (below ++ [top'] ++ [items]) := by
  simp [mapEachNext]
  split
  · rfl
  · rfl

theorem Spec.IdxOk.cons_inv {t tf : Ty} {ix : FieldIndex} {r : List FieldIndex}
    (h : IdxOk t (ix :: r) tf) : ∃ t', indexStep t ix = some t' ∧ IdxOk t' r tf := by
  cases h with
  | arr n h => exact ⟨_, rfl, h⟩
  | key k h => exact ⟨_, rfl, h⟩
  | eachA h => exact ⟨_, rfl, h⟩
  | eachM h => exact ⟨_, rfl, h⟩

theorem Spec.IdxOk.nil_inv {t tf : Ty} (h : IdxOk t [] tf) : tf = t := by cases h; rfl

theorem StackOk.top_cases {tf : Ty} {x : Val} {top' : List Val} :
    ∀ {below : List (List Val)} {t : Ty} {ixs : List FieldIndex},
    IdxOk t ixs tf → StackOk t ixs (below ++ [x :: top']) →
    (below.length + 1 = ixs.length ∧ HasTy x tf ∧ StackOk t ixs (below ++ [top'])) ∨
    (below.length + 1 ≠ ixs.length ∧ ∃ ix items, ixs[below.length + 1]? = some ix ∧
      indexIterItems x ix = .ok items ∧ StackOk t ixs (below ++ [top'] ++ [items]))
  | [], t, ixs, hi, hs => by
    cases ixs with
    | nil => simp [StackOk] at hs
    | cons ix0 r =>
      simp only [List.nil_append, StackOk] at hs
      obtain ⟨t', h1, h2, _⟩ := hs
      obtain ⟨t'', h1', hi'⟩ := hi.cons_inv
      rw [h1] at h1'; injection h1' with h1'; subst h1'
      have hx : HasTy x t' := h2 x (List.mem_cons_self ..)
      have htop : ∀ y ∈ top', HasTy y t' := fun y hy => h2 y (List.mem_cons_of_mem _ hy)
      cases r with
      | nil =>
        refine Or.inl ⟨rfl, ?_, ?_⟩
        · rw [hi'.nil_inv]; exact hx
        · simp only [List.nil_append, StackOk]; exact ⟨t', h1, htop, trivial⟩
      | cons ix1 r' =>
        refine Or.inr ⟨by simp, ix1, ?_⟩
        obtain ⟨t2, hs2, _⟩ := hi'.cons_inv
        obtain ⟨items, hit, hty⟩ := indexIterItems_typed hx hs2
        refine ⟨items, rfl, hit, ?_⟩
        simp only [List.nil_append, List.cons_append, StackOk]
        exact ⟨t', h1, htop, t2, hs2, hty, trivial⟩
  | lvl :: b, t, ixs, hi, hs => by
    cases ixs with
    | nil => simp [StackOk] at hs
    | cons ix0 r =>
      simp only [List.cons_append, StackOk] at hs
      obtain ⟨t', h1, h2, h3⟩ := hs
      obtain ⟨t'', h1', hi'⟩ := hi.cons_inv
      rw [h1] at h1'; injection h1' with h1'; subst h1'
      rcases StackOk.top_cases hi' h3 with ⟨ha, hb, hc⟩ | ⟨ha, ix, items, hb, hc, hd⟩
      · refine Or.inl ⟨by simp only [List.length_cons]; omega, hb, ?_⟩
        simp only [List.cons_append, StackOk]
        exact ⟨t', h1, h2, hc⟩
      · refine Or.inr ⟨by simp only [List.length_cons]; omega, ix, items, ?_, hc, ?_⟩
        · simpa using hb
        · simp only [List.cons_append, StackOk]
          exact ⟨t', h1, h2, by simpa using hd⟩

theorem StackOk.pop {lvl : List Val} : ∀ {below : List (List Val)} {t : Ty} {ixs : List FieldIndex},
    StackOk t ixs (below ++ [lvl]) → StackOk t ixs below
  | [], _, _, _ => by simp [StackOk]
  | l :: b, t, ixs, hs => by
    cases ixs with
    | nil => simp [StackOk] at hs
    | cons ix0 r =>
      simp only [List.cons_append, StackOk] at hs ⊢
      obtain ⟨t', h1, h2, h3⟩ := hs
      exact ⟨t', h1, h2, StackOk.pop h3⟩

theorem mapEachNext_ok {tf t : Ty} {ixs : List FieldIndex} (hi : IdxOk t ixs tf) :
    ∀ (f : Nat) (stack : List (List Val)), StackOk t ixs stack →
      2 * stackW stack + stack.length < f →
      ∃ o stack', mapEachNext ixs f stack = .ok (o, stack') ∧ StackOk t ixs stack' ∧
        (∀ x, o = some x → HasTy x tf ∧ stackW stack' + 1 ≤ stackW stack) ∧
        2 * stackW stack' + stack'.length ≤ 2 * stackW stack + stack.length
  | 0, _, _, hf => by omega
  | f + 1, stack, hs, hf => by
    rcases List.eq_nil_or_concat stack with h0 | ⟨below, lvl, rfl⟩
    · subst h0
      exact ⟨none, [], mapEachNext_nil _ _, by simp [StackOk], by simp, by simp⟩
    · simp only [List.concat_eq_append] at hs hf ⊢
      simp only [stackW_append, stackW, List.length_append, List.length_singleton,
        Nat.add_zero] at hf
      cases lvl with
      | nil =>
        rw [mapEachNext_pop]
        simp only [valNodesList] at hf
        obtain ⟨o, st', h1, h2, h3, h4⟩ := mapEachNext_ok hi f below hs.pop (by omega)
        refine ⟨o, st', h1, h2, ?_, ?_⟩
        · intro x hx
          obtain ⟨a, b⟩ := h3 x hx
          exact ⟨a, by simp only [stackW_append, stackW, valNodesList]; omega⟩
        · simp only [stackW_append, stackW, valNodesList, List.length_append,
            List.length_singleton]; omega
      | cons x top' =>
        rw [mapEachNext_top]
        have hxpos := valNodes_pos x
        simp only [valNodesList] at hf
        rcases StackOk.top_cases hi hs with ⟨ha, hb, hc⟩ | ⟨ha, ix, items, hb, hc, hd⟩
        · simp only [ha, if_true]
          refine ⟨some x, _, rfl, hc, ?_, ?_⟩
          · intro y hy; injection hy with hy; subst hy
            exact ⟨hb, by simp only [stackW_append, stackW, valNodesList]; omega⟩
          · simp only [stackW_append, stackW, valNodesList, List.length_append,
              List.length_singleton]; omega
        · simp only [ha, if_false, hb, hc]
          have hn := indexIterItems_nodes hc
          have hW : stackW (below ++ [top'] ++ [items]) + 1 ≤ stackW (below ++ [x :: top']) := by
            simp only [stackW_append, stackW, valNodesList]; omega
          simp only [stackW_append, stackW, valNodesList, Nat.add_zero] at hW
          obtain ⟨o, st', h1, h2, h3, h4⟩ := mapEachNext_ok hi f (below ++ [top'] ++ [items]) hd
            (by simp only [stackW_append, stackW, List.length_append, List.length_singleton,
                  Nat.add_zero]; omega)
          simp only [stackW_append, stackW, List.length_append, List.length_singleton,
            Nat.add_zero] at h3 h4
          refine ⟨o, st', h1, h2, ?_, ?_⟩
          · intro y hy
            obtain ⟨a, b⟩ := h3 y hy
            exact ⟨a, by simp only [stackW_append, stackW, valNodesList]; omega⟩
          · simp only [stackW_append, stackW, valNodesList, List.length_append,
              List.length_singleton]; omega

theorem mapEachCollect_ok {tf t : Ty} {ixs : List FieldIndex} (hi : IdxOk t ixs tf) (fuel : Nat) :
    ∀ (n : Nat) (stack : List (List Val)) (acc : List Val), StackOk t ixs stack →
      2 * stackW stack + stack.length < fuel → stackW stack < n → (∀ x ∈ acc, HasTy x tf) →
      ∃ items, mapEachCollect ixs fuel n stack acc = .ok items ∧ ∀ x ∈ items, HasTy x tf
  | 0, _, _, _, _, hn, _ => by omega
  | n + 1, stack, acc, hs, hf, hn, hacc => by
    obtain ⟨o, st', h1, h2, h3, h4⟩ := mapEachNext_ok hi fuel stack hs hf
    simp only [mapEachCollect, h1]
    cases o with
    | none => exact ⟨acc, rfl, hacc⟩
    | some x =>
      obtain ⟨a, b⟩ := h3 x rfl
      refine mapEachCollect_ok hi fuel n st' (acc ++ [x]) h2 (by omega) (by omega) ?_
      intro y hy
      rcases List.mem_append.mp hy with hy | hy
      · exact hacc y hy
      · simp only [List.mem_singleton] at hy; subst hy; exact a

/-- `mapEach_typed`: the iterator over a well-typed path on a typed value terminates within
its fuel, never fails an `unwrap`, and yields values of the path's result type -/
theorem mapEachRun_typed {tf t : Ty} {ixs : List FieldIndex} (hi : IdxOk t ixs tf)
    (hne : ixs ≠ []) {v : Val} (hv : HasTy v t) :
    ∃ items, mapEachRun ixs v = .ok items ∧ ∀ x ∈ items, HasTy x tf := by
  cases ixs with
  | nil => exact absurd rfl hne
  | cons ix r =>
    obtain ⟨t', hs, _⟩ := hi.cons_inv
    obtain ⟨items0, h0, hty⟩ := indexIterItems_typed hv hs
    have hn := indexIterItems_nodes h0
    simp only [mapEachRun, h0]
    refine mapEachCollect_ok hi _ _ [items0] [] ?_ ?_ ?_ (by simp)
    · simp only [StackOk]; exact ⟨t', hs, hty, trivial⟩
    · simp only [stackW, List.length_cons, List.length_nil]; omega
    · simp only [stackW]; omega

end WfModel
