import WfModel.Model.Ctx
import WfModel.Lemmas.Scheme
/-!
Helper definitions (abstract typed field map `ASt`, invariants) and lemmas for C08.
-/
namespace WfModel.Ctx
open WfModel WfModel.Scheme

/-! ### byte-string order -/

theorem bytesLt_irrefl (a : Bytes) : Val.bytesLt a a = false := by
  induction a with
  | nil => rfl
  | cons x xs ih => simp [Val.bytesLt, ih]

theorem bytesLt_trichotomy (a b : Bytes) :
    Val.bytesLt a b = false → Val.bytesLt b a = false → a = b := by
  induction a generalizing b with
  | nil =>
    cases b with
    | nil => intros; rfl
    | cons y ys => simp [Val.bytesLt]
  | cons x xs ih =>
    cases b with
    | nil => simp [Val.bytesLt]
    | cons y ys =>
      intro h1 h2
      simp only [Val.bytesLt] at h1 h2
      by_cases hxy : x < y
      · simp [hxy] at h1
      · by_cases hyx : y < x
        · simp [hyx] at h2
        · simp only [hxy, hyx, if_false] at h1 h2
          have hx : x = y := by
            have h3 : ¬ x.toNat < y.toNat := fun h => hxy (UInt8.lt_iff_toNat_lt.mpr h)
            have h4 : ¬ y.toNat < x.toNat := fun h => hyx (UInt8.lt_iff_toNat_lt.mpr h)
            exact UInt8.toNat_inj.mp (by omega)
          rw [hx, ih ys h1 h2]

/-! ### checked constructors -/

theorem checkElems_ok_iff (t : Ty) (xs : List Val) :
    checkElems t xs = .ok () ↔ ∀ x ∈ xs, x.typeOf = t := by
  induction xs with
  | nil => simp [checkElems]
  | cons x xs ih =>
    by_cases h : x.typeOf = t
    · simp [checkElems, h, ih]
    · simp [checkElems, h]

theorem checkEntries_ok_iff (t : Ty) (kvs : List (Bytes × Val)) :
    checkEntries t kvs = .ok () ↔ ∀ kv ∈ kvs, kv.2.typeOf = t := by
  induction kvs with
  | nil => simp [checkEntries]
  | cons p kvs ih =>
    obtain ⟨k, x⟩ := p
    by_cases h : x.typeOf = t
    · simp [checkEntries, h, ih]
    · simp [checkEntries, h]

theorem wfList_iff (t : Ty) (xs : List Val) :
    Val.wfList t xs = true ↔ ∀ x ∈ xs, x.typeOf = t ∧ x.wf = true := by
  induction xs with
  | nil => simp [Val.wfList]
  | cons x xs ih => simp [Val.wfList, ih, and_assoc]

theorem wfKvs_iff (t : Ty) (kvs : List (Bytes × Val)) :
    Val.wfKvs t kvs = true ↔ ∀ kv ∈ kvs, kv.2.typeOf = t ∧ kv.2.wf = true := by
  induction kvs with
  | nil => simp [Val.wfKvs]
  | cons p kvs ih =>
    obtain ⟨k, x⟩ := p
    simp [Val.wfKvs, ih, and_assoc]

/-- the key of the first entry, if any, is above `a` -/
def headAbove (a : Bytes) : List (Bytes × Val) → Prop
  | [] => True
  | (b, _) :: _ => Val.bytesLt a b = true

theorem keysAscending_cons (a : Bytes) (x : Val) (l : List (Bytes × Val)) :
    Val.keysAscending ((a, x) :: l) = true ↔ headAbove a l ∧ Val.keysAscending l = true := by
  cases l with
  | nil => simp [Val.keysAscending, headAbove]
  | cons p l => obtain ⟨b, y⟩ := p; simp [Val.keysAscending, headAbove]

theorem insertKv_mem (k : Bytes) (v : Val) (l : List (Bytes × Val)) (p : Bytes × Val)
    (h : p ∈ insertKv k v l) : p = (k, v) ∨ p ∈ l := by
  induction l with
  | nil => simp [insertKv] at h; exact Or.inl h
  | cons q l ih =>
    obtain ⟨b, w⟩ := q
    simp only [insertKv] at h
    split at h
    · rcases List.mem_cons.mp h with h | h
      · exact Or.inl h
      · exact Or.inr h
    · split at h
      · rcases List.mem_cons.mp h with h | h
        · exact Or.inr (h ▸ List.mem_cons_self)
        · rcases ih h with h | h
          · exact Or.inl h
          · exact Or.inr (List.mem_cons_of_mem _ h)
      · rcases List.mem_cons.mp h with h | h
        · exact Or.inl h
        · exact Or.inr (List.mem_cons_of_mem _ h)

theorem headAbove_insertKv (a k : Bytes) (v : Val) (l : List (Bytes × Val))
    (hk : Val.bytesLt a k = true) (hl : headAbove a l) : headAbove a (insertKv k v l) := by
  cases l with
  | nil => simpa [insertKv, headAbove] using hk
  | cons q l =>
    obtain ⟨b, w⟩ := q
    simp only [insertKv]
    split
    · simpa [headAbove] using hk
    · split
      · simpa [headAbove] using hl
      · simpa [headAbove] using hk

theorem keysAscending_insertKv (k : Bytes) (v : Val) (l : List (Bytes × Val))
    (h : Val.keysAscending l = true) : Val.keysAscending (insertKv k v l) = true := by
  induction l with
  | nil => simp [insertKv, Val.keysAscending]
  | cons q l ih =>
    obtain ⟨b, w⟩ := q
    have hc := (keysAscending_cons b w l).mp h
    simp only [insertKv]
    split
    · rename_i hkb
      rw [keysAscending_cons]
      exact ⟨by simpa [headAbove] using hkb, h⟩
    · split
      · rename_i hkb hbk
        rw [keysAscending_cons]
        exact ⟨headAbove_insertKv b k v l hbk hc.1, ih hc.2⟩
      · rename_i hkb hbk
        have hkeq : k = b := bytesLt_trichotomy k b (by simpa using hkb) (by simpa using hbk)
        rw [keysAscending_cons, hkeq]
        exact hc

theorem collectMap_mem (kvs : List (Bytes × Val)) : ∀ (acc : List (Bytes × Val)) (p : Bytes × Val),
    p ∈ collectMap acc kvs → p ∈ acc ∨ p ∈ kvs := by
  induction kvs with
  | nil => intro acc p h; exact Or.inl h
  | cons q kvs ih =>
    intro acc p h
    obtain ⟨k, v⟩ := q
    simp only [collectMap] at h
    rcases ih _ p h with h | h
    · rcases insertKv_mem k v acc p h with h | h
      · exact Or.inr (h ▸ List.mem_cons_self)
      · exact Or.inl h
    · exact Or.inr (List.mem_cons_of_mem _ h)

theorem collectMap_asc (kvs : List (Bytes × Val)) : ∀ (acc : List (Bytes × Val)),
    Val.keysAscending acc = true → Val.keysAscending (collectMap acc kvs) = true := by
  induction kvs with
  | nil => intro acc h; exact h
  | cons q kvs ih =>
    intro acc h
    obtain ⟨k, v⟩ := q
    exact ih _ (keysAscending_insertKv k v acc h)

theorem arrayTryFromVec_ok_iff (t : Ty) (xs : List Val) (a : Val) :
    arrayTryFromVec t xs = .ok a ↔ (∀ x ∈ xs, x.typeOf = t) ∧ a = .array t xs := by
  unfold arrayTryFromVec
  cases h : checkElems t xs with
  | ok u =>
    have := (checkElems_ok_iff t xs).mp h
    simp only [Except.ok.injEq]
    exact ⟨fun e => ⟨this, e.symm⟩, fun e => e.2.symm⟩
  | error e =>
    have hne : ¬ ∀ x ∈ xs, x.typeOf = t := fun hall => by
      rw [(checkElems_ok_iff t xs).mpr hall] at h; cases h
    simp [hne]

theorem mapTryFromIter_ok_iff (t : Ty) (kvs : List (Bytes × Val)) (m : Val) :
    mapTryFromIter t kvs = .ok m ↔
      (∀ kv ∈ kvs, kv.2.typeOf = t) ∧ m = .map t (collectMap [] kvs) := by
  unfold mapTryFromIter
  cases h : checkEntries t kvs with
  | ok u =>
    have := (checkEntries_ok_iff t kvs).mp h
    simp only [Except.ok.injEq]
    exact ⟨fun e => ⟨this, e.symm⟩, fun e => e.2.symm⟩
  | error e =>
    have hne : ¬ ∀ kv ∈ kvs, kv.2.typeOf = t := fun hall => by
      rw [(checkEntries_ok_iff t kvs).mpr hall] at h; cases h
    constructor
    · intro h2; cases h2
    · intro h2; exact absurd h2.1 hne

mutual
theorem construct_wf : ∀ (r v : Val), construct r = .ok v → v.wf = true
  | .bool _, v, h => by simp only [construct, Except.ok.injEq] at h; subst h; rfl
  | .int _, v, h => by simp only [construct, Except.ok.injEq] at h; subst h; rfl
  | .ip _, v, h => by simp only [construct, Except.ok.injEq] at h; subst h; rfl
  | .bytes _, v, h => by simp only [construct, Except.ok.injEq] at h; subst h; rfl
  | .array t xs, v, h => by
    simp only [construct] at h
    cases hl : constructList xs with
    | error e => rw [hl] at h; cases h
    | ok ys =>
      rw [hl] at h
      have hall := constructList_wf xs ys hl
      obtain ⟨hty, rfl⟩ := (arrayTryFromVec_ok_iff t ys v).mp h
      simp only [Val.wf]
      exact (wfList_iff t ys).mpr fun y hy => ⟨hty y hy, hall y hy⟩
  | .map t kvs, v, h => by
    simp only [construct] at h
    cases hl : constructKvs kvs with
    | error e => rw [hl] at h; cases h
    | ok ys =>
      rw [hl] at h
      have hall := constructKvs_wf kvs ys hl
      obtain ⟨hty, rfl⟩ := (mapTryFromIter_ok_iff t ys v).mp h
      simp only [Val.wf, Bool.and_eq_true]
      refine ⟨(wfKvs_iff t _).mpr fun kv hkv => ?_, collectMap_asc ys [] rfl⟩
      rcases collectMap_mem ys [] kv hkv with h0 | h0
      · cases h0
      · exact ⟨hty kv h0, hall kv h0⟩
theorem constructList_wf : ∀ (xs ys : List Val), constructList xs = .ok ys → ∀ y ∈ ys, y.wf = true
  | [], ys, h => by simp only [constructList, Except.ok.injEq] at h; subst h; simp
  | x :: xs, ys, h => by
    simp only [constructList] at h
    cases hx : construct x with
    | error e => rw [hx] at h; cases h
    | ok y =>
      rw [hx] at h
      cases hl : constructList xs with
      | error e => rw [hl] at h; cases h
      | ok ys' =>
        rw [hl] at h
        simp only [Except.ok.injEq] at h; subst h
        intro z hz
        rcases List.mem_cons.mp hz with rfl | hz
        · exact construct_wf x _ hx
        · exact constructList_wf xs ys' hl z hz
theorem constructKvs_wf : ∀ (xs ys : List (Bytes × Val)), constructKvs xs = .ok ys →
    ∀ kv ∈ ys, kv.2.wf = true
  | [], ys, h => by simp only [constructKvs, Except.ok.injEq] at h; subst h; simp
  | (k, x) :: xs, ys, h => by
    simp only [constructKvs] at h
    cases hx : construct x with
    | error e => rw [hx] at h; cases h
    | ok y =>
      rw [hx] at h
      cases hl : constructKvs xs with
      | error e => rw [hl] at h; cases h
      | ok ys' =>
        rw [hl] at h
        simp only [Except.ok.injEq] at h; subst h
        intro z hz
        rcases List.mem_cons.mp hz with rfl | hz
        · exact construct_wf x _ hx
        · exact constructKvs_wf xs ys' hl z hz
end

/-! ### the abstract typed field map -/

/-- Specification state: the original and (if any) the clone are partial maps from field
index to value; a guard is only a flag (operations through it act on the same map). -/
structure ASt where
  a : Nat → Option Val
  b : Option (Nat → Option Val)
  borrowed : Bool

def upd (m : Nat → Option Val) (i : Nat) (v : Val) : Nat → Option Val :=
  fun j => if j = i then some v else m j

def ASt.tgt (s : ASt) : Target → Option (Nat → Option Val)
  | .orig => some s.a
  | .clone => s.b

def ASt.setTgt (s : ASt) : Target → (Nat → Option Val) → ASt
  | .orig, m => { s with a := m }
  | .clone, m => { s with b := some m }

/-- set on the abstract map: succeeds iff the value's full type is the field's declared
type; returns the previous value -/
def aSet (e : Env) (s : ASt) (t : Target) (m : Nat → Option Val) (i : Nat) (v : Val) : ASt × Res :=
  match e.own.fieldTy? i with
  | none => (s, .panic)
  | some ft => if ft = v.typeOf then (s.setTgt t (upd m i v), .prev (m i)) else (s, .errType)

/-- one operation on the specification state -/
def astep (e : Env) (s : ASt) : Op → ASt × Res
  | .setField t sel i v =>
    match s.tgt t with
    | none => (s, .nop)
    | some m =>
      match construct v with
      | .error _ => (s, .ctorErr)
      | .ok v' =>
        match sel with
        | .other => (s, .errScheme)
        | .own => aSet e s t m i v'
  | .setName t n v =>
    match s.tgt t with
    | none => (s, .nop)
    | some m =>
      match construct v with
      | .error _ => (s, .ctorErr)
      | .ok v' =>
        match e.own.getField n with
        | none => (s, .errUnknown)
        | some i => aSet e s t m i v'
  | .get t sel i =>
    match s.tgt t with
    | none => (s, .nop)
    | some m =>
      match sel with
      | .other => (s, .panic)
      | .own =>
        match e.own.fieldTy? i with
        | some _ => (s, .value (m i))
        | none => (s, .panic)
  | .clear t =>
    match s.tgt t with
    | none => (s, .nop)
    | some _ => (s.setTgt t (fun _ => none), .done)
  | .clone => ({ s with b := some s.a }, .done)
  | .borrow => if s.borrowed then (s, .nop) else ({ s with borrowed := true }, .done)
  | .drop => if s.borrowed then ({ s with borrowed := false }, .done) else (s, .nop)
  | .take t =>
    match s.tgt t with
    | none => (s, .nop)
    | some _ => (s, .done)
  | .exec t sel =>
    match s.tgt t with
    | none => (s, .nop)
    | some _ =>
      match sel with
      | .own => (s, .execOk)
      | .other => (s, .errScheme)

def arun (e : Env) : ASt → List Op → ASt × List Res
  | s, [] => (s, [])
  | s, op :: ops =>
    let (s', r) := astep e s op
    let (sf, rs) := arun e s' ops
    (sf, r :: rs)

/-- the map a context presents -/
def absCtx (c : Ctx) : Nat → Option Val := fun i => (c.values[i]?).join

def abs (st : St) : ASt := ⟨absCtx st.vis, st.b.map absCtx, st.g.isSome⟩

/-! ### invariants -/

/-- the twin scheme is another build -/
def EnvOk (e : Env) : Prop := e.own.same e.other = false

/-- a context bound to `own`, with one slot per field, every stored value of exactly the
declared type and well-formed all the way down -/
structure CtxOk (e : Env) (c : Ctx) : Prop where
  scheme : c.scheme = e.own
  len : c.values.length = e.own.fieldCount
  typed : ∀ (i : Nat) v, c.values[i]? = some (some v) →
    e.own.fieldTy? i = some v.typeOf ∧ v.wf = true

structure Good (e : Env) (st : St) : Prop where
  vis : CtxOk e st.vis
  b : ∀ c, st.b = some c → CtxOk e c
  a : st.a.scheme = e.own

theorem fieldTy?_eq_none_iff (s : Scheme) (i : Nat) : s.fieldTy? i = none ↔ s.fieldCount ≤ i := by
  simp [Scheme.fieldTy?, Scheme.fieldDef?, Scheme.fieldCount]

theorem ctxok_new (e : Env) : CtxOk e (Ctx.new e.own) := by
  refine ⟨rfl, by simp [Ctx.new], ?_⟩
  intro i v h
  simp only [Ctx.new, List.getElem?_replicate] at h
  split at h <;> simp at h

theorem good_init (e : Env) : Good e (St.init e) :=
  ⟨ctxok_new e, by intro c h; simp [St.init] at h, rfl⟩

theorem ctxok_setAt (e : Env) (c c' : Ctx) (i : Nat) (ft : Ty) (v : Val) (p : Option Val)
    (hc : CtxOk e c) (hft : e.own.fieldTy? i = some ft) (hwf : v.wf = true)
    (h : c.setAt i ft v = .ok (p, c')) : CtxOk e c' := by
  unfold Ctx.setAt at h
  split at h
  · rename_i hty
    split at h
    · simp only [Except.ok.injEq, Prod.mk.injEq] at h
      obtain ⟨_, rfl⟩ := h
      refine ⟨hc.scheme, by simp [hc.len], ?_⟩
      intro j w hj
      simp only [List.getElem?_set] at hj
      split at hj
      · rename_i hij
        split at hj
        · simp only [Option.some.injEq] at hj
          subst hj; subst hij
          exact ⟨by rw [hft, hty], hwf⟩
        · cases hj
      · exact hc.typed j w hj
    · cases h
  · cases h

theorem abs_setAt (c c' : Ctx) (i : Nat) (ft : Ty) (v : Val) (p : Option Val)
    (h : c.setAt i ft v = .ok (p, c')) :
    ft = v.typeOf ∧ p = absCtx c i ∧ absCtx c' = upd (absCtx c) i v := by
  unfold Ctx.setAt at h
  split at h
  · rename_i hty
    split at h
    · rename_i prev hprev
      simp only [Except.ok.injEq, Prod.mk.injEq] at h
      obtain ⟨rfl, rfl⟩ := h
      refine ⟨hty, by simp [absCtx, hprev], ?_⟩
      funext j
      have hi : i < c.values.length := by
        rcases List.getElem?_eq_some_iff.mp hprev with ⟨hi, _⟩; exact hi
      simp only [absCtx, upd, List.getElem?_set]
      by_cases hij : i = j
      · subst hij; simp [hi]
      · have : ¬ j = i := fun e => hij e.symm
        simp [hij, this]
    · cases h
  · cases h

theorem setAt_err (c : Ctx) (i : Nat) (ft : Ty) (v : Val) (e : SetErr)
    (hi : i < c.values.length) (h : c.setAt i ft v = .error e) :
    ft ≠ v.typeOf ∧ e = .typeMismatch ft v.typeOf := by
  unfold Ctx.setAt at h
  split at h
  · split at h
    · cases h
    · rename_i hnone
      rw [List.getElem?_eq_none_iff] at hnone
      omega
  · rename_i hne
    simp only [Except.error.injEq] at h
    exact ⟨hne, h.symm⟩

theorem setAt_ok_of (c : Ctx) (i : Nat) (ft : Ty) (v : Val)
    (hi : i < c.values.length) (hty : ft = v.typeOf) :
    ∃ p c', c.setAt i ft v = .ok (p, c') := by
  unfold Ctx.setAt
  rw [if_pos hty, List.getElem?_eq_getElem hi]
  exact ⟨_, _, rfl⟩

theorem abs_tgt (st : St) (t : Target) : (abs st).tgt t = (st.tgt t).map absCtx := by
  cases t <;> simp [abs, ASt.tgt, St.tgt]

theorem vis_setVis (st : St) (c : Ctx) : (st.setVis c).vis = c := by
  unfold St.setVis St.vis
  cases st.g <;> simp

theorem abs_setTgt (st : St) (t : Target) (c : Ctx) :
    abs (st.setTgt t c) = (abs st).setTgt t (absCtx c) := by
  cases t with
  | orig =>
    simp only [St.setTgt, abs, ASt.setTgt, vis_setVis]
    unfold St.setVis
    cases st.g <;> simp
  | clone => simp [St.setTgt, abs, ASt.setTgt, St.vis]

theorem good_setTgt (e : Env) (st : St) (t : Target) (c : Ctx)
    (hg : Good e st) (hc : CtxOk e c) : Good e (st.setTgt t c) := by
  cases t with
  | orig =>
    refine ⟨by simpa [St.setTgt, vis_setVis] using hc, ?_, ?_⟩
    · intro c' h
      apply hg.b c'
      simp only [St.setTgt, St.setVis] at h
      cases hgs : st.g <;> simp [hgs] at h <;> exact h
    · simp only [St.setTgt, St.setVis]
      cases hgs : st.g
      · simpa using hc.scheme
      · simpa using hg.a
  | clone =>
    refine ⟨by simpa [St.setTgt, St.vis] using hg.vis, ?_, by simpa [St.setTgt] using hg.a⟩
    intro c' h
    simp only [St.setTgt, Option.some.injEq] at h
    subst h; exact hc

theorem tgt_ok (e : Env) (st : St) (t : Target) (c : Ctx) (hg : Good e st)
    (h : st.tgt t = some c) : CtxOk e c := by
  cases t with
  | orig => simp only [St.tgt, Option.some.injEq] at h; subst h; exact hg.vis
  | clone => exact hg.b c h

/-- the shared tail of both setters, against the abstract `aSet` -/
theorem set_core (e : Env) (st : St) (t : Target) (c : Ctx) (i : Nat) (v : Val)
    (hg : Good e st) (hc : CtxOk e c) (hwf : v.wf = true) :
    let r := setRes st t (match e.own.fieldTy? i with
      | some ft => c.setAt i ft v
      | none => .error .stuck)
    Good e r.1 ∧ aSet e (abs st) t (absCtx c) i v = (abs r.1, r.2) := by
  intro r
  unfold aSet
  cases hft : e.own.fieldTy? i with
  | none =>
    simp only [r, hft, setRes, SetErr.res]
    exact ⟨hg, by first | rfl | trivial | simp⟩
  | some ft =>
    have hi : i < c.values.length := by
      rw [hc.len]
      have := fieldTy?_eq_none_iff e.own i
      rw [hft] at this
      simp at this
      exact this
    cases hs : c.setAt i ft v with
    | error er =>
      obtain ⟨hne, rfl⟩ := setAt_err c i ft v er hi hs
      simp only [r, hft, hs, setRes, SetErr.res, if_neg hne]
      exact ⟨hg, by first | rfl | trivial | simp⟩
    | ok pc =>
      obtain ⟨p, c'⟩ := pc
      obtain ⟨hty, rfl, habs⟩ := abs_setAt c c' i ft v p hs
      simp only [r, hft, hs, setRes, if_pos hty]
      exact ⟨good_setTgt e st t c' hg (ctxok_setAt e c c' i ft v _ hc hft hwf hs),
        by rw [abs_setTgt, habs]⟩

theorem same_self (s : Scheme) : s.same s = true := by simp [Scheme.same]

/-- **One step**: the invariant is kept and the concrete step is the abstract step. -/
theorem step_refines (e : Env) (st : St) (op : Op) (he : EnvOk e) (hg : Good e st) :
    Good e (step e st op).1 ∧ astep e (abs st) op = (abs (step e st op).1, (step e st op).2) := by
  cases op with
  | setField t sel i v =>
    simp only [step, astep, abs_tgt]
    cases ht : st.tgt t with
    | none => exact ⟨hg, by first | rfl | trivial | simp⟩
    | some c =>
      have hc := tgt_ok e st t c hg ht
      simp only [Option.map_some]
      cases hv : construct v with
      | error er => exact ⟨hg, by first | rfl | trivial | simp⟩
      | ok v' =>
        have hwf := construct_wf v v' hv
        cases sel with
        | other =>
          have : c.scheme.same e.other = false := by rw [hc.scheme]; exact he
          simp only [Ctx.setByField, Env.pick, this, setRes, SetErr.res]
          exact ⟨hg, by first | rfl | trivial | simp⟩
        | own =>
          have : c.scheme.same e.own = true := by rw [hc.scheme]; exact same_self _
          simp only [Ctx.setByField, Env.pick, this, if_true]
          exact set_core e st t c i v' hg hc hwf
  | setName t n v =>
    simp only [step, astep, abs_tgt]
    cases ht : st.tgt t with
    | none => exact ⟨hg, by first | rfl | trivial | simp⟩
    | some c =>
      have hc := tgt_ok e st t c hg ht
      simp only [Option.map_some]
      cases hv : construct v with
      | error er => exact ⟨hg, by first | rfl | trivial | simp⟩
      | ok v' =>
        have hwf := construct_wf v v' hv
        simp only [Ctx.setByName, hc.scheme]
        cases hn : e.own.getField n with
        | none => exact ⟨hg, by first | rfl | trivial | simp⟩
        | some i => exact set_core e st t c i v' hg hc hwf
  | get t sel i =>
    simp only [step, astep, abs_tgt]
    cases ht : st.tgt t with
    | none => exact ⟨hg, by first | rfl | trivial | simp⟩
    | some c =>
      have hc := tgt_ok e st t c hg ht
      simp only [Option.map_some]
      cases sel with
      | other =>
        have : c.scheme.same e.other = false := by rw [hc.scheme]; exact he
        simp only [Ctx.get, Env.pick, this]
        exact ⟨hg, by first | rfl | trivial | simp⟩
      | own =>
        have : c.scheme.same e.own = true := by rw [hc.scheme]; exact same_self _
        simp only [Ctx.get, Env.pick, this, if_true]
        cases hv : c.values[i]? with
        | none =>
          have : e.own.fieldTy? i = none := by
            rw [fieldTy?_eq_none_iff, ← hc.len]
            exact List.getElem?_eq_none_iff.mp hv
          simp only [this]
          exact ⟨hg, by first | rfl | trivial | simp⟩
        | some x =>
          have hi : i < c.values.length := by
            rcases List.getElem?_eq_some_iff.mp hv with ⟨hi, _⟩; exact hi
          cases hft : e.own.fieldTy? i with
          | none =>
            rw [fieldTy?_eq_none_iff, ← hc.len] at hft
            omega
          | some ft =>
            simp only [absCtx, hv, Option.join_some]
            exact ⟨hg, by first | rfl | trivial | simp⟩
  | clear t =>
    simp only [step, astep, abs_tgt]
    cases ht : st.tgt t with
    | none => exact ⟨hg, by first | rfl | trivial | simp⟩
    | some c =>
      have hc := tgt_ok e st t c hg ht
      simp only [Option.map_some]
      have hok : CtxOk e c.clear := by
        refine ⟨hc.scheme, by simp [Ctx.clear, hc.len], ?_⟩
        intro j w hj
        simp [Ctx.clear] at hj
      refine ⟨good_setTgt e st t _ hg hok, ?_⟩
      rw [abs_setTgt]
      congr 2
      funext j
      simp only [absCtx, Ctx.clear, List.getElem?_map]
      cases c.values[j]? <;> simp
  | clone =>
    simp only [step, astep]
    refine ⟨⟨by simpa [St.vis] using hg.vis, ?_, hg.a⟩, ?_⟩
    · intro c h
      simp only [Option.some.injEq] at h
      subst h
      exact ⟨hg.vis.scheme, hg.vis.len, hg.vis.typed⟩
    · simp [abs, St.vis, Ctx.cloneWith] <;> rfl
  | borrow =>
    simp only [step, astep]
    cases hgs : st.g with
    | some gn => simp only [abs, hgs, Option.isSome_some, if_true]; exact ⟨hg, by simp⟩
    | none =>
      have hv : st.vis = st.a := by simp [St.vis, hgs]
      have hok : CtxOk e st.a := hv ▸ hg.vis
      refine ⟨⟨⟨hok.scheme, hok.len, hok.typed⟩, hg.b, hg.a⟩, ?_⟩
      simp [abs, hgs, St.vis, Ctx.borrow] <;> rfl
  | drop =>
    simp only [step, astep]
    cases hgs : st.g with
    | none => simp only [abs, hgs, Option.isSome_none]; exact ⟨hg, by simp⟩
    | some gn =>
      have hv : st.vis = gn := by simp [St.vis, hgs]
      have hok : CtxOk e gn := hv ▸ hg.vis
      refine ⟨⟨⟨hg.a, hok.len, hok.typed⟩, hg.b, hg.a⟩, ?_⟩
      simp [abs, hgs, St.vis, Guard.drop] <;> rfl
  | take t =>
    simp only [step, astep, abs_tgt]
    cases ht : st.tgt t with
    | none => exact ⟨hg, by first | rfl | trivial | simp⟩
    | some c =>
      have hc := tgt_ok e st t c hg ht
      simp only [Option.map_some]
      have hok : CtxOk e c.takeWith := ⟨hc.scheme, hc.len, hc.typed⟩
      refine ⟨good_setTgt e st t _ hg hok, ?_⟩
      rw [abs_setTgt]
      have hsame : absCtx c.takeWith = absCtx c := rfl
      rw [hsame]
      cases t with
      | orig =>
        simp only [St.tgt, Option.some.injEq] at ht
        simp [ASt.setTgt, abs, ht]
      | clone =>
        simp only [St.tgt] at ht
        simp [ASt.setTgt, abs, ht]
  | exec t sel =>
    simp only [step, astep, abs_tgt]
    cases ht : st.tgt t with
    | none => exact ⟨hg, by first | rfl | trivial | simp⟩
    | some c =>
      have hc := tgt_ok e st t c hg ht
      simp only [Option.map_some]
      cases sel with
      | other =>
        have : c.scheme.same e.other = false := by rw [hc.scheme]; exact he
        simp only [Ctx.execute, Env.pick, this]
        exact ⟨hg, by first | rfl | trivial | simp⟩
      | own =>
        have : c.scheme.same e.own = true := by rw [hc.scheme]; exact same_self _
        simp only [Ctx.execute, Env.pick, this, if_true]
        exact ⟨hg, by first | rfl | trivial | simp⟩

theorem run_refines (e : Env) (he : EnvOk e) (ops : List Op) : ∀ st, Good e st →
    Good e (run e st ops).1 ∧ arun e (abs st) ops = (abs (run e st ops).1, (run e st ops).2) := by
  induction ops with
  | nil => intro st hg; exact ⟨hg, by first | rfl | trivial | simp⟩
  | cons op ops ih =>
    intro st hg
    obtain ⟨hg1, h1⟩ := step_refines e st op he hg
    obtain ⟨hg2, h2⟩ := ih _ hg1
    simp only [run, arun, h1, h2]
    exact ⟨hg2, by first | rfl | trivial | simp⟩

/-! ### guards are transparent on the abstract map -/

def Op.isGuardOp : Op → Bool
  | .borrow => true
  | .drop => true
  | _ => false

/-- the results of the non-guard operations -/
def nonGuardRes : List Op → List Res → List Res
  | op :: ops, r :: rs => if op.isGuardOp then nonGuardRes ops rs else r :: nonGuardRes ops rs
  | _, _ => []

theorem astep_flag (e : Env) (s : ASt) (f : Bool) (op : Op) (h : op.isGuardOp = false) :
    astep e { s with borrowed := f } op =
      ({ (astep e s op).1 with borrowed := f }, (astep e s op).2) := by
  obtain ⟨a, b, br⟩ := s
  cases op with
  | setField t sel i v =>
    cases t <;> (try cases b) <;> simp only [astep, ASt.tgt, aSet, ASt.setTgt] <;>
      (repeat' split) <;> rfl
  | setName t n v =>
    cases t <;> (try cases b) <;> simp only [astep, ASt.tgt, aSet, ASt.setTgt] <;>
      (repeat' split) <;> rfl
  | get t sel i =>
    cases t <;> (try cases b) <;> simp only [astep, ASt.tgt] <;> (repeat' split) <;> rfl
  | clear t =>
    cases t <;> (try cases b) <;> simp only [astep, ASt.tgt, ASt.setTgt] <;> rfl
  | clone => rfl
  | borrow => simp [Op.isGuardOp] at h
  | drop => simp [Op.isGuardOp] at h
  | take t =>
    cases t <;> (try cases b) <;> simp only [astep, ASt.tgt] <;> rfl
  | exec t sel =>
    cases t <;> (try cases b) <;> simp only [astep, ASt.tgt] <;> (repeat' split) <;> rfl

theorem astep_guard (e : Env) (s : ASt) (op : Op) (h : op.isGuardOp = true) :
    ∃ f, (astep e s op).1 = { s with borrowed := f } := by
  cases op <;> simp [Op.isGuardOp] at h
  · simp only [astep]; split <;> exact ⟨_, rfl⟩
  · simp only [astep]; split <;> exact ⟨_, rfl⟩

theorem arun_strip (e : Env) (ops : List Op) : ∀ (s : ASt) (f : Bool),
    let r := arun e s ops
    let r' := arun e { s with borrowed := f } (ops.filter fun o => !o.isGuardOp)
    r'.1.a = r.1.a ∧ r'.1.b = r.1.b ∧ r'.2 = nonGuardRes ops r.2 := by
  induction ops with
  | nil => intro s f; simp [arun, nonGuardRes]
  | cons op ops ih =>
    intro s f
    cases hop : op.isGuardOp with
    | true =>
      obtain ⟨f', hf'⟩ := astep_guard e s op hop
      have := ih { s with borrowed := f' } f
      simp only [List.filter_cons, hop, Bool.not_true, Bool.false_eq_true, if_false, arun,
        nonGuardRes, if_true, hf'] at this ⊢
      exact this
    | false =>
      have h1 := astep_flag e s f op hop
      have := ih (astep e s op).1 f
      simp only [List.filter_cons, hop, Bool.not_false, if_true, arun, nonGuardRes,
        Bool.false_eq_true, if_false, h1] at this ⊢
      exact ⟨this.1, this.2.1, by rw [this.2.2]⟩

/-! ### small facts used by the property statements -/

theorem setAt_ok_inv (c c' : Ctx) (i : Nat) (ft : Ty) (v : Val) (p : Option Val)
    (h : c.setAt i ft v = .ok (p, c')) :
    ft = v.typeOf ∧ c.values[i]? = some p ∧ c' = { c with values := c.values.set i (some v) } := by
  unfold Ctx.setAt at h
  split at h
  · rename_i hty
    split at h
    · rename_i prev hprev
      simp only [Except.ok.injEq, Prod.mk.injEq] at h
      obtain ⟨rfl, rfl⟩ := h
      exact ⟨hty, hprev, rfl⟩
    · cases h
  · cases h

/-- results that report a refused or impossible operation -/
def Res.isFailure : Res → Bool
  | .errType | .errScheme | .errUnknown | .ctorErr | .panic => true
  | _ => false

theorem setRes_fail (st : St) (t : Target) (r : Except SetErr (Option Val × Ctx))
    (h : (setRes st t r).2.isFailure = true) : (setRes st t r).1 = st := by
  cases r with
  | error e => rfl
  | ok pc => obtain ⟨p, c⟩ := pc; simp [setRes, Res.isFailure] at h

/-- the context an operation may modify -/
def Op.writes : Op → Option Target
  | .setField t _ _ _ => some t
  | .setName t _ _ => some t
  | .clear t => some t
  | .take t => some t
  | .clone => some .clone
  | .borrow => some .orig
  | .drop => some .orig
  | .get _ _ _ => none
  | .exec _ _ => none

theorem absCtx_new (s : Scheme) : absCtx (Ctx.new s) = fun _ => none := by
  funext i
  simp only [absCtx, Ctx.new, List.getElem?_replicate]
  split <;> rfl

theorem abs_init (e : Env) : abs (St.init e) = ⟨fun _ => none, none, false⟩ := by
  simp [abs, St.init, St.vis, absCtx_new]

theorem absCtx_finish (st : St) : absCtx (finish st).a = absCtx st.vis := by
  unfold finish St.vis
  cases st.g <;> rfl

theorem finish_b (st : St) : (finish st).b = st.b := by
  unfold finish
  cases st.g <;> rfl

theorem setVis_b (st : St) (c : Ctx) : (st.setVis c).b = st.b := by
  unfold St.setVis
  cases st.g <;> rfl

end WfModel.Ctx
