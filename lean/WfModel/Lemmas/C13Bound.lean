import WfModel.Lemmas.C13Spec
/-!
# C13 — `accepted_le`: every AST a level returns has nesting ≤ its budget
-/
set_option linter.unusedSimpArgs false
namespace WfModel
open Spec

/-- every successful result of the level has nesting ≤ `n` -/
structure Level.Bounded (lv : Level) (n : Nat) : Prop where
  logical : ∀ i e r, lv.logical i = .ok (e, r) → nestL e.node ≤ n
  simple : ∀ i e r, lv.simple i = .ok (e, r) → nestL e.node ≤ n
  quantArg : ∀ i q r, lv.quantArg i = .ok (q, r) → nestQ q ≤ n
  callBody : ∀ k sig i args ctx ty r,
    lv.callBody k sig i = .ok ((args, ctx, ty), r) → nestAs args ≤ n

/-- the level below (if any) is bounded by `n - 1` -/
def LowerBounded (lower : Option Level) (n : Nat) : Prop :=
  ∀ lw, lower = some lw → ∃ m, n = m + 1 ∧ lw.Bounded m

theorem indexExprL_bound {env : PEnv} {lower : Option Level} {n : Nat}
    (hl : LowerBounded lower n) {input : Input} {e : Typed IExpr} {r : Input}
    (h : indexExprL env lower input = .ok (e, r)) : nestI e.node ≤ n := by
  unfold indexExprL at h
  split at h
  · cases h
  · split at h
    · cases h
    · cases h; simp [nestI]
  · split at h
    · cases h
    · split at h
      · cases h
      · rename_i lw
        obtain ⟨m, hm, hb⟩ := hl lw rfl
        split at h
        · cases h
        · rename_i hcb
          split at h
          · cases h
          · cases h
            have := hb.callBody _ _ _ _ _ _ _ hcb
            simp only [nestI]; omega

/-- repeatedly split the matches/ifs of a hypothesis -/
macro "split_all " h:ident : tactic => `(tactic| repeat' (split at $h:ident))

theorem cmpWithLhs_node {env : PEnv} {lhs : IExpr} {ty : Ty} {input : Input}
    {e : Typed LExpr} {r : Input} (h : cmpWithLhs env lhs ty input = .ok (e, r)) :
    ∃ op, e.node = .comparison lhs op := by
  unfold cmpWithLhs at h
  dsimp only at h
  split_all h
  all_goals first
    | (cases h; exact ⟨_, rfl⟩)
    | (cases h)
    | (simp [errAt, errSpan] at h)

theorem cmpWithLhs_bound {env : PEnv} {lhs : IExpr} {ty : Ty} {input : Input}
    {e : Typed LExpr} {r : Input} (h : cmpWithLhs env lhs ty input = .ok (e, r)) :
    nestL e.node = nestI lhs := by
  obtain ⟨op, ho⟩ := cmpWithLhs_node h
  rw [ho]; simp only [nestL]

theorem comparisonL_bound {env : PEnv} {lower : Option Level} {n : Nat}
    (hl : LowerBounded lower n) {input : Input} {e : Typed LExpr} {r : Input}
    (h : comparisonL env lower input = .ok (e, r)) : nestL e.node ≤ n := by
  unfold comparisonL at h
  split at h
  · cases h
  · rename_i hi
    rw [cmpWithLhs_bound h]
    exact indexExprL_bound hl hi

theorem simpleL_bound {env : PEnv} {lower : Option Level} {n : Nat}
    (hl : LowerBounded lower n) {input : Input} {e : Typed LExpr} {r : Input}
    (h : simpleL env lower input = .ok (e, r)) : nestL e.node ≤ n := by
  unfold simpleL at h
  split at h
  · split at h
    · cases h
    · rename_i lw
      obtain ⟨m, hm, hb⟩ := hl lw rfl
      split at h
      · cases h
      · rename_i hlg
        split at h
        · cases h
          have := hb.logical _ _ _ hlg
          simp only [nestL]; omega
        · cases h
  · split at h
    · split at h
      · cases h
      · rename_i lw
        obtain ⟨m, hm, hb⟩ := hl lw rfl
        split at h
        · cases h
        · rename_i hs
          cases h
          have := hb.simple _ _ _ hs
          simp only [nestL]; omega
    · split at h
      · split at h
        · cases h
        · rename_i lw
          obtain ⟨m, hm, hb⟩ := hl lw rfl
          split at h
          · cases h
          · split at h
            · cases h
            · rename_i hq
              split at h
              · cases h
                have := hb.quantArg _ _ _ hq
                simp only [nestL]; omega
              · cases h
      · exact comparisonL_bound hl h

theorem climb_bound (simple : Input → LexRes (Typed LExpr)) (n : Nat)
    (hs : ∀ i e r, simple i = .ok (e, r) → nestL e.node ≤ n) (f : Nat) :
    (∀ lhs mp look e r, climb simple f lhs mp look = .ok (e, r) →
        nestL lhs.node ≤ n → nestL e.node ≤ n) ∧
    (∀ op rhs r0 rhs' rr look, climbInner simple f op rhs r0 = .ok ((rhs', rr), look) →
        nestL rhs.node ≤ n → nestL rhs'.node ≤ n) := by
  induction f with
  | zero =>
    constructor
    · intro lhs mp look e r h; simp [climb, errAt] at h
    · intro op rhs r0 rhs' rr look h; simp [climbInner, errAt] at h
  | succ f ih =>
    constructor
    · intro lhs mp look e r h hl
      obtain ⟨lo, inp⟩ := look
      cases lo with
      | none => simp only [climb] at h; cases h; exact hl
      | some op =>
        simp only [climb] at h
        split at h
        · cases h
        · rename_i rhs0 r0 hs0
          split at h
          · cases h
          · rename_i rhs rhsRest look hin
            split at h
            · cases h
            · have h1 := hs _ _ _ hs0
              have h2 := ih.2 _ _ _ _ _ _ hin h1
              refine ih.1 _ _ _ _ _ h ?_
              simp only [nestL_combine]; omega
    · intro op rhs r0 rhs' rr look h hl
      simp only [climbInner] at h
      split at h
      · cases h; exact hl
      · split at h
        · cases h
        · rename_i rhs1 r1 hc
          exact ih.2 _ _ _ _ _ _ h (ih.1 _ _ _ _ _ hc hl)

theorem logicalL_bound {env : PEnv} {lower : Option Level} {n : Nat}
    (hl : LowerBounded lower n) {input : Input} {e : Typed LExpr} {r : Input}
    (h : logicalL env lower input = .ok (e, r)) : nestL e.node ≤ n := by
  unfold logicalL at h
  split at h
  · cases h
  · rename_i lhs rest hs
    exact (climb_bound _ n (fun _ _ _ h => simpleL_bound hl h) _).1 _ _ _ _ _ h
      (simpleL_bound hl hs)

theorem argAfterIndex_bound {env : PEnv} {lhs : Typed IExpr} {rest : Input}
    {a : Typed AExpr} {r : Input} (h : argAfterIndex env lhs rest = .ok (a, r)) :
    nestA a.node = nestI lhs.node := by
  unfold argAfterIndex at h
  split at h
  · split at h
    · cases h
    · rename_i hc
      cases h
      simp only [nestA]; exact cmpWithLhs_bound hc
  · cases h; simp only [nestA]

theorem argLit_bound {ty : Ty} {input : Input} {a : Typed AExpr} {r : Input}
    (h : argLit ty input = some (.ok (a, r))) : nestA a.node = 0 := by
  unfold argLit at h
  cases hv : lexRhsVal ty input with
  | none => simp [hv] at h
  | some res =>
    cases res with
    | error e => simp [hv, Except.map] at h
    | ok v =>
      obtain ⟨v, rest⟩ := v
      simp only [hv, Option.map_some, Except.map, Option.some.injEq, Except.ok.injEq,
        Prod.mk.injEq] at h
      obtain ⟨h1, _⟩ := h
      subst h1; simp only [nestA]

theorem argFallback_bound {env : PEnv} {lower : Option Level} {n : Nat}
    (hl : LowerBounded lower n) {input : Input} {a : Typed AExpr} {r : Input}
    (h : argFallback env lower input = .ok (a, r)) : nestA a.node ≤ n := by
  unfold argFallback at h
  split at h
  · rename_i hi
    rw [argAfterIndex_bound h]; exact indexExprL_bound hl hi
  · split at h
    · rename_i hlit; cases h; rw [argLit_bound hlit]; omega
    · split at h
      · rename_i hlit; cases h; rw [argLit_bound hlit]; omega
      · split at h
        · rename_i hlit; cases h; rw [argLit_bound hlit]; omega
        · cases h

theorem argL_bound {env : PEnv} {lower : Option Level} {n : Nat}
    (hl : LowerBounded lower n) {input : Input} {a : Typed AExpr} {r : Input}
    (h : argL env lower input = .ok (a, r)) : nestA a.node ≤ n := by
  unfold argL at h
  split at h
  · exact argFallback_bound hl h
  · dsimp only at h
    split at h
    · split at h
      · rename_i hlit; rw [argLit_bound (hlit.trans (congrArg some h))]; omega
      · cases h
    · split at h
      · split at h
        · cases h
        · rename_i hlg; cases h; simp only [nestA]; exact logicalL_bound hl hlg
      · split at h
        · split at h
          · cases h
          · rename_i hi
            rw [argAfterIndex_bound h]; exact indexExprL_bound hl hi
        · exact argFallback_bound hl h

theorem callArgsLoop_bound {env : PEnv} {lower : Option Level} {n : Nat}
    (hl : LowerBounded lower n) (sig : FuncSig) (f : Nat) :
    ∀ inp args params ctx args' ps c r,
      callArgsLoop env lower sig f inp args params ctx = .ok ((args', ps, c), r) →
      nestAs args ≤ n → nestAs args' ≤ n := by
  induction f with
  | zero => intro inp args params ctx args' ps c r h; simp [callArgsLoop, errAt] at h
  | succ f ih =>
    intro inp args params ctx args' ps c r h ha
    simp only [callArgsLoop] at h
    split at h
    · cases h; exact ha
    · split at h
      · cases h; exact ha
      · split at h
        · cases h
        · split at h
          · cases h
          · rename_i a rest harg
            split_all h
            all_goals first
              | (cases h; done)
              | (simp [errAt, errSpan] at h; done)
              | (refine ih _ _ _ _ _ _ _ _ h ?_
                 rw [nestAs_append, nestAs_single]
                 have := argL_bound hl harg
                 omega)

theorem callBodyL_bound {env : PEnv} {lower : Option Level} {n : Nat}
    (hl : LowerBounded lower n) {k : Nat} {sig : FuncSig} {input : Input}
    {args : List AExpr} {ctx : Option Nat} {ty : Ty} {r : Input}
    (h : callBodyL env lower k sig input = .ok ((args, ctx, ty), r)) : nestAs args ≤ n := by
  unfold callBodyL at h
  dsimp only at h
  split at h
  · cases h
  · split at h
    · cases h
    · rename_i hloop
      split at h
      · cases h
      · split at h
        · cases h
        · cases h
          exact callArgsLoop_bound hl sig _ _ _ _ _ _ _ _ _ hloop (by simp [nestAs])

theorem quantArgL_bound {env : PEnv} {lower : Option Level} {n : Nat}
    (hl : LowerBounded lower n) {input : Input} {q : QArg} {r : Input}
    (h : quantArgL env lower input = .ok (q, r)) : nestQ q ≤ n := by
  unfold quantArgL at h
  split at h
  · cases h
  · rename_i a rest ha
    have hb := argL_bound hl ha
    split at h
    · cases h
    · rename_i e he
      split at h
      · cases h; rw [he] at hb; simpa only [nestQ, nestA] using hb
      · cases h
    · rename_i e he
      split at h
      · cases h; rw [he] at hb; simpa only [nestQ, nestA] using hb
      · cases h

theorem mkLevel_bounded {env : PEnv} {lower : Option Level} {n : Nat}
    (hl : LowerBounded lower n) : (mkLevel env lower).Bounded n where
  logical := fun _ _ _ h => logicalL_bound hl h
  simple := fun _ _ _ h => simpleL_bound hl h
  quantArg := fun _ _ _ h => quantArgL_bound hl h
  callBody := fun k _ _ _ _ _ _ h => callBodyL_bound hl (k := k) h

theorem lowerOf_bounded_of (env : PEnv) (n : Nat)
    (ih : ∀ m, m < n → (level env m).Bounded m) : LowerBounded (lowerOf env n) n := by
  intro lw h
  cases n with
  | zero => simp [lowerOf] at h
  | succ m => simp only [lowerOf, Option.some.injEq] at h; subst h; exact ⟨m, rfl, ih m (Nat.lt_succ_self m)⟩

theorem level_eq_mkLevel (env : PEnv) (n : Nat) : level env n = mkLevel env (lowerOf env n) := by
  cases n <;> rfl

/-- every AST returned by the parser with `n` levels of budget has nesting ≤ `n` -/
theorem level_bounded (env : PEnv) (n : Nat) : (level env n).Bounded n := by
  induction n using Nat.strongRecOn with
  | _ n ih =>
    rw [level_eq_mkLevel]
    exact mkLevel_bounded (lowerOf_bounded_of env n ih)

theorem lowerOf_bounded (env : PEnv) (n : Nat) : LowerBounded (lowerOf env n) n :=
  lowerOf_bounded_of env n (fun m _ => level_bounded env m)

theorem complete_ok {α} {r : LexRes α} {a : α} (h : complete r = .ok a) : r = .ok (a, []) := by
  unfold complete at h
  split at h
  · cases h
  · cases h; rfl
  · cases h

theorem parseFilter_bound {env : PEnv} {src : Input} {e : LExpr}
    (h : parseFilter env src = .ok e) : nestL e ≤ env.st.maxDepth := by
  unfold parseFilter at h
  have h := complete_ok h
  split at h
  · cases h
  · rename_i e' rest hl
    split at h
    · cases h; exact (level_bounded env _).logical _ _ _ hl
    · cases h

theorem parseValue_bound {env : PEnv} {src : Input} {e : Typed IExpr}
    (h : parseValue env src = .ok e) : nestI e.node ≤ env.st.maxDepth := by
  unfold parseValue at h
  have h := complete_ok h
  split at h
  · cases h
  · rename_i e' rest hl
    split at h
    · cases h
    · cases h; exact indexExprL_bound (lowerOf_bounded env _) hl

end WfModel
