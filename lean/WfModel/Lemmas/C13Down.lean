import WfModel.Lemmas.C13Mono
/-!
# C13 — `limit_complete`: an accepted parse whose nesting fits a smaller budget is accepted
at that smaller budget, with the same AST
-/
set_option linter.unusedSimpArgs false
namespace WfModel
open Spec Tok

/-- every success of the richer level `a` with nesting ≤ `n` is the same success of `b` -/
structure Level.Down (a b : Level) (n : Nat) : Prop where
  logical : ∀ i e r, a.logical i = .ok (e, r) → nestL e.node ≤ n → b.logical i = .ok (e, r)
  simple : ∀ i e r, a.simple i = .ok (e, r) → nestL e.node ≤ n → b.simple i = .ok (e, r)
  quantArg : ∀ i q r, a.quantArg i = .ok (q, r) → nestQ q ≤ n → b.quantArg i = .ok (q, r)
  callBody : ∀ k sig i args ctx ty r, a.callBody k sig i = .ok ((args, ctx, ty), r) →
    nestAs args ≤ n → b.callBody k sig i = .ok ((args, ctx, ty), r)

/-- `lo'` is the richer lower level, `lo` the poorer one; results of the level above are
required to have nesting ≤ `n` -/
def LowerDown (lo' lo : Option Level) (n : Nat) : Prop :=
  ∀ lw', lo' = some lw' → ∀ m, n = m + 1 → ∃ lw, lo = some lw ∧ lw'.Down lw m

theorem indexExprL_down {env : PEnv} {lo' lo : Option Level} {n : Nat}
    (hd : LowerDown lo' lo n) {i : Input} {e : Typed IExpr} {r : Input}
    (h : indexExprL env lo' i = .ok (e, r)) (hn : nestI e.node ≤ n) :
    indexExprL env lo i = .ok (e, r) := by
  unfold indexExprL at h ⊢
  split at h
  · cases h
  · exact h
  · split at h
    · cases h
    · split at h
      · cases h
      · rename_i lw'
        split at h
        · cases h
        · rename_i args ctx callTy rest2 hcb
          split at h
          · cases h
          · rename_i ixs ty rest3 hix
            cases h
            simp only [nestI] at hn
            obtain ⟨m, rfl⟩ : ∃ m, n = m + 1 := ⟨n - 1, by omega⟩
            obtain ⟨lw, rfl, hdn⟩ := hd lw' rfl m rfl
            simp only []
            rw [hdn.callBody _ _ _ _ _ _ _ hcb (by omega)]
            simp only [hix]

theorem comparisonL_down {env : PEnv} {lo' lo : Option Level} {n : Nat}
    (hd : LowerDown lo' lo n) {i : Input} {e : Typed LExpr} {r : Input}
    (h : comparisonL env lo' i = .ok (e, r)) (hn : nestL e.node ≤ n) :
    comparisonL env lo i = .ok (e, r) := by
  unfold comparisonL at h ⊢
  split at h
  · cases h
  · rename_i lhs rest hi
    rw [cmpWithLhs_bound h] at hn
    rw [indexExprL_down hd hi hn]; exact h

theorem simpleL_down {env : PEnv} {lo' lo : Option Level} {n : Nat}
    (hd : LowerDown lo' lo n) {i : Input} {e : Typed LExpr} {r : Input}
    (h : simpleL env lo' i = .ok (e, r)) (hn : nestL e.node ≤ n) :
    simpleL env lo i = .ok (e, r) := by
  unfold simpleL at h ⊢
  split at h
  · split at h
    · cases h
    · rename_i lw'
      split at h
      · cases h
      · rename_i e0 r0 hlg
        split at h
        · rename_i r2 hp2
          cases h
          simp only [nestL] at hn
          obtain ⟨m, rfl⟩ : ∃ m, n = m + 1 := ⟨n - 1, by omega⟩
          obtain ⟨lw, rfl, hdn⟩ := hd lw' rfl m rfl
          simp only []
          rw [hdn.logical _ _ _ hlg (by omega)]
          simp only [hp2]
        · cases h
  · split at h
    · split at h
      · cases h
      · rename_i lw'
        split at h
        · cases h
        · rename_i e0 r0 hs
          cases h
          simp only [nestL] at hn
          obtain ⟨m, rfl⟩ : ∃ m, n = m + 1 := ⟨n - 1, by omega⟩
          obtain ⟨lw, rfl, hdn⟩ := hd lw' rfl m rfl
          simp only []
          rw [hdn.simple _ _ _ hs (by omega)]
    · split at h
      · split at h
        · cases h
        · rename_i lw'
          split at h
          · cases h
          · split at h
            · cases h
            · rename_i q r2 hq
              split at h
              · rename_i r3 hp3
                cases h
                simp only [nestL] at hn
                obtain ⟨m, rfl⟩ : ∃ m, n = m + 1 := ⟨n - 1, by omega⟩
                obtain ⟨lw, rfl, hdn⟩ := hd lw' rfl m rfl
                simp only []
                rw [hdn.quantArg _ _ _ hq (by omega)]
                simp only [hp3]
              · cases h
      · exact comparisonL_down hd h hn

/-- the climber only ever grows the nesting of its left operand -/
theorem climb_ge (s : Input → LexRes (Typed LExpr)) (f : Nat) :
    (∀ lhs mp look e r, climb s f lhs mp look = .ok (e, r) → nestL lhs.node ≤ nestL e.node) ∧
    (∀ op rhs r0 rhs' rr look, climbInner s f op rhs r0 = .ok ((rhs', rr), look) →
        nestL rhs.node ≤ nestL rhs'.node) := by
  induction f with
  | zero =>
    constructor
    · intro lhs mp look e r h; simp [climb, errAt] at h
    · intro op rhs r0 rhs' rr look h; simp [climbInner, errAt] at h
  | succ f ih =>
    constructor
    · intro lhs mp look e r h
      obtain ⟨lo, inp⟩ := look
      cases lo with
      | none => simp only [climb] at h; cases h; exact Nat.le_refl _
      | some op =>
        simp only [climb] at h
        split at h
        · cases h
        · split at h
          · cases h
          · split at h
            · cases h
            · have := ih.1 _ _ _ _ _ h
              simp only [nestL_combine] at this
              omega
    · intro op rhs r0 rhs' rr look h
      simp only [climbInner] at h
      split at h
      · cases h; exact Nat.le_refl _
      · split at h
        · cases h
        · rename_i rhs1 r1 hc
          exact Nat.le_trans (ih.1 _ _ _ _ _ hc) (ih.2 _ _ _ _ _ _ h)

theorem climb_down (s' s : Input → LexRes (Typed LExpr)) (n : Nat)
    (hs : ∀ i e r, s' i = .ok (e, r) → nestL e.node ≤ n → s i = .ok (e, r)) (f : Nat) :
    (∀ lhs mp look e r, climb s' f lhs mp look = .ok (e, r) → nestL e.node ≤ n →
        climb s f lhs mp look = .ok (e, r)) ∧
    (∀ op rhs r0 rhs' rr look, climbInner s' f op rhs r0 = .ok ((rhs', rr), look) →
        nestL rhs'.node ≤ n → climbInner s f op rhs r0 = .ok ((rhs', rr), look)) := by
  induction f with
  | zero =>
    constructor
    · intro lhs mp look e r h; simp [climb, errAt] at h
    · intro op rhs r0 rhs' rr look h; simp [climbInner, errAt] at h
  | succ f ih =>
    constructor
    · intro lhs mp look e r h hn
      obtain ⟨lo, inp⟩ := look
      cases lo with
      | none => simp only [climb] at h ⊢; exact h
      | some op =>
        simp only [climb] at h ⊢
        split at h
        · cases h
        · rename_i rhs0 r0 hs0
          split at h
          · cases h
          · rename_i rhs rhsRest look hin
            split at h
            · cases h
            · rename_i hc
              have h1 := (climb_ge s' f).1 _ _ _ _ _ h
              simp only [nestL_combine] at h1
              have h2 := (climb_ge s' f).2 _ _ _ _ _ _ hin
              rw [hs _ _ _ hs0 (by omega)]
              simp only []
              rw [ih.2 _ _ _ _ _ _ hin (by omega)]
              simp only []
              rw [if_neg hc]
              exact ih.1 _ _ _ _ _ h hn
    · intro op rhs r0 rhs' rr look h hn
      simp only [climbInner] at h ⊢
      split at h
      · rename_i hc; rw [if_pos hc]; exact h
      · rename_i hc
        rw [if_neg hc]
        split at h
        · cases h
        · rename_i rhs1 r1 hcl
          have h2 := (climb_ge s' f).2 _ _ _ _ _ _ h
          rw [ih.1 _ _ _ _ _ hcl (by omega)]
          exact ih.2 _ _ _ _ _ _ h hn

theorem logicalL_down {env : PEnv} {lo' lo : Option Level} {n : Nat}
    (hd : LowerDown lo' lo n) {i : Input} {e : Typed LExpr} {r : Input}
    (h : logicalL env lo' i = .ok (e, r)) (hn : nestL e.node ≤ n) :
    logicalL env lo i = .ok (e, r) := by
  unfold logicalL at h ⊢
  split at h
  · cases h
  · rename_i lhs rest hs
    have h1 := (climb_ge _ _).1 _ _ _ _ _ h
    rw [simpleL_down hd hs (by omega)]
    exact (climb_down _ _ n (fun _ _ _ h hn => simpleL_down hd h hn) _).1 _ _ _ _ _ h hn

theorem indexExprL_error_down {env : PEnv} {lo' lo : Option Level} (hl : LowerLe lo lo')
    {i : Input} {e : LexErr} (h : indexExprL env lo' i = .error e) :
    ∃ e', indexExprL env lo i = .error e' := by
  cases hi : indexExprL env lo i with
  | error e' => exact ⟨e', rfl⟩
  | ok x => rw [indexExprL_mono hl hi] at h; cases h

theorem argFallback_down {env : PEnv} {lo' lo : Option Level} {n : Nat}
    (hd : LowerDown lo' lo n) (hl : LowerLe lo lo') {i : Input} {a : Typed AExpr} {r : Input}
    (h : argFallback env lo' i = .ok (a, r)) (hn : nestA a.node ≤ n) :
    argFallback env lo i = .ok (a, r) := by
  unfold argFallback at h ⊢
  split at h
  · rename_i lhs rest hi
    rw [argAfterIndex_bound h] at hn
    rw [indexExprL_down hd hi hn]; exact h
  · rename_i e hi
    obtain ⟨e', he'⟩ := indexExprL_error_down hl hi
    rw [he']; exact h

theorem argL_down {env : PEnv} {lo' lo : Option Level} {n : Nat}
    (hd : LowerDown lo' lo n) (hl : LowerLe lo lo') {i : Input} {a : Typed AExpr} {r : Input}
    (h : argL env lo' i = .ok (a, r)) (hn : nestA a.node ≤ n) :
    argL env lo i = .ok (a, r) := by
  unfold argL at h ⊢
  split at h
  · exact argFallback_down hd hl h hn
  · dsimp only at h ⊢
    split at h
    · rename_i hc; rw [if_pos hc]; exact h
    · rename_i hc
      rw [if_neg hc]
      split at h
      · rename_i hc2
        rw [if_pos hc2]
        split at h
        · cases h
        · rename_i e0 r0 hlg
          cases h
          simp only [nestA] at hn
          rw [logicalL_down hd hlg hn]
      · rename_i hc2
        rw [if_neg hc2]
        split at h
        · rename_i hc3
          rw [if_pos hc3]
          split at h
          · cases h
          · rename_i lhs rest hi
            rw [argAfterIndex_bound h] at hn
            rw [indexExprL_down hd hi hn]; exact h
        · rename_i hc3
          rw [if_neg hc3]
          exact argFallback_down hd hl h hn

theorem callArgsLoop_ge {env : PEnv} {lo : Option Level} (sig : FuncSig) (f : Nat) :
    ∀ inp args params ctx res,
      callArgsLoop env lo sig f inp args params ctx = .ok res →
      nestAs args ≤ nestAs res.1.1 := by
  induction f with
  | zero => intro inp args params ctx res h; simp [callArgsLoop, errAt] at h
  | succ f ih =>
    intro inp args params ctx res h
    simp only [callArgsLoop] at h
    split at h
    · cases h; exact Nat.le_refl _
    · split at h
      · cases h; exact Nat.le_refl _
      · split at h
        · cases h
        · split at h
          · cases h
          · rename_i a rest harg
            split_all h
            all_goals first
              | (cases h; done)
              | (simp [errAt, errSpan] at h; done)
              | (have := ih _ _ _ _ _ h
                 rw [nestAs_append] at this
                 omega)

theorem callArgsLoop_down {env : PEnv} {lo' lo : Option Level} {n : Nat}
    (hd : LowerDown lo' lo n) (hl : LowerLe lo lo') (sig : FuncSig) (f : Nat) :
    ∀ inp args params ctx res,
      callArgsLoop env lo' sig f inp args params ctx = .ok res → nestAs res.1.1 ≤ n →
      callArgsLoop env lo sig f inp args params ctx = .ok res := by
  induction f with
  | zero => intro inp args params ctx res h; simp [callArgsLoop, errAt] at h
  | succ f ih =>
    intro inp args params ctx res h hn
    simp only [callArgsLoop] at h ⊢
    split at h
    · exact h
    · split at h
      · rename_i hc; rw [if_pos hc]; exact h
      · rename_i hc
        rw [if_neg hc]
        split at h
        · cases h
        · rename_i inp1 hcomma
          try simp only [hcomma]
          split at h
          · cases h
          · rename_i a rest harg
            have hna : nestA a.node ≤ n := by
              split_all h
              all_goals first
                | (cases h; done)
                | (simp [errAt, errSpan] at h; done)
                | (have hge := callArgsLoop_ge _ _ _ _ _ _ _ h
                   rw [nestAs_append, nestAs_single] at hge
                   omega)
            rw [argL_down hd hl harg hna]
            simp only []
            split_all h
            all_goals first
              | (cases h; done)
              | (simp [errAt, errSpan] at h; done)
              | ((repeat' split) <;> first | contradiction | exact ih _ _ _ _ _ h hn)

theorem callBodyL_down {env : PEnv} {lo' lo : Option Level} {n : Nat}
    (hd : LowerDown lo' lo n) (hl : LowerLe lo lo') {k : Nat} {sig : FuncSig} {i : Input}
    {args : List AExpr} {ctx : Option Nat} {ty : Ty} {r : Input}
    (h : callBodyL env lo' k sig i = .ok ((args, ctx, ty), r)) (hn : nestAs args ≤ n) :
    callBodyL env lo k sig i = .ok ((args, ctx, ty), r) := by
  unfold callBodyL at h ⊢
  dsimp only at h ⊢
  split at h
  · cases h
  · split at h
    · cases h
    · rename_i args' params ctx' rest hloop
      have key : args' = args := by
        split at h
        · simp [errAt] at h
        · split at h
          · simp [errAt] at h
          · cases h; rfl
      subst key
      rw [callArgsLoop_down hd hl _ _ _ _ _ _ _ hloop hn]
      exact h

theorem quantArgL_down {env : PEnv} {lo' lo : Option Level} {n : Nat}
    (hd : LowerDown lo' lo n) (hl : LowerLe lo lo') {i : Input} {q : QArg} {r : Input}
    (h : quantArgL env lo' i = .ok (q, r)) (hn : nestQ q ≤ n) :
    quantArgL env lo i = .ok (q, r) := by
  unfold quantArgL at h ⊢
  split at h
  · cases h
  · rename_i a rest harg
    have hna : nestA a.node ≤ n := by
      split at h
      · simp [errSpan] at h
      · rename_i e he
        split at h
        · cases h; rw [he]; simpa only [nestA, nestQ] using hn
        · simp [errSpan] at h
      · rename_i e he
        split at h
        · cases h; rw [he]; simpa only [nestA, nestQ] using hn
        · simp [errSpan] at h
    rw [argL_down hd hl harg hna]; exact h

theorem mkLevel_down {env : PEnv} {lo' lo : Option Level} {n : Nat}
    (hd : LowerDown lo' lo n) (hl : LowerLe lo lo') :
    (mkLevel env lo').Down (mkLevel env lo) n where
  logical := fun _ _ _ h hn => logicalL_down hd h hn
  simple := fun _ _ _ h hn => simpleL_down hd h hn
  quantArg := fun _ _ _ h hn => quantArgL_down hd hl h hn
  callBody := fun k _ _ _ _ _ _ h hn => callBodyL_down hd hl (k := k) h hn

theorem lowerOf_down_of (env : PEnv) {n N : Nat} (hle : n ≤ N)
    (ih : ∀ m, m < n → ∀ M, m ≤ M → (level env M).Down (level env m) m) :
    LowerDown (lowerOf env N) (lowerOf env n) n := by
  intro lw' hlw m hm
  subst hm
  cases N with
  | zero => omega
  | succ N' =>
    simp only [lowerOf, Option.some.injEq] at hlw
    subst hlw
    exact ⟨level env m, rfl, ih m (Nat.lt_succ_self m) N' (by omega)⟩

/-- a parse at budget `N` whose result has nesting ≤ `n ≤ N` is the same parse at budget `n` -/
theorem level_down (env : PEnv) (n : Nat) : ∀ N, n ≤ N → (level env N).Down (level env n) n := by
  induction n using Nat.strongRecOn with
  | _ n ih =>
    intro N hle
    rw [level_eq_mkLevel env N, level_eq_mkLevel env n]
    exact mkLevel_down (lowerOf_down_of env hle ih) (lowerOf_le env hle)

theorem lowerOf_down (env : PEnv) {n N : Nat} (hle : n ≤ N) :
    LowerDown (lowerOf env N) (lowerOf env n) n :=
  lowerOf_down_of env hle (fun m _ M hM => level_down env m M hM)

end WfModel
