import WfModel.Model.Parse
import WfModel.Lemmas.Unary

/-! Helper definitions and lemmas for C01, parts 4-5: precedence climbing equals the layered
grammar; `not` binds tightest (no property statements here). -/
namespace WfModel

/-! ### the declarative grammar: split at `or`, then `xor`, then `and` -/

def isCombining : LExpr → Bool
  | .combining _ _ => true
  | _ => false

/-- Splits the items following an operand at every occurrence of `o`: the items of the
first chunk, and the remaining chunks (operand that follows the `o`, its items). -/
def chunksAux {α : Type} (o : LogicalOp) :
    List (LogicalOp × α) → List (LogicalOp × α) × List (α × List (LogicalOp × α))
  | [] => ([], [])
  | (o', e') :: rest =>
    if o' = o then ([], (e', (chunksAux o rest).1) :: (chunksAux o rest).2)
    else ((o', e') :: (chunksAux o rest).1, (chunksAux o rest).2)

/-- `e its` split at the operator `o`; never empty -/
def chunks {α : Type} (o : LogicalOp) (e : α) (its : List (LogicalOp × α)) :
    List (α × List (LogicalOp × α)) :=
  (e, (chunksAux o its).1) :: (chunksAux o its).2

/-- a single chunk stands for itself, several are ONE flat node -/
def mkNode (o : LogicalOp) : List LExpr → LExpr
  | [x] => x
  | xs => .combining o xs

/-- split at the first operator of the list, every chunk at the next one, … -/
def layeredAt {α : Type} (leaf : α → LExpr) : List LogicalOp → α → List (LogicalOp × α) → LExpr
  | [], e, _ => leaf e
  | o :: os, e, its => mkNode o ((chunks o e its).map fun c => layeredAt leaf os c.1 c.2)

/-- **The grammar meaning** of `e₀ o₁ e₁ … oₙ eₙ`: split at `or`, every chunk at `xor`,
every chunk of that at `and`. -/
def layered (e₀ : LExpr) (its : List (LogicalOp × LExpr)) : LExpr :=
  layeredAt id [.or, .xor, .and] e₀ its

/-! ### the stream abstraction -/

abbrev Item := LogicalOp × Typed LExpr

/-- the input at `r` reads `o₁ e₁ … oₙ eₙ` (via `lexCombiningOp` and `simple`) and then, at
`fin`, no further combining operator -/
inductive Unfolds (simple : Input → LexRes (Typed LExpr)) : Input → List Item → Input → Prop
  | done {r : Input} : (lexCombiningOp r).1 = none → Unfolds simple r [] r
  | step {r inp : Input} {o : LogicalOp} {e : Typed LExpr} {r' : Input} {items : List Item}
      {fin : Input} :
      lexCombiningOp r = (some o, inp) → simple inp = .ok (e, r') →
      Unfolds simple r' items fin → Unfolds simple r ((o, e) :: items) fin

def nodesOf (its : List Item) : List (LogicalOp × LExpr) := its.map fun it => (it.1, it.2.node)

/-! ### lemmas on chunks -/

theorem chunksAux_append_op {α : Type} (o : LogicalOp) (a : List (LogicalOp × α)) (e' : α)
    (b : List (LogicalOp × α)) :
    chunksAux o (a ++ (o, e') :: b) = ((chunksAux o a).1, (chunksAux o a).2 ++ chunks o e' b) := by
  induction a with
  | nil => simp [chunksAux, chunks]
  | cons x a ih =>
    obtain ⟨o1, e1⟩ := x
    by_cases h : o1 = o
    · simp [chunksAux, h, ih]
    · simp [chunksAux, h, ih]

theorem chunksAux_no_op {α : Type} (o : LogicalOp) (its : List (LogicalOp × α))
    (h : ∀ it ∈ its, it.1 ≠ o) : chunksAux o its = (its, []) := by
  induction its with
  | nil => rfl
  | cons x its ih =>
    obtain ⟨o1, e1⟩ := x
    have h1 : o1 ≠ o := h (o1, e1) List.mem_cons_self
    have h2 := ih (fun it hit => h it (List.mem_cons_of_mem _ hit))
    simp [chunksAux, h1, h2]

theorem chunksAux_has_op {α : Type} (o : LogicalOp) (its : List (LogicalOp × α))
    (h : ∃ it ∈ its, it.1 = o) : (chunksAux o its).2 ≠ [] := by
  induction its with
  | nil => obtain ⟨it, hit, _⟩ := h; cases hit
  | cons x its ih =>
    obtain ⟨o1, e1⟩ := x
    by_cases h1 : o1 = o
    · simp [chunksAux, h1]
    · have : ∃ it ∈ its, it.1 = o := by
        obtain ⟨it, hit, ho⟩ := h
        rcases List.mem_cons.mp hit with rfl | hit
        · exact absurd ho h1
        · exact ⟨it, hit, ho⟩
      simp [chunksAux, h1, ih this]

theorem mkNode_two (o : LogicalOp) (x y : LExpr) (l : List LExpr) :
    mkNode o (x :: y :: l) = .combining o (x :: y :: l) := rfl

theorem layeredAt_nil {α : Type} (leaf : α → LExpr) (os : List LogicalOp) (e : α) :
    layeredAt leaf os e [] = leaf e := by
  induction os with
  | nil => rfl
  | cons o os ih => simp [layeredAt, chunks, chunksAux, mkNode, ih]

theorem layeredAt_skip {α : Type} (leaf : α → LExpr) (o : LogicalOp) (os : List LogicalOp) (e : α)
    (its : List (LogicalOp × α)) (h : ∀ it ∈ its, it.1 ≠ o) :
    layeredAt leaf (o :: os) e its = layeredAt leaf os e its := by
  simp [layeredAt, chunks, chunksAux_no_op o its h, mkNode]

theorem layeredAt_has_op {α : Type} (leaf : α → LExpr) (o : LogicalOp) (os : List LogicalOp) (e : α)
    (its : List (LogicalOp × α)) (h : ∃ it ∈ its, it.1 = o) :
    layeredAt leaf (o :: os) e its =
      .combining o ((chunks o e its).map fun c => layeredAt leaf os c.1 c.2) := by
  have hne := chunksAux_has_op o its h
  rw [layeredAt]
  cases hc : (chunksAux o its).2 with
  | nil => exact absurd hc hne
  | cons c cs => simp only [chunks, hc]; rfl

/-! ### levels -/

/-- the operators of precedence `≥ p`, weakest first -/
def levelOps : Nat → List LogicalOp
  | 0 => [.or, .xor, .and]
  | 1 => [.or, .xor, .and]
  | 2 => [.xor, .and]
  | 3 => [.and]
  | _ => []

/-- the layered meaning of a sequence all of whose operators have precedence `≥ p` -/
def Lv (p : Nat) (e : Typed LExpr) (its : List Item) : LExpr :=
  layeredAt (fun x : Typed LExpr => x.node) (levelOps p) e its

theorem levelOps_prec (o : LogicalOp) : levelOps o.prec = o :: levelOps (o.prec + 1) := by
  cases o <;> rfl

theorem prec_inj {a b : LogicalOp} (h : a.prec = b.prec) : a = b := by
  cases a <;> cases b <;> simp [LogicalOp.prec] at h <;> rfl

theorem prec_pos (o : LogicalOp) : 1 ≤ o.prec := by cases o <;> simp [LogicalOp.prec]
theorem prec_le3 (o : LogicalOp) : o.prec ≤ 3 := by cases o <;> simp [LogicalOp.prec]

theorem Lv_nil (p : Nat) (e : Typed LExpr) : Lv p e [] = e.node := layeredAt_nil _ _ _

theorem Lv_succ (p : Nat) (e : Typed LExpr) (its : List Item) (h : ∀ it ∈ its, p < it.1.prec) :
    Lv p e its = Lv (p + 1) e its := by
  unfold Lv
  match p with
  | 0 => rfl
  | 1 =>
    exact layeredAt_skip _ _ _ _ _ (fun it hit hc => by have := h it hit; rw [hc] at this; simp [LogicalOp.prec] at this)
  | 2 =>
    exact layeredAt_skip _ _ _ _ _ (fun it hit hc => by have := h it hit; rw [hc] at this; simp [LogicalOp.prec] at this)
  | 3 =>
    exact layeredAt_skip _ _ _ _ _ (fun it hit hc => by have := h it hit; rw [hc] at this; simp [LogicalOp.prec] at this)
  | _ + 4 => rfl

theorem Lv_eq_of_le (m q : Nat) (e : Typed LExpr) (its : List Item) (hmq : m ≤ q)
    (h : ∀ it ∈ its, q ≤ it.1.prec) : Lv m e its = Lv q e its := by
  obtain ⟨d, rfl⟩ := Nat.exists_eq_add_of_le hmq
  clear hmq
  induction d with
  | zero => rfl
  | succ d ih =>
    rw [ih (fun it hit => by have := h it hit; omega)]
    exact Lv_succ (m + d) e its (fun it hit => by have := h it hit; omega)

theorem Lv_has_op (o : LogicalOp) (e : Typed LExpr) (its : List Item) (h : ∃ it ∈ its, it.1 = o) :
    Lv o.prec e its = .combining o ((chunks o e its).map fun c => Lv (o.prec + 1) c.1 c.2) := by
  unfold Lv
  rw [levelOps_prec]
  exact layeredAt_has_op _ _ _ _ _ h

theorem combine_not_comb (o : LogicalOp) (x r : LExpr) (h : isCombining x = false) :
    combine o x r = .combining o [x, r] := by
  cases x <;> simp_all [combine, isCombining]

theorem combine_other (o o' : LogicalOp) (xs : List LExpr) (r : LExpr) (h : o' ≠ o) :
    combine o (.combining o' xs) r = .combining o [.combining o' xs, r] := by
  simp [combine, h]

theorem combine_same (o : LogicalOp) (xs : List LExpr) (r : LExpr) :
    combine o (.combining o xs) r = .combining o (xs ++ [r]) := by
  simp [combine]

/-- one step of the outer loop on the specification side -/
theorem combine_Lv (o : LogicalOp) (e₀ e : Typed LExpr) (consumed pre : List Item) (q : Nat)
    (hnc : isCombining e₀.node = false)
    (hge : ∀ it ∈ consumed, q ≤ it.1.prec)
    (hq : consumed ≠ [] → ∃ it ∈ consumed, it.1.prec = q)
    (hoq : consumed ≠ [] → o.prec ≤ q)
    (hpre : ∀ it ∈ pre, o.prec < it.1.prec) :
    combine o (Lv q e₀ consumed) (Lv (o.prec + 1) e pre) =
      Lv o.prec e₀ (consumed ++ (o, e) :: pre) := by
  have hpre' : ∀ it ∈ pre, it.1 ≠ o := fun it hit hc => by
    have := hpre it hit; rw [hc] at this; exact Nat.lt_irrefl _ this
  have hR : chunksAux o pre = (pre, []) := chunksAux_no_op o pre hpre'
  have hmem : ∃ it ∈ consumed ++ (o, e) :: pre, it.1 = o := ⟨(o, e), by simp, rfl⟩
  rw [Lv_has_op o e₀ _ hmem]
  simp only [chunks, chunksAux_append_op, hR, List.map_cons, List.map_append, List.map_nil]
  by_cases hocc : ∃ it ∈ consumed, it.1 = o
  · -- the chain continues: push
    have hcne : consumed ≠ [] := by
      obtain ⟨it, hit, _⟩ := hocc; intro hc; rw [hc] at hit; cases hit
    have hqp : q = o.prec := by
      obtain ⟨it, hit, ho⟩ := hocc
      have h1 := hge it hit; rw [ho] at h1
      exact Nat.le_antisymm h1 (hoq hcne)
    rw [hqp, Lv_has_op o e₀ consumed hocc, combine_same]
    simp [chunks]
  · -- a new, weaker node
    have hno : ∀ it ∈ consumed, it.1 ≠ o := fun it hit hc => hocc ⟨it, hit, hc⟩
    rw [chunksAux_no_op o consumed hno]
    simp only [List.map_nil, List.nil_append]
    cases hcons : consumed with
    | nil =>
      simp only [Lv_nil]
      exact combine_not_comb o _ _ hnc
    | cons c cs =>
      have hcne : consumed ≠ [] := by rw [hcons]; simp
      obtain ⟨it, hit, hitq⟩ := hq hcne
      have hne : it.1 ≠ o := hno it hit
      have hlt : o.prec + 1 ≤ q := by
        have := hoq hcne
        rcases Nat.lt_or_ge o.prec q with h | h
        · exact h
        · exact absurd (prec_inj (by omega : it.1.prec = o.prec)) hne
      rw [← hcons, Lv_eq_of_le (o.prec + 1) q e₀ consumed hlt hge]
      rw [← hitq, Lv_has_op it.1 e₀ consumed ⟨it, hit, rfl⟩]
      exact combine_other o it.1 _ _ hne

/-! ### the stream side -/

theorem lexCombiningOp_none (r : Input) (h : (lexCombiningOp r).1 = none) :
    lexCombiningOp r = (none, r) := by
  unfold lexCombiningOp at *
  split <;> simp_all

def headPrec : List Item → Nat
  | [] => 0
  | it :: _ => it.1.prec

theorem unfolds_head {simple : Input → LexRes (Typed LExpr)} {r fin : Input} {items : List Item}
    (h : Unfolds simple r items fin) : optPrec (lexCombiningOp r).1 = headPrec items := by
  cases h with
  | done h => rw [h]; rfl
  | step hl _ _ => rw [hl]; rfl

theorem unfolds_nil {simple : Input → LexRes (Typed LExpr)} {r fin : Input}
    (h : Unfolds simple r [] fin) : r = fin ∧ lexCombiningOp r = (none, r) := by
  cases h with
  | done h => exact ⟨rfl, lexCombiningOp_none _ h⟩

theorem split_prefix {α : Type} (P : α → Prop) [DecidablePred P] (l : List α) :
    ∃ a b, l = a ++ b ∧ (∀ x ∈ a, P x) ∧ (∀ x, b.head? = some x → ¬ P x) := by
  induction l with
  | nil => exact ⟨[], [], rfl, by simp, by simp⟩
  | cons x l ih =>
    by_cases hx : P x
    · obtain ⟨a, b, hl, ha, hb⟩ := ih
      refine ⟨x :: a, b, by simp [hl], ?_, hb⟩
      intro y hy
      rcases List.mem_cons.mp hy with rfl | hy
      · exact hx
      · exact ha y hy
    · exact ⟨[], x :: l, rfl, by simp, by simpa using hx⟩

theorem lto_trans {t a b : Ty} (h1 : logicalTypesOk t a = true) (h2 : logicalTypesOk t b = true) :
    logicalTypesOk a b = true := by
  cases t <;> cases a <;> simp [logicalTypesOk] at h1 ⊢ <;> cases b <;> simp [logicalTypesOk] at h2 ⊢

theorem lto_refl_of {t a : Ty} (h1 : logicalTypesOk t a = true) : logicalTypesOk t t = true := by
  cases t <;> cases a <;> simp [logicalTypesOk] at h1 ⊢

theorem typed_eta (e : Typed LExpr) : (⟨Lv 4 e [], e.ty⟩ : Typed LExpr) = e := by
  rw [Lv_nil]

/-- specification of the inner `loop` -/
def InnerSpec (simple : Input → LexRes (Typed LExpr)) (f : Nat) : Prop :=
  ∀ (op : LogicalOp) (e : Typed LExpr) (consumed pre post : List Item) (q : Nat) (r fin : Input),
    isCombining e.node = false →
    op.prec < q →
    (∀ it ∈ consumed, q ≤ it.1.prec) →
    (consumed ≠ [] → ∃ it ∈ consumed, it.1.prec = q) →
    (consumed ≠ [] → headPrec pre ≤ q) →
    (∀ it ∈ pre, op.prec < it.1.prec) →
    headPrec post ≤ op.prec →
    (∀ it ∈ pre, logicalTypesOk e.ty it.2.ty = true) →
    (∀ it ∈ pre, isCombining it.2.node = false) →
    Unfolds simple r (pre ++ post) fin →
    2 * (pre ++ post).length + 2 ≤ f →
    ∃ mid, Unfolds simple mid post fin ∧
      climbInner simple f op ⟨Lv q e consumed, e.ty⟩ r =
        .ok ((⟨Lv (op.prec + 1) e (consumed ++ pre), e.ty⟩, mid), lexCombiningOp mid)

/-- specification of the outer `while` entered with a pending operator -/
def ClimbSpec (simple : Input → LexRes (Typed LExpr)) (f : Nat) : Prop :=
  ∀ (m : Option LogicalOp) (e₀ : Typed LExpr) (consumed : List Item) (o : LogicalOp)
    (e : Typed LExpr) (pre' post : List Item) (q : Nat) (r fin : Input),
    isCombining e₀.node = false →
    (∀ it ∈ consumed, q ≤ it.1.prec) →
    (consumed ≠ [] → ∃ it ∈ consumed, it.1.prec = q) →
    (consumed ≠ [] → o.prec ≤ q) →
    (∀ it ∈ (o, e) :: pre', optPrec m ≤ it.1.prec) →
    (post ≠ [] → headPrec post < optPrec m) →
    (∀ it ∈ (o, e) :: pre', logicalTypesOk e₀.ty it.2.ty = true) →
    (∀ it ∈ (o, e) :: pre', isCombining it.2.node = false) →
    Unfolds simple r ((o, e) :: pre' ++ post) fin →
    2 * ((o, e) :: pre' ++ post).length + 1 ≤ f →
    ∃ mid, Unfolds simple mid post fin ∧
      climb simple f ⟨Lv q e₀ consumed, e₀.ty⟩ m (lexCombiningOp r) =
        .ok (⟨Lv (optPrec m) e₀ (consumed ++ (o, e) :: pre'), e₀.ty⟩, mid)

theorem innerSpec_step (simple : Input → LexRes (Typed LExpr)) (f : Nat)
    (hC : ClimbSpec simple f) (hI : InnerSpec simple f) : InnerSpec simple (f + 1) := by
  intro op e consumed pre post q r fin hnc hopq hge hq hhead hpre hpost hty hncs hU hf
  rw [climbInner]
  cases pre with
  | nil =>
    simp only [List.nil_append] at hU hf
    have hh := unfolds_head hU
    rw [if_pos (by rw [hh]; exact hpost)]
    refine ⟨r, hU, ?_⟩
    rw [List.append_nil, Lv_eq_of_le (op.prec + 1) q e consumed hopq hge]
  | cons x pre' =>
    obtain ⟨o1, e1⟩ := x
    have ho1 : op.prec < o1.prec := hpre (o1, e1) List.mem_cons_self
    have hh := unfolds_head hU
    simp only [List.cons_append, headPrec] at hh
    rw [if_neg (by rw [hh]; omega)]
    -- split the rest of `pre` at the first operator weaker than `o1`
    obtain ⟨a, b, hab, ha, hb⟩ := split_prefix (fun it : Item => o1.prec ≤ it.1.prec) pre'
    have hlook : (lexCombiningOp r).1 = some o1 := by
      cases hU with
      | step hl _ _ => rw [hl]
    have hpostC : b ++ post ≠ [] → headPrec (b ++ post) < optPrec (some o1) := by
      intro _
      cases b with
      | nil =>
        simp only [List.nil_append]
        exact Nat.lt_of_le_of_lt hpost ho1
      | cons y b' =>
        have := hb y rfl
        simp only [List.cons_append, headPrec, optPrec]
        omega
    have hUc : Unfolds simple r ((o1, e1) :: a ++ (b ++ post)) fin := by
      have : (o1, e1) :: a ++ (b ++ post) = (o1, e1) :: pre' ++ post := by simp [hab]
      rw [this]; exact hU
    have hlen : ((o1, e1) :: a ++ (b ++ post)).length = ((o1, e1) :: pre' ++ post).length := by
      simp [hab]
    obtain ⟨mid, hUm, hcl⟩ := hC (some o1) e consumed o1 e1 a (b ++ post) q r fin hnc hge hq
      (fun hc => by have := hhead hc; simpa [headPrec] using this)
      (by
        intro it hit
        rcases List.mem_cons.mp hit with rfl | hit
        · exact Nat.le_refl _
        · exact ha it hit)
      hpostC
      (fun it hit => hty it (by
        rcases List.mem_cons.mp hit with rfl | hit
        · exact List.mem_cons_self
        · rw [hab]; exact List.mem_cons_of_mem _ (List.mem_append_left _ hit)))
      (fun it hit => hncs it (by
        rcases List.mem_cons.mp hit with rfl | hit
        · exact List.mem_cons_self
        · rw [hab]; exact List.mem_cons_of_mem _ (List.mem_append_left _ hit)))
      hUc (by rw [hlen]; omega)
    rw [hlook, hcl]
    simp only [optPrec]
    -- continue the inner loop after the sub-chain
    have hgeI : ∀ it ∈ consumed ++ (o1, e1) :: a, o1.prec ≤ it.1.prec := by
      intro it hit
      rcases List.mem_append.mp hit with hit | hit
      · have hc : consumed ≠ [] := by intro hc; rw [hc] at hit; cases hit
        have := hhead hc
        simp only [headPrec] at this
        exact Nat.le_trans this (hge it hit)
      · rcases List.mem_cons.mp hit with rfl | hit
        · exact Nat.le_refl _
        · exact ha it hit
    obtain ⟨mid2, hUm2, hin⟩ := hI op e (consumed ++ (o1, e1) :: a) b post o1.prec mid fin hnc ho1 hgeI
      (fun _ => ⟨(o1, e1), by simp, rfl⟩)
      (fun _ => by
        cases b with
        | nil => simp [headPrec]
        | cons y b' => have := hb y rfl; simp only [headPrec]; omega)
      (fun it hit => hpre it (by rw [hab]; exact List.mem_cons_of_mem _ (List.mem_append_right _ hit)))
      hpost
      (fun it hit => hty it (by rw [hab]; exact List.mem_cons_of_mem _ (List.mem_append_right _ hit)))
      (fun it hit => hncs it (by rw [hab]; exact List.mem_cons_of_mem _ (List.mem_append_right _ hit)))
      hUm
      (by
        have : (b ++ post).length < ((o1, e1) :: pre' ++ post).length := by simp [hab]; omega
        omega)
    refine ⟨mid2, hUm2, ?_⟩
    rw [hin]
    have : consumed ++ (o1, e1) :: a ++ b = consumed ++ (o1, e1) :: pre' := by simp [hab]
    rw [this]

theorem climb_none (simple : Input → LexRes (Typed LExpr)) (f : Nat) (lhs : Typed LExpr)
    (m : Option LogicalOp) (r : Input) : climb simple (f + 1) lhs m (none, r) = .ok (lhs, r) := by
  rw [climb]

theorem climbSpec_step (simple : Input → LexRes (Typed LExpr)) (f : Nat)
    (hC : ClimbSpec simple f) (hI : InnerSpec simple f) : ClimbSpec simple (f + 1) := by
  intro m e₀ consumed o e pre' post q r fin hnc hge hq hoq hpre hpost hty hncs hU hf
  cases hU with
  | step hl hs hU' =>
  rename_i inp r'
  rw [hl, climb]
  simp only [hs]
  have hom : optPrec m ≤ o.prec := hpre (o, e) List.mem_cons_self
  obtain ⟨a, b, hab, ha, hb⟩ := split_prefix (fun it : Item => o.prec < it.1.prec) pre'
  have hpostI : headPrec (b ++ post) ≤ o.prec := by
    cases b with
    | nil =>
      simp only [List.nil_append]
      cases post with
      | nil => simp [headPrec]
      | cons y p => have := hpost (by simp); omega
    | cons y b' => have := hb y rfl; simp only [List.cons_append, headPrec]; omega
  have hte : logicalTypesOk e₀.ty e.ty = true := hty (o, e) List.mem_cons_self
  have hUi : Unfolds simple r' (a ++ (b ++ post)) fin := by
    have : a ++ (b ++ post) = pre' ++ post := by simp [hab]
    rw [this]; exact hU'
  have hlen : (a ++ (b ++ post)).length = (pre' ++ post).length := by simp [hab]
  obtain ⟨mid, hUm, hin⟩ := hI o e [] a (b ++ post) 4 r' fin
    (hncs (o, e) List.mem_cons_self) (by have := prec_le3 o; omega)
    (by simp) (by simp) (by simp) ha hpostI
    (fun it hit => lto_trans hte (hty it (by
      rw [hab]; exact List.mem_cons_of_mem _ (List.mem_append_left _ hit))))
    (fun it hit => hncs it (by rw [hab]; exact List.mem_cons_of_mem _ (List.mem_append_left _ hit)))
    hUi (by rw [hlen]; simp only [List.cons_append, List.length_cons] at hf; omega)
  rw [typed_eta] at hin
  rw [hin]
  simp only [List.nil_append, hte, Bool.not_true, Bool.false_eq_true, ↓reduceIte]
  rw [combine_Lv o e₀ e consumed a q hnc hge hq hoq ha]
  have hgeN : ∀ it ∈ consumed ++ (o, e) :: a, o.prec ≤ it.1.prec := by
    intro it hit
    rcases List.mem_append.mp hit with hit | hit
    · have hc : consumed ≠ [] := by intro hc; rw [hc] at hit; cases hit
      exact Nat.le_trans (hoq hc) (hge it hit)
    · rcases List.mem_cons.mp hit with rfl | hit
      · exact Nat.le_refl _
      · exact Nat.le_of_lt (ha it hit)
  have hh := unfolds_head hUm
  cases b with
  | nil =>
    -- the chain at this level is over: stop
    simp only [List.nil_append] at hUm hh
    have hlook' : (if optPrec (lexCombiningOp mid).1 < optPrec m then (none, mid)
        else lexCombiningOp mid) = (none, mid) := by
      cases post with
      | nil => rw [(unfolds_nil hUm).2]; simp
      | cons y p => rw [if_pos (by rw [hh]; exact hpost (by simp))]
    rw [hlook']
    obtain ⟨f', rfl⟩ : ∃ f', f = f' + 1 := by
      cases f with
      | zero => simp at hf
      | succ f' => exact ⟨f', rfl⟩
    rw [climb_none]
    refine ⟨mid, hUm, ?_⟩
    have : pre' = a := by simp [hab]
    rw [this, Lv_eq_of_le (optPrec m) o.prec e₀ _ hom hgeN]
  | cons y b' =>
    obtain ⟨o2, e2⟩ := y
    have hy := hb (o2, e2) rfl
    simp only [List.cons_append, headPrec] at hh
    have hmem2 : (o2, e2) ∈ (o, e) :: pre' := by
      rw [hab]; exact List.mem_cons_of_mem _ (List.mem_append_right _ List.mem_cons_self)
    have hm2 : optPrec m ≤ o2.prec := hpre _ hmem2
    rw [if_neg (by rw [hh]; omega)]
    obtain ⟨mid2, hUm2, hcl⟩ := hC m e₀ (consumed ++ (o, e) :: a) o2 e2 b' post o.prec mid fin hnc hgeN
      (fun _ => ⟨(o, e), by simp, rfl⟩)
      (fun _ => by simp only at hy; omega)
      (fun it hit => hpre it (by
        rw [hab]; exact List.mem_cons_of_mem _ (List.mem_append_right _ hit)))
      hpost
      (fun it hit => hty it (by rw [hab]; exact List.mem_cons_of_mem _ (List.mem_append_right _ hit)))
      (fun it hit => hncs it (by rw [hab]; exact List.mem_cons_of_mem _ (List.mem_append_right _ hit)))
      hUm
      (by
        have : ((o2, e2) :: b' ++ post).length < ((o, e) :: pre' ++ post).length := by
          simp [hab]; omega
        omega)
    refine ⟨mid2, hUm2, ?_⟩
    rw [hcl]
    have : consumed ++ (o, e) :: a ++ (o2, e2) :: b' = consumed ++ (o, e) :: pre' := by simp [hab]
    rw [this]

theorem climb_inner_spec (simple : Input → LexRes (Typed LExpr)) (f : Nat) :
    ClimbSpec simple f ∧ InnerSpec simple f := by
  induction f with
  | zero =>
    constructor
    · intro m e₀ consumed o e pre' post q r fin _ _ _ _ _ _ _ _ _ hf
      simp at hf
    · intro op e consumed pre post q r fin _ _ _ _ _ _ _ _ _ _ hf
      simp at hf
  | succ f ih => exact ⟨climbSpec_step simple f ih.1 ih.2, innerSpec_step simple f ih.1 ih.2⟩

/-- the top-level call, on `Typed` operands -/
theorem climb_Lv (simple : Input → LexRes (Typed LExpr)) (f : Nat) (e₀ : Typed LExpr)
    (items : List Item) (r fin : Input)
    (hnc : isCombining e₀.node = false)
    (hncs : ∀ it ∈ items, isCombining it.2.node = false)
    (hty : ∀ it ∈ items, logicalTypesOk e₀.ty it.2.ty = true)
    (hU : Unfolds simple r items fin) (hf : 2 * items.length + 1 ≤ f) :
    climb simple f e₀ none (lexCombiningOp r) = .ok (⟨Lv 0 e₀ items, e₀.ty⟩, fin) := by
  cases items with
  | nil =>
    obtain ⟨rfl, hl⟩ := unfolds_nil hU
    obtain ⟨f', rfl⟩ : ∃ f', f = f' + 1 := by
      cases f with
      | zero => simp at hf
      | succ f' => exact ⟨f', rfl⟩
    rw [hl, climb_none, Lv_nil]
  | cons x items =>
    obtain ⟨o, e⟩ := x
    obtain ⟨mid, hUm, hcl⟩ := (climb_inner_spec simple f).1 none e₀ [] o e items [] 4 r fin hnc
      (by simp) (by simp) (by simp) (by simp [optPrec]) (by simp) hty hncs
      (by simpa using hU) (by simpa using hf)
    rw [typed_eta] at hcl
    obtain ⟨rfl, _⟩ := unfolds_nil hUm
    rw [hcl]
    simp [optPrec]

/-! ### from `Typed` operands to plain nodes -/

theorem chunksAux_map {α β : Type} (g : α → β) (o : LogicalOp) (its : List (LogicalOp × α)) :
    chunksAux o (its.map fun it => (it.1, g it.2)) =
      ((chunksAux o its).1.map (fun it => (it.1, g it.2)),
       (chunksAux o its).2.map (fun c => (g c.1, c.2.map fun it => (it.1, g it.2)))) := by
  induction its with
  | nil => rfl
  | cons x its ih =>
    obtain ⟨o1, e1⟩ := x
    by_cases h : o1 = o
    · simp [chunksAux, h, ih]
    · simp [chunksAux, h, ih]

theorem layeredAt_map {α β : Type} (g : α → β) (leaf : β → LExpr) (os : List LogicalOp) (e : α)
    (its : List (LogicalOp × α)) :
    layeredAt (fun x => leaf (g x)) os e its =
      layeredAt leaf os (g e) (its.map fun it => (it.1, g it.2)) := by
  induction os generalizing e its with
  | nil => rfl
  | cons o os ih =>
    simp only [layeredAt, chunks, chunksAux_map, List.map_cons, List.map_map]
    congr 2
    · exact ih _ _
    · apply List.map_congr_left
      intro c _
      exact ih _ _

theorem Lv_zero_eq_layered (e₀ : Typed LExpr) (items : List Item) :
    Lv 0 e₀ items = layered e₀.node (nodesOf items) := by
  unfold Lv layered nodesOf levelOps
  exact layeredAt_map (fun x : Typed LExpr => x.node) id _ e₀ items

/-! ### fuel -/

theorem stripPrefix_some (x p r : List Char) (h : stripPrefix x p = some r) : x = p ++ r := by
  induction p generalizing x with
  | nil => cases x <;> simp_all [stripPrefix]
  | cons c p ih =>
    cases x with
    | nil => simp [stripPrefix] at h
    | cons d x =>
      simp only [stripPrefix] at h
      split at h
      · rename_i hd; subst hd; simp [ih x h]
      · cases h

theorem lexEnum_some {α : Type} (tbl : List (String × α)) (x r : Input) (a : α)
    (h : lexEnum tbl x = some (a, r)) : ∃ s, (s, a) ∈ tbl ∧ x = s.toList ++ r := by
  induction tbl with
  | nil => simp [lexEnum] at h
  | cons p tbl ih =>
    obtain ⟨s, b⟩ := p
    simp only [lexEnum] at h
    split at h
    · rename_i rest hex
      simp only [Option.some.injEq, Prod.mk.injEq] at h
      obtain ⟨rfl, rfl⟩ := h
      exact ⟨s, List.mem_cons_self, stripPrefix_some _ _ _ hex⟩
    · obtain ⟨s', hm, hx⟩ := ih h
      exact ⟨s', List.mem_cons_of_mem _ hm, hx⟩

theorem skipSpace_length_le (x : Input) : (skipSpace x).length ≤ x.length := by
  induction x with
  | nil => simp [skipSpace]
  | cons c x ih =>
    simp only [skipSpace]
    split
    · simp only [List.length_cons]; omega
    · exact Nat.le_refl _

/-- a combining operator consumes at least its two characters -/
theorem lexCombiningOp_length (r inp : Input) (o : LogicalOp)
    (h : lexCombiningOp r = (some o, inp)) : inp.length + 2 ≤ r.length := by
  unfold lexCombiningOp at h
  split at h
  · rename_i op r1 hle
    simp only [Prod.mk.injEq, Option.some.injEq] at h
    obtain ⟨rfl, rfl⟩ := h
    obtain ⟨s, hm, hx⟩ := lexEnum_some _ _ _ _ hle
    have h1 := skipSpace_length_le r
    have h2 := skipSpace_length_le r1
    have h3 : 2 ≤ s.toList.length := by
      simp only [logicalOps, List.mem_cons, Prod.mk.injEq, List.not_mem_nil, or_false] at hm
      rcases hm with ⟨rfl, _⟩ | ⟨rfl, _⟩ | ⟨rfl, _⟩ | ⟨rfl, _⟩ | ⟨rfl, _⟩ | ⟨rfl, _⟩ <;> decide
    have h4 : (skipSpace r).length = s.toList.length + r1.length := by rw [hx]; simp
    omega
  · simp at h

theorem unfolds_length {simple : Input → LexRes (Typed LExpr)}
    (hsimple : ∀ inp e r', simple inp = .ok (e, r') → r'.length ≤ inp.length)
    {r fin : Input} {items : List Item} (h : Unfolds simple r items fin) :
    2 * items.length + fin.length ≤ r.length := by
  induction h with
  | done _ => simp
  | step hl hs _ ih =>
    have h1 := lexCombiningOp_length _ _ _ hl
    have h2 := hsimple _ _ _ hs
    simp only [List.length_cons]
    omega

/-! ### 5. `not` binds tightest -/

/-- `lex_simple_expr` once `lex_unary_op` has returned the operator -/
theorem simpleL_unaryOp (env : PEnv) (lw : Level) {input rest : Input} {u : Unit}
    (h0 : expect input "(" = none) (h : lexUnary env input = some (u, rest)) :
    simpleL env (some lw) input =
      match lw.simple (skipSpace rest) with
      | .error e => .error e
      | .ok (e, r) => .ok ({ node := .unaryNot e.node, ty := e.ty }, r) := by
  simp only [simpleL, h0, h]
  rfl

/-- `lex_simple_expr` when `lex_unary_op` declines (no operator, or the start of a registered
name): quantifier call, else comparison -/
theorem simpleL_noUnary (env : PEnv) (lower : Option Level) {input : Input}
    (h0 : expect input "(" = none) (h : lexUnary env input = none)
    (hq : lexQuantCall input = none) :
    simpleL env lower input = comparisonL env lower input := by
  simp only [simpleL, h0, h, hq]

/-- the word `not` is the operator when it is not glued to name characters, or when the
maximal dotted name starting at the `n` is not registered (`lex_unary_op`) -/
theorem simpleL_not (env : PEnv) (lw : Level) (x : Input)
    (hop : gluedTo x = false ∨ isRegistered env.scheme ('n' :: 'o' :: 't' :: x) = false) :
    simpleL env (some lw) ('n' :: 'o' :: 't' :: x) =
      match lw.simple (skipSpace x) with
      | .error e => .error e
      | .ok (e, r) => .ok ({ node := .unaryNot e.node, ty := e.ty }, r) :=
  simpleL_unaryOp env lw (by simp [expect, stripPrefix])
    ((lexUnary_eq_some_iff env _ x ()).mpr (.inr ⟨rfl, hop⟩))

theorem simpleL_bang (env : PEnv) (lw : Level) (x : Input) :
    simpleL env (some lw) ('!' :: x) =
      match lw.simple (skipSpace x) with
      | .error e => .error e
      | .ok (e, r) => .ok ({ node := .unaryNot e.node, ty := e.ty }, r) :=
  simpleL_unaryOp env lw (by simp [expect, stripPrefix]) (lexUnary_bang env x)

/-- the word `not` glued to the rest of a registered name is NOT the operator: the text is
read as a comparison that starts with that identifier (`notes == "x"` is the field `notes`) -/
theorem simpleL_not_registered (env : PEnv) (lower : Option Level) (x : Input)
    (hg : gluedTo x = true) (hr : isRegistered env.scheme ('n' :: 'o' :: 't' :: x) = true) :
    simpleL env lower ('n' :: 'o' :: 't' :: x) = comparisonL env lower ('n' :: 'o' :: 't' :: x) := by
  refine simpleL_noUnary env lower (by simp [expect, stripPrefix])
    ((lexUnary_eq_none_iff env _).mpr (.inr ⟨x, rfl, hg, hr⟩)) ?_
  simp [lexQuantCall, lexEnum, quantOps, expect, stripPrefix]

end WfModel
