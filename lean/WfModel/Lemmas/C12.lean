import WfModel.Model.Visitor

/-! Helper definitions and lemmas for C12 (`uses` / `uses_list`); no property statements. -/
namespace WfModel
namespace Spec

mutual
/-- every field index occurring anywhere in a logical expression (plain recursion over
*all* children, no early exit) -/
def fieldsL : LExpr → List Nat
  | .combining _ items => fieldsLs items
  | .comparison lhs _ => fieldsI lhs
  | .paren e => fieldsL e
  | .unaryNot e => fieldsL e
  | .quantifier _ a => fieldsQ a
def fieldsLs : List LExpr → List Nat
  | [] => []
  | e :: es => fieldsL e ++ fieldsLs es
/-- fields of an index expression: the field itself, or every argument of the call -/
def fieldsI : IExpr → List Nat
  | .field g _ => [g]
  | .call _ args _ _ => fieldsAs args
def fieldsAs : List AExpr → List Nat
  | [] => []
  | a :: as => fieldsA a ++ fieldsAs as
def fieldsA : AExpr → List Nat
  | .index e => fieldsI e
  | .literal _ => []
  | .logical e => fieldsL e
def fieldsQ : QArg → List Nat
  | .index e => fieldsI e
  | .logical e => fieldsL e
end

mutual
/-- fields occurring in the left-hand side (including nested call arguments of that
left-hand side) of some `in $list` comparison at any depth -/
def inListLhsFields : LExpr → List Nat
  | .combining _ items => inListLhsFieldsLs items
  | .comparison lhs op =>
    (if isInList op then fieldsI lhs else []) ++ inListLhsFieldsI lhs
  | .paren e => inListLhsFields e
  | .unaryNot e => inListLhsFields e
  | .quantifier _ a => inListLhsFieldsQ a
def inListLhsFieldsLs : List LExpr → List Nat
  | [] => []
  | e :: es => inListLhsFields e ++ inListLhsFieldsLs es
/-- comparisons nested inside the arguments of a call -/
def inListLhsFieldsI : IExpr → List Nat
  | .field _ _ => []
  | .call _ args _ _ => inListLhsFieldsAs args
def inListLhsFieldsAs : List AExpr → List Nat
  | [] => []
  | a :: as => inListLhsFieldsA a ++ inListLhsFieldsAs as
def inListLhsFieldsA : AExpr → List Nat
  | .index e => inListLhsFieldsI e
  | .literal _ => []
  | .logical e => inListLhsFields e
def inListLhsFieldsQ : QArg → List Nat
  | .index e => inListLhsFieldsI e
  | .logical e => inListLhsFields e
end

mutual
/-- every comparison node `(lhs, op)` at any depth: under logical operators, parentheses,
`not`, quantifiers, and inside function-call arguments (of left-hand sides too) -/
def comparisonsL : LExpr → List (IExpr × CmpOp)
  | .combining _ items => comparisonsLs items
  | .comparison lhs op => (lhs, op) :: comparisonsI lhs
  | .paren e => comparisonsL e
  | .unaryNot e => comparisonsL e
  | .quantifier _ a => comparisonsQ a
def comparisonsLs : List LExpr → List (IExpr × CmpOp)
  | [] => []
  | e :: es => comparisonsL e ++ comparisonsLs es
def comparisonsI : IExpr → List (IExpr × CmpOp)
  | .field _ _ => []
  | .call _ args _ _ => comparisonsAs args
def comparisonsAs : List AExpr → List (IExpr × CmpOp)
  | [] => []
  | a :: as => comparisonsA a ++ comparisonsAs as
def comparisonsA : AExpr → List (IExpr × CmpOp)
  | .index e => comparisonsI e
  | .literal _ => []
  | .logical e => comparisonsL e
def comparisonsQ : QArg → List (IExpr × CmpOp)
  | .index e => comparisonsI e
  | .logical e => comparisonsL e
end

/-- `f` occurs in the lhs of an `in $list` comparison among `cs` -/
def InListLhs (f : Nat) (cs : List (IExpr × CmpOp)) : Prop :=
  ∃ c ∈ cs, isInList c.2 = true ∧ f ∈ fieldsI c.1

end Spec

open Spec

/-! ### `UsesVisitor` = membership in the plain collection, for any incoming flag -/

mutual
theorem usesL_eq (f : Nat) (u : Bool) : ∀ e : LExpr,
    usesL f u e = (u || decide (f ∈ fieldsL e))
  | .combining _ items => by
    rw [usesL, fieldsL]; exact usesLs_eq f u items
  | .comparison lhs _ => by
    rw [usesL, fieldsL, usesI_eq f u lhs]; cases u <;> simp
  | .paren e => by
    rw [usesL, fieldsL, usesL_eq f u e]; cases u <;> simp
  | .unaryNot e => by
    rw [usesL, fieldsL, usesL_eq f u e]; cases u <;> simp
  | .quantifier _ a => by
    rw [usesL, fieldsL, usesQ_eq f u a]; cases u <;> simp
theorem usesLs_eq (f : Nat) (u : Bool) : ∀ es : List LExpr,
    usesLs f u es = (u || decide (f ∈ fieldsLs es))
  | [] => by simp [usesLs, fieldsLs]
  | e :: es => by
    rw [usesLs, fieldsLs, usesLs_eq f _ es, usesL_eq f u e]
    cases u <;> simp [List.mem_append, Bool.decide_or]
theorem usesI_eq (f : Nat) (u : Bool) : ∀ e : IExpr,
    usesI f u e = (u || decide (f ∈ fieldsI e))
  | .field g _ => by
    rw [usesI, fieldsI]
    by_cases h : g = f
    · simp [h]
    · have h' : ¬ f = g := fun x => h x.symm
      simp [h, h']
  | .call _ args _ _ => by
    rw [usesI, fieldsI, usesAs_eq f u args]; cases u <;> simp
theorem usesAs_eq (f : Nat) (u : Bool) : ∀ as : List AExpr,
    usesAs f u as = (u || decide (f ∈ fieldsAs as))
  | [] => by simp [usesAs, fieldsAs]
  | a :: as => by
    rw [usesAs, fieldsAs, usesAs_eq f _ as, usesA_eq f u a]
    cases u <;> simp [List.mem_append, Bool.decide_or]
theorem usesA_eq (f : Nat) (u : Bool) : ∀ a : AExpr,
    usesA f u a = (u || decide (f ∈ fieldsA a))
  | .index e => by
    rw [usesA, fieldsA, usesI_eq f u e]; cases u <;> simp
  | .literal _ => by simp [usesA, fieldsA]
  | .logical e => by
    rw [usesA, fieldsA, usesL_eq f u e]; cases u <;> simp
theorem usesQ_eq (f : Nat) (u : Bool) : ∀ a : QArg,
    usesQ f u a = (u || decide (f ∈ fieldsQ a))
  | .index e => by
    rw [usesQ, fieldsQ, usesI_eq f u e]; cases u <;> simp
  | .logical e => by
    rw [usesQ, fieldsQ, usesL_eq f u e]; cases u <;> simp
end

/-! ### `UsesListVisitor` -/

mutual
theorem usesListL_eq (f : Nat) (u : Bool) : ∀ e : LExpr,
    usesListL f u e = (u || decide (f ∈ inListLhsFields e))
  | .combining _ items => by
    rw [usesListL, inListLhsFields]; exact usesListLs_eq f u items
  | .comparison lhs op => by
    rw [usesListL, inListLhsFields]
    simp only [usesListI_eq f _ lhs, usesI_eq f false lhs]
    cases u <;> cases isInList op <;> by_cases h1 : f ∈ fieldsI lhs <;>
      by_cases h2 : f ∈ inListLhsFieldsI lhs <;> simp [h1, h2]
  | .paren e => by
    rw [usesListL, inListLhsFields, usesListL_eq f u e]; cases u <;> simp
  | .unaryNot e => by
    rw [usesListL, inListLhsFields, usesListL_eq f u e]; cases u <;> simp
  | .quantifier _ a => by
    rw [usesListL, inListLhsFields, usesListQ_eq f u a]; cases u <;> simp
theorem usesListLs_eq (f : Nat) (u : Bool) : ∀ es : List LExpr,
    usesListLs f u es = (u || decide (f ∈ inListLhsFieldsLs es))
  | [] => by simp [usesListLs, inListLhsFieldsLs]
  | e :: es => by
    rw [usesListLs, inListLhsFieldsLs, usesListLs_eq f _ es, usesListL_eq f u e]
    cases u <;> simp [List.mem_append, Bool.decide_or]
theorem usesListI_eq (f : Nat) (u : Bool) : ∀ e : IExpr,
    usesListI f u e = (u || decide (f ∈ inListLhsFieldsI e))
  | .field _ _ => by simp [usesListI, inListLhsFieldsI]
  | .call _ args _ _ => by
    rw [usesListI, inListLhsFieldsI, usesListAs_eq f u args]; cases u <;> simp
theorem usesListAs_eq (f : Nat) (u : Bool) : ∀ as : List AExpr,
    usesListAs f u as = (u || decide (f ∈ inListLhsFieldsAs as))
  | [] => by simp [usesListAs, inListLhsFieldsAs]
  | a :: as => by
    rw [usesListAs, inListLhsFieldsAs, usesListAs_eq f _ as, usesListA_eq f u a]
    cases u <;> simp [List.mem_append, Bool.decide_or]
theorem usesListA_eq (f : Nat) (u : Bool) : ∀ a : AExpr,
    usesListA f u a = (u || decide (f ∈ inListLhsFieldsA a))
  | .index e => by
    rw [usesListA, inListLhsFieldsA, usesListI_eq f u e]; cases u <;> simp
  | .literal _ => by simp [usesListA, inListLhsFieldsA]
  | .logical e => by
    rw [usesListA, inListLhsFieldsA, usesListL_eq f u e]; cases u <;> simp
theorem usesListQ_eq (f : Nat) (u : Bool) : ∀ a : QArg,
    usesListQ f u a = (u || decide (f ∈ inListLhsFieldsQ a))
  | .index e => by
    rw [usesListQ, inListLhsFieldsQ, usesListI_eq f u e]; cases u <;> simp
  | .logical e => by
    rw [usesListQ, inListLhsFieldsQ, usesListL_eq f u e]; cases u <;> simp
end

/-! ### `inListLhsFields` in terms of the comparison nodes -/

theorem InListLhs_nil (f : Nat) : ¬ InListLhs f [] := by
  simp [InListLhs]

theorem InListLhs_append (f : Nat) (a b : List (IExpr × CmpOp)) :
    InListLhs f (a ++ b) ↔ InListLhs f a ∨ InListLhs f b := by
  simp only [InListLhs, List.mem_append]
  constructor
  · rintro ⟨c, hc | hc, h⟩
    · exact Or.inl ⟨c, hc, h⟩
    · exact Or.inr ⟨c, hc, h⟩
  · rintro (⟨c, hc, h⟩ | ⟨c, hc, h⟩)
    · exact ⟨c, Or.inl hc, h⟩
    · exact ⟨c, Or.inr hc, h⟩

theorem InListLhs_cons (f : Nat) (c : IExpr × CmpOp) (b : List (IExpr × CmpOp)) :
    InListLhs f (c :: b) ↔ (isInList c.2 = true ∧ f ∈ fieldsI c.1) ∨ InListLhs f b := by
  simp [InListLhs]

mutual
theorem mem_inListL (f : Nat) : ∀ e : LExpr,
    f ∈ inListLhsFields e ↔ InListLhs f (comparisonsL e)
  | .combining _ items => by
    rw [inListLhsFields, comparisonsL]; exact mem_inListLs f items
  | .comparison lhs op => by
    rw [inListLhsFields, comparisonsL, InListLhs_cons, List.mem_append, mem_inListI f lhs]
    cases isInList op <;> simp
  | .paren e => by rw [inListLhsFields, comparisonsL]; exact mem_inListL f e
  | .unaryNot e => by rw [inListLhsFields, comparisonsL]; exact mem_inListL f e
  | .quantifier _ a => by rw [inListLhsFields, comparisonsL]; exact mem_inListQ f a
theorem mem_inListLs (f : Nat) : ∀ es : List LExpr,
    f ∈ inListLhsFieldsLs es ↔ InListLhs f (comparisonsLs es)
  | [] => by simp [inListLhsFieldsLs, comparisonsLs, InListLhs]
  | e :: es => by
    rw [inListLhsFieldsLs, comparisonsLs, InListLhs_append, List.mem_append,
      mem_inListL f e, mem_inListLs f es]
theorem mem_inListI (f : Nat) : ∀ e : IExpr,
    f ∈ inListLhsFieldsI e ↔ InListLhs f (comparisonsI e)
  | .field _ _ => by simp [inListLhsFieldsI, comparisonsI, InListLhs]
  | .call _ args _ _ => by rw [inListLhsFieldsI, comparisonsI]; exact mem_inListAs f args
theorem mem_inListAs (f : Nat) : ∀ as : List AExpr,
    f ∈ inListLhsFieldsAs as ↔ InListLhs f (comparisonsAs as)
  | [] => by simp [inListLhsFieldsAs, comparisonsAs, InListLhs]
  | a :: as => by
    rw [inListLhsFieldsAs, comparisonsAs, InListLhs_append, List.mem_append,
      mem_inListA f a, mem_inListAs f as]
theorem mem_inListA (f : Nat) : ∀ a : AExpr,
    f ∈ inListLhsFieldsA a ↔ InListLhs f (comparisonsA a)
  | .index e => by rw [inListLhsFieldsA, comparisonsA]; exact mem_inListI f e
  | .literal _ => by simp [inListLhsFieldsA, comparisonsA, InListLhs]
  | .logical e => by rw [inListLhsFieldsA, comparisonsA]; exact mem_inListL f e
theorem mem_inListQ (f : Nat) : ∀ a : QArg,
    f ∈ inListLhsFieldsQ a ↔ InListLhs f (comparisonsQ a)
  | .index e => by rw [inListLhsFieldsQ, comparisonsQ]; exact mem_inListI f e
  | .logical e => by rw [inListLhsFieldsQ, comparisonsQ]; exact mem_inListL f e
end

/-! ### list usage implies usage -/

mutual
theorem inList_subset_fields (f : Nat) : ∀ e : LExpr, f ∈ inListLhsFields e → f ∈ fieldsL e
  | .combining _ items => by
    rw [inListLhsFields, fieldsL]; exact inList_subset_fieldsLs f items
  | .comparison lhs op => by
    rw [inListLhsFields, fieldsL, List.mem_append]
    rintro (h | h)
    · cases hop : isInList op <;> simp [hop] at h; exact h
    · exact inList_subset_fieldsI f lhs h
  | .paren e => by rw [inListLhsFields, fieldsL]; exact inList_subset_fields f e
  | .unaryNot e => by rw [inListLhsFields, fieldsL]; exact inList_subset_fields f e
  | .quantifier _ a => by rw [inListLhsFields, fieldsL]; exact inList_subset_fieldsQ f a
theorem inList_subset_fieldsLs (f : Nat) : ∀ es : List LExpr,
    f ∈ inListLhsFieldsLs es → f ∈ fieldsLs es
  | [] => by simp [inListLhsFieldsLs]
  | e :: es => by
    rw [inListLhsFieldsLs, fieldsLs, List.mem_append, List.mem_append]
    rintro (h | h)
    · exact Or.inl (inList_subset_fields f e h)
    · exact Or.inr (inList_subset_fieldsLs f es h)
theorem inList_subset_fieldsI (f : Nat) : ∀ e : IExpr,
    f ∈ inListLhsFieldsI e → f ∈ fieldsI e
  | .field _ _ => by simp [inListLhsFieldsI]
  | .call _ args _ _ => by rw [inListLhsFieldsI, fieldsI]; exact inList_subset_fieldsAs f args
theorem inList_subset_fieldsAs (f : Nat) : ∀ as : List AExpr,
    f ∈ inListLhsFieldsAs as → f ∈ fieldsAs as
  | [] => by simp [inListLhsFieldsAs]
  | a :: as => by
    rw [inListLhsFieldsAs, fieldsAs, List.mem_append, List.mem_append]
    rintro (h | h)
    · exact Or.inl (inList_subset_fieldsA f a h)
    · exact Or.inr (inList_subset_fieldsAs f as h)
theorem inList_subset_fieldsA (f : Nat) : ∀ a : AExpr,
    f ∈ inListLhsFieldsA a → f ∈ fieldsA a
  | .index e => by rw [inListLhsFieldsA, fieldsA]; exact inList_subset_fieldsI f e
  | .literal _ => by simp [inListLhsFieldsA]
  | .logical e => by rw [inListLhsFieldsA, fieldsA]; exact inList_subset_fields f e
theorem inList_subset_fieldsQ (f : Nat) : ∀ a : QArg,
    f ∈ inListLhsFieldsQ a → f ∈ fieldsQ a
  | .index e => by rw [inListLhsFieldsQ, fieldsQ]; exact inList_subset_fieldsI f e
  | .logical e => by rw [inListLhsFieldsQ, fieldsQ]; exact inList_subset_fields f e
end

/-! ### name resolution -/

theorem getField_none_of_func (s : Scheme) (name : List Char) (i : Nat)
    (h : s.get name = some (.func i)) : s.getField name = none := by
  simp [Scheme.getField, h]

theorem getField_some_iff (s : Scheme) (name : List Char) (i : Nat) :
    s.getField name = some i ↔ s.get name = some (.field i) := by
  unfold Scheme.getField
  split <;> simp_all

end WfModel
