import WfModel.Lemmas.C06Base
import WfModel.Lemmas.C06Int
import WfModel.Lemmas.C06Bytes
import WfModel.Lemmas.C06Utf8
import WfModel.Lemmas.C06Key
import WfModel.Lemmas.C06Ip
import WfModel.Lemmas.C06Brace
import WfModel.Lemmas.C06V6

/-! Helper lemmas for C06 (literals), split by literal kind:
`C06Base` digit rendering / scanner primitives, `C06Int` integers, ranges, indexes,
`C06Bytes` quoted / raw / hex-pair byte strings, `C06Utf8` UTF-8 codec, `C06Key` map keys and
`lexBytes` corollaries, `C06Ip` addresses, CIDRs and address ranges, `C06Brace` the `{…}` item loop,
`C06V6` the std `Display` form of IPv6 addresses (`::` compression, `::ffff:a.b.c.d`) read back by
the parser model (uses the printer-side lemmas of `C07/Str`). -/
