import WfModel.Drv.RangeSet
import WfModel.Drv.TyEnc
import WfModel.Drv.Scheme
import WfModel.Drv.Ctx
import WfModel.Drv.Search
import WfModel.Drv.Wild
import WfModel.Drv.Rx
import WfModel.Drv.PanicCatcher
import WfModel.Drv.CApi
import WfModel.Drv.CtxSerde
import WfModel.Drv.Core
/-!
Line-protocol driver: one request per line on stdin, one answer per line on stdout.
Unknown / malformed requests answer `bad-op` (never a default value).
-/
open WfModel

/-- stateless handlers (one self-contained request per line) -/
def handlers : List (List String → Option String) :=
  [ Drv.RangeSet.handle, Drv.TyEnc.handle, Drv.Scheme.handle, Drv.Ctx.handle,
    Drv.Search.handle, Drv.Rx.handle, Drv.Wild.handle, Drv.PanicCatcher.handle, Drv.CApi.handle,
    Drv.CtxSerde.handle ]

def dispatch (st : Drv.Core.St) (ws : List String) : Drv.Core.St × String :=
  match Drv.Core.step st ws with
  | some r => r
  | none =>
    -- `oracle ...`: a verdict established harness-side against the property text; the
    -- implementation side answers `ok` iff the oracle is satisfied
    if ws.head? = some "oracle" then (st, "ok") else
    match handlers.findSome? (fun h => h ws) with
    | some r => (st, r)
    | none => (st, "bad-op")

partial def loop (h : IO.FS.Stream) (out : IO.FS.Stream) (st : Drv.Core.St) : IO Unit := do
  let line ← h.getLine
  if line.isEmpty then return ()
  let ws := (line.trimAscii.toString.splitOn " ").filter (· ≠ "")
  let (st', ans) := dispatch st ws
  out.putStrLn ans
  loop h out st'

def main : IO Unit := do
  let out ← IO.getStdout
  loop (← IO.getStdin) out {}
  out.flush
