import WfModel.Drv.RangeSet
/-!
Line-protocol driver: one request per line on stdin, one answer per line on stdout.
Unknown / malformed requests answer `bad-op` (never a default value).
-/
open WfModel

def handlers : List (List String → Option String) :=
  [ Drv.RangeSet.handle ]

def dispatch (ws : List String) : String :=
  match handlers.findSome? (fun h => h ws) with
  | some r => r
  | none => "bad-op"

partial def loop (h : IO.FS.Stream) (out : IO.FS.Stream) : IO Unit := do
  let line ← h.getLine
  if line.isEmpty then return ()
  let ws := (line.trimAscii.toString.splitOn " ").filter (· ≠ "")
  out.putStrLn (dispatch ws)
  loop h out

def main : IO Unit := do
  let out ← IO.getStdout
  loop (← IO.getStdin) out
  out.flush
