"""C20 anchors: constants and per-wrapper status arms of the C API (ffi/src/cstring.rs,
ffi/src/lib.rs) -> WfModel/Generated.lean.  Loaded by bin/extract.py (`register(mod)`)."""
import re

LIB = "ffi/src/lib.rs"
PANIC_ARM_WRAPPERS = [
    "wirefilter_parse_filter",
    "wirefilter_compile_filter",
    "wirefilter_match",
    "wirefilter_filter_uses",
    "wirefilter_filter_uses_list",
]
UTF8_ARM_WRAPPERS = ["wirefilter_parse_filter", "wirefilter_filter_uses", "wirefilter_filter_uses_list"]


def register(mod):
    def fn_body(text, name):
        """source of `pub extern "C" fn name ... \n}` (comment-stripped text), or None"""
        ms = list(re.finditer(r'pub extern "C" fn ' + re.escape(name) + r"\b", text))
        if len(ms) != 1:
            mod.problems.append(f"c20 wrapper {name}: expected exactly one definition in {LIB}, found {len(ms)}")
            return None
        start = ms[0].start()
        end = text.find("\n}\n", start)
        if end < 0:
            mod.problems.append(f"c20 wrapper {name}: end of function not found")
            return None
        mod.report[f"c20.{name}"] = {"file": LIB, "line": text.count("\n", 0, start) + 1}
        return text[start : end + 3]

    def consts_of(text, ty, flag):
        m = re.search(r"impl " + ty + r" \{(.*?)\n\}", text, re.S)
        if not m:
            mod.problems.append(f"c20 {ty} constants: impl block not found in {LIB}")
            return {}
        out = {}
        for c in re.finditer(
            r"const (\w+): Self = Self \{\s*status: Status::(\w+),\s*" + flag + r": (true|false),\s*\};", m.group(1)
        ):
            out[c.group(1)] = (c.group(2), c.group(3))
        mod.report[f"c20.{ty}"] = {"file": LIB, "line": text.count("\n", 0, m.start()) + 1}
        return out

    def emit(L):
        S = mod.lean_str
        # --- SUBSTITUTE_BYTE
        m = mod.one("ffi/src/cstring.rs", r"const SUBSTITUTE_BYTE: u8 = (0x[0-9a-fA-F]+|\d+);", "c20.substituteByte")
        if m:
            L.append("/-- `SUBSTITUTE_BYTE` (ffi/src/cstring.rs) -/")
            L.append(f"def substituteByte : Nat := {int(m.group(1), 0)}")
            L.append("")
        text = mod.strip_comments(mod.src(LIB))
        # --- Status discriminants (repr(C): implicit = previous + 1)
        m = mod.one(LIB, r"pub enum Status \{(.*?)\n\}", "c20.Status")
        if m:
            rows, nxt = [], 0
            for v in re.finditer(r"(\w+)\s*(?:=\s*(\d+))?\s*,", m.group(1)):
                if v.group(2) is not None:
                    nxt = int(v.group(2))
                rows.append((v.group(1), nxt))
                nxt += 1
            L.append("/-- `enum Status` variants with their discriminants, in source order -/")
            L.append("def statusDiscriminants : List (String × Nat) := [" + ", ".join(f"({S(n)}, {d})" for n, d in rows) + "]")
            L.append("")
        # --- result constants
        mc = consts_of(text, "MatchingResult", "matched")
        uc = consts_of(text, "UsingResult", "used")
        for lean, table, key, what in [
            ("matchingResultError", mc, "ERROR", "MatchingResult::ERROR"),
            ("matchingResultPanic", mc, "PANIC", "MatchingResult::PANIC"),
            ("usingResultError", uc, "ERROR", "UsingResult::ERROR"),
            ("usingResultPanic", uc, "PANIC", "UsingResult::PANIC"),
        ]:
            if key not in table:
                mod.problems.append(f"c20 {what}: constant not found in {LIB}")
                continue
            st, fl = table[key]
            L.append(f"/-- `{what}` as (status variant, flag) -/")
            L.append(f"def {lean} : String × Bool := ({S(st)}, {fl})")
        L.append("")
        consts = {"MatchingResult": mc, "UsingResult": uc}

        def resolve(m, name, what):
            if m is None:
                mod.problems.append(f"c20 {what} of {name}: arm not found")
                return None
            if m.group(3):
                return m.group(3)
            ty, c = m.group(1), m.group(2)
            if ty in consts and c in consts[ty]:
                return consts[ty][c][0]
            mod.problems.append(f"c20 {what} of {name}: cannot resolve {ty}::{c}")
            return None

        tail = r"(?:(\w+)::(\w+)\b|\w+ \{\s*status: Status::(\w+))"
        # --- status returned from the `Err(err)` arm of catch_panic
        rows = []
        for name in PANIC_ARM_WRAPPERS:
            body = fn_body(text, name)
            if body is None:
                continue
            ms = list(re.finditer(r'(?<![(\w])Err\(err\) => \{\s*write_last_error!\("\{\}", err\);\s*' + tail, body))
            st = resolve(ms[0] if len(ms) == 1 else None, name, "panic arm")
            if st:
                rows.append((name, st))
        L.append("/-- status each wrapper returns from the `Err(panic text)` arm of `catch_panic` -/")
        L.append("def panicArmStatus : List (String × String) := [" + ", ".join(f"({S(a)}, {S(b)})" for a, b in rows) + "]")
        L.append("")
        # --- status returned by to_str! on invalid UTF-8 (wrappers returning a struct)
        rows = []
        for name in UTF8_ARM_WRAPPERS:
            body = fn_body(text, name)
            if body is None:
                continue
            ms = list(re.finditer(r"to_str!\(\s*\w+,\s*\w+,\s*" + tail, body))
            st = resolve(ms[0] if len(ms) == 1 else None, name, "utf-8 arm")
            if st:
                rows.append((name, st))
        L.append("/-- status each struct-returning wrapper passes to `to_str!` for invalid UTF-8 -/")
        L.append("def utf8ArmStatus : List (String × String) := [" + ", ".join(f"({S(a)}, {S(b)})" for a, b in rows) + "]")
        L.append("")
        # --- wrappers whose body ends in `.is_ok()` (engine error dropped, LAST_ERROR untouched)
        silent = []
        for fm in re.finditer(r'pub extern "C" fn (\w+)\b', text):
            end = text.find("\n}\n", fm.start())
            body = text[fm.start() : end] if end > 0 else ""
            if re.search(r"\.is_ok\(\)\s*$", body):
                silent.append(fm.group(1))
        mod.report["c20.silentBoolWrappers"] = {"file": LIB, "line": 0, "count": len(silent)}
        L.append("/-- exported functions whose body ends in `.is_ok()`, in source order -/")
        L.append("def silentBoolWrappers : List String := [" + ", ".join(S(n) for n in silent) + "]")
        L.append("")

    mod.EXTRA.append(emit)
