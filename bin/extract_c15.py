"""C15 extractor anchors: CompoundType / CType bit conventions, the layer limit, the C primitive
codes, PrimitiveType variant names, SerdeField keys.  Emitted into Generated.lean and pinned
by `WfModel.C15.source_constants` against the constants the model is written with."""
import re


def register(mod):
    one, lean_str, lean_list = mod.one, mod.lean_str, mod.lean_list

    def pairs(rows):
        return lean_list(["(" + lean_str(a) + ", " + str(int(b)) + ")" for a, b in rows])

    def emit(L):
        T, F = "engine/src/types.rs", "ffi/src/lib.rs"
        # --- engine: push limit, layer bits, shift; pop mask / comparison / shift / branches
        m_lim = one(T, r"const fn push\(mut self, layer: Layer\) -> Option<Self> \{\s*if self\.len (\S+) (\d+) \{\s*None\s*\}", "c15.compoundPushLimit")
        m_bits = one(T, r"let layer = match layer \{\s*Layer::(\w+) => (\d+),\s*Layer::(\w+) => (\d+),\s*\};\s*self\.layers = \(self\.layers << (\d+)\) \| layer;\s*self\.len \+= (\d+);", "c15.compoundPushBits")
        m_pop = one(
            T,
            r"const fn pop\(mut self\) -> \(Self, Option<Layer>\) \{\s*if self\.len > 0 \{\s*let (\w+) = \(self\.layers & (\d+)\) == (\d+);\s*"
            r"self\.layers >>= (\d+);\s*self\.len -= (\d+);\s*if \1 \{\s*\(self, Some\(Layer::(\w+)\)\)\s*\} else \{\s*\(self, Some\(Layer::(\w+)\)\)",
            "c15.compoundPop",
        )
        m_prim = one(T, r"enum PrimitiveType \{([^}]*)\}", "c15.primitiveType")
        # --- ffi twin
        m_cbits = one(F, r"const fn push\(mut self, layer: Layer\) -> CType \{\s*let layer = match layer \{\s*Layer::(\w+) => (\d+),\s*Layer::(\w+) => (\d+),\s*\};\s*self\.layers = \(self\.layers << (\d+)\) \| layer;\s*self\.len \+= (\d+);\s*self\s*\}", "c15.cPushBits")
        m_cpop = one(
            F,
            r"const fn pop\(mut self\) -> \(Self, Option<Layer>\) \{\s*if self\.len > 0 \{\s*let (\w+) = \(self\.layers & (\d+)\) == (\d+);\s*"
            r"self\.layers >>= (\d+);\s*self\.len -= (\d+);\s*if \1 \{\s*\(self, Some\(Layer::(\w+)\)\)\s*\} else \{\s*\(self, Some\(Layer::(\w+)\)\)",
            "c15.cPop",
        )
        m_codes = one(F, r"pub enum CPrimitiveType \{([^}]*)\}", "c15.cPrimCodes")
        m_ctype = one(F, r"pub struct CType \{\s*pub layers: (\w+),\s*pub len: (\w+),\s*pub primitive: (\w+),\s*\}", "c15.cTypeStruct")
        m_ct = one(T, r"pub struct CompoundType \{\s*layers: (\w+),\s*len: (\w+),\s*primitive: (\w+),\s*\}", "c15.compoundStruct")
        # --- scheme JSON keys
        m_sf = one("engine/src/scheme.rs", r"struct SerdeField \{\s*#\[serde\(rename = \"(\w+)\"\)\]\s*ty: Type,\s*(\w+): bool,\s*\}", "c15.serdeField")
        if not all([m_lim, m_bits, m_pop, m_prim, m_cbits, m_cpop, m_codes, m_ctype, m_ct, m_sf]):
            return
        L.append("/-- C15: `CompoundType::push` refuses when `self.len <op> <n>` (types.rs). -/")
        L.append(f"def compoundPushLimit : String × Nat := ({lean_str(m_lim.group(1))}, {int(m_lim.group(2))})")
        L.append("/-- C15: layer → bit in `CompoundType::push`; then shift amount and `len` increment. -/")
        L.append("def compoundLayerBits : List (String × Nat) := " + pairs([(m_bits.group(1), m_bits.group(2)), (m_bits.group(3), m_bits.group(4))]))
        L.append(f"def compoundPushShift : Nat × Nat := ({int(m_bits.group(5))}, {int(m_bits.group(6))})")
        L.append("/-- C15: `CompoundType::pop`: mask, compared-to, shift, `len` decrement; layer when the test holds / fails. -/")
        L.append(f"def compoundPop : List Nat × String × String := ([{int(m_pop.group(2))}, {int(m_pop.group(3))}, {int(m_pop.group(4))}, {int(m_pop.group(5))}], {lean_str(m_pop.group(6))}, {lean_str(m_pop.group(7))})")
        L.append("/-- C15: field types of `struct CompoundType`. -/")
        L.append("def compoundStruct : List String := " + lean_list([lean_str(m_ct.group(i)) for i in (1, 2, 3)]))
        prims = re.findall(r"\b([A-Z]\w*)\s*,", m_prim.group(1))
        L.append("/-- C15: `enum PrimitiveType` variants in declaration order. -/")
        L.append("def primitiveTypeVariants : List String := " + lean_list([lean_str(p) for p in prims]))
        L.append("/-- C15: the same for the C twin (`ffi/src/lib.rs`). -/")
        L.append("def cLayerBits : List (String × Nat) := " + pairs([(m_cbits.group(1), m_cbits.group(2)), (m_cbits.group(3), m_cbits.group(4))]))
        L.append(f"def cPushShift : Nat × Nat := ({int(m_cbits.group(5))}, {int(m_cbits.group(6))})")
        L.append(f"def cPop : List Nat × String × String := ([{int(m_cpop.group(2))}, {int(m_cpop.group(3))}, {int(m_cpop.group(4))}, {int(m_cpop.group(5))}], {lean_str(m_cpop.group(6))}, {lean_str(m_cpop.group(7))})")
        L.append("def cTypeStruct : List String := " + lean_list([lean_str(m_ctype.group(i)) for i in (1, 2, 3)]))
        codes = re.findall(r"(\w+)\s*=\s*(\d+)u8", m_codes.group(1))
        L.append("/-- C15: `#[repr(u8)] enum CPrimitiveType`. -/")
        L.append("def cPrimCodes : List (String × Nat) := " + pairs(codes))
        L.append("/-- C15: JSON keys of `SerdeField` (scheme.rs). -/")
        L.append("def serdeFieldKeys : List String := " + lean_list([lean_str(m_sf.group(1)), lean_str(m_sf.group(2))]))
        L.append("")

    mod.EXTRA.append(emit)
