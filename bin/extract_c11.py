"""C11 translator anchors: wildcard builder flags, validation order, operator -> Wildcard<STRICT>
wiring, regex syntax flags, and the shape of the quoted-regex scanner's escape arm."""
import re


def register(mod):
    def emit(L):
        w = "engine/src/rhs_types/wildcard.rs"
        m = mod.one(
            w,
            r"let wildcard = wildcard::WildcardBuilder::from_owned\(pattern\.to_vec\(\)\)((?:\s*\.\w+\([^)]*\))+)\s*\.build\(\)\?;\s*"
            r"validate_wildcard\(&wildcard, wildcard_star_limit\)\?;",
            "wildcardBuilder",
        )
        v = mod.one(
            w,
            r"fn validate_wildcard\(.*?\) -> Result<\(\), WildcardError> \{\s*let star_count = wildcard\.metasymbol_count\(\);\s*"
            r"if (star_count > wildcard_star_limit) \{\s*return Err\(WildcardError::TooManyStarMetacharacters \{.*?\}\);\s*\}\s*"
            r"if (has_double_star)\(wildcard\) \{\s*return Err\(WildcardError::DoubleStar\);\s*\}\s*Ok\(\(\)\)\s*\}",
            "wildcardValidate",
        )
        f = "engine/src/ast/field_expr.rs"
        wiring = []
        for name in ("Wildcard", "StrictWildcard"):
            mm = mod.one(f, r"\n\s*" + name + r"\(Wildcard<(\w+)>\),", "wildcardWiring" + name)
            if mm:
                wiring.append((name, mm.group(1)))
        lexarm = mod.one(
            f,
            r"BytesOp::Wildcard => \{\s*let \(wildcard, input\) = Wildcard::lex_with\(input, parser\)\?;\s*\(ComparisonOpExpr::Wildcard\(wildcard\), input\)\s*\}\s*"
            r"BytesOp::StrictWildcard => \{\s*let \(wildcard, input\) = Wildcard::lex_with\(input, parser\)\?;\s*\(ComparisonOpExpr::StrictWildcard\(wildcard\), input\)\s*\}",
            "wildcardLexArms",
        )
        ops = mod.one(f, r'"wildcard" => Wildcard,\s*"strict wildcard" => StrictWildcard,', "wildcardOpNames")
        r = mod.one(
            "engine/src/rhs_types/regex/imp_real.rs",
            r"fn syntax_config\(\) -> regex_automata::util::syntax::Config \{\s*regex_automata::util::syntax::Config::new\(\)((?:\s*\.\w+\(\w+\))+)\s*\}",
            "regexSyntaxConfig",
        )
        sc = mod.one(
            "engine/src/rhs_types/regex/mod.rs",
            r"'\\\\' => \{\s*if let Some\(c\) = iter\.next\(\) \{\s*if in_char_class \|\| c != '\"' \{\s*regex_buf\.push\('\\\\'\);\s*\}\s*regex_buf\.push\(c\);\s*\}\s*\}\s*"
            r"'\"' if !in_char_class => \{\s*break \(span\(input, before_char\), iter\.as_str\(\)\);\s*\}\s*"
            r"'\[' if !in_char_class => \{\s*in_char_class = true;\s*regex_buf\.push\('\['\);\s*\}\s*"
            r"'\]' if in_char_class => \{\s*in_char_class = false;\s*regex_buf\.push\('\]'\);\s*\}\s*"
            r"c => \{\s*regex_buf\.push\(c\);\s*\}",
            "regexQuotedScannerArms",
        )
        im = mod.one(
            "engine/src/rhs_types/regex/imp_real.rs",
            r"pub fn is_match\(&self, input: &\[u8\]\) -> bool \{\s*(self\.regex\.is_match\(input\))\s*\}",
            "regexIsMatch",
        )
        if not (m and v and len(wiring) == 2 and lexarm and ops and r and sc and im):
            return
        flags = [re.sub(r"\s+", "", x) for x in re.findall(r"\.(\w+\([^)]*\))", m.group(1))]
        L.append("/-- builder calls between `WildcardBuilder::from_owned` and `.build()` -/")
        L.append("def wildcardBuilder : List String := " + mod.lean_list([mod.lean_str(x.replace("()", "")) for x in flags]))
        L.append("/-- `validate_wildcard`: the two checks in source order -/")
        L.append("def wildcardValidateOrder : List String := " + mod.lean_list([mod.lean_str(v.group(1)), mod.lean_str(v.group(2))]))
        L.append("/-- `ComparisonOpExpr` variant ↦ const parameter of its `Wildcard<…>` payload -/")
        L.append("def wildcardOpWiring : List (String × String) := " + mod.lean_list([f"({mod.lean_str(a)}, {mod.lean_str(b)})" for a, b in wiring]))
        sflags = re.findall(r"\.(\w+)\((\w+)\)", r.group(1))
        L.append("/-- `Regex::syntax_config()` -/")
        L.append("def regexSyntaxFlags : List (String × String) := " + mod.lean_list([f"({mod.lean_str(a)}, {mod.lean_str(b)})" for a, b in sflags]))
        L.append("/-- body of `Regex::is_match` -/")
        L.append("def regexSearchCall : String := " + mod.lean_str(im.group(1)))
        L.append("")

    mod.EXTRA.append(emit)
