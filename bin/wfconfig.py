"""Loads the per-property configuration files bin/props/Cxx.py (PROP: theorem modules,
correspondence streams, evidence wording; TEXT: MANIFEST wording).  Counts in evidence are
measured at run time, never taken from here."""
import glob
import importlib.util
import os

_here = os.path.dirname(os.path.abspath(__file__))
PROPS = {}
TEXT = {}
for _p in sorted(glob.glob(os.path.join(_here, "props", "C*.py"))):
    _id = os.path.basename(_p)[:-3]
    _spec = importlib.util.spec_from_file_location("wfprops_" + _id, _p)
    _m = importlib.util.module_from_spec(_spec)
    _spec.loader.exec_module(_m)
    PROPS[_id] = _m.PROP
    TEXT[_id] = _m.TEXT
