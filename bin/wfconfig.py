"""Per-property configuration of bin/check: theorem modules, correspondence streams,
evidence wording.  Counts in evidence are measured at run time, never taken from here."""

COMMON_TRUST = [
    "Lean 4.33.0 kernel (thorough tier re-checks the compiled module with leanchecker)",
    "axioms: propext, Classical.choice, Quot.sound only (audited per theorem on every run); no native_decide, no bv_decide, no sorry",
    "bin/extract.py (regex-level translator of tables/constants from /repo into WfModel/Generated.lean)",
    "the Rust correspondence harness /verif/harness and its generators (sampling: bounds what is seen of the code)",
    "the hand-written Lean model is tied to the code only by that correspondence and by the extracted tables",
]

PROPS = {
    "C09": {
        "modules": ["WfModel.Props.C09"],
        "streams": [{"name": "inset", "shards": {"quick": 4, "thorough": 16}}],
        "rule": "cases = (brace list, probe) pairs executed through real `field in {...}` filters: every list of <=3 (quick) / <=4 (thorough) ranges over a 7-point integer domain x 9 probes, every list of <=2/<=3 items (explicit ranges and CIDRs) over an 8-address IPv4 and IPv6 block x 10 probes, random lists of <=40 items clustered around each other and the type extremes, byte-string sets; non-trivial = list has >=2 items of which two overlap, touch or nest (bytes: >=2 items); distinct by (list, probe)",
        "trusted_base": COMMON_TRUST + [
            "modelled, not verified: Rust std sort_unstable_by_key (any start-sorted permutation; theorem quantifies over all), Vec::dedup_by, slice::binary_search_by (modelled as a halving search), BTreeSet::contains, the cidr crate's first_address/last_address, IpAddr/i64 literal parsing (rendered by the harness)",
        ],
        "assumptions": [
            "std::binary_search_by returns Ok iff some element compares Equal on a slice partitioned Less*/Equal*/Greater* (proved for the merged list)",
            "closure compilation is modelled as direct evaluation",
        ],
    },
}
