"""C17 anchors: the literal answers of the two built-in list matchers
(`engine/src/list_matcher.rs`, `impl ListMatcher for AlwaysListMatcher / NeverListMatcher`,
body of `match_value`) -> `alwaysAnswer`, `neverAnswer : Bool` in Generated.lean."""


def _answer(mod, matcher, what):
    m = mod.one(
        "engine/src/list_matcher.rs",
        r"impl\s+ListMatcher\s+for\s+" + matcher + r"\s*\{\s*"
        r"fn\s+match_value\s*\(\s*&self\s*,\s*_\w*\s*:\s*&str\s*,\s*_\w*\s*:\s*&LhsValue<'_>\s*\)\s*->\s*bool\s*\{\s*"
        r"(?:return\s+)?(true|false)\s*;?\s*\}",
        what,
    )
    return m.group(1) if m else None


def register(mod):
    def emit(L):
        a = _answer(mod, "AlwaysListMatcher", "alwaysAnswer")
        n = _answer(mod, "NeverListMatcher", "neverAnswer")
        if a is None or n is None:
            return
        L.append("/-- the literal returned by `AlwaysListMatcher::match_value` (list_matcher.rs) -/")
        L.append("def alwaysAnswer : Bool := " + a)
        L.append("/-- the literal returned by `NeverListMatcher::match_value` (list_matcher.rs) -/")
        L.append("def neverAnswer : Bool := " + n)
        L.append("")

    mod.EXTRA.append(emit)
