"""C07 anchors for bin/extract.py (self-contained; see `register`).

Emits into WfModel/Generated.lean:
  * c07SpaceChars        — `SPACE_CHARS` of engine/src/lex.rs (what `skip_space` trims)
  * c07SerializerOps     — for every `#[serde(serialize_with = "f")] Variant` of
                           `ComparisonOpExpr` (engine/src/ast/field_expr.rs, source order) the pair
                           (variant, the "op" string literal the function `f` writes)
  * c07StructVariants    — the derived (struct-like) variants of `ComparisonOpExpr` with their
                           field names and types in order (`Ordering {op, rhs}`, `Int {op, rhs}`);
                           their "op" is the derived `Serialize` of a `lex_enum!` enum = variant name
  * c07LexEnumDerivesSerialize — `lex_enum!` puts `Serialize` in the derive list of the enum
The `lex_enum!` tables themselves are extracted elsewhere (C01).
"""
import re

_ESC = {"n": 10, "r": 13, "t": 9, "\\": 92, "'": 39, '"': 34, "0": 0}


def _rust_char(lit):
    """code point of the inside of a Rust char literal"""
    if len(lit) == 1:
        return ord(lit)
    if lit[0] == "\\":
        if lit[1] in _ESC and len(lit) == 2:
            return _ESC[lit[1]]
        m = re.fullmatch(r"\\x([0-9a-fA-F]{2})", lit)
        if m:
            return int(m.group(1), 16)
        m = re.fullmatch(r"\\u\{([0-9a-fA-F_]{1,8})\}", lit)
        if m:
            return int(m.group(1).replace("_", ""), 16)
    return None


def _lean_char(cp):
    if cp == 10:
        return "'\\n'"
    if cp == 13:
        return "'\\r'"
    if cp == 9:
        return "'\\t'"
    if cp == 39:
        return "'\\''"
    if cp == 92:
        return "'\\\\'"
    if 32 <= cp < 127:
        return "'" + chr(cp) + "'"
    return f"(Char.ofNat {cp})"


def register(mod):
    def emit(L):
        # ---- SPACE_CHARS ----------------------------------------------------------------
        m = mod.one(
            "engine/src/lex.rs",
            r"const SPACE_CHARS: &\[char\] = &\[(.*?)\];\s*pub fn skip_space\(input: &str\) -> &str \{\s*"
            r"input\.trim_start_matches\(SPACE_CHARS\)\s*\}",
            "c07SpaceChars",
        )
        if m:
            lits = re.findall(r"'((?:\\.[^']*|[^'\\]))'", m.group(1))
            leftover = re.sub(r"'((?:\\.[^']*|[^'\\]))'", "", m.group(1)).replace(",", "").strip()
            cps = [_rust_char(x) for x in lits]
            if leftover or not lits or any(c is None for c in cps):
                mod.problems.append("c07SpaceChars: could not parse the char list " + repr(m.group(1)))
            else:
                L.append("/-- `SPACE_CHARS` (engine/src/lex.rs): the characters `skip_space` trims. -/")
                L.append("def c07SpaceChars : List Char := " + mod.lean_list([_lean_char(c) for c in cps]))
                L.append("")

        # ---- ComparisonOpExpr serializers ------------------------------------------------
        path = "engine/src/ast/field_expr.rs"
        m = mod.one(path, r"#\[serde\(untagged\)\]\s*pub enum ComparisonOpExpr \{(.*?)\n\}", "c07ComparisonOpExpr")
        if m:
            body = m.group(1)
            text = mod.strip_comments(mod.src(path))
            pairs = []
            ok = True
            for v in re.finditer(r'#\[serde\(serialize_with = "(\w+)"\)\]\s*(\w+)', body):
                fn, variant = v.group(1), v.group(2)
                fm = list(re.finditer(r"fn " + fn + r"\b[^{]*\{(.*?)\n\}", text, re.S))
                if len(fm) != 1:
                    mod.problems.append(f"c07SerializerOps: serializer fn {fn} not found exactly once")
                    ok = False
                    continue
                fb = fm[0].group(1)
                ops = re.findall(r'serialize_op_rhs\(\s*"([^"]*)"', fb) + re.findall(
                    r'serialize_field\(\s*"op"\s*,\s*"([^"]*)"\s*\)', fb
                )
                if len(ops) != 1:
                    mod.problems.append(f"c07SerializerOps: {fn} does not write exactly one literal op name")
                    ok = False
                    continue
                pairs.append((variant, ops[0]))
            # the shared helper must write the keys "op" then "rhs"
            hm = list(
                re.finditer(
                    r"fn serialize_op_rhs<.*?\{.*?serialize_struct\(\"ComparisonOpExpr\", 2\)\?;\s*"
                    r"out\.serialize_field\(\"op\", op\)\?;\s*out\.serialize_field\(\"rhs\", rhs\)\?;\s*out\.end\(\)",
                    text,
                    re.S,
                )
            )
            if len(hm) != 1:
                mod.problems.append("c07SerializerOps: serialize_op_rhs does not have the expected shape")
                ok = False
            if ok and pairs:
                L.append("/-- `ComparisonOpExpr` variants with a hand-written serializer (field_expr.rs, source")
                L.append("order): (variant, the `\"op\"` string it writes; keys are `op` then `rhs`). -/")
                L.append(
                    "def c07SerializerOps : List (String × String) := "
                    + mod.lean_list(["(" + mod.lean_str(a) + ", " + mod.lean_str(b) + ")" for a, b in pairs])
                )
                L.append("")
            # struct-like variants (derived Serialize, untagged => just the fields in order)
            structs = []
            for v in re.finditer(r"(?:^|\n)\s*(\w+) \{(.*?)\n    \},", body, re.S):
                if re.search(r'#\[serde\(serialize_with = "\w+"\)\]\s*$', body[: v.start(1)]):
                    continue
                fields = re.findall(r"(\w+): ([\w<>]+),", v.group(2))
                structs.append((v.group(1), fields))
            if structs:
                L.append("/-- struct-like `ComparisonOpExpr` variants with derived `Serialize` (untagged: the")
                L.append("fields in order): (variant, [(field, type)]). -/")
                L.append(
                    "def c07StructVariants : List (String × List (String × String)) := "
                    + mod.lean_list(
                        [
                            "(" + mod.lean_str(n) + ", "
                            + mod.lean_list(["(" + mod.lean_str(a) + ", " + mod.lean_str(b) + ")" for a, b in fs])
                            + ")"
                            for n, fs in structs
                        ]
                    )
                )
                L.append("")
            else:
                mod.problems.append("c07StructVariants: no struct-like variant found in ComparisonOpExpr")

        # ---- lex_enum! derives Serialize (operator enums print as their variant name) -----
        m = mod.one(
            "engine/src/lex.rs",
            r"#\[derive\(([^)]*)\)\]\s*\$\(\$preamble\)\*\s*pub enum \$name \$decl",
            "c07LexEnumDerive",
        )
        if m:
            derives = [d.strip() for d in m.group(1).split(",")]
            L.append("/-- the derive list `lex_enum!` puts on every operator enum -/")
            L.append("def c07LexEnumDerives : List String := " + mod.lean_list([mod.lean_str(d) for d in derives]))
            L.append("")

    mod.EXTRA.append(emit)
