"""C04 anchors: the operator-admissibility match of `ComparisonExpr::lex_with_lhs`
(engine/src/ast/field_expr.rs).  Emits, in source order, the (type, operator class) pairs of
the arms of `match (&lhs_type, op)`, the `BytesOp` sub-arms, the two `IsTrue` guards and the
kind of the fallback arm, into Generated.lean; `WfModel.Props.C04` pins them to
`Spec.allowed` (`cmpArms_exact` etc.)."""
import re


def register(mod):
    def emit(L):
        path = "engine/src/ast/field_expr.rs"
        # the whole `match (&lhs_type, op) { ... }` up to the closing of the `else` block
        m = mod.one(
            path,
            r"pub\(crate\) fn lex_with_lhs<'i>\(.*?match \(&lhs_type, op\) \{(.*?)\n            \}\n        \};",
            "cmpArms",
        )
        if not m:
            return
        body = m.group(1)
        arms = re.findall(r"\(Type::(\w+), ComparisonOp::(\w+)", body)
        if not arms:
            mod.problems.append("cmpArms: no (Type::_, ComparisonOp::_) arm found")
            return
        # every pattern of the match must be one of those pairs or the final wildcard
        pats = re.findall(r"^\s*\|?\s*(\(Type::\w+, ComparisonOp::\w+(?:\(\w+\))?\)|_)\s*(?:=>|$)", body, re.M)
        n_pairs = sum(1 for p in pats if p != "_")
        if n_pairs != len(arms) or pats.count("_") != 1 or pats[-1] != "_":
            mod.problems.append(
                f"cmpArms: unexpected arm shape (pairs {n_pairs}/{len(arms)}, wildcards {pats.count('_')})"
            )
            return
        fb = re.search(r"\n                _ => \{\s*return Err\(\(\s*LexErrorKind::(\w+)", body)
        if not fb:
            mod.problems.append("cmpArms: fallback arm is not `_ => return Err((LexErrorKind::…`")
            return
        bytes_ops = re.findall(r"BytesOp::(\w+) =>", body)
        head = m.group(0)
        guards = [
            bool(re.search(r"if lhs_type == Type::Bool \{\s*\(ComparisonOpExpr::IsTrue, input\)", head)),
            bool(re.search(r"else if lhs_type\.next\(\) == Some\(Type::Bool\) \{", head)),
            bool(re.search(r"if lhs\.map_each_count\(\) > 0 \{\s*return Err\(\(\s*LexErrorKind::UnsupportedOp", head)),
        ]
        L.append("/-- `ComparisonExpr::lex_with_lhs`: arms of `match (&lhs_type, op)` as (type, operator")
        L.append("class) in source order; every other combination falls into the `_` arm. -/")
        L.append(
            "def cmpArms : List (String × String) := "
            + mod.lean_list(["(" + mod.lean_str(a) + ", " + mod.lean_str(b) + ")" for a, b in arms])
        )
        L.append("/-- error kind returned by the `_` arm -/")
        L.append("def cmpFallback : String := " + mod.lean_str(fb.group(1)))
        L.append("/-- sub-arms of the `(Type::Bytes, ComparisonOp::Bytes(op))` arm -/")
        L.append("def cmpBytesOps : List String := " + mod.lean_list([mod.lean_str(b) for b in bytes_ops]))
        L.append("/-- guards before the match: `lhs_type == Bool ⇒ IsTrue`; `lhs_type.next() == Some(Bool)`;")
        L.append("inside it `map_each_count() > 0 ⇒ UnsupportedOp` -/")
        L.append("def cmpIsTrueGuards : List Bool := " + mod.lean_list(["true" if g else "false" for g in guards]))
        L.append("")

    mod.EXTRA.append(emit)
