"""C10 translator anchors: shape of the `contains` searcher selection in
engine/src/ast/field_expr.rs (which needle lengths get a const-size AVX2 searcher, the
range the random anchor is drawn from, the values of WIREFILTER_USE_AVX2 that switch the
SIMD path off, the order of the shortcuts)."""
import re


def register(mod):
    def emit(L):
        path = "engine/src/ast/field_expr.rs"
        m = mod.one(
            path,
            r"static USE_AVX2: LazyLock<bool> = LazyLock::new\(\|\| \{.*?const NO_VALUES: &\[&str\] = &\[(.*?)\];\s*"
            r'let use_avx2 = env::var\("(\w+)"\)\.unwrap_or_default\(\);\s*'
            r'is_x86_feature_detected!\("avx2"\) && !NO_VALUES\.contains\(&use_avx2\.as_str\(\)\)',
            "containsAvx2Latch",
        )
        m2 = mod.one(
            path,
            r"ComparisonOpExpr::Contains\(bytes\) => \{.*?let bytes: Box<\[u8\]> = bytes\.into\(\);\s*"
            r"if bytes\.is_empty\(\) \{(?:\s*#\[cfg\(cloudflare_wirefilter_verif\)\][^;]*;)?\s*return search!\(EmptySearcher\);\s*\}\s*"
            r"if let \[byte\] = \*bytes \{(?:\s*#\[cfg\(cloudflare_wirefilter_verif\)\][^;]*;)?\s*return search!\(MemchrSearcher::new\(byte\)\);\s*\}\s*"
            r'#\[cfg\(any\(target_arch = "x86", target_arch = "x86_64"\)\)\]\s*if \*USE_AVX2 \{'
            r"(.*?)\n                #\[cfg\(target_arch = \"wasm32\"\)\]",
            "containsDispatch",
        )
        if not (m and m2):
            return
        novals = re.findall(r'"([^"]*)"', m.group(1))
        body = m2.group(1)
        pos = re.findall(r"let position = rng\(\)\.random_range\((\d+)\.\.bytes\.len\(\)\);", body)
        arms = re.findall(
            r"(\d+) => search!\(ArraySearcher\(Avx2Searcher::with_position\(\s*slice_to_array::<(\d+)>\(&bytes\),\s*position\s*\)\)\),",
            body,
        )
        fallback = re.findall(r"_ => search!\(BoxSearcher\(Avx2Searcher::with_position\(bytes, position\)\)\),", body)
        tail = mod.one(
            path,
            r"\n                (?:#\[cfg\(cloudflare_wirefilter_verif\)\][^;]*;\s*)?search!\(MemmemSearcher::new\(bytes\)\)\s*\}\s*ComparisonOpExpr::Matches",
            "containsMemmemFallback",
        )
        if len(pos) != 1 or len(fallback) != 1 or not arms or tail is None:
            mod.problems.append("containsDispatch: AVX2 arm list / anchor range / fallback not recognised")
            return
        L.append("/-- `contains`: values of `" + m.group(2) + "` that disable the SIMD path. -/")
        L.append("def containsNoValues : List String := " + mod.lean_list([mod.lean_str(x) for x in novals]))
        L.append("/-- `contains`: lower bound of `rng().random_range(lo..bytes.len())`. -/")
        L.append("def containsAnchorLo : Nat := " + pos[0])
        L.append("/-- `contains`: `(len, N)` of the `Avx2Searcher<[u8; N]>` match arms, in source order. -/")
        L.append("def containsArrayArms : List (Nat × Nat) := " + mod.lean_list([f"({a}, {b})" for a, b in arms]))
        L.append("")

    mod.EXTRA.append(emit)
