HOOK_COMMITS = []

_PENDING = "check not built yet in this round; will be claimed when its model, theorems and correspondence stream exist (see DESIGN.md section 3)"
NOT_APPLICABLE = {f"C{n:02d}": _PENDING for n in range(1, 21)}

TEXT = {
    "C09": {
        "level": "Lean 4 theorems (inset_exact, inSetIp_exact, cidr_as_range, bsearch_exact, merge_*): for every list of ranges of any length/order/overlap and every start-sorted permutation the sort may produce, RangeSet::from + contains is true exactly when some listed item contains x; per-family split and CIDR=first..=last proved on Nat. The model is a line-by-line transcription of range_set.rs (59 lines) and of the OneOf arm; it is tied to the code by an exhaustive small-domain + random differential run through real `in {...}` filters and by the extracted comparison operators.",
        "design_ref": "DESIGN.md section 3, C09",
        "note": "Trusted: Lean kernel; axioms propext/Classical.choice/Quot.sound; extractor; harness. Modelled not verified: std sort_unstable_by_key (theorem holds for every start-sorted permutation), dedup_by, binary_search_by (halving search with the same comparator), BTreeSet, cidr crate first/last address, literal parsing of the rendered items.",
        "technique": "Lean 4 proof over executable model + differential correspondence with the real engine",
    },
}
