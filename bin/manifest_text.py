HOOK_COMMITS = ["2516bf8fd5f996277e77a9e5d5259b03bfb9c920", "abf840d2f931b420973381eff192147a6c43689e"]

_PENDING = "check not built yet in this round; will be claimed when its model, theorems and correspondence stream exist (see DESIGN.md section 3)"
NOT_APPLICABLE = {f"C{n:02d}": _PENDING for n in range(1, 21)}

