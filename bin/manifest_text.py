HOOK_COMMITS = []

_PENDING = "check not built yet in this round; will be claimed when its model, theorems and correspondence stream exist (see DESIGN.md section 3)"
NOT_APPLICABLE = {f"C{n:02d}": _PENDING for n in range(1, 21)}

