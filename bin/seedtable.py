#!/usr/bin/env python3
"""Regenerates the 'seeded changes' table of DESIGN.md (between the SEEDED-TABLE markers) from
/verif/seeded/*/meta.json."""
import glob, json, os, re
rows = []
for d in sorted(glob.glob("/verif/seeded/*/")):
    sid = os.path.basename(d.rstrip("/"))
    try:
        m = json.load(open(os.path.join(d, "meta.json")))
    except Exception:
        continue
    checks = m.get("checks", {})
    caught = [k for k, v in checks.items() if v.get("caught")]
    missed = [k for k, v in checks.items() if not v.get("caught")]
    how = ""
    for k in caught:
        v = checks[k]
        how = (v.get("source_text") or v.get("what") or v.get("op") or "")[:110].replace("|", "\\|").replace("\n", " ")
        break
    status = ("caught by " + ", ".join(caught)) if caught else ("MISSED by " + ", ".join(missed) if missed else "not run yet")
    if caught and missed:
        status += " (first missed by " + ", ".join(missed) + " before the check was strengthened)"
    rows.append(f"| {sid} | {m.get('property')} | {(m.get('breaks') or m.get('summary') or '')[:150].replace('|', '/')} | {(m.get('needs') or '')[:150].replace('|', '/')} | {status} | {how} |")
table = "| id | property | change | needs | result | minimal failing input reported |\n|---|---|---|---|---|---|\n" + "\n".join(rows)
p = "/verif/DESIGN.md"
s = open(p).read()
a, b = "<!-- SEEDED-TABLE-BEGIN -->", "<!-- SEEDED-TABLE-END -->"
if a in s:
    s = s[: s.index(a) + len(a)] + "\n" + table + "\n" + s[s.index(b):]
    open(p, "w").write(s)
print(len(rows), "rows")
