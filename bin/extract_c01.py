"""C01 anchors: the operator tables (`lex_enum!` invocations of logical_expr.rs and
field_expr.rs, in source order = lexing order), the `OrderingOp` masks evaluated with the
extracted `LESS/GREATER/EQUAL` constants, `OrderingOp::matches{,_opt}`, the `gen_ordering!`
arm list (Rust operator token + nil default per variant) and macro body shape, and the two
precedence comparisons of `lex_more_with_precedence`.

Emitted into lean/WfModel/Generated.lean; pinned to the model in Props/C01.lean."""
import re

LOGICAL = "engine/src/ast/logical_expr.rs"
FIELD = "engine/src/ast/field_expr.rs"


def register(mod):
    lean_str, lean_list = mod.lean_str, mod.lean_list

    def pair_list(rows):
        return lean_list(["(" + lean_str(a) + ", " + lean_str(b) + ")" for a, b in rows])

    def emit(L):
        # ---- lex_enum! tables -----------------------------------------------------------
        logical = mod.lex_enum_table(LOGICAL, "LogicalOp", "logicalOpTable")
        unary = mod.lex_enum_table(LOGICAL, "UnaryOp", "unaryOpTable")
        ordering = mod.lex_enum_table(FIELD, "OrderingOp", "orderingOpTable")
        intop = mod.lex_enum_table(FIELD, "IntOp", "intOpTable")
        bytesop = mod.lex_enum_table(FIELD, "BytesOp", "bytesOpTable")
        compop = mod.lex_enum_table(FIELD, "ComparisonOp", "comparisonOpOrder")

        # `#[derive(PartialOrd, Ord)]` on LogicalOp: precedence = declaration order
        m = mod.one(LOGICAL, r"lex_enum!\(\s*#\[derive\(([^)]*)\)\]\s*LogicalOp\s*\{", "logicalOpDerives")
        derives = [d.strip() for d in m.group(1).split(",")] if m else None

        # ---- mask constants ---------------------------------------------------------------
        consts = {}
        for name in ("LESS", "GREATER", "EQUAL"):
            m = mod.one(FIELD, r"const\s+" + name + r"\s*:\s*u8\s*=\s*(0b[01_]+|0x[0-9a-fA-F_]+|\d+)\s*;", "const" + name)
            if m:
                consts[name] = int(m.group(1).replace("_", ""), 0)

        def eval_mask(expr, what):
            val = 0
            for term in expr.split("|"):
                term = term.strip()
                if term in consts:
                    val |= consts[term]
                elif re.fullmatch(r"0b[01_]+|0x[0-9a-fA-F_]+|\d+", term):
                    val |= int(term.replace("_", ""), 0)
                else:
                    mod.problems.append(f"{what}: cannot evaluate mask term {term!r}")
                    return None
            return val

        if logical is not None:
            L.append("/-- `lex_enum!(LogicalOp)`: (spelling, variant) in source order -/")
            L.append("def logicalOpTable : List (String × String) := " + pair_list([(s, v) for s, v, _ in logical]))
            L.append("")
        if derives is not None:
            L.append("/-- derives on `LogicalOp` (its `Ord` is the declaration order) -/")
            L.append("def logicalOpDerives : List String := " + lean_list([lean_str(d) for d in derives]))
            L.append("")
        if unary is not None:
            L.append("def unaryOpTable : List (String × String) := " + pair_list([(s, v) for s, v, _ in unary]))
            L.append("")
        if len(consts) == 3:
            L.append("/-- `const LESS/GREATER/EQUAL: u8` -/")
            L.append(
                "def ordFlags : List (String × Nat) := "
                + lean_list(["(" + lean_str(k) + ", " + str(consts[k]) + ")" for k in ("LESS", "GREATER", "EQUAL")])
            )
            L.append("")
        if ordering is not None and len(consts) == 3:
            rows = []
            ok = True
            for s, v, expr in ordering:
                val = eval_mask(expr, "orderingOpTable") if expr else None
                if val is None:
                    if not expr:
                        mod.problems.append(f"orderingOpTable: variant {v} has no discriminant")
                    ok = False
                    break
                rows.append("(" + lean_str(s) + ", " + lean_str(v) + ", " + str(val) + ")")
            if ok:
                L.append("/-- `lex_enum!(OrderingOp)`: (spelling, variant, discriminant = mask) in source order -/")
                L.append("def orderingOpTable : List (String × String × Nat) := " + lean_list(rows))
                L.append("")
        for name, tbl in (("intOpTable", intop), ("bytesOpTable", bytesop), ("comparisonOpOrder", compop)):
            if tbl is not None:
                L.append("def " + name + " : List (String × String) := " + pair_list([(s, v) for s, v, _ in tbl]))
                L.append("")

        # ---- OrderingOp::matches / matches_opt ------------------------------------------------
        m = mod.one(
            FIELD,
            r"pub fn matches\(self, ordering: Ordering\) -> bool \{\s*let mask = self as u8;\s*"
            r"let flag = match ordering \{\s*Ordering::(\w+) => (\w+),\s*Ordering::(\w+) => (\w+),\s*"
            r"Ordering::(\w+) => (\w+),\s*\};\s*mask (\S+) flag (\S+) 0\s*\}",
            "orderingMatches",
        )
        if m:
            L.append("/-- `OrderingOp::matches`: flag per `Ordering`, then `mask <op1> flag <op2> 0` -/")
            L.append("def orderingMatches : List (String × String) := " + pair_list([(m.group(1), m.group(2)), (m.group(3), m.group(4)), (m.group(5), m.group(6))]))
            L.append("def orderingMatchesTest : List String := " + lean_list([lean_str(m.group(7)), lean_str(m.group(8))]))
            L.append("")
        m = mod.one(
            FIELD,
            r"pub fn matches_opt\(self, ordering: Option<Ordering>\) -> bool \{\s*match ordering \{\s*"
            r"Some\(ordering\) => self\.matches\(ordering\),\s*None => self (\S+) OrderingOp::(\w+),\s*\}\s*\}",
            "orderingMatchesOpt",
        )
        if m:
            L.append("/-- `OrderingOp::matches_opt(None)` = `self <op> OrderingOp::<variant>` -/")
            L.append("def orderingMatchesOptNone : List String := " + lean_list([lean_str(m.group(1)), lean_str(m.group(2))]))
            L.append("")

        # ---- gen_ordering! -------------------------------------------------------------------------
        m = mod.one(
            FIELD,
            r"match op \{\s*((?:OrderingOp::\w+\s*=>\s*gen_ordering!\([^)]*\),\s*)+)\}",
            "orderingArms",
        )
        if m:
            arms = re.findall(r"OrderingOp::(\w+)\s*=>\s*gen_ordering!\(\s*(\S+?)\s*,\s*(\w+)\s*\)", m.group(1))
            L.append("/-- `match op { OrderingOp::V => gen_ordering!(tok, default), … }`: (variant, Rust operator token, nil default) -/")
            L.append(
                "def orderingArms : List (String × String × String) := "
                + lean_list(["(" + lean_str(v) + ", " + lean_str(t) + ", " + lean_str(d) + ")" for v, t, d in arms])
            )
            L.append("")
        m = mod.one(
            FIELD,
            r"macro_rules! gen_ordering \{\s*\(\$op:tt, \$def:ident\) => \{\s*match rhs \{(.*?)RhsValue::Bool\(_\) \| RhsValue::Array\(_\) \| RhsValue::Map\(_\) => unreachable!\(\),",
            "genOrderingBody",
        )
        if m:
            body = m.group(1)
            shape = []
            for ty, pat in (
                ("Bytes", r"RhsValue::Bytes\(bytes\) => \{.*?cast_value!\(value, Bytes\)\.as_ref\(\) \$op self\.0\.as_ref\(\).*?lhs\.compile_with\(compiler, (\$?\w+), BytesOp\(bytes\)\)"),
                ("Int", r"RhsValue::Int\(int\) => \{.*?\*cast_value!\(value, Int\) \$op self\.0\s.*?lhs\.compile_with\(compiler, (\$?\w+), IntOp\(int\)\)"),
                ("Ip", r"RhsValue::Ip\(ip\) => \{.*?self\.op\.matches_opt\(cast_value!\(value, Ip\)\.strict_partial_cmp\(&self\.ip\)\).*?lhs\.compile_with\(compiler, (\$?\w+), IpOp \{ op, ip \}\)"),
            ):
                ms = re.findall(pat, body, re.S)
                if len(ms) != 1:
                    mod.problems.append(f"genOrderingBody: arm {ty} of gen_ordering! not recognised")
                    shape = None
                    break
                shape.append((ty, ms[0]))
            if shape:
                L.append("/-- per rhs type: the comparator is `value $op rhs` (Ip: `op.matches_opt(value.strict_partial_cmp(rhs))`)")
                L.append("and the absent-value default passed to `compile_with` is this macro argument -/")
                L.append("def genOrderingDefaults : List (String × String) := " + pair_list(shape))
                L.append("")

        # ---- precedence comparisons of lex_more_with_precedence ---------------------------------
        m = mod.one(
            LOGICAL,
            r"lookahead = Self::lex_combining_op\(rhs\.1\);\s*if lookahead\.0 (\S+) Some\(op\) \{\s*break;\s*\}"
            r".*?if lookahead\.0 (\S+) min_prec \{",
            "climbComparisons",
        )
        if m:
            L.append("/-- `if lookahead.0 ? Some(op) { break }` and `if lookahead.0 ? min_prec { pretend none }` -/")
            L.append("def climbComparisons : List String := " + lean_list([lean_str(m.group(1)), lean_str(m.group(2))]))
            L.append("")

    mod.EXTRA.append(emit)
