#!/usr/bin/env python3
"""seedverify.py <candidate dir>...   (candidate = patch.diff + demo.rs + meta.json from a seeding agent)

Confirms, in a scratch worktree of /repo (never in /repo itself), that the candidate change
 (1) applies and compiles, (2) passes the existing suite unchanged, (3) makes the demo fail,
 (4) while the demo passes on the unmodified tree.  Confirmed candidates are copied to
/verif/seeded/<id>/ with what was run recorded in meta.json."""
import json, os, shutil, subprocess, sys, time

BASE = os.environ.get("SEEDV_DIR", "/tmp/seedv")
WT = BASE + "/wt"
TARGET = BASE + "/target"
ENV = dict(os.environ, CARGO_NET_OFFLINE="true", CARGO_TARGET_DIR=TARGET)


def sh(cmd, cwd=None, timeout=3600):
    p = subprocess.run(cmd, cwd=cwd, env=ENV, shell=True, stdout=subprocess.PIPE, stderr=subprocess.STDOUT, timeout=timeout)
    return p.returncode, p.stdout.decode("utf-8", "replace")


def suite_ok(out):
    # every "test result:" line must be ok; tolerate the known-flaky panic tests by rerunning
    lines = [l for l in out.split("\n") if l.startswith("test result:")]
    return bool(lines) and all(" 0 failed" in l and l.startswith("test result: ok") for l in lines)


def main():
    os.makedirs(BASE, exist_ok=True)
    for cand in sys.argv[1:]:
        cand = cand.rstrip("/")
        sid = os.path.basename(cand)
        res = {"id": sid, "verified_at": time.strftime("%Y-%m-%dT%H:%M:%SZ", time.gmtime()), "ran": []}
        try:
            meta = json.load(open(os.path.join(cand, "meta.json")))
        except Exception as e:
            print(f"{sid}: no meta.json ({e})")
            continue
        crate = meta.get("demo_crate", "engine")
        pkg = "wirefilter-engine" if crate == "engine" else "wirefilter-ffi"
        sh(f"git -C /repo worktree remove --force {WT}")
        rc, out = sh(f"git -C /repo worktree add --detach {WT} HEAD")
        if rc != 0:
            print(f"{sid}: cannot create worktree: {out[-300:]}")
            continue
        demo_dst = os.path.join(WT, crate, "tests", "seeded_demo.rs")
        os.makedirs(os.path.dirname(demo_dst), exist_ok=True)
        try:
            # (4) demo on the clean tree
            shutil.copyfile(os.path.join(cand, "demo.rs"), demo_dst)
            rc, out = sh(f"cargo test -p {pkg} --test seeded_demo --offline 2>&1 | tail -30", cwd=WT)
            clean_pass = "test result: ok" in out and "0 failed" in out
            res["ran"].append({"cmd": f"clean tree: cargo test -p {pkg} --test seeded_demo", "passed": clean_pass})
            os.remove(demo_dst)
            # (1) apply
            rc, out = sh(f"git apply {os.path.join(cand, 'patch.diff')}", cwd=WT)
            res["ran"].append({"cmd": "git apply patch.diff", "ok": rc == 0})
            if rc != 0:
                res["verdict"] = "patch does not apply"
                print(sid, res["verdict"], out[-200:])
                continue
            # (2) existing suite with the change
            ok = False
            for attempt in range(2):
                rc, out = sh("cargo test --workspace --no-fail-fast --offline 2>&1 | grep -E '^test result|FAILED|panicked' | head -40", cwd=WT)
                ok = suite_ok(out)
                if ok:
                    break
            res["ran"].append({"cmd": "patched tree: cargo test --workspace --no-fail-fast", "passed": ok, "tail": out[-600:] if not ok else ""})
            # (3) demo with the change
            shutil.copyfile(os.path.join(cand, "demo.rs"), demo_dst)
            rc, out = sh(f"cargo test -p {pkg} --test seeded_demo --offline 2>&1 | tail -30", cwd=WT)
            patched_fail = not ("test result: ok" in out and "0 failed" in out)
            res["ran"].append({"cmd": f"patched tree: cargo test -p {pkg} --test seeded_demo", "failed_as_expected": patched_fail})
            good = clean_pass and ok and patched_fail
            res["verdict"] = "confirmed" if good else "rejected"
            print(f"{sid}: {res['verdict']} (clean demo pass={clean_pass}, suite with change pass={ok}, demo fails with change={patched_fail})")
            if good:
                dst = os.path.join("/verif/seeded", sid)
                os.makedirs(dst, exist_ok=True)
                shutil.copyfile(os.path.join(cand, "patch.diff"), os.path.join(dst, "patch.diff"))
                shutil.copyfile(os.path.join(cand, "demo.rs"), os.path.join(dst, "demo.rs"))
                m = {"property": meta.get("property", sid.split("-")[0]), "breaks": meta.get("summary"), "needs": meta.get("needs"),
                     "demo_crate": crate, "author_ran": meta.get("ran"), "confirmed": res}
                json.dump(m, open(os.path.join(dst, "meta.json"), "w"), indent=1)
        finally:
            sh(f"git -C /repo worktree remove --force {WT}")


if __name__ == "__main__":
    main()
