#!/usr/bin/env python3
"""seedrun.py <seeded id>... [--tier quick|thorough] [--also Cxx,Cyy]

Applies /verif/seeded/<id>/patch.diff to /repo (git apply), runs the check of the property it
breaks (and any extra checks), records in meta.json which check caught it and with what
replay, and undoes the change straight afterwards (git checkout -- .).

The checks rewrite evidence/<id>.json and the extractor output on every run; the files written
while the patch was applied describe the PATCHED tree, so they are saved before and put back
after (the committed evidence must always describe the unchanged tree)."""
import json, os, shutil, subprocess, sys, re, tempfile

GENERATED = ["lean/WfModel/Generated.lean", "lean/WfModel/Generated.report.json"]

def save_outputs(pids):
    keep = tempfile.mkdtemp(prefix="seedrun-keep-")
    for rel in [f"evidence/{p}.json" for p in pids] + GENERATED:
        src = os.path.join("/verif", rel)
        if os.path.exists(src):
            dst = os.path.join(keep, rel)
            os.makedirs(os.path.dirname(dst), exist_ok=True)
            shutil.copy2(src, dst)
    return keep

def restore_outputs(keep, pids):
    for rel in [f"evidence/{p}.json" for p in pids] + GENERATED:
        src = os.path.join(keep, rel)
        dst = os.path.join("/verif", rel)
        if os.path.exists(src):
            shutil.copy2(src, dst)
        elif os.path.exists(dst) and rel.startswith("evidence/"):
            os.remove(dst)
    shutil.rmtree(keep, ignore_errors=True)

def sh(cmd, cwd=None, timeout=7200):
    p = subprocess.run(cmd, cwd=cwd, shell=True, stdout=subprocess.PIPE, stderr=subprocess.STDOUT, timeout=timeout)
    return p.returncode, p.stdout.decode("utf-8", "replace")

def main():
    args = sys.argv[1:]
    tier = "quick"
    also = []
    ids = []
    i = 0
    while i < len(args):
        if args[i] == "--tier":
            tier = args[i + 1]; i += 2
        elif args[i] == "--also":
            also = args[i + 1].split(","); i += 2
        else:
            ids.append(args[i]); i += 1
    for sid in ids:
        d = os.path.join("/verif/seeded", sid)
        meta = json.load(open(os.path.join(d, "meta.json")))
        rc, out = sh("git status --porcelain", cwd="/repo")
        if out.strip():
            print("refusing: /repo working tree is not clean"); sys.exit(2)
        rc, out = sh(f"git apply {d}/patch.diff", cwd="/repo")
        if rc != 0:
            print(f"{sid}: patch does not apply: {out[-200:]}"); continue
        results = meta.get("checks", {})
        keep = save_outputs([meta["property"]] + also)
        try:
            for pid in [meta["property"]] + also:
                rc, out = sh(f"bin/check {pid} --tier {tier}", cwd="/verif")
                v = [l for l in out.split("\n") if l.startswith("VIOLATION")]
                caught = rc == 1 and bool(v)
                entry = {"tier": tier, "caught": caught}
                if caught:
                    entry["line"] = v[0]
                    m = re.search(r"replay=(\S+)", v[0])
                    if m and os.path.exists(m.group(1)):
                        r = json.load(open(m.group(1)))
                        entry["kind"] = r.get("kind")
                        entry["what"] = (r.get("what") or "")[:400]
                        entry["source_text"] = r.get("source_text")
                        entry["op"] = (r.get("op") or "")[:300]
                results[f"{pid}:{tier}"] = entry
                print(f"{sid}: check {pid} ({tier}) -> {'CAUGHT ' + (entry.get('what') or '')[:160] if caught else 'missed (rc=%d)' % rc}")
        finally:
            sh("git checkout -- .", cwd="/repo")
            sh("git clean -fdq engine ffi", cwd="/repo")
            restore_outputs(keep, [meta["property"]] + also)
        meta["checks"] = results
        json.dump(meta, open(os.path.join(d, "meta.json"), "w"), indent=1)

if __name__ == "__main__":
    main()
