#!/usr/bin/env python3
"""Regenerates MANIFEST.json from bin/wfconfig.py + bin/manifest_text.py (keeps it valid at all times)."""
import json, os, sys
here = os.path.dirname(os.path.abspath(__file__))
sys.path.insert(0, here)
from wfconfig import PROPS, TEXT
from manifest_text import NOT_APPLICABLE, HOOK_COMMITS

checks = []
for pid in sorted(PROPS):
    t = TEXT[pid]
    checks.append({
        "property_id": pid,
        "quick_cmd": f"bin/check {pid} --tier quick",
        "thorough_cmd": f"bin/check {pid} --tier thorough",
        "evidence_file": f"/verif/evidence/{pid}.json",
        "replay_cmd_template": f"bin/check {pid} --replay {{path}}",
        "engine": "lean-proof+correspondence",
        "level_claimed": {"category": "proof", "text": t["level"], "design_ref": t["design_ref"]},
        "level_note": t["note"],
        "technique": t["technique"],
    })
m = {
    "version": 1,
    "setup_cmd": "bin/setup",
    "hooks": {
        "guard": "cloudflare_wirefilter_verif",
        "enable": "RUSTFLAGS=--cfg cloudflare_wirefilter_verif (set in /verif/harness/.cargo/config.toml; the harness depends on /repo/engine and /repo/ffi by path and is rebuilt on every check)",
        "baseline_off_cmd": "cd /repo && cargo test --workspace --no-fail-fast --offline",
        "source_commits": HOOK_COMMITS,
        "add_only": True,
    },
    "engines": [{
        "name": "lean-proof+correspondence",
        "path": "/verif/bin/check",
        "serves_properties": sorted(PROPS),
        "kind_free_text": "Lean 4 theorems about an executable model (lean/WfModel), tied to /repo by a translator of tables (bin/extract.py -> Generated.lean) and by a differential correspondence run of the real engine (harness/) against the compiled model driver (lean/Driver.lean)",
    }],
    "checks": checks,
    "not_applicable": [{"property_id": p, "reason": r} for p, r in sorted(NOT_APPLICABLE.items()) if p not in PROPS],
    "notes": "See DESIGN.md. Known findings: known_findings.jsonl.",
}
json.dump(m, open(os.path.join(here, "..", "MANIFEST.json"), "w"), indent=1)
print("MANIFEST.json written:", len(checks), "checks,", len(m["not_applicable"]), "not applicable")
