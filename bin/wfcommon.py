COMMON_TRUST = [
    "Lean 4.33.0 kernel (thorough tier re-checks the compiled module with leanchecker)",
    "axioms: propext, Classical.choice, Quot.sound only (audited per theorem on every run); no native_decide, no bv_decide, no sorry",
    "bin/extract.py (regex-level translator of tables/constants from /repo into WfModel/Generated.lean)",
    "the Rust correspondence harness /verif/harness and its generators (sampling: bounds what is seen of the code)",
    "the hand-written Lean model is tied to the code only by that correspondence and by the extracted tables",
]
