"""C15 — configuration for bin/check and MANIFEST text."""
import os, sys
sys.path.insert(0, os.path.dirname(os.path.dirname(os.path.abspath(__file__))))
from wfcommon import COMMON_TRUST

PROP = {
    'modules': ['WfModel.Props.C15'],
    'streams': [{'name': 'tyenc', 'shards': {'quick': 4, 'thorough': 16}}],
    'rule': 'cases = one conversion of one input on the real implementation: Type -> CompoundType (fields read from '
            'its Debug output) -> Type; Type -> ffi CType (From impl and the wirefilter_create_*_type chain) -> Type; '
            'raw C structs -> Type; Type -> JSON text (to_string/to_vec/to_value, Type and CompoundType); JSON text -> '
            'Type / CompoundType and Scheme -> JSON -> Scheme through serde_json from_str / from_slice / from_reader '
            '(3-byte reads) / Value. Exhaustive: every array/map layer string of <= 8 (quick) / <= 12 (thorough) layers '
            'over the 4 primitives; sampled 13..33 layers (all-array, all-map, both alternations, random); descriptors '
            'with 33..130 layers; malformed and mutated descriptors; schemes with 0..40 random-name fields; hand-made '
            'scheme documents (duplicate, escaped, reordered, ill-shaped). non-trivial = the type / some field type '
            'has >= 1 container layer; distinct by op line (which contains the type or the JSON text)',
    'trusted_base': COMMON_TRUST + [
        'modelled, not verified: the serde_json text layer (compact writer and its string escaping, recursive-descent '
        'reader with the 128-level recursion limit, Value objects as key-sorted maps with last-duplicate-wins) and the '
        'shape of serde-derived (de)serializers for enums/structs (externally tagged enum, unit variant as string or '
        '{"V":null}, struct from map or sequence, unknown keys ignored) - written as Lean functions in '
        'Drv/TyEnc.lean / Model/TyEnc.lean and exercised on every correspondence case',
        'u32/u8 arithmetic of Rust: `<<` discards the high bit, `|`, `&`, `>>` as on Nat modulo 2^32 (theorems '
        'push_bits_arith / pop_bits_arith relate the bit operations to *2, /2, %2)',
    ],
    'assumptions': [
        'a Rust `Type` value is a `Ty` with at most 33 layers (`Type::Array(CompoundType)`); CompoundType values are '
        'exactly the Valid packed triples (fields private, built only by new/push/pop)',
        'CType::push has no length check; the C-side u8 `len` overflow at 255 is outside the modelled range',
        'json_too_deep_is_error / json_never_panics are statements about the conversion the property demands '
        '(fallible); the unchanged source panics instead (theorem unchanged_source_panics, finding F3) and the '
        'correspondence run reports it',
    ],
}

TEXT = {
    'design_ref': 'DESIGN.md section 3, C15',
    'level': 'Lean 4 theorems for ALL types / packed values / JSON trees / field lists (induction on Ty, on len, on '
             'the JSON tree, on the document): packed_roundtrip, packed_roundtrip\', too_deep, pop_push, push_pop, '
             'packed_is_layer_string, packed_injective; ctype_agrees (+_back, roundtrips); json_roundtrip, json_exact '
             '(accepts exactly the descriptors of types with <= 33 layers and returns the described type), '
             'json_too_deep_is_error, json_never_panics; scheme_json_roundtrip, scheme_exact, dup_rejected, '
             'dup_is_error, scheme_order_preserved, scheme_value_roundtrip; source_constants pins the extracted limit / bit convention / C '
             'codes. Tied to the code by an exhaustive (<= 8 / <= 12 layers) + sampled differential run of the real '
             'Type/CompoundType/CType/serde_json paths.',
    'note': 'Trusted: Lean kernel; axioms propext/Classical.choice/Quot.sound; extractor; harness. Modelled not '
            'verified: serde_json text layer and derive shapes, Rust integer semantics. The JSON theorems are about the '
            'fallible conversion the property asks for; on a tree where Deserialize for CompoundType still panics the '
            'check reports the panic with the 34-layer descriptor as replay.',
    'technique': 'Lean 4 proof over executable model + differential correspondence with the real engine',
}
