"""C01 — configuration for bin/check and MANIFEST text."""
import os, sys
sys.path.insert(0, os.path.dirname(os.path.dirname(os.path.abspath(__file__))))
from wfcommon import COMMON_TRUST

PROP = {
    'modules': ['WfModel.Props.C01', 'WfModel.Props.C01Atoms'],
    'streams': [{'name': 'exec-scalar', 'shards': {'quick': 4, 'thorough': 16}}],
    'rule': 'cases = (filter text, execution context) pairs run through the real '
            'Scheme::parse -> compile -> execute and through the Lean model, which parses the same '
            'text itself (so precedence, flattening, `not`, aliases and layout are compared end to end): '
            'filters generated from the grammar with scalar focus (Bool/Int/Ip/Bytes fields, each declared '
            'mandatory or optional; every ordering operator in both spellings, `&`/bitwise_and, bare '
            'boolean fields, plus in {..} / contains / wildcard / matches on the same fields; 1-5 operand '
            'chains mixing and/xor/or in all spellings, not/!, parentheses; nesting depth <= 4; random '
            'space/CR/LF layout; no function calls, no [*], no quantifiers) x contexts from boundary pools '
            '(i64::MIN/MAX/0/+-1, empty and non-UTF-8 bytes, v4/v6/v4-mapped addresses, values equal / '
            'adjacent / prefix-related to the literal, optional fields present or absent) plus random '
            'values x both nil-not-equal settings (per generated scheme); '
            'non-trivial = filter parsed and its answer differs between at least two generated contexts '
            '(not constant); distinct by (filter text, context)',
    'assumptions': [
        'closure compilation (compile_with / CompiledOneExpr) is modelled as direct evaluation; '
        'short-circuiting of all()/any() is unobservable because evaluation has no effects',
        'Rust `==,!=,<,<=,>,>=` on i64 and on [u8] slices, `&` on i64, and IpAddr::strict_partial_cmp are '
        'modelled by cmpInt / cmpBytes (first differing byte, then length) / BitVec 64 and / cmpIp; their '
        'mathematical meaning is proved for the model, their agreement with std is by the differential run',
        'climb_layered assumes operands are not bare Combining nodes (lex_simple_expr never returns one: it '
        'returns Comparison, Parenthesized, Unary or Quantifier) and a `simple` lexer that does not return '
        'more input than it was given (proved for simpleL: Lemmas/C05Level.simpleL_good, used by '
        'parse_render_logical)',
        'parse_render_logical / precedence_whole_filter (character level) are stated over ABSTRACT atoms: each '
        'atom is assumed to satisfy GoodAtom (comparisonL reads exactly its text to its Bool node before every '
        'continuation it stops at - end of input, space, `)`, optionally `&|^` -, the text is not taken for '
        'a unary operator (in the sense of LogicalExpr::lex_unary_op = lexUnary: a registered name that merely '
        'begins with `not` is not taken for one) or quantifier call, the node is not Combining). GoodAtom is PROVED '
        '(Props/C01Atoms.lean: goodAtom_boolField / goodAtom_intCmp / goodAtom_bytesCmp / goodAtom_rawCmp / '
        'goodAtom_ipCmp / goodAtom_ip6Cmp / goodAtom_indexedBool / goodAtom_indexedCmp / goodAtom_inSet / '
        'goodAtom_contains / goodAtom_concrete) for the concrete atoms `name path tail` of Lemmas/Atoms.lean: '
        'name = a field; path = zero or more index suffixes as written, `[k]` (k < 2^32 in dec/0x hex/0 octal) '
        'or `["key"]` (quoted string with any escape per byte, bytes valid UTF-8; escape-free printable-ASCII '
        'keys as the special case plain_key_suffix), chained, with layout exactly after `[` and before `]` (as '
        'IndexExpr::lex_with skips it; none between name and `[` or between `]` and `[`); tail = nothing (a Bool '
        'left-hand side), or `ws1 op ws2 literal` with any of the six ordering operators in either spelling and '
        'a literal that is an integer (dec/0x hex/0 octal), a quoted byte string (any escape per byte), a raw '
        'string, an IPv4 dotted quad or an IPv6 address (full or std Display form), or `ws1 in ws2 { ws0 item ws '
        '... }` with integer items `a` / `a..b` (each bound an i64 in its own radix, a <= b, items separated by '
        '>= 1 layout character, optional layout after `{` and before `}`; the node is OneOf(Int ranges) with the '
        'ranges in the order written, a single value a as (a, a): set_ranges_in_order - the parser neither '
        'merges nor sorts), or `ws1 contains ws2 literal` with a quoted or raw literal. Decidable side conditions '
        'CAtom.ok: the name is a dotted identifier other than the bare '
        'word `not` (names that BEGIN with `not` are covered since lex_unary_op reads a registered name as the '
        'identifier; the former hypothesis "does not start with `not`" is removed), the scheme has a field of '
        'that name, the index path is well-typed for its declared type (array index on an array, key on a map: '
        'pathTy = recursion on the type, path_typing_by_type; necessary: index_path_illtyped_rejected) and ends '
        'in the tail\'s type (Bool for a bare atom, the literal\'s type, Int for in {..}, Bytes for contains), '
        'literals / indexes / items are in range, and where the tail meets a BARE name (empty path) a word '
        'operator (eq.., in, contains) is separated from it by >= 1 space and a bare Bool field is not called '
        'any/all; after `]` no separation is needed. '
        'Atoms with other operators (in $list, in {..} on Ip/Bytes fields, matches, wildcard, &), with the '
        'map-each suffix [*], with function calls, quantifiers, hex-pair byte literals a1:b2 (also under '
        'contains) and CIDR/short addresses are NOT '
        'covered by the concrete theorem (abstract GoodAtom + differential run). Renderings are exactly those '
        'of Lemmas/Render/Defs.lean (any alias, any layout, a space mandatory only between an atom and the next '
        'combining operator; the word `not` may be glued to its operand exactly where glueOk env holds: layout '
        'follows, or the operand starts with no name character, or the maximal run of name characters starting '
        'at the `n` is not a registered name - vacuous for schemes without names beginning with `not`; '
        'Renders therefore takes the parser environment as a parameter). not_binds_tightest for the word `not` '
        'carries the hypothesis that lex_unary_op takes the operator (nothing name-like glued, or the glued name '
        'unregistered); not_prefixed_name_is_identifier is the complementary case.',
    ],
    'trusted_base': COMMON_TRUST + [
        'modelled, not verified: Rust std integer/slice comparison operators, i64 bitand, '
        'IpAddr ordering within a family, lex_enum! macro expansion (first matching spelling in source '
        'order), #[derive(Ord)] = declaration order, literal lexers (Model/Lit.lean) producing the '
        'right-hand sides',
    ],
}

TEXT = {
    'design_ref': 'DESIGN.md section 3, C01 and Appendix A.1',
    'technique': 'Lean 4 proof over executable model + differential correspondence with the real engine',
    'level': 'Lean 4 theorems: ordOp_meaning / int_cmp / bytes_cmp_lex(+eq, antisymmetry, trichotomy) / '
             'ip_cmp_mixed / ip_cmp_same / bitand_meaning (each operator table entry has its mathematical '
             'meaning on Int, lexicographic bytes, per-family IPs, 64-bit two\'s complement); nil_rule / '
             'nil_default_iff / nil_rule_eval (absent left side gives false, except != which gives the '
             'scheme setting); and_is_all / or_is_any / xor_is_parity / not_is_neg for any item count; '
             'climb_layered (for ANY stream that unfolds into e0 (o1,e1)...(on,en), unbounded n, '
             'lex_more_with_precedence returns exactly the tree obtained by splitting at or, then xor, '
             'then and, with same-operator chains as one flat node) with fuel_suffices, logical_layered, '
             'not_binds_tightest (+ _spaced, bang_binds_tightest, not_prefixed_name_is_identifier: the word `not` '
             'glued to the rest of a registered name is that identifier, read at the same nesting level); '
             'parse_render_logical (S, character level: every rendering - any alias per '
             'operator occurrence, any layout - of every skeleton over GoodAtom atoms whose nesting fits the '
             'budget is read by LogicalExpr::lex_with to exactly the declarative meaning, unbounded size, '
             'induction on the rendering using Unfolds + climb_layered + simpleL_good for the fuel), with '
             'corollaries precedence_whole_filter, not_binds_tightest_whole_filter, parse_render_filter '
             '(FilterParser::parse). The model tables are pinned by `decide` to the tables re-extracted from '
             'the lex_enum! invocations, the OrderingOp masks, OrderingOp::matches{,_opt}, the '
             'gen_ordering! arm list and the two precedence comparisons of lex_more_with_precedence. '
             'Props/C01Atoms.lean makes the whole-filter theorem concrete: goodAtom_* prove GoodAtom for real '
             'comparison atoms (field, ordering operator in either alias, layout around it, integer / byte-string / '
             'address literal rendered per C06), parse_render_concrete(_level) (every rendering of every skeleton '
             'over concrete atoms meeting their decidable side conditions is parsed by FilterParser::parse to the '
             'intended AST), alias_layout_invariance_concrete (two texts with the same fields, operators and values '
             'but different logical aliases, comparison aliases, layout everywhere and literal forms give the same '
             'AST, JSON and hash), with worked examples on a scheme i:Int, b:Bool, tcp.port:Int, ip.src:Ip, '
             'http.host:Bytes, tcp.ports:Array Int, http.headers:Map Bytes, m:Map(Array Bytes), flags:Map Bool '
             '(`tcp.port ge 80 and not (i ==  -5 or b)` = `tcp.port>=80&&!(i eq -5||b)`; `tcp.port in {80 443 '
             '8000..8100} and http.headers["host"] contains "x" or m["a"][0] == "v"` = the spelling with `in{`, a hex '
             'item, layout inside braces and brackets, escaped key and needle, `&&`/`||`), and sharpness examples '
             '(ill-typed paths, layout outside the brackets, unseparated word operators and set items are rejected '
             'or mean something else). goodAtom_indexedBool / _indexedCmp / _inSet / _contains, index_path_parses, '
             'index_path_illtyped_rejected, set_ranges_in_order widen the atom language to index suffixes, integer '
             'sets and contains. The '
             'model is tied to the code by the differential stream exec-scalar (the driver parses the '
             'filter text itself).',
    'note': 'Trusted: Lean kernel; axioms propext/Classical.choice/Quot.sound; extractor; harness. Modelled '
            'not verified: std comparison operators on i64/[u8]/IpAddr, macro expansion of lex_enum!, '
            'derive(Ord), literal lexing. climb_layered is stated over an abstract operand stream; its '
            'instantiation at character level is parse_render_logical (proved over abstract atoms under GoodAtom) '
            'and parse_render_concrete (GoodAtom proved for atoms `name path tail`: path = index suffixes [k] / '
            '["key"] well-typed for the field, tail = nothing (Bool), an ordering comparison against an int / bytes / '
            'ip literal, `in { int items }` or `contains` a quoted/raw string; [*], in $list, in-sets of Ip/Bytes, '
            'matches / wildcard / &, function calls and quantifiers remain tied by correspondence).',
}
