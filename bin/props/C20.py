"""C20 — configuration for bin/check and MANIFEST text."""
import os, sys
sys.path.insert(0, os.path.dirname(os.path.dirname(os.path.abspath(__file__))))
from wfcommon import COMMON_TRUST

PROP = {
    'assumptions': [
        'the nested outcome of each call (UTF-8 validity, engine Ok/Err and its Display text, armed panic) is '
        'established by the harness through the Rust API on the same engine object; the model maps it to the '
        'C-side status and last-error effect',
        'LAST_ERROR is read two ways: as C sees it (wirefilter_get_last_error + strlen) and as the raw vector '
        '(its derived Debug output)',
        'std io::Write::write_fmt/write_all (no write call for an empty piece), thread_local!, catch_panic '
        '(C19) are modelled, not verified',
        'equivalence of C API and Rust API results (JSON, hash value, match, uses, context JSON) is checked '
        'harness-side on the same engine; the engine itself is the subject of C01-C17',
    ],
    'modules': ['WfModel.Props.C20'],
    'rule': 'cases = (1) LAST_ERROR histories on the real CString: every history up to length 4 (quick) / 5 '
            '(thorough) over 9 ops (clear, writes with/without NUL and non-UTF-8, write_last_error! with empty / '
            'NUL / multi-byte text) + random histories up to length 12; (2) generated filters (valid, mutated, '
            'with NUL, non-UTF-8) parsed through wirefilter_parse_filter and Scheme::parse on the same scheme: '
            'status, error text, AST JSON, FNV-1a hash, uses/uses_list for every field, match on 2 contexts '
            'filled through both APIs; (3) random sequences of 1-7 calls over parse/compile/match/uses/'
            'uses_list/hash/serialize/setters/JSON setters/context deserialization/fallback mode/clear with '
            'every outcome class incl. panics raised by a harness function inside parse, compile and match; (4) '
            'two real threads performing failing/succeeding/clearing calls in a scheduled order, each reporting '
            'its own last error. '
            'non-trivial = cstr history of >= 2 ops containing a NUL; call sequence of >= 2 calls with >= 1 '
            'failure; hash of a distinct JSON; distinct by op line / outcome-class sequence / JSON',
    'streams': [{'name': 'capi', 'shards': {'quick': 4, 'thorough': 16}, 'replayable': False}],
    'trusted_base': COMMON_TRUST + [
        'bin/extract_c20.py anchors: SUBSTITUTE_BYTE, Status discriminants, MatchingResult/UsingResult '
        'constants, status of every wrapper\'s panic and UTF-8 arm, list of wrappers ending in .is_ok()',
        'modelled, not verified: std::str::from_utf8, serde_json error texts, fnv crate (FNV-1a constants '
        'checked against the published test vectors), Vec<u8>',
    ],
}

TEXT = {
    'design_ref': 'DESIGN.md section 3, C20',
    'level': 'Lean 4 theorems over a model of ffi/src/cstring.rs and the wrappers of ffi/src/lib.rs: '
             'cstr_invariant (every write/clear/write_last_error! history leaves the vector empty or '
             'NUL-terminated without interior NUL), cstr_content (= writes since the last clear with NUL -> '
             '0x1a, and that is what strlen-based readers see), status_mapping_{total,utf8,err,panic,ok}, '
             'failure_is_reported, last_error_thread_local (N threads, any interleaving), generated_pins '
             '(constants and per-wrapper status arms extracted from the source). Tied to the code by driving '
             'the exported functions next to the Rust API on the same inputs.',
    'note': 'Trusted: Lean kernel; axioms propext/Classical.choice/Quot.sound; extractor; harness. C-vs-Rust '
            'agreement is sampled, not proved. Finding F9: the eight `.is_ok()` setters return false without '
            'writing last-error (silent_setters_leave_last_error mirrors the code; reported by the stream). '
            'Note F8: UsingResult::PANIC carries Status::Error (unreachable; outside the panic clause).',
    'technique': 'Lean 4 proof over executable model + differential correspondence with the real engine',
}
