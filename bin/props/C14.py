"""C14 — configuration for bin/check and MANIFEST text."""
import os, sys
sys.path.insert(0, os.path.dirname(os.path.dirname(os.path.abspath(__file__))))
from wfcommon import COMMON_TRUST

PROP = {
 'modules': ['WfModel.Props.C14'],
 'streams': [{'name': 'ctxser', 'shards': {'quick': 4, 'thorough': 16}}],
 'assumptions': [
     'std::net Display/FromStr for IpAddr round-trip (hypothesis `IpText.RoundTrip` of the theorems; the '
     'driver\'s transcription of both is compared with the real std on every generated address and on '
     'malformed spellings)',
     'a user-supplied ListDefinition/ListMatcher pair round-trips its own state (hypothesis '
     '`matchersRoundTrip`; checked at run time for the harness set-matcher)',
     'serde_json text layer (writer escaping, reader incl. recursion limit 128, Value = key-sorted maps, '
     'last duplicate wins) is transcribed in the driver and only sampled',
     'BTreeMap = strictly ascending association list with replace-on-equal insertion'],
 'rule': 'cases = (scheme, context, entry point) round trips and (scheme, context, entry point, document) '
         'deserializations. Schemes are random selections of fields over every primitive x every container '
         'shape up to depth 3 (A, M, AA, AM, ..., MMM), mandatory and optional, odd field names; 0-2 lists (Int, '
         'Ip) with a stateful harness matcher. Values: forced non-UTF-8 bytes / map keys (overlong, '
         'surrogate, >U+10FFFF, truncated), JSON-escaped text, empty containers, i64 extremes, IPv4/IPv6/'
         'v4-mapped/zero-run addresses. Per context: serialize, compare the JSON text with the model\'s, read '
         'back through from_str/from_slice/from_reader/Value, compare contexts (==) and up to 8 filters / value '
         'expressions; then the same text and 6 mutated documents (type swaps, wrong element deep inside, key '
         'renames, nesting changes, alternative encodings shuffled/duplicated, duplicate members, integer/IP '
         'spellings, $lists protocol incl. 30-130-layer type tags, member add/drop, truncation, whitespace, '
         'leading/trailing bytes) are deserialized under catch_unwind and the resulting context (or `err`) is '
         'compared with the model\'s deCtx; every stored value is re-checked against its field type after '
         'success and after failure. Non-trivial = a set field of container type (rt) / document with >= 2 '
         'containers (de); distinct by JSON text.',
 'trusted_base': COMMON_TRUST + [
     'modelled, not verified: serde/serde_json text layer and entry points, std::str::from_utf8 (own decoder, '
     'proved inverse to own encoder), std::net address formatter/parser, BTreeMap, erased_serde dispatch; each '
     'is exercised by the correspondence run'],
}

TEXT = {
 'design_ref': 'DESIGN.md section 3, C14; section 5 F6, F3',
 'technique': 'Lean 4 proof over executable model + differential correspondence with the real engine',
 'level': 'Lean 4 theorems over a JSON-tree model of the context (de)serializer: serde_roundtrip (typed context '
          '-> serCtx -> deCtx into a fresh context = the same context; both Bytes encodings and both Map '
          'encodings at every nesting level, empty containers, i64 extremes, v4/v6, matcher states), '
          'value_roundtrip / value_roundtrip_valueTree, de_typed + value_de_typed (whatever the JSON, a stored '
          'value has its field\'s type and is well formed), de_never_stuck, unknown_field_rejected, '
          'wrong_type_rejected, utf8_dec_enc / utf8_enc_dec, serde_roundtrip_valueTree_partial (value tree, '
          'schemes without lists) with the negation witness valueTree_general_fails (F6). Tied to the code by '
          'the ctxser stream: JSON text equality, context equality per entry point, filter agreement, and '
          'exact agreement of deCtx with the implementation on mutated documents.',
 'note': 'Trusted: Lean kernel; axioms propext/Classical.choice/Quot.sound; harness. Hypotheses of the round '
         'trip: IpText.RoundTrip (std::net), matchersRoundTrip (user matcher), Scheme.WF (unique names, no '
         'field called `$lists`, one list per type). Text layer of serde_json sampled only. Known: F6 (value '
         'tree + lists, open), F3 (>=34-layer type tag panics, to be fixed).',
}
