"""C08 — configuration for bin/check and MANIFEST text."""
import os, sys
sys.path.insert(0, os.path.dirname(os.path.dirname(os.path.abspath(__file__))))
from wfcommon import COMMON_TRUST

PROP = {'assumptions': ['Scheme equality (Arc::ptr_eq) is modelled as equality of a per-build id; the second scheme of a '
                 'history is a different build of the same builder calls',
                 'Box<[Option<LhsValue>]> with index access, Option::replace, mem::take are modelled as a list '
                 'with set / take-out / put-back; an out-of-bounds index or a failed assert! is an explicit '
                 'stuck/panic outcome',
                 'BTreeMap collect is modelled as ordered insertion with overwrite; list matchers and user '
                 'data are not observed by this property (C17 covers matchers)',
                 'the evaluation inside Filter::execute is out of scope here: only the scheme decision is '
                 'modelled (the filter used is a constant-true function call)'],
 'modules': ['WfModel.Props.C08'],
 'rule': 'cases = whole operation histories on real ExecutionContexts (set_field_value with a FieldRef of the '
         "context's scheme or of a structurally identical second scheme, set_field_value_from_name incl. "
         'unknown / wrong-case / function names, get_field_value, clear, clone_with then ops on the clone, '
         'borrow_with + ops through the guard + drop or end of scope, take_with, Filter::execute with a '
         "filter of the own / the twin scheme); answer = every op's result (previous value through the "
         'codec, err-type, err-scheme, err-unknown, ctor-err when Array::try_from_vec / Map::try_from_iter '
         'refuse the value, panic) + final dump of original and clone + their equality: every sequence of '
         '<=4 (quick) / <=5 (thorough, plus length 6 over 10 ops) over a 16-op core alphabet on the scheme '
         '{n: Int, a: Array(Bytes), m: Map(Array(Int))}, every sequence of <=2 / <=3 over the ~90-op wide '
         'alphabet (per field 1-3 well-typed and 3-5 ill-typed values: wrong primitive, right container / '
         'wrong element type, right shape / wrong depth, heterogeneous), random histories of 3..12 ops over '
         'the wide alphabet and of 20..60 ops over a 9-field scheme with generated values; non-trivial = a '
         'rejected set next to an accepted one, or a guard/clone together with an accepted set; distinct '
         'by history',
 'streams': [{'name': 'ctxop', 'shards': {'quick': 4, 'thorough': 16}}],
 'trusted_base': COMMON_TRUST + [
                  'modelled, not verified: Arc::ptr_eq (fresh id per build), boxed slice indexing, '
                  'Option::replace, mem::take, BTreeMap insertion order, derived PartialEq of '
                  'ExecutionContext (used for the final equality bit), Rust borrow rules (a guard excludes '
                  'direct access to the original: the history language routes original-ops through the guard)']}

TEXT = {'design_ref': 'DESIGN.md section 3, C08',
 'level': 'Lean 4 theorems: ctx_refines_map (for every history the contexts = abstract partial maps field -> '
          'value, same result for every op, last successful set wins, guard transparent), ctx_typed_invariant '
          '(for every history every stored value has exactly the declared type and is well-formed at every '
          'depth), set_ok_iff / set_by_name_ok_iff / set_error_kinds (success iff same scheme and full '
          'nested type equality), set_returns_previous, set_fail_noop, clear_empties, clone_independent, '
          'guard_writes_through (history with borrow/drop removed gives the same maps and results), '
          'homogeneous / homogeneous_map / constructible_wf (checked constructors), '
          'execute_scheme_mismatch / execute_twin_mismatch. Tied to the code by a differential run of whole '
          'histories on real ExecutionContext / Array / Map / Filter objects.',
 'note': 'Trusted: Lean kernel; axioms propext/Classical.choice/Quot.sound; harness. Modelled not verified: '
         'Arc::ptr_eq, slice indexing, mem::take, BTreeMap. Not covered here: list matchers in the context '
         '(C17), serde (C14), the evaluation itself (C01-C04).',
 'technique': 'Lean 4 proof over executable model + differential correspondence with the real engine'}
