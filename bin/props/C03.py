"""C03 — configuration for bin/check and MANIFEST text."""
import os, sys
sys.path.insert(0, os.path.dirname(os.path.dirname(os.path.abspath(__file__))))
from wfcommon import COMMON_TRUST

PROP = {'assumptions': ['the harness function family (echo, lower, len, first, opt2 with two optional parameters, '
                 'dropempty, alen, addlit, b2i, blen, ConcatFunction, ctxfn) is modelled by simpleImpl / '
                 'concatImpl / FuncSig.ctxCounter; the recorded argument vectors are compared by the stream',
                 'evaluation has no effects, so memoised and per-element evaluation of the extra arguments '
                 'coincide (memo_eq_inline); closure compilation is modelled as direct evaluation',
                 'the definition context of ctxfn is modelled as a counter value threaded through '
                 'check_param; that all four accessors (as_any_ref/as_any_mut/downcast/into_any) expose the '
                 'same object is observed by the stream (the harness mutates through each accessor in turn), '
                 'not a Lean statement'],
 'modules': ['WfModel.Props.C03'],
 'rule': 'cases = (scheme with the harness function family, context of C02, filter or value expression '
         'containing calls) executed through the real engine; arguments from fields, index paths, literals, '
         'nested calls and parenthesised logical expressions, depth <= 3; the answer and the recorded '
         'argument vectors are compared with the model; non-trivial = the expression has a mapped call, a '
         'call with an omitted optional parameter, a nested call, concat with an absent argument, or ctxfn '
         'with >=2 arguments; distinct by (context, expression)',
 'streams': [{'name': 'exec-calls', 'shards': {'quick': 4, 'thorough': 16}}],
 'trusted_base': COMMON_TRUST + [
     'modelled, not verified: ExactSizeChain of supplied arguments and defaults (functions/mod.rs), '
     'Array::try_from_iter / typed push (the wrongly typed result outcomes are explicit Stuck values), '
     'the harness function implementations (harness/src/funcs.rs = simpleImpl)']}

TEXT = {'design_ref': 'DESIGN.md section 3, C03',
 'level': 'Lean 4 theorems: call_args (non-mapped call = implementation applied to the arguments evaluated '
          'left to right; args_in_order, args_length), call_args_defaults / full_vector (defaults.drop(k-|params|) '
          'appended), literal_as_written, absent_arg_typed, absent_result / absent_field / '
          'absent_result_like_absent_field / absent_result_comparison / absent_indistinguishable, mapped_call '
          '(+ mapped_call_filterMap closed form, mapped_call_empty, mapped_call_absent_first, '
          'memo_eq_inline), concat_none_iff / concat_spec_bytes / concat_spec_arrays / '
          'concat_other_first_stuck, ctx_threaded / ctx_stored / ctx_stored_parse / ctx_read_back / '
          'ctx_end_to_end. Tied to the code by the differential exec-calls stream (answers and recorded '
          'argument vectors).',
 'note': 'Trusted: Lean kernel; axioms propext/Classical.choice/Quot.sound; harness. Modelled not verified: '
         'the harness functions, ExactSizeChain, typed array construction. Not a Lean statement: agreement '
         'of the four accessor views of FunctionDefinitionContext (observed by the stream); '
         'mapped_result_indexable (S-level, the mapped result feeding C02 index theorems) is not proved here.',
 'technique': 'Lean 4 proof over executable model + differential correspondence with the real engine'}
