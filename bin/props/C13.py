"""C13 — configuration for bin/check and MANIFEST text."""
import os, sys
sys.path.insert(0, os.path.dirname(os.path.dirname(os.path.abspath(__file__))))
from wfcommon import COMMON_TRUST

PROP = {
    'assumptions': [
        'the model parser is defined by structural recursion on the remaining nesting budget '
        '(max_nesting_depth - current_nesting_depth); that the Rust parser behaves the same is '
        'established by the correspondence run, not by proof',
        'Spec.nesting is the property\'s measure: parentheses, not, any/all and function-call '
        'argument lists along the deepest path',
        'max_nesting_depth is a u16 in Rust; the theorems hold for every natural number',
    ],
    'modules': ['WfModel.Props.C13'],
    'rule': 'cases = (limit d, filter or value expression) pairs parsed by the real FilterParser with '
            'set_max_nesting_depth(d): d in 0..=8 x every sequence of the four nesting constructs '
            '(parenthesis, not, quantifier, function call) up to depth 6 (quick) / 9 (thorough) at '
            'boolean and array level, d in {16,64,128,129,200} x random shapes of depth d-1, d, d+1 with '
            'the deepest path in a function argument, a quantifier argument or the right operand of a '
            'chain; non-trivial = nesting of the shape is within 1 of d; distinct by (d, source)',
    # `nest` is the dedicated stream (coordinator); `exec-scalar` keeps the check runnable meanwhile
    'streams': [{'name': 'nest', 'shards': {'quick': 4, 'thorough': 16}},
               ],
    'trusted_base': COMMON_TRUST + [
        'bin/extract_c13.py anchors: ParserSettings::default().max_nesting_depth, the guard of '
        'with_increased_nesting, the number of with_increased_nesting call sites per file',
        'modelled, not verified: the literal lexers (opaque in these theorems), Scheme lookup',
    ],
}

TEXT = {
    'design_ref': 'DESIGN.md section 3, C13; Appendix A.6',
    'level': 'Lean 4 theorems for every scheme, setting and input string: accepted_le (every accepted '
             'filter / value expression has Spec.nesting <= max_nesting_depth; invariant proved for all '
             'four recursive entry points by induction on the budget), limit_monotone (more budget never '
             'changes an accepted parse, all entry points, no assumption on function names), '
             'limit_complete (a parse at budget D with nesting <= d <= D is the same parse at budget d), '
             'accepted_iff_nesting_le / rejected_of_nesting_gt (a filter accepted under some limit is '
             'accepted under d exactly when its nesting is <= d, otherwise an error), '
             'limit_error_kind_* (each exhausted-budget site yields NestingLimitExceeded with the Rust '
             'span), default_128 / guard_pinned / nesting_sites_pinned (extracted from parse.rs and the '
             'three AST files). Tied to the code by the differential stream with configured limits.',
    'note': 'The kind of the error *reported* for a too-deep filter is not always NestingLimitExceeded: '
            'inside a function argument the blind-parsing fallback of FunctionCallArgExpr::lex_with '
            'replaces it (proved only per site). Recursion depth of compile/execute/serialize/drop is '
            'bounded by the nesting of the AST by construction of those recursive functions; stack bytes '
            'are observed only by the correspondence run.',
    'technique': 'Lean 4 proof over executable model + differential correspondence with the real engine',
}
