"""C18 — configuration for bin/check and MANIFEST text."""
import os, sys
sys.path.insert(0, os.path.dirname(os.path.dirname(os.path.abspath(__file__))))
from wfcommon import COMMON_TRUST

PROP = {
    "modules": ["WfModel.Props.C18"],
    "streams": [{"name": "threads", "shards": {"quick": 2, "thorough": 8}}],
    "rule": "cases = (a) the sequential baseline of every (filter, context) pair of the round as ordinary `exec` lines compared with the model, (b) `oracle threads` lines: T in {4,16} (quick) / {2,4,16,64} (thorough) threads released by a barrier, each executing 400 random (filter, context) jobs on SHARED compiled filters (regex, wildcard, SIMD contains, in $list, map-each, function calls and generated filters) and shared or per-thread contexts, recompiling every 50th job, repeated 3/12 times per thread count, every thread's results compared with the baseline; (c) `oracle threads-firstuse`: 16 threads racing their first engine use in a fresh child process (every third child with WIREFILTER_USE_AVX2=0); non-trivial = an oracle line (>= 2 threads overlapped); distinct by (T, round, repetition)",
    "trusted_base": COMMON_TRUST + [
        "partial: data races, the regex engine's cache pool, allocator and OS scheduler are runtime behaviour that no theorem about the interleaving model exhibits; they are explored by the threads stream only",
        "modelled: LazyLock once-semantics of USE_AVX2 (first reader initialises), Send+Sync closures as pure functions of (filter, context)",
    ],
    "assumptions": [
        "an execution step reads only immutable data and the latch (what `Fn + Send + Sync` closures over `&ExecutionContext` guarantee in safe Rust)",
        "third-party SIMD search and regex engines are thread-safe (sampled)",
    ],
}

TEXT = {
    "level": "Lean 4 theorems about an interleaving model (interleaving_invariant: for every schedule and thread count each thread observes exactly its sequential results; latch_once: every execution in a run sees the same USE_AVX2 value; recompile_irrelevant: any latch value / anchor gives the core evaluator's `contains`, via C10), plus a multi-thread exploration of the real engine against its own sequential baseline, which in turn is compared with the model. Partial: the Rust memory model, the regex cache pool and the scheduler are explored, not proved.",
    "design_ref": "DESIGN.md section 3, C18",
    "note": "Trusted: Lean kernel; axioms propext/Classical.choice/Quot.sound; harness. The theorem is about the abstract executor; real concurrency hazards (data races in unsafe code of third-party crates, lazy statics) are only sampled by the threads stream (barrier-released threads, fresh-process first-use races).",
    "technique": "Lean 4 proof over an interleaving model + multi-thread differential exploration",
}
