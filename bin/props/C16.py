"""C16 — configuration for bin/check and MANIFEST text."""
import os, sys
sys.path.insert(0, os.path.dirname(os.path.dirname(os.path.abspath(__file__))))
from wfcommon import COMMON_TRUST

PROP = {'assumptions': ['HashMap<Arc<str>, _> / HashMap<Type, _> with the Entry API behave as finite maps keyed by string / '
                 'Type equality (modelled as association lists; a binding is only pushed on Vacant)',
                 'Arc::ptr_eq identity is modelled as a fresh id per build() call; clone() copies the id',
                 'function and list definitions are opaque to the registry (only the name / type is kept)',
                 'the parser around an identifier is modelled only for bare `name` and `name()` texts '
                 '(no index, no operator, zero-parameter Bool functions)',
                 'Props/C16Ident.lean is stated over the MAIN parser model (Model/Parse.lean: lexUnary = '
                 'LogicalExpr::lex_unary_op, used by simpleL = lex_simple_expr and argL = FunctionCallArgExpr::lex_with): '
                 'valid names are dotted identifiers seg(.seg)* (nameOk, decidable); the whole-filter theorems need '
                 'the name to differ from the bare word `not` (which always is the operator; sharp) and, for a bare '
                 'Bool field, from any/all; the comparison form covers the six ordering operators with int / bytes / '
                 'ip literals (Lit) and, at whole-filter level, asks that the text has no trailing white space '
                 '(htrim, decidable); that model is tied to the engine by the streams of C01-C05/C07/C13/C17 whose '
                 'generated scheme now has the fields notes, not_b, es and filters with `not` glued to its operand'],
 'modules': ['WfModel.Props.C16', 'WfModel.Props.C16Ident'],
 'rule': 'cases = whole registration histories executed on the real SchemeBuilder, each followed by 33 lookup '
         'texts (pool names x, x.y, x.y.z, X, xy, x_y, their prefixes, extensions, case variants, dangling '
         'dots, stop characters, surrounding spaces) through get_field / get_function / parse / parse_value '
         '(bare and as call) and 6 types through get_list, plus fields()/functions()/lists() and the counts: '
         'every sequence of <=3 (quick) / <=4 (thorough) calls over the full alphabet (3 kinds x 6 names + 3 '
         'list types), every sequence of <=5 / <=6 calls over an 8-symbol alphabet on the names x, x.y, X, '
         'and random histories of 4..8 / 4..12 calls that also register un-lexable names; non-trivial = a '
         'call was rejected or two registered names are related by prefix or case; distinct by history',
 'streams': [{'name': 'regop', 'shards': {'quick': 4, 'thorough': 16}}],
 'trusted_base': COMMON_TRUST + [
                  'modelled, not verified: std HashMap/Entry (finite map), Arc pointer identity (fresh id), '
                  "str::trim, ParseError's Debug rendering (used by the harness to read the error span)"]}

TEXT = {'design_ref': 'DESIGN.md section 3, C16',
 'level': 'Lean 4 theorems for every registration history (induction over the call list): '
          'registry_consistent (items/fields/functions/list_types/lists index each other, unique keys), '
          'add_ok_iff_fresh + add_function_ok_iff_fresh (one namespace), add_fail_reports_holder, '
          'add_fail_noop, list_once_per_type, registry_refines (builder = abstract maps Name -> Kind x Index, '
          'Index -> registration, Type -> Index, same result for every call), index_is_insertion_order, '
          'field_reports_registration (name/type/optionality/index survive all later calls), lookup_exact, '
          'field_function_disjoint, identifier_maximal (the identifier token is exactly a maximal dotted run; '
          'dangling/double dot = lex error), resolve_complete_name, scheme_eq_iff_same_build. Tied to the '
          'code by a differential run of whole histories on the real SchemeBuilder/Scheme/parser. '
          'Props/C16Ident.lean (main parser model, after the fix of F13): lex_unary_op_declines_iff / '
          'lex_unary_op_takes_iff (the exact rule of LogicalExpr::lex_unary_op: `!` always, the word `not` unless '
          'name characters are glued to it AND Identifier::lex_with succeeds at the `n`), registered_means_maximal_run, '
          'unary_declines_registered_name (every registered valid name other than `not` is declined before every '
          'identifier-ending continuation), bare_not_is_operator, registered_bool_field_resolves (for every '
          'registered Bool field n with nameOk n, n != not/any/all, FilterParser::parse of the text n is the bare-field '
          'node of exactly field n - also when n begins with `not`), registered_field_cmp_resolves(_level) (the same '
          'for `n ws op ws literal`, any ordering operator / alias / layout / literal form), arg_registered_not_name '
          '(a function argument starting with such a name is lexed as that field), with examples on a scheme notes, '
          'es, not_b, _b, not.x, len().',
 'note': 'Trusted: Lean kernel; axioms propext/Classical.choice/Quot.sound; harness. Modelled not verified: '
         'HashMap entry API, Arc::ptr_eq, str::trim. The parser is modelled only as far as bare `name` / '
         '`name()` texts need (identifier scanner + one lookup + empty call parentheses); the unary-operator rule '
         'of lex_unary_op is modelled there as unaryPrefix and in the main parser model as lexUnary '
         '(Props/C16Ident.lean states the resolution theorems over the latter).',
 'technique': 'Lean 4 proof over executable model + differential correspondence with the real engine'}
