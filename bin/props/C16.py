"""C16 — configuration for bin/check and MANIFEST text."""
import os, sys
sys.path.insert(0, os.path.dirname(os.path.dirname(os.path.abspath(__file__))))
from wfcommon import COMMON_TRUST

PROP = {'assumptions': ['HashMap<Arc<str>, _> / HashMap<Type, _> with the Entry API behave as finite maps keyed by string / '
                 'Type equality (modelled as association lists; a binding is only pushed on Vacant)',
                 'Arc::ptr_eq identity is modelled as a fresh id per build() call; clone() copies the id',
                 'function and list definitions are opaque to the registry (only the name / type is kept)',
                 'the parser around an identifier is modelled only for bare `name` and `name()` texts '
                 '(no index, no operator, zero-parameter Bool functions)'],
 'modules': ['WfModel.Props.C16'],
 'rule': 'cases = whole registration histories executed on the real SchemeBuilder, each followed by 33 lookup '
         'texts (pool names x, x.y, x.y.z, X, xy, x_y, their prefixes, extensions, case variants, dangling '
         'dots, stop characters, surrounding spaces) through get_field / get_function / parse / parse_value '
         '(bare and as call) and 6 types through get_list, plus fields()/functions()/lists() and the counts: '
         'every sequence of <=3 (quick) / <=4 (thorough) calls over the full alphabet (3 kinds x 6 names + 3 '
         'list types), every sequence of <=5 / <=6 calls over an 8-symbol alphabet on the names x, x.y, X, '
         'and random histories of 4..8 / 4..12 calls that also register un-lexable names; non-trivial = a '
         'call was rejected or two registered names are related by prefix or case; distinct by history',
 'streams': [{'name': 'regop', 'shards': {'quick': 4, 'thorough': 16}}],
 'trusted_base': COMMON_TRUST + [
                  'modelled, not verified: std HashMap/Entry (finite map), Arc pointer identity (fresh id), '
                  "str::trim, ParseError's Debug rendering (used by the harness to read the error span)"]}

TEXT = {'design_ref': 'DESIGN.md section 3, C16',
 'level': 'Lean 4 theorems for every registration history (induction over the call list): '
          'registry_consistent (items/fields/functions/list_types/lists index each other, unique keys), '
          'add_ok_iff_fresh + add_function_ok_iff_fresh (one namespace), add_fail_reports_holder, '
          'add_fail_noop, list_once_per_type, registry_refines (builder = abstract maps Name -> Kind x Index, '
          'Index -> registration, Type -> Index, same result for every call), index_is_insertion_order, '
          'field_reports_registration (name/type/optionality/index survive all later calls), lookup_exact, '
          'field_function_disjoint, identifier_maximal (the identifier token is exactly a maximal dotted run; '
          'dangling/double dot = lex error), resolve_complete_name, scheme_eq_iff_same_build. Tied to the '
          'code by a differential run of whole histories on the real SchemeBuilder/Scheme/parser.',
 'note': 'Trusted: Lean kernel; axioms propext/Classical.choice/Quot.sound; harness. Modelled not verified: '
         'HashMap entry API, Arc::ptr_eq, str::trim. The parser is modelled only as far as bare `name` / '
         '`name()` texts need (identifier scanner + one lookup + empty call parentheses).',
 'technique': 'Lean 4 proof over executable model + differential correspondence with the real engine'}
