"""C11 — configuration for bin/check and MANIFEST text."""
import os, sys
sys.path.insert(0, os.path.dirname(os.path.dirname(os.path.abspath(__file__))))
from wfcommon import COMMON_TRUST

PROP = {
    'modules': ['WfModel.Props.C11'],
    'streams': [
        {'name': 'wild', 'shards': {'quick': 4, 'thorough': 16}},
        {'name': 'rx', 'shards': {'quick': 4, 'thorough': 16}},
    ],
    'rule': 'stream wild: ALL literal bodies over {a,B,*,\\,?} up to length 5 (quick) / 7 (thorough), each as a quoted '
            'and as a raw literal, x `wildcard` / `strict wildcard`, parsed by the real parser under star limits '
            '0,1,2,3,4 and unlimited (parser_with_settings and wildcard_set_star_limit) - outcome and error kind '
            'compared with the model; every accepted filter executed on ALL values over {a,A,b,B,0xff} up to length '
            '4 (quick) / 5 (thorough) (one `wildm` line = one execution per value; counted as such) plus readable '
            'single-value lines; extra spellings (hashes, \\x / octal escapes, embedded quotes, non-ASCII). '
            'stream rx: ALL quoted-regex sources over {a,\\,",[,],-} up to length 6 (quick) / 8 (thorough) with and '
            'without closing quote and rest - pattern string from the AST JSON, end of literal (from AST / error '
            'position) and error class compared with the model scanner; generated regex-subset patterns in quoted '
            'and raw spelling x ~22 values (non-UTF-8, newline, case, empty): each (pattern, value) execution is an '
            '`rxm match` line (raw spelling) and an `rxm lit` line (quoted spelling, through the model scanner) '
            'answered by the PROVED Lean derivative matcher (Rx.parse + Rx.search) whenever the pattern is inside '
            'the model subset - literals incl. unescaped punctuation and non-ASCII characters, escapes, \\xHH, `.`, '
            'classes with ranges/negation/escapes/Perl classes, \\d\\w\\s\\D\\W\\S, ? * +, alternation, ( ) and '
            '(?: ), ^ $ anywhere (also under * in groups); lines whose pattern the generator places inside the subset '
            'carry the flag `m` and the driver must answer them (`nosubset` = disagreement), so the tag '
            'rxm.model_answers / (rxm.model_answers + rxm.model_may_skip) in the histogram is the measured fraction of '
            'rxm lines decided by the proved matcher; the others (flag prefixes (?i) (?s)) are `skip` for the '
            'model; ALL of them are also compared between spellings and with a harness-side backtracking reference '
            'matcher (second oracle); a table of targeted semantics cases (`rxm targeted`, model-answered unless '
            'flagged); invalid-regex and compiled-size-limit cases (harness-side only). non-trivial = wildp lines where limits disagree, every '
            'execution line, scanner sources containing \\ [ or "; distinct by op line',
    'assumptions': [
        'wildcard::Wildcard::is_match implements its documented contract (whole-value match, * = any sequence); its backtracking loop is not modelled - compared exhaustively on the small alphabet only',
        'regex-automata / regex-syntax (syntax, compilation, size accounting, search) stay third party and are NOT modelled: the engine is only COMPARED, on generated patterns x values, with the Lean matcher that is proved correct against the declarative language (deriv_correct, search_unanchored)',
        'Rx.parse (pattern text -> regex AST) is the model\'s reading of the regex-syntax grammar for the subset; that it agrees with regex-syntax is tied by the correspondence only. Patterns outside the subset (counted repetition, flags, lazy/stacked quantifiers, named groups, \\p{..}, \\b, nested classes/set operations, literal - ^ & ~ [ inside a class) are `skip`',
        'string-literal lexing (quoted escapes, raw strings) is modelled in the driver for the correspondence only; its laws belong to C06',
    ],
    'trusted_base': COMMON_TRUST + [
        'harness-side reference regex matcher (backtracking, subset) used as SECOND oracle for regex matching (first: the proved Lean matcher)',
        'third party, only compared / sampled, not verified: crates regex-automata 0.4 / regex-syntax 0.8 (never modelled), wildcard 0.3.0 (parser mirrored line by line; matcher by contract), serde_json (pattern string in the AST JSON)',
    ],
}

TEXT = {
    'design_ref': 'DESIGN.md section 3, C11',
    'level': 'PARTIAL. Lean 4 theorems: wildcard parser = grammar (`*` metasymbol; only `\\*` and `\\\\` escapes; `?` literal; '
             'trailing `\\`, `\\?`, `\\a` errors) with render round-trip; reference matcher = split specification '
             '(whole value, `*` any byte sequence, literals equal up to ASCII folding iff not strict); strict/non-strict '
             'wiring on plain patterns; validation accepted <-> in grammar AND stars <= limit AND no adjacent stars, with the '
             'error order of the Rust code; quoted-regex scanner: scan(escape(p) ++ quote ++ rest) = (p, rest) for every '
             'expressible p, its converse (every successful scan consumed exactly escape(p) ++ quote), only `\\"` outside '
             'a class is un-escaped, quote inside a class does not terminate, missing quote/trailing backslash = error. '
             'Regex matching on a documented subset: parser + position-aware Brzozowski-derivative matcher over BYTES in the '
             'model; deriv_correct (matcher decides the declarative language Rx.Matches for all regexes incl. ^ $, all words, '
             'all placements), search_unanchored (`matches` holds iff some substring is in the language, anchors seeing the true '
             'haystack ends), anchors_pin_the_ends, star_nonempty_pieces, dot_is_any_byte_but_newline, class_is_byte_set, '
             'hex_escape_is_byte, literal_char_utf8, perl_classes_ascii, parse_literal (metacharacter-free pattern = substring '
             'search Search.naive for its UTF-8 bytes). The driver answers the rxm lines with this matcher. '
             'NOT proved: regex-automata and the wildcard crate\'s matcher themselves (third party) - compared by exhaustive '
             'small-alphabet and generated-subset correspondence; agreement of Rx.parse with regex-syntax (correspondence only); '
             'patterns outside the subset.',
    'note': 'Trusted: Lean kernel; axioms propext/Classical.choice/Quot.sound; extractor (builder flags, validation order, '
            'operator wiring, regex syntax flags, is_match body, scanner arms); harness incl. its reference regex matcher. Residue: third-party '
            'matchers are sampled (regex: against a proved matcher on the subset), regex size-limit arithmetic only checked for direction on known-large patterns.',
    'technique': 'Lean 4 proof over executable model + exhaustive small-alphabet differential correspondence with the real engine',
}
